/-
  C01 (generated-code level), third part: the remaining region of `bid128_add` (`C01GenAddLoop.Remaining`), under the
  specification `RoundBlockSpec` of the inline block "round C2 by x1 digits with the reciprocal BID_TEN2MK128[x1 − 1]"
  (proved separately in `C01GenAddRoundBlock.lean`: `Dec.C01GenAddRoundBlock.roundBlockSpec`, which imports this file — so
  the unconditional headline lives in a file importing both).

  §0   the block as word-level functions `rbC2 rbHf rbQ rbGtHalf rbGtT rbMid`, `RoundBlockSpec` (frozen).
  §1–4 (b) the sub-case "delta = P34, opposite signs, first coefficient a power of ten" (region of the former defect D1):
       `add_d34pow_core`, `PowCond`, `add_d34pow (H : RoundBlockSpec)`: `bid128_add = addD`, datum and flags, all 5 modes.
  §5–8 (a) the rounding loop `34 − q_L < delta < 34`, the part "one turn, one rounding" (`Loop1Cond`): `loop_first`, the
       frame tactics (`kframe`, `klet`, `kgen_args`, `khead_cases`, `kname`), `scaleK_ok'`, `add_adjust`, `sub_adjust`,
       `finish_add1`, `finish_sub1`, `loop1_code`, `add_loop1_core`, `add_loop1 (H : RoundBlockSpec)`.
  §9   `LoopRegion`, `PowRegion`, `Loop1Region`; what is left: `LoopRestRounding` (same signs and the padded sum may reach
       35 digits: second rounding with `BID_TEN2MK128[0]` and the double-rounding repair; opposite signs and the difference
       may fall to `10^33` or below: `second_pass`); `add_rounding_partial (H) (HR : LoopRestRounding) : AddRounding`,
       `bid128_add_spec_partial2`, `bid128_sub_spec_partial2`, `bid128_add_spec_closed`.
  Findings: none (no deviation from `addD` in the regions proved; the witness of D1 is an example in §4).
-/
import DecProofs.Properties.C01GenAddLoop

namespace Dec.C01GenAddRound
open Dec.Rs Dec.Gen.Code Dec.C06GenFromInt Dec.C12GenNaN Dec.C01GenAdd Dec.C01GenAddLoop
open Dec.C13GenPack (md)
set_option linter.unusedVariables false

/-! ## 0. The inline rounding block of `bid128_add`, as word-level functions, and what is needed of it

The block occurs twice in `bid128_add` (bid128_add.rs: in the rounding loop, and in the sub-case "first coefficient a power of
ten, opposite signs" of the branch `delta = P34`).  With `ind = x1 − 1`, `C2 = (C2_hi, C2_lo)`:
    C2 += midpoint(10^x1 / 2)                    BID_MIDPOINT64[ind]  (ind ≤ 18)  /  BID_MIDPOINT128[ind − 19]
    R256 = C2 · BID_TEN2MK128[ind]               __mul_128x128_to_256
    highf2star = the bits of R256 between bit 128 and the shift      BID_MASKHIGH128[ind]        (ind ≥ 3)
    R256.w[3], w[2] >>= shift                                          BID_SHIFTRIGHT128[ind]      (ind ≥ 3)
    tests on the fraction f* = (highf2star, R256.w[1], R256.w[0]):    BID_ONEHALF128[ind], BID_TEN2MK128TRUNC[ind]
The two copies differ only in which indicator variables they set from the three tests; the functions below are the common
part, with the table entries as arguments. -/

/-- `C2 + midpoint` as the code adds it (wrapping word additions with the carry test `C2.w[0] < C2_lo`) -/
def rbC2 (ind : Nat) (bh bl : UInt64) (m64 : UInt64) (m128 : U128) : U128 :=
  if ind ≤ 18 then ⟨bl + m64, if decide (bl + m64 < bl) = true then bh + 1 else bh⟩
  else ⟨bl + m128.w0, if decide (bl + m128.w0 < bl) = true then bh + m128.w1 + 1 else bh + m128.w1⟩

/-- `highf2star` (`w0`, `w1`) -/
def rbHf (ind : Nat) (R : U256) (mask : UInt64) : U128 :=
  if ind ≤ 2 then ⟨0, 0⟩ else if ind ≤ 21 then ⟨R.w2 &&& mask, 0⟩ else ⟨R.w2, R.w3 &&& mask⟩

/-- the two high words of `R256` after the shift: `(w2, w3)` -/
def rbQ (ind : Nat) (R : U256) (sh : Int32) : UInt64 × UInt64 :=
  if 3 ≤ ind then
    (if decide (sh < (0x40 : Int32)) = true then
      ((R.w2 >>> (UInt64.ofInt (toI sh))) ||| (R.w3 <<< (UInt64.ofInt (toI ((0x40 : Int32) - sh)))), R.w3 >>> (UInt64.ofInt (toI sh)))
    else (R.w3 >>> (UInt64.ofInt (toI (sh - (0x40 : Int32)))), 0))
  else (R.w2, R.w3)

/-- the test "f* > 1/2" (three forms by `ind`) -/
def rbGtHalf (ind : Nat) (R : U256) (hf : U128) (oh : UInt64) : Bool :=
  if ind ≤ 2 then
    (decide (R.w1 > (0x8000000000000000 : UInt64)) || (R.w1 == (0x8000000000000000 : UInt64) && decide (R.w0 > (0 : UInt64))))
  else if ind ≤ 21 then
    ((decide (hf.w1 > (0 : UInt64)) || (hf.w1 == (0 : UInt64) && decide (hf.w0 > oh))) ||
      ((hf.w1 == (0 : UInt64) && hf.w0 == oh) && (R.w1 != (0 : UInt64) || R.w0 != (0 : UInt64))))
  else
    (decide (hf.w1 > oh) || (hf.w1 == oh && ((hf.w0 != (0 : UInt64) || R.w1 != (0 : UInt64)) || R.w0 != (0 : UInt64))))

/-- the test "f* − 1/2 exceeds 10^(−x1) (truncated)" made when `f* > 1/2` (three forms by `ind`; note `≥` on the low word in
the first form and `>` in the others, as in the source) -/
def rbGtT (ind : Nat) (R : U256) (hf : U128) (oh : UInt64) (tr : U128) : Bool :=
  if ind ≤ 2 then
    (decide (R.w1 - (0x8000000000000000 : UInt64) > tr.w1) ||
      (R.w1 - (0x8000000000000000 : UInt64) == tr.w1 && decide (R.w0 ≥ tr.w0)))
  else if ind ≤ 21 then
    ((((if decide (hf.w0 - oh > hf.w0) = true then hf.w1 - 1 else hf.w1) != (0 : UInt64) || hf.w0 - oh != (0 : UInt64)) ||
        decide (R.w1 > tr.w1)) || (R.w1 == tr.w1 && decide (R.w0 > tr.w0)))
  else
    (((hf.w1 - oh != (0 : UInt64) || hf.w0 != (0 : UInt64)) || decide (R.w1 > tr.w1)) ||
      (R.w1 == tr.w1 && decide (R.w0 > tr.w0)))

/-- the midpoint test "0 < f* ≤ 10^(−x1) (truncated)" -/
def rbMid (R : U256) (hf : U128) (tr : U128) : Bool :=
  (((R.w1 != (0 : UInt64) || R.w0 != (0 : UInt64)) && hf.w1 == (0 : UInt64)) && hf.w0 == (0 : UInt64)) &&
    (decide (R.w1 < tr.w1) || (R.w1 == tr.w1 && decide (R.w0 ≤ tr.w0)))

/-- **what is needed of the block**: for every coefficient `C = (bh, bl) < 10^34` and every `ind ≤ 32` (`x1 = ind + 1` digits
to remove) the table reads succeed, and for the 256-bit product `R` of `C + midpoint` with the reciprocal:
the shifted high words are `C / 10^x1` rounded half up; "f* > 1/2" says the remainder is below half; then "f* − 1/2 > T*" says
it is not zero; the midpoint test says the remainder is exactly half. -/
def RoundBlockSpec : Prop :=
  ∀ (bh bl : UInt64) (ind : Nat), ind ≤ 32 → bh.toNat * 2^64 + bl.toNat < 10^34 →
    ∃ (m64 : UInt64) (m128 K tr : U128) (mask oh : UInt64) (sh : Int32),
      (ind ≤ 18 → tbl64 Dec.Gen.BID_MIDPOINT64 (UInt64.ofNat ind) = .ok m64) ∧
      (¬ ind ≤ 18 → tbl128 Dec.Gen.BID_MIDPOINT128 (UInt64.ofNat (ind - 19)) = .ok m128) ∧
      tbl128 Dec.Gen.BID_TEN2MK128 (UInt64.ofNat ind) = .ok K ∧
      tbl128 Dec.Gen.BID_TEN2MK128TRUNC (UInt64.ofNat ind) = .ok tr ∧
      (3 ≤ ind → tbl64 Dec.Gen.BID_MASKHIGH128 (UInt64.ofNat ind) = .ok mask) ∧
      (3 ≤ ind → tblI32 Dec.Gen.BID_SHIFTRIGHT128 (UInt64.ofNat ind) = .ok sh) ∧
      (3 ≤ ind → tbl64 Dec.Gen.BID_ONEHALF128 (UInt64.ofNat ind) = .ok oh) ∧
      ∀ R : U256, R.toNat' = (rbC2 ind bh bl m64 m128).toNat' * K.toNat' →
        ((rbQ ind R sh).2.toNat * 2^64 + (rbQ ind R sh).1.toNat =
            if (bh.toNat * 2^64 + bl.toNat) % 10^(ind+1) < 10^(ind+1) / 2 then (bh.toNat * 2^64 + bl.toNat) / 10^(ind+1)
            else (bh.toNat * 2^64 + bl.toNat) / 10^(ind+1) + 1) ∧
        rbGtHalf ind R (rbHf ind R mask) oh = decide ((bh.toNat * 2^64 + bl.toNat) % 10^(ind+1) < 10^(ind+1) / 2) ∧
        ((bh.toNat * 2^64 + bl.toNat) % 10^(ind+1) < 10^(ind+1) / 2 →
          rbGtT ind R (rbHf ind R mask) oh tr = decide (0 < (bh.toNat * 2^64 + bl.toNat) % 10^(ind+1))) ∧
        rbMid R (rbHf ind R mask) tr = decide ((bh.toNat * 2^64 + bl.toNat) % 10^(ind+1) = 10^(ind+1) / 2)

open Dec.C01GenAdd.Sym Dec.C01GenAddLoop.Sym2
open Dec.C13GenNoncomp (bmod32 ten2k64_get)
set_option linter.unusedTactic false
set_option linter.unreachableTactic false
set_option linter.unusedSimpArgs false

/-! ## 1. Helpers -/

open Lean Meta Elab Tactic in
/-- β-reduce the application at the head of the left-hand side (enter a join point) without touching its `have`s -/
elab "head_beta" : tactic => withMainContext do
  let g ← getMainGoal
  let t := (← instantiateMVars (← g.getType)).consumeMData
  let some (ty, lhs, rhs) := t.eq? | throwError "head_beta: not an equation"
  let g' ← g.replaceTargetDefEq (← mkEq lhs.headBeta rhs)
  replaceMainGoal [g']

open Lean Meta Elab Tactic in
/-- β-reduce the head of the left-hand side and substitute the `have`s in front of it (no unfolding of local definitions) -/
elab "head_zeta" : tactic => withMainContext do
  let g ← getMainGoal
  let t := (← instantiateMVars (← g.getType)).consumeMData
  let some (ty, lhs, rhs) := t.eq? | throwError "head_zeta: not an equation"
  let rec go (e : Expr) (fuel : Nat) : Expr :=
    match fuel with
    | 0 => e
    | fuel + 1 =>
      match e with
      | .letE _ _ v b _ => go (b.instantiate1 v) fuel
      | .mdata _ e => go e fuel
      | e => let e' := e.headBeta; if e' == e then e else go e' fuel
  let g' ← g.replaceTargetDefEq (← mkEq (go lhs 1000) rhs)
  replaceMainGoal [g']

open Dec.C13GenNoncomp (bmod32 ten2k64_get)

/-- the multiplication `C1 · 10^scale` of the power-of-ten sub-case of `delta = P34`, as the code selects it -/
def powK {β : Type} (q1 sc : Int32) (ah al : UInt64) (K : U128 → Except String β) : Except String β :=
  if decide (sc ≥ 20) = true then (do
    let t ← tbl128 Dec.Gen.BID_TEN2K128 (UInt64.ofInt (toI (sc - 20)))
    let C1 ← mul_128x64_to_128 al t
    K C1)
  else
    (if decide (q1 ≤ 19) = true then (do
      let t ← tbl64 Dec.Gen.BID_TEN2K64 (UInt64.ofInt (toI sc))
      let C1 ← mul_64x64_to_128MACH al t
      K C1)
    else (do
      let t ← tbl64 Dec.Gen.BID_TEN2K64 (UInt64.ofInt (toI sc))
      let C1 ← mul_128x64_to_128 t ⟨al, ah⟩
      K C1))

theorem powK_ok {β : Type} (q1 sc : Int32) (ah al : UInt64) (C Q S : Nat) (hC : ah.toNat * 2^64 + al.toNat = C)
    (hq : q1.toInt = Q) (hsc : sc.toInt = S) (hQ : Q = ndigits C) (hC0 : 0 < C) (hS1 : 1 ≤ S) (hfit : Q + S ≤ 35) :
    ∃ P : U128, P.toNat' = C * 10 ^ S ∧ ∀ K : U128 → Except String β, powK q1 sc ah al K = K P := by
  have hl := al.toNat_lt
  have hQ1 : 1 ≤ Q := by rw [hQ]; exact ndigits_pos hC0
  have h1 : C < 10 ^ Q := by rw [hQ]; exact lt_pow_ndigits C
  have hlt : C * 10 ^ S < 10 ^ 35 := by
    calc C * 10 ^ S < 10 ^ Q * 10 ^ S := Nat.mul_lt_mul_of_pos_right h1 (Nat.pow_pos (by decide))
      _ = 10 ^ (Q + S) := (Nat.pow_add _ _ _).symm
      _ ≤ 10 ^ 35 := Nat.pow_le_pow_right (by decide) hfit
  have h20 : (20 : Int32).toInt = 20 := by decide
  by_cases c0 : 20 ≤ S
  · have hs20 : decide (sc ≥ 20) = true := by rw [i32_ge, hsc, h20]; exact decide_eq_true (by omega)
    have hCs : C < 10^19 := lt_of_lt_of_le h1 (Nat.pow_le_pow_right (by decide) (by omega))
    have hh0 : ah.toNat = 0 := by
      have : (10:Nat)^19 < 2^64 := by decide
      omega
    have hlC : al.toNat = C := by omega
    have hs' : (sc - 20).toInt = ((S - 20 : Nat) : Int) := by
      rw [Int32.toInt_sub, hsc, h20, bmod32 _ (by omega) (by omega)]; omega
    obtain ⟨v, hv, hv10⟩ := ten2k128_get19 (S - 20) (by omega)
    obtain ⟨r, hr, hrv⟩ := C01GenArith.gen_mul_128x64_to_128_exact al v (by
      rw [hv10, hlC, show S - 20 + 20 = S from by omega]
      exact lt_trans hlt (by decide))
    refine ⟨r, by rw [hrv, hv10, hlC, show S - 20 + 20 = S from by omega], fun K => ?_⟩
    unfold powK
    rw [if_pos hs20, idx_i32 (sc - 20) (S - 20) hs', hv, bind_ok, hr, bind_ok]
  · have hs20 : ¬ decide (sc ≥ 20) = true := by rw [i32_ge, hsc, h20]; simpa using c0
    obtain ⟨v, hv, hv10⟩ := ten2k64_get S (by omega)
    by_cases c2 : Q ≤ 19
    · have hq19 : decide (q1 ≤ 19) = true := by rw [i32_le_lit, hq]; exact decide_eq_true (by simpa using c2)
      have hCs : C < 10^19 := lt_of_lt_of_le h1 (Nat.pow_le_pow_right (by decide) c2)
      have hh0 : ah.toNat = 0 := by
        have : (10:Nat)^19 < 2^64 := by decide
        omega
      have hlC : al.toNat = C := by omega
      obtain ⟨r, hr, hrv⟩ := C01GenArith.gen_mul_64x64_to_128MACH al v
      refine ⟨r, by rw [hrv, hv10, hlC], fun K => ?_⟩
      unfold powK
      rw [if_neg hs20, if_pos hq19, idx_i32 sc S hsc, hv, bind_ok, hr, bind_ok]
    · have hq19 : ¬ decide (q1 ≤ 19) = true := by rw [i32_le_lit, hq]; simpa using c2
      obtain ⟨r, hr, hrv⟩ := C01GenArith.gen_mul_128x64_to_128_exact v ⟨al, ah⟩ (by
        rw [hv10]
        show 10^S * (al.toNat + 2^64 * ah.toNat) < 2^128
        rw [show al.toNat + 2^64 * ah.toNat = C from by omega, Nat.mul_comm]
        exact lt_trans hlt (by decide))
      refine ⟨r, ?_, fun K => ?_⟩
      · rw [hrv, hv10]
        show 10^S * (al.toNat + 2^64 * ah.toNat) = _
        rw [show al.toNat + 2^64 * ah.toNat = C from by omega, Nat.mul_comm]
      · unfold powK
        rw [if_neg hs20, if_neg hq19, idx_i32 sc S hsc, hv, bind_ok, hr, bind_ok]
theorem mid_glue (x a b c : Bool) :
    (if x = true then (if a = true then true else if b = true then c else false) else false) = (x && (a || (b && c))) := by
  cases x <;> cases a <;> cases b <;> rfl
theorem or_glue (a b c : Bool) : (if a = true then true else if b = true then c else false) = (a || (b && c)) := by
  cases a <;> cases b <;> rfl
theorem g2_glue (a b c d e : Bool) :
    (if (if a = true then true else if b = true then c else false) = true then true else (if b = true then d else false) && e)
      = ((a || (b && c)) || ((b && d) && e)) := by
  cases a <;> cases b <;> cases c <;> rfl
theorem t2_glue (x y b c : Bool) :
    (if (if x = true then true else y) = true then true else if b = true then c else false) = ((x || y) || (b && c)) := by
  cases x <;> cases y <;> cases b <;> rfl
theorem or1_glue (a y : Bool) : (if a = true then true else y) = (a || y) := by
  cases a <;> rfl
theorem pf_glue (f : UInt32) (rv : Nat) :
    (if decide (0 < rv) = true then f ||| c_StatusFlags_BID_INEXACT_EXCEPTION else f)
      = if rv = 0 then f else f ||| c_StatusFlags_BID_INEXACT_EXCEPTION := by
  by_cases r0 : rv = 0
  · rw [if_pos r0, if_neg (by simp [r0])]
  · rw [if_neg r0, if_pos (by simpa using Nat.pos_of_ne_zero r0)]
theorem gtm_glue (rv h : Nat) (hlt : rv < h) :
    (if decide (0 < rv) = true then true else false) = decide (0 < rv ∧ rv < h) := by
  by_cases r0 : 0 < rv
  · rw [if_pos (decide_eq_true r0)]; exact (decide_eq_true ⟨r0, hlt⟩).symm
  · rw [if_neg (by simpa using r0)]; exact (decide_eq_false (fun hh => r0 hh.1)).symm
theorem even34 : (10:Nat)^34 = 2 * (5 * 10^33) := by decide

theorem words_of_toNat' (P : U128) (n : Nat) (h : P.toNat' = n) : P.w1.toNat * 2^64 + P.w0.toNat = n := by
  rw [← h]; show _ = P.w0.toNat + 2^64 * P.w1.toNat; omega

theorem pow_pad (QA : Nat) (h1 : 1 ≤ QA) (h : QA ≤ 34) : 10 ^ (QA - 1) * 10 ^ (35 - QA) = 10 ^ 34 := by
  rw [← Nat.pow_add]; congr 1; omega
theorem exp_plus (eb : UInt64) (x : Int32) (B S : Nat) (hb : eb.toNat = B * 2^49) (hs : x.toInt = S) (hBS : B + S < 2^14) :
    (eb + (UInt64.ofInt (toI x)) <<< 49).toNat = (B + S) * 2^49 := by
  have e : ((UInt64.ofInt (toI x)) <<< 49).toNat = S * 2^49 := by
    rw [idx_i32 x S hs, shl49, UInt64.toNat_ofNat', Nat.mod_eq_of_lt (by omega)]
    omega
  rw [UInt64.toNat_add, e, hb]
  omega

/-- assembling the finite result of the rounding branches -/
theorem asm_ok (sa ye hi lo : UInt64) (pf : UInt32) (sA : Bool) (M E : Nat)
    (hsa : sa.toNat = if sA then 2^63 else 0) (hye : ye.toNat = E * 2^49) (hE : E < 2^14)
    (hM : hi.toNat * 2^64 + lo.toNat = M) (hM34 : M < 10^34) :
    (Except.ok (⟨lo, sa ||| ye ||| hi⟩, pf) : Except String (U128 × UInt32))
      = .ok (ofBits (encode (.fin sA M ((E : Int) - 6176))), pf) := by
  rw [or3, encode_at]
  exact congrArg Except.ok (Prod.ext (assemble' lo hi sa ye sA M E hM (lt113 hM34) hsa hye hE) rfl)

/-! ## 2. `10^34·10^k − C2`: the model and the code's indicators -/

/-- the indicators of "10^34 minus the second coefficient rounded to `k` digits less" and what the mode correction makes
of them: `C2 = a·D + r`, `D = 2h`; the block delivers `a` (if `r < h`) or `a + 1`, steps back on an odd tie -/
theorem pow_adjust (m : RoundingMode) (sA : Bool) (a r h : Nat) (ha1 : 1 ≤ a) (ha9 : a ≤ 9) (hr : r < 2 * h)
    (lte gte ltm gtm : Bool) (Rf : Nat)
    (hlte : lte = decide (r = h ∧ (a + 1) % 2 = 1)) (hgte : gte = decide (r = h ∧ (a + 1) % 2 = 0))
    (hltm : ltm = decide (h < r)) (hgtm : gtm = decide (0 < r ∧ r < h))
    (hRf : Rf = if r < h then a else if r = h ∧ (a + 1) % 2 = 1 then a else a + 1)
    (T : Nat) (hT : T = if r = 0 then 10^34 - a else roundInt (md m) sA (10^34 - a - 1) (2 * h - r) (2 * h)) :
    (m = .NearestEven → 10^34 - Rf = T) ∧
    (m ≠ .NearestEven → upB (!sA) sA m ltm gte = true → 10^34 - Rf + 1 = T) ∧
    (m ≠ .NearestEven → upB (!sA) sA m ltm gte = false → dnB (!sA) sA m lte gtm = true → 10^34 - Rf - 1 = T) ∧
    (m ≠ .NearestEven → upB (!sA) sA m ltm gte = false → dnB (!sA) sA m lte gtm = false → 10^34 - Rf = T) := by
  subst hlte hgte hltm hgtm hRf hT
  have hodd : (10^34 - a - 1) % 2 = (a + 1) % 2 := by
    have : (10:Nat)^34 = 2 * (5 * 10^33) := by decide
    omega
  have h34 : (10:Nat)^34 ≥ 100 := by decide
  generalize (10:Nat)^34 = B at *
  unfold roundInt roundUp upB dnB
  rcases Nat.lt_trichotomy r h with c | c | c
  · by_cases r0 : r = 0
    · subst r0
      cases m <;> cases sA <;> simp [md, c] <;> omega
    · cases m <;> cases sA <;> simp [md, c, r0, hodd] <;> (try split_ifs) <;> omega
  · subst c
    have r0 : r ≠ 0 := by omega
    have e : 2 * r - r = r := by omega
    rcases Nat.mod_two_eq_zero_or_one (a + 1) with p | p <;>
    cases m <;> cases sA <;> simp [md, r0, hodd, p, e] <;> (try split_ifs) <;> omega
  · have r0 : r ≠ 0 := by omega
    have nc : ¬ r < h := by omega
    have nc2 : ¬ r = h := by omega
    cases m <;> cases sA <;> simp [md, c, r0, hodd, nc, nc2] <;> (try split_ifs) <;> omega

theorem finish_pow (mode : Mode) (sA : Bool) (k a r : Nat) (eB : Int) (ha1 : 1 ≤ a) (ha9 : a ≤ 9) (hr : r < 10 ^ k)
    (he : -6176 ≤ eB) (hx : eB + k ≤ 6111) :
    finish mode sA (10^34 * 10^k - (a * 10^k + r)) 1 eB eB =
      if r = 0 then (.fin sA (10^34 - a) (eB + k), 0)
      else (.fin sA (roundInt mode sA (10^34 - a - 1) (10^k - r) (10^k)) (eB + k), fInexact) := by
  have hp : 0 < 10 ^ k := Nat.pow_pos (by decide)
  have h34 : (10:Nat)^34 = 10 * 10^33 := by decide
  by_cases r0 : r = 0
  · subst r0
    rw [if_pos rfl, Nat.add_zero, ← Nat.sub_mul]
    refine finish_exact mode sA _ eB (Nat.mul_pos (by omega) hp) (10^34 - a) (eB + k) (by omega) ?_ ?_ ?_
    · rw [show (eB + k - eB).toNat = k from by omega]
    · refine ⟨?_, ?_, ?_⟩
      · show 10^34 - a < 10^34; omega
      · unfold eMin; omega
      · unfold eMax; omega
    · right; show 10^34 ≤ (10^34 - a) * 10; omega
  · rw [if_neg r0]
    have hk : 1 ≤ k := by
      rcases Nat.eq_zero_or_pos k with h | h
      · subst h; simp at hr; exact absurd hr r0
      · exact h
    have e : 10^34 * 10^k - (a * 10^k + r) = (10^34 - a) * 10^k - r := by rw [Nat.sub_mul]; omega
    obtain ⟨hd, hm⟩ := divmod_sub (10^34 - a) k r (by omega) (by omega) hr
    have hM : (10^34 - a) * 10^k = (10^34 - a - 1) * 10^k + 10^k := by
      rw [← Nat.succ_mul]; congr 1; omega
    have hN1 : 10 ^ (33 + k) ≤ (10^34 - a) * 10^k - r := by
      rw [Nat.pow_add, hM]
      have : 10^33 * 10^k ≤ (10^34 - a - 1) * 10^k := Nat.mul_le_mul_right _ (by omega)
      omega
    have hN2 : (10^34 - a) * 10^k - r < 10 ^ (34 + k) := by
      rw [Nat.pow_add]
      have : (10^34 - a) * 10^k ≤ 10^34 * 10^k := Nat.mul_le_mul_right _ (by omega)
      omega
    rw [e, finish_long mode sA _ eB k hN1 hN2 hk he (by omega) (by rw [hm]; omega), hd, hm]
    have hne : ¬ roundInt mode sA (10^34 - a - 1) (10^k - r) (10^k) = P34 := by
      rcases ri_cases mode sA (10^34 - a - 1) (10^k - r) (10^k) with h | h <;> rw [h] <;> unfold P34 <;> omega
    rw [if_neg hne, if_neg (by unfold eMax; omega)]

theorem pow10_even (k : Nat) (hk : 1 ≤ k) : 2 * (10 ^ k / 2) = 10 ^ k := by
  obtain ⟨j, rfl⟩ : ∃ j, k = j + 1 := ⟨k - 1, by omega⟩
  rw [Nat.pow_succ]; omega

/-- the model in the power-of-ten sub-case of `delta = P34`: `10^(QA−1)·10^gap − cB = 10^34·10^(QB−1) − cB` rounded to 34 digits -/
theorem addFin_pow (mode : Mode) (sA sB : Bool) (cA cB : Nat) (eA eB : Int) (QA QB : Nat)
    (hQB : ndigits cB = QB) (hcB0 : 0 < cB) (hQA1 : 1 ≤ QA) (hQA34 : QA ≤ 34) (hpow : cA = 10 ^ (QA - 1))
    (hsne : ¬ sA = sB) (h34d : (QA : Int) + eA - QB - eB = 34) (hblo : -6176 ≤ eB) (hahi : eA ≤ 6111) :
    addFin mode sA cA eA sB cB eB (if eA ≤ eB then eA else eB) =
      (if cB % 10 ^ (QB - 1) = 0 then (.fin sA (10^34 - cB / 10 ^ (QB - 1)) (eB + ((QB - 1 : Nat) : Int)), 0)
       else (.fin sA (roundInt mode sA (10^34 - cB / 10 ^ (QB - 1) - 1) (10 ^ (QB - 1) - cB % 10 ^ (QB - 1)) (10 ^ (QB - 1)))
              (eB + ((QB - 1 : Nat) : Int)), fInexact)) ∧
    1 ≤ cB / 10 ^ (QB - 1) ∧ cB / 10 ^ (QB - 1) ≤ 9 := by
  have hQB1 : 1 ≤ QB := by rw [← hQB]; exact ndigits_pos hcB0
  have hp : 0 < 10 ^ (QB - 1) := Nat.pow_pos (by decide)
  have hlo : 10 ^ (QB - 1) ≤ cB := by rw [← hQB]; exact (ndigits_spec hcB0).1
  have hhi : cB < 10 ^ (QB - 1) * 10 := by
    have := lt_pow_ndigits cB
    rw [hQB, show QB = QB - 1 + 1 from by omega, Nat.pow_succ] at this
    exact this
  have ha1 : 1 ≤ cB / 10 ^ (QB - 1) := (Nat.one_le_div_iff hp).2 hlo
  have ha9 : cB / 10 ^ (QB - 1) ≤ 9 := by
    have : cB / 10 ^ (QB - 1) < 10 := (Nat.div_lt_iff_lt_mul hp).2 (by rw [Nat.mul_comm]; exact hhi)
    omega
  refine ⟨?_, ha1, ha9⟩
  have hle : eB ≤ eA := by omega
  have hA : cA * 10 ^ (eA - eB).toNat = 10^34 * 10 ^ (QB - 1) := by
    rw [hpow, ← Nat.pow_add, ← Nat.pow_add]; congr 1; omega
  have hgt : cB < cA * 10 ^ (eA - eB).toNat := by
    rw [hA]
    have : 10 ^ (QB - 1) * 10 ≤ 10^34 * 10 ^ (QB - 1) := by
      rw [Nat.mul_comm]; exact Nat.mul_le_mul_right _ (by decide)
    omega
  rw [addFin_big mode sA cA eA sB cB eB hle hgt, if_neg hsne, hA]
  have hdm := Nat.div_add_mod cB (10 ^ (QB - 1))
  have e : cB = cB / 10 ^ (QB - 1) * 10 ^ (QB - 1) + cB % 10 ^ (QB - 1) := by rw [Nat.mul_comm]; exact hdm.symm
  conv => lhs; rw [e]
  exact finish_pow mode sA (QB - 1) _ _ eB ha1 ha9 (Nat.mod_lt _ hp) hblo (by omega)

theorem tabs_all : (List.range 33).all (fun j =>
    match tbl64 Dec.Gen.BID_MASKHIGH128 (UInt64.ofNat j), tblI32 Dec.Gen.BID_SHIFTRIGHT128 (UInt64.ofNat j),
        tbl64 Dec.Gen.BID_ONEHALF128 (UInt64.ofNat j) with
    | .ok _, .ok _, .ok _ => true
    | _, _, _ => false) = true := by
  decide +kernel

/-- the three auxiliary tables of the rounding block can be read at every index the block uses -/
theorem tabs_get (j : Nat) (hj : j ≤ 32) :
    ∃ mask sh oh, tbl64 Dec.Gen.BID_MASKHIGH128 (UInt64.ofNat j) = .ok mask ∧
      tblI32 Dec.Gen.BID_SHIFTRIGHT128 (UInt64.ofNat j) = .ok sh ∧ tbl64 Dec.Gen.BID_ONEHALF128 (UInt64.ofNat j) = .ok oh := by
  have h := List.all_eq_true.1 tabs_all j (List.mem_range.2 (by omega))
  cases h1 : tbl64 Dec.Gen.BID_MASKHIGH128 (UInt64.ofNat j) with
  | error e => rw [h1] at h; exact absurd h (by simp)
  | ok v1 =>
    cases h2 : tblI32 Dec.Gen.BID_SHIFTRIGHT128 (UInt64.ofNat j) with
    | error e => rw [h1, h2] at h; exact absurd h (by simp)
    | ok v2 =>
      cases h3 : tbl64 Dec.Gen.BID_ONEHALF128 (UInt64.ofNat j) with
      | error e => rw [h1, h2, h3] at h; exact absurd h (by simp)
      | ok v3 => exact ⟨v1, v2, v3, rfl, rfl, rfl⟩

/-! ## 3. The sub-case "opposite signs, first coefficient a power of ten" of the branch `delta = P34` (former defect D1)

The real routine is stepped: the first test of the branch fails, `C1 := C1·10^(35 − q1) = 10^34`, then (for `q2 ≥ 2`) the
rounding block on `C2` with `ind = q2 − 2` (`RoundBlockSpec`), the step back on an odd tie, `C1 − R`, the mode correction. -/

/-- operands in the code's order (`a` has the larger exponent): `delta = 34`, opposite signs, `cA = 10^(QA−1)` -/
theorem add_d34pow_core (H : RoundBlockSpec) (x y a b : U128) (m : RoundingMode) (f : UInt32) (hab : Ordered x y a b)
    {sA sB : Bool} {cA cB : Nat} {eA eB : Int}
    (ha : decode (bitsOf a) = .fin sA cA eA) (hb : decode (bitsOf b) = .fin sB cB eB) (hcA : cA ≠ 0) (hcB : cB ≠ 0)
    (h34d : (ndigits cA : Int) + eA - ndigits cB - eB = 34)
    (hsne : ¬ sA = sB) (hpow : cA = 10 ^ (ndigits cA - 1)) :
    bid128_add x y m f =
      .ok (ofBits (encode (addFin (md m) sA cA eA sB cB eB (if eA ≤ eB then eA else eB)).1),
           f ||| UInt32.ofNat (addFin (md m) sA cA eA sB cB eB (if eA ≤ eB then eA else eB)).2) := by
  obtain ⟨ha1, hac, haP, hae, halo, hahi, has, -⟩ := fin_view a ha
  obtain ⟨hb1, hbc, hbP, hbe, hblo, hbhi, hbs, -⟩ := fin_view b hb
  have hcA0 : 0 < cA := Nat.pos_of_ne_zero hcA
  have hcB0 : 0 < cB := Nat.pos_of_ne_zero hcB
  have ha0 := nonzero_words hac hcA
  have hb0 := nonzero_words hbc hcB
  have hEle : (eB + 6176).toNat ≤ (eA + 6176).toNat := by
    have hle : uE b ≤ uE a := by
      rcases hab with ⟨rfl, rfl, hc⟩ | ⟨rfl, rfl, hc⟩
      · exact UInt64.not_lt.1 (by simpa using hc)
      · exact UInt64.le_of_lt (by simpa using hc)
    rw [UInt64.le_iff_toNat_le, hae, hbe] at hle
    omega
  have hle : eB ≤ eA := by omega
  have hsp : ¬ ((x.w1 &&& c_MASK_SPECIAL == c_MASK_SPECIAL) || (y.w1 &&& c_MASK_SPECIAL == c_MASK_SPECIAL)) = true := by
    rcases hab with ⟨rfl, rfl, -⟩ | ⟨rfl, rfl, -⟩
    · exact not_special2 ha1 hb1
    · exact not_special2 hb1 ha1
  have hx0 : ¬ (uH x == 0 && uL x == 0) = true := by
    rcases hab with ⟨rfl, rfl, -⟩ | ⟨rfl, rfl, -⟩
    · exact ha0
    · exact hb0
  have hy0 : ¬ (uH y == 0 && uL y == 0) = true := by
    rcases hab with ⟨rfl, rfl, -⟩ | ⟨rfl, rfl, -⟩
    · exact hb0
    · exact ha0
  obtain ⟨D, D1, THI, TLO, hTa, hqa⟩ := digits_row (uH a) (uL a) (by rw [hac]; exact hcA0) (hi_lt hac haP)
  obtain ⟨D', D1', THI', TLO', hTb, hqb⟩ := digits_row (uH b) (uL b) (by rw [hbc]; exact hcB0) (hi_lt hbc hbP)
  rw [hac] at hqa
  rw [hbc] at hqb
  have hQA1 := ndigits_pos hcA0
  have hQB1 := ndigits_pos hcB0
  have hQA : ndigits cA ≤ 34 := (ndigits_le_iff hcA0).2 (by simpa [P34] using haP)
  have hQB : ndigits cB ≤ 34 := (ndigits_le_iff hcB0).2 (by simpa [P34] using hbP)
  have hEA : (eA + 6176).toNat < 2^14 := by omega
  have hEB : (eB + 6176).toNat < 2^14 := by omega
  have hdl := delta_toInt _ _ (uE a) (uE b) _ _ _ _ hqa hqb hQA hQB hae hbe hEA hEB
  have h34 : c_P34.toInt = 34 := by decide
  have hd1 : decide (deltaOf (qOf D D1 THI TLO (uH a) (uL a)) (qOf D' D1' THI' TLO' (uH b) (uL b)) (uE a) (uE b) ≥ c_P34) = true := by
    rw [i32_ge, hdl, h34]; exact decide_eq_true (by omega)
  have hd2 : ¬ decide (deltaOf (qOf D D1 THI TLO (uH a) (uL a)) (qOf D' D1' THI' TLO' (uH b) (uL b)) (uE a) (uE b) ≥ c_P34 + 1) = true := by
    rw [i32_ge, hdl, show (c_P34 + 1).toInt = 35 from by decide]; simp only [decide_eq_true_eq]; omega
  have hsig : (a.w1 &&& c_MASK_SIGN == b.w1 &&& c_MASK_SIGN) = (sA == sB) := (sign_eq_bools _ _ sA sB has hbs).1
  generalize hQAd : ndigits cA = QA at *
  generalize hQBd : ndigits cB = QB at *
  generalize hEAd : (eA + 6176).toNat = EA at *
  generalize hEBd : (eB + 6176).toNat = EB at *
  obtain ⟨hmodel, hav1, hav9⟩ := addFin_pow (md m) sA sB cA cB eA eB QA QB hQBd hcB0 hQA1 hQA hpow hsne h34d hblo hahi
  have hdm := Nat.div_add_mod cB (10 ^ (QB - 1))
  have hrlt := Nat.mod_lt cB (show 10 ^ (QB - 1) > 0 from Nat.pow_pos (by decide))
  rw [hmodel]; clear hmodel
  generalize hav : cB / 10 ^ (QB - 1) = av at *
  generalize hrv : cB % 10 ^ (QB - 1) = rv at *
  obtain ⟨T, hT⟩ : ∃ T, T = if rv = 0 then 10^34 - av
      else roundInt (md m) sA (10^34 - av - 1) (10 ^ (QB - 1) - rv) (10 ^ (QB - 1)) := ⟨_, rfl⟩
  obtain ⟨pf, hpf⟩ : ∃ pf, pf = if rv = 0 then f else f ||| c_StatusFlags_BID_INEXACT_EXCEPTION := ⟨_, rfl⟩
  have hT1 : 10^33 ≤ T ∧ T < 10^34 := by
    have h34 : (10:Nat)^34 = 10 * 10^33 := by decide
    rw [hT]
    split
    · omega
    · rcases ri_cases (md m) sA (10^34 - av - 1) (10 ^ (QB - 1) - rv) (10 ^ (QB - 1)) with h | h <;> rw [h] <;> omega
  suffices hS : bid128_add x y m f = .ok (ofBits (encode (.fin sA T (((EB + (QB - 1) : Nat) : Int) - 6176))), pf) by
    have hE : ((EB + (QB - 1) : Nat) : Int) - 6176 = eB + ((QB - 1 : Nat) : Int) := by omega
    rw [hS, hE, hT, hpf]
    by_cases r0 : rv = 0
    · rw [if_pos r0, if_pos r0, if_pos r0, or_zero32]
    · rw [if_neg r0, if_neg r0, if_neg r0]; rfl
  add_front
  take_pos
  · rw [hq1, hq2, hea, heb]; exact hd1
  take_neg
  · rw [hq1, hq2, hea, heb]; exact hd2
  rw [← hq1] at hqa
  rw [← hq2] at hqb
  rw [← hal, ← hah] at hac
  rw [← hbl, ← hbh] at hbc
  rw [← hsa] at has
  rw [← hsb] at hbs
  rw [← hsa, ← hsb] at hsig
  rw [← hea] at hae
  rw [← heb] at hbe
  clear hd1 hd2 hTa hTb hdl hsp hx0 hy0 ha0 hb0 ha1 hb1 ha hb hab
  clear hq1 hq2 hal hah hbl hbh hsa hsb hea heb
  have hl := al.toNat_lt
  have htt : true = true := rfl
  have hft : ¬ false = true := Bool.false_ne_true
  have hs' : ¬ (sa == sb) = true := by rw [hsig]; simpa using hsne
  head_step
  -- the first test is false: the signs differ and the first coefficient is `10^(QA−1)`
  have hq1i : (q1 - 1).toInt = ((QA - 1 : Nat) : Int) := by
    rw [Int32.toInt_sub, hqa, show (1 : Int32).toInt = 1 from by decide, bmod32 _ (by omega) (by omega)]; omega
  refine Eq.trans (bind_ok_step (v := false) ?_ _) ?_
  · by_cases h20 : QA ≤ 20
    · have hq20 : decide (q1 ≤ 20) = true := by rw [i32_le_lit, hqa]; exact decide_eq_true (by simpa using h20)
      obtain ⟨v, hv, hv10⟩ := ten2k64_get (QA - 1) (by omega)
      rw [← idx_i32 (q1 - 1) (QA - 1) hq1i] at hv
      have hlt : cA < 2^64 := by
        rw [hpow]; exact lt_of_le_of_lt (Nat.pow_le_pow_right (by decide) (show QA - 1 ≤ 19 by omega)) (by decide)
      have hh0 : ¬ (ah != 0) = true := by
        have : ah.toNat = 0 := by omega
        have : ah = 0 := by rw [← UInt64.toNat_inj]; exact this
        rw [this]; decide
      sym_exec
      refine congrArg Except.ok ?_
      show (al != v) = false
      have : al = v := by rw [← UInt64.toNat_inj, hv10]; omega
      rw [this]; simp
    · have hq20 : ¬ decide (q1 ≤ 20) = true := by rw [i32_le_lit, hqa]; simpa using h20
      sym_exec
      rfl
  head_step
  refine Eq.trans (bind_ok_step (v := false) ?_ _) ?_
  · by_cases h20 : QA ≤ 20
    · have hq21 : ¬ decide (q1 ≥ 21) = true := by
        rw [i32_ge, hqa, show (21 : Int32).toInt = 21 from by decide]; simp only [decide_eq_true_eq]; omega
      sym_exec
      rfl
    · have hq21 : decide (q1 ≥ 21) = true := by
        rw [i32_ge, hqa, show (21 : Int32).toInt = 21 from by decide]; exact decide_eq_true (by omega)
      obtain ⟨t, ht, ht10⟩ := ten2k128_get19 (QA - 21) (by omega)
      have hidx : (q1 - 21).toInt = ((QA - 21 : Nat) : Int) := by
        rw [Int32.toInt_sub, hqa, show (21 : Int32).toInt = 21 from by decide, bmod32 _ (by omega) (by omega)]; omega
      rw [← idx_i32 (q1 - 21) (QA - 21) hidx] at ht
      have hval : t.w1.toNat * 2^64 + t.w0.toNat = 10 ^ (QA - 1) := by
        rw [show QA - 1 = QA - 21 + 20 from by omega]; exact words_swap t _ ht10
      have h0 := t.w0.toNat_lt
      have hah : ah = t.w1 := by rw [← UInt64.toNat_inj]; omega
      have hal' : al = t.w0 := by rw [← UInt64.toNat_inj]; omega
      have hh : ¬ (ah != t.w1) = true := by rw [hah]; simp
      sym_exec
      refine congrArg Except.ok ?_
      show (al != t.w0) = false
      rw [hal']; simp
  head_step
  take_neg
  · exact hft
  extract_lets -underBinder +onlyGivenNames x1 scale J
  have hx1 : x1.toInt = ((QB - 1 : Nat) : Int) := by
    show (q2 - 1).toInt = _
    rw [Int32.toInt_sub, hqb, show (1 : Int32).toInt = 1 from by decide, bmod32 _ (by omega) (by omega)]; omega
  have hscale : scale.toInt = ((35 - QA : Nat) : Int) := by
    show (c_P34 - q1 + 1).toInt = _
    rw [Int32.toInt_add, Int32.toInt_sub, hqa, h34, show (1 : Int32).toInt = 1 from by decide,
      bmod32 (34 - (QA : Int)) (by omega) (by omega), bmod32 _ (by omega) (by omega)]; omega
  refine Eq.trans (show _ = powK q1 scale ah al (fun C1 => J () C1) from by unfold powK; rfl) ?_
  obtain ⟨P, hP, hK⟩ := powK_ok (β := U128 × UInt32) q1 scale ah al cA QA (35 - QA) hac hqa hscale hQAd.symm hcA0 (by omega) (by omega)
  rw [hK]
  have hP34 : P.w1.toNat * 2^64 + P.w0.toNat = 10^34 :=
    words_of_toNat' P _ (by rw [hP, hpow]; exact pow_pad QA hQA1 hQA)
  clear hK hP
  show J () P = _
  unfold J
  head_beta
  extract_lets -underBinder +onlyGivenNames tmp64 ind JT
  obtain ⟨hz, hnz⟩ := sign_bools sa sA has
  -- the common end: subtract the rounded second coefficient, correct by the mode
  have keyT : ∀ (pf : UInt32) (tA tB : UInt64) (shv : Int32) (C2v hfv : U128) (R : U256) (lte gte ltm gtm : Bool) (Rf T : Nat),
      R.w3.toNat * 2^64 + R.w2.toNat = Rf → 1 ≤ Rf → Rf ≤ 10^33 → 10^33 ≤ T → T < 10^34 →
      (m = .NearestEven → 10^34 - Rf = T) →
      (m ≠ .NearestEven → upB (!sA) sA m ltm gte = true → 10^34 - Rf + 1 = T) →
      (m ≠ .NearestEven → upB (!sA) sA m ltm gte = false → dnB (!sA) sA m lte gtm = true → 10^34 - Rf - 1 = T) →
      (m ≠ .NearestEven → upB (!sA) sA m ltm gte = false → dnB (!sA) sA m lte gtm = false → 10^34 - Rf = T) →
      JT () pf tA tB shv C2v hfv R lte gte ltm gtm =
        .ok (ofBits (encode (.fin sA T (((EB + (QB - 1) : Nat) : Int) - 6176))), pf) := by
    intro pf tA tB shv C2v hfv R lte gte ltm gtm Rf T hR hRf1 hRf2 hT1 hT2 aRNE aUp aDn aSame
    unfold JT
    head_step
    sym_exec
    gen_args _ C1d
    replace hC1d : C1d = if decide (P.w0 - R.w2 > P.w0) = true then ⟨P.w0 - R.w2, P.w1 - R.w3 - 1⟩ else ⟨P.w0 - R.w2, P.w1 - R.w3⟩ := hC1d
    have hv : C1d.w1.toNat * 2^64 + C1d.w0.toNat = 10^34 - Rf := by
      have h := sub128_words P.w1 P.w0 R.w3 R.w2
      rw [hP34, hR, show (10^34 + 2^128 - Rf) % 2^128 = 10^34 - Rf from by
        have : (10:Nat)^34 < 2^128 := by decide
        omega] at h
      rw [hC1d]
      by_cases c : decide (P.w0 - R.w2 > P.w0) = true
      · rw [if_pos c] at h ⊢; exact h
      · rw [if_neg c] at h ⊢; exact h
    clear hC1d
    head_step
    take_neg
    · have h0 := C1d.w0.toNat_lt
      have : C1d.w1.toNat < 2^63 := by
        have : (10:Nat)^34 < 2^63 * 2^64 := by decide
        omega
      rw [decide_eq_true_eq, ge_iff_le, UInt64.le_iff_toNat_le, show (0x8000000000000000 : UInt64).toNat = 2^63 from rfl]
      omega
    head_step
    sym_exec
    gen_args _ yx
    have hyx' : yx.toNat = (EB + (QB - 1)) * 2^49 := by
      rw [hyx]
      by_cases c : decide (x1 ≥ 1) = true
      · rw [if_pos c]; exact exp_plus eb x1 EB (QB - 1) hbe hx1 (by omega)
      · rw [if_neg c, hbe]
        have : QB - 1 = 0 := by
          rw [i32_ge, hx1, show (1 : Int32).toInt = 1 from by decide] at c
          simp only [decide_eq_true_eq] at c; omega
        rw [this]; rfl
    clear hyx
    have hEfin : EB + (QB - 1) < 2^14 := by omega
    have h128 : (10:Nat)^34 + 1 < 2^128 := by decide
    have h3334 : (10:Nat)^33 < 10^34 := by decide
    head_step
    by_cases hm : (m != RoundingMode.NearestEven) = true
    · have hmne : m ≠ .NearestEven := by simpa using hm
      take_pos
      · exact hm
      head_step
      by_cases hup : upB (!sA) sA m ltm gte = true
      · take_pos
        · exact (show upB (sa == 0) (sa != 0) m ltm gte = true by rw [hz, hnz]; exact hup)
        have hval := aUp hmne hup
        have hv' := inc_words C1d.w1 C1d.w0 (by rw [hv]; omega)
        rw [hv, hval] at hv'
        head_step
        sym_exec
        gen_args _ hiC
        head_step
        take_neg
        · rw [hhiC, eq_words, hv', show (542101086242752 : UInt64).toNat * 2^64 + (4003012203950112768 : UInt64).toNat = 10^34 from by decide]
          simp only [decide_eq_true_eq]
          omega
        sym_exec!
        rw [hhiC]
        exact asm_ok sa yx _ _ pf sA T _ has hyx' hEfin hv' hT2
      · take_neg
        · exact (show ¬ upB (sa == 0) (sa != 0) m ltm gte = true by rw [hz, hnz]; exact hup)
        have hup' : upB (!sA) sA m ltm gte = false := by simpa using hup
        head_step
        by_cases hdn : dnB (!sA) sA m lte gtm = true
        · take_pos
          · exact (show dnB (sa == 0) (sa != 0) m lte gtm = true by rw [hz, hnz]; exact hdn)
          have hval := aDn hmne hup' hdn
          have hv' := dec_words C1d.w1 C1d.w0 (by rw [hv]; omega)
          rw [hv, hval] at hv'
          head_step
          sym_exec
          gen_args _ hiC
          head_step
          take_neg
          · rw [hhiC, eq_words, hv', show (54210108624275 : UInt64).toNat * 2^64 + (4089650035136921599 : UInt64).toNat = 10^33 - 1 from by decide]
            simp only [decide_eq_true_eq]
            omega
          sym_exec!
          rw [hhiC]
          exact asm_ok sa yx _ _ pf sA T _ has hyx' hEfin hv' hT2
        · take_neg
          · exact (show ¬ dnB (sa == 0) (sa != 0) m lte gtm = true by rw [hz, hnz]; exact hdn)
          have hdn' : dnB (!sA) sA m lte gtm = false := by simpa using hdn
          have hval := aSame hmne hup' hdn'
          sym_exec!
          exact asm_ok sa yx _ _ pf sA T _ has hyx' hEfin (by rw [hv, hval]) hT2
    · have hme : m = .NearestEven := by
        cases m <;> first | rfl | exact absurd rfl hm
      take_neg
      · exact hm
      have hval := aRNE hme
      sym_exec!
      exact asm_ok sa yx _ _ pf sA T _ has hyx' hEfin (by rw [hv, hval]) hT2
  have h1i : (1 : Int32).toInt = 1 := by decide
  have h0i : (0 : Int32).toInt = 0 := by decide
  by_cases hQB2 : 2 ≤ QB
  swap
  · -- a one-digit second coefficient: nothing to round
    have hQ1 : QB - 1 = 0 := by omega
    have hind : ¬ decide (ind ≥ 0) = true := by
      show ¬ decide (x1 - 1 ≥ 0) = true
      rw [i32_ge, Int32.toInt_sub, hx1, h1i, h0i, hQ1, bmod32 _ (by omega) (by omega)]
      simp
    take_neg
    · exact hind
    sym_exec
    rw [hQ1, Nat.pow_zero] at hrlt hdm hT
    have hr0 : rv = 0 := by omega
    have hcBa : cB = av := by omega
    rw [if_pos hr0] at hT hpf
    rw [hpf]
    have hup0 : ∀ m : RoundingMode, upB (!sA) sA m false false = false := by
      intro m; cases m <;> cases sA <;> rfl
    have hdn0 : ∀ m : RoundingMode, dnB (!sA) sA m false false = false := by
      intro m; cases m <;> cases sA <;> rfl
    have hc33 : cB ≤ 10^33 := by rw [hcBa]; exact le_trans hav9 (by decide)
    have hTe : 10^34 - cB = T := by rw [hT, hcBa]
    gen_args _ _ _ _ _ _ _ Rv
    have hRv' : Rv.w3.toNat * 2^64 + Rv.w2.toNat = cB := by rw [hRv]; exact hbc
    refine keyT f default default default default default Rv false false false false cB T hRv' hcB0 hc33 hT1.1 hT1.2 (fun _ => hTe) ?_ ?_ (fun _ _ _ => hTe)
    · intro _ h; rw [hup0] at h; exact absurd h (by decide)
    · intro _ _ h; rw [hdn0] at h; exact absurd h (by decide)
  -- `QB ≥ 2`: the second coefficient is rounded to its leading digit by the reciprocal block
  have hxi : ind.toInt = ((QB - 2 : Nat) : Int) := by
    show (x1 - 1).toInt = _
    rw [Int32.toInt_sub, hx1, h1i, bmod32 _ (by omega) (by omega)]; omega
  have hcB34 : bh.toNat * 2^64 + bl.toNat < 10^34 := by rw [hbc]; exact hbP
  obtain ⟨m64, m128, K, tr, mask0, oh0, sh0, hM64, hM128, hK, hTR, hMK, hSH, hOH, hspec⟩ := H bh bl (QB - 2) (by omega) hcB34
  obtain ⟨mask, sh, oh, hMK', hSH', hOH'⟩ := tabs_get (QB - 2) (by omega)
  have e3 : 3 ≤ QB - 2 → mask0 = mask ∧ sh0 = sh ∧ oh0 = oh := fun h3 =>
    ⟨Except.ok.inj ((hMK h3).symm.trans hMK'), Except.ok.inj ((hSH h3).symm.trans hSH'), Except.ok.inj ((hOH h3).symm.trans hOH')⟩
  rw [← idx_i32 ind (QB - 2) hxi] at hM64 hK hTR hMK' hSH' hOH'
  rw [hbc, show QB - 2 + 1 = QB - 1 from by omega, hav, hrv] at hspec
  have hD := pow10_even (QB - 1) (by omega)
  generalize hh : 10 ^ (QB - 1) / 2 = h at hspec hD
  clear hMK hSH hOH
  have hge : decide (ind ≥ 0) = true := by
    rw [i32_ge, hxi, h0i]; exact decide_eq_true (by omega)
  take_pos
  · exact hge
  have hspec' : ∀ R : U256, R.toNat' = (rbC2 (QB - 2) bh bl m64 m128).toNat' * K.toNat' →
      ((rbQ (QB - 2) R sh).2.toNat * 2^64 + (rbQ (QB - 2) R sh).1.toNat = if rv < h then av else av + 1) ∧
      rbGtHalf (QB - 2) R (rbHf (QB - 2) R mask) oh = decide (rv < h) ∧
      (rv < h → rbGtT (QB - 2) R (rbHf (QB - 2) R mask) oh tr = decide (0 < rv)) ∧
      rbMid R (rbHf (QB - 2) R mask) tr = decide (rv = h) := by
    by_cases h3 : 3 ≤ QB - 2
    · obtain ⟨rfl, rfl, rfl⟩ := e3 h3; exact hspec
    · intro R hR
      have hs := hspec R hR
      have e1 : rbQ (QB - 2) R sh0 = rbQ (QB - 2) R sh := by unfold rbQ; rw [if_neg h3, if_neg h3]
      have e2 : rbHf (QB - 2) R mask0 = rbHf (QB - 2) R mask := by
        unfold rbHf; rw [if_pos (show QB - 2 ≤ 2 by omega), if_pos (show QB - 2 ≤ 2 by omega)]
      have e4 : ∀ hfv, rbGtHalf (QB - 2) R hfv oh0 = rbGtHalf (QB - 2) R hfv oh := by
        intro hfv; unfold rbGtHalf; rw [if_pos (show QB - 2 ≤ 2 by omega), if_pos (show QB - 2 ≤ 2 by omega)]
      have e5 : ∀ hfv, rbGtT (QB - 2) R hfv oh0 tr = rbGtT (QB - 2) R hfv oh tr := by
        intro hfv; unfold rbGtT; rw [if_pos (show QB - 2 ≤ 2 by omega), if_pos (show QB - 2 ≤ 2 by omega)]
      rw [e1, e2, e4, e5] at hs
      exact hs
  clear hspec e3
  rw [← hD] at hT hrlt
  have c2 : decide (ind ≤ 2) = decide (QB - 2 ≤ 2) := by
    rw [i32_le_lit, hxi, show (2 : Int32).toInt = 2 from by decide, decide_eq_decide]; omega
  have c21 : decide (ind ≤ 21) = decide (QB - 2 ≤ 21) := by
    rw [i32_le_lit, hxi, show (21 : Int32).toInt = 21 from by decide, decide_eq_decide]; omega
  have c18 : decide (ind ≤ 18) = decide (QB - 2 ≤ 18) := by
    rw [i32_le_lit, hxi, show (18 : Int32).toInt = 18 from by decide, decide_eq_decide]; omega
  have c3 : decide (ind ≥ 3) = decide (3 ≤ QB - 2) := by
    rw [i32_ge, hxi, show (3 : Int32).toInt = 3 from by decide, decide_eq_decide]; omega
  extract_lets -underBinder +onlyGivenNames c2a c2b J1
  have key1 : ∀ C2' : U128, C2' = rbC2 (QB - 2) bh bl m64 m128 →
      J1 () C2' = .ok (ofBits (encode (.fin sA T (((EB + (QB - 1) : Nat) : Int) - 6176))), pf) := by
    intro C2' hC2'
    obtain ⟨RR, hMul, hRR⟩ := C01GenArith.gen_mul_128x128_to_256 C2' K
    rw [hC2'] at hRR
    obtain ⟨sQ, sG, sT, sM⟩ := hspec' RR hRR
    clear hspec' hRR
    unfold J1
    head_step
    sym_exec
    gen_args _ hf
    head_step
    sym_exec
    gen_args _ shv R2
    have eR0 : R2.w0 = RR.w0 := by
      rw [hR2]; split
      · split <;> rfl
      · rfl
    have eR1 : R2.w1 = RR.w1 := by
      rw [hR2]; split
      · split <;> rfl
      · rfl
    have eQ : (R2.w2, R2.w3) = rbQ (QB - 2) RR sh := by
      rw [hR2, c3]; unfold rbQ
      by_cases h3 : 3 ≤ QB - 2
      · rw [if_pos (decide_eq_true h3), if_pos h3]
        by_cases h64 : decide (sh < 64) = true
        · rw [if_pos h64, if_pos h64]
        · rw [if_neg h64, if_neg h64]
      · rw [if_neg (by simpa using h3), if_neg h3]
    have eHf : hf = rbHf (QB - 2) RR mask := by
      rw [hhf, c2, c21]; unfold rbHf
      by_cases h2 : QB - 2 ≤ 2
      · rw [if_pos (decide_eq_true h2), if_pos h2]
      · rw [if_neg (by simpa using h2), if_neg h2]
        by_cases h21 : QB - 2 ≤ 21
        · rw [if_pos (decide_eq_true h21), if_pos h21]
        · rw [if_neg (by simpa using h21), if_neg h21]
    rw [← eHf] at sG sT sM
    have eQ2 : R2.w3.toNat * 2^64 + R2.w2.toNat = if rv < h then av else av + 1 := by
      rw [← sQ, ← eQ]
    clear hhf hR2 hshv sQ
    head_beta
    extract_lets -underBinder +onlyGivenNames ff J2
    have key2 : ∀ (pf1 : UInt32) (tA tB : UInt64) (ltm0 gtm0 : Bool), pf1 = pf → ltm0 = decide (¬ rv < h) →
        gtm0 = decide (0 < rv ∧ rv < h) →
        J2 () pf1 tA tB ltm0 gtm0 = .ok (ofBits (encode (.fin sA T (((EB + (QB - 1) : Nat) : Int) - 6176))), pf) := by
      intro pf1 tA tB ltm0 gtm0 hpf1 hltm0 hgtm0
      unfold J2
      head_step
      sym_exec
      unfold rbMid at sM
      have hw3 : R2.w3.toNat = 0 ∧ R2.w2.toNat = if rv < h then av else av + 1 := by
        have := R2.w2.toNat_lt
        have : (if rv < h then av else av + 1) ≤ 10 := by split <;> omega
        omega
      have hPe : P.w0.toNat % 2 = 0 := by
        have := even34
        omega
      head_cases hM
      · take_pos
        · exact hM
        rw [mid_glue, eR1, eR0, sM, decide_eq_true_eq] at hM
        have hnlt : ¬ rv < h := by omega
        rw [if_neg hnlt] at hw3 eQ2
        have hpar : (tmp64 + R2.w2 &&& 1 == 1) = decide ((av + 1) % 2 = 1) := by
          rw [(parity_word 0 (tmp64 + R2.w2)).1, decide_eq_decide]
          show (0 * 2^64 + (P.w0 + R2.w2).toNat) % 2 = 1 ↔ _
          rw [UInt64.toNat_add, hw3.2]
          omega
        by_cases hodd : (av + 1) % 2 = 1
        · take_pos
          · rw [hpar]; exact decide_eq_true hodd
          sym_exec
          gen_args _ Rd
          replace hRd : Rd = if (R2.w2 - 1 == 18446744073709551615) = true then ⟨R2.w0, R2.w1, R2.w2 - 1, R2.w3 - 1⟩
              else ⟨R2.w0, R2.w1, R2.w2 - 1, R2.w3⟩ := hRd
          have hRdv : Rd.w3.toNat * 2^64 + Rd.w2.toNat = av := by
            have hd := dec_words R2.w3 R2.w2 (by rw [eQ2]; omega)
            rw [eQ2, Nat.add_sub_cancel] at hd
            rw [hRd]
            by_cases c : (R2.w2 - 1 == 18446744073709551615) = true
            · rw [if_pos c] at hd ⊢; exact hd
            · rw [if_neg c] at hd ⊢; exact hd
          head_zeta
          obtain ⟨aRNE, aUp, aDn, aSame⟩ := pow_adjust m sA av rv h hav1 hav9 hrlt true false false false av
            (decide_eq_true ⟨hM, hodd⟩).symm (decide_eq_false (fun hh => by have := hh.2; omega)).symm
            (decide_eq_false (by omega)).symm (decide_eq_false (by omega)).symm
            (by rw [if_neg hnlt, if_pos ⟨hM, hodd⟩]) T hT
          rw [hpf1]
          exact keyT pf tA tB shv C2' hf Rd true ff false false av T hRdv hav1 (le_trans hav9 (by decide)) hT1.1 hT1.2
            aRNE aUp aDn aSame
        · take_neg
          · rw [hpar]; simpa using hodd
          obtain ⟨aRNE, aUp, aDn, aSame⟩ := pow_adjust m sA av rv h hav1 hav9 hrlt false true false false (av + 1)
            (decide_eq_false (fun hh => hodd hh.2)).symm (decide_eq_true ⟨hM, by omega⟩).symm
            (decide_eq_false (by omega)).symm (decide_eq_false (by omega)).symm
            (by rw [if_neg hnlt, if_neg (fun hh => hodd hh.2)]) T hT
          rw [hpf1]
          exact keyT pf tA tB shv C2' hf R2 ff true false false (av + 1) T eQ2 (by omega)
            (le_trans (Nat.succ_le_succ hav9) (by decide)) hT1.1 hT1.2 aRNE aUp aDn aSame
      · take_neg
        · exact hM
        rw [mid_glue, eR1, eR0, sM, decide_eq_true_eq] at hM
        obtain ⟨aRNE, aUp, aDn, aSame⟩ := pow_adjust m sA av rv h hav1 hav9 hrlt false false ltm0 gtm0
            (if rv < h then av else av + 1)
            (decide_eq_false (fun hh => hM hh.1)).symm (decide_eq_false (fun hh => hM hh.1)).symm
            (by rw [hltm0, decide_eq_decide]; omega) hgtm0
            (by by_cases c : rv < h
                · rw [if_pos c, if_pos c]
                · rw [if_neg c, if_neg c, if_neg (fun hh => hM hh.1)]) T hT
        rw [hpf1]
        exact keyT pf tA tB shv C2' hf R2 ff ff ltm0 gtm0 _ T eQ2 (by split <;> omega)
            (le_trans (show (if rv < h then av else av + 1) ≤ 10 by split <;> omega) (by decide)) hT1.1 hT1.2 aRNE aUp aDn aSame
    have leafG : ∀ (Texp : Bool) (tA tB : UInt64), rv < h → Texp = decide (0 < rv) →
        (if Texp = true then J2 () (f ||| c_StatusFlags_BID_INEXACT_EXCEPTION) tA tB ff true else J2 () f tA tB ff ff)
          = .ok (ofBits (encode (.fin sA T (((EB + (QB - 1) : Nat) : Int) - 6176))), pf) := by
      intro Texp tA tB hlt hTe
      by_cases r0 : 0 < rv
      · rw [hTe, if_pos (decide_eq_true r0)]
        exact key2 (f ||| c_StatusFlags_BID_INEXACT_EXCEPTION) tA tB ff true (by rw [hpf, if_neg (by omega)])
          (decide_eq_false (not_not.2 hlt)).symm (decide_eq_true ⟨r0, hlt⟩).symm
      · rw [hTe, if_neg (by simpa using r0)]
        exact key2 f tA tB ff ff (by rw [hpf, if_pos (by omega)])
          (decide_eq_false (not_not.2 hlt)).symm (decide_eq_false (fun hh => r0 hh.1)).symm
    have leafL : ∀ (tA tB : UInt64), ¬ rv < h →
        J2 () (f ||| c_StatusFlags_BID_INEXACT_EXCEPTION) tA tB true ff
          = .ok (ofBits (encode (.fin sA T (((EB + (QB - 1) : Nat) : Int) - 6176))), pf) := by
      intro tA tB hlt
      have h1 : 1 ≤ h := by
        have : 0 < 10 ^ (QB - 1) := Nat.pow_pos (by decide)
        omega
      exact key2 (f ||| c_StatusFlags_BID_INEXACT_EXCEPTION) tA tB true ff (by rw [hpf, if_neg (by omega)])
        (decide_eq_true hlt).symm (decide_eq_false (fun hh => hlt hh.2)).symm
    clear key2
    unfold rbGtHalf at sG
    unfold rbGtT at sT
    by_cases h2 : QB - 2 ≤ 2
    · have hr1 : decide (ind ≤ 2) = true := by rw [c2]; exact decide_eq_true h2
      rw [if_pos h2] at sG sT
      rw [← eR1, ← eR0] at sG sT
      take_pos
      · exact hr1
      head_cases hG
      · take_pos
        · exact hG
        rw [sG, decide_eq_true_eq] at hG
        have sT' := sT hG
        sym_exec
        refine leafG _ 0 0 hG ?_
        rw [or_glue]; exact sT'
      · take_neg
        · exact hG
        rw [sG, decide_eq_true_eq] at hG
        sym_exec
        exact leafL 0 0 hG
    have hr1 : ¬ decide (ind ≤ 2) = true := by rw [c2]; simpa using h2
    rw [if_neg h2] at sG sT
    take_neg
    · exact hr1
    by_cases h21 : QB - 2 ≤ 21
    · have hr2 : decide (ind ≤ 21) = true := by rw [c21]; exact decide_eq_true h21
      rw [if_pos h21] at sG sT
      rw [← eR1, ← eR0] at sG sT
      take_pos
      · exact hr2
      sym_exec
      head_cases hG
      · take_pos
        · exact hG
        rw [g2_glue, sG, decide_eq_true_eq] at hG
        sym_exec
        head_step
        sym_exec
        refine leafG _ 0 0 hG ?_
        rw [t2_glue]; exact sT hG
      · take_neg
        · exact hG
        rw [g2_glue, sG, decide_eq_true_eq] at hG
        sym_exec
        exact leafL 0 0 hG
    · have hr2 : ¬ decide (ind ≤ 21) = true := by rw [c21]; simpa using h21
      rw [if_neg h21] at sG sT
      rw [← eR1, ← eR0] at sG sT
      take_neg
      · exact hr2
      sym_exec
      head_cases hG
      · take_pos
        · exact hG
        rw [or1_glue, sG, decide_eq_true_eq] at hG
        sym_exec
        refine leafG _ 0 0 hG ?_
        rw [t2_glue]; exact sT hG
      · take_neg
        · exact hG
        rw [or1_glue, sG, decide_eq_true_eq] at hG
        sym_exec
        exact leafL 0 0 hG
  by_cases h18 : QB - 2 ≤ 18
  · have hr18 : decide (ind ≤ 18) = true := by rw [c18]; exact decide_eq_true h18
    have hM64' := hM64 h18
    take_pos
    · exact hr18
    sym_exec
    head_cases hc
    · take_pos
      · exact hc
      refine key1 _ ?_
      have hc' : decide (bl + m64 < bl) = true := hc
      unfold rbC2; rw [if_pos h18, if_pos hc']
    · take_neg
      · exact hc
      refine key1 _ ?_
      have hc' : ¬ decide (bl + m64 < bl) = true := hc
      unfold rbC2; rw [if_pos h18, if_neg hc']
  · have hr18 : ¬ decide (ind ≤ 18) = true := by rw [c18]; simpa using h18
    have hi19 : (ind - 19).toInt = ((QB - 2 - 19 : Nat) : Int) := by
      rw [Int32.toInt_sub, hxi, show (19 : Int32).toInt = 19 from by decide, bmod32 _ (by omega) (by omega)]; omega
    have hM128' := hM128 h18
    rw [← idx_i32 (ind - 19) (QB - 2 - 19) hi19] at hM128'
    take_neg
    · exact hr18
    sym_exec
    head_cases hc
    · take_pos
      · exact hc
      refine key1 _ ?_
      have hc' : decide (bl + m128.w0 < bl) = true := hc
      unfold rbC2; rw [if_neg h18, if_pos hc']
    · take_neg
      · exact hc
      refine key1 _ ?_
      have hc' : ¬ decide (bl + m128.w0 < bl) = true := hc
      unfold rbC2; rw [if_neg h18, if_neg hc']

/-! ## 4. The sub-case in terms of the decoded operands -/

/-- in terms of the decoded operands: with `H` the operand of the larger exponent (`x` on a tie) and `L` the other one,
`q_H + e_H − q_L − e_L = 34` (the code's `delta = P34`), the signs differ and `C_H = 10^(q_H − 1)` (the code's first test in
that branch fails): the region of the former defect D1 -/
def PowCond (s1 : Bool) (c1 : Nat) (e1 : Int) (s2 : Bool) (c2 : Nat) (e2 : Int) : Prop :=
  if e2 ≤ e1 then (ndigits c1 : Int) + e1 - ndigits c2 - e2 = 34 ∧ ¬ s1 = s2 ∧ c1 = 10 ^ (ndigits c1 - 1)
  else (ndigits c2 : Int) + e2 - ndigits c1 - e1 = 34 ∧ ¬ s2 = s1 ∧ c2 = 10 ^ (ndigits c2 - 1)

instance (s1 : Bool) (c1 : Nat) (e1 : Int) (s2 : Bool) (c2 : Nat) (e2 : Int) : Decidable (PowCond s1 c1 e1 s2 c2 e2) := by
  unfold PowCond; infer_instance

/-- **`bid128_add`, two non-zero numbers, `PowCond`** (the sub-case "opposite signs, first coefficient a power of ten" of the
code's branch `delta = P34`; region of the former defect D1): `C_H` is padded to 35 digits (`10^34`), `C_L` is rounded to its
leading digit by the reciprocal block (or taken as it is when it has one digit), the difference is corrected by one unit as
the rounding mode, the sign and the block's indicators prescribe.  This is `addD`, datum and flags, for all five modes. -/
theorem add_d34pow (H : RoundBlockSpec) (x y : U128) (m : RoundingMode) (f : UInt32) {s1 s2 : Bool} {c1 c2 : Nat} {e1 e2 : Int}
    (hx : decode (bitsOf x) = .fin s1 c1 e1) (hy : decode (bitsOf y) = .fin s2 c2 e2) (hc1 : c1 ≠ 0) (hc2 : c2 ≠ 0)
    (h : PowCond s1 c1 e1 s2 c2 e2) :
    bid128_add x y m f =
      .ok (ofBits (encode (addD (md m) (decode (bitsOf x)) (decode (bitsOf y))).1),
           f ||| UInt32.ofNat (addD (md m) (decode (bitsOf x)) (decode (bitsOf y))).2) := by
  obtain ⟨-, -, -, hxe, hxlo, hxhi, -, -⟩ := fin_view x hx
  obtain ⟨-, -, -, hye, hylo, hyhi, -, -⟩ := fin_view y hy
  rw [hx, hy, addD_fin_fin]
  unfold PowCond at h
  by_cases hle : e2 ≤ e1
  · rw [if_pos hle] at h
    have hab : Ordered x y x y := Or.inl ⟨rfl, rfl, by
      rw [decide_eq_true_eq, UInt64.lt_iff_toNat_lt, hxe, hye]; omega⟩
    exact add_d34pow_core H x y x y m f hab hx hy hc1 hc2 h.1 h.2.1 h.2.2
  · rw [if_neg hle] at h
    have hab : Ordered x y y x := Or.inr ⟨rfl, rfl, by
      rw [decide_eq_true_eq, UInt64.lt_iff_toNat_lt, hxe, hye]; omega⟩
    rw [addFin_comm]
    exact add_d34pow_core H x y y x m f hab hy hx hc2 hc1 h.1 h.2.1 h.2.2

-- the witness of the former defect D1: 1.000E-23 + (−4.5E-57), Downward: 9.999999999999999999999999999999995E-24, inexact
example (H : RoundBlockSpec) : bid128_add ⟨1000, 0x300c000000000000⟩ ⟨45, 0xafcc000000000000⟩ .Downward 0
    = .ok (ofBits (encode (.fin false (10^34 - 5) (-57))), 0x20) := by
  rw [add_d34pow H (s1 := false) (c1 := 1000) (e1 := -26) (s2 := true) (c2 := 45) (e2 := -58) _ _ _ _ (by decide +kernel)
    (by decide +kernel) (by decide) (by decide) (by decide +kernel)]
  decide +kernel
-- the same operands, to nearest: 1.000000000000000000000000000000000E-23 (a tie of the result: `10^35 − 45` ends in 55, the odd quotient steps up)
example (H : RoundBlockSpec) : bid128_add ⟨1000, 0x300c000000000000⟩ ⟨45, 0xafcc000000000000⟩ .NearestEven 0
    = .ok (ofBits (encode (.fin false (10^34 - 4) (-57))), 0x20) := by
  rw [add_d34pow H (s1 := false) (c1 := 1000) (e1 := -26) (s2 := true) (c2 := 45) (e2 := -58) _ _ _ _ (by decide +kernel)
    (by decide +kernel) (by decide) (by decide) (by decide +kernel)]
  decide +kernel

/-! ## 5. One turn of the rounding loop -/

/-- `n` turns of a loop whose body does not look at the counter -/
def iter {σ : Type} (g : σ → Except String (ForInStep σ)) : Nat → σ → Except String σ
  | 0, s => pure s
  | n + 1, s => g s >>= fun r => match r with
    | .done s' => pure s'
    | .yield s' => iter g n s'

theorem forIn_list_iter {σ α : Type} (g : σ → Except String (ForInStep σ)) (l : List α) (s : σ) :
    forIn l s (fun _ st => g st) = iter g l.length s := by
  induction l generalizing s with
  | nil => rfl
  | cons a l ih =>
    rw [List.forIn_cons, List.length_cons]
    show _ = g s >>= _
    congr 1
    funext r
    cases r with
    | done s' => rfl
    | yield s' => exact ih s'

theorem forIn_range_iter {σ : Type} (n : Nat) (g : σ → Except String (ForInStep σ)) (s : σ) :
    forIn [0:n] s (fun _ st => g st) = iter g n s := by
  rw [Std.Legacy.Range.forIn_eq_forIn_range', forIn_list_iter]
  simp [Std.Legacy.Range.size]

/-- the first turn of a `for _ in [0:n+1]` loop whose body does not look at the counter -/
theorem loop_first {σ β : Type} (n : Nat) (f : Nat → σ → Except String (ForInStep σ)) (hf : ∀ i j st, f i st = f j st)
    (s : σ) (post : σ → Except String β) :
    (forIn [0:n+1] s f >>= post) =
      (f 0 s >>= fun r => match r with
        | .done s' => post s'
        | .yield s' => (forIn [0:n] s' f >>= post)) := by
  have e : f = fun _ st => f 0 st := by funext i st; exact hf i 0 st
  rw [e, forIn_range_iter]
  show (f 0 s >>= _) >>= post = (f 0 s >>= _)
  cases f 0 s with
  | error e => rfl
  | ok r =>
    cases r with
    | done s' => rfl
    | yield s' =>
      show iter (f 0) n s' >>= post = (forIn [0:n] s' (fun _ st => f 0 st) >>= post)
      rw [forIn_range_iter]

/-! ### Stepping inside a frame `X >>= K` (the loop body followed by the text after the loop) -/

theorem frame_congr {α β : Type} {X Y : Except String α} (K : α → Except String β) {R : Except String β}
    (h : X = Y) (h2 : (Y >>= K) = R) : (X >>= K) = R := h ▸ h2

open Lean Meta Elab Tactic in
/-- the goal is `(X >>= K) = R`: run a stepping tactic (one that introduces no variables) on `X`.  Side goals first, then
the continuing goal `(X' >>= K) = R`. -/
elab "kframe " t:tacticSeq : tactic => withMainContext do
  let g ← getMainGoal
  let tgt := (← instantiateMVars (← g.getType)).consumeMData
  let some (_, lhs, rhs) := tgt.eq? | throwError "kframe: not an equation"
  unless lhs.isAppOfArity ``Bind.bind 6 do throwError "kframe: no frame"
  let args := lhs.getAppArgs
  let X := args[4]!
  let K := args[5]!
  let tyX ← inferType X
  let Y ← mkFreshExprSyntheticOpaqueMVar tyX
  let g1 ← mkFreshExprSyntheticOpaqueMVar (← mkEq X Y)
  let gs ← Tactic.run g1.mvarId! (evalTactic t)
  let some main := gs.getLast? | throwError "kframe: no continuing goal"
  let mt := (← instantiateMVars (← main.getType)).consumeMData
  let some (_, Xn, _) := mt.eq? | throwError "kframe: the continuing goal is not an equation"
  Y.mvarId!.assign Xn
  main.assign (← mkEqRefl Xn)
  let Y' ← instantiateMVars Y
  let newLhs := mkAppN lhs.getAppFn (args.set! 4 Y')
  let g2 ← mkFreshExprSyntheticOpaqueMVar (← mkEq newLhs rhs)
  let pr ← mkAppOptM ``frame_congr #[none, none, X, Y', K, rhs, g1, g2]
  g.assign pr
  replaceMainGoal (gs.dropLast ++ [g2.mvarId!])

open Lean Meta Elab Tactic in
/-- lift the `have`s in front of `X` out of the frame `X >>= K` (so that `extract_lets` sees them) -/
elab "klet" : tactic => withMainContext do
  let g ← getMainGoal
  let tgt := (← instantiateMVars (← g.getType)).consumeMData
  let some (ty, lhs, rhs) := tgt.eq? | throwError "klet: not an equation"
  unless lhs.isAppOfArity ``Bind.bind 6 do throwError "klet: no frame"
  let args := lhs.getAppArgs
  let X := args[4]!.headBeta
  let rec go (e : Expr) (fuel : Nat) : Expr :=
    match fuel with
    | 0 => mkAppN lhs.getAppFn (args.set! 4 e)
    | fuel + 1 =>
      match e with
      | .letE n t v b nd => .letE n t v (go b fuel) nd
      | .mdata _ e => go e fuel
      | e => mkAppN lhs.getAppFn (args.set! 4 e)
  -- the frame's other arguments have no loose bound variables, so they can move under the binders
  let newLhs := go X 1000
  let g' ← g.replaceTargetDefEq (← mkEq newLhs rhs)
  replaceMainGoal [g']

open Lean Meta Elab Tactic in
/-- `X = F a₁ … aₙ` in the frame: replace the arguments named by fresh variables, as `gen_args` -/
elab "kgen_args" ns:(ppSpace colGt binderIdent)* : tactic => do
  for i in [0:ns.size] do
    match ns[i]! with
    | `(binderIdent| $n:ident) =>
      let g ← getMainGoal
      let g'' ← g.withContext do
        let t := (← instantiateMVars (← g.getType)).consumeMData
        let some (ty, lhs0, rhs) := t.eq? | throwError "kgen_args: not an equation"
        unless lhs0.isAppOfArity ``Bind.bind 6 do throwError "kgen_args: no frame"
        let fargs := lhs0.getAppArgs
        let lhs := fargs[4]!
        let u ← getLevel ty
        let f := lhs.getAppFn
        let as := lhs.getAppArgs
        if i ≥ as.size then throwError "kgen_args: only {as.size} arguments"
        let a := as[i]!
        let aTy ← inferType a
        let v ← getLevel aTy
        let name := n.getId
        let hname := Name.mkSimple ("h" ++ name.toString)
        let newTy ← withLocalDeclD name aTy fun x => do
          let eqn := mkApp3 (.const ``Eq [v]) aTy x a
          let body := mkApp3 (.const ``Eq [u]) ty (mkAppN lhs0.getAppFn (fargs.set! 4 (mkAppN f (as.set! i x)))) rhs
          mkForallFVars #[x] (← mkArrow eqn body)
        let g' ← mkFreshExprSyntheticOpaqueMVar newTy
        g.assign (mkApp2 g' a (Dec.C01GenAdd.Sym.mkEqRefl' v aTy a))
        let (_, g'') ← g'.mvarId!.introN 2 [name, hname]
        pure g''
      replaceMainGoal [g'']
    | _ => pure ()

open Lean Meta Elab Tactic in
/-- case distinction on the test at the head of `X` in the frame -/
elab "khead_cases " h:ident : tactic => withMainContext do
  let g ← getMainGoal
  let t := (← instantiateMVars (← g.getType)).consumeMData
  let some (_, lhs0, _) := t.eq? | throwError "khead_cases: not an equation"
  unless lhs0.isAppOfArity ``Bind.bind 6 do throwError "khead_cases: no frame"
  let lhs ← whnfCore lhs0.getAppArgs[4]!
  unless lhs.isAppOfArity ``ite 5 do throwError "khead_cases: no test at the head"
  let c := lhs.getAppArgs[1]!
  let cs ← Lean.Elab.Term.exprToSyntax c
  evalTactic (← `(tactic| by_cases $h : $cs))

open Lean Meta Elab Tactic in
/-- name the continuation of the frame `X >>= K`: a variable `K` with `hK : (the text) = K` -/
elab "kname " k:ident hk:ident : tactic => withMainContext do
  let g ← getMainGoal
  let t := (← instantiateMVars (← g.getType)).consumeMData
  let some (_, lhs0, _) := t.eq? | throwError "kname: not an equation"
  unless lhs0.isAppOfArity ``Bind.bind 6 do throwError "kname: no frame"
  let K := lhs0.getAppArgs[5]!
  let (_, g') ← g.generalize #[{ expr := K, xName? := some k.getId, hName? := some hk.getId }]
  replaceMainGoal [g']

open Lean Meta Elab Tactic in
elab "kshow_head " n:num : tactic => withMainContext do
  let g ← getMainGoal
  let t := (← instantiateMVars (← g.getType)).consumeMData
  let some (_, lhs0, _) := t.eq? | throwError "not an equation"
  let lhs := lhs0.getAppArgs[4]!
  let s := toString (← withOptions (fun o => (o.set `pp.deepTerms.threshold (8:Nat)).set `pp.deepTerms false) (ppExpr lhs))
  logInfo m!"{(s.take n.getNat)}"

open Lean Meta Elab Tactic in
/-- β-reduce the head of the left-hand side (or of `X` in a frame `X >>= K`) and substitute the `have`s in front of it whose
value is not a λ (the join points stay) -/
elab "head_zeta_vals" : tactic => withMainContext do
  let g ← getMainGoal
  let t := (← instantiateMVars (← g.getType)).consumeMData
  let some (ty, lhs, rhs) := t.eq? | throwError "head_zeta_vals: not an equation"
  let rec go (e : Expr) (fuel : Nat) : Expr :=
    match fuel with
    | 0 => e
    | fuel + 1 =>
      match e with
      | .letE _ _ v b _ => if v.isLambda then e else go (b.instantiate1 v) fuel
      | .mdata _ e => go e fuel
      | e => let e' := e.headBeta; if e' == e then e else go e' fuel
  let newLhs :=
    if lhs.isAppOfArity ``Bind.bind 6 then
      let args := lhs.getAppArgs
      mkAppN lhs.getAppFn (args.set! 4 (go args[4]! 1000))
    else go lhs 1000
  let g' ← g.replaceTargetDefEq (← mkEq newLhs rhs)
  replaceMainGoal [g']

open Lean Meta Elab Tactic in
/-- reduce the projections of explicit tuples everywhere in the left-hand side (the loop state unpacked by the body) -/
elab "clean_proj" : tactic => withMainContext do
  let g ← getMainGoal
  let t := (← instantiateMVars (← g.getType)).consumeMData
  let some (ty, lhs, rhs) := t.eq? | throwError "clean_proj: not an equation"
  let lhs' ← Core.transform lhs (post := fun e => do
    match e with
    | .proj ``Prod i s =>
      if s.isAppOfArity ``Prod.mk 4 then return .done (s.getAppArgs[2 + i]!) else return .continue
    | _ =>
      if e.isAppOfArity ``Prod.fst 3 && e.appArg!.isAppOfArity ``Prod.mk 4 then return .done (e.appArg!.getAppArgs[2]!)
      else if e.isAppOfArity ``Prod.snd 3 && e.appArg!.isAppOfArity ``Prod.mk 4 then return .done (e.appArg!.getAppArgs[3]!)
      else return .continue)
  let g' ← g.replaceTargetDefEq (← mkEq lhs' rhs)
  replaceMainGoal [g']

/-! ## 6. The rounding loop: pieces -/

/-- the multiplication `C1 · 10^scale` at the start of a turn of the loop, as the code selects it -/
def scaleK {β : Type} (q1 sc : Int32) (ah al : UInt64) (K : U128 → Except String β) : Except String β :=
  if decide (sc ≥ 20) = true then (do
    let t ← tbl128 Dec.Gen.BID_TEN2K128 (UInt64.ofInt (toI (sc - 20)))
    let C1 ← mul_128x64_to_128 al t
    K C1)
  else if decide (sc ≥ 1) = true then
    (if decide (q1 ≤ 19) = true then (do
      let t ← tbl64 Dec.Gen.BID_TEN2K64 (UInt64.ofInt (toI sc))
      let C1 ← mul_64x64_to_128MACH al t
      K C1)
    else (do
      let t ← tbl64 Dec.Gen.BID_TEN2K64 (UInt64.ofInt (toI sc))
      let C1 ← mul_128x64_to_128 t ⟨al, (⟨(default : U128).w0, ah⟩ : U128).w1⟩
      K C1))
  else K ⟨al, (⟨(default : U128).w0, ah⟩ : U128).w1⟩

theorem scaleK_ok {β : Type} (q1 sc : Int32) (ah al : UInt64) (C Q S : Nat) (hC : ah.toNat * 2^64 + al.toNat = C)
    (hq : q1.toInt = Q) (hsc : sc.toInt = S) (hQ : Q = ndigits C) (hC0 : 0 < C) (hfit : Q + S ≤ 35) :
    ∃ P : U128, P.toNat' = C * 10 ^ S ∧ ∀ K : U128 → Except String β, scaleK q1 sc ah al K = K P := by
  by_cases hS : 1 ≤ S
  · obtain ⟨P, hP, hK⟩ := powK_ok (β := β) q1 sc ah al C Q S hC hq hsc hQ hC0 hS hfit
    refine ⟨P, hP, fun K => ?_⟩
    rw [← hK K]
    unfold scaleK powK
    have h1 : decide (sc ≥ 1) = true := by
      rw [i32_ge, hsc, show (1 : Int32).toInt = 1 from by decide]; exact decide_eq_true (by omega)
    rw [if_pos h1]
  · have hS0 : S = 0 := by omega
    subst hS0
    refine ⟨⟨al, ah⟩, ?_, fun K => ?_⟩
    · show al.toNat + 2^64 * ah.toNat = _
      omega
    · unfold scaleK
      have h20 : ¬ decide (sc ≥ 20) = true := by
        rw [i32_ge, hsc, show (20 : Int32).toInt = 20 from by decide]; simp
      have h1 : ¬ decide (sc ≥ 1) = true := by
        rw [i32_ge, hsc, show (1 : Int32).toInt = 1 from by decide]; simp
      rw [if_neg h20, if_neg h1]

theorem ite_pair (tI : Bool) (r : U128) (a b : UInt32) :
    (if tI = true then (r, a) else (r, b)) = (r, if tI = true then a else b) := by cases tI <;> rfl

theorem u128_ext' (P Q : U128) (h : P.toNat' = Q.toNat') : P = Q := by
  cases P with | mk p0 p1 => cases Q with | mk q0 q1 =>
  have h' : p0.toNat + 2^64 * p1.toNat = q0.toNat + 2^64 * q1.toNat := h
  have := p0.toNat_lt; have := q0.toNat_lt
  have e0 : p0 = q0 := by rw [← UInt64.toNat_inj]; omega
  have e1 : p1 = q1 := by rw [← UInt64.toNat_inj]; omega
  rw [e0, e1]

theorem scaleK_ok' (q1 sc : Int32) (ah al : UInt64) (C Q S : Nat) (hC : ah.toNat * 2^64 + al.toNat = C)
    (hq : q1.toInt = Q) (hsc : sc.toInt = S) (hQ : Q = ndigits C) (hC0 : 0 < C) (hfit : Q + S ≤ 35) :
    ∃ P : U128, P.toNat' = C * 10 ^ S ∧ ∀ (β : Type) (K : U128 → Except String β), scaleK q1 sc ah al K = K P := by
  obtain ⟨P, hP, -⟩ := scaleK_ok (β := Unit) q1 sc ah al C Q S hC hq hsc hQ hC0 hfit
  refine ⟨P, hP, fun β K => ?_⟩
  obtain ⟨P', hP', hK'⟩ := scaleK_ok (β := β) q1 sc ah al C Q S hC hq hsc hQ hC0 hfit
  rw [hK', u128_ext' P' P (by rw [hP', hP])]

/-- the indicators of `B + (C2 rounded to k digits less)` and what the mode correction makes of them -/
theorem add_adjust (m : RoundingMode) (sA : Bool) (B a r h : Nat) (hr : r < 2 * h)
    (lte gte ltm gtm : Bool) (Rf : Nat)
    (hlte : lte = decide (r = h ∧ (B + a + 1) % 2 = 0)) (hgte : gte = decide (r = h ∧ (B + a + 1) % 2 = 1))
    (hltm : ltm = decide (0 < r ∧ r < h)) (hgtm : gtm = decide (h < r))
    (hRf : Rf = if r < h then a else if r = h ∧ (B + a + 1) % 2 = 1 then a else a + 1)
    (T : Nat) (hT : T = if r = 0 then B + a else roundInt (md m) sA (B + a) r (2 * h)) :
    (m = .NearestEven → B + Rf = T) ∧
    (m ≠ .NearestEven → upB (!sA) sA m ltm gte = true → B + Rf + 1 = T) ∧
    (m ≠ .NearestEven → upB (!sA) sA m ltm gte = false → dnB (!sA) sA m lte gtm = true → B + Rf - 1 = T) ∧
    (m ≠ .NearestEven → upB (!sA) sA m ltm gte = false → dnB (!sA) sA m lte gtm = false → B + Rf = T) := by
  subst hlte hgte hltm hgtm hRf hT
  have hodd : (B + a) % 2 = (B + a + 1 + 1) % 2 := by omega
  generalize hP : (B + a + 1) % 2 = p at *
  have hp : p = 0 ∨ p = 1 := by omega
  have hpp : (B + a) % 2 = 1 - p := by omega
  unfold roundInt roundUp upB dnB
  rcases Nat.lt_trichotomy r h with c | c | c
  · by_cases r0 : r = 0
    · subst r0
      cases m <;> cases sA <;> simp [md, c] <;> omega
    · cases m <;> cases sA <;> simp [md, c, r0, hpp] <;> (try split_ifs) <;> omega
  · subst c
    have r0 : r ≠ 0 := by omega
    rcases hp with p0 | p0 <;> subst p0 <;>
    cases m <;> cases sA <;> simp [md, r0, hpp] <;> (try split_ifs) <;> omega
  · have r0 : r ≠ 0 := by omega
    have nc : ¬ r < h := by omega
    have nc2 : ¬ r = h := by omega
    cases m <;> cases sA <;> simp [md, c, r0, hpp, nc, nc2] <;> (try split_ifs) <;> omega

/-- the indicators of `B − (C2 rounded to k digits less)` and what the mode correction makes of them -/
theorem sub_adjust (m : RoundingMode) (sA : Bool) (B a r h : Nat) (hB : a + 2 ≤ B) (hr : r < 2 * h)
    (lte gte ltm gtm : Bool) (Rf : Nat)
    (hlte : lte = decide (r = h ∧ (B + a + 1) % 2 = 1)) (hgte : gte = decide (r = h ∧ (B + a + 1) % 2 = 0))
    (hltm : ltm = decide (h < r)) (hgtm : gtm = decide (0 < r ∧ r < h))
    (hRf : Rf = if r < h then a else if r = h ∧ (B + a + 1) % 2 = 1 then a else a + 1)
    (T : Nat) (hT : T = if r = 0 then B - a else roundInt (md m) sA (B - a - 1) (2 * h - r) (2 * h)) :
    (m = .NearestEven → B - Rf = T) ∧
    (m ≠ .NearestEven → upB (!sA) sA m ltm gte = true → B - Rf + 1 = T) ∧
    (m ≠ .NearestEven → upB (!sA) sA m ltm gte = false → dnB (!sA) sA m lte gtm = true → B - Rf - 1 = T) ∧
    (m ≠ .NearestEven → upB (!sA) sA m ltm gte = false → dnB (!sA) sA m lte gtm = false → B - Rf = T) := by
  subst hlte hgte hltm hgtm hRf hT
  generalize hP : (B + a + 1) % 2 = p at *
  have hp : p = 0 ∨ p = 1 := by omega
  have hpp : (B - a - 1) % 2 = p := by omega
  unfold roundInt roundUp upB dnB
  rcases Nat.lt_trichotomy r h with c | c | c
  · by_cases r0 : r = 0
    · subst r0
      cases m <;> cases sA <;> simp [md, c] <;> omega
    · cases m <;> cases sA <;> simp [md, c, r0, hpp] <;> (try split_ifs) <;> omega
  · subst c
    have r0 : r ≠ 0 := by omega
    have e : 2 * r - r = r := by omega
    rcases hp with p0 | p0 <;> subst p0 <;>
    cases m <;> cases sA <;> simp [md, r0, hpp, e] <;> (try split_ifs) <;> omega
  · have r0 : r ≠ 0 := by omega
    have nc : ¬ r < h := by omega
    have nc2 : ¬ r = h := by omega
    cases m <;> cases sA <;> simp [md, c, r0, hpp, nc, nc2] <;> (try split_ifs) <;> omega

/-- `B·10^k + (a·10^k + r)` with `B + a + 1` still a 34-digit number: one rounding at `k` digits -/
theorem finish_add1 (mode : Mode) (sA : Bool) (k B a r : Nat) (eB : Int) (hB1 : 10^33 ≤ B) (hB2 : B + a + 1 < 10^34)
    (hr : r < 10 ^ k) (he : -6176 ≤ eB) (hx : eB + k ≤ 6111) :
    finish mode sA (B * 10^k + (a * 10^k + r)) 1 eB eB =
      if r = 0 then (.fin sA (B + a) (eB + k), 0)
      else (.fin sA (roundInt mode sA (B + a) r (10^k)) (eB + k), fInexact) := by
  have hp : 0 < 10 ^ k := Nat.pow_pos (by decide)
  have e : B * 10^k + (a * 10^k + r) = (B + a) * 10^k + r := by rw [Nat.add_mul]; omega
  rw [e]
  by_cases r0 : r = 0
  · subst r0
    rw [if_pos rfl, Nat.add_zero]
    refine finish_exact mode sA _ eB (Nat.mul_pos (by omega) hp) (B + a) (eB + k) (by omega) ?_ ?_ ?_
    · rw [show (eB + k - eB).toNat = k from by omega]
    · refine ⟨?_, ?_, ?_⟩
      · show B + a < 10^34; omega
      · unfold eMin; omega
      · unfold eMax; omega
    · right; show 10^34 ≤ (B + a) * 10
      have : (10:Nat)^34 = 10 * 10^33 := by decide
      omega
  · rw [if_neg r0]
    have hk : 1 ≤ k := by
      rcases Nat.eq_zero_or_pos k with h | h
      · subst h; simp at hr; exact absurd hr r0
      · exact h
    obtain ⟨hd, hm⟩ := divmod_add (B + a) k r hr
    have hN1 : 10 ^ (33 + k) ≤ (B + a) * 10^k + r := by
      rw [Nat.pow_add]
      have : 10^33 * 10^k ≤ (B + a) * 10^k := Nat.mul_le_mul_right _ (by omega)
      omega
    have hN2 : (B + a) * 10^k + r < 10 ^ (34 + k) := by
      rw [Nat.pow_add]
      have : (B + a + 1) * 10^k ≤ 10^34 * 10^k := Nat.mul_le_mul_right _ (by omega)
      rw [Nat.add_mul, Nat.one_mul] at this
      omega
    rw [finish_long mode sA _ eB k hN1 hN2 hk he (by omega) (by rw [hm]; exact r0), hd, hm]
    have hne : ¬ roundInt mode sA (B + a) r (10^k) = P34 := by
      rcases ri_cases mode sA (B + a) r (10^k) with h | h <;> rw [h] <;> unfold P34 <;> omega
    rw [if_neg hne, if_neg (by unfold eMax; omega)]

/-- `B·10^k − (a·10^k + r)` with `B − a − 1` still above `10^33`: one rounding at `k` digits -/
theorem finish_sub1 (mode : Mode) (sA : Bool) (k B a r : Nat) (eB : Int) (hB1 : 10^33 + a + 1 < B) (hB2 : B < 10^34)
    (hr : r < 10 ^ k) (he : -6176 ≤ eB) (hx : eB + k ≤ 6111) :
    finish mode sA (B * 10^k - (a * 10^k + r)) 1 eB eB =
      if r = 0 then (.fin sA (B - a) (eB + k), 0)
      else (.fin sA (roundInt mode sA (B - a - 1) (10^k - r) (10^k)) (eB + k), fInexact) := by
  have hp : 0 < 10 ^ k := Nat.pow_pos (by decide)
  have h34 : (10:Nat)^34 = 10 * 10^33 := by decide
  by_cases r0 : r = 0
  · subst r0
    rw [if_pos rfl, Nat.add_zero, ← Nat.sub_mul]
    refine finish_exact mode sA _ eB (Nat.mul_pos (by omega) hp) (B - a) (eB + k) (by omega) ?_ ?_ ?_
    · rw [show (eB + k - eB).toNat = k from by omega]
    · refine ⟨?_, ?_, ?_⟩
      · show B - a < 10^34; omega
      · unfold eMin; omega
      · unfold eMax; omega
    · right; show 10^34 ≤ (B - a) * 10; omega
  · rw [if_neg r0]
    have hk : 1 ≤ k := by
      rcases Nat.eq_zero_or_pos k with h | h
      · subst h; simp at hr; exact absurd hr r0
      · exact h
    have e : B * 10^k - (a * 10^k + r) = (B - a) * 10^k - r := by rw [Nat.sub_mul]; omega
    obtain ⟨hd, hm⟩ := divmod_sub (B - a) k r (by omega) (by omega) hr
    have hM : (B - a) * 10^k = (B - a - 1) * 10^k + 10^k := by
      rw [← Nat.succ_mul]; congr 1; omega
    have hN1 : 10 ^ (33 + k) ≤ (B - a) * 10^k - r := by
      rw [Nat.pow_add, hM]
      have : 10^33 * 10^k ≤ (B - a - 1) * 10^k := Nat.mul_le_mul_right _ (by omega)
      omega
    have hN2 : (B - a) * 10^k - r < 10 ^ (34 + k) := by
      rw [Nat.pow_add]
      have : (B - a) * 10^k ≤ 10^34 * 10^k := Nat.mul_le_mul_right _ (by omega)
      omega
    rw [e, finish_long mode sA _ eB k hN1 hN2 hk he (by omega) (by rw [hm]; omega), hd, hm]
    have hne : ¬ roundInt mode sA (B - a - 1) (10^k - r) (10^k) = P34 := by
      rcases ri_cases mode sA (B - a - 1) (10^k - r) (10^k) with h | h <;> rw [h] <;> unfold P34 <;> omega
    rw [if_neg hne, if_neg (by unfold eMax; omega)]

/-! ## 7. The rounding loop, one turn, one rounding

`34 − q2 < delta < 34`: `x1 = delta + q2 − 34` digits of `C2` are rounded away by the block, `C1` is padded to 34 digits
(`B`); here the part where `B ± (C2 rounded)` keeps 34 digits whichever way `C2` is rounded (no second rounding of a
35-digit sum, no second turn after a cancellation). -/

/-- the code, at word level: operands in the code's order (`a` has the larger exponent), `k = x1`, `B` the padded first
coefficient, `cB = av·10^k + rv`, `T` the coefficient the model asks for -/
theorem loop1_code (H : RoundBlockSpec) (x y a b : U128) (m : RoundingMode) (f : UInt32)
    (hsp : ¬ ((x.w1 &&& c_MASK_SPECIAL == c_MASK_SPECIAL) || (y.w1 &&& c_MASK_SPECIAL == c_MASK_SPECIAL)) = true)
    (hx0 : ¬ (uH x == 0 && uL x == 0) = true) (hy0 : ¬ (uH y == 0 && uL y == 0) = true)
    (hab : Ordered x y a b)
    (D D1 : UInt32) (THI TLO : UInt64) (D' D1' : UInt32) (THI' TLO' : UInt64)
    (hTa : tblDD Dec.Gen.BID_NR_DIGITS (UInt64.ofInt (toI (nbOf (uH a) (uL a)))) = .ok ⟨D, THI, TLO, D1⟩)
    (hTb : tblDD Dec.Gen.BID_NR_DIGITS (UInt64.ofInt (toI (nbOf (uH b) (uL b)))) = .ok ⟨D', THI', TLO', D1'⟩)
    (sA sB : Bool) (cA cB QA QB EA EB k B av rv T : Nat) (pf : UInt32)
    (has : (a.w1 &&& c_MASK_SIGN).toNat = if sA then 2^63 else 0) (hbs : (b.w1 &&& c_MASK_SIGN).toNat = if sB then 2^63 else 0)
    (hac : (uH a).toNat * 2^64 + (uL a).toNat = cA) (hbc : (uH b).toNat * 2^64 + (uL b).toNat = cB)
    (hae : (uE a).toNat = EA * 2^49) (hbe : (uE b).toNat = EB * 2^49)
    (hqa : (qOf D D1 THI TLO (uH a) (uL a)).toInt = QA) (hqb : (qOf D' D1' THI' TLO' (uH b) (uL b)).toInt = QB)
    (hQAd : ndigits cA = QA) (hcA0 : 0 < cA) (hQA1 : 1 ≤ QA) (hQA : QA ≤ 34) (hQB1 : 1 ≤ QB) (hQB : QB ≤ 34)
    (hEA : EA < 12288) (hEle : EB ≤ EA) (hkE : (QA : Int) + EA - EB - 34 = k) (hk1 : 1 ≤ k) (hkQ : k + 1 ≤ QB)
    (hBd : cA * 10 ^ (34 - QA) = B) (hB1 : 10^33 ≤ B) (hB2 : B < 10^34) (hbP : cB < 10^34)
    (hcBe : cB / 10 ^ k = av ∧ cB % 10 ^ k = rv) (hrlt : rv < 10 ^ k)
    (hdom : (sA = sB → B + av + 1 < 10^34) ∧ (¬ sA = sB → 10^33 + av + 1 < B))
    (hT : T = if rv = 0 then (if sA = sB then B + av else B - av)
      else (if sA = sB then roundInt (md m) sA (B + av) rv (10 ^ k) else roundInt (md m) sA (B - av - 1) (10 ^ k - rv) (10 ^ k)))
    (hpf : pf = if rv = 0 then f else f ||| c_StatusFlags_BID_INEXACT_EXCEPTION)
    (hT1 : 10^33 ≤ T ∧ T < 10^34) :
    bid128_add x y m f = .ok (ofBits (encode (.fin sA T (((EB + k : Nat) : Int) - 6176))), pf) := by
  have hEB : EB < 2^14 := by omega
  have hEA' : EA < 2^14 := by omega
  have hdl := delta_toInt _ _ (uE a) (uE b) _ _ _ _ hqa hqb hQA hQB hae hbe hEA' hEB
  have h34 : c_P34.toInt = 34 := by decide
  have hsig : (a.w1 &&& c_MASK_SIGN == b.w1 &&& c_MASK_SIGN) = (sA == sB) := (sign_eq_bools _ _ sA sB has hbs).1
  have hd1 : ¬ decide (deltaOf (qOf D D1 THI TLO (uH a) (uL a)) (qOf D' D1' THI' TLO' (uH b) (uL b)) (uE a) (uE b) ≥ c_P34) = true := by
    rw [i32_ge, hdl, h34]; simp only [decide_eq_true_eq]; omega
  have hd2 : decide (deltaOf (qOf D D1 THI TLO (uH a) (uL a)) (qOf D' D1' THI' TLO' (uH b) (uL b)) (uE a) (uE b) ≥ 0) = true := by
    rw [i32_ge, hdl, show (0 : Int32).toInt = 0 from by decide]; exact decide_eq_true (by omega)
  have hq2s : (c_P34 - 1 - qOf D' D1' THI' TLO' (uH b) (uL b)).toInt = 33 - (QB : Int) := by
    rw [Int32.toInt_sub, hqb, show (c_P34 - 1).toInt = 33 from by decide, bmod32 _ (by omega) (by omega)]
  have hq2t : (c_P34 - qOf D' D1' THI' TLO' (uH b) (uL b)).toInt = 34 - (QB : Int) := by
    rw [Int32.toInt_sub, hqb, h34, bmod32 _ (by omega) (by omega)]
  have hd3 : ¬ decide (deltaOf (qOf D D1 THI TLO (uH a) (uL a)) (qOf D' D1' THI' TLO' (uH b) (uL b)) (uE a) (uE b) ≤ c_P34 - 1 - qOf D' D1' THI' TLO' (uH b) (uL b)) = true := by
    rw [i32_le_lit, hdl, hq2s]; simp only [decide_eq_true_eq]; omega
  have hd4 : ¬ (deltaOf (qOf D D1 THI TLO (uH a) (uL a)) (qOf D' D1' THI' TLO' (uH b) (uL b)) (uE a) (uE b) == c_P34 - qOf D' D1' THI' TLO' (uH b) (uL b)) = true := by
    rw [beq_i32', hdl, hq2t]; simp only [decide_eq_true_eq]; omega
  add_front
  take_neg
  · rw [hq1, hq2, hea, heb]; exact hd1
  take_pos
  · rw [hq1, hq2, hea, heb]; exact hd2
  take_neg
  · rw [hq1, hq2, hea, heb]; exact hd3
  take_neg
  · rw [hq1, hq2, hea, heb]; exact hd4
  rw [← hq1] at hqa
  rw [← hq2] at hqb
  rw [← hal, ← hah] at hac
  rw [← hbl, ← hbh] at hbc
  rw [← hsa] at has
  rw [← hsb] at hbs
  rw [← hsa, ← hsb] at hsig
  rw [← hea] at hae
  rw [← heb] at hbe
  rw [← hq1, ← hq2, ← hea, ← heb] at hdl
  clear hd1 hd2 hd3 hd4 hTa hTb hsp hx0 hy0 hab hq2s hq2t
  clear hq1 hq2 hal hah hbl hbh hsa hsb hea heb
  have htt : true = true := rfl
  have hft : ¬ false = true := Bool.false_ne_true
  extract_lets -underBinder +onlyGivenNames x1 brk0
  have hx1 : x1.toInt = (k : Int) := by
    show (deltaOf q1 q2 ea eb + q2 - c_P34).toInt = _
    rw [Int32.toInt_sub, Int32.toInt_add, hdl, hqb, h34, bmod32 ((QA : Int) + EA - QB - EB + QB) (by omega) (by omega),
      bmod32 _ (by omega) (by omega)]
    omega
  refine Eq.trans (loop_first 4095 _ (fun _ _ _ => rfl) _ _) ?_
  head_zeta_vals
  clean_proj
  klet
  extract_lets -underBinder +onlyGivenNames J
  have hscale : (deltaOf q1 q2 ea eb - q1 + q2 - x1).toInt = ((34 - QA : Nat) : Int) := by
    rw [Int32.toInt_sub, Int32.toInt_add, Int32.toInt_sub, hdl, hqa, hqb, hx1,
      bmod32 ((QA : Int) + EA - QB - EB - QA) (by omega) (by omega),
      bmod32 ((QA : Int) + EA - QB - EB - QA + QB) (by omega) (by omega), bmod32 _ (by omega) (by omega)]
    omega
  generalize hscd : deltaOf q1 q2 ea eb - q1 + q2 - x1 = sc at hscale ⊢
  obtain ⟨P, hP, hK⟩ := scaleK_ok' q1 sc ah al cA QA (34 - QA) hac hqa hscale hQAd.symm hcA0 (by omega)
  kframe (refine Eq.trans (show _ = scaleK q1 sc ah al (fun C1 => J () C1) from by unfold scaleK; rfl) ?_)
  rw [hK]
  have hPB : P.w1.toNat * 2^64 + P.w0.toNat = B := words_of_toNat' P _ (by rw [hP, hBd])
  clear hK hP
  kframe (show J () P = _)
  unfold J
  head_zeta_vals
  klet
  extract_lets -underBinder +onlyGivenNames JT
  kname K hK
  obtain ⟨hz, hnz⟩ := sign_bools sa sA has
  have h1i : (1 : Int32).toInt = 1 := by decide
  have h0i : (0 : Int32).toInt = 0 := by decide
  have hEk : EB + k < 12288 := by omega
  -- the text after the loop: the correction by the rounding mode, the result
  have keyPost : ∀ (resv : U128) (tsv t64 tA tB : UInt64) (sc xv iv sv : Int32) (tI : Bool) (C1v C2v hfv : U128)
      (Qv Rv : U256) (lte gte ltm gtm spv : Bool) (yev : UInt64) (Q0 : Nat),
      C1v.w1.toNat * 2^64 + C1v.w0.toNat = Q0 → yev.toNat = (EB + k) * 2^49 → tI = decide (rv ≠ 0) →
      (m = .NearestEven → Q0 = T) →
      (m ≠ .NearestEven → upB (!sA) sA m ltm gte = true → Q0 + 1 = T) →
      (m ≠ .NearestEven → upB (!sA) sA m ltm gte = false → dnB (!sA) sA m lte gtm = true → Q0 - 1 = T) →
      (m ≠ .NearestEven → upB (!sA) sA m ltm gte = false → dnB (!sA) sA m lte gtm = false → Q0 = T) →
      K (ForInStep.done (none, f, resv, sa, tsv, yev, t64, tA, tB, sc, xv, iv, sv, tI, C1v, C2v, hfv, Qv, Rv, lte, gte, ltm, gtm,
        spv, true)) = .ok (ofBits (encode (.fin sA T (((EB + k : Nat) : Int) - 6176))), pf) := by
    intro resv tsv t64 tA tB sc xv iv sv tI C1v C2v hfv Qv Rv lte gte ltm gtm spv yev Q0 hv hyx htI aRNE aUp aDn aSame
    subst hK
    head_step
    take_neg
    · exact (by simp : ¬ (!true) = true)
    head_step
    clean_proj
    have hEfin : EB + k < 2^14 := by omega
    have hpfI : (if tI = true then f ||| c_StatusFlags_BID_INEXACT_EXCEPTION else f) = pf := by
      rw [htI, hpf]
      by_cases r0 : rv = 0
      · rw [if_pos r0, if_neg (by simp [r0])]
      · rw [if_neg r0, if_pos (by simpa using r0)]
    have hnov : ¬ (yev == c_EXP_MAX_P1) = true := by
      intro h
      have := congrArg UInt64.toNat (beq_iff_eq.1 h)
      rw [hyx, show c_EXP_MAX_P1.toNat = 12288 * 2^49 from rfl] at this
      omega
    have h128 : (10:Nat)^34 + 1 < 2^128 := by decide
    have h3334 : (10:Nat)^33 < 10^34 := by decide
    by_cases hm : (m != RoundingMode.NearestEven) = true
    · have hmne : m ≠ .NearestEven := by simpa using hm
      take_pos
      · exact hm
      head_step
      by_cases hup : upB (!sA) sA m ltm gte = true
      · take_pos
        · exact (show upB (sa == 0) (sa != 0) m ltm gte = true by rw [hz, hnz]; exact hup)
        have hval := aUp hmne hup
        have hv' := inc_words C1v.w1 C1v.w0 (by rw [hv]; omega)
        rw [hv, hval] at hv'
        head_step
        sym_exec
        gen_args _ hiC
        head_step
        take_neg
        · rw [hhiC, eq_words, hv', show (542101086242752 : UInt64).toNat * 2^64 + (4003012203950112768 : UInt64).toNat = 10^34 from by decide]
          simp only [decide_eq_true_eq]
          omega
        head_step
        take_neg
        · exact hnov
        sym_exec!
        rw [ite_pair, hhiC, hpfI]
        exact asm_ok sa yev _ _ pf sA T _ has hyx hEfin hv' hT1.2
      · take_neg
        · exact (show ¬ upB (sa == 0) (sa != 0) m ltm gte = true by rw [hz, hnz]; exact hup)
        have hup' : upB (!sA) sA m ltm gte = false := by simpa using hup
        head_step
        by_cases hdn : dnB (!sA) sA m lte gtm = true
        · take_pos
          · exact (show dnB (sa == 0) (sa != 0) m lte gtm = true by rw [hz, hnz]; exact hdn)
          have hval := aDn hmne hup' hdn
          have hv' := dec_words C1v.w1 C1v.w0 (by rw [hv]; omega)
          rw [hv, hval] at hv'
          head_step
          sym_exec
          gen_args _ hiC
          head_step
          take_neg
          · rw [hhiC, eq_words, hv', show (54210108624275 : UInt64).toNat * 2^64 + (4089650035136921599 : UInt64).toNat = 10^33 - 1 from by decide]
            simp only [decide_eq_true_eq]
            omega
          head_step
          take_neg
          · exact hnov
          sym_exec!
          rw [ite_pair, hhiC, hpfI]
          exact asm_ok sa yev _ _ pf sA T _ has hyx hEfin hv' hT1.2
        · take_neg
          · exact (show ¬ dnB (sa == 0) (sa != 0) m lte gtm = true by rw [hz, hnz]; exact hdn)
          have hdn' : dnB (!sA) sA m lte gtm = false := by simpa using hdn
          have hval := aSame hmne hup' hdn'
          head_step
          take_neg
          · exact hnov
          sym_exec!
          rw [ite_pair, hpfI]
          exact asm_ok sa yev _ _ pf sA T _ has hyx hEfin (by rw [hv, hval]) hT1.2
    · have hme : m = .NearestEven := by
        cases m <;> first | rfl | exact absurd rfl hm
      take_neg
      · exact hm
      have hval := aRNE hme
      sym_exec!
      rw [ite_pair, hpfI]
      exact asm_ok sa yev _ _ pf sA T _ has hyx hEfin (by rw [hv, hval]) hT1.2
  -- the end of the turn and the text after the loop
  have keyT : ∀ (tA tB : UInt64) (shv : Int32) (tI : Bool) (C2v hfv : U128) (R : U256) (lte gte ltm gtm : Bool) (Rf : Nat),
      R.w3.toNat * 2^64 + R.w2.toNat = Rf → Rf ≤ av + 1 → tI = decide (rv ≠ 0) →
      (m = .NearestEven → (if sA = sB then B + Rf else B - Rf) = T) →
      (m ≠ .NearestEven → upB (!sA) sA m ltm gte = true → (if sA = sB then B + Rf else B - Rf) + 1 = T) →
      (m ≠ .NearestEven → upB (!sA) sA m ltm gte = false → dnB (!sA) sA m lte gtm = true → (if sA = sB then B + Rf else B - Rf) - 1 = T) →
      (m ≠ .NearestEven → upB (!sA) sA m ltm gte = false → dnB (!sA) sA m lte gtm = false → (if sA = sB then B + Rf else B - Rf) = T) →
      (JT () tA tB shv tI C2v hfv R lte gte ltm gtm >>= K) =
        .ok (ofBits (encode (.fin sA T (((EB + k : Nat) : Int) - 6176))), pf) := by
    intro tA tB shv tI C2v hfv R lte gte ltm gtm Rf hR hRf htI aRNE aUp aDn aSame
    unfold JT
    have h128 : (10:Nat)^34 + 10^34 < 2^128 := by decide
    by_cases hs : sA = sB
    · have hsS : (sa == sb) = true := by rw [hsig, hs]; simp
      have hdS := hdom.1 hs
      rw [if_pos hs] at aRNE aUp aDn aSame
      kframe take_pos
      · exact hsS
      kframe sym_exec
      kgen_args _ C1s
      replace hC1s : C1s = if decide (P.w0 + R.w2 < P.w0) = true then ⟨P.w0 + R.w2, P.w1 + R.w3 + 1⟩
          else ⟨P.w0 + R.w2, P.w1 + R.w3⟩ := hC1s
      have hv : C1s.w1.toNat * 2^64 + C1s.w0.toNat = B + Rf := by
        have h := sum_words P.w1 P.w0 R.w3 R.w2 (by rw [hPB, hR]; omega)
        unfold sumHi at h
        rw [hPB, hR] at h
        rw [hC1s]
        by_cases c : decide (P.w0 + R.w2 < P.w0) = true
        · rw [if_pos c] at h ⊢; exact h
        · rw [if_neg c] at h ⊢; exact h
      clear hC1s
      kframe head_step
      kframe take_neg
      · show ¬ bigTest C1s.w1 C1s.w0 = true
        rw [bigTest_eq, hv]; simp only [decide_eq_true_eq]; omega
      kframe head_step
      have hyx := exp_plus eb x1 EB k hbe hx1 (by omega)
      kframe take_neg
      · intro h
        rw [Bool.and_eq_true, beq_iff_eq] at h
        have := congrArg UInt64.toNat h.1
        rw [hyx, show c_EXP_MAX_P1.toNat = 12288 * 2^49 from rfl] at this
        omega
      kframe head_step
      sym_exec
      exact keyPost _ _ _ _ _ _ _ _ _ tI C1s _ _ _ _ lte gte ltm gtm _ _ (B + Rf) hv hyx htI aRNE aUp aDn aSame
    · have hsS : ¬ (sa == sb) = true := by rw [hsig]; simpa using hs
      have hdS := hdom.2 hs
      rw [if_neg hs] at aRNE aUp aDn aSame
      kframe take_neg
      · exact hsS
      kframe sym_exec
      kgen_args _ C1s
      replace hC1s : C1s = if decide (P.w0 - R.w2 > P.w0) = true then ⟨P.w0 - R.w2, P.w1 - R.w3 - 1⟩
          else ⟨P.w0 - R.w2, P.w1 - R.w3⟩ := hC1s
      have hv : C1s.w1.toNat * 2^64 + C1s.w0.toNat = B - Rf := by
        have h := sub128_words P.w1 P.w0 R.w3 R.w2
        rw [hPB, hR, show (B + 2^128 - Rf) % 2^128 = B - Rf from by omega] at h
        rw [hC1s]
        by_cases c : decide (P.w0 - R.w2 > P.w0) = true
        · rw [if_pos c] at h ⊢; exact h
        · rw [if_neg c] at h ⊢; exact h
      clear hC1s
      kframe head_step
      kframe take_neg
      · have h0 := C1s.w0.toNat_lt
        have : C1s.w1.toNat < 2^63 := by
          have : (10:Nat)^34 < 2^63 * 2^64 := by decide
          omega
        rw [decide_eq_true_eq, ge_iff_le, UInt64.le_iff_toNat_le, show (0x8000000000000000 : UInt64).toNat = 2^63 from rfl]
        omega
      kframe head_step
      have hBR : 10^33 < B - Rf := by omega
      kframe take_neg
      · rw [Dec.C13GenNoncomp.lt128, eq_words, hv, show (54210108624275 : UInt64).toNat * 2^64 + (4089650035136921600 : UInt64).toNat = 10^33 from by decide]
        simp only [Bool.or_eq_true, Bool.and_eq_true, decide_eq_true_eq]
        rintro (h | ⟨h, -⟩) <;> omega
      kframe head_step
      kframe take_neg
      · rw [eq_words, hv, show (542101086242752 : UInt64).toNat * 2^64 + (4003012203950112768 : UInt64).toNat = 10^34 from by decide]
        simp only [decide_eq_true_eq]
        omega
      kframe head_step
      have hyx := exp_plus eb x1 EB k hbe hx1 (by omega)
      kframe take_pos
      · rw [i32_ge, hx1, h1i]; exact decide_eq_true (by omega)
      kframe head_step
      sym_exec
      exact keyPost _ _ _ _ _ _ _ _ _ tI C1s _ _ _ _ lte gte ltm gtm _ _ (B - Rf) hv hyx htI aRNE aUp aDn aSame
  -- `QB ≥ 2`: the second coefficient is rounded to its leading digit by the reciprocal block
  have hxi : (x1 - 1).toInt = ((k - 1 : Nat) : Int) := by
    rw [Int32.toInt_sub, hx1, h1i, bmod32 _ (by omega) (by omega)]; omega
  have hcB34 : bh.toNat * 2^64 + bl.toNat < 10^34 := by rw [hbc]; exact hbP
  obtain ⟨m64, m128, KT, tr, mask0, oh0, sh0, hM64, hM128, hKT, hTR, hMK, hSH, hOH, hspec⟩ := H bh bl (k - 1) (by omega) hcB34
  obtain ⟨mask, sh, oh, hMK', hSH', hOH'⟩ := tabs_get (k - 1) (by omega)
  have e3 : 3 ≤ k - 1 → mask0 = mask ∧ sh0 = sh ∧ oh0 = oh := fun h3 =>
    ⟨Except.ok.inj ((hMK h3).symm.trans hMK'), Except.ok.inj ((hSH h3).symm.trans hSH'), Except.ok.inj ((hOH h3).symm.trans hOH')⟩
  rw [← idx_i32 (x1 - 1) (k - 1) hxi] at hM64 hKT hTR hMK' hSH' hOH'
  rw [hbc, show k - 1 + 1 = k from by omega, hcBe.1, hcBe.2] at hspec
  have hD := pow10_even k hk1
  generalize hh : 10 ^ k / 2 = h at hspec hD
  clear hMK hSH hOH
  have hge : decide (x1 - 1 ≥ 0) = true := by
    rw [i32_ge, hxi, h0i]; exact decide_eq_true (by omega)
  kframe take_pos
  · exact hge
  have hspec' : ∀ R : U256, R.toNat' = (rbC2 (k - 1) bh bl m64 m128).toNat' * KT.toNat' →
      ((rbQ (k - 1) R sh).2.toNat * 2^64 + (rbQ (k - 1) R sh).1.toNat = if rv < h then av else av + 1) ∧
      rbGtHalf (k - 1) R (rbHf (k - 1) R mask) oh = decide (rv < h) ∧
      (rv < h → rbGtT (k - 1) R (rbHf (k - 1) R mask) oh tr = decide (0 < rv)) ∧
      rbMid R (rbHf (k - 1) R mask) tr = decide (rv = h) := by
    by_cases h3 : 3 ≤ k - 1
    · obtain ⟨rfl, rfl, rfl⟩ := e3 h3; exact hspec
    · intro R hR
      have hs := hspec R hR
      have e1 : rbQ (k - 1) R sh0 = rbQ (k - 1) R sh := by unfold rbQ; rw [if_neg h3, if_neg h3]
      have e2 : rbHf (k - 1) R mask0 = rbHf (k - 1) R mask := by
        unfold rbHf; rw [if_pos (show k - 1 ≤ 2 by omega), if_pos (show k - 1 ≤ 2 by omega)]
      have e4 : ∀ hfv, rbGtHalf (k - 1) R hfv oh0 = rbGtHalf (k - 1) R hfv oh := by
        intro hfv; unfold rbGtHalf; rw [if_pos (show k - 1 ≤ 2 by omega), if_pos (show k - 1 ≤ 2 by omega)]
      have e5 : ∀ hfv, rbGtT (k - 1) R hfv oh0 tr = rbGtT (k - 1) R hfv oh tr := by
        intro hfv; unfold rbGtT; rw [if_pos (show k - 1 ≤ 2 by omega), if_pos (show k - 1 ≤ 2 by omega)]
      rw [e1, e2, e4, e5] at hs
      exact hs
  clear hspec e3
  rw [← hD] at hT hrlt
  have c2 : decide (x1 - 1 ≤ 2) = decide (k - 1 ≤ 2) := by
    rw [i32_le_lit, hxi, show (2 : Int32).toInt = 2 from by decide, decide_eq_decide]; omega
  have c21 : decide (x1 - 1 ≤ 21) = decide (k - 1 ≤ 21) := by
    rw [i32_le_lit, hxi, show (21 : Int32).toInt = 21 from by decide, decide_eq_decide]; omega
  have c18 : decide (x1 - 1 ≤ 18) = decide (k - 1 ≤ 18) := by
    rw [i32_le_lit, hxi, show (18 : Int32).toInt = 18 from by decide, decide_eq_decide]; omega
  have c3 : decide (x1 - 1 ≥ 3) = decide (3 ≤ k - 1) := by
    rw [i32_ge, hxi, show (3 : Int32).toInt = 3 from by decide, decide_eq_decide]; omega
  klet
  extract_lets -underBinder +onlyGivenNames c2a c2b J1
  have key1 : ∀ C2' : U128, C2' = rbC2 (k - 1) bh bl m64 m128 →
      (J1 () C2' >>= K) = .ok (ofBits (encode (.fin sA T (((EB + k : Nat) : Int) - 6176))), pf) := by
    intro C2' hC2'
    obtain ⟨RR, hMul, hRR⟩ := C01GenArith.gen_mul_128x128_to_256 C2' KT
    rw [hC2'] at hRR
    obtain ⟨sQ, sG, sT, sM⟩ := hspec' RR hRR
    clear hspec' hRR
    unfold J1
    kframe head_step
    kframe sym_exec
    kgen_args _ hf
    kframe head_step
    kframe sym_exec
    kgen_args _ shv R2
    have eR0 : R2.w0 = RR.w0 := by
      rw [hR2]; split
      · split <;> rfl
      · rfl
    have eR1 : R2.w1 = RR.w1 := by
      rw [hR2]; split
      · split <;> rfl
      · rfl
    have eQ : (R2.w2, R2.w3) = rbQ (k - 1) RR sh := by
      rw [hR2, c3]; unfold rbQ
      by_cases h3 : 3 ≤ k - 1
      · rw [if_pos (decide_eq_true h3), if_pos h3]
        by_cases h64 : decide (sh < 64) = true
        · rw [if_pos h64, if_pos h64]
        · rw [if_neg h64, if_neg h64]
      · rw [if_neg (by simpa using h3), if_neg h3]
    have eHf : hf = rbHf (k - 1) RR mask := by
      rw [hhf, c2, c21]; unfold rbHf
      by_cases h2 : k - 1 ≤ 2
      · rw [if_pos (decide_eq_true h2), if_pos h2]
      · rw [if_neg (by simpa using h2), if_neg h2]
        by_cases h21 : k - 1 ≤ 21
        · rw [if_pos (decide_eq_true h21), if_pos h21]
        · rw [if_neg (by simpa using h21), if_neg h21]
    rw [← eHf] at sG sT sM
    have eQ2 : R2.w3.toNat * 2^64 + R2.w2.toNat = if rv < h then av else av + 1 := by
      rw [← sQ, ← eQ]
    clear hhf hR2 hshv sQ
    kframe head_beta
    klet
    extract_lets -underBinder +onlyGivenNames J3
    kframe take_neg
    · exact hft
    unfold J3
    kframe head_beta
    klet
    extract_lets -underBinder +onlyGivenNames J2
    have hh1 : 1 ≤ h := by
      have : 0 < 10 ^ k := Nat.pow_pos (by decide)
      omega
    have key2 : ∀ (tA tB : UInt64) (tI ltm0 gtm0 : Bool), tI = decide (rv ≠ 0) →
        ltm0 = (if (sa == sb) = true then decide (0 < rv ∧ rv < h) else decide (¬ rv < h)) →
        gtm0 = (if (sa == sb) = true then decide (¬ rv < h) else decide (0 < rv ∧ rv < h)) →
        (J2 () tA tB tI ltm0 gtm0 >>= K) = .ok (ofBits (encode (.fin sA T (((EB + k : Nat) : Int) - 6176))), pf) := by
      intro tA tB tI ltm0 gtm0 htI hltm0 hgtm0
      unfold J2
      kframe head_step
      kframe sym_exec
      unfold rbMid at sM
      have hparG : ¬ rv < h → (P.w0 + R2.w2 &&& 1 == 1) = decide ((B + av + 1) % 2 = 1) := by
        intro hnlt
        have e2 := eQ2
        rw [if_neg hnlt] at e2
        rw [(parity_word 0 (P.w0 + R2.w2)).1, decide_eq_decide]
        show (0 * 2^64 + (P.w0 + R2.w2).toNat) % 2 = 1 ↔ _
        rw [UInt64.toNat_add]
        omega
      by_cases hs : sA = sB
      · have hsS : (sa == sb) = true := by rw [hsig, hs]; simp
        rw [if_pos hsS] at hltm0 hgtm0
        have hT' : T = if rv = 0 then B + av else roundInt (md m) sA (B + av) rv (2 * h) := by
          rw [hT, if_pos hs, if_pos hs]
        have keyTs : ∀ (R : U256) (lte gte ltm gtm : Bool) (Rf : Nat), R.w3.toNat * 2^64 + R.w2.toNat = Rf → Rf ≤ av + 1 →
            lte = decide (rv = h ∧ (B + av + 1) % 2 = 0) → gte = decide (rv = h ∧ (B + av + 1) % 2 = 1) →
            ltm = decide (0 < rv ∧ rv < h) → gtm = decide (h < rv) →
            Rf = (if rv < h then av else if rv = h ∧ (B + av + 1) % 2 = 1 then av else av + 1) →
            (JT () tA tB shv tI C2' hf R lte gte ltm gtm >>= K) =
              .ok (ofBits (encode (.fin sA T (((EB + k : Nat) : Int) - 6176))), pf) := by
          intro R lte gte ltm gtm Rf hR hRf hlte hgte hltm hgtm hRfe
          obtain ⟨a1, a2, a3, a4⟩ := add_adjust m sA B av rv h hrlt lte gte ltm gtm Rf hlte hgte hltm hgtm hRfe T hT'
          exact keyT tA tB shv tI C2' hf R lte gte ltm gtm Rf hR hRf htI (by rw [if_pos hs]; exact a1)
            (by rw [if_pos hs]; exact a2) (by rw [if_pos hs]; exact a3) (by rw [if_pos hs]; exact a4)
        khead_cases hM
        · kframe take_pos
          · exact hM
          rw [mid_glue, eR1, eR0, sM, decide_eq_true_eq] at hM
          have hnlt : ¬ rv < h := by omega
          have hpar := hparG hnlt
          rw [if_neg hnlt] at eQ2
          by_cases hodd : (B + av + 1) % 2 = 1
          · kframe take_pos
            · rw [hpar]; exact decide_eq_true hodd
            kframe sym_exec
            kgen_args _ Rd
            replace hRd : Rd = if (R2.w2 - 1 == 18446744073709551615) = true then ⟨R2.w0, R2.w1, R2.w2 - 1, R2.w3 - 1⟩
                else ⟨R2.w0, R2.w1, R2.w2 - 1, R2.w3⟩ := hRd
            have hRdv : Rd.w3.toNat * 2^64 + Rd.w2.toNat = av := by
              have hd := dec_words R2.w3 R2.w2 (by rw [eQ2]; omega)
              rw [eQ2, Nat.add_sub_cancel] at hd
              rw [hRd]
              by_cases c : (R2.w2 - 1 == 18446744073709551615) = true
              · rw [if_pos c] at hd ⊢; exact hd
              · rw [if_neg c] at hd ⊢; exact hd
            kframe head_step
            kframe take_pos
            · exact hsS
            kframe head_zeta
            exact keyTs Rd false true false false av hRdv (by omega)
              (decide_eq_false (fun hh => by have := hh.2; omega)).symm (decide_eq_true ⟨hM, hodd⟩).symm
              (decide_eq_false (by omega)).symm (decide_eq_false (by omega)).symm
              (by rw [if_neg hnlt, if_pos ⟨hM, hodd⟩])
          · kframe take_neg
            · rw [hpar]; simpa using hodd
            kframe sym_exec
            kframe head_zeta
            exact keyTs R2 _ _ false false (av + 1) eQ2 (by omega)
              (by rw [if_pos hsS]; exact (decide_eq_true ⟨hM, by omega⟩).symm)
              (by rw [if_pos hsS]; exact (decide_eq_false (fun hh => hodd hh.2)).symm)
              (decide_eq_false (by omega)).symm (decide_eq_false (by omega)).symm
              (by rw [if_neg hnlt, if_neg (fun hh => hodd hh.2)])
        · kframe take_neg
          · exact hM
          rw [mid_glue, eR1, eR0, sM, decide_eq_true_eq] at hM
          exact keyTs R2 false false ltm0 gtm0 _ eQ2 (by split <;> omega)
            (decide_eq_false (fun hh => hM hh.1)).symm (decide_eq_false (fun hh => hM hh.1)).symm
            hltm0 (by rw [hgtm0, decide_eq_decide]; omega)
            (by by_cases c : rv < h
                · rw [if_pos c, if_pos c]
                · rw [if_neg c, if_neg c, if_neg (fun hh => hM hh.1)])
      · have hsS : ¬ (sa == sb) = true := by rw [hsig]; simpa using hs
        rw [if_neg hsS] at hltm0 hgtm0
        have hdS := hdom.2 hs
        have hT' : T = if rv = 0 then B - av else roundInt (md m) sA (B - av - 1) (2 * h - rv) (2 * h) := by
          rw [hT, if_neg hs, if_neg hs]
        have keyTs : ∀ (R : U256) (lte gte ltm gtm : Bool) (Rf : Nat), R.w3.toNat * 2^64 + R.w2.toNat = Rf → Rf ≤ av + 1 →
            lte = decide (rv = h ∧ (B + av + 1) % 2 = 1) → gte = decide (rv = h ∧ (B + av + 1) % 2 = 0) →
            ltm = decide (h < rv) → gtm = decide (0 < rv ∧ rv < h) →
            Rf = (if rv < h then av else if rv = h ∧ (B + av + 1) % 2 = 1 then av else av + 1) →
            (JT () tA tB shv tI C2' hf R lte gte ltm gtm >>= K) =
              .ok (ofBits (encode (.fin sA T (((EB + k : Nat) : Int) - 6176))), pf) := by
          intro R lte gte ltm gtm Rf hR hRf hlte hgte hltm hgtm hRfe
          obtain ⟨a1, a2, a3, a4⟩ := sub_adjust m sA B av rv h (by omega) hrlt lte gte ltm gtm Rf hlte hgte hltm hgtm hRfe T hT'
          exact keyT tA tB shv tI C2' hf R lte gte ltm gtm Rf hR hRf htI (by rw [if_neg hs]; exact a1)
            (by rw [if_neg hs]; exact a2) (by rw [if_neg hs]; exact a3) (by rw [if_neg hs]; exact a4)
        khead_cases hM
        · kframe take_pos
          · exact hM
          rw [mid_glue, eR1, eR0, sM, decide_eq_true_eq] at hM
          have hnlt : ¬ rv < h := by omega
          have hpar := hparG hnlt
          rw [if_neg hnlt] at eQ2
          by_cases hodd : (B + av + 1) % 2 = 1
          · kframe take_pos
            · rw [hpar]; exact decide_eq_true hodd
            kframe sym_exec
            kgen_args _ Rd
            replace hRd : Rd = if (R2.w2 - 1 == 18446744073709551615) = true then ⟨R2.w0, R2.w1, R2.w2 - 1, R2.w3 - 1⟩
                else ⟨R2.w0, R2.w1, R2.w2 - 1, R2.w3⟩ := hRd
            have hRdv : Rd.w3.toNat * 2^64 + Rd.w2.toNat = av := by
              have hd := dec_words R2.w3 R2.w2 (by rw [eQ2]; omega)
              rw [eQ2, Nat.add_sub_cancel] at hd
              rw [hRd]
              by_cases c : (R2.w2 - 1 == 18446744073709551615) = true
              · rw [if_pos c] at hd ⊢; exact hd
              · rw [if_neg c] at hd ⊢; exact hd
            kframe head_step
            kframe take_neg
            · exact hsS
            kframe head_zeta
            exact keyTs Rd true false false false av hRdv (by omega)
              (decide_eq_true ⟨hM, hodd⟩).symm (decide_eq_false (fun hh => by have := hh.2; omega)).symm
              (decide_eq_false (by omega)).symm (decide_eq_false (by omega)).symm
              (by rw [if_neg hnlt, if_pos ⟨hM, hodd⟩])
          · kframe take_neg
            · rw [hpar]; simpa using hodd
            kframe sym_exec
            kframe head_zeta
            exact keyTs R2 _ _ false false (av + 1) eQ2 (by omega)
              (by rw [if_neg hsS]; exact (decide_eq_false (fun hh => hodd hh.2)).symm)
              (by rw [if_neg hsS]; exact (decide_eq_true ⟨hM, by omega⟩).symm)
              (decide_eq_false (by omega)).symm (decide_eq_false (by omega)).symm
              (by rw [if_neg hnlt, if_neg (fun hh => hodd hh.2)])
        · kframe take_neg
          · exact hM
          rw [mid_glue, eR1, eR0, sM, decide_eq_true_eq] at hM
          exact keyTs R2 false false ltm0 gtm0 _ eQ2 (by split <;> omega)
            (decide_eq_false (fun hh => hM hh.1)).symm (decide_eq_false (fun hh => hM hh.1)).symm
            (by rw [hltm0, decide_eq_decide]; omega) hgtm0
            (by by_cases c : rv < h
                · rw [if_pos c, if_pos c]
                · rw [if_neg c, if_neg c, if_neg (fun hh => hM hh.1)])
    have leafG : ∀ (Texp : Bool) (tA tB : UInt64), rv < h → Texp = decide (0 < rv) →
        ((if Texp = true then
            (if (sa == sb) = true then J2 () tA tB true true false else J2 () tA tB true false true)
          else J2 () tA tB false false false) >>= K)
          = .ok (ofBits (encode (.fin sA T (((EB + k : Nat) : Int) - 6176))), pf) := by
      intro Texp tA tB hlt hTe
      by_cases r0 : 0 < rv
      · rw [hTe, if_pos (decide_eq_true r0)]
        by_cases hS : (sa == sb) = true
        · rw [if_pos hS]
          exact key2 tA tB true true false (decide_eq_true (by omega)).symm
            (by rw [if_pos hS]; exact (decide_eq_true ⟨r0, hlt⟩).symm)
            (by rw [if_pos hS]; exact (decide_eq_false (not_not.2 hlt)).symm)
        · rw [if_neg hS]
          exact key2 tA tB true false true (decide_eq_true (by omega)).symm
            (by rw [if_neg hS]; exact (decide_eq_false (not_not.2 hlt)).symm)
            (by rw [if_neg hS]; exact (decide_eq_true ⟨r0, hlt⟩).symm)
      · rw [hTe, if_neg (by simpa using r0)]
        exact key2 tA tB false false false (decide_eq_false (by omega)).symm
          (by split
              · exact (decide_eq_false (fun hh => r0 hh.1)).symm
              · exact (decide_eq_false (not_not.2 hlt)).symm)
          (by split
              · exact (decide_eq_false (not_not.2 hlt)).symm
              · exact (decide_eq_false (fun hh => r0 hh.1)).symm)
    have leafL : ∀ (tA tB : UInt64), ¬ rv < h →
        ((if (sa == sb) = true then J2 () tA tB true false true else J2 () tA tB true true false) >>= K)
          = .ok (ofBits (encode (.fin sA T (((EB + k : Nat) : Int) - 6176))), pf) := by
      intro tA tB hlt
      by_cases hS : (sa == sb) = true
      · rw [if_pos hS]
        exact key2 tA tB true false true (decide_eq_true (by omega)).symm
          (by rw [if_pos hS]; exact (decide_eq_false (fun hh => hlt hh.2)).symm)
          (by rw [if_pos hS]; exact (decide_eq_true hlt).symm)
      · rw [if_neg hS]
        exact key2 tA tB true true false (decide_eq_true (by omega)).symm
          (by rw [if_neg hS]; exact (decide_eq_true hlt).symm)
          (by rw [if_neg hS]; exact (decide_eq_false (fun hh => hlt hh.2)).symm)
    clear key2
    unfold rbGtHalf at sG
    unfold rbGtT at sT
    by_cases h2 : k - 1 ≤ 2
    · have hr1 : decide (x1 - 1 ≤ 2) = true := by rw [c2]; exact decide_eq_true h2
      rw [if_pos h2] at sG sT
      rw [← eR1, ← eR0] at sG sT
      kframe take_pos
      · exact hr1
      khead_cases hG
      · kframe take_pos
        · exact hG
        rw [sG, decide_eq_true_eq] at hG
        have sT' := sT hG
        kframe sym_exec
        refine leafG _ (R2.w1 - 9223372036854775808) default hG ?_
        rw [or_glue]; exact sT'
      · kframe take_neg
        · exact hG
        rw [sG, decide_eq_true_eq] at hG
        kframe sym_exec
        exact leafL default default hG
    have hr1 : ¬ decide (x1 - 1 ≤ 2) = true := by rw [c2]; simpa using h2
    rw [if_neg h2] at sG sT
    kframe take_neg
    · exact hr1
    by_cases h21 : k - 1 ≤ 21
    · have hr2 : decide (x1 - 1 ≤ 21) = true := by rw [c21]; exact decide_eq_true h21
      rw [if_pos h21] at sG sT
      rw [← eR1, ← eR0] at sG sT
      kframe take_pos
      · exact hr2
      kframe sym_exec
      khead_cases hG
      · kframe take_pos
        · exact hG
        rw [g2_glue, sG, decide_eq_true_eq] at hG
        kframe sym_exec
        kframe head_step
        kframe sym_exec
        refine leafG _ (hf.w0 - oh) (if decide (hf.w0 - oh > hf.w0) = true then hf.w1 - 1 else hf.w1) hG ?_
        rw [t2_glue]; exact sT hG
      · kframe take_neg
        · exact hG
        rw [g2_glue, sG, decide_eq_true_eq] at hG
        kframe sym_exec
        exact leafL default default hG
    · have hr2 : ¬ decide (x1 - 1 ≤ 21) = true := by rw [c21]; simpa using h21
      rw [if_neg h21] at sG sT
      rw [← eR1, ← eR0] at sG sT
      kframe take_neg
      · exact hr2
      kframe sym_exec
      khead_cases hG
      · kframe take_pos
        · exact hG
        rw [or1_glue, sG, decide_eq_true_eq] at hG
        kframe sym_exec
        refine leafG _ default (hf.w1 - oh) hG ?_
        rw [t2_glue]; exact sT hG
      · kframe take_neg
        · exact hG
        rw [or1_glue, sG, decide_eq_true_eq] at hG
        kframe sym_exec
        exact leafL default default hG
  by_cases h18 : k - 1 ≤ 18
  · have hr18 : decide (x1 - 1 ≤ 18) = true := by rw [c18]; exact decide_eq_true h18
    have hM64' := hM64 h18
    kframe take_pos
    · exact hr18
    kframe sym_exec
    khead_cases hc
    · kframe take_pos
      · exact hc
      refine key1 _ ?_
      have hc' : decide (bl + m64 < bl) = true := hc
      unfold rbC2; rw [if_pos h18, if_pos hc']
    · kframe take_neg
      · exact hc
      refine key1 _ ?_
      have hc' : ¬ decide (bl + m64 < bl) = true := hc
      unfold rbC2; rw [if_pos h18, if_neg hc']
  · have hr18 : ¬ decide (x1 - 1 ≤ 18) = true := by rw [c18]; simpa using h18
    have hi19 : (x1 - 1 - 19).toInt = ((k - 1 - 19 : Nat) : Int) := by
      rw [Int32.toInt_sub, hxi, show (19 : Int32).toInt = 19 from by decide, bmod32 _ (by omega) (by omega)]; omega
    have hM128' := hM128 h18
    rw [← idx_i32 (x1 - 1 - 19) (k - 1 - 19) hi19] at hM128'
    kframe take_neg
    · exact hr18
    kframe sym_exec
    khead_cases hc
    · kframe take_pos
      · exact hc
      refine key1 _ ?_
      have hc' : decide (bl + m128.w0 < bl) = true := hc
      unfold rbC2; rw [if_neg h18, if_pos hc']
    · kframe take_neg
      · exact hc
      refine key1 _ ?_
      have hc' : ¬ decide (bl + m128.w0 < bl) = true := hc
      unfold rbC2; rw [if_neg h18, if_neg hc']

/-- operands in the code's order (`a` has the larger exponent), decoded: `34 − q_b < delta < 34`, and `B ± (C_b rounded)`
keeps 34 digits whichever way `C_b` is rounded (`B = C_a·10^(34 − q_a)`, `k = delta + q_b − 34` digits rounded away) -/
theorem add_loop1_core (H : RoundBlockSpec) (x y a b : U128) (m : RoundingMode) (f : UInt32) (hab : Ordered x y a b)
    {sA sB : Bool} {cA cB : Nat} {eA eB : Int}
    (ha : decode (bitsOf a) = .fin sA cA eA) (hb : decode (bitsOf b) = .fin sB cB eB) (hcA : cA ≠ 0) (hcB : cB ≠ 0)
    (hlo : 34 < (ndigits cA : Int) + eA - eB) (hhi : (ndigits cA : Int) + eA - ndigits cB - eB < 34)
    (hdom : (sA = sB → cA * 10 ^ (34 - ndigits cA) + cB / 10 ^ ((ndigits cA : Int) + eA - eB - 34).toNat + 1 < 10^34) ∧
      (¬ sA = sB → 10^33 + cB / 10 ^ ((ndigits cA : Int) + eA - eB - 34).toNat + 1 < cA * 10 ^ (34 - ndigits cA))) :
    bid128_add x y m f =
      .ok (ofBits (encode (addFin (md m) sA cA eA sB cB eB (if eA ≤ eB then eA else eB)).1),
           f ||| UInt32.ofNat (addFin (md m) sA cA eA sB cB eB (if eA ≤ eB then eA else eB)).2) := by
  obtain ⟨ha1, hac, haP, hae, halo, hahi, has, -⟩ := fin_view a ha
  obtain ⟨hb1, hbc, hbP, hbe, hblo, hbhi, hbs, -⟩ := fin_view b hb
  have hcA0 : 0 < cA := Nat.pos_of_ne_zero hcA
  have hcB0 : 0 < cB := Nat.pos_of_ne_zero hcB
  have ha0 := nonzero_words hac hcA
  have hb0 := nonzero_words hbc hcB
  have hQA1 := ndigits_pos hcA0
  have hQB1 := ndigits_pos hcB0
  have hQA : ndigits cA ≤ 34 := (ndigits_le_iff hcA0).2 (by simpa [P34] using haP)
  have hQB : ndigits cB ≤ 34 := (ndigits_le_iff hcB0).2 (by simpa [P34] using hbP)
  have hbP' : cB < 10^34 := by simpa [P34] using hbP
  have hle : eB ≤ eA := by omega
  have hsp : ¬ ((x.w1 &&& c_MASK_SPECIAL == c_MASK_SPECIAL) || (y.w1 &&& c_MASK_SPECIAL == c_MASK_SPECIAL)) = true := by
    rcases hab with ⟨rfl, rfl, -⟩ | ⟨rfl, rfl, -⟩
    · exact not_special2 ha1 hb1
    · exact not_special2 hb1 ha1
  have hx0 : ¬ (uH x == 0 && uL x == 0) = true := by
    rcases hab with ⟨rfl, rfl, -⟩ | ⟨rfl, rfl, -⟩
    · exact ha0
    · exact hb0
  have hy0 : ¬ (uH y == 0 && uL y == 0) = true := by
    rcases hab with ⟨rfl, rfl, -⟩ | ⟨rfl, rfl, -⟩
    · exact hb0
    · exact ha0
  obtain ⟨D, D1, THI, TLO, hTa, hqa⟩ := digits_row (uH a) (uL a) (by rw [hac]; exact hcA0) (hi_lt hac haP)
  obtain ⟨D', D1', THI', TLO', hTb, hqb⟩ := digits_row (uH b) (uL b) (by rw [hbc]; exact hcB0) (hi_lt hbc hbP)
  rw [hac] at hqa
  rw [hbc] at hqb
  have hlo' := (ndigits_spec hcA0).1
  have hcAlt := lt_pow_ndigits cA
  have hcBlt := lt_pow_ndigits cB
  generalize hQAd : ndigits cA = QA at *
  generalize hQBd : ndigits cB = QB at *
  generalize hEAd : (eA + 6176).toNat = EA at *
  generalize hEBd : (eB + 6176).toNat = EB at *
  generalize hkd : ((QA : Int) + eA - eB - 34).toNat = k at *
  have hk1 : 1 ≤ k := by omega
  have hkQ : k + 1 ≤ QB := by omega
  have hkE : (QA : Int) + EA - EB - 34 = k := by omega
  have hEA : EA < 12288 := by omega
  have hEle : EB ≤ EA := by omega
  have hgap : (eA - eB).toNat = (34 - QA) + k := by omega
  have hB1 : 10^33 ≤ cA * 10 ^ (34 - QA) := by
    calc 10^33 = 10 ^ (QA - 1) * 10 ^ (34 - QA) := by rw [← Nat.pow_add]; congr 1; omega
      _ ≤ cA * 10 ^ (34 - QA) := Nat.mul_le_mul_right _ hlo'
  have hB2 : cA * 10 ^ (34 - QA) < 10^34 := by
    calc cA * 10 ^ (34 - QA) < 10 ^ QA * 10 ^ (34 - QA) := Nat.mul_lt_mul_of_pos_right hcAlt (Nat.pow_pos (by decide))
      _ = 10^34 := by rw [← Nat.pow_add]; congr 1; omega
  have hA : cA * 10 ^ (eA - eB).toNat = cA * 10 ^ (34 - QA) * 10 ^ k := by rw [hgap, Nat.pow_add, Nat.mul_assoc]
  generalize hBd : cA * 10 ^ (34 - QA) = B at *
  have hgt : cB < cA * 10 ^ (eA - eB).toNat := by
    rw [hA]
    have h1 : 10 ^ QB ≤ 10 ^ (33 + k) := Nat.pow_le_pow_right (by decide) (by omega)
    have h2 : 10^33 * 10^k ≤ B * 10^k := Nat.mul_le_mul_right _ hB1
    rw [Nat.pow_add] at h1
    omega
  have hp : 0 < 10 ^ k := Nat.pow_pos (by decide)
  have hdm := Nat.div_add_mod cB (10 ^ k)
  have hrlt := Nat.mod_lt cB hp
  have hcBe : cB = cB / 10 ^ k * 10 ^ k + cB % 10 ^ k := by rw [Nat.mul_comm]; exact hdm.symm
  rw [addFin_big (md m) sA cA eA sB cB eB hle hgt, hA]
  have hdiv : cB / 10 ^ k = cB / 10 ^ k ∧ cB % 10 ^ k = cB % 10 ^ k := ⟨rfl, rfl⟩
  generalize hav : cB / 10 ^ k = av at hdom hrlt hcBe hdiv ⊢
  generalize hrv : cB % 10 ^ k = rv at hdom hrlt hcBe hdiv ⊢
  obtain ⟨T, hT⟩ : ∃ T, T = if rv = 0 then (if sA = sB then B + av else B - av)
      else (if sA = sB then roundInt (md m) sA (B + av) rv (10 ^ k) else roundInt (md m) sA (B - av - 1) (10 ^ k - rv) (10 ^ k)) :=
    ⟨_, rfl⟩
  obtain ⟨pf, hpf⟩ : ∃ pf, pf = if rv = 0 then f else f ||| c_StatusFlags_BID_INEXACT_EXCEPTION := ⟨_, rfl⟩
  have hT1 : 10^33 ≤ T ∧ T < 10^34 := by
    rw [hT]
    by_cases hs : sA = sB
    · have := hdom.1 hs
      rw [if_pos hs, if_pos hs]
      split
      · omega
      · rcases ri_cases (md m) sA (B + av) rv (10 ^ k) with h | h <;> rw [h] <;> omega
    · have := hdom.2 hs
      rw [if_neg hs, if_neg hs]
      split
      · omega
      · rcases ri_cases (md m) sA (B - av - 1) (10 ^ k - rv) (10 ^ k) with h | h <;> rw [h] <;> omega
  have hS := loop1_code H x y a b m f hsp hx0 hy0 hab D D1 THI TLO D' D1' THI' TLO' hTa hTb sA sB cA cB QA QB EA EB k B av rv T pf
    has hbs hac hbc hae hbe hqa hqb hQAd hcA0 hQA1 hQA hQB1 hQB hEA hEle hkE hk1 hkQ hBd hB1 hB2 hbP' ⟨hav, hrv⟩ hrlt hdom hT hpf hT1
  have hE : ((EB + k : Nat) : Int) - 6176 = eB + (k : Int) := by omega
  rw [hS, hE, hT, hpf]
  conv => rhs; rw [hcBe]
  by_cases hs : sA = sB
  · rw [if_pos hs, if_pos hs, if_pos hs, finish_add1 (md m) sA k B av rv eB hB1 (hdom.1 hs) hrlt hblo (by omega)]
    by_cases r0 : rv = 0
    · rw [if_pos r0, if_pos r0, if_pos r0, or_zero32]
    · rw [if_neg r0, if_neg r0, if_neg r0]; rfl
  · rw [if_neg hs, if_neg hs, if_neg hs, finish_sub1 (md m) sA k B av rv eB (hdom.2 hs) hB2 hrlt hblo (by omega)]
    by_cases r0 : rv = 0
    · rw [if_pos r0, if_pos r0, if_pos r0, or_zero32]
    · rw [if_neg r0, if_neg r0, if_neg r0]; rfl

/-! ## 8. The loop, one turn and one rounding, in terms of the decoded operands -/

/-- in terms of the decoded operands: with `H` the operand of the larger exponent (`x` on a tie) and `L` the other one,
`34 − q_L < delta < 34` (the code enters the rounding loop; `k = delta + q_L − 34` digits of `C_L` are rounded away), and the
34-digit `B = C_H·10^(34 − q_H)` plus / minus `⌊C_L / 10^k⌋` or `⌊C_L / 10^k⌋ + 1` stays a 34-digit number: one turn of the
loop, no second rounding -/
def Loop1Cond (s1 : Bool) (c1 : Nat) (e1 : Int) (s2 : Bool) (c2 : Nat) (e2 : Int) : Prop :=
  if e2 ≤ e1 then
    34 < (ndigits c1 : Int) + e1 - e2 ∧ (ndigits c1 : Int) + e1 - ndigits c2 - e2 < 34 ∧
    (s1 = s2 → c1 * 10 ^ (34 - ndigits c1) + c2 / 10 ^ ((ndigits c1 : Int) + e1 - e2 - 34).toNat + 1 < 10^34) ∧
    (¬ s1 = s2 → 10^33 + c2 / 10 ^ ((ndigits c1 : Int) + e1 - e2 - 34).toNat + 1 < c1 * 10 ^ (34 - ndigits c1))
  else
    34 < (ndigits c2 : Int) + e2 - e1 ∧ (ndigits c2 : Int) + e2 - ndigits c1 - e1 < 34 ∧
    (s2 = s1 → c2 * 10 ^ (34 - ndigits c2) + c1 / 10 ^ ((ndigits c2 : Int) + e2 - e1 - 34).toNat + 1 < 10^34) ∧
    (¬ s2 = s1 → 10^33 + c1 / 10 ^ ((ndigits c2 : Int) + e2 - e1 - 34).toNat + 1 < c2 * 10 ^ (34 - ndigits c2))

instance (s1 : Bool) (c1 : Nat) (e1 : Int) (s2 : Bool) (c2 : Nat) (e2 : Int) : Decidable (Loop1Cond s1 c1 e1 s2 c2 e2) := by
  unfold Loop1Cond; infer_instance

/-- **`bid128_add`, two non-zero numbers, `Loop1Cond`** (the rounding loop, one turn, one rounding): `C_L` is rounded to
`q_L − k` digits by the reciprocal block (half up, stepping back on a tie when the sum / difference would be odd), added to /
subtracted from the padded `C_H`, and corrected by one unit as the rounding mode, the sign and the block's indicators
prescribe; inexact iff digits were lost.  This is `addD`, datum and flags, for all five modes. -/
theorem add_loop1 (H : RoundBlockSpec) (x y : U128) (m : RoundingMode) (f : UInt32) {s1 s2 : Bool} {c1 c2 : Nat} {e1 e2 : Int}
    (hx : decode (bitsOf x) = .fin s1 c1 e1) (hy : decode (bitsOf y) = .fin s2 c2 e2) (hc1 : c1 ≠ 0) (hc2 : c2 ≠ 0)
    (h : Loop1Cond s1 c1 e1 s2 c2 e2) :
    bid128_add x y m f =
      .ok (ofBits (encode (addD (md m) (decode (bitsOf x)) (decode (bitsOf y))).1),
           f ||| UInt32.ofNat (addD (md m) (decode (bitsOf x)) (decode (bitsOf y))).2) := by
  obtain ⟨-, -, -, hxe, hxlo, hxhi, -, -⟩ := fin_view x hx
  obtain ⟨-, -, -, hye, hylo, hyhi, -, -⟩ := fin_view y hy
  rw [hx, hy, addD_fin_fin]
  unfold Loop1Cond at h
  by_cases hle : e2 ≤ e1
  · rw [if_pos hle] at h
    have hab : Ordered x y x y := Or.inl ⟨rfl, rfl, by
      rw [decide_eq_true_eq, UInt64.lt_iff_toNat_lt, hxe, hye]; omega⟩
    exact add_loop1_core H x y x y m f hab hx hy hc1 hc2 h.1 h.2.1 h.2.2
  · rw [if_neg hle] at h
    have hab : Ordered x y y x := Or.inr ⟨rfl, rfl, by
      rw [decide_eq_true_eq, UInt64.lt_iff_toNat_lt, hxe, hye]; omega⟩
    rw [addFin_comm]
    exact add_loop1_core H x y y x m f hab hy hx hc2 hc1 h.1 h.2.1 h.2.2

-- 15 + 1.000000000000000000000000000000001 = 16.000000000000000000000000000000001 → 16.00000000000000000000000000000000, inexact
example (H : RoundBlockSpec) : bid128_add ⟨15, 0x3040000000000000⟩ ⟨0x38c15b0a00000001, 0x2ffe314dc6448d93⟩ .NearestEven 0
    = .ok (ofBits (encode (.fin false (16 * 10^32) (-32))), 0x20) := by
  rw [add_loop1 H (s1 := false) (c1 := 15) (e1 := 0) (s2 := false) (c2 := 10^33 + 1) (e2 := -33) _ _ _ _ (by decide +kernel)
    (by decide +kernel) (by decide) (by decide) (by decide +kernel)]
  decide +kernel
-- 15 − 1.000000000000000000000000000000001 = 13.999999999999999999999999999999999 → toward zero 13.99999999999999999999999999999999
example (H : RoundBlockSpec) : bid128_add ⟨15, 0x3040000000000000⟩ ⟨0x38c15b0a00000001, 0xaffe314dc6448d93⟩ .TowardZero 0
    = .ok (ofBits (encode (.fin false (14 * 10^32 - 1) (-32))), 0x20) := by
  rw [add_loop1 H (s1 := false) (c1 := 15) (e1 := 0) (s2 := true) (c2 := 10^33 + 1) (e2 := -33) _ _ _ _ (by decide +kernel)
    (by decide +kernel) (by decide) (by decide) (by decide +kernel)]
  decide +kernel

/-! ## 9. `AddRounding`: what is closed (the power-of-ten sub-case of `delta = P34`), what is left (the loop)

State of the loop: `add_loop1` (§7–§8) closes the part "one turn, one rounding" (`Loop1Cond`); the 35-digit sum (second
rounding by `BID_TEN2MK128[0]` and its repair) and the second turn after a cancellation are open: `LoopRestRounding`. -/

/-- the loop's region, decoded operands: `34 − q_L < delta < 34` -/
def LoopCond (s1 : Bool) (c1 : Nat) (e1 : Int) (s2 : Bool) (c2 : Nat) (e2 : Int) : Prop :=
  if e2 ≤ e1 then
    34 - (ndigits c2 : Int) < (ndigits c1 : Int) + e1 - ndigits c2 - e2 ∧ (ndigits c1 : Int) + e1 - ndigits c2 - e2 < 34
  else
    34 - (ndigits c1 : Int) < (ndigits c2 : Int) + e2 - ndigits c1 - e1 ∧ (ndigits c2 : Int) + e2 - ndigits c1 - e1 < 34

/-- two non-zero numbers in the power-of-ten sub-case of `delta = P34` -/
def PowRegion : Datum → Datum → Prop
  | .fin s1 c1 e1, .fin s2 c2 e2 => c1 ≠ 0 ∧ c2 ≠ 0 ∧ PowCond s1 c1 e1 s2 c2 e2
  | _, _ => False

/-- two non-zero numbers for which the code enters the rounding loop -/
def LoopRegion : Datum → Datum → Prop
  | .fin s1 c1 e1, .fin s2 c2 e2 => c1 ≠ 0 ∧ c2 ≠ 0 ∧ LoopCond s1 c1 e1 s2 c2 e2
  | _, _ => False

theorem remaining_cases (dx dy : Datum) (h : Remaining dx dy) : PowRegion dx dy ∨ LoopRegion dx dy := by
  cases dx with
  | nan s g p => exact absurd h id
  | inf s => exact absurd h id
  | fin s1 c1 e1 =>
    cases dy with
    | nan s g p => exact absurd h id
    | inf s => exact absurd h id
    | fin s2 c2 e2 =>
      obtain ⟨h1, h2, h3⟩ := h
      unfold RemCond at h3
      by_cases hle : e2 ≤ e1
      · rw [if_pos hle] at h3
        rcases h3 with h3 | h3
        · exact Or.inr ⟨h1, h2, by unfold LoopCond; rw [if_pos hle]; exact h3⟩
        · exact Or.inl ⟨h1, h2, by unfold PowCond; rw [if_pos hle]; exact h3⟩
      · rw [if_neg hle] at h3
        rcases h3 with h3 | h3
        · exact Or.inr ⟨h1, h2, by unfold LoopCond; rw [if_neg hle]; exact h3⟩
        · exact Or.inl ⟨h1, h2, by unfold PowCond; rw [if_neg hle]; exact h3⟩

/-- **`bid128_add` on `PowRegion`** (the former defect D1's region) is `addD` -/
theorem add_pow_region (H : RoundBlockSpec) (x y : U128) (m : RoundingMode) (f : UInt32) (h : PowRegion (dOf x) (dOf y)) :
    bid128_add x y m f = .ok (ofBits (encode (addD (md m) (dOf x) (dOf y)).1), f ||| UInt32.ofNat (addD (md m) (dOf x) (dOf y)).2) := by
  unfold dOf at *
  cases hx : decode (bitsOf x) with
  | fin s1 c1 e1 =>
    cases hy : decode (bitsOf y) with
    | fin s2 c2 e2 =>
      rw [hx, hy] at h
      rw [← hx, ← hy]
      exact add_d34pow H x y m f hx hy h.1 h.2.1 h.2.2
    | inf s => rw [hx, hy] at h; exact absurd h id
    | nan s g p => rw [hx, hy] at h; exact absurd h id
  | inf s => rw [hx] at h; exact absurd h id
  | nan s g p => rw [hx] at h; exact absurd h id

/-- what is still to be proved: `bid128_add` is `addD` where the code enters the rounding loop -/
def LoopRounding : Prop :=
  ∀ (x y : U128) (m : RoundingMode) (f : UInt32), LoopRegion (dOf x) (dOf y) →
    bid128_add x y m f = .ok (ofBits (encode (addD (md m) (dOf x) (dOf y)).1), f ||| UInt32.ofNat (addD (md m) (dOf x) (dOf y)).2)

/-- the part of the loop's region that is proved (`add_loop1`): one turn, one rounding -/
def Loop1Region : Datum → Datum → Prop
  | .fin s1 c1 e1, .fin s2 c2 e2 => c1 ≠ 0 ∧ c2 ≠ 0 ∧ Loop1Cond s1 c1 e1 s2 c2 e2
  | _, _ => False

/-- **`bid128_add` on `Loop1Region`** is `addD` -/
theorem add_loop1_region (H : RoundBlockSpec) (x y : U128) (m : RoundingMode) (f : UInt32) (h : Loop1Region (dOf x) (dOf y)) :
    bid128_add x y m f = .ok (ofBits (encode (addD (md m) (dOf x) (dOf y)).1), f ||| UInt32.ofNat (addD (md m) (dOf x) (dOf y)).2) := by
  unfold dOf at *
  cases hx : decode (bitsOf x) with
  | fin s1 c1 e1 =>
    cases hy : decode (bitsOf y) with
    | fin s2 c2 e2 =>
      rw [hx, hy] at h
      rw [← hx, ← hy]
      exact add_loop1 H x y m f hx hy h.1 h.2.1 h.2.2
    | inf s => rw [hx, hy] at h; exact absurd h id
    | nan s g p => rw [hx, hy] at h; exact absurd h id
  | inf s => rw [hx] at h; exact absurd h id
  | nan s g p => rw [hx] at h; exact absurd h id

/-- **what is still to be proved**: `bid128_add` is `addD` on the rest of the loop's region — the padded first coefficient
plus the rounded second one may reach 35 digits (second rounding by `BID_TEN2MK128[0]` and the double-rounding repair), or
minus the rounded second one may fall to `10^33` or below (cancellation: second turn of the loop, `second_pass`) -/
def LoopRestRounding : Prop :=
  ∀ (x y : U128) (m : RoundingMode) (f : UInt32), LoopRegion (dOf x) (dOf y) → ¬ Loop1Region (dOf x) (dOf y) →
    bid128_add x y m f = .ok (ofBits (encode (addD (md m) (dOf x) (dOf y)).1), f ||| UInt32.ofNat (addD (md m) (dOf x) (dOf y)).2)

theorem loop_rounding_partial (H : RoundBlockSpec) (HR : LoopRestRounding) : LoopRounding := by
  intro x y m f h
  by_cases h1 : Loop1Region (dOf x) (dOf y)
  · exact add_loop1_region H x y m f h1
  · exact HR x y m f h h1

/-- `AddRounding` from the block's specification and the rest of the loop -/
theorem add_rounding_partial (H : RoundBlockSpec) (HR : LoopRestRounding) : AddRounding := by
  intro x y m f h
  rcases remaining_cases _ _ h with h | h
  · exact add_pow_region H x y m f h
  · exact loop_rounding_partial H HR x y m f h

/-- **`bid128_add` for all inputs, all modes** — up to `LoopRestRounding` -/
theorem bid128_add_spec_partial2 (H : RoundBlockSpec) (HR : LoopRestRounding) (x y : U128) (m : RoundingMode) (f : UInt32) :
    bid128_add x y m f = .ok (binSpec (addD (md m)) x y f) :=
  bid128_add_spec_partial' (add_rounding_partial H HR) x y m f

/-- **`bid128_sub` for all inputs, all modes** — up to `LoopRestRounding` -/
theorem bid128_sub_spec_partial2 (H : RoundBlockSpec) (HR : LoopRestRounding) (x y : U128) (m : RoundingMode) (f : UInt32) :
    bid128_sub x y m f = .ok (binSpec (subD (md m)) x y f) :=
  bid128_sub_spec_partial' (add_rounding_partial H HR) x y m f

/-- `bid128_add` is `addD` (the public result, NaN operands included) outside the open part of the loop's region -/
theorem bid128_add_spec_closed (H : RoundBlockSpec) (x y : U128) (m : RoundingMode) (f : UInt32)
    (h : ¬ (LoopRegion (dOf x) (dOf y) ∧ ¬ Loop1Region (dOf x) (dOf y))) :
    bid128_add x y m f = .ok (binSpec (addD (md m)) x y f) := by
  rcases proved_or_remaining (dOf x) (dOf y) with hp | hr
  · exact bid128_add_spec_partial x y m f hp
  · have hn : ¬ ((dOf x).isNaN || (dOf y).isNaN) = true := by
      intro hn
      cases hx : dOf x <;> cases hy : dOf y <;> rw [hx, hy] at hr hn <;> first | exact absurd hr id | exact absurd hn (by simp [Datum.isNaN])
    unfold binSpec
    rw [if_neg hn]
    rcases remaining_cases _ _ hr with hq | hq
    · exact add_pow_region H x y m f hq
    · by_cases h1 : Loop1Region (dOf x) (dOf y)
      · exact add_loop1_region H x y m f h1
      · exact absurd ⟨hq, h1⟩ h

instance (s1 : Bool) (c1 : Nat) (e1 : Int) (s2 : Bool) (c2 : Nat) (e2 : Int) : Decidable (LoopCond s1 c1 e1 s2 c2 e2) := by
  unfold LoopCond; infer_instance

-- 15 + 1.000000000000000000000000000000001 (34 digits) is in the loop's region (delta = 2 + 0 − 34 + 33 = 1)
example : LoopCond false 15 0 false (10^33 + 1) (-33) := by decide +kernel

end Dec.C01GenAddRound
