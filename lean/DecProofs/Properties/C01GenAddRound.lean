/-
  C01 (generated-code level), third part: the remaining region of `bid128_add` (`C01GenAddLoop.Remaining`), under the
  specification `RoundBlockSpec` of the inline block "round C2 by x1 digits with the reciprocal BID_TEN2MK128[x1 − 1]"
  (proved separately in `C01GenAddRoundBlock.lean`).
-/
import DecProofs.Properties.C01GenAddLoop

namespace Dec.C01GenAddRound
open Dec.Rs Dec.Gen.Code Dec.C06GenFromInt Dec.C12GenNaN Dec.C01GenAdd Dec.C01GenAddLoop
open Dec.C13GenPack (md)
set_option linter.unusedVariables false

/-! ## 0. The inline rounding block of `bid128_add`, as word-level functions, and what is needed of it

The block occurs twice in `bid128_add` (bid128_add.rs: in the rounding loop, and in the sub-case "first coefficient a power of
ten, opposite signs" of the branch `delta = P34`).  With `ind = x1 − 1`, `C2 = (C2_hi, C2_lo)`:
    C2 += midpoint(10^x1 / 2)                    BID_MIDPOINT64[ind]  (ind ≤ 18)  /  BID_MIDPOINT128[ind − 19]
    R256 = C2 · BID_TEN2MK128[ind]               __mul_128x128_to_256
    highf2star = the bits of R256 between bit 128 and the shift      BID_MASKHIGH128[ind]        (ind ≥ 3)
    R256.w[3], w[2] >>= shift                                          BID_SHIFTRIGHT128[ind]      (ind ≥ 3)
    tests on the fraction f* = (highf2star, R256.w[1], R256.w[0]):    BID_ONEHALF128[ind], BID_TEN2MK128TRUNC[ind]
The two copies differ only in which indicator variables they set from the three tests; the functions below are the common
part, with the table entries as arguments. -/

/-- `C2 + midpoint` as the code adds it (wrapping word additions with the carry test `C2.w[0] < C2_lo`) -/
def rbC2 (ind : Nat) (bh bl : UInt64) (m64 : UInt64) (m128 : U128) : U128 :=
  if ind ≤ 18 then ⟨bl + m64, if decide (bl + m64 < bl) = true then bh + 1 else bh⟩
  else ⟨bl + m128.w0, if decide (bl + m128.w0 < bl) = true then bh + m128.w1 + 1 else bh + m128.w1⟩

/-- `highf2star` (`w0`, `w1`) -/
def rbHf (ind : Nat) (R : U256) (mask : UInt64) : U128 :=
  if ind ≤ 2 then ⟨0, 0⟩ else if ind ≤ 21 then ⟨R.w2 &&& mask, 0⟩ else ⟨R.w2, R.w3 &&& mask⟩

/-- the two high words of `R256` after the shift: `(w2, w3)` -/
def rbQ (ind : Nat) (R : U256) (sh : Int32) : UInt64 × UInt64 :=
  if 3 ≤ ind then
    (if decide (sh < (0x40 : Int32)) = true then
      ((R.w2 >>> (UInt64.ofInt (toI sh))) ||| (R.w3 <<< (UInt64.ofInt (toI ((0x40 : Int32) - sh)))), R.w3 >>> (UInt64.ofInt (toI sh)))
    else (R.w3 >>> (UInt64.ofInt (toI (sh - (0x40 : Int32)))), 0))
  else (R.w2, R.w3)

/-- the test "f* > 1/2" (three forms by `ind`) -/
def rbGtHalf (ind : Nat) (R : U256) (hf : U128) (oh : UInt64) : Bool :=
  if ind ≤ 2 then
    (decide (R.w1 > (0x8000000000000000 : UInt64)) || (R.w1 == (0x8000000000000000 : UInt64) && decide (R.w0 > (0 : UInt64))))
  else if ind ≤ 21 then
    ((decide (hf.w1 > (0 : UInt64)) || (hf.w1 == (0 : UInt64) && decide (hf.w0 > oh))) ||
      ((hf.w1 == (0 : UInt64) && hf.w0 == oh) && (R.w1 != (0 : UInt64) || R.w0 != (0 : UInt64))))
  else
    (decide (hf.w1 > oh) || (hf.w1 == oh && ((hf.w0 != (0 : UInt64) || R.w1 != (0 : UInt64)) || R.w0 != (0 : UInt64))))

/-- the test "f* − 1/2 exceeds 10^(−x1) (truncated)" made when `f* > 1/2` (three forms by `ind`; note `≥` on the low word in
the first form and `>` in the others, as in the source) -/
def rbGtT (ind : Nat) (R : U256) (hf : U128) (oh : UInt64) (tr : U128) : Bool :=
  if ind ≤ 2 then
    (decide (R.w1 - (0x8000000000000000 : UInt64) > tr.w1) ||
      (R.w1 - (0x8000000000000000 : UInt64) == tr.w1 && decide (R.w0 ≥ tr.w0)))
  else if ind ≤ 21 then
    ((((if decide (hf.w0 - oh > hf.w0) = true then hf.w1 - 1 else hf.w1) != (0 : UInt64) || hf.w0 - oh != (0 : UInt64)) ||
        decide (R.w1 > tr.w1)) || (R.w1 == tr.w1 && decide (R.w0 > tr.w0)))
  else
    (((hf.w1 - oh != (0 : UInt64) || hf.w0 != (0 : UInt64)) || decide (R.w1 > tr.w1)) ||
      (R.w1 == tr.w1 && decide (R.w0 > tr.w0)))

/-- the midpoint test "0 < f* ≤ 10^(−x1) (truncated)" -/
def rbMid (R : U256) (hf : U128) (tr : U128) : Bool :=
  (((R.w1 != (0 : UInt64) || R.w0 != (0 : UInt64)) && hf.w1 == (0 : UInt64)) && hf.w0 == (0 : UInt64)) &&
    (decide (R.w1 < tr.w1) || (R.w1 == tr.w1 && decide (R.w0 ≤ tr.w0)))

/-- **what is needed of the block**: for every coefficient `C = (bh, bl) < 10^34` and every `ind ≤ 32` (`x1 = ind + 1` digits
to remove) the table reads succeed, and for the 256-bit product `R` of `C + midpoint` with the reciprocal:
the shifted high words are `C / 10^x1` rounded half up; "f* > 1/2" says the remainder is below half; then "f* − 1/2 > T*" says
it is not zero; the midpoint test says the remainder is exactly half. -/
def RoundBlockSpec : Prop :=
  ∀ (bh bl : UInt64) (ind : Nat), ind ≤ 32 → bh.toNat * 2^64 + bl.toNat < 10^34 →
    ∃ (m64 : UInt64) (m128 K tr : U128) (mask oh : UInt64) (sh : Int32),
      (ind ≤ 18 → tbl64 Dec.Gen.BID_MIDPOINT64 (UInt64.ofNat ind) = .ok m64) ∧
      (¬ ind ≤ 18 → tbl128 Dec.Gen.BID_MIDPOINT128 (UInt64.ofNat (ind - 19)) = .ok m128) ∧
      tbl128 Dec.Gen.BID_TEN2MK128 (UInt64.ofNat ind) = .ok K ∧
      tbl128 Dec.Gen.BID_TEN2MK128TRUNC (UInt64.ofNat ind) = .ok tr ∧
      (3 ≤ ind → tbl64 Dec.Gen.BID_MASKHIGH128 (UInt64.ofNat ind) = .ok mask) ∧
      (3 ≤ ind → tblI32 Dec.Gen.BID_SHIFTRIGHT128 (UInt64.ofNat ind) = .ok sh) ∧
      (3 ≤ ind → tbl64 Dec.Gen.BID_ONEHALF128 (UInt64.ofNat ind) = .ok oh) ∧
      ∀ R : U256, R.toNat' = (rbC2 ind bh bl m64 m128).toNat' * K.toNat' →
        ((rbQ ind R sh).2.toNat * 2^64 + (rbQ ind R sh).1.toNat =
            if (bh.toNat * 2^64 + bl.toNat) % 10^(ind+1) < 10^(ind+1) / 2 then (bh.toNat * 2^64 + bl.toNat) / 10^(ind+1)
            else (bh.toNat * 2^64 + bl.toNat) / 10^(ind+1) + 1) ∧
        rbGtHalf ind R (rbHf ind R mask) oh = decide ((bh.toNat * 2^64 + bl.toNat) % 10^(ind+1) < 10^(ind+1) / 2) ∧
        ((bh.toNat * 2^64 + bl.toNat) % 10^(ind+1) < 10^(ind+1) / 2 →
          rbGtT ind R (rbHf ind R mask) oh tr = decide (0 < (bh.toNat * 2^64 + bl.toNat) % 10^(ind+1))) ∧
        rbMid R (rbHf ind R mask) tr = decide ((bh.toNat * 2^64 + bl.toNat) % 10^(ind+1) = 10^(ind+1) / 2)

end Dec.C01GenAddRound
