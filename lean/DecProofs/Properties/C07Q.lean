/-
  C07Q — binary floating-point → decimal128 conversion is correctly rounded: the ℚ-level statements, as
  corollaries of the specification of `finish`; and what the binary interchange patterns denote.
-/
import DecProofs.Core.FinishUnique

namespace Dec.C07Q

/-- the value of the binary number `m·2^E` -/
def binVal (m : Nat) (E : Int) : ℚ := (m : ℚ) * (2 : ℚ) ^ E

theorem two_ne : (2 : ℚ) ≠ 0 := by norm_num

/-! ### helpers: the exact value handed to `finish` -/

theorem binVal_nonneg_exp (m : Nat) {E : Int} (hE : 0 ≤ E) :
    binVal m E = ((m * 2 ^ E.toNat : Nat) : ℚ) / ((1 : Nat) : ℚ) * (10 : ℚ) ^ (0 : ℤ) := by
  unfold binVal
  have : (2 : ℚ) ^ E = (2 : ℚ) ^ E.toNat := by rw [← zpow_natCast, Int.toNat_of_nonneg hE]
  rw [this]; push_cast; simp

theorem binVal_neg_exp (m : Nat) {E : Int} (hE : E < 0) :
    binVal m E = (m : ℚ) / ((2 ^ (-E).toNat : Nat) : ℚ) * (10 : ℚ) ^ (0 : ℤ) := by
  unfold binVal
  have : (2 : ℚ) ^ E = ((2 : ℚ) ^ (-E).toNat)⁻¹ := by
    rw [← zpow_natCast, Int.toNat_of_nonneg (by omega), zpow_neg, inv_inv]
  rw [this]; push_cast; simp [div_eq_mul_inv]

theorem binVal_pos {m : Nat} (hm : m ≠ 0) (E : Int) : 0 < binVal m E := by
  unfold binVal
  have : (0 : ℚ) < m := by exact_mod_cast Nat.pos_of_ne_zero hm
  have : (0 : ℚ) < (2 : ℚ) ^ E := zpow_pos (by norm_num) _
  positivity

/-! ### the conversion is correctly rounded -/

/-- **Binary → decimal conversion is correctly rounded.**  A finite non-zero binary value `±m·2^E` converts
to the correct delivery (`FinishSpec`) of the exact rational `m·2^E`, with the sign kept and preferred
exponent `0`: the exact value, quantum exponent as close to zero as the digits allow, and no flag, when
34 digits suffice; otherwise rounded once in `mode` with inexact (underflow / overflow cannot occur for
binary32/64 but are covered). -/
theorem bin_correct (mode : Mode) (s : Bool) (m : Nat) (E : Int) (hm : m ≠ 0) :
    FinishSpec mode s (binVal m E) 0 (binToDecD mode s m E) := by
  have hm0 : 0 < m := Nat.pos_of_ne_zero hm
  by_cases hE : E ≥ 0
  · have h : binToDecD mode s m E = finish mode s (m * 2 ^ E.toNat) 1 0 0 := by
      simp [binToDecD, hm, hE]
    rw [h, binVal_nonneg_exp m hE]
    exact finish_spec mode s _ 1 0 0 (Nat.mul_pos hm0 (Nat.pow_pos (by omega))) (by omega)
  · have h : binToDecD mode s m E = finish mode s m (2 ^ (-E).toNat) 0 0 := by
      simp [binToDecD, hm, hE]
    rw [h, binVal_neg_exp m (by omega)]
    exact finish_spec mode s m _ 0 0 hm0 (Nat.pow_pos (by omega))

/-- … and the tight form: an outcome is the model's conversion result *iff* it is the single-valued correct
delivery of `m·2^E`. -/
theorem bin_eq_iff (mode : Mode) (s : Bool) (m : Nat) (E : Int) (hm : m ≠ 0) (out : Datum × Flags) :
    binToDecD mode s m E = out ↔ FinishSpecStrict mode s (binVal m E) 0 out := by
  have hm0 : 0 < m := Nat.pos_of_ne_zero hm
  by_cases hE : E ≥ 0
  · have h : binToDecD mode s m E = finish mode s (m * 2 ^ E.toNat) 1 0 0 := by
      simp [binToDecD, hm, hE]
    rw [h, binVal_nonneg_exp m hE]
    exact finish_eq_iff mode s _ 1 0 0 (Nat.mul_pos hm0 (Nat.pow_pos (by omega))) (by omega) out
  · have h : binToDecD mode s m E = finish mode s m (2 ^ (-E).toNat) 0 0 := by
      simp [binToDecD, hm, hE]
    rw [h, binVal_neg_exp m (by omega)]
    exact finish_eq_iff mode s m _ 0 0 hm0 (Nat.pow_pos (by omega)) out

-- 0.5 = 1·2^-1 (exact, exponent as close to 0 as possible), 2^10, and 0.1f = 13421773·2^-27 (exact: 27 digits)
example : binToDecD .rne false 1 (-1) = (.fin false 5 (-1), 0) := by decide +kernel
example : binToDecD .rne true 1 10 = (.fin true 1024 0, 0) := by decide +kernel
example : binToDecD .rne false 13421773 (-27) = (.fin false 100000001490116119384765625 (-27), 0) := by
  decide +kernel
-- the double nearest 0.1 = 3602879701896397·2^-55 has 55 significant digits: rounded once, inexact
example : binToDecD .rne false 3602879701896397 (-55) =
    (.fin false 1000000000000000055511151231257827 (-34), fInexact) := by decide +kernel

/-- **The conversion is exact iff the binary value is a member of the decimal format**: no flag is raised
iff `m·2^E` is some `c·10^x` with `c < 10^34` and `x` in range. -/
theorem bin_exact_iff_member (mode : Mode) (s : Bool) (m : Nat) (E : Int) (hm : m ≠ 0) :
    (binToDecD mode s m E).2 = 0 ↔ IsMember (binVal m E) := by
  rcases (bin_correct mode s m E hm).flags with ⟨h1, h2⟩ | ⟨h1, h2⟩
  · exact ⟨fun _ => h2, fun _ => h1⟩
  · constructor
    · intro h0
      rw [h0] at h2
      exact absurd h2 (by decide)
    · intro hmem; exact absurd hmem h1

/-- … and then the result is the exact value, with the sign kept, no flag, and the exponent of its cohort
closest to `0`. -/
theorem bin_exact (mode : Mode) (s : Bool) (m : Nat) (E : Int) (hm : m ≠ 0) (hmem : IsMember (binVal m E)) :
    ∃ c x, binToDecD mode s m E = (.fin s c x, 0) ∧ fval false c x = binVal m E ∧ Representable c x ∧
      ∀ c' x', Representable c' x' → fval false c' x' = binVal m E → |x - 0| ≤ |x' - 0| := by
  rcases bin_correct mode s m E hm with ⟨_, h⟩ | ⟨h, _⟩ | ⟨h, _⟩
  · exact h
  · exact absurd hmem h
  · exact absurd hmem h

/-- binary integers below `10^34` convert to themselves with exponent `0` -/
theorem bin_integer (mode : Mode) (s : Bool) (m : Nat) (E : Int) (hm : m ≠ 0) (hE : 0 ≤ E)
    (h : m * 2 ^ E.toNat < P34) : binToDecD mode s m E = (.fin s (m * 2 ^ E.toNat) 0, 0) := by
  have h1 : binToDecD mode s m E = finish mode s (m * 2 ^ E.toNat) 1 0 0 := by
    simp [binToDecD, hm, hE]
  rw [h1]
  have hpos : 0 < m * 2 ^ E.toNat := Nat.mul_pos (Nat.pos_of_ne_zero hm) (Nat.pow_pos (by omega))
  exact finish_representable mode s _ 0 (by omega) h (by decide) (by decide)

example : binToDecD .rtz false 3 100 = (.fin false 3802951800684688204490109616128 0, 0) :=
  bin_integer _ _ _ _ (by decide) (by decide) (by decide)

/-! ### what the interchange patterns denote -/

/-- exponent bias of a binary format with `ew` exponent bits -/
def binBias (ew : Nat) : Int := 2 ^ (ew - 1) - 1

/-- **Normal binary patterns**: with biased exponent field `0 < ex < 2^ew − 1` and fraction field `fr`, the
pattern denotes `(fr + 2^fw)·2^(ex − bias − fw)`, not flagged subnormal. -/
theorem decodeBin_normal (ew fw bits : Nat) (h1 : 0 < (bits / 2 ^ fw) % 2 ^ ew)
    (h2 : (bits / 2 ^ fw) % 2 ^ ew < 2 ^ ew - 1) :
    decodeBin ew fw bits =
      .fin ((bits / 2 ^ (ew + fw)) % 2 == 1) (bits % 2 ^ fw + 2 ^ fw)
        ((((bits / 2 ^ fw) % 2 ^ ew : Nat) : Int) - binBias ew - fw) false := by
  simp only [decodeBin, binBias, if_neg (Nat.ne_of_lt h2), if_neg (Nat.ne_of_gt h1)]

/-- … i.e. the value `(1 + fr/2^fw)·2^(ex − bias)` -/
theorem binVal_normal (fr fw : Nat) (ex b : Int) :
    binVal (fr + 2 ^ fw) (ex - b - fw) = (1 + (fr : ℚ) / (2 : ℚ) ^ fw) * (2 : ℚ) ^ (ex - b) := by
  unfold binVal
  have hp : (2 : ℚ) ^ fw ≠ 0 := pow_ne_zero _ two_ne
  rw [zpow_sub₀ two_ne, zpow_natCast]
  push_cast
  field_simp
  ring

/-- **Subnormal binary patterns** (and zeros): with exponent field `0` the pattern denotes
`fr·2^(1 − bias − fw)` and is flagged subnormal. -/
theorem decodeBin_subnormal (ew fw bits : Nat) (hew : 0 < ew) (h0 : (bits / 2 ^ fw) % 2 ^ ew = 0) :
    decodeBin ew fw bits =
      .fin ((bits / 2 ^ (ew + fw)) % 2 == 1) (bits % 2 ^ fw) (1 - binBias ew - fw) true := by
  have h2 : (2 : Nat) ≤ 2 ^ ew := by
    calc 2 = 2 ^ 1 := rfl
      _ ≤ 2 ^ ew := Nat.pow_le_pow_right (by omega) hew
  have hne : ¬ (bits / 2 ^ fw) % 2 ^ ew = 2 ^ ew - 1 := by omega
  simp only [decodeBin, binBias, if_neg hne, if_pos h0]

/-- … i.e. the value `(fr/2^fw)·2^(1 − bias)` -/
theorem binVal_subnormal (fr fw : Nat) (b : Int) :
    binVal fr (1 - b - fw) = (fr : ℚ) / (2 : ℚ) ^ fw * (2 : ℚ) ^ (1 - b) := by
  unfold binVal
  have hp : (2 : ℚ) ^ fw ≠ 0 := pow_ne_zero _ two_ne
  rw [zpow_sub₀ two_ne, zpow_natCast]
  field_simp

-- 1.0f and 0.1f (normal), the least binary32 subnormal; 1.0 (binary64)
example : (0x3dcccccd / 2 ^ 23) % 2 ^ 8 = 123 ∧ 0x3dcccccd % 2 ^ 23 + 2 ^ 23 = 13421773 := by decide
example : (0 < (0x3f800000 / 2 ^ 23) % 2 ^ 8 ∧ (0x3f800000 / 2 ^ 23) % 2 ^ 8 < 2 ^ 8 - 1) ∧
    ((0x00000001 / 2 ^ 23) % 2 ^ 8 = 0) := by decide

/-- the two formats: `1.0f = 2^23·2^-23`, `0.1f = 13421773·2^-27`; the least subnormals `2^-149`, `2^-1074` -/
example : binBias 8 = 127 ∧ binBias 11 = 1023 ∧ (1 : Int) - binBias 8 - 23 = -149 ∧ (1 : Int) - binBias 11 - 52 = -1074 := by
  decide

/-- **End to end** for a binary32 pattern with a normal exponent field: the conversion result is the correct
delivery of `(1 + fr/2^23)·2^(ex − 127)`. -/
theorem f32_normal_correct (mode : Mode) (bits : Nat) (h1 : 0 < (bits / 2 ^ 23) % 2 ^ 8)
    (h2 : (bits / 2 ^ 23) % 2 ^ 8 < 2 ^ 8 - 1) :
    ∃ s m E, decodeBin 8 23 bits = .fin s m E false ∧
      binVal m E = (1 + ((bits % 2 ^ 23 : Nat) : ℚ) / (2 : ℚ) ^ 23) * (2 : ℚ) ^ ((((bits / 2 ^ 23) % 2 ^ 8 : Nat) : Int) - 127) ∧
      FinishSpec mode s (binVal m E) 0 (binToDecD mode s m E) := by
  refine ⟨_, _, _, decodeBin_normal 8 23 bits h1 h2, ?_, bin_correct mode _ _ _ (by positivity)⟩
  have hb : binBias 8 = 127 := by decide
  have := binVal_normal (bits % 2 ^ 23) 23 (((bits / 2 ^ 23) % 2 ^ 8 : Nat) : Int) (binBias 8)
  rw [hb] at this ⊢
  exact_mod_cast this

end Dec.C07Q
