/-
  C12 (generated-code level) — the NaN FRONT ENDS of the NaN-capable arithmetic routines as machine-translated in
  `DecGen/Code.lean`: if some operand decodes to a NaN, the routine returns (never panics), for ALL patterns of the other
  operands, every rounding mode and every incoming status word,

      .ok (the canonical QUIET copy of one NaN operand — `qnanU`: sign kept, signalling bit and reserved bits 120..110
           cleared, payload as `decode` reads it (a field ≥ 10^33 ↦ 0),
           the incoming status word with invalid (0x01) OR-ed in iff SOME operand is a signalling NaN — `nanFlags`).

  Which operand: every binary routine looks at `x` first (`pick2`: x's NaN if x is a NaN, else y's — also when x is quiet
  and y signalling); `bid128_fma (x, y, z)` looks at `y`, then `z`, then `x` (`fmaPick`); `bid128_mul (x, y)` hands over to
  `bid128_fma (y, x, +0)` and so looks at `x` first as well; `bid128_sub` is `bid128_add` with the sign of a non-NaN `y`
  flipped, so a NaN subtrahend keeps its sign.  All of this is within the model's rule (`Dec.nanRule`: the quiet canonical
  copy of ANY NaN operand): `rule_unary`, `rule_binary`, `rule_ternary`.

  Theorems (x a NaN / y a NaN / combined):
    unary   sqrt_nan, round_integral_{exact,nearest_even,nearest_away,negative,positive,zero}_nan, nearbyint_nan,
            nextup_nan, nextdown_nan, logb_nan, scalbn_nan, ldexp_nan (`…_clear_status`)
    binary  add_{xnan,ynan,nan}, sub_…, mul_nan, div_… (`bid128_div_clear_status`), rem_…, fmod_…, quantize_…,
            nextafter_…
    ternary ext_fma_{ynan,znan,xnan,nan}, fma_nan
  Findings: none.  Two idioms are used and both give `qnanU`: (A) masks on the operand (`maskNaN_eq`), (B) the operand
  unpacker's canonical re-encoding with `& QUIET_MASK64` (`quiet_canon`).  rem / fmod / quantize may OR `invalid` in twice on
  some paths (harmless).

  Method: the routines are thousands of lines long, so they are never normalised.  `head_step` reduces the goal's left-hand
  side at its head only (β/ζ/projections, `whnfCore`), `take_pos` / `take_neg` select a branch of the test now at the head
  by `if_pos` / `if_neg` (the untouched other branch is just an argument), `take_call` runs the sub-call at the head with a
  proved result.  The whole file checks in a few seconds.
-/
import Lean.Elab.Tactic
import DecProofs.Properties.C06GenFromInt
import DecModel.Ops

namespace Dec.C12GenNaN
open Dec.Rs Dec.Gen.Code Dec.C06GenFromInt

/-! ## 0. Stepping through a long translated routine without normalising it -/

open Lean Meta Elab Tactic in
/-- reduce the left-hand side of the goal at its head only (β, ζ of the leading `have`s, projections): the branches of the
first test, i.e. the rest of the routine, are not touched -/
elab "head_step" : tactic => do
  let g ← getMainGoal
  let t := (← instantiateMVars (← g.getType)).consumeMData
  let some (_, lhs, rhs) := t.eq? | throwError "head_step: not an equation"
  let lhs' ← whnfCore lhs
  let g' ← g.replaceTargetDefEq (← mkEq lhs' rhs)
  replaceMainGoal [g']

/-- take the `then` branch of the test at the head of the left-hand side; first goal: the test -/
macro "take_pos" : tactic => `(tactic| (head_step; refine Eq.trans (if_pos ?_) ?_))
/-- take the `else` branch; first goal: the negated test -/
macro "take_neg" : tactic => `(tactic| (head_step; refine Eq.trans (if_neg ?_) ?_))

theorem bind_ok_step {α β : Type} {a : Except String α} {v : α} (h : a = .ok v) (k : α → Except String β) :
    (a >>= k) = k v := by subst h; rfl

/-- run the sub-call at the head of the left-hand side, given its result -/
macro "take_call " h:term : tactic => `(tactic| (head_step; refine Eq.trans (bind_ok_step $h _) ?_))

/-! ## 1. The quiet canonical NaN, and the two canonicalisation idioms of the code -/

/-- the pattern the NaN rule prescribes for a NaN operand `x`: sign kept, quiet, reserved bits clear, payload as `decode`
reads it -/
def qnanU (x : U128) : U128 := ofBits (encode (quietNaN (decode (bitsOf x))))

theorem quietNaN_WF {d : Datum} (h : d.WF) : (quietNaN d).WF := by
  cases d <;> exact h

theorem bitsOf_qnanU (x : U128) : bitsOf (qnanU x) = encode (quietNaN (decode (bitsOf x))) :=
  bitsOf_ofBits (encode_lt (quietNaN_WF (decode_WF _)))

/-- closed form of the target for a NaN pattern -/
theorem qnan_bits {b : Nat} (h1 : b / 2^123 % 16 = 15) (h2 : b / 2^122 % 2 = 1) :
    encode (quietNaN (decode b)) = b / 2^127 % 2 * 2^127 + 0x7c * 2^120 + (if b % 2^110 < P33 then b % 2^110 else 0) := by
  rw [decode_nan b h1 h2]
  show encode (.nan _ false _) = _
  rw [encode, signBit_beq]
  simp only [Bool.false_eq_true, if_false, Nat.add_zero]

/-- the payload test `(hi, lo) > 10^33 − 1` every front end uses -/
def bigP (hi lo : UInt64) : Bool :=
  decide (hi > 54210108624275) || hi == 54210108624275 && decide (lo > 4089650035136921599)

theorem bigP_eq (x : U128) : bigP (x.w1 &&& 70368744177663) x.w0 = decide (P33 ≤ bitsOf x % 2^110) := by
  have h0 := x.w0.toNat_lt
  unfold bigP
  rw [Bool.eq_iff_iff]
  simp only [Bool.or_eq_true, Bool.and_eq_true, decide_eq_true_eq, beq_iff_eq, GT.gt, UInt64.lt_iff_toNat_lt,
    ← UInt64.toNat_inj, and_low _ _ 46 (show (70368744177663 : UInt64).toNat = 2^46 - 1 from rfl)]
  rw [show (54210108624275 : UInt64).toNat = 54210108624275 from rfl,
    show (4089650035136921599 : UInt64).toNat = 4089650035136921599 from rfl]
  unfold bitsOf P33
  omega

theorem and_c3f (w : Nat) : w &&& 0xfc003fffffffffff = (w / 2^58 % 2^6) * 2^58 + w % 2^46 := by
  have e : (0xfc003fffffffffff : Nat) = (2^6 - 1) * 2^58 ||| (2^46 - 1) := by decide
  rw [e, Nat.and_or_distrib_left, and_field, Nat.and_two_pow_sub_one_eq_mod, Nat.mul_comm,
    ← Nat.two_pow_add_eq_or_of_lt (by omega)]

/-- idiom A (add, round_integral, next…): `if payload ≥ 10^33 { w1 &= 0xffffc00000000000; w0 = 0 }; w1 &= 0xfc003fffffffffff` -/
def maskNaN (x : U128) : U128 :=
  if bigP (x.w1 &&& 70368744177663) x.w0 then ⟨0, x.w1 &&& 0xffffc00000000000 &&& 0xfc003fffffffffff⟩
  else ⟨x.w0, x.w1 &&& 0xfc003fffffffffff⟩

theorem maskNaN_eq (x : U128) (h : (decode (bitsOf x)).isNaN = true) : maskNaN x = qnanU x := by
  have hv := x.w0.toNat_lt
  have hw := x.w1.toNat_lt
  rcases decode_cases (bitsOf x) with ⟨h1, h2⟩ | ⟨h1, h2⟩ | ⟨h1, h2⟩ | ⟨h1, h2⟩
  · rw [decode_inf _ h1 h2] at h; exact Bool.noConfusion h
  · unfold maskNaN qnanU
    rw [bigP_eq, qnan_bits h1 h2]
    by_cases hb : P33 ≤ bitsOf x % 2^110
    · rw [if_pos (decide_eq_true hb), if_neg (by omega)]
      apply eq_ofBits
      unfold bitsOf at *
      rw [UInt64.and_assoc, show (0xffffc00000000000 &&& 0xfc003fffffffffff : UInt64) = 0xfc00000000000000 by decide,
        and_field64 _ _ 6 58 (by rfl), UInt64.toNat_zero]
      clear hb
      generalize x.w1.toNat = W at *
      generalize x.w0.toNat = V at *
      omega
    · rw [if_neg (by rw [decide_eq_true_iff]; exact hb), if_pos (by omega)]
      apply eq_ofBits
      unfold bitsOf at *
      rw [UInt64.toNat_and, show (0xfc003fffffffffff : UInt64).toNat = 0xfc003fffffffffff from rfl, and_c3f]
      clear hb
      generalize x.w1.toNat = W at *
      generalize x.w0.toNat = V at *
      omega
  · rw [decode_large _ h1 h2] at h; exact Bool.noConfusion h
  · rw [decode_small _ h1 h2] at h; exact Bool.noConfusion h


/-- idiom B (sqrt, mul, div, rem, fma, …): the operand goes through `unpack_BID128_value`, which returns the canonical
re-encoding as "coefficient"; the result is that with `w1 &= QUIET_MASK64` -/
theorem unpack_nan (s0 : UInt64) (e0 : Int32) (c0 x : U128) (h : (decode (bitsOf x)).isNaN = true) :
    unpack_BID128_value s0 e0 c0 x = .ok (0, x.w1 &&& 0x8000000000000000, 0, ofBits (canon (bitsOf x))) := by
  rw [unpack_value_spec]
  cases hd : decode (bitsOf x) with
  | fin s c e => rw [hd] at h; exact Bool.noConfusion h
  | inf s => rfl
  | nan s g p => rfl

theorem quiet_canon (x : U128) (h : (decode (bitsOf x)).isNaN = true) :
    (⟨(ofBits (canon (bitsOf x))).w0, (ofBits (canon (bitsOf x))).w1 &&& c_QUIET_MASK64⟩ : U128) = qnanU x := by
  rcases decode_cases (bitsOf x) with ⟨h1, h2⟩ | ⟨h1, h2⟩ | ⟨h1, h2⟩ | ⟨h1, h2⟩
  · rw [decode_inf _ h1 h2] at h; exact Bool.noConfusion h
  · unfold qnanU
    rw [qnan_bits h1 h2, canon_nan _ h1 h2]
    apply eq_ofBits
    have hp : (if bitsOf x % 2^110 < P33 then bitsOf x % 2^110 else 0) < 2^110 := by
      split
      · exact Nat.mod_lt _ (by decide)
      · decide
    generalize (if bitsOf x % 2^110 < P33 then bitsOf x % 2^110 else 0) = p at *
    have hS : bitsOf x / 2^127 % 2 < 2 := Nat.mod_lt _ (by decide)
    have hG : bitsOf x / 2^121 % 2 < 2 := Nat.mod_lt _ (by decide)
    generalize bitsOf x / 2^127 % 2 = S at *
    generalize bitsOf x / 2^121 % 2 = G at *
    unfold bitsOf ofBits
    simp only [UInt64.toNat_and, UInt64.toNat_ofNat']
    rw [show c_QUIET_MASK64.toNat = 0xfdffffffffffffff from rfl, and_quiet]
    omega
  · rw [decode_large _ h1 h2] at h; exact Bool.noConfusion h
  · rw [decode_small _ h1 h2] at h; exact Bool.noConfusion h

theorem nan_lit (x : U128) : (x.w1 &&& 0x7c00000000000000 == 0x7c00000000000000) = (decode (bitsOf x)).isNaN :=
  nan_test_decode x
theorem snan_lit (x : U128) : (x.w1 &&& 0x7e00000000000000 == 0x7e00000000000000) = (decode (bitsOf x)).isSNaN :=
  snan_test_decode x
theorem nan_c (x : U128) : (x.w1 &&& c_MASK_NAN == c_MASK_NAN) = (decode (bitsOf x)).isNaN := nan_test_decode x
theorem snan_c (x : U128) : (x.w1 &&& c_MASK_SNAN == c_MASK_SNAN) = (decode (bitsOf x)).isSNaN := snan_test_decode x

theorem isNaN_special (x : U128) (h : (decode (bitsOf x)).isNaN = true) :
    (x.w1 &&& c_MASK_SPECIAL == c_MASK_SPECIAL) = true := by
  rw [test_special, decide_eq_true_iff]
  rcases decode_cases (bitsOf x) with ⟨h1, h2⟩ | ⟨h1, h2⟩ | ⟨h1, h2⟩ | ⟨h1, h2⟩
  · exact h1
  · exact h1
  · rw [decode_large _ h1 h2] at h; exact Bool.noConfusion h
  · rw [decode_small _ h1 h2] at h; exact Bool.noConfusion h

/-! ## 2. Unary routines -/

/-- **`bid128_sqrt`**, NaN operand (any rounding mode) -/
theorem sqrt_nan (x : U128) (m : RoundingMode) (f : UInt32) (h : (decode (bitsOf x)).isNaN = true) :
    bid128_sqrt x m f = .ok (qnanU x, if (decode (bitsOf x)).isSNaN then f ||| 1 else f) := by
  unfold bid128_sqrt
  take_call (unpack_nan _ _ _ x h)
  take_pos
  · rfl
  take_pos
  · exact (nan_lit x).trans h
  head_step
  rw [snan_lit x, ← quiet_canon x h]
  cases (decode (bitsOf x)).isSNaN <;> rfl


theorem snan_masked (w : UInt64) :
    (w &&& 0xffffc00000000000 &&& c_MASK_SNAN == c_MASK_SNAN) = (w &&& c_MASK_SNAN == c_MASK_SNAN) := by
  rw [UInt64.and_assoc, show (0xffffc00000000000 &&& c_MASK_SNAN : UInt64) = c_MASK_SNAN by decide]

/-- finish a front end of idiom A: the residual small term is `maskNaN x` with the flag rule -/
macro "close_mask " x:ident h:ident : tactic => `(tactic| (
  rw [← maskNaN_eq $x $h, ← snan_c $x]
  unfold maskNaN bigP
  by_cases hb : (decide (($x).w1 &&& 70368744177663 > 54210108624275) ||
      ($x).w1 &&& 70368744177663 == 54210108624275 && decide (($x).w0 > 4089650035136921599)) = true <;>
    by_cases hs : (($x).w1 &&& c_MASK_SNAN == c_MASK_SNAN) = true <;>
    simp only [hb, hs, snan_masked, if_true, if_false, Bool.false_eq_true] <;> rfl))

/-- **`bid128_round_integral_exact`**, NaN operand -/
theorem round_integral_exact_nan (x : U128) (m : RoundingMode) (f : UInt32) (h : (decode (bitsOf x)).isNaN = true) :
    bid128_round_integral_exact x m f = .ok (qnanU x, if (decode (bitsOf x)).isSNaN then f ||| 1 else f) := by
  unfold bid128_round_integral_exact
  take_pos
  · exact isNaN_special x h
  take_pos
  · exact (nan_c x).trans h
  head_step
  close_mask x h

/-- **`bid128_round_integral_nearest_even`**, NaN operand -/
theorem round_integral_nearest_even_nan (x : U128) (f : UInt32) (h : (decode (bitsOf x)).isNaN = true) :
    bid128_round_integral_nearest_even x f = .ok (qnanU x, if (decode (bitsOf x)).isSNaN then f ||| 1 else f) := by
  unfold bid128_round_integral_nearest_even
  take_pos
  · exact isNaN_special x h
  take_pos
  · exact (nan_c x).trans h
  head_step
  close_mask x h

/-- **`bid128_round_integral_nearest_away`**, NaN operand -/
theorem round_integral_nearest_away_nan (x : U128) (f : UInt32) (h : (decode (bitsOf x)).isNaN = true) :
    bid128_round_integral_nearest_away x f = .ok (qnanU x, if (decode (bitsOf x)).isSNaN then f ||| 1 else f) := by
  unfold bid128_round_integral_nearest_away
  take_pos
  · exact isNaN_special x h
  take_pos
  · exact (nan_c x).trans h
  head_step
  close_mask x h

/-- **`bid128_round_integral_negative`**, NaN operand -/
theorem round_integral_negative_nan (x : U128) (f : UInt32) (h : (decode (bitsOf x)).isNaN = true) :
    bid128_round_integral_negative x f = .ok (qnanU x, if (decode (bitsOf x)).isSNaN then f ||| 1 else f) := by
  unfold bid128_round_integral_negative
  take_pos
  · exact isNaN_special x h
  take_pos
  · exact (nan_c x).trans h
  head_step
  close_mask x h

/-- **`bid128_round_integral_positive`**, NaN operand -/
theorem round_integral_positive_nan (x : U128) (f : UInt32) (h : (decode (bitsOf x)).isNaN = true) :
    bid128_round_integral_positive x f = .ok (qnanU x, if (decode (bitsOf x)).isSNaN then f ||| 1 else f) := by
  unfold bid128_round_integral_positive
  take_pos
  · exact isNaN_special x h
  take_pos
  · exact (nan_c x).trans h
  head_step
  close_mask x h

/-- **`bid128_round_integral_zero`**, NaN operand -/
theorem round_integral_zero_nan (x : U128) (f : UInt32) (h : (decode (bitsOf x)).isNaN = true) :
    bid128_round_integral_zero x f = .ok (qnanU x, if (decode (bitsOf x)).isSNaN then f ||| 1 else f) := by
  unfold bid128_round_integral_zero
  take_pos
  · exact isNaN_special x h
  take_pos
  · exact (nan_c x).trans h
  head_step
  close_mask x h

/-- **`bid128_nearbyint`**, NaN operand -/
theorem nearbyint_nan (x : U128) (m : RoundingMode) (f : UInt32) (h : (decode (bitsOf x)).isNaN = true) :
    bid128_nearbyint x m f = .ok (qnanU x, if (decode (bitsOf x)).isSNaN then f ||| 1 else f) := by
  unfold bid128_nearbyint
  take_pos
  · exact isNaN_special x h
  take_pos
  · exact (nan_c x).trans h
  head_step
  close_mask x h

/-- **`bid128_nextup`**, NaN operand -/
theorem nextup_nan (x : U128) (f : UInt32) (h : (decode (bitsOf x)).isNaN = true) :
    bid128_nextup x f = .ok (qnanU x, if (decode (bitsOf x)).isSNaN then f ||| 1 else f) := by
  unfold bid128_nextup
  take_pos
  · exact isNaN_special x h
  take_pos
  · exact (nan_c x).trans h
  head_step
  close_mask x h

/-- **`bid128_nextdown`**, NaN operand -/
theorem nextdown_nan (x : U128) (f : UInt32) (h : (decode (bitsOf x)).isNaN = true) :
    bid128_nextdown x f = .ok (qnanU x, if (decode (bitsOf x)).isSNaN then f ||| 1 else f) := by
  unfold bid128_nextdown
  take_pos
  · exact isNaN_special x h
  take_pos
  · exact (nan_c x).trans h
  head_step
  close_mask x h


theorem snan_c64 (x : U128) : (x.w1 &&& c_SNAN_MASK64 == c_SNAN_MASK64) = (decode (bitsOf x)).isSNaN :=
  snan_test_decode x

/-- the canonical re-encoding of a NaN has a non-zero high word -/
theorem cx_w1_ne (x : U128) (h : (decode (bitsOf x)).isNaN = true) : ((ofBits (canon (bitsOf x))).w1 == 0) = false := by
  rcases decode_cases (bitsOf x) with ⟨h1, h2⟩ | ⟨h1, h2⟩ | ⟨h1, h2⟩ | ⟨h1, h2⟩
  · rw [decode_inf _ h1 h2] at h; exact Bool.noConfusion h
  · rw [beq_eq_false_iff_ne, ne_eq, ← UInt64.toNat_inj, canon_nan _ h1 h2]
    unfold ofBits
    simp only [UInt64.toNat_ofNat', UInt64.toNat_zero]
    have hp : (if bitsOf x % 2^110 < P33 then bitsOf x % 2^110 else 0) < 2^110 := by
      split
      · exact Nat.mod_lt _ (by decide)
      · decide
    generalize (if bitsOf x % 2^110 < P33 then bitsOf x % 2^110 else 0) = p at *
    have hS : bitsOf x / 2^127 % 2 < 2 := Nat.mod_lt _ (by decide)
    have hG : bitsOf x / 2^121 % 2 < 2 := Nat.mod_lt _ (by decide)
    generalize bitsOf x / 2^127 % 2 = S at *
    generalize bitsOf x / 2^121 % 2 = G at *
    omega
  · rw [decode_large _ h1 h2] at h; exact Bool.noConfusion h
  · rw [decode_small _ h1 h2] at h; exact Bool.noConfusion h

/-- **`bid128_scalbn_clear_status`**, NaN operand (any `n`) -/
theorem scalbn_nan (x : U128) (n : Int32) (m : RoundingMode) (f : UInt32) (h : (decode (bitsOf x)).isNaN = true) :
    bid128_scalbn_clear_status x n m f = .ok (qnanU x, if (decode (bitsOf x)).isSNaN then f ||| 1 else f) := by
  unfold bid128_scalbn_clear_status
  take_call (unpack_nan _ _ _ x h)
  take_pos
  · rfl
  head_step
  simp only [cx_w1_ne x h, Bool.false_eq_true, if_false, snan_c64 x]
  rw [← quiet_canon x h]
  cases (decode (bitsOf x)).isSNaN <;> rfl

/-- **`bid128_ldexp_clear_status`**, NaN operand (any `n`) -/
theorem ldexp_nan (x : U128) (n : Int32) (m : RoundingMode) (f : UInt32) (h : (decode (bitsOf x)).isNaN = true) :
    bid128_ldexp_clear_status x n m f = .ok (qnanU x, if (decode (bitsOf x)).isSNaN then f ||| 1 else f) := by
  unfold bid128_ldexp_clear_status
  take_call (unpack_nan _ _ _ x h)
  take_pos
  · rfl
  head_step
  simp only [cx_w1_ne x h, Bool.false_eq_true, if_false, snan_c64 x]
  rw [← quiet_canon x h]
  cases (decode (bitsOf x)).isSNaN <;> rfl


theorem special_lit (x : U128) (h : (decode (bitsOf x)).isNaN = true) :
    (x.w1 &&& 0x7800000000000000 == 0x7800000000000000) = true := isNaN_special x h

/-- a NaN fails the infinity test `(w1 & 0x7c00…) == 0x7800…` -/
theorem inf_lit_false (x : U128) (h : (decode (bitsOf x)).isNaN = true) :
    (x.w1 &&& 0x7c00000000000000 == 0x7800000000000000) = false := by
  have e := test_anyinf x
  rw [show c_MASK_ANY_INF = (0x7c00000000000000 : UInt64) from rfl, show c_MASK_INF = (0x7800000000000000 : UInt64) from rfl] at e
  rw [e, decide_eq_false_iff_not]
  rcases decode_cases (bitsOf x) with ⟨h1, h2⟩ | ⟨h1, h2⟩ | ⟨h1, h2⟩ | ⟨h1, h2⟩
  · rw [decode_inf _ h1 h2] at h; exact Bool.noConfusion h
  · omega
  · rw [decode_large _ h1 h2] at h; exact Bool.noConfusion h
  · rw [decode_small _ h1 h2] at h; exact Bool.noConfusion h

/-- **`bid128_logb`**, NaN operand -/
theorem logb_nan (x : U128) (f : UInt32) (h : (decode (bitsOf x)).isNaN = true) :
    bid128_logb x f = .ok (qnanU x, if (decode (bitsOf x)).isSNaN then f ||| 1 else f) := by
  unfold bid128_logb
  take_call (unpack_nan _ _ _ x h)
  take_pos
  · rfl
  take_pos
  · exact special_lit x h
  head_step
  simp only [inf_lit_false x h, Bool.false_eq_true, if_false, snan_lit x]
  rw [← quiet_canon x h]
  cases (decode (bitsOf x)).isSNaN <;> rfl


/-! ## 3. Binary routines of idiom A: add, sub, nextafter -/

/-- finish a front end of idiom A whose flag also looks at a second operand `y` (tested only when `x` is quiet) -/
macro "close_mask2 " x:ident h:ident y:ident : tactic => `(tactic| (
  rw [← maskNaN_eq $x $h, ← snan_c $x, ← snan_c $y]
  unfold maskNaN bigP
  by_cases hb : (decide (($x).w1 &&& 70368744177663 > 54210108624275) ||
      ($x).w1 &&& 70368744177663 == 54210108624275 && decide (($x).w0 > 4089650035136921599)) = true <;>
    by_cases hs : (($x).w1 &&& c_MASK_SNAN == c_MASK_SNAN) = true <;>
    by_cases hs2 : (($y).w1 &&& c_MASK_SNAN == c_MASK_SNAN) = true <;>
    simp only [hb, hs, hs2, snan_masked, if_true, if_false, Bool.false_eq_true, Bool.or_true, Bool.or_false,
      Bool.true_or, Bool.or_self] <;> rfl))

/-- **`bid128_add`**, `x` a NaN (whatever `y` is): `x`'s NaN, quieted and canonicalised; invalid iff `x` or `y` signals -/
theorem add_xnan (x y : U128) (m : RoundingMode) (f : UInt32) (h : (decode (bitsOf x)).isNaN = true) :
    bid128_add x y m f = .ok (qnanU x,
      if (decode (bitsOf x)).isSNaN || (decode (bitsOf y)).isSNaN then f ||| 1 else f) := by
  unfold bid128_add
  take_pos
  · rw [isNaN_special x h, Bool.true_or]
  take_pos
  · exact (nan_c x).trans h
  head_step
  close_mask2 x h y

/-- **`bid128_add`**, `y` a NaN and `x` not -/
theorem add_ynan (x y : U128) (m : RoundingMode) (f : UInt32) (hx : (decode (bitsOf x)).isNaN = false)
    (h : (decode (bitsOf y)).isNaN = true) :
    bid128_add x y m f = .ok (qnanU y, if (decode (bitsOf y)).isSNaN then f ||| 1 else f) := by
  unfold bid128_add
  take_pos
  · rw [isNaN_special y h, Bool.or_true]
  take_neg
  · rw [nan_c x, hx]; decide
  take_pos
  · exact (nan_c y).trans h
  head_step
  close_mask y h


/-- **`bid128_nextafter`**, `x` a NaN -/
theorem nextafter_xnan (x y : U128) (f : UInt32) (h : (decode (bitsOf x)).isNaN = true) :
    bid128_nextafter x y f = .ok (qnanU x,
      if (decode (bitsOf x)).isSNaN || (decode (bitsOf y)).isSNaN then f ||| 1 else f) := by
  unfold bid128_nextafter
  take_pos
  · rw [isNaN_special x h, Bool.true_or]
  take_pos
  · exact (nan_c x).trans h
  head_step
  close_mask2 x h y

/-- **`bid128_nextafter`**, `y` a NaN and `x` not -/
theorem nextafter_ynan (x y : U128) (f : UInt32) (hx : (decode (bitsOf x)).isNaN = false)
    (h : (decode (bitsOf y)).isNaN = true) :
    bid128_nextafter x y f = .ok (qnanU y, if (decode (bitsOf y)).isSNaN then f ||| 1 else f) := by
  unfold bid128_nextafter
  take_pos
  · rw [isNaN_special y h, Bool.or_true]
  take_neg
  · rw [nan_c x, hx]; decide
  take_pos
  · exact (nan_c y).trans h
  head_step
  close_mask y h

theorem isNaN_iff (b : Nat) : (decode b).isNaN = decide (b / 2^123 % 16 = 15 ∧ b / 2^122 % 2 = 1) := by
  rcases decode_cases b with ⟨h1, h2⟩ | ⟨h1, h2⟩ | ⟨h1, h2⟩ | ⟨h1, h2⟩
  · rw [decode_inf _ h1 h2]; exact (decide_eq_false (by omega)).symm
  · rw [decode_nan _ h1 h2]; exact (decide_eq_true ⟨h1, h2⟩).symm
  · rw [decode_large _ h1 h2]; exact (decide_eq_false (by omega)).symm
  · rw [decode_small _ h1 h2]; exact (decide_eq_false (by omega)).symm

/-- flipping the sign bit of a non-NaN pattern does not make it a NaN -/
theorem flip_not_nan (y : U128) (hy : (decode (bitsOf y)).isNaN = false) :
    (decode (bitsOf (ofBits ((bitsOf y + 2^127) % 2^128)))).isNaN = false := by
  have hl := bitsOf_lt y
  rw [bitsOf_ofBits (Nat.mod_lt _ (by decide)), isNaN_iff] at *
  rw [decide_eq_false_iff_not] at *
  generalize bitsOf y = b at *
  omega

theorem not_snan_of_not_nan {d : Datum} (h : d.isNaN = false) : d.isSNaN = false := isSNaN_isNaN d h

/-- **`bid128_sub`**, `x` a NaN: as `add` (the second operand is `y`, or `y` with its sign flipped — not a NaN either way
unless `y` is) -/
theorem sub_xnan (x y : U128) (m : RoundingMode) (f : UInt32) (h : (decode (bitsOf x)).isNaN = true) :
    bid128_sub x y m f = .ok (qnanU x,
      if (decode (bitsOf x)).isSNaN || (decode (bitsOf y)).isSNaN then f ||| 1 else f) := by
  rw [sub_eq, add_xnan _ _ _ _ h]
  cases hy : (decode (bitsOf y)).isNaN
  · rw [if_neg Bool.false_ne_true, not_snan_of_not_nan (flip_not_nan y hy), not_snan_of_not_nan hy]
  · rw [if_pos rfl]

/-- **`bid128_sub`**, `y` a NaN and `x` not: `y`'s NaN with ITS sign (a NaN subtrahend is not negated) -/
theorem sub_ynan (x y : U128) (m : RoundingMode) (f : UInt32) (hx : (decode (bitsOf x)).isNaN = false)
    (h : (decode (bitsOf y)).isNaN = true) :
    bid128_sub x y m f = .ok (qnanU y, if (decode (bitsOf y)).isSNaN then f ||| 1 else f) := by
  rw [sub_eq, h, if_pos rfl, add_ynan _ _ _ _ hx h]


/-! ## 4. fused multiply-add and multiplication -/

/-- finish a front end of idiom A whose flag also looks at two more operands -/
macro "close_mask3 " x:ident h:ident y:ident z:ident : tactic => `(tactic| (
  rw [← maskNaN_eq $x $h, ← snan_c $x, ← snan_c $y, ← snan_c $z]
  unfold maskNaN bigP
  by_cases hb : (decide (($x).w1 &&& 70368744177663 > 54210108624275) ||
      ($x).w1 &&& 70368744177663 == 54210108624275 && decide (($x).w0 > 4089650035136921599)) = true <;>
    by_cases hs : (($x).w1 &&& c_MASK_SNAN == c_MASK_SNAN) = true <;>
    by_cases hs2 : (($y).w1 &&& c_MASK_SNAN == c_MASK_SNAN) = true <;>
    by_cases hs3 : (($z).w1 &&& c_MASK_SNAN == c_MASK_SNAN) = true <;>
    simp only [hb, hs, hs2, hs3, snan_masked, if_true, if_false, Bool.false_eq_true, Bool.or_true, Bool.or_false,
      Bool.true_or, Bool.or_self] <;> rfl))

/-- **`bid128_ext_fma`** `(x, y, z)`, `y` a NaN: the routine looks at `y` FIRST -/
theorem ext_fma_ynan (p1 p2 p3 p4 : Bool) (x y z : U128) (m : RoundingMode) (f : UInt32)
    (h : (decode (bitsOf y)).isNaN = true) :
    bid128_ext_fma p1 p2 p3 p4 x y z m f = .ok (qnanU y, false, false, false, false,
      if (decode (bitsOf y)).isSNaN || ((decode (bitsOf z)).isSNaN || (decode (bitsOf x)).isSNaN) then f ||| 1 else f) := by
  unfold bid128_ext_fma
  take_pos
  · exact (nan_c y).trans h
  head_step
  close_mask3 y h z x

/-- `y` not a NaN, `z` a NaN: `z` second -/
theorem ext_fma_znan (p1 p2 p3 p4 : Bool) (x y z : U128) (m : RoundingMode) (f : UInt32)
    (hy : (decode (bitsOf y)).isNaN = false) (h : (decode (bitsOf z)).isNaN = true) :
    bid128_ext_fma p1 p2 p3 p4 x y z m f = .ok (qnanU z, false, false, false, false,
      if (decode (bitsOf z)).isSNaN || (decode (bitsOf x)).isSNaN then f ||| 1 else f) := by
  unfold bid128_ext_fma
  take_neg
  · rw [nan_c y, hy]; decide
  take_pos
  · exact (nan_c z).trans h
  head_step
  close_mask2 z h x

/-- `y`, `z` not NaNs, `x` a NaN: `x` last -/
theorem ext_fma_xnan (p1 p2 p3 p4 : Bool) (x y z : U128) (m : RoundingMode) (f : UInt32)
    (hy : (decode (bitsOf y)).isNaN = false) (hz : (decode (bitsOf z)).isNaN = false)
    (h : (decode (bitsOf x)).isNaN = true) :
    bid128_ext_fma p1 p2 p3 p4 x y z m f = .ok (qnanU x, false, false, false, false,
      if (decode (bitsOf x)).isSNaN then f ||| 1 else f) := by
  unfold bid128_ext_fma
  take_neg
  · rw [nan_c y, hy]; decide
  take_neg
  · rw [nan_c z, hz]; decide
  take_pos
  · exact (nan_c x).trans h
  head_step
  close_mask x h


/-- the flag rule: `invalid` is OR-ed in iff some operand is a signalling NaN -/
def nanFlags (f : UInt32) (ds : List Datum) : UInt32 := if ds.any Datum.isSNaN then f ||| 1 else f

/-- the NaN `bid128_fma (x, y, z)` propagates: `y`'s if `y` is a NaN, else `z`'s, else `x`'s -/
def fmaPick (x y z : U128) : U128 :=
  if (decode (bitsOf y)).isNaN then qnanU y else if (decode (bitsOf z)).isNaN then qnanU z else qnanU x

/-- **`bid128_ext_fma`**: some operand a NaN; the four midpoint/inexact indicators come back `false` -/
theorem ext_fma_nan (p1 p2 p3 p4 : Bool) (x y z : U128) (m : RoundingMode) (f : UInt32)
    (h : ((decode (bitsOf x)).isNaN || (decode (bitsOf y)).isNaN || (decode (bitsOf z)).isNaN) = true) :
    bid128_ext_fma p1 p2 p3 p4 x y z m f = .ok (fmaPick x y z, false, false, false, false,
      nanFlags f [decode (bitsOf x), decode (bitsOf y), decode (bitsOf z)]) := by
  unfold fmaPick nanFlags
  simp only [List.any_cons, List.any_nil, Bool.or_false]
  cases hy : (decode (bitsOf y)).isNaN
  · have sy := not_snan_of_not_nan hy
    cases hz : (decode (bitsOf z)).isNaN
    · have sz := not_snan_of_not_nan hz
      have hx : (decode (bitsOf x)).isNaN = true := by simpa [hy, hz] using h
      rw [ext_fma_xnan _ _ _ _ _ _ _ _ _ hy hz hx, sy, sz]
      simp only [Bool.false_eq_true, if_false, Bool.or_false]
    · rw [ext_fma_znan _ _ _ _ _ _ _ _ _ hy hz, sy]
      simp only [if_true, Bool.false_eq_true, if_false, Bool.false_or, Bool.or_comm]
  · rw [ext_fma_ynan _ _ _ _ _ _ _ _ _ hy]
    simp only [if_true]
    cases (decode (bitsOf x)).isSNaN <;> cases (decode (bitsOf y)).isSNaN <;> cases (decode (bitsOf z)).isSNaN <;> rfl

/-- **`bid128_fma`**: some operand a NaN -/
theorem fma_nan (x y z : U128) (m : RoundingMode) (f : UInt32)
    (h : ((decode (bitsOf x)).isNaN || (decode (bitsOf y)).isNaN || (decode (bitsOf z)).isNaN) = true) :
    bid128_fma x y z m f = .ok (fmaPick x y z, nanFlags f [decode (bitsOf x), decode (bitsOf y), decode (bitsOf z)]) := by
  unfold bid128_fma
  take_call (ext_fma_nan _ _ _ _ x y z m f h)
  rfl


/-- the NaN a binary routine propagates when it looks at `x` first -/
def pick2 (x y : U128) : U128 := if (decode (bitsOf x)).isNaN then qnanU x else qnanU y

/-- **`bid128_mul`**: some operand a NaN.  The routine hands over to `bid128_fma (y, x, +0E+6111)`, whose FIRST look is at
its second argument — so `x`'s NaN wins here too. -/
theorem mul_nan (x y : U128) (m : RoundingMode) (f : UInt32)
    (h : ((decode (bitsOf x)).isNaN || (decode (bitsOf y)).isNaN) = true) :
    bid128_mul x y m f = .ok (pick2 x y, nanFlags f [decode (bitsOf x), decode (bitsOf y)]) := by
  have hz1 : (decode (bitsOf ⟨0, 0x5ffe000000000000⟩)).isNaN = false := by decide +kernel
  have hz2 : (decode (bitsOf ⟨0, 0x5ffe000000000000⟩)).isSNaN = false := by decide +kernel
  unfold bid128_mul
  take_neg
  · rw [nan_c x, nan_c y]
    cases hx : (decode (bitsOf x)).isNaN <;> cases hy : (decode (bitsOf y)).isNaN <;> simp_all
  take_call (fma_nan y x ⟨0, 0x5ffe000000000000⟩ m f (by rw [hz1, Bool.or_false, Bool.or_comm]; exact h))
  unfold fmaPick pick2 nanFlags
  simp only [List.any_cons, List.any_nil, Bool.or_false, hz1, hz2, Bool.false_eq_true, if_false]
  cases hx : (decode (bitsOf x)).isNaN
  · rw [not_snan_of_not_nan hx]
    simp only [Bool.false_eq_true, if_false, Bool.false_or, Bool.or_false]
    rfl
  · simp only [if_true, Bool.or_comm]
    rfl



/-! ## 5. Binary routines of idiom B: quantize, rem, fmod, div -/

theorem unpack_ok (s0 : UInt64) (e0 : Int32) (c0 x : U128) : ∃ v, unpack_BID128_value s0 e0 c0 x = .ok v :=
  ⟨_, unpack_value_spec s0 e0 c0 x⟩

theorem nan_field (x : U128) (h : (decode (bitsOf x)).isNaN = true) :
    x.w1 &&& 0x7c00000000000000 = 0x7c00000000000000 := by
  have := (nan_lit x).trans h
  exact beq_iff_eq.mp this

theorem set_flags_ok (f s : UInt32) : set_status_flags f s = .ok (f ||| s) := rfl

theorem or_one_one (f : UInt32) : f ||| 1 ||| 1 = f ||| 1 := by
  rw [UInt32.or_assoc]; rfl

/-- **`bid128_quantize`**, `y` a NaN: `x`'s NaN if `x` is one too, else `y`'s -/
theorem quantize_ynan (x y : U128) (m : RoundingMode) (f : UInt32) (h : (decode (bitsOf y)).isNaN = true) :
    bid128_quantize x y m f = .ok (pick2 x y, nanFlags f [decode (bitsOf x), decode (bitsOf y)]) := by
  unfold pick2 nanFlags
  simp only [List.any_cons, List.any_nil, Bool.or_false]
  cases hx : (decode (bitsOf x)).isNaN
  · -- x not a NaN
    have sx := not_snan_of_not_nan hx
    obtain ⟨vx, hvx⟩ := unpack_ok 0 0 default x
    unfold bid128_quantize
    take_call hvx
    take_call (unpack_nan _ _ _ y h)
    take_pos
    · rfl
    take_neg
    · rw [snan_c64 x, sx]; decide
    take_pos
    · exact (nan_lit y).trans h
    head_step
    have hne : (x.w1 &&& 0x7c00000000000000 != 0x7c00000000000000) = true := by
      rw [bne, nan_lit x, hx]; rfl
    simp only [hne, if_true, snan_lit y, sx, Bool.false_or, Bool.false_eq_true, if_false]
    rw [← quiet_canon y h]
    cases (decode (bitsOf y)).isSNaN <;> rfl
  · -- x a NaN too
    have hne : (x.w1 &&& 0x7c00000000000000 != 0x7c00000000000000) = false := by
      rw [bne, nan_lit x, hx]; rfl
    unfold bid128_quantize
    take_call (unpack_nan _ _ _ x hx)
    take_call (unpack_nan _ _ _ y h)
    take_pos
    · rfl
    head_step
    rw [snan_c64 x]
    cases hsx : (decode (bitsOf x)).isSNaN
    · take_neg
      · decide
      take_pos
      · exact (nan_lit y).trans h
      head_step
      simp only [hne, Bool.false_eq_true, if_false, if_true, snan_lit y, Bool.false_or]
      rw [← quiet_canon x hx]
      cases (decode (bitsOf y)).isSNaN <;> rfl
    · take_pos
      · rfl
      take_call (set_flags_ok _ _)
      take_pos
      · exact (nan_lit y).trans h
      head_step
      simp only [hne, Bool.false_eq_true, if_false, if_true, snan_lit y, Bool.true_or]
      rw [← quiet_canon x hx]
      cases (decode (bitsOf y)).isSNaN <;> first | rfl | exact congrArg (fun t => Except.ok (_, t)) (or_one_one f)


theorem nan_lt78 (x : U128) (h : (decode (bitsOf x)).isNaN = true) :
    ¬ decide (x.w1 &&& 0x7c00000000000000 < 0x7800000000000000) = true := by
  rw [nan_field x h]; decide
theorem nan_le78 (x : U128) (h : (decode (bitsOf x)).isNaN = true) :
    ¬ decide (x.w1 &&& 0x7c00000000000000 ≤ 0x7800000000000000) = true := by
  rw [nan_field x h]; decide

/-- **`bid128_quantize`**, `x` a NaN and `y` not -/
theorem quantize_xnan (x y : U128) (m : RoundingMode) (f : UInt32) (hx : (decode (bitsOf x)).isNaN = true)
    (hy : (decode (bitsOf y)).isNaN = false) :
    bid128_quantize x y m f = .ok (qnanU x, if (decode (bitsOf x)).isSNaN then f ||| 1 else f) := by
  obtain ⟨vy, hvy⟩ := unpack_ok 0 0 default y
  have hyn : ¬ (y.w1 &&& 0x7c00000000000000 == 0x7c00000000000000) = true := by rw [nan_lit y, hy]; decide
  have hxi : ¬ (x.w1 &&& 0x7c00000000000000 == 0x7800000000000000) = true := by rw [inf_lit_false x hx]; decide
  have hxn := (nan_lit x).trans hx
  unfold bid128_quantize
  take_call (unpack_nan _ _ _ x hx)
  take_call hvy
  by_cases hz : (vy.1 == 0) = true
  · take_pos
    · exact hz
    head_step
    rw [snan_c64 x]
    cases hsx : (decode (bitsOf x)).isSNaN
    · take_neg
      · decide
      take_neg
      · exact hyn
      by_cases hyi : (y.w1 &&& 0x7800000000000000 == 0x7800000000000000) = true
      · take_pos
        · exact hyi
        take_neg
        · exact nan_lt78 x hx
        take_neg
        · exact nan_le78 x hx
        take_pos
        · rfl
        take_neg
        · exact hxi
        take_pos
        · exact hxn
        head_step
        rw [snan_lit x, hsx, ← quiet_canon x hx]
        rfl
      · take_neg
        · exact hyi
        take_pos
        · rfl
        take_neg
        · exact hxi
        take_pos
        · exact hxn
        head_step
        rw [snan_lit x, hsx, ← quiet_canon x hx]
        rfl
    · take_pos
      · rfl
      take_call (set_flags_ok _ _)
      take_neg
      · exact hyn
      by_cases hyi : (y.w1 &&& 0x7800000000000000 == 0x7800000000000000) = true
      · take_pos
        · exact hyi
        take_neg
        · exact nan_lt78 x hx
        take_neg
        · exact nan_le78 x hx
        take_pos
        · rfl
        take_neg
        · exact hxi
        take_pos
        · exact hxn
        head_step
        rw [snan_lit x, hsx, ← quiet_canon x hx]
        exact congrArg (fun t => Except.ok (_, t)) (or_one_one f)
      · take_neg
        · exact hyi
        take_pos
        · rfl
        take_neg
        · exact hxi
        take_pos
        · exact hxn
        head_step
        rw [snan_lit x, hsx, ← quiet_canon x hx]
        exact congrArg (fun t => Except.ok (_, t)) (or_one_one f)
  · take_neg
    · exact hz
    take_pos
    · rfl
    take_neg
    · exact hxi
    take_pos
    · exact hxn
    head_step
    rw [snan_lit x, ← quiet_canon x hx]
    cases (decode (bitsOf x)).isSNaN <;> rfl


/-- **`bid128_rem`**, `x` a NaN (whatever `y` is) -/
theorem rem_xnan (x y : U128) (f : UInt32) (hx : (decode (bitsOf x)).isNaN = true) :
    bid128_rem x y f = .ok (qnanU x,
      if (decode (bitsOf x)).isSNaN || (decode (bitsOf y)).isSNaN then f ||| 1 else f) := by
  obtain ⟨vy, hvy⟩ := unpack_ok 0 0 default y
  have hxn := (nan_lit x).trans hx
  unfold bid128_rem
  take_call hvy
  take_call (unpack_nan _ _ _ x hx)
  take_pos
  · rfl
  head_step
  rw [snan_c64 y]
  cases hsy : (decode (bitsOf y)).isSNaN
  · take_neg
    · decide
    take_pos
    · exact hxn
    head_step
    rw [snan_c64 x, ← quiet_canon x hx, Bool.or_false]
    cases (decode (bitsOf x)).isSNaN <;> rfl
  · take_pos
    · rfl
    take_call (set_flags_ok _ _)
    take_pos
    · exact hxn
    head_step
    rw [snan_c64 x, ← quiet_canon x hx, Bool.or_true]
    cases (decode (bitsOf x)).isSNaN <;> first | rfl | exact congrArg (fun t => Except.ok (_, t)) (or_one_one f)

/-- **`bid128_fmod`**, `x` a NaN (whatever `y` is) -/
theorem fmod_xnan (x y : U128) (f : UInt32) (hx : (decode (bitsOf x)).isNaN = true) :
    bid128_fmod x y f = .ok (qnanU x,
      if (decode (bitsOf x)).isSNaN || (decode (bitsOf y)).isSNaN then f ||| 1 else f) := by
  obtain ⟨vy, hvy⟩ := unpack_ok 0 0 default y
  have hxn := (nan_lit x).trans hx
  unfold bid128_fmod
  take_call hvy
  take_call (unpack_nan _ _ _ x hx)
  take_pos
  · rfl
  head_step
  rw [snan_c64 y]
  cases hsy : (decode (bitsOf y)).isSNaN
  · take_neg
    · decide
    take_pos
    · exact hxn
    head_step
    rw [snan_c64 x, ← quiet_canon x hx, Bool.or_false]
    cases (decode (bitsOf x)).isSNaN <;> rfl
  · take_pos
    · rfl
    take_call (set_flags_ok _ _)
    take_pos
    · exact hxn
    head_step
    rw [snan_c64 x, ← quiet_canon x hx, Bool.or_true]
    cases (decode (bitsOf x)).isSNaN <;> first | rfl | exact congrArg (fun t => Except.ok (_, t)) (or_one_one f)


theorem inf_c_false (x : U128) (h : (decode (bitsOf x)).isNaN = true) :
    (x.w1 &&& c_NAN_MASK64 == c_INFINITY_MASK64) = false := inf_lit_false x h

/-- **`bid128_rem`**, `y` a NaN and `x` not -/
theorem rem_ynan (x y : U128) (f : UInt32) (hx : (decode (bitsOf x)).isNaN = false)
    (hy : (decode (bitsOf y)).isNaN = true) :
    bid128_rem x y f = .ok (qnanU y, if (decode (bitsOf y)).isSNaN then f ||| 1 else f) := by
  obtain ⟨vx, hvx⟩ := unpack_ok 0 0 default x
  have hxn : ¬ (x.w1 &&& 0x7c00000000000000 == 0x7c00000000000000) = true := by rw [nan_lit x, hx]; decide
  have hyn := (nan_lit y).trans hy
  have hcy : ¬ ((ofBits (canon (bitsOf y))).w1 == 0 && (ofBits (canon (bitsOf y))).w0 == 0) = true := by
    rw [cx_w1_ne y hy, Bool.false_and]; exact Bool.false_ne_true
  have hvy : ¬ (((0 : UInt64) != 0) || y.w1 &&& c_NAN_MASK64 == c_INFINITY_MASK64) = true := by
    rw [inf_c_false y hy]; decide
  unfold bid128_rem
  take_call (unpack_nan _ _ _ y hy)
  take_call hvx
  by_cases hz : (vx.1 == 0) = true
  · take_pos
    · exact hz
    head_step
    rw [snan_c64 y]
    cases hsy : (decode (bitsOf y)).isSNaN
    · take_neg
      · decide
      take_neg
      · exact hxn
      by_cases hxi : (x.w1 &&& 0x7800000000000000 == 0x7800000000000000) = true
      · take_pos
        · exact hxi
        take_neg
        · rw [bne, hyn]; decide
        take_neg
        · exact hcy
        take_neg
        · exact hvy
        take_pos
        · rfl
        take_pos
        · exact hyn
        head_step
        rw [← quiet_canon y hy]
        rfl
      · take_neg
        · exact hxi
        take_neg
        · exact hcy
        take_neg
        · exact hvy
        take_pos
        · rfl
        take_pos
        · exact hyn
        head_step
        rw [← quiet_canon y hy]
        rfl
    · take_pos
      · rfl
      take_call (set_flags_ok _ _)
      take_neg
      · exact hxn
      by_cases hxi : (x.w1 &&& 0x7800000000000000 == 0x7800000000000000) = true
      · take_pos
        · exact hxi
        take_neg
        · rw [bne, hyn]; decide
        take_neg
        · exact hcy
        take_neg
        · exact hvy
        take_pos
        · rfl
        take_pos
        · exact hyn
        head_step
        rw [← quiet_canon y hy]
        exact congrArg (fun t => Except.ok (_, t)) (or_one_one f)
      · take_neg
        · exact hxi
        take_neg
        · exact hcy
        take_neg
        · exact hvy
        take_pos
        · rfl
        take_pos
        · exact hyn
        head_step
        rw [← quiet_canon y hy]
        exact congrArg (fun t => Except.ok (_, t)) (or_one_one f)
  · take_neg
    · exact hz
    take_pos
    · rfl
    take_pos
    · exact hyn
    head_step
    rw [snan_c64 y, ← quiet_canon y hy]
    cases (decode (bitsOf y)).isSNaN <;> rfl

/-- **`bid128_fmod`**, `y` a NaN and `x` not -/
theorem fmod_ynan (x y : U128) (f : UInt32) (hx : (decode (bitsOf x)).isNaN = false)
    (hy : (decode (bitsOf y)).isNaN = true) :
    bid128_fmod x y f = .ok (qnanU y, if (decode (bitsOf y)).isSNaN then f ||| 1 else f) := by
  obtain ⟨vx, hvx⟩ := unpack_ok 0 0 default x
  have hxn : ¬ (x.w1 &&& 0x7c00000000000000 == 0x7c00000000000000) = true := by rw [nan_lit x, hx]; decide
  have hyn := (nan_lit y).trans hy
  have hcy : ¬ ((ofBits (canon (bitsOf y))).w1 == 0 && (ofBits (canon (bitsOf y))).w0 == 0) = true := by
    rw [cx_w1_ne y hy, Bool.false_and]; exact Bool.false_ne_true
  have hvy : ¬ (((0 : UInt64) != 0) || y.w1 &&& c_NAN_MASK64 == c_INFINITY_MASK64) = true := by
    rw [inf_c_false y hy]; decide
  unfold bid128_fmod
  take_call (unpack_nan _ _ _ y hy)
  take_call hvx
  by_cases hz : (vx.1 == 0) = true
  · take_pos
    · exact hz
    head_step
    rw [snan_c64 y]
    cases hsy : (decode (bitsOf y)).isSNaN
    · take_neg
      · decide
      take_neg
      · exact hxn
      by_cases hxi : (x.w1 &&& 0x7800000000000000 == 0x7800000000000000) = true
      · take_pos
        · exact hxi
        take_neg
        · rw [bne, hyn]; decide
        take_neg
        · exact hcy
        take_neg
        · exact hvy
        take_pos
        · rfl
        take_pos
        · exact hyn
        head_step
        rw [← quiet_canon y hy]
        rfl
      · take_neg
        · exact hxi
        take_neg
        · exact hcy
        take_neg
        · exact hvy
        take_pos
        · rfl
        take_pos
        · exact hyn
        head_step
        rw [← quiet_canon y hy]
        rfl
    · take_pos
      · rfl
      take_call (set_flags_ok _ _)
      take_neg
      · exact hxn
      by_cases hxi : (x.w1 &&& 0x7800000000000000 == 0x7800000000000000) = true
      · take_pos
        · exact hxi
        take_neg
        · rw [bne, hyn]; decide
        take_neg
        · exact hcy
        take_neg
        · exact hvy
        take_pos
        · rfl
        take_pos
        · exact hyn
        head_step
        rw [← quiet_canon y hy]
        exact congrArg (fun t => Except.ok (_, t)) (or_one_one f)
      · take_neg
        · exact hxi
        take_neg
        · exact hcy
        take_neg
        · exact hvy
        take_pos
        · rfl
        take_pos
        · exact hyn
        head_step
        rw [← quiet_canon y hy]
        exact congrArg (fun t => Except.ok (_, t)) (or_one_one f)
  · take_neg
    · exact hz
    take_pos
    · rfl
    take_pos
    · exact hyn
    head_step
    rw [snan_c64 y, ← quiet_canon y hy]
    cases (decode (bitsOf y)).isSNaN <;> rfl


theorem special_field (x : U128) (h : (decode (bitsOf x)).isNaN = true) :
    x.w1 &&& 0x7800000000000000 = 0x7800000000000000 := beq_iff_eq.mp (special_lit x h)

theorem nan_not_lt78 (x : U128) (h : (decode (bitsOf x)).isNaN = true) :
    ¬ decide (x.w1 &&& 0x7800000000000000 < 0x7800000000000000) = true := by
  rw [special_field x h]; decide

/-- **`bid128_div_clear_status`**, `x` a NaN (whatever `y` is) -/
theorem div_xnan (x y : U128) (m : RoundingMode) (f : UInt32) (hx : (decode (bitsOf x)).isNaN = true) :
    bid128_div_clear_status x y m f = .ok (qnanU x,
      if (decode (bitsOf x)).isSNaN || (decode (bitsOf y)).isSNaN then f ||| 1 else f) := by
  obtain ⟨vy, hvy⟩ := unpack_ok 0 0 default y
  unfold bid128_div_clear_status
  take_call hvy
  take_call (unpack_nan _ _ _ x hx)
  take_pos
  · rfl
  take_pos
  · exact (nan_lit x).trans hx
  head_step
  rw [snan_lit x, snan_lit y, ← quiet_canon x hx]
  cases (decode (bitsOf x)).isSNaN <;> cases (decode (bitsOf y)).isSNaN <;> rfl

/-- **`bid128_div_clear_status`**, `y` a NaN and `x` not -/
theorem div_ynan (x y : U128) (m : RoundingMode) (f : UInt32) (hx : (decode (bitsOf x)).isNaN = false)
    (hy : (decode (bitsOf y)).isNaN = true) :
    bid128_div_clear_status x y m f = .ok (qnanU y, if (decode (bitsOf y)).isSNaN then f ||| 1 else f) := by
  obtain ⟨vx, hvx⟩ := unpack_ok 0 0 default x
  have hxn : ¬ (x.w1 &&& 0x7c00000000000000 == 0x7c00000000000000) = true := by rw [nan_lit x, hx]; decide
  have hyn := (nan_lit y).trans hy
  unfold bid128_div_clear_status
  take_call (unpack_nan _ _ _ y hy)
  take_call hvx
  by_cases hz : (vx.1 == 0) = true
  · take_pos
    · exact hz
    take_neg
    · exact hxn
    by_cases hxi : (x.w1 &&& 0x7800000000000000 == 0x7800000000000000) = true
    · take_pos
      · exact hxi
      take_neg
      · rw [inf_lit_false y hy]; decide
      take_neg
      · rw [bne, hyn]; decide
      take_neg
      · exact nan_not_lt78 y hy
      take_pos
      · rfl
      take_pos
      · exact hyn
      head_step
      rw [snan_lit y, ← quiet_canon y hy]
      cases (decode (bitsOf y)).isSNaN <;> rfl
    · take_neg
      · exact hxi
      take_neg
      · exact nan_not_lt78 y hy
      take_pos
      · rfl
      take_pos
      · exact hyn
      head_step
      rw [snan_lit y, ← quiet_canon y hy]
      cases (decode (bitsOf y)).isSNaN <;> rfl
  · take_neg
    · exact hz
    take_pos
    · rfl
    take_pos
    · exact hyn
    head_step
    rw [snan_lit y, ← quiet_canon y hy]
    cases (decode (bitsOf y)).isSNaN <;> rfl



/-! ## 6. One statement per routine in a common vocabulary, and the model's rule -/

/-- unary form of the flag rule -/
theorem nanFlags_one (f : UInt32) (d : Datum) : nanFlags f [d] = if d.isSNaN then f ||| 1 else f := by
  unfold nanFlags; simp only [List.any_cons, List.any_nil, Bool.or_false]

theorem nanFlags_two (f : UInt32) (d e : Datum) : nanFlags f [d, e] = if d.isSNaN || e.isSNaN then f ||| 1 else f := by
  unfold nanFlags; simp only [List.any_cons, List.any_nil, Bool.or_false]

/-- a binary routine that looks at `x` first, from its two front-end theorems -/
theorem binary_of_parts {α : Type} (r : α) (x y : U128) (f : UInt32) (F : U128 × UInt32 → α)
    (hX : (decode (bitsOf x)).isNaN = true → r = F (qnanU x,
      if (decode (bitsOf x)).isSNaN || (decode (bitsOf y)).isSNaN then f ||| 1 else f))
    (hY : (decode (bitsOf x)).isNaN = false → (decode (bitsOf y)).isNaN = true → r = F (qnanU y,
      if (decode (bitsOf y)).isSNaN then f ||| 1 else f))
    (h : ((decode (bitsOf x)).isNaN || (decode (bitsOf y)).isNaN) = true) :
    r = F (pick2 x y, nanFlags f [decode (bitsOf x), decode (bitsOf y)]) := by
  rw [nanFlags_two]
  unfold pick2
  cases hx : (decode (bitsOf x)).isNaN
  · have hy : (decode (bitsOf y)).isNaN = true := by simpa [hx] using h
    rw [hY hx hy, not_snan_of_not_nan hx, Bool.false_or, if_neg Bool.false_ne_true]
  · rw [hX hx, if_pos rfl]

/-- **`bid128_add`**: some operand a NaN -/
theorem add_nan (x y : U128) (m : RoundingMode) (f : UInt32)
    (h : ((decode (bitsOf x)).isNaN || (decode (bitsOf y)).isNaN) = true) :
    bid128_add x y m f = .ok (pick2 x y, nanFlags f [decode (bitsOf x), decode (bitsOf y)]) :=
  binary_of_parts _ x y f Except.ok (add_xnan x y m f) (fun hx hy => add_ynan x y m f hx hy) h

/-- **`bid128_sub`**: some operand a NaN (a NaN subtrahend keeps its sign) -/
theorem sub_nan (x y : U128) (m : RoundingMode) (f : UInt32)
    (h : ((decode (bitsOf x)).isNaN || (decode (bitsOf y)).isNaN) = true) :
    bid128_sub x y m f = .ok (pick2 x y, nanFlags f [decode (bitsOf x), decode (bitsOf y)]) :=
  binary_of_parts _ x y f Except.ok (sub_xnan x y m f) (fun hx hy => sub_ynan x y m f hx hy) h

/-- **`bid128_div_clear_status`**: some operand a NaN -/
theorem div_nan (x y : U128) (m : RoundingMode) (f : UInt32)
    (h : ((decode (bitsOf x)).isNaN || (decode (bitsOf y)).isNaN) = true) :
    bid128_div_clear_status x y m f = .ok (pick2 x y, nanFlags f [decode (bitsOf x), decode (bitsOf y)]) :=
  binary_of_parts _ x y f Except.ok (div_xnan x y m f) (fun hx hy => div_ynan x y m f hx hy) h

/-- **`bid128_rem`**: some operand a NaN -/
theorem rem_nan (x y : U128) (f : UInt32)
    (h : ((decode (bitsOf x)).isNaN || (decode (bitsOf y)).isNaN) = true) :
    bid128_rem x y f = .ok (pick2 x y, nanFlags f [decode (bitsOf x), decode (bitsOf y)]) :=
  binary_of_parts _ x y f Except.ok (rem_xnan x y f) (fun hx hy => rem_ynan x y f hx hy) h

/-- **`bid128_fmod`**: some operand a NaN -/
theorem fmod_nan (x y : U128) (f : UInt32)
    (h : ((decode (bitsOf x)).isNaN || (decode (bitsOf y)).isNaN) = true) :
    bid128_fmod x y f = .ok (pick2 x y, nanFlags f [decode (bitsOf x), decode (bitsOf y)]) :=
  binary_of_parts _ x y f Except.ok (fmod_xnan x y f) (fun hx hy => fmod_ynan x y f hx hy) h

/-- **`bid128_nextafter`**: some operand a NaN -/
theorem nextafter_nan (x y : U128) (f : UInt32)
    (h : ((decode (bitsOf x)).isNaN || (decode (bitsOf y)).isNaN) = true) :
    bid128_nextafter x y f = .ok (pick2 x y, nanFlags f [decode (bitsOf x), decode (bitsOf y)]) :=
  binary_of_parts _ x y f Except.ok (nextafter_xnan x y f) (fun hx hy => nextafter_ynan x y f hx hy) h

/-- **`bid128_quantize`**: some operand a NaN -/
theorem quantize_nan (x y : U128) (m : RoundingMode) (f : UInt32)
    (h : ((decode (bitsOf x)).isNaN || (decode (bitsOf y)).isNaN) = true) :
    bid128_quantize x y m f = .ok (pick2 x y, nanFlags f [decode (bitsOf x), decode (bitsOf y)]) := by
  cases hy : (decode (bitsOf y)).isNaN
  · have hx : (decode (bitsOf x)).isNaN = true := by simpa [hy] using h
    rw [quantize_xnan x y m f hx hy, nanFlags_two, not_snan_of_not_nan hy, Bool.or_false]
    unfold pick2; rw [hx, if_pos rfl]
  · exact quantize_ynan x y m f hy

/-- the model's rule (`Dec.nanRule`, DecModel/Ops.lean): the result pattern is `encode (quietNaN n)` for one of the NaN
operands `n`, and the flags are the incoming ones with `invalid` OR-ed in iff some operand is signalling -/
def NaNRuleOK (ds : List Datum) (f : UInt32) (r : U128 × UInt32) : Prop :=
  bitsOf r.1 ∈ (ds.filter Datum.isNaN).map (fun n => encode (quietNaN n)) ∧
    r.2.toNat = f.toNat ||| (if ds.any Datum.isSNaN then fInvalid else 0)

theorem nanFlags_toNat (f : UInt32) (ds : List Datum) :
    (nanFlags f ds).toNat = f.toNat ||| (if ds.any Datum.isSNaN then fInvalid else 0) := by
  unfold nanFlags
  split
  · rw [UInt32.toNat_or]; rfl
  · rw [Nat.or_zero]

/-- the unary results obey the model's rule -/
theorem rule_unary (x : U128) (f : UInt32) (h : (decode (bitsOf x)).isNaN = true) :
    NaNRuleOK [decode (bitsOf x)] f (qnanU x, nanFlags f [decode (bitsOf x)]) := by
  refine ⟨?_, nanFlags_toNat _ _⟩
  simp only [List.filter_cons, h, if_true, List.filter_nil, List.map_cons, List.map_nil, List.mem_singleton]
  exact bitsOf_qnanU x

/-- the binary results obey the model's rule -/
theorem rule_binary (x y : U128) (f : UInt32)
    (h : ((decode (bitsOf x)).isNaN || (decode (bitsOf y)).isNaN) = true) :
    NaNRuleOK [decode (bitsOf x), decode (bitsOf y)] f
      (pick2 x y, nanFlags f [decode (bitsOf x), decode (bitsOf y)]) := by
  refine ⟨?_, nanFlags_toNat _ _⟩
  unfold pick2
  cases hx : (decode (bitsOf x)).isNaN
  · have hy : (decode (bitsOf y)).isNaN = true := by simpa [hx] using h
    simp only [List.filter_cons, hx, hy, Bool.false_eq_true, if_false, if_true, List.filter_nil, List.map_cons,
      List.map_nil, List.mem_singleton]
    exact bitsOf_qnanU y
  · simp only [List.filter_cons, hx, if_true, List.map_cons, List.mem_cons]
    exact Or.inl (bitsOf_qnanU x)

/-- the ternary result obeys the model's rule -/
theorem rule_ternary (x y z : U128) (f : UInt32)
    (h : ((decode (bitsOf x)).isNaN || (decode (bitsOf y)).isNaN || (decode (bitsOf z)).isNaN) = true) :
    NaNRuleOK [decode (bitsOf x), decode (bitsOf y), decode (bitsOf z)] f
      (fmaPick x y z, nanFlags f [decode (bitsOf x), decode (bitsOf y), decode (bitsOf z)]) := by
  refine ⟨?_, nanFlags_toNat _ _⟩
  unfold fmaPick
  rw [List.mem_map]
  cases hy : (decode (bitsOf y)).isNaN
  · cases hz : (decode (bitsOf z)).isNaN
    · have hx : (decode (bitsOf x)).isNaN = true := by simpa [hy, hz] using h
      exact ⟨decode (bitsOf x), by simp [hx], (bitsOf_qnanU x).symm⟩
    · exact ⟨decode (bitsOf z), by simp [hz], (bitsOf_qnanU z).symm⟩
  · exact ⟨decode (bitsOf y), by simp [hy], (bitsOf_qnanU y).symm⟩

/-- the selected pattern is always a canonical quiet NaN -/
theorem qnanU_canonical (x : U128) (h : (decode (bitsOf x)).isNaN = true) :
    isCanonical (bitsOf (qnanU x)) = true ∧ (decode (bitsOf (qnanU x))).isNaN = true ∧
      (decode (bitsOf (qnanU x))).isSNaN = false := by
  have wf := quietNaN_WF (decode_WF (bitsOf x))
  rw [bitsOf_qnanU, decode_encode wf]
  refine ⟨isCanonical_encode wf, ?_, ?_⟩ <;> cases hd : decode (bitsOf x) <;> first | rfl | (rw [hd] at h; exact Bool.noConfusion h)

/-! ## 7. Examples (the translated routines evaluated by the kernel) -/

-- a quiet `x` with a signalling `y`: `x`'s NaN, invalid
example : bid128_add ⟨5, 0x7c00000000000000⟩ ⟨7, 0x7e00000000000000⟩ .NearestEven 0
    = .ok (⟨5, 0x7c00000000000000⟩, 1) := by decide +kernel
example : bid128_add ⟨5, 0x7c00000000000000⟩ ⟨7, 0x7e00000000000000⟩ .NearestEven 0
    = .ok (pick2 ⟨5, 0x7c00000000000000⟩ ⟨7, 0x7e00000000000000⟩,
        nanFlags 0 [decode (bitsOf ⟨5, 0x7c00000000000000⟩), decode (bitsOf ⟨7, 0x7e00000000000000⟩)]) :=
  add_nan _ _ _ _ (by decide +kernel)
-- x − (−qNaN(7)): the NaN keeps its sign
example : bid128_sub ⟨1, 0x3040000000000000⟩ ⟨7, 0xfc00000000000000⟩ .NearestEven 0x20
    = .ok (⟨7, 0xfc00000000000000⟩, 0x20) := by decide +kernel
-- fma looks at y, then z, then x
example : bid128_fma ⟨5, 0x7c00000000000000⟩ ⟨7, 0xfe00000000000000⟩ ⟨9, 0x7c00000000000000⟩ .NearestEven 0x20
    = .ok (⟨7, 0xfc00000000000000⟩, 0x21) := by decide +kernel
example : bid128_fma ⟨5, 0x7c00000000000000⟩ ⟨1, 0x3040000000000000⟩ ⟨9, 0x7c00000000000000⟩ .NearestEven 0
    = .ok (⟨9, 0x7c00000000000000⟩, 0) := by decide +kernel
-- … and mul(x, y) = fma(y, x, 0) therefore at x first
example : bid128_mul ⟨5, 0x7c00000000000000⟩ ⟨7, 0x7e00000000000000⟩ .NearestEven 0
    = .ok (⟨5, 0x7c00000000000000⟩, 1) := by decide +kernel
-- non-canonical NaNs: payload field ≥ 10^33 and reserved bits set ↦ payload 0, reserved bits cleared
example : bid128_div_clear_status ⟨1, 0x3040000000000000⟩ ⟨0xffffffffffffffff, 0xfe1fffffffffffff⟩ .NearestEven 0
    = .ok (⟨0, 0xfc00000000000000⟩, 1) := by decide +kernel
example : bid128_sqrt ⟨0xffffffffffffffff, 0x7dffffffffffffff⟩ .NearestEven 4 = .ok (⟨0, 0x7c00000000000000⟩, 4) := by
  decide +kernel
example : bid128_round_integral_exact ⟨3, 0x7e1fc00000000000⟩ .Upward 0 = .ok (⟨3, 0x7c00000000000000⟩, 1) := by
  decide +kernel
example : bid128_nextup ⟨3, 0xfc00000000000000⟩ 2 = .ok (⟨3, 0xfc00000000000000⟩, 2) := by decide +kernel
example : bid128_logb ⟨3, 0xfe00000000000000⟩ 0 = .ok (⟨3, 0xfc00000000000000⟩, 1) := by decide +kernel
example : bid128_scalbn_clear_status ⟨3, 0x7e00000000000000⟩ 5 .NearestEven 0 = .ok (⟨3, 0x7c00000000000000⟩, 1) := by
  decide +kernel
example : bid128_quantize ⟨5, 0x7c00000000000000⟩ ⟨7, 0x7e00000000000000⟩ .NearestEven 0
    = .ok (⟨5, 0x7c00000000000000⟩, 1) := by decide +kernel
example : bid128_quantize ⟨5, 0x7e00000000000000⟩ ⟨0, 0x7800000000000000⟩ .NearestEven 0
    = .ok (⟨5, 0x7c00000000000000⟩, 1) := by decide +kernel
example : bid128_rem ⟨0, 0x7800000000000000⟩ ⟨7, 0x7e00000000000000⟩ 0 = .ok (⟨7, 0x7c00000000000000⟩, 1) := by
  decide +kernel
example : bid128_fmod ⟨7, 0x7e00000000000000⟩ ⟨7, 0x7e00000000000000⟩ 0 = .ok (⟨7, 0x7c00000000000000⟩, 1) := by
  decide +kernel
example : bid128_nextafter ⟨1, 0x3040000000000000⟩ ⟨7, 0xfe00000000000000⟩ 0 = .ok (⟨7, 0xfc00000000000000⟩, 1) := by
  decide +kernel
example : qnanU ⟨0xffffffffffffffff, 0xfe1fffffffffffff⟩ = ⟨0, 0xfc00000000000000⟩ := by decide +kernel

end Dec.C12GenNaN
