/-
  C02GenFmaZ0 — the `z = 0` (product-only) path of the fused multiply-add `bid128_ext_fma`: the stages `round1K`, `ovfK`,
  `tinyK`, `normalK` of `Dec.C02GenFmaFront.z0K` (bid128_fma.rs lines 1531–1790; this is all of `bid128_mul`).  BASE FILE:
  the code-level evaluation of the stages, the number-level delivery for the inexact and the 34-digit cases, and the
  complete block theorem for products of 35 to 68 digits.

  CODE LEVEL (each for all arguments, the stage's own tests as hypotheses on `toInt`):
    `round1K_small` (at most 34 digits, no scaling: the product is passed on as it is), `round1K_B1/B2/B3` (35–38 / 39–57 /
    58–68 digits: `= (bid_round128_19_38 | 192_39_57 | 256_58_76 …).bind post1`, `post1` = new exponent, `q4 = 34`, the
    underflow flags `0x30` raised at once when a carry lifted the result to exactly `10^33·10^emin`);
    `ovfK_skip`, `ovfK_rn` (infinity, `0x28`), `ovfK_dir` (`= correction.bind …`); `tinyK_skip`;
    `normalK_rn`, `normalK_dir` (`= normTail …` resp. `correction.bind normTail`; `normTail` = flags, then for exact results
    `prefK`, my literal continuation-passing copy of the "scale up towards the addend's exponent" text, lines 627–646 of the
    translation); `restK`, `z0K_eq : z0K … = round1K C4 q4 e4 0 (restK …)`.
  NUMBER LEVEL (on C02GenFmaLow's `PreTail` / `tail_math` / `spec_facts` / `coarse_view`):
    `normalK_inexact` (PreTail + some indicator set ⇒ the encoding of `finish`, flags incl. the `0x30` case),
    `normalK_exact` + `prefK_noscale` (exact, 34 digits or exponent not above the addend's), `ovfK_dir_spec` (overflow range,
    directed modes and ties-away: through `bid_rounding_correction`, which may also step back to the largest finite number).
  BLOCK THEOREMS, given `TinySpec` (the specification of `tinyK` in the tiny range, proved by its author in
  C02GenFmaZ0Tiny.lean; kept as a hypothesis in the proofs so that the files did not wait for each other; DISCHARGED at the end:
  `tinySpec : TinySpec`, `z0K_big'` = `z0K_big` without hypothesis):
    `afterRound_spec`: after the digit-removal helper (`Spec`) the rest of the path returns the encoding of
      `finish (modeOf m) s N 1 E (min E E3)` and `f ||| flags` — overflow (nearest-even: infinity; other modes: correction),
      tiny (`TinySpec`), normal inexact (incl. the carry to `10^33·10^emin`, where the value is tiny and underflow is due),
      normal exact (nothing to scale at 34 digits);
    `z0K_big`: **for every exact product `N` of 35 to 68 digits, every exponent sum, mode, sign, zero addend: `z0K` =
      `finish` of `N·10^E` with the preferred exponent `min (E, E3)`**, some indicators, status word `f ||| flags`.
  OPEN (handed over, see the final report): products of at most 34 digits (`round1K_scale`, `prefK_eval`,
  `finish_exact_pref` → `z0K_small`) and the composition with `C02GenFmaFrontSpec.front_z0` into `Z0Spec` / `bid128_mul_spec`.
-/
import DecProofs.Properties.C02GenFmaFront
import DecProofs.Properties.C02GenFmaSwap
import DecProofs.Properties.C02GenFmaLow
import DecProofs.Properties.C02GenFmaZ0Tiny

set_option linter.unusedSimpArgs false
set_option linter.unusedVariables false
set_option linter.unnecessarySeqFocus false

namespace Dec.C02GenFmaZ0
open Dec.Rs Dec.Gen.Code Dec.C02GenFmaFront
open Dec.C02GenFmaLow hiding sgnW sgnW_toNat sgnW_beq
open Dec.C02GenCorrection (ofBits modeOf i32_gt deliver stepC upD downD outF outW)
open Dec.C02GenFmaSwap (sgnW sgnW_toNat)
open Dec.RH (Ind)
open Dec.C02RoundHelpers (Spec rne)
open Dec.C03GenCompare (negW sigW)
open Dec.C04ScanNum (finish_pref_34)

local notation "Out" => (U128 × Bool × Bool × Bool × Bool × UInt32)

theorem i32_add_toInt (a b : Int32) (h1 : -2 ^ 31 ≤ a.toInt + b.toInt) (h2 : a.toInt + b.toInt < 2 ^ 31) :
    (a + b).toInt = a.toInt + b.toInt := by
  rw [Int32.toInt_add, bmod32 _ h1 h2]

theorem p34I : c_P34.toInt = 34 := by decide
theorem emaxI : c_EXP_MAX_UNBIASED.toInt = 6111 := by decide
theorem eminI : c_EXP_MIN_UNBIASED.toInt = -6176 := by decide

/-- at most 34 digits and no scaling needed: the product is passed on as it is -/
theorem round1K_small (C4 : U256) (q4 e4 : Int32) (pf : UInt32)
    (k : U128 → Int32 → Int32 → UInt32 → Bool → Bool → Bool → Bool → Bool → U128 → Except String Out)
    (hq : q4.toInt ≤ 34) (hq0 : 0 ≤ q4.toInt) (he : -100000 ≤ e4.toInt ∧ e4.toInt ≤ 100000)
    (hns : ¬ (q4.toInt + e4.toInt ≤ 6145 ∧ 6111 < e4.toInt)) :
    round1K C4 q4 e4 pf k = k ⟨C4.w0, C4.w1⟩ e4 q4 pf false false false false false default := by
  unfold round1K
  have c1 : decide (q4 > c_P34) = false := by
    rw [i32_gt, decide_eq_false_iff_not, p34I]; omega
  have c2 : ((decide ((q4 + e4) ≤ (c_P34 + c_EXP_MAX_UNBIASED))) && (decide (e4 > c_EXP_MAX_UNBIASED))) = false := by
    rw [i32_le, i32_gt, emaxI, i32_add_toInt q4 e4 (by omega) (by omega),
      show (c_P34 + c_EXP_MAX_UNBIASED).toInt = 6145 from by decide]
    rw [Bool.and_eq_false_iff, decide_eq_false_iff_not, decide_eq_false_iff_not]
    omega
  simp only [c1, c2, Bool.false_eq_true, if_false]

/-- what follows the digit-removal helper in `round1K`: the new exponent (one more after a carry), `q4 = 34`, and the
underflow flags raised at once when the carry lifted the result to exactly `10^33·10^emin` -/
def post1 (e4 x0 : Int32) (pf : UInt32) (res : U128) (incr ML MG L G : Bool) (P128 : U128)
    (k : U128 → Int32 → Int32 → UInt32 → Bool → Bool → Bool → Bool → Bool → U128 → Except String Out) : Except String Out :=
  if incr = true then
    if ((c_P34 + ((e4 + x0) + 1)) == (c_EXP_MIN_UNBIASED + c_P34)) = true then
      k res ((e4 + x0) + 1) c_P34 (pf ||| (c_StatusFlags_BID_INEXACT_EXCEPTION ||| c_StatusFlags_BID_UNDERFLOW_EXCEPTION))
        incr ML MG L G P128
    else k res ((e4 + x0) + 1) c_P34 pf incr ML MG L G P128
  else k res (e4 + x0) c_P34 pf incr ML MG L G P128

theorem round1K_B1 (C4 : U256) (q4 e4 : Int32) (pf : UInt32)
    (k : U128 → Int32 → Int32 → UInt32 → Bool → Bool → Bool → Bool → Bool → U128 → Except String Out)
    (h1 : 34 < q4.toInt) (h2 : q4.toInt ≤ 38) :
    round1K C4 q4 e4 pf k =
      (bid_round128_19_38 q4 (q4 - c_P34) ⟨C4.w0, C4.w1⟩ false false false false false).bind fun t =>
        post1 e4 (q4 - c_P34) pf t.1 t.2.1 t.2.2.1 t.2.2.2.1 t.2.2.2.2.1 t.2.2.2.2.2 ⟨C4.w0, C4.w1⟩ k := by
  unfold round1K
  have c1 : decide (q4 > c_P34) = true := by
    rw [i32_gt, decide_eq_true_eq, p34I]; exact h1
  have c2 : decide (q4 ≤ (0x26 : Int32)) = true := by
    rw [i32_le, decide_eq_true_eq]; exact h2
  simp only [c1, c2, if_true]
  generalize bid_round128_19_38 q4 (q4 - c_P34) _ false false false false false = X
  cases X with
  | error e => rfl
  | ok t =>
    unfold post1
    simp only [Except.bind]
    rfl

theorem round1K_B2 (C4 : U256) (q4 e4 : Int32) (pf : UInt32)
    (k : U128 → Int32 → Int32 → UInt32 → Bool → Bool → Bool → Bool → Bool → U128 → Except String Out)
    (h1 : 38 < q4.toInt) (h2 : q4.toInt ≤ 57) :
    round1K C4 q4 e4 pf k =
      (bid_round192_39_57 q4 (q4 - c_P34) ⟨C4.w0, C4.w1, C4.w2⟩ false false false false false).bind fun t =>
        post1 e4 (q4 - c_P34) pf ⟨t.1.w0, t.1.w1⟩ t.2.1 t.2.2.1 t.2.2.2.1 t.2.2.2.2.1 t.2.2.2.2.2 default k := by
  unfold round1K
  have c1 : decide (q4 > c_P34) = true := by
    rw [i32_gt, decide_eq_true_eq, p34I]; omega
  have c2 : decide (q4 ≤ (0x26 : Int32)) = false := by
    rw [i32_le, decide_eq_false_iff_not]; exact not_le.2 h1
  have c3 : decide (q4 ≤ (0x39 : Int32)) = true := by
    rw [i32_le, decide_eq_true_eq]; exact h2
  simp only [c1, c2, c3, if_true, Bool.false_eq_true, if_false]
  generalize bid_round192_39_57 q4 (q4 - c_P34) _ false false false false false = X
  cases X with
  | error e => rfl
  | ok t =>
    unfold post1
    simp only [Except.bind]
    rfl

theorem round1K_B3 (C4 : U256) (q4 e4 : Int32) (pf : UInt32)
    (k : U128 → Int32 → Int32 → UInt32 → Bool → Bool → Bool → Bool → Bool → U128 → Except String Out)
    (h1 : 57 < q4.toInt) :
    round1K C4 q4 e4 pf k =
      (bid_round256_58_76 q4 (q4 - c_P34) C4 false false false false false).bind fun t =>
        post1 e4 (q4 - c_P34) pf ⟨t.1.w0, t.1.w1⟩ t.2.1 t.2.2.1 t.2.2.2.1 t.2.2.2.2.1 t.2.2.2.2.2 default k := by
  unfold round1K
  have c1 : decide (q4 > c_P34) = true := by
    rw [i32_gt, decide_eq_true_eq, p34I]; omega
  have c2 : decide (q4 ≤ (0x26 : Int32)) = false := by
    rw [i32_le, decide_eq_false_iff_not]; exact not_le.2 (by have : (0x26 : Int32).toInt = 38 := rfl; omega)
  have c3 : decide (q4 ≤ (0x39 : Int32)) = false := by
    rw [i32_le, decide_eq_false_iff_not]; exact not_le.2 h1
  simp only [c1, c2, c3, if_true, Bool.false_eq_true, if_false]
  generalize bid_round256_58_76 q4 (q4 - c_P34) _ false false false false false = X
  cases X with
  | error e => rfl
  | ok t =>
    unfold post1
    simp only [Except.bind]
    rfl

/-! ### `ovfK`, `normalK`: evaluated -/

theorem ovfK_skip (res : U128) (e4 q4 : Int32) (pf save : UInt32) (p_sign : UInt64) (m : RoundingMode)
    (ML MG L G : Bool) (k : Except String Out) (hq : 0 ≤ q4.toInt ∧ q4.toInt ≤ 100)
    (he : -100000 ≤ e4.toInt ∧ e4.toInt ≤ 100000) (h : q4.toInt + e4.toInt ≤ 6145) :
    ovfK res e4 q4 pf save p_sign m ML MG L G k = k := by
  unfold ovfK
  have c1 : decide ((q4 + e4) > (c_P34 + c_EXP_MAX_UNBIASED)) = false := by
    rw [i32_gt, decide_eq_false_iff_not, i32_add_toInt q4 e4 (by omega) (by omega),
      show (c_P34 + c_EXP_MAX_UNBIASED).toInt = 6145 from by decide]
    omega
  simp only [c1, Bool.false_eq_true, if_false]

theorem ovfK_rn (res : U128) (e4 q4 : Int32) (pf save : UInt32) (p_sign : UInt64)
    (ML MG L G : Bool) (k : Except String Out) (hq : 0 ≤ q4.toInt ∧ q4.toInt ≤ 100)
    (he : -100000 ≤ e4.toInt ∧ e4.toInt ≤ 100000) (h : 6145 < q4.toInt + e4.toInt) :
    ovfK res e4 q4 pf save p_sign .NearestEven ML MG L G k =
      .ok (⟨0, p_sign ||| 0x7800000000000000⟩, ML, MG, L, G, (pf ||| 0x28) ||| save) := by
  unfold ovfK
  have c1 : decide ((q4 + e4) > (c_P34 + c_EXP_MAX_UNBIASED)) = true := by
    rw [i32_gt, decide_eq_true_eq, i32_add_toInt q4 e4 (by omega) (by omega),
      show (c_P34 + c_EXP_MAX_UNBIASED).toInt = 6145 from by decide]
    omega
  simp only [c1, if_true]
  rfl

theorem ovfK_dir (res : U128) (e4 q4 : Int32) (pf save : UInt32) (p_sign : UInt64) (m : RoundingMode)
    (hm : m ≠ .NearestEven)
    (ML MG L G : Bool) (k : Except String Out) (hq : 0 ≤ q4.toInt ∧ q4.toInt ≤ 100)
    (he : -100000 ≤ e4.toInt ∧ e4.toInt ≤ 100000) (h : 6145 < q4.toInt + e4.toInt) :
    ovfK res e4 q4 pf save p_sign m ML MG L G k =
      (bid_rounding_correction m L G ML MG e4 ⟨res.w0, res.w1 ||| p_sign⟩ pf).bind fun t =>
        .ok (t.1, ML, MG, L, G, t.2 ||| save) := by
  unfold ovfK
  have c1 : decide ((q4 + e4) > (c_P34 + c_EXP_MAX_UNBIASED)) = true := by
    rw [i32_gt, decide_eq_true_eq, i32_add_toInt q4 e4 (by omega) (by omega),
      show (c_P34 + c_EXP_MAX_UNBIASED).toInt = 6145 from by decide]
    omega
  have c2 : (m == RoundingMode.NearestEven) = false := by cases m <;> first | rfl | exact absurd rfl hm
  simp only [c1, c2, if_true, Bool.false_eq_true, if_false]
  generalize bid_rounding_correction m L G ML MG e4 _ pf = X
  cases X with
  | error e => rfl
  | ok t => rfl

/-- lines 627–646 of the translation: an exact result whose exponent is above the addend's is scaled up towards the
addend's exponent (the preferred exponent), as far as 34 digits allow — literal text -/
def prefK (res_ C3_ : U128) (q4 : Int32) (z_exp p_sign : UInt64) (k : U128 → Except String Out) : Except String Out := do
  let mut res : U128 := res_
  let mut p_exp : UInt64 := default
  let mut C3 : U128 := C3_
  let mut scale : Int32 := default
  let mut ind : Int32 := default
  let mut p34 : Int32 := c_P34
  p_exp := (res.w1 &&& c_MASK_EXP)
  if (decide (z_exp < p_exp)) then
    C3 := { C3 with w1 := (res.w1 &&& c_MASK_COEFF) }
    C3 := { C3 with w0 := res.w0 }
    scale := (p34 - q4)
    ind := (Int32.ofInt (toI ((((p_exp - z_exp)) >>> 0x31))))
    if (decide (ind < scale)) then
      scale := ind
    p_exp := (p_exp - (((UInt64.ofInt (toI scale))) <<< 0x31))
    if (scale == (0 : Int32)) then
      pure ()
    else
      if (decide (q4 ≤ (0x13 : Int32))) then
        res := (← (if (decide (scale ≤ (0x13 : Int32))) then (do pure (← mul_64x64_to_128MACH C3.w0 (← tbl64 Dec.Gen.BID_TEN2K64 (UInt64.ofInt (toI scale))))) else (do pure (← mul_128x64_to_128 C3.w0 (← tbl128 Dec.Gen.BID_TEN2K128 (UInt64.ofInt (toI ((scale - (0x14 : Int32))))))))))
        res := { res with w1 := (res.w1 ||| (p_sign ||| ((p_exp &&& c_MASK_EXP)))) }
      else
        res := (← mul_128x64_to_128 (← tbl64 Dec.Gen.BID_TEN2K64 (UInt64.ofInt (toI scale))) C3)
        res := { res with w1 := (res.w1 ||| (p_sign ||| ((p_exp &&& c_MASK_EXP)))) }
  k res

/-- the end of `normalK`: the flags, then (exact results only) the preferred exponent -/
def normTail (res C3 : U128) (q4 : Int32) (z_exp p_sign : UInt64) (any tiny : Bool) (pf save : UInt32)
    (ML MG L G : Bool) : Except String Out :=
  if ((((if any = true then (if tiny = true then (pf ||| c_StatusFlags_BID_INEXACT_EXCEPTION) ||| c_StatusFlags_BID_UNDERFLOW_EXCEPTION
        else pf ||| c_StatusFlags_BID_INEXACT_EXCEPTION) else pf) &&& c_StatusFlags_BID_INEXACT_EXCEPTION)) == (0 : UInt32)) = true then
    prefK res C3 q4 z_exp p_sign fun r => .ok (r, ML, MG, L, G,
      (if any = true then (if tiny = true then (pf ||| c_StatusFlags_BID_INEXACT_EXCEPTION) ||| c_StatusFlags_BID_UNDERFLOW_EXCEPTION
        else pf ||| c_StatusFlags_BID_INEXACT_EXCEPTION) else pf) ||| save)
  else .ok (res, ML, MG, L, G,
      (if any = true then (if tiny = true then (pf ||| c_StatusFlags_BID_INEXACT_EXCEPTION) ||| c_StatusFlags_BID_UNDERFLOW_EXCEPTION
        else pf ||| c_StatusFlags_BID_INEXACT_EXCEPTION) else pf) ||| save)

theorem normalK_rn (res C3 : U128) (e4 q4 : Int32) (z_exp : UInt64) (pf save : UInt32) (p_sign : UInt64)
    (ML MG L G : Bool) :
    normalK res C3 e4 q4 z_exp pf save p_sign .NearestEven ML MG L G =
      normTail ⟨res.w0, res.w1 ||| (p_sign ||| ((UInt64.ofInt (toI (e4 + (0x1820 : Int32)))) <<< 0x31))⟩ C3 q4 z_exp p_sign
        (((L || G) || ML) || MG) false pf save ML MG L G := by
  unfold normalK normTail prefK
  cases L <;> cases G <;> cases ML <;> cases MG <;> rfl

theorem normalK_dir (m : RoundingMode) (hm : m ≠ .NearestEven) (res C3 : U128) (e4 q4 : Int32) (z_exp : UInt64)
    (pf save : UInt32) (p_sign : UInt64) (ML MG L G : Bool) :
    normalK res C3 e4 q4 z_exp pf save p_sign m ML MG L G =
      (bid_rounding_correction m L G ML MG e4
        ⟨res.w0, res.w1 ||| (p_sign ||| ((UInt64.ofInt (toI (e4 + (0x1820 : Int32)))) <<< 0x31))⟩ pf).bind fun t =>
        normTail t.1 C3 q4 z_exp p_sign (((L || G) || ML) || MG)
          ((e4 == c_EXP_MIN_UNBIASED) && (((decide (((t.1.w1 &&& c_MASK_COEFF)) < (0x314dc6448d93 : UInt64))) ||
            (((((t.1.w1 &&& c_MASK_COEFF)) == (0x314dc6448d93 : UInt64)) && (decide (t.1.w0 < (0x38c15b0a00000000 : UInt64))))))))
          t.2 save ML MG L G := by
  unfold normalK
  have c2 : (m != RoundingMode.NearestEven) = true := by cases m <;> first | rfl | exact absurd rfl hm
  simp only [c2, if_true]
  generalize bid_rounding_correction m L G ML MG e4 _ pf = X
  cases X with
  | error e => rfl
  | ok t =>
    unfold normTail prefK
    simp only [bind, Except.bind]
    generalize ((e4 == c_EXP_MIN_UNBIASED) && (((decide (((t.1.w1 &&& c_MASK_COEFF)) < (0x314dc6448d93 : UInt64))) ||
            (((((t.1.w1 &&& c_MASK_COEFF)) == (0x314dc6448d93 : UInt64)) && (decide (t.1.w0 < (0x38c15b0a00000000 : UInt64)))))))) = T
    cases L <;> cases G <;> cases ML <;> cases MG <;> cases T <;> rfl

/-! ### the normal range, inexact: `normalK` delivers `finish` -/

open Dec.C02GenCorrection (deliver stepC upD downD outF outW) in
theorem normTail_flags (res C3 : U128) (q4 : Int32) (z_exp p_sign : UInt64) (any tiny : Bool) (pf save : UInt32)
    (ML MG L G : Bool) (h : ((tailFlags pf any tiny &&& c_StatusFlags_BID_INEXACT_EXCEPTION) == (0 : UInt32)) = false) :
    normTail res C3 q4 z_exp p_sign any tiny pf save ML MG L G = .ok (res, ML, MG, L, G, tailFlags pf any tiny ||| save) := by
  unfold normTail
  unfold tailFlags at h
  rw [h]
  rfl

/-- the status word of the directed modes in the normal range: `pf` is `0`, or the `0x30` raised by `round1K` when the carry
lifted the result to the least normal number (then the value is tiny, `T`) -/
theorem flags_norm (pf save : UInt32) (uf ov T tiny : Bool) (h1 : uf = true → T = true) (h3 : ov = true → T = false)
    (hpf : (pf = 0 ∧ T = false) ∨ (pf = 0x30 ∧ T = true)) (ht : T = false → tiny = false) :
    ((tailFlags (Dec.C02GenCorrection.outF true uf ov pf) true tiny &&& c_StatusFlags_BID_INEXACT_EXCEPTION) == (0 : UInt32)) = false ∧
    tailFlags (Dec.C02GenCorrection.outF true uf ov pf) true tiny ||| save = save ||| UInt32.ofNat (specF true T ov) := by
  rcases hpf with ⟨rfl, rfl⟩ | ⟨rfl, rfl⟩
  · have := ht rfl
    subst this
    cases uf
    · cases ov
      · exact ⟨by decide, by rw [UInt32.or_comm]; rfl⟩
      · exact ⟨by decide, by rw [UInt32.or_comm]; rfl⟩
    · exact absurd (h1 rfl) (by decide)
  · cases ov
    · cases uf <;> cases tiny <;> exact ⟨by decide, by rw [UInt32.or_comm]; rfl⟩
    · exact absurd (h3 rfl) (by decide)

/-- the word-level "coefficient below `10^33`" test of `normalK` -/
theorem lt33_test (w : U128) :
    ((decide (((w.w1 &&& c_MASK_COEFF)) < (0x314dc6448d93 : UInt64))) ||
      (((((w.w1 &&& c_MASK_COEFF)) == (0x314dc6448d93 : UInt64)) && (decide (w.w0 < (0x38c15b0a00000000 : UInt64))))))
      = decide (sigW w.w1.toNat w.w0.toNat < 10 ^ 33) := by
  have h0 := w.w0.toNat_lt
  have hm : (w.w1 &&& c_MASK_COEFF).toNat = w.w1.toNat % 2 ^ 49 := by
    rw [UInt64.toNat_and, show c_MASK_COEFF.toNat = 2 ^ 49 - 1 from rfl, Nat.and_two_pow_sub_one_eq_mod]
  rw [Bool.eq_iff_iff]
  simp only [Bool.or_eq_true, Bool.and_eq_true, decide_eq_true_eq, beq_iff_eq, UInt64.lt_iff_toNat_lt, ← UInt64.toNat_inj, hm]
  unfold sigW
  rw [show (0x314dc6448d93 : UInt64).toNat = 54210108624275 from rfl,
    show (0x38c15b0a00000000 : UInt64).toNat = 4089650035136921600 from rfl]
  omega

theorem stepC_facts (up dn : Bool) (c : Nat) (e : Int) (hlt : c < P34) :
    (stepC up dn c e).1 < P34 ∧ e - 1 ≤ (stepC up dn c e).2.1 ∧ (stepC up dn c e).2.1 ≤ e + 1 ∧
    ((stepC up dn c e).2.1 = e - 1 → -6176 < e) ∧
    (P33 ≤ c → (stepC up dn c e).2.2 = false → e = -6176 → P33 ≤ (stepC up dn c e).1) := by
  have e34 : P34 = 10 ^ 34 := Dec.C13PackHelpers.P34_eq'
  have e33 : P33 = 10 ^ 33 := Dec.C13PackHelpers.P33_eq'
  unfold stepC
  split_ifs <;> simp only [] <;> refine ⟨by omega, by omega, by omega, by intro; omega, ?_⟩ <;> intro a b d <;>
    first | omega | (exact absurd b (by decide))

/-- **the normal range, inexact result**: from the state described by `PreTail` (bare coefficient in `res`, exponent `e4` in
delivered form, exact position indicators, some indicator set) `normalK` returns the encoding of `finish` and `save` with
its flags; `pf` is `0`, or the `0x30` `round1K` raised when a carry lifted a tiny value to `10^33·10^emin` -/
theorem normalK_inexact (m : RoundingMode) (s : Bool) (N : Nat) (hN : 0 < N) (E : Int) (k cf : Nat) (i : Ind)
    (h : PreTail s N E k cf i) (hany : anyI i = true) (e : Int32) (he : e.toInt = (deliver cf (E + k)).2) (hE : E + k ≤ 10000)
    (hrn : m = .NearestEven → (deliver cf (E + k)).2 ≤ 6111)
    (res : U128) (hres : res.w1.toNat * 2 ^ 64 + res.w0.toNat = (deliver cf (E + k)).1)
    (hc33 : ¬ N < 10 ^ (k + 33) → 10 ^ 33 ≤ (deliver cf (E + k)).1)
    (pf : UInt32) (hpf : (pf = 0 ∧ ¬ N < 10 ^ (k + 33)) ∨ (pf = 0x30 ∧ N < 10 ^ (k + 33)))
    (C3 : U128) (q4 : Int32) (z_exp : UInt64) (save : UInt32) :
    normalK res C3 e q4 z_exp pf save (sgnW s) m i.midLtEven i.midGtEven i.inexLtMid i.inexGtMid =
      .ok (ofBits (encode (finish (modeOf m) s N 1 E E).1), i.midLtEven, i.midGtEven, i.inexLtMid, i.inexGtMid,
           save ||| UInt32.ofNat (finish (modeOf m) s N 1 E E).2) := by
  have hMax : eMax = 6111 := rfl
  have h34 : P34 < 2 ^ 113 := by decide
  obtain ⟨hfin, t1, t2, t3, t4, t5, t6⟩ := tail_math m s N hN E k cf i h _ _ rfl rfl
  generalize hc : (deliver cf (E + k)).1 = c at *
  generalize heI : (deliver cf (E + k)).2 = eI at *
  have hS : (if s = true then 1 else 0) ≤ 1 := by cases s <;> simp
  have hxe := Dec.C02GenCorrection.expField e eI he t2 (by omega)
  have hpk : (⟨res.w0, res.w1 ||| (sgnW s ||| ((UInt64.ofInt (toI (e + (0x1820 : Int32)))) <<< 0x31))⟩ : U128) =
      ofBits ((if s = true then 1 else 0) * 2 ^ 127 + (eI + 6176).toNat * 2 ^ 113 + c) := by
    rw [UInt64.or_comm]
    exact Dec.C17GenNext.pack_bits (sgnW s) _ res.w1 res.w0 (if s = true then 1 else 0) (eI + 6176).toNat c (sgnW_toNat s) hS
      hxe (by omega) hres (by omega)
  obtain ⟨w1, w2⟩ := word_fields (if s = true then 1 else 0) (eI + 6176).toNat c hS (by omega) (by omega)
  have w1' : negW (ofBits ((if s = true then 1 else 0) * 2 ^ 127 + (eI + 6176).toNat * 2 ^ 113 + c)).w1.toNat = s := by
    rw [w1]; cases s <;> simp
  have hanyc : (((i.inexLtMid || i.inexGtMid) || i.midLtEven) || i.midGtEven) = true := by
    rw [← hany]; unfold anyI; rfl
  by_cases hm : m = .NearestEven
  · subst hm
    have hle := hrn rfl
    rw [normalK_rn, hpk, hanyc]
    rw [show upD .NearestEven s i.inexLtMid i.midGtEven = false from rfl,
      show downD .NearestEven s i.inexGtMid i.midLtEven = false from rfl, stepC_none] at hfin
    simp only [] at hfin
    rw [if_neg (by omega), hany] at hfin
    simp only [Bool.true_eq_false, if_false] at hfin
    have hfl : ((tailFlags pf true false &&& c_StatusFlags_BID_INEXACT_EXCEPTION) == (0 : UInt32)) = false ∧
        tailFlags pf true false ||| save =
          save ||| UInt32.ofNat (if N < 10 ^ (k + 33) then fUnderflow ||| fInexact else fInexact) := by
      rcases hpf with ⟨rfl, hT⟩ | ⟨rfl, hT⟩
      · rw [if_neg hT]; exact ⟨by decide, by rw [UInt32.or_comm]; rfl⟩
      · rw [if_pos hT]; exact ⟨by decide, by rw [UInt32.or_comm]; rfl⟩
    rw [normTail_flags _ _ _ _ _ _ _ _ _ _ _ _ _ hfl.1, hfl.2, hfin, encode_fin]
  · rw [normalK_dir m hm, hpk]
    have hev := Dec.C02GenCorrection.correction_eval m i.inexLtMid i.inexGtMid i.midLtEven i.midGtEven e _ pf eI c he t2 (by omega)
      w2 t1 (by rw [w1']; exact fun a b => t4 a b)
    rw [w1', Dec.C02GenCorrection.outW_eq, w1'] at hev
    rw [hev]
    simp only [Except.bind]
    generalize hst : stepC (upD m s i.inexLtMid i.midGtEven) (downD m s i.inexGtMid i.midLtEven) c eI = st at *
    rw [hanyc]
    obtain ⟨sf1, sf2, sf3, sf4, sf5⟩ := stepC_facts (upD m s i.inexLtMid i.midGtEven) (downD m s i.inexGtMid i.midLtEven) c eI t1
    rw [hst] at sf1 sf2 sf3 sf4 sf5
    have ht : decide (N < 10 ^ (k + 33)) = false →
        ((e == c_EXP_MIN_UNBIASED) && (((decide ((((ofBits (encode (if 6111 < st.2.1 then Dec.C02GenCorrection.ovfDatum m s
            else .fin s st.1 st.2.1))).w1 &&& c_MASK_COEFF)) < (0x314dc6448d93 : UInt64))) ||
            ((((((ofBits (encode (if 6111 < st.2.1 then Dec.C02GenCorrection.ovfDatum m s
            else .fin s st.1 st.2.1))).w1 &&& c_MASK_COEFF)) == (0x314dc6448d93 : UInt64)) &&
            (decide ((ofBits (encode (if 6111 < st.2.1 then Dec.C02GenCorrection.ovfDatum m s
            else .fin s st.1 st.2.1))).w0 < (0x38c15b0a00000000 : UInt64)))))))) = false := by
      intro hT
      have hT' : ¬ N < 10 ^ (k + 33) := of_decide_eq_false hT
      have hc' := hc33 hT'
      have huf : st.2.2 = false := by
        cases hu : st.2.2
        · rfl
        · exact absurd (t5 hu).1 hT'
      rw [Bool.and_eq_false_iff]
      by_cases hee : eI = -6176
      · right
        rw [lt33_test, decide_eq_false_iff_not]
        have hno : ¬ 6111 < st.2.1 := by omega
        rw [if_neg hno, encode_fin]
        obtain ⟨_, w2'⟩ := word_fields (if s = true then 1 else 0) (st.2.1 + 6176).toNat st.1 hS (by omega) (by omega)
        rw [w2']
        have := sf5 (by rw [Dec.C13PackHelpers.P33_eq']; exact hc') huf hee
        rw [Dec.C13PackHelpers.P33_eq'] at this
        omega
      · left
        rw [beq_eq_false_iff_ne]
        intro h0
        apply hee
        rw [← he, h0]; rfl
    have hpf' : (pf = 0 ∧ decide (N < 10 ^ (k + 33)) = false) ∨ (pf = 0x30 ∧ decide (N < 10 ^ (k + 33)) = true) := by
      rcases hpf with ⟨a, b⟩ | ⟨a, b⟩
      · exact Or.inl ⟨a, decide_eq_false b⟩
      · exact Or.inr ⟨a, decide_eq_true b⟩
    obtain ⟨hf1, hf2⟩ := flags_norm pf save st.2.2 (decide (6111 < st.2.1)) (decide (N < 10 ^ (k + 33))) _
      (fun hu => by simpa using (t5 hu).1)
      (fun ho => by
        have := t6 (by rw [hMax]; simpa using ho)
        simpa using this) hpf' ht
    rw [normTail_flags _ _ _ _ _ _ _ _ _ _ _ _ _ hf1, hf2, hfin]
    by_cases hov : 6111 < st.2.1
    · rw [if_pos hov, if_pos (by rw [hMax]; exact hov), Dec.C02GenCorrection.ovfDatum_model m s hm]
      simp only [specF, decide_eq_true hov, if_true]
      rfl
    · rw [if_neg hov, if_neg (by rw [hMax]; exact hov), hany]
      simp only [specF, decide_eq_false hov, Bool.false_eq_true, Bool.true_eq_false, if_false]
      by_cases hT : N < 10 ^ (k + 33)
      · rw [decide_eq_true hT, if_pos hT]; rfl
      · rw [decide_eq_false hT, if_neg hT]; rfl

/-- outside the tiny range `tinyK` does nothing -/
theorem tinyK_skip (res : U128) (e4 q4 e3 : Int32) (pf save : UInt32) (p_sign : UInt64) (m : RoundingMode)
    (incr ML MG L G : Bool) (P128 : U128) (k : Except String Out) (hq : 0 ≤ q4.toInt ∧ q4.toInt ≤ 100)
    (he : -100000 ≤ e4.toInt ∧ e4.toInt ≤ 100000) (h : -6142 ≤ q4.toInt + e4.toInt) :
    tinyK res e4 q4 e3 pf save p_sign m incr ML MG L G P128 k = k := by
  unfold tinyK
  have c1 : decide ((q4 + e4) < (c_EXP_MIN_UNBIASED + c_P34)) = false := by
    rw [i32_lt, decide_eq_false_iff_not, i32_add_toInt q4 e4 (by omega) (by omega),
      show (c_EXP_MIN_UNBIASED + c_P34).toInt = -6142 from by decide]
    omega
  simp only [c1, Bool.false_eq_true, if_false]

/-- the rest of the `z = 0` path after `round1K` -/
def restK (C3 : U128) (e3 : Int32) (z_exp : UInt64) (save : UInt32) (p_sign : UInt64) (m : RoundingMode) :
    U128 → Int32 → Int32 → UInt32 → Bool → Bool → Bool → Bool → Bool → U128 → Except String Out :=
  fun res e4 q4 pf incr mle mge ilm igm P128 =>
    ovfK res e4 q4 pf save p_sign m mle mge ilm igm
      (tinyK res e4 q4 e3 pf save p_sign m incr mle mge ilm igm P128
        (normalK res C3 e4 q4 z_exp pf save p_sign m mle mge ilm igm))

theorem z0K_eq (C3 : U128) (C4 : U256) (q4 e3 e4 : Int32) (z_exp p_sign : UInt64) (m : RoundingMode) (f : UInt32)
    (k : Except String Out) (h : C3.w1 = 0 ∧ C3.w0 = 0) :
    z0K C3 C4 q4 e3 e4 z_exp p_sign m f k = round1K C4 q4 e4 0 (restK C3 e3 z_exp f p_sign m) := by
  unfold z0K restK
  rw [h.1, h.2]
  rfl

/-- **the specification of `tinyK` in the tiny range** (proved in C02GenFmaZ0Tiny.lean by its author; statement agreed): the
state after `round1K` — at most 34 digits, untouched; or rounded to 34 digits by a helper (`Spec`) — with
`q4 + e4 < 34 + emin`: the routine returns the encoding of `finish` of the exact product with the preferred exponent
`min (e1 + e2, e3)`, and ORs its flags into `pf`, then `save` -/
def TinySpec : Prop :=
  ∀ (m : RoundingMode) (s : Bool) (N : Nat) (hN : 0 < N) (E e3I : Int) (hE : -1000000 ≤ E) (he3 : -6176 ≤ e3I)
    (he3' : e3I ≤ 6111) (c1 q4n kd : Nat) (incr : Bool) (i0 : Ind)
    (hst : (kd = 0 ∧ c1 = N ∧ q4n = ndigits N ∧ q4n ≤ 34 ∧ incr = false ∧ i0 = ⟨false, false, false, false⟩) ∨
      (∃ x, 1 ≤ x ∧ 10 ^ (x + 33) ≤ N ∧ N < 10 ^ (x + 34) ∧ q4n = 34 ∧ kd = x + (if incr = true then 1 else 0) ∧
        Spec (x + 34) x N c1 incr i0))
    (res : U128) (hres : res.toNat' = c1) (e4 q4 e3 : Int32) (he4 : e4.toInt = E + kd) (hq4 : q4.toInt = q4n)
    (he3w : e3.toInt = e3I) (pf save : UInt32) (P128 : U128) (k : Except String Out)
    (htiny : (q4n : Int) + (E + kd) < -6142),
    ∃ i : Ind,
      tinyK res e4 q4 e3 pf save (sgnW s) m incr i0.midLtEven i0.midGtEven i0.inexLtMid i0.inexGtMid P128 k =
        .ok (ofBits (encode (finish (modeOf m) s N 1 E (if E ≤ e3I then E else e3I)).1),
          i.midLtEven, i.midGtEven, i.inexLtMid, i.inexGtMid,
          (pf ||| UInt32.ofNat (finish (modeOf m) s N 1 E (if E ≤ e3I then E else e3I)).2) ||| save)

/-- overflow range, directed modes and ties-away: `ovfK` delivers `finish` (through the correction routine, which also
produces the overflow pattern and the flags) -/
theorem ovfK_dir_spec (m : RoundingMode) (hm : m ≠ .NearestEven) (s : Bool) (N : Nat) (hN : 0 < N) (E : Int) (k cf : Nat)
    (i : Ind) (h : PreTail s N E k cf i) (hT : ¬ N < 10 ^ (k + 33)) (e : Int32) (he : e.toInt = (deliver cf (E + k)).2)
    (hE : E + k ≤ 20000) (res : U128) (hres : res.w1.toNat * 2 ^ 64 + res.w0.toNat = (deliver cf (E + k)).1)
    (q4 : Int32) (hq : 0 ≤ q4.toInt ∧ q4.toInt ≤ 100) (hov : 6145 < q4.toInt + e.toInt) (save : UInt32)
    (kk : Except String Out) :
    ovfK res e q4 0 save (sgnW s) m i.midLtEven i.midGtEven i.inexLtMid i.inexGtMid kk =
      .ok (ofBits (encode (finish (modeOf m) s N 1 E E).1), i.midLtEven, i.midGtEven, i.inexLtMid, i.inexGtMid,
           save ||| UInt32.ofNat (finish (modeOf m) s N 1 E E).2) := by
  have hMax : eMax = 6111 := rfl
  have h34 : P34 < 2 ^ 113 := by decide
  obtain ⟨hfin, t1, t2, t3, t4, t5, t6⟩ := tail_math m s N hN E k cf i h _ _ rfl rfl
  generalize hc : (deliver cf (E + k)).1 = c at *
  generalize heI : (deliver cf (E + k)).2 = eI at *
  have hS : (if s = true then 1 else 0) ≤ 1 := by cases s <;> simp
  rw [ovfK_dir _ _ _ _ _ _ m hm _ _ _ _ _ hq (by rw [he]; omega) hov]
  have hpk : (⟨res.w0, res.w1 ||| sgnW s⟩ : U128) =
      ofBits ((if s = true then 1 else 0) * 2 ^ 127 + 0 * 2 ^ 113 + c) := by
    rw [UInt64.or_comm, show sgnW s = sgnW s ||| 0 from (UInt64.or_zero).symm]
    exact Dec.C17GenNext.pack_bits (sgnW s) 0 res.w1 res.w0 (if s = true then 1 else 0) 0 c (sgnW_toNat s) hS
      rfl (by decide) hres (by omega)
  rw [hpk]
  obtain ⟨w1, w2⟩ := word_fields (if s = true then 1 else 0) 0 c hS (by decide) (by omega)
  have w1' : negW (ofBits ((if s = true then 1 else 0) * 2 ^ 127 + 0 * 2 ^ 113 + c)).w1.toNat = s := by
    rw [w1]; cases s <;> simp
  have hev := Dec.C02GenCorrection.correction_eval m i.inexLtMid i.inexGtMid i.midLtEven i.midGtEven e _ 0 eI c he t2 (by omega)
    w2 t1 (by rw [w1']; exact fun a b => t4 a b)
  rw [w1', Dec.C02GenCorrection.outW_eq, w1'] at hev
  rw [hev]
  simp only [Except.bind]
  generalize hst : stepC (upD m s i.inexLtMid i.midGtEven) (downD m s i.inexGtMid i.midLtEven) c eI = st at *
  rw [hfin]
  have huf : st.2.2 = false := by
    cases hu : st.2.2
    · rfl
    · exact absurd (t5 hu).1 hT
  rw [huf, show (i.inexLtMid || i.inexGtMid || i.midLtEven || i.midGtEven) = anyI i from rfl]
  by_cases hov' : 6111 < st.2.1
  · rw [if_pos hov', if_pos (by rw [hMax]; exact hov'), Dec.C02GenCorrection.ovfDatum_model m s hm, decide_eq_true hov']
    simp only []
    cases anyI i <;> (rw [UInt32.or_comm]; rfl)
  · rw [if_neg hov', if_neg (by rw [hMax]; exact hov'), decide_eq_false hov', if_neg hT]
    simp only []
    cases anyI i <;> (rw [UInt32.or_comm]; rfl)

/-- exact result in the normal range whose coefficient has 34 digits, or whose exponent is not above the addend's: nothing is
scaled -/
theorem prefK_noscale (s : Bool) (c : Nat) (e E3 : Int) (hc : c < P34) (he : -6176 ≤ e ∧ e ≤ 6111)
    (hE3 : -6176 ≤ E3 ∧ E3 ≤ 6111) (C3 : U128) (q4 : Int32) (z_exp : UInt64) (hze : z_exp.toNat = (E3 + 6176).toNat * 2 ^ 49)
    (h : e ≤ E3 ∨ q4.toInt = 34) (k : U128 → Except String Out) :
    prefK (ofBits (encode (.fin s c e))) C3 q4 z_exp (sgnW s) k = k (ofBits (encode (.fin s c e))) := by
  have h34 : P34 < 2 ^ 113 := by decide
  have hS : (if s = true then 1 else 0) ≤ 1 := by cases s <;> simp
  rw [encode_fin]
  obtain ⟨e0, e1⟩ := ofBits_words ((if s = true then 1 else 0) * 2 ^ 127 + (e + 6176).toNat * 2 ^ 113 + c) (by omega)
  have hpe : ((ofBits ((if s = true then 1 else 0) * 2 ^ 127 + (e + 6176).toNat * 2 ^ 113 + c)).w1 &&& c_MASK_EXP).toNat
      = (e + 6176).toNat * 2 ^ 49 := by
    rw [Dec.C17GenNext.exp_toNat, e1]
    omega
  unfold prefK
  by_cases hz : z_exp < (ofBits ((if s = true then 1 else 0) * 2 ^ 127 + (e + 6176).toNat * 2 ^ 113 + c)).w1 &&& c_MASK_EXP
  · rw [UInt64.lt_iff_toNat_lt, hpe, hze] at hz
    have hq : q4.toInt = 34 := by
      rcases h with h | h
      · omega
      · exact h
    have hq' : q4 = 34 := by rw [← Int32.toInt_inj, hq]; rfl
    subst hq'
    have hz' : decide (z_exp < (ofBits ((if s = true then 1 else 0) * 2 ^ 127 + (e + 6176).toNat * 2 ^ 113 + c)).w1 &&& c_MASK_EXP) = true := by
      rw [decide_eq_true_eq, UInt64.lt_iff_toNat_lt, hpe, hze]; exact hz
    simp only [hz', if_true]
    have hs0 : (c_P34 - (34 : Int32)) = 0 := by decide
    rw [hs0]
    have hsh : ((((ofBits ((if s = true then 1 else 0) * 2 ^ 127 + (e + 6176).toNat * 2 ^ 113 + c)).w1 &&& c_MASK_EXP) - z_exp) >>> 0x31)
        = UInt64.ofNat (e - E3).toNat := by
      rw [← UInt64.toNat_inj, UInt64.toNat_shiftRight, UInt64.toNat_sub_of_le _ _ (by rw [UInt64.le_iff_toNat_le, hpe, hze]; omega),
        hpe, hze, UInt64.toNat_ofNat', show (0x31 : UInt64).toNat % 64 = 49 from rfl, Nat.shiftRight_eq_div_pow]
      omega
    rw [hsh]
    have hind := ofIdx (e - E3).toNat (by omega)
    generalize Int32.ofInt (toI (UInt64.ofNat (e - E3).toNat)) = ind at *
    have hi : decide (ind < (0 : Int32)) = false := by
      rw [i32_lt, decide_eq_false_iff_not, hind]; show ¬ (((e - E3).toNat : Int) < 0); omega
    simp only [hi, Bool.false_eq_true, if_false]
    rfl
  · have hz' : decide (z_exp < (ofBits ((if s = true then 1 else 0) * 2 ^ 127 + (e + 6176).toNat * 2 ^ 113 + c)).w1 &&& c_MASK_EXP) = false := by
      rw [decide_eq_false_iff_not]; exact hz
    simp only [hz', Bool.false_eq_true, if_false]

theorem normTail_exact (res C3 : U128) (q4 : Int32) (z_exp p_sign : UInt64) (tiny : Bool) (save : UInt32) (ML MG L G : Bool) :
    normTail res C3 q4 z_exp p_sign false tiny 0 save ML MG L G =
      prefK res C3 q4 z_exp p_sign (fun r => .ok (r, ML, MG, L, G, save)) := by
  unfold normTail
  simp only [Bool.false_eq_true, if_false]
  rw [if_pos (by decide), UInt32.zero_or]

/-- an exact result in the normal range: packed; the correction does nothing; no flag; then the preferred exponent -/
theorem normalK_exact (m : RoundingMode) (s : Bool) (c : Nat) (e : Int) (hc : c < P34) (he : -6176 ≤ e ∧ e ≤ 6111)
    (ew : Int32) (hew : ew.toInt = e) (res : U128) (hres : res.w1.toNat * 2 ^ 64 + res.w0.toNat = c)
    (C3 : U128) (q4 : Int32) (z_exp : UInt64) (save : UInt32) :
    normalK res C3 ew q4 z_exp 0 save (sgnW s) m false false false false =
      prefK (ofBits (encode (.fin s c e))) C3 q4 z_exp (sgnW s) (fun r => .ok (r, false, false, false, false, save)) := by
  have h34 : P34 < 2 ^ 113 := by decide
  have hS : (if s = true then 1 else 0) ≤ 1 := by cases s <;> simp
  have hxe := Dec.C02GenCorrection.expField ew e hew he.1 (by omega)
  have hpk : (⟨res.w0, res.w1 ||| (sgnW s ||| ((UInt64.ofInt (toI (ew + (0x1820 : Int32)))) <<< 0x31))⟩ : U128) =
      ofBits ((if s = true then 1 else 0) * 2 ^ 127 + (e + 6176).toNat * 2 ^ 113 + c) := by
    rw [UInt64.or_comm]
    exact Dec.C17GenNext.pack_bits (sgnW s) _ res.w1 res.w0 (if s = true then 1 else 0) (e + 6176).toNat c (sgnW_toNat s) hS
      hxe (by omega) hres (by omega)
  have hz : (0 : UInt32) ||| save = save := UInt32.zero_or
  by_cases hm : m = .NearestEven
  · subst hm
    rw [normalK_rn, hpk, ← encode_fin, show (((false || false) || false) || false) = false from rfl, normTail_exact]
  · rw [normalK_dir m hm, hpk]
    obtain ⟨w1, w2⟩ := word_fields (if s = true then 1 else 0) (e + 6176).toNat c hS (by omega) (by omega)
    have w1' : negW (ofBits ((if s = true then 1 else 0) * 2 ^ 127 + (e + 6176).toNat * 2 ^ 113 + c)).w1.toNat = s := by
      rw [w1]; cases s <;> simp
    have hdn : ∀ s' : Bool, downD m s' false false = false := by intro s'; cases m <;> cases s' <;> rfl
    have hev := Dec.C02GenCorrection.correction_eval m false false false false ew
      (ofBits ((if s = true then 1 else 0) * 2 ^ 127 + (e + 6176).toNat * 2 ^ 113 + c)) 0 e c hew he.1 (by omega)
      w2 hc (fun _ hd => absurd hd (by rw [hdn]; decide))
    rw [w1', Dec.C02GenCorrection.outW_eq, w1',
      show upD m s false false = false from by cases m <;> cases s <;> rfl,
      show downD m s false false = false from by cases m <;> cases s <;> rfl, stepC_none] at hev
    simp only [] at hev
    rw [if_neg (show ¬ (6111 < e) by omega), decide_eq_false (show ¬ (6111 < e) by omega)] at hev
    rw [hev, show ∀ (a : U128 × UInt32) (g : U128 × UInt32 → Except String Out), (Except.ok a).bind g = g a from fun _ _ => rfl]
    dsimp only
    rw [show (false || false || false || false) = false from rfl, show outF false false false 0 = 0 from rfl, normTail_exact]

theorem or_save (save x : UInt32) : ((0 : UInt32) ||| x) ||| save = save ||| x := by
  rw [UInt32.zero_or, UInt32.or_comm]

/-- **more than 34 digits**: after the digit-removal helper (`Spec`), the rest of the `z = 0` path delivers `finish` -/
theorem afterRound_spec (TS : TinySpec) (m : RoundingMode) (s : Bool) (N : Nat) (hN : 0 < N) (E : Int)
    (hElo : -13000 ≤ E) (hEhi : E ≤ 13000) (x : Nat) (hx1 : 1 ≤ x) (hx2 : x ≤ 35)
    (hlo : 10 ^ (x + 33) ≤ N) (hhi : N < 10 ^ (x + 34)) (R128 : U128) (incr : Bool) (fl : Ind)
    (sp : Spec (x + 34) x N (Dec.C02GenRound.v128 R128) incr fl)
    (e4 x0 : Int32) (he4 : e4.toInt = E) (hx0 : x0.toInt = x)
    (C3 : U128) (e3 : Int32) (E3 : Int) (he3 : e3.toInt = E3) (hE3 : -6176 ≤ E3 ∧ E3 ≤ 6111) (z_exp : UInt64)
    (hze : z_exp.toNat = (E3 + 6176).toNat * 2 ^ 49) (save : UInt32) (P128 : U128) :
    ∃ i : Ind,
      post1 e4 x0 0 R128 incr fl.midLtEven fl.midGtEven fl.inexLtMid fl.inexGtMid P128 (restK C3 e3 z_exp save (sgnW s) m) =
        .ok (ofBits (encode (finish (modeOf m) s N 1 E (if E ≤ E3 then E else E3)).1),
             i.midLtEven, i.midGtEven, i.inexLtMid, i.inexGtMid,
             save ||| UInt32.ofNat (finish (modeOf m) s N 1 E (if E ≤ E3 then E else E3)).2) := by
  have hS : (if s = true then 1 else 0) ≤ 1 := by cases s <;> simp
  have e34 : P34 = 10 ^ 34 := Dec.C13PackHelpers.P34_eq'
  have e33 : P33 = 10 ^ 33 := Dec.C13PackHelpers.P33_eq'
  have hMax : eMax = 6111 := rfl
  have hMin : eMin = -6176 := rfl
  have hD : 0 < 10 ^ x := Nat.pow_pos (by decide)
  have h33N : 10 ^ 33 ≤ N := le_trans (Nat.pow_le_pow_right (by decide) (by omega)) hlo
  have hpref : finish (modeOf m) s N 1 E (if E ≤ E3 then E else E3) = finish (modeOf m) s N 1 E E :=
    finish_pref_34 (modeOf m) s N E _ h33N (by split <;> omega)
  obtain ⟨cs, hcs⟩ : ∃ cs, Dec.C02GenRound.v128 R128 = cs := ⟨_, rfl⟩
  rw [hcs] at sp
  obtain ⟨k1, k2, k3, k4, k5, k6, k7, k8⟩ := spec_facts s N x cs incr fl sp hx1 hlo hhi (E + x)
  obtain ⟨hw, hw1⟩ := v128_words R128 cs hcs (by rw [e34] at k6; exact lt_trans k6 (by norm_num))
  obtain ⟨e1, he1⟩ : ∃ e1 : Int, e1 = E + x + (if incr = true then 1 else 0) := ⟨_, rfl⟩
  rw [← he1] at k4
  have he1b : E + x ≤ e1 ∧ e1 ≤ E + x + 1 := by rw [he1]; cases incr <;> simp
  have hT : ¬ N < 10 ^ (x + 33) := by omega
  have h1 : (e4 + x0).toInt = E + x := by
    rw [i32_add_toInt e4 x0 (by rw [he4, hx0]; omega) (by rw [he4, hx0]; omega), he4, hx0]
  -- the state handed to the rest: exponent, flags
  obtain ⟨e', pf, hgoal, he', hpf⟩ : ∃ (e' : Int32) (pf : UInt32),
      post1 e4 x0 0 R128 incr fl.midLtEven fl.midGtEven fl.inexLtMid fl.inexGtMid P128 (restK C3 e3 z_exp save (sgnW s) m) =
        restK C3 e3 z_exp save (sgnW s) m R128 e' c_P34 pf incr fl.midLtEven fl.midGtEven fl.inexLtMid fl.inexGtMid P128 ∧
      e'.toInt = e1 ∧ ((pf = 0 ∧ ¬ (incr = true ∧ e1 = -6176)) ∨ (pf = 0x30 ∧ incr = true ∧ e1 = -6176)) := by
    unfold post1
    cases hi : incr
    · rw [hi] at he1
      simp only [Bool.false_eq_true, if_false, Int.add_zero] at he1
      simp only [Bool.false_eq_true, if_false]
      exact ⟨_, _, rfl, by rw [h1, he1], Or.inl ⟨rfl, by simp⟩⟩
    · rw [hi] at he1
      simp only [if_true] at he1
      have h2 : ((e4 + x0) + 1).toInt = e1 := by
        rw [he1]; exact Dec.C02GenCorrection.i32_add1 _ _ h1 (by omega) (by omega)
      have hcond : ((c_P34 + ((e4 + x0) + 1)) == (c_EXP_MIN_UNBIASED + c_P34)) = decide (e1 = -6176) := by
        rw [Bool.eq_iff_iff, beq_iff_eq, decide_eq_true_eq, ← Int32.toInt_inj,
          i32_add_toInt _ _ (by rw [p34I, h2]; omega) (by rw [p34I, h2]; omega), p34I, h2,
          show (c_EXP_MIN_UNBIASED + c_P34).toInt = -6142 from by decide]
        omega
      simp only [if_true]
      rw [hcond]
      by_cases hc : e1 = -6176
      · rw [decide_eq_true hc]
        simp only [if_true]
        exact ⟨_, _, rfl, h2, Or.inr ⟨rfl, trivial, hc⟩⟩
      · rw [decide_eq_false hc]
        simp only [Bool.false_eq_true, if_false]
        exact ⟨_, _, rfl, h2, Or.inl ⟨rfl, by simp [hc]⟩⟩
  rw [hgoal]
  unfold restK
  have hq34 : c_P34.toInt = 34 := p34I
  show ∃ i : Ind, ovfK R128 e' c_P34 pf save (sgnW s) m fl.midLtEven fl.midGtEven fl.inexLtMid fl.inexGtMid
      (tinyK R128 e' c_P34 e3 pf save (sgnW s) m incr fl.midLtEven fl.midGtEven fl.inexLtMid fl.inexGtMid P128
        (normalK R128 C3 e' c_P34 z_exp pf save (sgnW s) m fl.midLtEven fl.midGtEven fl.inexLtMid fl.inexGtMid)) = _
  have hqb : 0 ≤ c_P34.toInt ∧ c_P34.toInt ≤ 100 := by rw [hq34]; omega
  have heb : -100000 ≤ e'.toInt ∧ e'.toInt ≤ 100000 := by rw [he']; omega
  by_cases hov : 6111 < e1
  · have hpf0 : pf = 0 := by
      rcases hpf with ⟨a, _⟩ | ⟨_, _, c⟩
      · exact a
      · omega
    subst hpf0
    rw [hpref]
    have hpt : PreTail s N E x (rne N x) fl :=
      pretail_of_pos s N E x (rne N x) fl k1 k2 (Or.inr (Or.inr ⟨hlo, hhi, by rw [hMin]; omega⟩))
    by_cases hm : m = .NearestEven
    · subst hm
      rw [ovfK_rn _ _ _ _ _ _ _ _ _ _ _ hqb heb (by rw [hq34, he']; omega)]
      have hfin := finish_rounded .rne s N hN E x (rne N x) k1 (Or.inr (Or.inr ⟨hlo, hhi, by omega⟩))
      rw [k4] at hfin
      simp only [] at hfin
      rw [if_pos (by omega)] at hfin
      refine ⟨fl, ?_⟩
      rw [show modeOf .NearestEven = Mode.rne from rfl, hfin]
      simp only []
      rw [show overflowResult Mode.rne s = .inf s from by cases s <;> rfl, inf_word s (sgnW s) (sgnW_toNat s), or_save]
      rfl
    · refine ⟨fl, ?_⟩
      exact ovfK_dir_spec m hm s N hN E x (rne N x) fl hpt hT e' (by rw [k4]; exact he') (by omega) R128
        (by rw [k4]; exact hw) c_P34 hqb (by rw [hq34, he']; omega) save _
  · rw [ovfK_skip _ _ _ _ _ _ _ _ _ _ _ _ hqb heb (by rw [hq34, he']; omega)]
    by_cases hlow : e1 < -6176
    · have hpf0 : pf = 0 := by
        rcases hpf with ⟨a, _⟩ | ⟨_, _, c⟩
        · exact a
        · omega
      subst hpf0
      obtain ⟨kd, hkd⟩ : ∃ kd : Nat, kd = x + (if incr = true then 1 else 0) := ⟨_, rfl⟩
      have hkd' : E + (kd : Int) = e1 := by rw [he1, hkd]; cases incr <;> simp <;> omega
      obtain ⟨i, hi⟩ := TS m s N hN E E3 (by omega) hE3.1 hE3.2 cs 34 kd incr fl
        (Or.inr ⟨x, hx1, hlo, hhi, rfl, hkd, sp⟩) R128 hcs e' c_P34 e3 (by rw [hkd']; exact he') hq34 he3 0 save P128 _
        (by rw [hkd']; push_cast; omega)
      exact ⟨i, by rw [hi, or_save]⟩
    · rw [tinyK_skip _ _ _ _ _ _ _ _ _ _ _ _ _ _ _ hqb heb (by rw [hq34, he']; omega)]
      rw [hpref]
      by_cases hany : anyI fl = true
      · refine ⟨fl, ?_⟩
        by_cases hEx : -6176 ≤ E + x
        · have hpt : PreTail s N E x (rne N x) fl :=
            pretail_of_pos s N E x (rne N x) fl k1 k2 (Or.inr (Or.inr ⟨hlo, hhi, by rw [hMin]; exact hEx⟩))
          have hpf0 : pf = 0 := by
            rcases hpf with ⟨a, _⟩ | ⟨_, b, c⟩
            · exact a
            · rw [b] at he1; simp only [if_true] at he1; omega
          exact normalK_inexact m s N hN E x (rne N x) fl hpt hany e' (by rw [k4]; exact he') (by omega)
            (fun _ => by rw [k4]; simp only []; omega) R128 (by rw [k4]; exact hw) (fun _ => by rw [k4]; exact k5) pf
            (Or.inl ⟨hpf0, hT⟩) C3 c_P34 z_exp save
        · have hinc : incr = true := by
            cases hi : incr
            · rw [hi] at he1; simp at he1; omega
            · rfl
          rw [hinc] at k7 he1
          simp only [if_true] at k7 he1
          have hE : E + x = -6177 := by omega
          have hrn : rne N x = 10 ^ 34 := sp.incr_iff.1 hinc |>.trans (by rw [show x + 34 - x = 34 by omega])
          have hcs33 : cs = 10 ^ 33 := by
            rw [hrn] at k7
            have : cs * 10 ^ (x + 1) = (10 ^ 33) * 10 ^ (x + 1) := by rw [k7, Nat.pow_succ]; ring
            exact Nat.eq_of_mul_eq_mul_right (Nat.pow_pos (by decide)) this
          have hcl := k1.1
          rw [hrn, Nat.mul_assoc] at hcl
          have hp1 : (10 : Nat) ^ (x + 1) = 10 * 10 ^ x := by rw [Nat.pow_succ]; ring
          have hp2 : (10 : Nat) ^ 34 * 10 ^ x = 10 ^ 33 * 10 ^ (x + 1) := by rw [hp1]; ring
          have hp3 : (10 : Nat) ^ (x + 34) = 10 ^ 33 * 10 ^ (x + 1) := by rw [Nat.pow_add, hp1]; ring
          have hhi' : N < 10 ^ (x + 1 + 33) := by rw [show x + 1 + 33 = x + 34 by omega]; exact hhi
          have hpt : PreTail s N E (x + 1) (10 ^ 33) fl := by
            have hfl2 := k2
            rw [hrn, show (10 : Nat) ^ 34 = 10 * 10 ^ 33 from by norm_num] at hfl2
            rw [hp2] at hcl
            obtain ⟨c1, c2, c3, c4⟩ := coarse_view s N (10 ^ 33) (10 ^ x) (10 ^ (x + 1)) fl hD hp1 hfl2 (by rw [← hp3]; exact hhi)
              hcl.2 (by decide)
            exact ⟨c1, c2, c3, c4, Or.inr (Or.inl ⟨by omega, by push_cast; omega, hhi'⟩)⟩
          have hdel : deliver (10 ^ 33) (E + ((x + 1 : Nat) : Int)) = (cs, e1) := by
            unfold deliver
            rw [if_neg (by rw [e34]; norm_num), hcs33, show E + ((x + 1 : Nat) : Int) = e1 from by push_cast; omega]
          have hpf30 : pf = 0x30 := by
            rcases hpf with ⟨_, b⟩ | ⟨a, _, _⟩
            · exact absurd ⟨hinc, by omega⟩ b
            · exact a
          exact normalK_inexact m s N hN E (x + 1) (10 ^ 33) fl hpt hany e' (by rw [hdel]; exact he') (by push_cast; omega)
            (fun _ => by rw [hdel]; simp only []; omega) R128 (by rw [hdel]; exact hw) (fun h => absurd hhi' h) pf
            (Or.inr ⟨hpf30, hhi'⟩) C3 c_P34 z_exp save
      · have hany' : anyI fl = false := by simpa using hany
        have hincr : incr = false := by
          cases hi : incr
          · rfl
          · exfalso
            have hrn : rne N x = 10 ^ 34 := sp.incr_iff.1 hi |>.trans (by rw [show x + 34 - x = 34 by omega])
            have hcl := k1.1
            rw [hrn, Nat.mul_assoc] at hcl
            have hp3 : (10 : Nat) ^ (x + 34) = 10 ^ 34 * 10 ^ x := by rw [Nat.pow_add, Nat.mul_comm]
            rw [hp3] at hhi
            apply hany
            rw [k2, hrn]
            unfold anyI posInd
            simp only [Bool.or_eq_true, decide_eq_true_eq]
            omega
        rw [hincr] at he1 k7
        simp only [Bool.false_eq_true, if_false, Int.add_zero, Nat.add_zero] at he1 k7
        have hcsr : cs = rne N x := Nat.eq_of_mul_eq_mul_right hD k7
        have hpf0 : pf = 0 := by
          rcases hpf with ⟨a, _⟩ | ⟨_, b, _⟩
          · exact a
          · rw [hincr] at b; exact absurd b (by decide)
        subst hpf0
        unfold anyI at hany'
        simp only [Bool.or_eq_false_iff] at hany'
        obtain ⟨⟨⟨hL, hG⟩, hML⟩, hMG⟩ := hany'
        have hpt : PreTail s N E x (rne N x) fl :=
          pretail_of_pos s N E x (rne N x) fl k1 k2 (Or.inr (Or.inr ⟨hlo, hhi, by rw [hMin]; omega⟩))
        obtain ⟨hfin, -⟩ := tail_math m s N hN E x (rne N x) fl hpt _ _ rfl rfl
        rw [k4, hL, hG, hML, hMG, show upD m s false false = false from by cases m <;> cases s <;> rfl,
          show downD m s false false = false from by cases m <;> cases s <;> rfl, stepC_none] at hfin
        simp only [] at hfin
        rw [if_neg (by rw [hMax]; omega), show anyI fl = false from by unfold anyI; rw [hL, hG, hML, hMG]; rfl] at hfin
        simp only [if_true] at hfin
        rw [hL, hG, hML, hMG, normalK_exact m s cs e1 k6 ⟨by omega, by omega⟩ e' he' R128 hw,
          prefK_noscale s cs e1 E3 k6 ⟨by omega, by omega⟩ hE3 C3 c_P34 z_exp hze (Or.inr hq34), hfin]
        exact ⟨⟨false, false, false, false⟩, by
          show _ = Except.ok (_, false, false, false, false, save ||| UInt32.ofNat 0)
          rw [show UInt32.ofNat 0 = 0 from rfl, UInt32.or_zero]⟩

/-- **the `z = 0` path, product of 35 to 68 digits** (given `TinySpec`): `z0K` returns the encoding of `finish` of the exact
product with the preferred exponent `min (e1 + e2, e3)`, some indicators, and the caller's status word with the flags -/
theorem z0K_big (TS : TinySpec) (m : RoundingMode) (s : Bool) (N : Nat) (h34 : 10 ^ 34 ≤ N) (h68 : N < 10 ^ 68) (E : Int)
    (hElo : -13000 ≤ E) (hEhi : E ≤ 13000) (C3 : U128) (hC3 : C3.w1 = 0 ∧ C3.w0 = 0) (C4 : U256) (hC4 : C4.toNat' = N)
    (q4 e3 e4 : Int32) (hq4 : q4.toInt = ndigits N) (he4 : e4.toInt = E) (E3 : Int) (he3 : e3.toInt = E3)
    (hE3 : -6176 ≤ E3 ∧ E3 ≤ 6111) (z_exp : UInt64) (hze : z_exp.toNat = (E3 + 6176).toNat * 2 ^ 49) (f : UInt32)
    (k : Except String Out) :
    ∃ i : Ind,
      z0K C3 C4 q4 e3 e4 z_exp (sgnW s) m f k =
        .ok (ofBits (encode (finish (modeOf m) s N 1 E (if E ≤ E3 then E else E3)).1),
             i.midLtEven, i.midGtEven, i.inexLtMid, i.inexGtMid,
             f ||| UInt32.ofNat (finish (modeOf m) s N 1 E (if E ≤ E3 then E else E3)).2) := by
  have hN : 0 < N := lt_of_lt_of_le (by norm_num) h34
  have e34 : P34 = 10 ^ 34 := Dec.C13PackHelpers.P34_eq'
  rw [z0K_eq _ _ _ _ _ _ _ _ _ _ hC3]
  obtain ⟨nd, hnd⟩ : ∃ nd, ndigits N = nd := ⟨_, rfl⟩
  rw [hnd] at hq4
  have hnd1 : 34 < nd := by rw [← hnd]; exact (lt_ndigits_iff hN).2 h34
  have hnd2 : nd ≤ 68 := by rw [← hnd]; exact (ndigits_le_iff hN).2 h68
  obtain ⟨hlo', hhi'⟩ := (ndigits_eq_iff hN (by omega)).1 hnd
  obtain ⟨x, hx⟩ : ∃ x, nd = x + 34 := ⟨nd - 34, by omega⟩
  subst hx
  have hlo : 10 ^ (x + 33) ≤ N := hlo'
  have hio := i32_eq_ofNat q4 (x + 34) (by rw [hq4])
  have hsub : (q4 - c_P34).toInt = x := by
    rw [Int32.toInt_sub, hq4, p34I, bmod32 _ (by omega) (by omega)]; push_cast; omega
  have hso := i32_eq_ofNat (q4 - c_P34) x hsub
  have h0 := C4.w0.toNat_lt; have h1 := C4.w1.toNat_lt; have h2 := C4.w2.toNat_lt; have h3 := C4.w3.toNat_lt
  unfold U256.toNat' at hC4
  by_cases hb1 : x + 34 ≤ 38
  · rw [round1K_B1 C4 q4 e4 0 _ (by rw [hq4]; omega) (by rw [hq4]; omega), hso, hio]
    have hv : Dec.C02GenRound.v128 ⟨C4.w0, C4.w1⟩ = N := by
      have : N < 10 ^ 38 := lt_of_lt_of_le hhi' (Nat.pow_le_pow_right (by decide) hb1)
      have : (10 : Nat) ^ 38 < 2 ^ 128 := by norm_num
      unfold Dec.C02GenRound.v128
      show C4.w0.toNat + 2 ^ 64 * C4.w1.toNat = N
      omega
    obtain ⟨cs, incr, lt, gt, ilt, igt, hcall, sp⟩ := Dec.C02GenRound.bid_round128_19_38_spec (x + 34) x ⟨C4.w0, C4.w1⟩
      (by omega) hb1 (by omega) (by omega) (by rw [hv]; exact hhi')
    rw [hcall, hv] at *
    simp only [Except.bind]
    exact afterRound_spec TS m s N hN E hElo hEhi x (by omega) (by omega) hlo hhi' cs incr ⟨lt, gt, ilt, igt⟩ sp e4 _ he4
      (by rw [← hso]; exact hsub) C3 e3 E3 he3 hE3 z_exp hze f _
  · by_cases hb2 : x + 34 ≤ 57
    · rw [round1K_B2 C4 q4 e4 0 _ (by rw [hq4]; omega) (by rw [hq4]; omega), hso, hio]
      have hv : Dec.C02GenRound.v192 ⟨C4.w0, C4.w1, C4.w2⟩ = N := by
        have : N < 10 ^ 57 := lt_of_lt_of_le hhi' (Nat.pow_le_pow_right (by decide) hb2)
        have : (10 : Nat) ^ 57 < 2 ^ 192 := by norm_num
        unfold Dec.C02GenRound.v192
        show C4.w0.toNat + 2 ^ 64 * C4.w1.toNat + 2 ^ 128 * C4.w2.toNat = N
        omega
      obtain ⟨cs, incr, lt, gt, ilt, igt, hcall, sp⟩ := Dec.C02GenRound.bid_round192_39_57_spec (x + 34) x ⟨C4.w0, C4.w1, C4.w2⟩
        (by omega) hb2 (by omega) (by omega) (by rw [hv]; exact hhi')
      rw [hcall, hv] at *
      simp only [Except.bind]
      obtain ⟨_, _, _, _, _, k6, _, _⟩ := spec_facts s N x _ incr ⟨lt, gt, ilt, igt⟩ sp (by omega) hlo hhi' 0
      have hv2 : Dec.C02GenRound.v128 ⟨cs.w0, cs.w1⟩ = Dec.C02GenRound.v192 cs := by
        have c0 := cs.w0.toNat_lt; have c1 := cs.w1.toNat_lt
        rw [e34] at k6
        have : (10 : Nat) ^ 34 < 2 ^ 128 := by norm_num
        unfold Dec.C02GenRound.v192 at k6 ⊢
        unfold Dec.C02GenRound.v128
        show cs.w0.toNat + 2 ^ 64 * cs.w1.toNat = _
        omega
      rw [← hv2] at sp
      exact afterRound_spec TS m s N hN E hElo hEhi x (by omega) (by omega) hlo hhi' ⟨cs.w0, cs.w1⟩ incr ⟨lt, gt, ilt, igt⟩ sp
        e4 _ he4 (by rw [← hso]; exact hsub) C3 e3 E3 he3 hE3 z_exp hze f _
    · rw [round1K_B3 C4 q4 e4 0 _ (by rw [hq4]; omega), hso, hio]
      have hv : Dec.C02GenRound.v256 C4 = N := by
        unfold Dec.C02GenRound.v256
        omega
      obtain ⟨cs, incr, lt, gt, ilt, igt, hcall, sp⟩ := Dec.C02GenRound.bid_round256_58_76_spec (x + 34) x C4
        (by omega) (by omega) (by omega) (by omega) (by rw [hv]; exact hhi')
      rw [hcall, hv] at *
      simp only [Except.bind]
      obtain ⟨_, _, _, _, _, k6, _, _⟩ := spec_facts s N x _ incr ⟨lt, gt, ilt, igt⟩ sp (by omega) hlo hhi' 0
      have hv2 : Dec.C02GenRound.v128 ⟨cs.w0, cs.w1⟩ = Dec.C02GenRound.v256 cs := by
        have c0 := cs.w0.toNat_lt; have c1 := cs.w1.toNat_lt
        rw [e34] at k6
        have : (10 : Nat) ^ 34 < 2 ^ 128 := by norm_num
        unfold Dec.C02GenRound.v256 at k6 ⊢
        unfold Dec.C02GenRound.v128
        show cs.w0.toNat + 2 ^ 64 * cs.w1.toNat = _
        omega
      rw [← hv2] at sp
      exact afterRound_spec TS m s N hN E hElo hEhi x (by omega) (by omega) hlo hhi' ⟨cs.w0, cs.w1⟩ incr ⟨lt, gt, ilt, igt⟩ sp
        e4 _ he4 (by rw [← hso]; exact hsub) C3 e3 E3 he3 hE3 z_exp hze f _

/-- `TinySpec` holds: it is `C02GenFmaZ0Tiny.tinyK_spec` (proved by its author), argument for argument -/
theorem tinySpec : TinySpec :=
  fun m s N hN E e3I hE he3 he3' c1 q4n kd incr i0 hst res hres e4 q4 e3 he4 hq4 he3w pf save P128 k htiny =>
    Dec.C02GenFmaZ0Tiny.tinyK_spec m s N hN E e3I hE he3 he3' c1 q4n kd incr i0 hst res hres e4 q4 e3 he4 hq4 he3w htiny
      pf save P128 k

/-- **the `z = 0` path for an exact product of 35 to 68 digits, unconditionally**: `z0K_big` with `TinySpec` discharged -/
theorem z0K_big' (m : RoundingMode) (s : Bool) (N : Nat) (h34 : 10 ^ 34 ≤ N) (h68 : N < 10 ^ 68) (E : Int)
    (hElo : -13000 ≤ E) (hEhi : E ≤ 13000) (C3 : U128) (hC3 : C3.w1 = 0 ∧ C3.w0 = 0) (C4 : U256) (hC4 : C4.toNat' = N)
    (q4 e3 e4 : Int32) (hq4 : q4.toInt = ndigits N) (he4 : e4.toInt = E) (E3 : Int) (he3 : e3.toInt = E3)
    (hE3 : -6176 ≤ E3 ∧ E3 ≤ 6111) (z_exp : UInt64) (hze : z_exp.toNat = (E3 + 6176).toNat * 2 ^ 49) (f : UInt32)
    (k : Except String Out) :
    ∃ i : Ind,
      z0K C3 C4 q4 e3 e4 z_exp (sgnW s) m f k =
        .ok (ofBits (encode (finish (modeOf m) s N 1 E (if E ≤ E3 then E else E3)).1),
             i.midLtEven, i.midGtEven, i.inexLtMid, i.inexGtMid,
             f ||| UInt32.ofNat (finish (modeOf m) s N 1 E (if E ≤ E3 then E else E3)).2) :=
  z0K_big tinySpec m s N h34 h68 E hElo hEhi C3 hC3 C4 hC4 q4 e3 e4 hq4 he4 E3 he3 hE3 z_exp hze f k

-- 10^34 · 1E0 (35 digits, exact) through `z0K_big`'s statement shape: the translated routine itself, nearest-even
example : (z0K ⟨0, 0⟩ ⟨0x378d8e6400000000, 0x1ed09bead87c0, 0, 0⟩ 35 6111 0 0x5ffe000000000000 0 .NearestEven 4
    (.error "unreached")).toOption.map (fun r => (r.1.w0, r.1.w1, r.2.2.2.2.2)) =
    some (0x38c15b0a00000000, 0x3042314dc6448d93, 4) := by decide +kernel

end Dec.C02GenFmaZ0
