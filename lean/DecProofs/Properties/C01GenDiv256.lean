/-
  C01 (generated-code level) — `bid___div_256_by_128` (`DecGen/Code.lean`, from bid_div_macros.rs), the 256-bit ÷ 128-bit
  quotient/remainder routine of `bid128_div`.

  History: defect D-div256 (found here, repaired in /repo, `DecGen/Code.lean` regenerated).  The routine works in up to three
  stages (quotient chunks estimated in `f64`, safety margins 4 / 1 / correction by comparison), like
  `bid___div_128_by_128` (exact: `C10GenRem.div_128_by_128_spec`).  Stage 1 (`Q ≥ 2^100`) inspects all four words of the
  dividend, the stage-2 test only words 0–2.  In the original code, when stage 1 was skipped (quotient below 2^100) the
  dividend could still be ≥ 2^192 (word 3 ≠ 0; up to 2^213 for a 113-bit divisor); if then `(CA4 mod 2^192) ≤ CY·2^51`
  stage 2 was wrongly skipped and the last stage ran with a quotient ≥ 2^64: `lq as u64` saturated, quotient and remainder
  were garbage.  In `bid128_div` that is the arm `CX ≥ CY`: `CA4 = CR·10^ed2`, `ed2 = 31 … 33`, `CR·10^ed2 ≥ 2^192` with a
  small residue mod 2^192 and `CR·10^ed2 / CY < 2^100` (about 2^-28 of the operand pairs of that shape; found by lattice
  reduction on `(CR, CR·10^ed2 mod 2^192)`).  Witness (compiled library before the repair):

      x = 620799669418103807343385901143, y = 6201719592445651392670023222   (both with exponent 0)
      x / y = 100.1012155038907733392591700476821…      (x = 100·y + 627710173538668076383578943, CR·10^31 = 2^192 + ε)
      old library:  100.0000000000000000000000000000001, inexact.

  The repair makes stage 1 unconditional when word 3 of the dividend is non-zero.  The two witnesses below are evaluated in
  the kernel on the repaired translation and are now right.
-/
import DecProofs.Properties.C10GenRem
namespace Dec.C01GenDiv256
open Dec.Rs Dec.Gen.Code

/-- the former defect witness for `bid___div_256_by_128`: dividend `2^196 + …` (word 3 = 16), divisor `2^100 + …`,
accumulated quotient 0; quotient `2^100 − 1`, remainder 1127540377 (words 2, 3 of the dividend are handed back as they
came) -/
theorem div_256_by_128_regression :
    bid___div_256_by_128 ⟨0, 0⟩ ⟨18446727576497159304, 1949672774494584831, 61461, 16⟩ ⟨16498339932689, 4294967296⟩
      = .ok (⟨18446744073709551615, 68719476735⟩, ⟨1127540377, 0, 61461, 16⟩) ∧
    (18446727576497159304 + 2 ^ 64 * 1949672774494584831 + 2 ^ 128 * 61461 + 2 ^ 192 * 16) /
      (16498339932689 + 2 ^ 64 * 4294967296) = 18446744073709551615 + 2 ^ 64 * 68719476735 ∧
    (18446727576497159304 + 2 ^ 64 * 1949672774494584831 + 2 ^ 128 * 61461 + 2 ^ 192 * 16) %
      (16498339932689 + 2 ^ 64 * 4294967296) = 1127540377 := by
  refine ⟨by decide +kernel, by decide +kernel, by decide +kernel⟩

/-- the former defect witness for `bid128_div`: `x = 620799669418103807343385901143`, `y = 6201719592445651392670023222`,
round to nearest even: the repaired code returns what `Dec.divD` says, `100.1012155038907733392591700476821`, inexact -/
theorem div_regression :
    bid128_div ⟨1283078203790850135, 3476778945983640425⟩ ⟨14089154938208861750, 3476778912666218804⟩ .NearestEven 0
      = .ok (⟨321728363209278357, 3459381728751621119⟩, 32) ∧
    decode (3476778945983640425 * 2 ^ 64 + 1283078203790850135) = .fin false 620799669418103807343385901143 0 ∧
    decode (3476778912666218804 * 2 ^ 64 + 14089154938208861750) = .fin false 6201719592445651392670023222 0 ∧
    divD .rne (.fin false 620799669418103807343385901143 0) (.fin false 6201719592445651392670023222 0)
      = (.fin false 1001012155038907733392591700476821 (-31), fInexact) ∧
    encode (.fin false 1001012155038907733392591700476821 (-31)) = 3459381728751621119 * 2 ^ 64 + 321728363209278357 := by
  refine ⟨by decide +kernel, by decide +kernel, by decide +kernel, by decide +kernel, by decide +kernel⟩

open Dec.C10GenRem
open Dec.C11GenLogb (log2_unique log2_mul_pow)

set_option linter.unusedVariables false

/-! ## 1. More about rounding to 53 bits -/

/-- the rounding error is at most half a unit in the last place of the binade of `n` -/
theorem rn53_abs (n : Nat) (hl : 53 ≤ Nat.log2 n) :
    rn53 n ≤ n + 2 ^ (Nat.log2 n - 53) ∧ n ≤ rn53 n + 2 ^ (Nat.log2 n - 53) := by
  unfold rn53
  rw [if_neg (by omega)]
  obtain ⟨sh, hsh⟩ : ∃ sh, Nat.log2 n = sh + 53 := ⟨Nat.log2 n - 53, by omega⟩
  have hs : Nat.log2 n - 52 = sh + 1 := by omega
  have hs2 : Nat.log2 n - 53 = sh := by omega
  unfold rq53
  simp only [hs, hs2, Nat.add_sub_cancel]
  have hdm := Nat.div_add_mod n (2 ^ (sh + 1))
  have hr : n % 2 ^ (sh + 1) < 2 ^ (sh + 1) := Nat.mod_lt _ (Nat.pow_pos (by decide))
  have hp : 2 ^ (sh + 1) = 2 * 2 ^ sh := by rw [Nat.pow_succ]; ring
  rw [hp] at hdm hr ⊢
  generalize n / (2 * 2 ^ sh) = q at *
  generalize n % (2 * 2 ^ sh) = r at *
  generalize 2 ^ sh = h at *
  subst hdm
  split
  · rename_i hup
    have hrh : h ≤ r := by
      simp only [Bool.or_eq_true, Bool.and_eq_true, decide_eq_true_eq, beq_iff_eq] at hup
      rcases hup with h1 | h1 <;> omega
    have : (q + 1) * (2 * h) = 2 * h * q + 2 * h := by ring
    rw [this]; omega
  · rename_i hup
    have hrh : r ≤ h := by
      simp only [Bool.or_eq_true, Bool.and_eq_true, decide_eq_true_eq, beq_iff_eq] at hup
      omega
    have : q * (2 * h) = 2 * h * q := by ring
    rw [this]; omega

/-- numbers with at most 53 significant bits are not changed -/
theorem rn53_repr (m k : Nat) (hm : m ≤ 2 ^ 53) : rn53 (m * 2 ^ k) = m * 2 ^ k := by
  rcases Nat.eq_zero_or_pos m with rfl | hpos
  · rw [Nat.zero_mul]; rfl
  · rw [rn53_scale m k hpos]
    rcases Nat.lt_or_ge m (2 ^ 53) with h | h
    · rw [rn53_small m h]
    · have : m = 2 ^ 53 := by omega
      rw [this]
      have := rn53_scale 1 53 (by norm_num)
      rw [Nat.one_mul, rn53_small 1 (by norm_num), Nat.one_mul] at this
      rw [this]

/-- rounding is idempotent -/
theorem rn53_idem (n : Nat) : rn53 (rn53 n) = rn53 n := by
  by_cases hl : Nat.log2 n ≤ 52
  · have : rn53 n = n := by unfold rn53; rw [if_pos hl]
    rw [this, this]
  · have h1 : rn53 n = rq53 n * 2 ^ (Nat.log2 n - 52) := by unfold rn53; rw [if_neg hl]
    rw [h1]
    exact rn53_repr _ _ (rq_range n (by omega)).2

/-! ## 2. The dividend and the divisor as the floats see them -/

/-- one more word on top: the relative error stays within `1/(2^52 − 1)` (the error of the lower part weighs at most half,
or the top word is at least 2^53 and the lower part is negligible) -/
theorem near_step (top lower Ll W : Nat) (hlow : lower < W) (hN : Near Ll lower) (hrep : rn53 Ll = Ll) :
    Near (rn53 (rn53 top * W + Ll)) (top * W + lower) := by
  obtain ⟨n1, n2⟩ := hN
  have e52 : (2 : Nat) ^ 52 - 1 = 4503599627370495 := by norm_num
  have e52' : (2 : Nat) ^ 52 - 2 = 4503599627370494 := by norm_num
  have e53 : (2 : Nat) ^ 53 - 1 = 9007199254740991 := by norm_num
  unfold Near
  rw [e52] at n1 n2 ⊢
  rw [e52'] at n2 ⊢
  rcases Nat.eq_zero_or_pos top with rfl | htop
  · simp only [rn53_zero, Nat.zero_mul, Nat.zero_add, hrep]
    exact ⟨n1, n2⟩
  have s1 := rn53_le (rn53 top * W + Ll)
  have s2 := rn53_ge (rn53 top * W + Ll)
  rw [e53] at s2
  generalize rn53 (rn53 top * W + Ll) = L at *
  have hPW : W ≤ top * W := Nat.le_mul_of_pos_left _ htop
  rcases Nat.lt_or_ge top (2 ^ 53) with hsm | hbig
  · rw [rn53_small top hsm] at s1 s2
    generalize top * W = P at *
    constructor <;> omega
  · have t1 := Nat.mul_le_mul_right W (rn53_le top)
    have t2 := Nat.mul_le_mul_right W (rn53_ge top)
    rw [e53] at t2
    have t1' : 2 ^ 53 * (rn53 top * W) ≤ (2 ^ 53 + 1) * (top * W) := by
      calc 2 ^ 53 * (rn53 top * W) = 2 ^ 53 * rn53 top * W := by ring
        _ ≤ (2 ^ 53 + 1) * top * W := t1
        _ = _ := by ring
    have t2' : 9007199254740991 * (top * W) ≤ 2 ^ 53 * (rn53 top * W) := by
      calc 9007199254740991 * (top * W) = 9007199254740991 * top * W := by ring
        _ ≤ 2 ^ 53 * rn53 top * W := t2
        _ = _ := by ring
    have hbigW : 2 ^ 53 * W ≤ top * W := Nat.mul_le_mul_right _ hbig
    clear t1 t2
    generalize rn53 top * W = Pr at *
    generalize top * W = P at *
    constructor <;> omega

/-- three words -/
def lval3 (x2 x1 x0 : Nat) : Nat := rn53 (rn53 x2 * 2 ^ 128 + lval x1 x0)
/-- four words -/
def lval4 (x3 x2 x1 x0 : Nat) : Nat := rn53 (rn53 x3 * 2 ^ 192 + lval3 x2 x1 x0)

theorem lval_repr (x1 x0 : Nat) : rn53 (lval x1 x0) = lval x1 x0 := rn53_idem _
theorem lval3_repr (x2 x1 x0 : Nat) : rn53 (lval3 x2 x1 x0) = lval3 x2 x1 x0 := rn53_idem _

theorem near_lval3 (x2 x1 x0 : Nat) (h1 : x1 < 2 ^ 64) (h0 : x0 < 2 ^ 64) :
    Near (lval3 x2 x1 x0) (x2 * 2 ^ 128 + (x1 * 2 ^ 64 + x0)) :=
  near_step x2 _ _ _ (by omega) (near_lval x1 x0) (lval_repr x1 x0)

theorem near_lval4 (x3 x2 x1 x0 : Nat) (h2 : x2 < 2 ^ 64) (h1 : x1 < 2 ^ 64) (h0 : x0 < 2 ^ 64) :
    Near (lval4 x3 x2 x1 x0) (x3 * 2 ^ 192 + (x2 * 2 ^ 128 + (x1 * 2 ^ 64 + x0))) :=
  near_step x3 _ _ _ (by omega) (near_lval3 x2 x1 x0 h1 h0) (lval3_repr x2 x1 x0)

/-- **the divisor is seen within a relative `2^-53`** when its high word is below 2^53 (every coefficient): the rounding
error of the low word and the half-ulp of the sum together are at most `Y / 2^53` -/
theorem near_divisor (y1 y0 : Nat) (h1 : y1 < 2 ^ 53) (h0 : y0 < 2 ^ 64) :
    (2 ^ 53 - 1) * (y1 * 2 ^ 64 + y0) ≤ 2 ^ 53 * lval y1 y0 ∧ 2 ^ 53 * lval y1 y0 ≤ (2 ^ 53 + 1) * (y1 * 2 ^ 64 + y0) := by
  have e53 : (2 : Nat) ^ 53 - 1 = 9007199254740991 := by norm_num
  have b1 := rn53_le y0; have b2 := rn53_ge y0
  rw [e53] at b2 ⊢
  unfold lval
  rw [rn53_small y1 h1]
  rcases Nat.eq_zero_or_pos y1 with rfl | hy1
  · rw [Nat.zero_mul, Nat.zero_add, Nat.zero_add, rn53_idem]
    exact ⟨b2, b1⟩
  have hB := rn53_le_pow y0 64 h0
  generalize rn53 y0 = B at *
  rcases Nat.lt_or_ge B (2 ^ 64) with hBlt | hBge
  · -- no carry out of the low word
    have hS1 : y1 * 2 ^ 64 ≤ y1 * 2 ^ 64 + B := Nat.le_add_right _ _
    have hS2 : y1 * 2 ^ 64 + B < (y1 + 1) * 2 ^ 64 := by omega
    have hS0 : y1 * 2 ^ 64 + B ≠ 0 := by omega
    have hL64 : 64 ≤ Nat.log2 (y1 * 2 ^ 64 + B) := (Nat.le_log2 hS0).2 (by omega)
    obtain ⟨a1, a2⟩ := rn53_abs (y1 * 2 ^ 64 + B) (by omega)
    have hpow : 2 ^ Nat.log2 (y1 * 2 ^ 64 + B) ≤ y1 * 2 ^ 64 := by
      have hle := Nat.log2_self_le hS0
      obtain ⟨d, hd⟩ : ∃ d, Nat.log2 (y1 * 2 ^ 64 + B) = d + 64 := ⟨Nat.log2 (y1 * 2 ^ 64 + B) - 64, by omega⟩
      rw [hd, Nat.pow_add] at hle ⊢
      have : 2 ^ d * 2 ^ 64 < (y1 + 1) * 2 ^ 64 := lt_of_le_of_lt hle hS2
      have := Nat.lt_of_mul_lt_mul_right this
      exact Nat.mul_le_mul_right _ (by omega)
    have hhalf : 2 ^ 53 * 2 ^ (Nat.log2 (y1 * 2 ^ 64 + B) - 53) = 2 ^ Nat.log2 (y1 * 2 ^ 64 + B) := by
      rw [← Nat.pow_add]; congr 1; omega
    generalize 2 ^ (Nat.log2 (y1 * 2 ^ 64 + B) - 53) = hu at *
    generalize 2 ^ Nat.log2 (y1 * 2 ^ 64 + B) = PL at *
    generalize rn53 (y1 * 2 ^ 64 + B) = L at *
    constructor <;> omega
  · have hBe : B = 2 ^ 64 := by omega
    have : y1 * 2 ^ 64 + B = (y1 + 1) * 2 ^ 64 := by rw [hBe]; ring
    rw [this, rn53_repr (y1 + 1) 64 (by omega)]
    constructor <;> omega


/-- **rounding is monotone against representable numbers, from above** -/
theorem rn53_le_repr (n N j : Nat) (hN : N ≤ 2 ^ 53) (h : n ≤ N * 2 ^ j) : rn53 n ≤ N * 2 ^ j := by
  by_cases hl : Nat.log2 n ≤ 52
  · have : rn53 n = n := by unfold rn53; rw [if_pos hl]
    rw [this]; exact h
  · have h1 : rn53 n = rq53 n * 2 ^ (Nat.log2 n - 52) := by unfold rn53; rw [if_neg hl]
    rw [h1]
    obtain ⟨a, b⟩ := q_range n (by omega)
    have hp : 0 < 2 ^ (Nat.log2 n - 52) := Nat.pow_pos (by decide)
    have hdm := Nat.div_add_mod n (2 ^ (Nat.log2 n - 52))
    have hr := Nat.mod_lt n hp
    have hrq : rq53 n = n / 2 ^ (Nat.log2 n - 52) ∨
        (rq53 n = n / 2 ^ (Nat.log2 n - 52) + 1 ∧ 0 < n % 2 ^ (Nat.log2 n - 52)) := by
      unfold rq53
      simp only
      split
      · rename_i hup
        right
        refine ⟨rfl, ?_⟩
        simp only [Bool.or_eq_true, Bool.and_eq_true, decide_eq_true_eq, beq_iff_eq] at hup
        have : 0 < 2 ^ (Nat.log2 n - 52 - 1) := Nat.pow_pos (by decide)
        rcases hup with h' | h' <;> omega
      · left; rfl
    generalize Nat.log2 n - 52 = sh at *
    generalize n / 2 ^ sh = q at *
    generalize n % 2 ^ sh = r at *
    rcases hrq with hq | ⟨hq, hr0⟩
    · rw [hq]
      calc q * 2 ^ sh ≤ 2 ^ sh * q + r := by rw [Nat.mul_comm]; omega
        _ = n := hdm
        _ ≤ _ := h
    · rw [hq]
      -- n = q·2^sh + r with r > 0 lies strictly between two grid points; the bound is on or above the upper one
      by_contra hc
      have hlt : N * 2 ^ j < (q + 1) * 2 ^ sh := Nat.lt_of_not_le hc
      rcases Nat.lt_or_ge N (2 ^ 53) with hN' | hN'
      · have := grid_le N j q sh hN' a hlt
        have : n ≤ q * 2 ^ sh := le_trans h this
        rw [Nat.mul_comm] at this
        omega
      · have hNe : N = 2 ^ 53 := by omega
        rw [hNe] at h hlt
        -- 2^53·2^j = 2^52·2^(j+1): use the grid argument with 2^52
        have e : (2 : Nat) ^ 53 * 2 ^ j = 2 ^ 52 * 2 ^ (j + 1) := by rw [Nat.pow_succ]; ring
        rw [e] at h hlt
        have := grid_le (2 ^ 52) (j + 1) q sh (by norm_num) a hlt
        have : n ≤ q * 2 ^ sh := le_trans h this
        rw [Nat.mul_comm] at this
        omega

/-! ## 3. Division once more, with monotonicity from above -/

/-- where the exponent `k` of a normal number `m · 2^k = L · 2^1074` lies for `0 < L < 2^260` -/
theorem rep_exp_range260 (m k L : Nat) (h1 : 2 ^ 52 ≤ m) (h2 : m < 2 ^ 53) (h : m * 2 ^ k = L * 2 ^ 1074) (hL0 : 0 < L)
    (hL : L < 2 ^ 260) : 1022 ≤ k ∧ k < 1282 := by
  have hpk : 0 < 2 ^ k := Nat.pow_pos (by decide)
  have hpB : 0 < 2 ^ 1074 := Nat.pow_pos (by decide)
  constructor
  · have a : 2 ^ 1074 < 2 ^ (53 + k) := by
      calc 2 ^ 1074 = 1 * 2 ^ 1074 := (Nat.one_mul _).symm
        _ ≤ L * 2 ^ 1074 := Nat.mul_le_mul_right _ hL0
        _ = m * 2 ^ k := h.symm
        _ < 2 ^ 53 * 2 ^ k := Nat.mul_lt_mul_of_pos_right h2 hpk
        _ = 2 ^ (53 + k) := (Nat.pow_add _ _ _).symm
    have := (Nat.pow_lt_pow_iff_right (by decide : 1 < 2)).1 a
    clear a h
    omega
  · obtain ⟨s, hs⟩ : ∃ s, s = 1074 := ⟨_, rfl⟩
    rw [← hs] at h hpB
    have a : 2 ^ (52 + k) < 2 ^ (260 + s) := by
      calc 2 ^ (52 + k) = 2 ^ 52 * 2 ^ k := Nat.pow_add _ _ _
        _ ≤ m * 2 ^ k := Nat.mul_le_mul_right _ h1
        _ = L * 2 ^ s := h
        _ < 2 ^ 260 * 2 ^ s := Nat.mul_lt_mul_of_pos_right hL hpB
        _ = 2 ^ (260 + s) := (Nat.pow_add _ _ _).symm
    have := (Nat.pow_lt_pow_iff_right (by decide : 1 < 2)).1 a
    clear a h
    omega

/-- `fpDiv_spec` of `C10GenRem` with one more conclusion: a representable number `N·2^j ≥ Lx / Ly` bounds the rounded
quotient from above -/
theorem fpDiv_spec2 (a b Lx Ly : Nat) (ha : Rep a (Lx * 2 ^ 1074)) (hb : Rep b (Ly * 2 ^ 1074)) (hLy : 0 < Ly)
    (hx : Lx < 2 ^ 260) (hy : Ly < 2 ^ 130) :
    ∃ c C, fpDiv 52 11 a b = .ok c ∧ Rep c C ∧
      (∀ N j, N < 2 ^ 53 → N * 2 ^ j * Ly ≤ Lx → N * 2 ^ j * 2 ^ 1074 ≤ C) ∧
      C * Ly * 2 ^ 110 ≤ (2 ^ 110 + 2 ^ 57 + 1) * (Lx * 2 ^ 1074) ∧
      (∀ N j, N < 2 ^ 53 → Lx ≤ N * 2 ^ j * Ly → C ≤ N * 2 ^ j * 2 ^ 1074) := by
  have hpB : 0 < 2 ^ 1074 := Nat.pow_pos (by decide)
  have hpB' : (2 : Nat) ^ 1074 ≠ 0 := Nat.pos_iff_ne_zero.1 hpB
  rcases hb with ⟨hz, _⟩ | ⟨m2, k2, g1, g2, gk, rfl, hB⟩
  · exfalso
    rcases Nat.mul_eq_zero.1 hz with h | h
    · exact absurd h (Nat.pos_iff_ne_zero.1 hLy)
    · exact hpB' h
  obtain ⟨r2lo, r2hi⟩ := rep_exp_range m2 k2 Ly g1 g2 hB hLy hy
  have hd2 := decode_normal k2 m2 g1 g2 gk
  have hm2 : m2 ≠ 0 := by omega
  rcases ha with ⟨hz, rfl⟩ | ⟨m1, k1, f1, f2, fk, rfl, hA⟩
  · have hLx : Lx = 0 := by
      rcases Nat.mul_eq_zero.1 hz with h | h
      · exact h
      · exact absurd h hpB'
    subst hLx
    refine ⟨0, 0, ?_, Or.inl ⟨rfl, rfl⟩, ?_, ?_, fun _ _ _ _ => Nat.zero_le _⟩
    · apply fpDiv_of_decode 0 _ 0 m2 0 _ _ decode_zero hd2 hm2
      rw [Nat.zero_mul, Nat.zero_div, Nat.zero_mod]
      exact fpRound_zero _
    · intro N j _ h
      have h0 : N * 2 ^ j * Ly = 0 := Nat.le_zero.1 h
      rcases Nat.mul_eq_zero.1 h0 with h1 | h1
      · rw [h1, Nat.zero_mul]
      · exact absurd h1 (Nat.pos_iff_ne_zero.1 hLy)
    · rw [Nat.zero_mul, Nat.zero_mul, Nat.zero_mul]; exact Nat.zero_le _
  have hLx : 0 < Lx := by
    rcases Nat.eq_zero_or_pos Lx with h | h
    · exfalso
      rw [h, Nat.zero_mul] at hA
      rcases Nat.mul_eq_zero.1 hA with h1 | h1
      · omega
      · exact absurd h1 (Nat.pos_iff_ne_zero.1 (Nat.pow_pos (by decide)))
    · exact h
  obtain ⟨r1lo, r1hi⟩ := rep_exp_range260 m1 k1 Lx f1 f2 hA hLx hx
  have hd1 := decode_normal k1 m1 f1 f2 fk
  obtain ⟨n, hn⟩ : ∃ n, n = m1 * 2 ^ 112 := ⟨_, rfl⟩
  have hn1 : 2 ^ 164 ≤ n := by
    rw [hn]; have := Nat.mul_le_mul_right (2 ^ 112) f1; rw [← Nat.pow_add] at this; exact this
  have hn2 : n < 2 ^ 165 := by
    rw [hn]; have := Nat.mul_lt_mul_of_pos_right f2 (Nat.pow_pos (n := 112) (by decide : 0 < 2))
    rw [← Nat.pow_add] at this; exact this
  have hdiv : n / m2 * m2 + n % m2 = n := Nat.div_add_mod' n m2
  have hρ : n % m2 < m2 := Nat.mod_lt _ (by omega)
  have hM1 : 2 ^ 111 ≤ n / m2 := (Nat.le_div_iff_mul_le (by omega)).2 (by omega)
  have hM2 : n / m2 < 2 ^ 113 := (Nat.div_lt_iff_lt_mul (by omega)).2 (by omega)
  generalize hMdef : n / m2 = M at *
  generalize hρdef : n % m2 = ρ at *
  have hM0 : M ≠ 0 := by omega
  have hlM1 : 111 ≤ Nat.log2 M := (Nat.le_log2 hM0).2 hM1
  have hlM2 : Nat.log2 M < 113 := (Nat.log2_lt hM0).2 hM2
  obtain ⟨e', he⟩ : ∃ e', e' + k2 = k1 + 962 := ⟨k1 + 962 - k2, by omega⟩
  obtain ⟨E, hE⟩ : ∃ E : Int, E = (k1 : Int) - 1074 - ((k2 : Int) - 1074) - 112 := ⟨_, rfl⟩
  have hEe : E + 1074 = (e' : Int) := by omega
  -- the rounding: a pair (M', e'') with the same rounded value
  have key : ∃ c M' e'', fpRound 52 11 M E (ρ != 0) = some c ∧ Rep c (rn53 M' * 2 ^ e'') ∧
      M * 2 ^ e' ≤ M' * 2 ^ e'' ∧ M' * 2 ^ e'' ≤ (M + 1) * 2 ^ e' ∧ 0 < M' ∧ (ρ = 0 → M' * 2 ^ e'' = M * 2 ^ e') := by
    by_cases hst : ρ = 0
    · obtain ⟨c, hc, hrep⟩ := fpRound_rep M E (by omega) (by omega) (by omega) (by omega)
      have : (E + 1074).toNat = e' := by omega
      rw [this] at hrep
      refine ⟨c, M, e', ?_, hrep, le_refl _, Nat.mul_le_mul_right _ (by omega), by omega, fun _ => rfl⟩
      rw [hst]; exact hc
    · have hl2 := log2_double_succ M (by omega)
      obtain ⟨c, hc, hrep⟩ := fpRound_rep (2 * M + 1) (E - 1) (by omega) (by omega) (by omega) (by omega)
      obtain ⟨e2, he2⟩ : ∃ e2, e' = e2 + 1 := ⟨e' - 1, by omega⟩
      have : (E - 1 + 1074).toNat = e2 := by omega
      rw [this] at hrep
      have hp : 2 ^ e' = 2 * 2 ^ e2 := by rw [he2, Nat.pow_succ]; ring
      refine ⟨c, 2 * M + 1, e2, ?_, hrep, ?_, ?_, by omega, fun h => absurd h hst⟩
      · have hb : (ρ != 0) = true := by simp [hst]
        rw [hb, fpRound_sticky M E (by omega)]; exact hc
      · rw [hp]; generalize 2 ^ e2 = P; nlinarith
      · rw [hp]; generalize 2 ^ e2 = P; nlinarith
  obtain ⟨c, M', e'', hc, hrep, P2, P3, hM', P4⟩ := key
  refine ⟨c, rn53 M' * 2 ^ e'', ?_, hrep, ?_, ?_, ?_⟩
  · apply fpDiv_of_decode _ _ m1 m2 c _ _ hd1 hd2 hm2
    rw [← hn, hMdef, hρdef, ← hE]; exact hc
  · intro N j hN h
    obtain ⟨J, hJ⟩ : ∃ J, J = j + 1074 := ⟨_, rfl⟩
    have hpJ : 2 ^ J = 2 ^ j * 2 ^ 1074 := by rw [hJ, Nat.pow_add]
    have h' : N * 2 ^ J * (m2 * 2 ^ k2) ≤ (m1 * 2 ^ k1) * 2 ^ 1074 := by
      rw [hA, hB, hpJ]
      calc N * (2 ^ j * 2 ^ 1074) * (Ly * 2 ^ 1074) = (N * 2 ^ j * Ly) * (2 ^ 1074 * 2 ^ 1074) := by ring
        _ ≤ Lx * (2 ^ 1074 * 2 ^ 1074) := Nat.mul_le_mul_right _ h
        _ = _ := by ring
    have d1 := div_lo m1 m2 k1 k2 e' M ρ N J (by rw [← hn]; exact hdiv) hρ he (by omega) hN h'
    have d2 := rn53_ge_repr (M' * 2 ^ e'') N J hN (le_trans d1 P2)
    rw [rn53_scale M' e'' hM'] at d2
    rw [Nat.mul_assoc, ← hpJ]; exact d2
  · have d3 := div_hi m1 m2 k1 k2 e' e'' M M' ρ (rn53 M') (by rw [← hn]; exact hdiv) hρ he f1 g2 (rn53_le M') P3
    rw [hA, hB] at d3
    apply Nat.le_of_mul_le_mul_right _ hpB
    calc rn53 M' * 2 ^ e'' * Ly * 2 ^ 110 * 2 ^ 1074 = rn53 M' * 2 ^ e'' * (Ly * 2 ^ 1074) * 2 ^ 110 := by ring
      _ ≤ _ := d3
      _ = _ := by ring
  · -- upper monotonicity: a representable bound of the true quotient bounds the rounded quotient
    intro N j hN h
    obtain ⟨J, hJ⟩ : ∃ J, J = j + 1074 := ⟨_, rfl⟩
    have hpJ : 2 ^ J = 2 ^ j * 2 ^ 1074 := by rw [hJ, Nat.pow_add]
    have h' : (m1 * 2 ^ k1) * 2 ^ 1074 ≤ N * 2 ^ J * (m2 * 2 ^ k2) := by
      rw [hA, hB, hpJ]
      calc Lx * 2 ^ 1074 * 2 ^ 1074 = Lx * (2 ^ 1074 * 2 ^ 1074) := by ring
        _ ≤ (N * 2 ^ j * Ly) * (2 ^ 1074 * 2 ^ 1074) := Nat.mul_le_mul_right _ h
        _ = _ := by ring
    rw [scale_split] at h'
    have hk2 : 2 ^ (k1 + 962) = 2 ^ e' * 2 ^ k2 := by rw [← Nat.pow_add, he]
    have hpk : 0 < 2 ^ k2 := Nat.pow_pos (by decide)
    -- (M·m2 + ρ)·2^e' ≤ N·2^J·m2
    have h2 : (M * m2 + ρ) * 2 ^ e' ≤ N * 2 ^ J * m2 := by
      apply Nat.le_of_mul_le_mul_right _ hpk
      calc (M * m2 + ρ) * 2 ^ e' * 2 ^ k2 = (m1 * 2 ^ 112) * 2 ^ (k1 + 962) := by
            rw [hk2, ← hn, ← hdiv]; ring
        _ ≤ _ := h'
        _ = _ := by ring
    have hbound : M' * 2 ^ e'' ≤ N * 2 ^ J := by
      by_cases hst : ρ = 0
      · rw [P4 hst]
        rw [hst, Nat.add_zero] at h2
        have hm2p : 0 < m2 := by omega
        apply Nat.le_of_mul_le_mul_right _ hm2p
        calc M * 2 ^ e' * m2 = M * m2 * 2 ^ e' := by ring
          _ ≤ _ := h2
      · have hlt : M * 2 ^ e' < N * 2 ^ J := by
          have hm2p : 0 < m2 := by omega
          apply Nat.lt_of_mul_lt_mul_right (a := m2)
          have hp' : 0 < 2 ^ e' := Nat.pow_pos (by decide)
          calc M * 2 ^ e' * m2 = M * m2 * 2 ^ e' := by ring
            _ < (M * m2 + ρ) * 2 ^ e' := Nat.mul_lt_mul_of_pos_right (by omega) hp'
            _ ≤ _ := h2
        have hge : (M + 1) * 2 ^ e' ≤ N * 2 ^ J := by
          by_contra hc
          have := grid_le N J M e' hN (by omega) (Nat.lt_of_not_le hc)
          omega
        exact le_trans P3 hge
    have := rn53_le_repr (M' * 2 ^ e'') N J (Nat.le_of_lt hN) hbound
    rw [rn53_scale M' e'' hM'] at this
    rw [Nat.mul_assoc, ← hpJ]; exact this


/-! ## 4. Patterns: products with powers of two, sums -/

theorem rep_zero_iff (b : Nat) : Rep b 0 ↔ b = 0 := by
  constructor
  · rintro (⟨_, h⟩ | ⟨m, k, h1, _, _, _, h5⟩)
    · exact h
    · exfalso
      rcases Nat.mul_eq_zero.1 h5 with h | h
      · omega
      · exact absurd h (Nat.pos_iff_ne_zero.1 (Nat.pow_pos (by decide)))
  · rintro rfl; exact Or.inl ⟨rfl, rfl⟩

/-- multiplying a pattern by the pattern `c` of `2^t` (`t ≤ 200`): exact -/
theorem rep_mul_pow (a Va c t : Nat) (hc : fpDecode 52 11 c = some (2 ^ 52, (t : Int) - 52)) (ht : t ≤ 200)
    (ha : Rep a (Va * 2 ^ 1074)) (hVa : Va < 2 ^ 130) :
    ∃ a', fpMul 52 11 a c = .ok a' ∧ Rep a' (Va * 2 ^ t * 2 ^ 1074) := by
  rcases ha with ⟨hz, rfl⟩ | ⟨m, k, h1, h2, hk, rfl, hv⟩
  · have hVa0 : Va = 0 := by
      rcases Nat.mul_eq_zero.1 hz with h | h
      · exact h
      · exact absurd h (Nat.pos_iff_ne_zero.1 (Nat.pow_pos (by decide)))
    subst hVa0
    refine ⟨0, ?_, by rw [Nat.zero_mul, Nat.zero_mul]; exact Or.inl ⟨rfl, rfl⟩⟩
    apply fpMul_of_decode 0 c 0 (2 ^ 52) 0 _ _ decode_zero hc
    rw [Nat.zero_mul]; exact fpRound_zero _
  · have hVa0 : 0 < Va := by
      rcases Nat.eq_zero_or_pos Va with h | h
      · exfalso
        rw [h, Nat.zero_mul] at hv
        rcases Nat.mul_eq_zero.1 hv with h' | h'
        · omega
        · exact absurd h' (Nat.pos_iff_ne_zero.1 (Nat.pow_pos (by decide)))
      · exact h
    obtain ⟨klo, khi⟩ := rep_exp_range m k Va h1 h2 hv hVa0 hVa
    have hmul := fpMul_pow2 c (t : Int) hc m k h1 h2 hk (by omega) (by omega)
    have e : ((k : Int) + (t : Int)).toNat = k + t := by omega
    rw [e] at hmul
    refine ⟨_, hmul, Or.inr ⟨m, k + t, h1, h2, by omega, rfl, ?_⟩⟩
    rw [Nat.pow_add, ← Nat.mul_assoc, hv]; ring

/-- the sum of two patterns of natural numbers, rounded once -/
theorem rep_add (a b Va Vb : Nat) (ha : Rep a (Va * 2 ^ 1074)) (hb : Rep b (Vb * 2 ^ 1074)) (hV : Va + Vb < 2 ^ 1000) :
    ∃ c, fpAdd 52 11 a b = .ok c ∧ Rep c (rn53 (Va + Vb) * 2 ^ 1074) := by
  have hpB : 0 < 2 ^ 1074 := Nat.pow_pos (by decide)
  rcases Nat.eq_zero_or_pos (Va + Vb) with hz | hpos
  · have ha0 : Va = 0 := by omega
    have hb0 : Vb = 0 := by omega
    subst ha0 hb0
    rw [Nat.zero_mul] at ha hb
    rw [(rep_zero_iff a).1 ha, (rep_zero_iff b).1 hb]
    exact ⟨0, fpAdd_zero, by simp only [Nat.add_zero, rn53_zero, Nat.zero_mul]; exact Or.inl ⟨rfl, rfl⟩⟩
  · obtain ⟨m1, k1, hd1, hv1, _⟩ := rep_decode a _ ha
    obtain ⟨m2, k2, hd2, hv2, _⟩ := rep_decode b _ hb
    have hN : m1 * 2 ^ k1 + m2 * 2 ^ k2 = (Va + Vb) * 2 ^ 1074 := by rw [hv1, hv2]; ring
    have hlog := log2_mul_pow (Va + Vb) 1074 hpos
    rw [← hN] at hlog
    have hlt : Nat.log2 (Va + Vb) < 1000 := (Nat.log2_lt (by omega)).2 hV
    have hadd := fpAdd_eq a b m1 k1 m2 k2 hd1 hd2 (by rw [hN]; exact Nat.mul_pos hpos hpB) (by omega) (by omega)
    rw [hN, fd_scale _ 1074 hpos, Nat.add_sub_cancel] at hadd
    exact ⟨_, hadd, rep_fd _ hV⟩

theorem decode_d128 : fpDecode 52 11 0x47f0000000000000 = some (2 ^ 52, ((128 : Nat) : Int) - 52) := by decide
theorem decode_d192 : fpDecode 52 11 0x4bf0000000000000 = some (2 ^ 52, ((192 : Nat) : Int) - 52) := by decide
theorem decode_t64 : fpDecode 52 11 0x43f0000000000000 = some (2 ^ 52, ((64 : Nat) : Int) - 52) := by decide
theorem d128_eq : F64U.mul ⟨0x43f0000000000000⟩ ⟨0x43f0000000000000⟩ = .ok ⟨0x47f0000000000000⟩ := by decide +kernel
theorem d192_eq : F64U.mul ⟨0x47f0000000000000⟩ ⟨0x43f0000000000000⟩ = .ok ⟨0x4bf0000000000000⟩ := by decide +kernel

/-- `(w as f64) · 2^t` at the level of `F64U` -/
theorem f_word_mul (w d : UInt64) (t : Nat) (hd : fpDecode 52 11 d.toNat = some (2 ^ 52, (t : Int) - 52)) (ht : t ≤ 200) :
    ∃ p, F64U.mul (F64U.ofU64 (UInt64.ofInt (toI w))) ⟨d⟩ = .ok p ∧ Rep p.bits.toNat (rn53 w.toNat * 2 ^ t * 2 ^ 1074) := by
  rw [Dec.C11GenLogb.u64_cast_id]
  have hw : w.toNat < 2 ^ 1000 := lt_trans w.toNat_lt (Nat.pow_lt_pow_right (by decide) (by decide))
  have hr := rep_fd w.toNat hw
  obtain ⟨_, _, _, _, hlt⟩ := rep_decode _ _ hr
  have hb : (F64U.ofU64 w).bits.toNat = fd w.toNat := by
    show (UInt64.ofNat _).toNat = _
    exact ofNat_toNat_lt _ hlt
  have hV : rn53 w.toNat < 2 ^ 130 := lt_of_le_of_lt (rn53_le_pow _ 64 w.toNat_lt) (by norm_num)
  obtain ⟨a', h1, h2⟩ := rep_mul_pow (fd w.toNat) (rn53 w.toNat) d.toNat t hd ht hr hV
  obtain ⟨_, _, _, _, hlt'⟩ := rep_decode _ _ h2
  refine ⟨⟨UInt64.ofNat a'⟩, ?_, ?_⟩
  · unfold F64U.mul; rw [hb, h1]; rfl
  · show Rep (UInt64.ofNat a').toNat _
    rw [ofNat_toNat_lt _ hlt']; exact h2

/-- `w as f64` at the level of `F64U` -/
theorem f_word (w : UInt64) : Rep (F64U.ofU64 (UInt64.ofInt (toI w))).bits.toNat (rn53 w.toNat * 2 ^ 1074) := by
  rw [Dec.C11GenLogb.u64_cast_id]
  have hw : w.toNat < 2 ^ 1000 := lt_trans w.toNat_lt (Nat.pow_lt_pow_right (by decide) (by decide))
  have hr := rep_fd w.toNat hw
  obtain ⟨_, _, _, _, hlt⟩ := rep_decode _ _ hr
  show Rep (UInt64.ofNat _).toNat _
  rw [ofNat_toNat_lt _ hlt]; exact hr

/-- a sum at the level of `F64U` -/
theorem f_add (p q : F64U) (Vp Vq : Nat) (hp : Rep p.bits.toNat (Vp * 2 ^ 1074)) (hq : Rep q.bits.toNat (Vq * 2 ^ 1074))
    (hV : Vp + Vq < 2 ^ 1000) :
    ∃ s, F64U.add p q = .ok s ∧ Rep s.bits.toNat (rn53 (Vp + Vq) * 2 ^ 1074) := by
  obtain ⟨c, h1, h2⟩ := rep_add _ _ Vp Vq hp hq hV
  obtain ⟨_, _, _, _, hlt⟩ := rep_decode _ _ h2
  refine ⟨⟨UInt64.ofNat c⟩, ?_, ?_⟩
  · unfold F64U.add; rw [h1]; rfl
  · show Rep (UInt64.ofNat c).toNat _
    rw [ofNat_toNat_lt _ hlt]; exact h2

/-! ## 5. The dividend chains, the division and the estimates with monotonicity from above -/

theorem lval3_lt (x2 x1 x0 : Nat) (h2 : x2 < 2 ^ 64) (h1 : x1 < 2 ^ 64) (h0 : x0 < 2 ^ 64) : lval3 x2 x1 x0 < 2 ^ 194 := by
  have a := rn53_le_pow x2 64 h2
  have b := lval_lt x1 x0 h1 h0
  have := rn53_le_pow (rn53 x2 * 2 ^ 128 + lval x1 x0) 193 (by omega)
  unfold lval3; omega

theorem lval4_lt (x3 x2 x1 x0 : Nat) (h3 : x3 < 2 ^ 64) (h2 : x2 < 2 ^ 64) (h1 : x1 < 2 ^ 64) (h0 : x0 < 2 ^ 64) :
    lval4 x3 x2 x1 x0 < 2 ^ 258 := by
  have a := rn53_le_pow x3 64 h3
  have b := lval3_lt x2 x1 x0 h2 h1 h0
  have := rn53_le_pow (rn53 x3 * 2 ^ 192 + lval3 x2 x1 x0) 257 (by omega)
  unfold lval4; omega

theorem pow_lt_1000 (k : Nat) (h : k ≤ 999) : (2 : Nat) ^ k < 2 ^ 1000 := Nat.pow_lt_pow_right (by decide) (by omega)

/-- `lx = w2·2^128 + (w1·2^64 + w0)` in `f64` -/
theorem chain3 (w2 w1 w0 : UInt64) :
    ∃ p2 p1 s1 lx, F64U.mul (F64U.ofU64 (UInt64.ofInt (toI w2))) ⟨0x47f0000000000000⟩ = .ok p2 ∧
      F64U.mul (F64U.ofU64 (UInt64.ofInt (toI w1))) ⟨0x43f0000000000000⟩ = .ok p1 ∧
      F64U.add p1 (F64U.ofU64 (UInt64.ofInt (toI w0))) = .ok s1 ∧ F64U.add p2 s1 = .ok lx ∧
      Rep lx.bits.toNat (lval3 w2.toNat w1.toNat w0.toNat * 2 ^ 1074) := by
  obtain ⟨p2, hp2, r2⟩ := f_word_mul w2 0x47f0000000000000 128 decode_d128 (by norm_num)
  obtain ⟨p1, hp1, r1⟩ := f_word_mul w1 0x43f0000000000000 64 decode_t64 (by norm_num)
  have r0 := f_word w0
  have a1 := rn53_le_pow w1.toNat 64 w1.toNat_lt
  have a0 := rn53_le_pow w0.toNat 64 w0.toNat_lt
  have a2 := rn53_le_pow w2.toNat 64 w2.toNat_lt
  have := pow_lt_1000 300 (by norm_num)
  obtain ⟨s1, hs1, rs1⟩ := f_add p1 _ _ _ r1 r0 (by omega)
  have hl := lval_lt w1.toNat w0.toNat w1.toNat_lt w0.toNat_lt
  obtain ⟨lx, hlx, rlx⟩ := f_add p2 s1 _ _ r2 rs1 (by show _ + lval w1.toNat w0.toNat < _; omega)
  exact ⟨p2, p1, s1, lx, hp2, hp1, hs1, hlx, rlx⟩

/-- `lx = w3·2^192 + (w2·2^128 + (w1·2^64 + w0))` in `f64` -/
theorem chain4 (w3 w2 w1 w0 : UInt64) :
    ∃ p3 p2 p1 s1 s2 lx, F64U.mul (F64U.ofU64 (UInt64.ofInt (toI w3))) ⟨0x4bf0000000000000⟩ = .ok p3 ∧
      F64U.mul (F64U.ofU64 (UInt64.ofInt (toI w2))) ⟨0x47f0000000000000⟩ = .ok p2 ∧
      F64U.mul (F64U.ofU64 (UInt64.ofInt (toI w1))) ⟨0x43f0000000000000⟩ = .ok p1 ∧
      F64U.add p1 (F64U.ofU64 (UInt64.ofInt (toI w0))) = .ok s1 ∧ F64U.add p2 s1 = .ok s2 ∧ F64U.add p3 s2 = .ok lx ∧
      Rep lx.bits.toNat (lval4 w3.toNat w2.toNat w1.toNat w0.toNat * 2 ^ 1074) := by
  obtain ⟨p3, hp3, r3⟩ := f_word_mul w3 0x4bf0000000000000 192 decode_d192 (by norm_num)
  obtain ⟨p2, p1, s1, s2, hp2, hp1, hs1, hs2, rs2⟩ := chain3 w2 w1 w0
  have a3 := rn53_le_pow w3.toNat 64 w3.toNat_lt
  have hl := lval3_lt w2.toNat w1.toNat w0.toNat w2.toNat_lt w1.toNat_lt w0.toNat_lt
  have := pow_lt_1000 300 (by norm_num)
  obtain ⟨lx, hlx, rlx⟩ := f_add p3 s2 _ _ r3 rs2 (by omega)
  exact ⟨p3, p2, p1, s1, s2, lx, hp3, hp2, hp1, hs1, hs2, hlx, rlx⟩

/-- the quotient estimate `lq` is good for `Lx / Ly`, including monotonicity from above -/
def EstOK2 (lq : F64U) (Lx Ly : Nat) : Prop :=
  ∃ C, Rep lq.bits.toNat C ∧ (∀ N j, N < 2 ^ 53 → N * 2 ^ j * Ly ≤ Lx → N * 2 ^ j * 2 ^ 1074 ≤ C) ∧
    C * Ly * 2 ^ 110 ≤ (2 ^ 110 + 2 ^ 57 + 1) * (Lx * 2 ^ 1074) ∧
    (∀ N j, N < 2 ^ 53 → Lx ≤ N * 2 ^ j * Ly → C ≤ N * 2 ^ j * 2 ^ 1074)

/-- `F64U.div` -/
theorem f_div2 (lx ly : F64U) (Lx Ly : Nat) (hx : Rep lx.bits.toNat (Lx * 2 ^ 1074)) (hy : Rep ly.bits.toNat (Ly * 2 ^ 1074))
    (hLy : 0 < Ly) (hx' : Lx < 2 ^ 260) (hy' : Ly < 2 ^ 130) :
    ∃ lq, F64U.div lx ly = .ok lq ∧ EstOK2 lq Lx Ly := by
  obtain ⟨c, C, h1, h2, h3, h4, h5⟩ := fpDiv_spec2 _ _ Lx Ly hx hy hLy hx' hy'
  obtain ⟨_, _, _, _, hlt⟩ := rep_decode _ _ h2
  refine ⟨⟨UInt64.ofNat c⟩, ?_, C, ?_, h3, h4, h5⟩
  · unfold F64U.div; rw [h1]; rfl
  · show Rep (UInt64.ofNat c).toNat C
    rw [ofNat_toNat_lt _ hlt]; exact h2

/-- what the float computation guarantees about the truncated estimate `T` of `Lx / (2^kk · Ly)` -/
def TEst2 (T Lx Ly kk : Nat) : Prop :=
  (∀ N, N < 2 ^ 53 → N * (2 ^ kk * Ly) ≤ Lx → N ≤ T) ∧
  T * (2 ^ kk * Ly) * 2 ^ 110 ≤ (2 ^ 110 + 2 ^ 57 + 1) * Lx ∧
  (∀ N j, N < 2 ^ 53 → Lx ≤ N * 2 ^ j * Ly → T * 2 ^ kk ≤ N * 2 ^ j)

/-- estimate without scaling -/
theorem est_plain2 (lq : F64U) (Lx Ly : Nat) (hE : EstOK2 lq Lx Ly) (hLy : 0 < Ly) (hup : Lx < 2 ^ 62 * Ly) :
    ∃ T, F64U.toU64 lq = .ok T ∧ TEst2 T.toNat Lx Ly 0 := by
  obtain ⟨C, h, hlo, hhi, hmono⟩ := hE
  obtain ⟨T, hT, a, b⟩ := est_plain lq C Lx Ly h hLy hlo hhi hup
  have hpB : 0 < 2 ^ 1074 := Nat.pow_pos (by decide)
  refine ⟨T, hT, ?_, ?_, ?_⟩
  · intro N hN hle; rw [Nat.pow_zero, Nat.one_mul] at hle; exact a N hN hle
  · rw [Nat.pow_zero, Nat.one_mul]; exact b
  intro N j hN hle
  rw [Nat.pow_zero, Nat.mul_one]
  have hC := hmono N j hN hle
  by_cases hbig : 2 ^ 64 ≤ N * 2 ^ j
  · exact le_trans (Nat.le_of_lt T.toNat_lt) hbig
  · have hC64 : C < 2 ^ 64 * 2 ^ 1074 := by
      have : N * 2 ^ j * 2 ^ 1074 < 2 ^ 64 * 2 ^ 1074 := Nat.mul_lt_mul_of_pos_right (by omega) hpB
      omega
    obtain ⟨T', hT', hv⟩ := f_trunc lq C h hC64
    rw [hT] at hT'; cases hT'
    rw [hv]
    calc C / 2 ^ 1074 ≤ N * 2 ^ j * 2 ^ 1074 / 2 ^ 1074 := Nat.div_le_div_right hC
      _ = N * 2 ^ j := Nat.mul_div_cancel _ hpB

/-- estimate with scaling by `2^-kk` -/
theorem est_scaled2 (lq : F64U) (Lx Ly kk : Nat) (dk : UInt64)
    (hd : fpDecode 52 11 dk.toNat = some (2 ^ 52, -(kk : Int) - 52)) (hkk : kk ≤ 100) (hkk1 : 1 ≤ kk)
    (hE : EstOK2 lq Lx Ly) (hLy : 0 < Ly) (hlow : 2 ^ kk * Ly ≤ Lx) (hup : Lx < 2 ^ 62 * (2 ^ kk * Ly)) :
    ∃ lq' T, F64U.mul lq ⟨dk⟩ = .ok lq' ∧ F64U.toU64 lq' = .ok T ∧ TEst2 T.toNat Lx Ly kk := by
  obtain ⟨C, h, hlo, hhi, hmono⟩ := hE
  have hpk : 0 < 2 ^ kk := Nat.pow_pos (by decide)
  have hpB : 0 < 2 ^ 1074 := Nat.pow_pos (by decide)
  have hC := hlo 1 kk (by norm_num) (by rw [Nat.one_mul]; exact hlow)
  rw [Nat.one_mul] at hC
  obtain ⟨lq', C', h1, h2, h3⟩ := f_scale lq C kk dk hd h hC hkk hkk1
  have hlo' : ∀ N j, N < 2 ^ 53 → N * 2 ^ j * (2 ^ kk * Ly) ≤ Lx → N * 2 ^ j * 2 ^ 1074 ≤ C' := by
    intro N j hN hle
    have := hlo N (j + kk) hN (by rw [Nat.pow_add]; calc N * (2 ^ j * 2 ^ kk) * Ly = N * 2 ^ j * (2 ^ kk * Ly) := by ring
                                                           _ ≤ Lx := hle)
    rw [← h3, Nat.pow_add] at this
    apply Nat.le_of_mul_le_mul_right _ hpk
    calc N * 2 ^ j * 2 ^ 1074 * 2 ^ kk = N * (2 ^ j * 2 ^ kk) * 2 ^ 1074 := by ring
      _ ≤ _ := this
  have hhi' : C' * (2 ^ kk * Ly) * 2 ^ 110 ≤ (2 ^ 110 + 2 ^ 57 + 1) * (Lx * 2 ^ 1074) := by
    rw [← h3] at hhi
    calc C' * (2 ^ kk * Ly) * 2 ^ 110 = C' * 2 ^ kk * Ly * 2 ^ 110 := by ring
      _ ≤ _ := hhi
  obtain ⟨T, hT, a, b⟩ := est_plain lq' C' Lx (2 ^ kk * Ly) h2 (Nat.mul_pos hpk hLy) hlo' hhi' hup
  refine ⟨lq', T, h1, hT, a, b, ?_⟩
  intro N j hN hle
  have hCb := hmono N j hN hle
  rw [← h3] at hCb
  by_cases hbig : 2 ^ 64 * 2 ^ kk ≤ N * 2 ^ j
  · calc T.toNat * 2 ^ kk ≤ 2 ^ 64 * 2 ^ kk := Nat.mul_le_mul_right _ (Nat.le_of_lt T.toNat_lt)
      _ ≤ _ := hbig
  · have hC64 : C' < 2 ^ 64 * 2 ^ 1074 := by
      by_contra hc
      have h1' : 2 ^ 64 * 2 ^ 1074 * 2 ^ kk ≤ C' * 2 ^ kk := Nat.mul_le_mul_right _ (Nat.le_of_not_lt hc)
      have h2' : N * 2 ^ j * 2 ^ 1074 < 2 ^ 64 * 2 ^ kk * 2 ^ 1074 := Nat.mul_lt_mul_of_pos_right (Nat.lt_of_not_le hbig) hpB
      have e : 2 ^ 64 * 2 ^ 1074 * 2 ^ kk = 2 ^ 64 * 2 ^ kk * 2 ^ 1074 := by ring
      rw [e] at h1'
      exact absurd (lt_of_le_of_lt (le_trans h1' hCb) h2') (lt_irrefl _)
    obtain ⟨T', hT', hv⟩ := f_trunc lq' C' h2 hC64
    rw [hT] at hT'; cases hT'
    have hTle : T.toNat * 2 ^ 1074 ≤ C' := by rw [hv]; exact Nat.div_mul_le_self _ _
    apply Nat.le_of_mul_le_mul_right _ hpB
    have e1 : T.toNat * 2 ^ kk * 2 ^ 1074 = T.toNat * 2 ^ 1074 * 2 ^ kk := by ring
    rw [e1]
    exact le_trans (Nat.mul_le_mul_right _ hTle) hCb


/-! ## 6. The three estimates, on the integers -/

/-- the divisor as the floats see it: within a relative `2^-53` -/
def NearY (Ly Y : Nat) : Prop := (2 ^ 53 - 1) * Y ≤ 2 ^ 53 * Ly ∧ 2 ^ 53 * Ly ≤ (2 ^ 53 + 1) * Y

theorem e52a : (2 : Nat) ^ 52 - 1 = 4503599627370495 := by norm_num
theorem e52b : (2 : Nat) ^ 52 - 2 = 4503599627370494 := by norm_num
theorem e53a : (2 : Nat) ^ 53 - 1 = 9007199254740991 := by norm_num

/-- lower estimate: `n·2^kk·Y ≤ X` gives `T ≥ n − c` as soon as `3·2^52·n ≤ (2^105 − 2^52 − 1)·c` -/
theorem est_lo2 (T Lx Ly X Y kk n c : Nat) (hT : TEst2 T Lx Ly kk) (hX : (2 ^ 52 - 2) * X ≤ (2 ^ 52 - 1) * Lx)
    (hY : 2 ^ 53 * Ly ≤ (2 ^ 53 + 1) * Y) (hn : n * (2 ^ kk * Y) ≤ X)
    (hc : 3 * 2 ^ 52 * n ≤ (2 ^ 105 - 2 ^ 52 - 1) * c) (hcn : c ≤ n) (hn53 : n < 2 ^ 53 + c) : n ≤ T + c := by
  obtain ⟨k, rfl⟩ : ∃ k, n = k + c := ⟨n - c, by omega⟩
  have := hT.1 k (by omega) ?_
  · omega
  rw [e52a] at hX; rw [e52b] at hX
  have hR : 2 ^ 53 * (2 ^ kk * Ly) ≤ (2 ^ 53 + 1) * (2 ^ kk * Y) := by
    calc 2 ^ 53 * (2 ^ kk * Ly) = 2 ^ kk * (2 ^ 53 * Ly) := by ring
      _ ≤ 2 ^ kk * ((2 ^ 53 + 1) * Y) := Nat.mul_le_mul_left _ hY
      _ = _ := by ring
  generalize 2 ^ kk * Ly = R at *
  generalize 2 ^ kk * Y = Q at *
  apply Nat.le_of_mul_le_mul_left _ (by norm_num : 0 < 4503599627370495 * 2 ^ 53)
  have a1 : 4503599627370495 * 2 ^ 53 * (k * R) ≤ 4503599627370495 * (2 ^ 53 + 1) * (k * Q) := by
    calc 4503599627370495 * 2 ^ 53 * (k * R) = 4503599627370495 * k * (2 ^ 53 * R) := by ring
      _ ≤ 4503599627370495 * k * ((2 ^ 53 + 1) * Q) := Nat.mul_le_mul_left _ hR
      _ = _ := by ring
  have a2 : 2 ^ 53 * (4503599627370494 * ((k + c) * Q)) ≤ 2 ^ 53 * (4503599627370494 * X) :=
    Nat.mul_le_mul_left _ (Nat.mul_le_mul_left _ hn)
  have a3 : 2 ^ 53 * (4503599627370494 * X) ≤ 2 ^ 53 * (4503599627370495 * Lx) := Nat.mul_le_mul_left _ hX
  have a4 : 3 * 2 ^ 52 * (k + c) * Q ≤ (2 ^ 105 - 2 ^ 52 - 1) * c * Q := Nat.mul_le_mul_right _ hc
  have e1 : (k + c) * Q = k * Q + c * Q := by ring
  have e2 : 3 * 2 ^ 52 * (k + c) * Q = 3 * 2 ^ 52 * (k * Q) + 3 * 2 ^ 52 * (c * Q) := by ring
  have e3 : (2 ^ 105 - 2 ^ 52 - 1) * c * Q = (2 ^ 105 - 2 ^ 52 - 1) * (c * Q) := by ring
  have e4 : (2 : Nat) ^ 105 - 2 ^ 52 - 1 = 40564819207303336344294875201535 := by norm_num
  rw [e1] at a2; rw [e2, e3, e4] at a4
  have e5 : 4503599627370495 * 2 ^ 53 * Lx = 2 ^ 53 * (4503599627370495 * Lx) := by ring
  rw [e5]
  generalize k * Q = A at *
  generalize c * Q = B at *
  generalize k * R = Z at *
  omega

/-- upper estimate, relative form -/
theorem est_hi2 (T Lx Ly X Y kk : Nat) (hT : TEst2 T Lx Ly kk) (hX : (2 ^ 52 - 1) * Lx ≤ 2 ^ 52 * X)
    (hY : (2 ^ 53 - 1) * Y ≤ 2 ^ 53 * Ly) :
    T * (2 ^ kk * Y) * (4503599627370495 * 9007199254740991 * 2 ^ 110) ≤ (2 ^ 110 + 2 ^ 57 + 1) * 2 ^ 105 * X := by
  have h := hT.2.1
  rw [e52a] at hX; rw [e53a] at hY
  have hR : 9007199254740991 * (2 ^ kk * Y) ≤ 2 ^ 53 * (2 ^ kk * Ly) := by
    calc 9007199254740991 * (2 ^ kk * Y) = 2 ^ kk * (9007199254740991 * Y) := by ring
      _ ≤ 2 ^ kk * (2 ^ 53 * Ly) := Nat.mul_le_mul_left _ hY
      _ = _ := by ring
  generalize 2 ^ kk * Ly = R at *
  generalize 2 ^ kk * Y = Q at *
  calc T * Q * (4503599627370495 * 9007199254740991 * 2 ^ 110)
      = 4503599627370495 * 2 ^ 110 * (T * (9007199254740991 * Q)) := by ring
    _ ≤ 4503599627370495 * 2 ^ 110 * (T * (2 ^ 53 * R)) := Nat.mul_le_mul_left _ (Nat.mul_le_mul_left _ hR)
    _ = 4503599627370495 * 2 ^ 53 * (T * R * 2 ^ 110) := by ring
    _ ≤ 4503599627370495 * 2 ^ 53 * ((2 ^ 110 + 2 ^ 57 + 1) * Lx) := Nat.mul_le_mul_left _ h
    _ = (2 ^ 110 + 2 ^ 57 + 1) * 2 ^ 53 * (4503599627370495 * Lx) := by ring
    _ ≤ (2 ^ 110 + 2 ^ 57 + 1) * 2 ^ 53 * (2 ^ 52 * X) := Nat.mul_le_mul_left _ hX
    _ = _ := by ring

/-- upper estimate by monotonicity: if the floats' ratio is at most the integer `N` times the scale, so is the estimate -/
theorem est_mono2 (T Lx Ly kk N : Nat) (hT : TEst2 T Lx Ly kk) (hN : N < 2 ^ 53) (h : Lx ≤ N * (2 ^ kk * Ly)) : T ≤ N := by
  have := hT.2.2 N kk hN (by calc Lx ≤ N * (2 ^ kk * Ly) := h
                                _ = N * 2 ^ kk * Ly := by ring)
  exact Nat.le_of_mul_le_mul_right this (Nat.pow_pos (by decide))

/-- **stage 1** (`2^60`-chunk, margin 4): needs the quotient below `2^113 − 2^62` -/
theorem stage1_math2 (X Y T Lx Ly : Nat) (hY0 : 0 < Y) (hlow : 2 ^ 19 * (2 ^ 60 * Y) ≤ X)
    (hup : X < (2 ^ 53 - 4) * (2 ^ 60 * Y)) (hN : Near Lx X) (hNy : NearY Ly Y) (hT : TEst2 T Lx Ly 60) :
    4 ≤ T ∧ (T - 4) * (2 ^ 60 * Y) ≤ X ∧ X < (T - 4) * (2 ^ 60 * Y) + 9 * (2 ^ 60 * Y) := by
  obtain ⟨Q, hQ⟩ : ∃ Q, Q = 2 ^ 60 * Y := ⟨_, rfl⟩
  have hQ0 : 0 < Q := by omega
  obtain ⟨b1, b2⟩ := div_bracket X Q hQ0
  have hn1 : 2 ^ 19 ≤ X / Q := by
    rw [Nat.le_div_iff_mul_le hQ0, hQ]; exact hlow
  have hn2 : X / Q < 2 ^ 53 - 4 := by
    rw [Nat.div_lt_iff_lt_mul hQ0, hQ]; exact hup
  have e53 : (2 : Nat) ^ 53 - 4 = 9007199254740988 := by norm_num
  rw [e53] at hn2
  generalize X / Q = n at *
  rw [hQ] at b1 b2
  have lo := est_lo2 T Lx Ly X Y 60 n 4 hT hN.2 hNy.2 b1 (by omega) (by omega) (by omega)
  -- from above, by monotonicity: Lx ≤ (n + 4)·2^60·Ly
  have hi : T ≤ n + 4 := by
    apply est_mono2 T Lx Ly 60 (n + 4) hT (by omega)
    have a := hN.1; have b := hNy.1
    rw [e52a] at a; rw [e53a] at b
    apply Nat.le_of_mul_le_mul_left _ (by norm_num : 0 < 4503599627370495 * 2 ^ 53)
    have hnQ : n * (2 ^ 60 * Y) ≤ 9007199254740987 * (2 ^ 60 * Y) := Nat.mul_le_mul_right _ (by omega)
    have e4 : (n + 1) * (2 ^ 60 * Y) = n * (2 ^ 60 * Y) + 2 ^ 60 * Y := by ring
    have e5 : (n + 4) * (2 ^ 60 * Y) = n * (2 ^ 60 * Y) + 4 * (2 ^ 60 * Y) := by ring
    have s1 : 2 ^ 105 * X ≤ 4503599627370495 * 9007199254740991 * ((n + 4) * (2 ^ 60 * Y)) := by
      rw [e5]; rw [e4] at b2
      clear hT lo hN hNy a b b1 hn1 hn2 hlow hup e4 e5
      generalize n * (2 ^ 60 * Y) = A at hnQ b2 ⊢
      generalize 2 ^ 60 * Y = Q' at hnQ b2 ⊢
      omega
    calc 4503599627370495 * 2 ^ 53 * Lx = 2 ^ 53 * (4503599627370495 * Lx) := by ring
      _ ≤ 2 ^ 53 * (2 ^ 52 * X) := Nat.mul_le_mul_left _ a
      _ = 2 ^ 105 * X := by ring
      _ ≤ 4503599627370495 * 9007199254740991 * ((n + 4) * (2 ^ 60 * Y)) := s1
      _ = 4503599627370495 * (n + 4) * 2 ^ 60 * (9007199254740991 * Y) := by ring
      _ ≤ 4503599627370495 * (n + 4) * 2 ^ 60 * (2 ^ 53 * Ly) := Nat.mul_le_mul_left _ b
      _ = _ := by ring
  rw [← hQ] at b1 b2 ⊢
  have c1 : (n + 1) * Q ≤ (T + 5) * Q := Nat.mul_le_mul_right _ (by omega)
  have c2 : T * Q ≤ (n + 4) * Q := Nat.mul_le_mul_right _ hi
  obtain ⟨k, rfl⟩ : ∃ k, T = k + 4 := ⟨T - 4, by omega⟩
  simp only [Nat.add_sub_cancel]
  have e1 : (k + 4) * Q = k * Q + 4 * Q := by ring
  have e2 : (k + 4 + 5) * Q = k * Q + 9 * Q := by ring
  have e3 : (n + 4) * Q = n * Q + 4 * Q := by ring
  rw [e1, e3] at c2; rw [e2] at c1
  generalize k * Q = W at *
  generalize n * Q = A at *
  refine ⟨by omega, by omega, by omega⟩

/-- **stage 2** (`2^49`-chunk, margin 1), away from the corner `Q → 2^100` -/
theorem stage2_math2 (X Y T Lx Ly : Nat) (hY0 : 0 < Y) (hlow : 2 ^ 51 * Y < X)
    (hup : X < (2 ^ 51 - 1) * (2 ^ 49 * Y)) (hN : Near Lx X) (hNy : NearY Ly Y) (hT : TEst2 T Lx Ly 49) :
    1 ≤ T ∧ (T - 1) * (2 ^ 49 * Y) ≤ X ∧ X < (T - 1) * (2 ^ 49 * Y) + 3 * (2 ^ 49 * Y) := by
  obtain ⟨Q, hQ⟩ : ∃ Q, Q = 2 ^ 49 * Y := ⟨_, rfl⟩
  have hQ0 : 0 < Q := by omega
  obtain ⟨b1, b2⟩ := div_bracket X Q hQ0
  have hn1 : 4 ≤ X / Q := by
    rw [Nat.le_div_iff_mul_le hQ0, hQ]; omega
  have e51 : (2 : Nat) ^ 51 - 1 = 2251799813685247 := by norm_num
  rw [e51] at hup
  have hn2 : X / Q < 2251799813685247 := by
    rw [Nat.div_lt_iff_lt_mul hQ0, hQ]; exact hup
  generalize X / Q = n at *
  rw [hQ] at b1 b2
  have lo := est_lo2 T Lx Ly X Y 49 n 1 hT hN.2 hNy.2 b1 (by omega) (by omega) (by omega)
  have hi := est_hi2 T Lx Ly X Y 49 hT hN.1 hNy.1
  rw [← hQ] at b1 b2 hi hup ⊢
  have c1 : (n + 1) * Q ≤ (T + 2) * Q := Nat.mul_le_mul_right _ (by omega)
  obtain ⟨k, rfl⟩ : ∃ k, T = k + 1 := ⟨T - 1, by omega⟩
  simp only [Nat.add_sub_cancel]
  have e1 : (k + 1) * Q = k * Q + Q := by ring
  have e2 : (k + 1 + 2) * Q = k * Q + 3 * Q := by ring
  rw [e1] at hi; rw [e2] at c1
  generalize k * Q = W at *
  refine ⟨by omega, by omega, by omega⟩

/-- **stage 2 in the corner** `(2^51 − 1)·2^49·Y ≤ X < 2^100·Y`, given that the floats' ratio does not exceed
`2^100 + 2^48` (the residual float-margin fact) -/
theorem stage2_corner (X Y T Lx Ly : Nat) (hY0 : 0 < Y) (hlow : (2 ^ 51 - 1) * (2 ^ 49 * Y) ≤ X)
    (hup : X < 2 ^ 51 * (2 ^ 49 * Y)) (hN : Near Lx X) (hNy : NearY Ly Y) (hT : TEst2 T Lx Ly 49)
    (hcorner : Lx ≤ (2 ^ 52 + 1) * 2 ^ 48 * Ly) :
    1 ≤ T ∧ (T - 1) * (2 ^ 49 * Y) ≤ X ∧ X < (T - 1) * (2 ^ 49 * Y) + 3 * (2 ^ 49 * Y) := by
  obtain ⟨Q, hQ⟩ : ∃ Q, Q = 2 ^ 49 * Y := ⟨_, rfl⟩
  have hQ0 : 0 < Q := by omega
  have e51 : (2 : Nat) ^ 51 - 1 = 2251799813685247 := by norm_num
  rw [e51] at hlow
  have lo := est_lo2 T Lx Ly X Y 49 2251799813685247 1 hT hN.2 hNy.2 hlow (by norm_num) (by norm_num) (by norm_num)
  have hi : T ≤ 2 ^ 51 := by
    have := hT.2.2 (2 ^ 52 + 1) 48 (by norm_num) hcorner
    omega
  rw [← hQ] at hlow hup ⊢
  have c2 : T * Q ≤ 2 ^ 51 * Q := Nat.mul_le_mul_right _ hi
  have c3 : 2251799813685245 * Q ≤ (T - 1 + 1) * Q - Q := by
    have : 2251799813685245 * Q ≤ (T - 1) * Q := Nat.mul_le_mul_right _ (by omega)
    have e : (T - 1 + 1) * Q = (T - 1) * Q + Q := by ring
    omega
  obtain ⟨k, rfl⟩ : ∃ k, T = k + 1 := ⟨T - 1, by omega⟩
  simp only [Nat.add_sub_cancel] at c3 ⊢
  have e1 : (k + 1) * Q = k * Q + Q := by ring
  rw [e1] at c2 c3
  generalize k * Q = W at *
  refine ⟨by omega, by omega, by omega⟩

/-- **final stage** (quotient at most `2^51`) -/
theorem stage3_math2 (X Y T Lx Ly : Nat) (hY0 : 0 < Y) (hup : X ≤ 2 ^ 51 * Y)
    (hN : Near Lx X) (hNy : NearY Ly Y) (hT : TEst2 T Lx Ly 0) :
    X < (T + 2) * Y ∧ T * Y ≤ X + 2 * Y := by
  obtain ⟨b1, b2⟩ := div_bracket X Y hY0
  have hn2 : X / Y ≤ 2 ^ 51 := by
    have : X / Y ≤ 2 ^ 51 * Y / Y := Nat.div_le_div_right hup
    rw [Nat.mul_div_cancel _ hY0] at this; exact this
  generalize X / Y = n at *
  have lo : n ≤ T + 1 := by
    rcases Nat.eq_zero_or_pos n with h0 | h0
    · omega
    · exact est_lo2 T Lx Ly X Y 0 n 1 hT hN.2 hNy.2 (by rw [Nat.pow_zero, Nat.one_mul]; exact b1) (by omega) (by omega)
        (by omega)
  have hi := est_hi2 T Lx Ly X Y 0 hT hN.1 hNy.1
  rw [Nat.pow_zero, Nat.one_mul] at hi
  have c1 : (n + 1) * Y ≤ (T + 2) * Y := Nat.mul_le_mul_right _ (by omega)
  refine ⟨lt_of_lt_of_le b2 c1, ?_⟩
  generalize T * Y = W at *
  omega

/-! ## 7. Word-level facts used by `bid___div_256_by_128` -/

/-- the low three words of a 256-bit value -/
def lo3 (A : U256) : Nat := A.w0.toNat + 2 ^ 64 * A.w1.toNat + 2 ^ 128 * A.w2.toNat

theorem toNat'_lo3 (A : U256) : A.toNat' = lo3 A + 2 ^ 192 * A.w3.toNat := rfl
theorem lo3_lt (A : U256) : lo3 A < 2 ^ 192 := by
  have := A.w0.toNat_lt; have := A.w1.toNat_lt; have := A.w2.toNat_lt
  unfold lo3; omega

theorem shl60_mod (x : Nat) : x * 2 ^ 60 % 2 ^ 64 = 2 ^ 60 * (x % 2 ^ 4) := by omega
theorem shl49_mod (x : Nat) : x * 2 ^ 49 % 2 ^ 64 = 2 ^ 49 * (x % 2 ^ 15) := by omega

/-- a word triple shifted left by 60 (bits shifted out of word 2 are dropped) -/
theorem shl3_60 (p0 p1 p2 : UInt64) :
    (p0 <<< 0x3c).toNat + 2 ^ 64 * (p1 <<< 0x3c ||| p0 >>> 4).toNat + 2 ^ 128 * (p2 <<< 0x3c ||| p1 >>> 4).toNat
      = ((p0.toNat + 2 ^ 64 * p1.toNat + 2 ^ 128 * p2.toNat) * 2 ^ 60) % 2 ^ 192 := by
  have h0 := p0.toNat_lt; have h1 := p1.toNat_lt; have h2 := p2.toNat_lt
  simp only [UInt64.toNat_or, UInt64.toNat_shiftLeft, UInt64.toNat_shiftRight, c60, c4, Nat.shiftLeft_eq,
    Nat.shiftRight_eq_div_pow]
  rw [shl60_mod p1.toNat, shl60_mod p2.toNat, Dec.C13PackHelpers.or_eq_add_of_lt 60 _ _ (by omega),
    Dec.C13PackHelpers.or_eq_add_of_lt 60 _ _ (by omega)]
  omega

/-- a word triple shifted left by 49 -/
theorem shl3_49 (p0 p1 p2 : UInt64) :
    (p0 <<< 0x31).toNat + 2 ^ 64 * (p1 <<< 0x31 ||| p0 >>> 0xf).toNat + 2 ^ 128 * (p2 <<< 0x31 ||| p1 >>> 0xf).toNat
      = ((p0.toNat + 2 ^ 64 * p1.toNat + 2 ^ 128 * p2.toNat) * 2 ^ 49) % 2 ^ 192 := by
  have h0 := p0.toNat_lt; have h1 := p1.toNat_lt; have h2 := p2.toNat_lt
  simp only [UInt64.toNat_or, UInt64.toNat_shiftLeft, UInt64.toNat_shiftRight, c49, c15, Nat.shiftLeft_eq,
    Nat.shiftRight_eq_div_pow]
  rw [shl49_mod p1.toNat, shl49_mod p2.toNat, Dec.C13PackHelpers.or_eq_add_of_lt 49 _ _ (by omega),
    Dec.C13PackHelpers.or_eq_add_of_lt 49 _ _ (by omega)]
  omega

/-- `CY36 = CY · 2^36` as three words (exact: nothing is shifted out) -/
theorem cy36_val (Y : U128) :
    (Y.w0 <<< 0x24).toNat + 2 ^ 64 * (Y.w1 <<< 0x24 ||| Y.w0 >>> 0x1c).toNat + 2 ^ 128 * (Y.w1 >>> 0x1c).toNat
      = Y.toNat' * 2 ^ 36 := by
  have h0 := Y.w0.toNat_lt; have h1 := Y.w1.toNat_lt
  unfold U128.toNat'
  simp only [UInt64.toNat_or, UInt64.toNat_shiftLeft, UInt64.toNat_shiftRight, c36, c28, Nat.shiftLeft_eq,
    Nat.shiftRight_eq_div_pow]
  have e1 : Y.w1.toNat * 2 ^ 36 % 2 ^ 64 = 2 ^ 36 * (Y.w1.toNat % 2 ^ 28) := by omega
  rw [e1, Dec.C13PackHelpers.or_eq_add_of_lt 36 _ _ (by omega)]
  omega

/-- `CY51 = CY · 2^51` as three words -/
theorem cy51_val (Y : U128) :
    (Y.w0 <<< 0x33).toNat + 2 ^ 64 * (Y.w1 <<< 0x33 ||| Y.w0 >>> 0xd).toNat + 2 ^ 128 * (Y.w1 >>> 0xd).toNat
      = Y.toNat' * 2 ^ 51 := by
  have h0 := Y.w0.toNat_lt; have h1 := Y.w1.toNat_lt
  unfold U128.toNat'
  simp only [UInt64.toNat_or, UInt64.toNat_shiftLeft, UInt64.toNat_shiftRight, c51, c13, Nat.shiftLeft_eq,
    Nat.shiftRight_eq_div_pow]
  have e1 : Y.w1.toNat * 2 ^ 51 % 2 ^ 64 = 2 ^ 51 * (Y.w1.toNat % 2 ^ 13) := by omega
  rw [e1, Dec.C13PackHelpers.or_eq_add_of_lt 51 _ _ (by omega)]
  omega

/-- **the (repaired) stage-1 test**: word 3 of the dividend non-zero, or the upper three words at least `CY·2^36` — i.e.
the dividend is at least `2^192` or the quotient at least `2^100` -/
theorem cond1_256 (X : U256) (Y : U128) :
    (X.w3 != 0 || (X.w3 == Y.w1 >>> 0x1c && (decide (X.w2 > Y.w1 <<< 0x24 ||| Y.w0 >>> 0x1c) ||
      (X.w2 == Y.w1 <<< 0x24 ||| Y.w0 >>> 0x1c && decide (X.w1 ≥ Y.w0 <<< 0x24))))) =
      decide (2 ^ 192 ≤ X.toNat' ∨ Y.toNat' * 2 ^ 100 ≤ X.toNat') := by
  have hv := cy36_val Y
  have h0 := X.w0.toNat_lt; have h1 := X.w1.toNat_lt; have h2 := X.w2.toNat_lt
  have g0 := (Y.w0 <<< 0x24).toNat_lt; have g1 := (Y.w1 <<< 0x24 ||| Y.w0 >>> 0x1c).toNat_lt
  have hX : X.toNat' = X.w0.toNat + 2 ^ 64 * X.w1.toNat + 2 ^ 128 * X.w2.toNat + 2 ^ 192 * X.w3.toNat := rfl
  have z : (0 : UInt64).toNat = 0 := rfl
  rw [Bool.eq_iff_iff]
  simp only [Bool.or_eq_true, Bool.and_eq_true, bne_iff_ne, ne_eq, beq_iff_eq, decide_eq_true_eq, gt_iff_lt, ge_iff_le,
    UInt64.lt_iff_toNat_lt, UInt64.le_iff_toNat_le, ← UInt64.toNat_inj, z]
  generalize (Y.w0 <<< 0x24).toNat = a0 at *
  generalize (Y.w1 <<< 0x24 ||| Y.w0 >>> 0x1c).toNat = a1 at *
  generalize (Y.w1 >>> 0x1c).toNat = a2 at *
  have e100 : Y.toNat' * 2 ^ 100 = Y.toNat' * 2 ^ 36 * 2 ^ 64 := by ring
  rw [e100, ← hv, hX]
  constructor
  · rintro (h | ⟨h, h'⟩)
    · left; omega
    · right
      rcases h' with h' | ⟨h', h''⟩ <;> omega
  · intro h
    by_cases hw3 : X.w3.toNat = 0
    · right
      rcases h with h | h
      · omega
      · have ha2 : a2 = 0 := by omega
        refine ⟨by omega, ?_⟩
        by_cases hgt : a1 < X.w2.toNat
        · exact Or.inl hgt
        · exact Or.inr ⟨by omega, by omega⟩
    · exact Or.inl hw3

/-- three-word subtraction with the borrow chain of the code: `(A − C) mod 2^192` -/
theorem sub3 (x0 x1 x2 c0 c1 c2 : UInt64) :
    ∃ t1 t2, sub_borrow_out x0 c0 = .ok t1 ∧ sub_borrow_in_out x1 c1 t1.2 = .ok t2 ∧
      t1.1.toNat + 2 ^ 64 * t2.1.toNat + 2 ^ 128 * (x2 - c2 - t2.2).toNat =
        (x0.toNat + 2 ^ 64 * x1.toNat + 2 ^ 128 * x2.toNat + 2 ^ 192 -
          (c0.toNat + 2 ^ 64 * c1.toNat + 2 ^ 128 * c2.toNat)) % 2 ^ 192 := by
  obtain ⟨t1, h1, v1, b1⟩ := Dec.C01GenArith.gen_sub_borrow_out x0 c0
  obtain ⟨t2, h2, v2, b2⟩ := Dec.C01GenArith.gen_sub_borrow_in_out x1 c1 t1.2 b1
  refine ⟨t1, t2, h1, h2, ?_⟩
  have := x0.toNat_lt; have := x1.toNat_lt; have := x2.toNat_lt
  have := c0.toNat_lt; have := c1.toNat_lt; have := c2.toNat_lt
  have := t1.1.toNat_lt; have := t2.1.toNat_lt
  rw [UInt64.toNat_sub, UInt64.toNat_sub]
  omega

/-- the stage-2 test: the low three words of the dividend exceed `CY·2^51` -/
theorem cond2_256 (A : U256) (Y : U128) :
    (if decide (A.w2 > Y.w1 >>> 0xd) = true then (pure true : Except String Bool)
      else if (A.w2 == Y.w1 >>> 0xd) = true then
        unsigned_compare_gt_256_as_128 A ⟨Y.w0 <<< 0x33, Y.w1 <<< 0x33 ||| Y.w0 >>> 0xd, Y.w1 >>> 0xd, A.w3⟩
      else pure false) = .ok (decide (Y.toNat' * 2 ^ 51 < lo3 A)) := by
  have hv := cy51_val Y
  have h0 := A.w0.toNat_lt; have h1 := A.w1.toNat_lt
  unfold lo3
  rw [← hv]
  obtain ⟨b0, hb0⟩ : ∃ b : UInt64, b = Y.w0 <<< 0x33 := ⟨_, rfl⟩
  obtain ⟨b1, hb1⟩ : ∃ b : UInt64, b = Y.w1 <<< 0x33 ||| Y.w0 >>> 0xd := ⟨_, rfl⟩
  obtain ⟨b2, hb2⟩ : ∃ b : UInt64, b = Y.w1 >>> 0xd := ⟨_, rfl⟩
  rw [← hb0, ← hb1, ← hb2]
  have g0 := b0.toNat_lt; have g1 := b1.toNat_lt
  unfold unsigned_compare_gt_256_as_128
  simp only [pure, Except.pure, gt_iff_lt, UInt64.lt_iff_toNat_lt]
  by_cases hgt : b2.toNat < A.w2.toNat
  · rw [if_pos (by rw [decide_eq_true_eq]; exact hgt)]
    apply congrArg Except.ok; symm; rw [decide_eq_true_eq]; omega
  · rw [if_neg (by rw [decide_eq_true_eq]; exact hgt)]
    by_cases heq : A.w2 = b2
    · rw [if_pos (by rw [beq_iff_eq]; exact heq)]
      have heq' : A.w2.toNat = b2.toNat := by rw [heq]
      apply congrArg Except.ok
      rw [Bool.eq_iff_iff]
      simp only [Bool.or_eq_true, Bool.and_eq_true, decide_eq_true_eq, beq_iff_eq, ← UInt64.toNat_inj]
      omega
    · rw [if_neg (by rw [beq_iff_eq]; exact heq)]
      have hne : A.w2.toNat ≠ b2.toNat := fun h => heq (UInt64.toNat_inj.1 h)
      apply congrArg Except.ok; symm; rw [decide_eq_false_iff_not]; omega

/-- the 192-bit product `Q·CY` of stage 2, from the two 64×64 products and the carry by hand -/
theorem mul3 (q : UInt64) (Y A Ah : U128) (hA : A.toNat' = q.toNat * Y.w0.toNat) (hAh : Ah.toNat' = q.toNat * Y.w1.toNat) :
    A.w0.toNat + 2 ^ 64 * (A.w1 + Ah.w0).toNat +
        2 ^ 128 * (if decide (A.w1 + Ah.w0 < Ah.w0) = true then Ah.w1 + 1 else Ah.w1).toNat
      = q.toNat * Y.toNat' := by
  have h0 := A.w0.toNat_lt; have h1 := A.w1.toNat_lt; have h2 := Ah.w0.toNat_lt; have h3 := Ah.w1.toNat_lt
  have hq := q.toNat_lt; have hy1 := Y.w1.toNat_lt
  unfold U128.toNat' at hA hAh ⊢
  have e : q.toNat * (Y.w0.toNat + 2 ^ 64 * Y.w1.toNat) = q.toNat * Y.w0.toNat + 2 ^ 64 * (q.toNat * Y.w1.toNat) := by ring
  rw [e, ← hA, ← hAh]
  -- the high word of `q·y1` is at most 2^64 − 2, so the carry fits
  have hhi : Ah.w1.toNat ≤ 2 ^ 64 - 2 := by
    have : q.toNat * Y.w1.toNat ≤ (2 ^ 64 - 1) * (2 ^ 64 - 1) := Nat.mul_le_mul (by omega) (by omega)
    omega
  have hc : (A.w1 + Ah.w0 < Ah.w0) ↔ 2 ^ 64 ≤ A.w1.toNat + Ah.w0.toNat := by
    rw [UInt64.lt_iff_toNat_lt, UInt64.toNat_add]; omega
  by_cases h : 2 ^ 64 ≤ A.w1.toNat + Ah.w0.toNat
  · rw [if_pos (by rw [decide_eq_true_eq]; exact hc.2 h)]
    have h1' : (1 : UInt64).toNat = 1 := rfl
    rw [UInt64.toNat_add, UInt64.toNat_add, h1']; omega
  · rw [if_neg (by rw [decide_eq_true_eq]; exact fun h' => h (hc.1 h'))]
    rw [UInt64.toNat_add]; omega


/-! ## 8. The last stage with 256-bit containers -/

/-- the common end: add the last quotient chunk, return -/
theorem leaf_close256 (CQ : U128) (Qf : UInt64) (R : U128) (x2 x3 : UInt64) (Q0 X0 Yv Xc q' : Nat) (hY : 0 < Yv)
    (h0 : CQ.toNat' = Q0 + q') (h1 : q' * Yv + Xc = X0) (hX0 : Q0 + X0 / Yv < 2 ^ 128) (h2 : Xc = Qf.toNat * Yv + R.toNat')
    (h3 : R.toNat' < Yv) :
    ∃ Qr R', (do let r ← add_128_64 CQ Qf; pure (({ w0 := r.w0, w1 := r.w1 } : U128),
        ({ w0 := R.w0, w1 := R.w1, w2 := x2, w3 := x3 } : U256))) = Except.ok (Qr, R') ∧
      Qr.toNat' = Q0 + X0 / Yv ∧ R'.w0.toNat + 2 ^ 64 * R'.w1.toNat = X0 % Yv ∧ R'.w2 = x2 ∧ R'.w3 = x3 := by
  obtain ⟨r, hr, hv⟩ := Dec.C01GenArith.gen_add_128_64 CQ Qf
  have hdm : X0 / Yv = q' + Qf.toNat ∧ X0 % Yv = R.toNat' := by
    rw [Nat.div_mod_unique hY]
    refine ⟨?_, h3⟩
    rw [← h1, h2]; ring
  have hq : CQ.toNat' + Qf.toNat < 2 ^ 128 := by
    rw [h0]; rw [hdm.1] at hX0; omega
  refine ⟨r, ({ w0 := R.w0, w1 := R.w1, w2 := x2, w3 := x3 } : U256), ?_, ?_, hdm.2.symm, rfl, rfl⟩
  · rw [hr]; rfl
  · rw [hv, Nat.mod_eq_of_lt hq, hdm.1, h0]; omega

/-- the end of the add-back branch: after the first addition of the divisor (`⟨s0, s1⟩`), possibly a second one -/
theorem neg_tail256 (CQ Y : U128) (T s0 s1 x2 x3 : UInt64) (Q0 X0 Xc W q' : Nat) (hY0 : 0 < Y.toNat') (hY : Y.toNat' < 2 ^ 126)
    (hcq : CQ.toNat' = Q0 + q') (hinv : q' * Y.toNat' + Xc = X0) (hX0 : Q0 + X0 / Y.toNat' < 2 ^ 128) (hW : W = T.toNat * Y.toNat')
    (hm2 : W ≤ Xc + 2 * Y.toNat') (hneg : Xc < W)
    (hs : (⟨s0, s1⟩ : U128).toNat' = (Xc + 2 ^ 128 - W + Y.toNat') % 2 ^ 128) :
    ∃ Qr R,
      (if decide (Int64.ofInt (toI s1) < 0) = true then
        if decide (s0 + Y.w0 < Y.w0) = true then do
          let r ← add_128_64 CQ (T - 1 - 1)
          pure (({ w0 := r.w0, w1 := r.w1 } : U128), ({ w0 := s0 + Y.w0, w1 := s1 + 1 + Y.w1, w2 := x2, w3 := x3 } : U256))
        else do
          let r ← add_128_64 CQ (T - 1 - 1)
          pure (({ w0 := r.w0, w1 := r.w1 } : U128), ({ w0 := s0 + Y.w0, w1 := s1 + Y.w1, w2 := x2, w3 := x3 } : U256))
      else do
        let r ← add_128_64 CQ (T - 1)
        pure (({ w0 := r.w0, w1 := r.w1 } : U128), ({ w0 := s0, w1 := s1, w2 := x2, w3 := x3 } : U256))) = Except.ok (Qr, R) ∧
      Qr.toNat' = Q0 + X0 / Y.toNat' ∧ R.w0.toNat + 2 ^ 64 * R.w1.toNat = X0 % Y.toNat' ∧ R.w2 = x2 ∧ R.w3 = x3 := by
  have hT1 : (1 : UInt64).toNat = 1 := rfl
  have hTlt := T.toNat_lt
  have hT0 : 1 ≤ T.toNat := by
    rcases Nat.eq_zero_or_pos T.toNat with h | h
    · rw [h, Nat.zero_mul] at hW; omega
    · exact h
  have hTm1 : (T - 1).toNat = T.toNat - 1 := by rw [UInt64.toNat_sub, hT1]; omega
  have hWm1 : (T.toNat - 1) * Y.toNat' = W - Y.toNat' := by rw [Nat.sub_mul, Nat.one_mul, hW]
  have hW1 : Y.toNat' ≤ W := by rw [hW]; exact Nat.le_mul_of_pos_left _ hT0
  rw [sign_test128' s0 s1]
  rcases Nat.lt_or_ge (Y.toNat') (W - Xc) with hbig | hsmall
  · -- a second addition is needed
    have hneg2 : 2 ^ 127 ≤ (⟨s0, s1⟩ : U128).toNat' := by omega
    have hT2 : 2 ≤ T.toNat := by
      by_contra hc
      have : T.toNat = 1 := by omega
      rw [this, Nat.one_mul] at hW; omega
    have hTm2 : (T - 1 - 1).toNat = T.toNat - 2 := by rw [UInt64.toNat_sub, hTm1, hT1]; omega
    have hWm2 : (T.toNat - 2) * Y.toNat' = W - 2 * Y.toNat' := by rw [Nat.sub_mul, hW]
    have hW2 : 2 * Y.toNat' ≤ W := by rw [hW]; exact Nat.mul_le_mul_right _ hT2
    rw [if_pos (by rw [decide_eq_true_eq]; exact hneg2)]
    have ab := add_back ⟨s0, s1⟩ Y
    by_cases hc : decide (s0 + Y.w0 < Y.w0) = true
    · rw [if_pos hc]
      simp only [hc, if_true] at ab
      refine leaf_close256 CQ (T - 1 - 1) ⟨s0 + Y.w0, _⟩ x2 x3 Q0 X0 _ Xc q' hY0 hcq hinv hX0 ?_ ?_
      · rw [hTm2, hWm2, ab]; omega
      · rw [ab]; omega
    · rw [if_neg hc]
      simp only [hc, Bool.false_eq_true, if_false] at ab
      refine leaf_close256 CQ (T - 1 - 1) ⟨s0 + Y.w0, _⟩ x2 x3 Q0 X0 _ Xc q' hY0 hcq hinv hX0 ?_ ?_
      · rw [hTm2, hWm2, ab]; omega
      · rw [ab]; omega
  · have hnn : ¬ 2 ^ 127 ≤ (⟨s0, s1⟩ : U128).toNat' := by omega
    rw [if_neg (by rw [decide_eq_true_eq]; exact hnn)]
    refine leaf_close256 CQ (T - 1) ⟨s0, s1⟩ x2 x3 Q0 X0 _ Xc q' hY0 hcq hinv hX0 ?_ ?_
    · rw [hTm1, hWm1, hs]; omega
    · rw [hs]; omega


/-! ## 9. `bid___div_256_by_128` -/

theorem lval4_zero (x2 x1 x0 : Nat) : lval4 0 x2 x1 x0 = lval3 x2 x1 x0 := by
  unfold lval4
  rw [rn53_zero, Nat.zero_mul, Nat.zero_add, lval3_repr]

/-- the stage-2 test: the low three words of the dividend exceed `CY·2^51` -/
theorem cond2_256z (A : U256) (Y : U128) (z : UInt64) :
    (if decide (A.w2 > Y.w1 >>> 0xd) = true then (pure true : Except String Bool)
      else if (A.w2 == Y.w1 >>> 0xd) = true then
        unsigned_compare_gt_256_as_128 A ⟨Y.w0 <<< 0x33, Y.w1 <<< 0x33 ||| Y.w0 >>> 0xd, Y.w1 >>> 0xd, z⟩
      else pure false) = .ok (decide (Y.toNat' * 2 ^ 51 < lo3 A)) := by
  have hv := cy51_val Y
  have h0 := A.w0.toNat_lt; have h1 := A.w1.toNat_lt
  unfold lo3
  rw [← hv]
  obtain ⟨b0, hb0⟩ : ∃ b : UInt64, b = Y.w0 <<< 0x33 := ⟨_, rfl⟩
  obtain ⟨b1, hb1⟩ : ∃ b : UInt64, b = Y.w1 <<< 0x33 ||| Y.w0 >>> 0xd := ⟨_, rfl⟩
  obtain ⟨b2, hb2⟩ : ∃ b : UInt64, b = Y.w1 >>> 0xd := ⟨_, rfl⟩
  rw [← hb0, ← hb1, ← hb2]
  have g0 := b0.toNat_lt; have g1 := b1.toNat_lt
  unfold unsigned_compare_gt_256_as_128
  simp only [pure, Except.pure, gt_iff_lt, UInt64.lt_iff_toNat_lt]
  by_cases hgt : b2.toNat < A.w2.toNat
  · rw [if_pos (by rw [decide_eq_true_eq]; exact hgt)]
    apply congrArg Except.ok; symm; rw [decide_eq_true_eq]; omega
  · rw [if_neg (by rw [decide_eq_true_eq]; exact hgt)]
    by_cases heq : A.w2 = b2
    · rw [if_pos (by rw [beq_iff_eq]; exact heq)]
      have heq' : A.w2.toNat = b2.toNat := by rw [heq]
      apply congrArg Except.ok
      rw [Bool.eq_iff_iff]
      simp only [Bool.or_eq_true, Bool.and_eq_true, decide_eq_true_eq, beq_iff_eq, ← UInt64.toNat_inj]
      omega
    · rw [if_neg (by rw [beq_iff_eq]; exact heq)]
      have hne : A.w2.toNat ≠ b2.toNat := fun h => heq (UInt64.toNat_inj.1 h)
      apply congrArg Except.ok; symm; rw [decide_eq_false_iff_not]; omega


set_option maxHeartbeats 4000000 in
/-- **`bid___div_256_by_128` (repaired source) is exact**: for a divisor `0 < Y < 2^113`, a quotient below `2^113 − 2^62`
(`hQ`) and an accumulated quotient that fits 128 bits (`hfit`), the routine returns `CQ + ⌊X / Y⌋` and the remainder in
words 0, 1 (words 2, 3 are handed back as they came).

One residual float-margin hypothesis, `hcorner`, needed only in the corner where stage 1 is skipped and the quotient lies
in `[2^100 − 2^49, 2^100)`: the dividend and divisor as the `f64` computation sees them (`lval3`, `lval`: each word rounded
to 53 bits, each partial sum rounded) satisfy `lx ≤ (2^100 + 2^48)·ly`.  It says that the rounded quotient `lq` cannot
reach `2^100 + 2^49` when the true quotient is below `2^100`.  (Believed true: `lx`, `ly` are each within one grid step of
the operands and the divisor's two roundings together stay within `Y·2^-53`; an emulation found no counterexample in
2.4·10^6 adversarial cases.  Everything else — stage 1 with margin 4 for all quotients up to `2^113 − 2^62`, stage 2 with
margin 1 away from the corner, the final correction — is proved.) -/
theorem div_256_by_128_exact (CQ : U128) (X : U256) (Y : U128)
    (hY0 : 0 < Y.toNat') (hY : Y.toNat' < 2 ^ 113)
    (hQ : X.toNat' < (2 ^ 53 - 4) * (2 ^ 60 * Y.toNat'))
    (hfit : CQ.toNat' + X.toNat' / Y.toNat' < 2 ^ 128)
    (hcorner : X.toNat' < 2 ^ 192 → X.toNat' < 2 ^ 51 * (2 ^ 49 * Y.toNat') → (2 ^ 51 - 1) * (2 ^ 49 * Y.toNat') ≤ X.toNat' →
      lval3 X.w2.toNat X.w1.toNat X.w0.toNat ≤ (2 ^ 52 + 1) * 2 ^ 48 * lval Y.w1.toNat Y.w0.toNat) :
    ∃ Q R, bid___div_256_by_128 CQ X Y = .ok (Q, R) ∧ Q.toNat' = CQ.toNat' + X.toNat' / Y.toNat' ∧
      R.w0.toNat + 2 ^ 64 * R.w1.toNat = X.toNat' % Y.toNat' ∧ R.w2 = X.w2 ∧ R.w3 = X.w3 := by
  unfold bid___div_256_by_128
  extract_lets
  rename_i pCQ pCA4 CY dflt256 dflt128 dflt64 dfltF CA4a CA4b CA4c CA4d CQa CQb t64 CY36a CY36b CY36c CY51a CY51b CY51c K2 d49 d60
  have hd128 : t64.mul t64 = .ok ⟨0x47f0000000000000⟩ := d128_eq
  rw [hd128, ok_bind]
  extract_lets d128
  have hd192 : d128.mul t64 = .ok ⟨0x4bf0000000000000⟩ := d192_eq
  rw [hd192, ok_bind]
  extract_lets d192
  -- the divisor as a float
  have hYw1 : Y.w1.toNat < 2 ^ 49 := by
    have : Y.toNat' = Y.w0.toNat + 2 ^ 64 * Y.w1.toNat := rfl
    omega
  obtain ⟨Ly, hLydef⟩ : ∃ Ly, Ly = lval Y.w1.toNat Y.w0.toNat := ⟨_, rfl⟩
  have hNy : NearY Ly Y.toNat' := by
    have := near_divisor Y.w1.toNat Y.w0.toNat (by omega) Y.w0.toNat_lt
    rw [hLydef]; unfold NearY U128.toNat'
    rw [Nat.add_comm Y.w0.toNat, Nat.mul_comm (2 ^ 64)]; exact this
  have hLy0 : 0 < Ly := by
    rw [hLydef]; apply lval_pos; unfold U128.toNat' at hY0; omega
  have hLy130 : Ly < 2 ^ 130 := by rw [hLydef]; exact lval_lt _ _ Y.w1.toNat_lt Y.w0.toNat_lt
  obtain ⟨Yv, hYv⟩ : ∃ Yv, Yv = Y.toNat' := ⟨_, rfl⟩
  obtain ⟨X0, hX0⟩ : ∃ X0, X0 = X.toNat' := ⟨_, rfl⟩
  obtain ⟨Q0, hQ0⟩ : ∃ Q0, Q0 = CQ.toNat' := ⟨_, rfl⟩
  rw [← hYv] at hY0 hY hQ hfit hcorner hNy ⊢
  rw [← hX0] at hQ hfit hcorner ⊢
  rw [← hQ0] at hfit ⊢
  obtain ⟨Py, ly, g1, g2, hyrep⟩ := lx_rep Y.w1 Y.w0
  rw [← hLydef] at hyrep hcorner
  have e53 : (2 : Nat) ^ 53 - 4 = 9007199254740988 := by norm_num
  have e51 : (2 : Nat) ^ 51 - 1 = 2251799813685247 := by norm_num
  rw [e53] at hQ
  -- the last stage
  have hK2 : ∀ (CA4c CA2 : U256) (CQc A2 A2h CQT : U128) (Q carry : UInt64) (d49' lx lq : F64U) (q' : Nat),
      CQc.toNat' = Q0 + q' → q' * Yv + lo3 CA4c = X0 → lo3 CA4c ≤ 2 ^ 51 * Yv →
      EstOK2 lq (lval3 CA4c.w2.toNat CA4c.w1.toNat CA4c.w0.toNat) Ly →
      ∃ Qr R, K2 () CA4c CA2 CQc A2 A2h CQT Q carry d49' lx lq = .ok (Qr, R) ∧ Qr.toNat' = Q0 + X0 / Yv ∧
        R.w0.toNat + 2 ^ 64 * R.w1.toNat = X0 % Yv ∧ R.w2 = X.w2 ∧ R.w3 = X.w3 := by
    intro CA4c CA2 CQc A2 A2h CQT Q carry d49' lx lq q' hcq hinv hup hest
    have hNx := near_lval3 CA4c.w2.toNat CA4c.w1.toNat CA4c.w0.toNat CA4c.w1.toNat_lt CA4c.w0.toNat_lt
    obtain ⟨Lx, hLx⟩ : ∃ Lx, Lx = lval3 CA4c.w2.toNat CA4c.w1.toNat CA4c.w0.toNat := ⟨_, rfl⟩
    rw [← hLx] at hNx hest
    have hXv : CA4c.w2.toNat * 2 ^ 128 + (CA4c.w1.toNat * 2 ^ 64 + CA4c.w0.toNat) = lo3 CA4c := by unfold lo3; omega
    rw [hXv] at hNx
    obtain ⟨T, hT, hTE⟩ := est_plain2 lq Lx Ly hest hLy0 (by
      have a := hNx.1; have b := hNy.1
      rw [e52a] at a; rw [e53a] at b
      omega)
    obtain ⟨hm1, hm2⟩ := stage3_math2 (lo3 CA4c) Yv T.toNat Lx Ly hY0 hup hNx hNy hTE
    obtain ⟨A, hA, hAv⟩ := Dec.C01GenArith.gen_mul_64x64_to_128 T Y.w0
    have hA2 := mul_q_y T Y A hAv
    rw [← hYv] at hA2
    obtain ⟨S, hS, hS2, hS3, hSv⟩ := Dec.C01GenArith.gen_sub_256_128_to_256 CA4c ⟨A.w0, A.w1 + T * Y.w1⟩
    rw [hA2] at hSv
    have hT51 : T.toNat ≤ 2 ^ 51 + 2 := by
      by_contra hc
      have : (2 ^ 51 + 3) * Yv ≤ T.toNat * Yv := Nat.mul_le_mul_right _ (by omega)
      omega
    have hA' : mul_64x64_to_128 T CY.w0 = .ok A := hA
    have hS' : sub_256_128_to_256 CA4c { w0 := A.w0, w1 := A.w1 + T * CY.w1 } = .ok S := hS
    have hT1 : (1 : UInt64).toNat = 1 := rfl
    obtain ⟨W, hW⟩ : ∃ W, W = T.toNat * Yv := ⟨_, rfl⟩
    rw [← hW] at hSv hm2
    have hm1' : lo3 CA4c < W + 2 * Yv := by rw [hW]; calc lo3 CA4c < _ := hm1
                                                         _ = _ := by ring
    have hlo2 : CA4c.w0.toNat + 2 ^ 64 * CA4c.w1.toNat = lo3 CA4c % 2 ^ 128 := by
      have := CA4c.w0.toNat_lt; have := CA4c.w1.toNat_lt
      unfold lo3; omega
    rw [hlo2] at hSv
    have hXc := lo3_lt CA4c
    have hfitq : Q0 + X0 / Yv < 2 ^ 128 := hfit
    simp only [K2]
    rw [hT, ok_bind, hA', ok_bind, hS', ok_bind]
    have hsgn : decide (Int64.ofInt (toI S.w1) < 0) = decide (2 ^ 127 ≤ (⟨S.w0, S.w1⟩ : U128).toNat') := sign_test128' S.w0 S.w1
    rw [hsgn]
    have hSval : (⟨S.w0, S.w1⟩ : U128).toNat' = S.w0.toNat + 2 ^ 64 * S.w1.toNat := rfl
    rw [hSval]
    have hYvY : Y.toNat' = Yv := hYv.symm
    rcases Nat.lt_or_ge (lo3 CA4c) W with hneg | hpos
    · -- the estimate was too large: add the divisor back
      have hSv' : S.w0.toNat + 2 ^ 64 * S.w1.toNat = (lo3 CA4c + 2 ^ 128 - W) % 2 ^ 128 := by omega
      have hSneg : 2 ^ 127 ≤ S.w0.toNat + 2 ^ 64 * S.w1.toNat := by omega
      rw [if_pos (by rw [decide_eq_true_eq]; exact hSneg)]
      -- the problem modulo 2^128: `Xm = (lo3 CA4c + 2^128 − W) mod …`; use the 128-bit tail lemma on reduced numbers
      have ab1 := add_back ⟨S.w0, S.w1⟩ Y
      have hSU : (⟨S.w0, S.w1⟩ : U128).toNat' = (lo3 CA4c + 2 ^ 128 - W) % 2 ^ 128 := hSv'
      rw [hSU, hYvY] at ab1
      have hY126 : Y.toNat' < 2 ^ 126 := by rw [hYvY]; omega
      have hW' : W = T.toNat * Y.toNat' := by rw [hYvY]; exact hW
      have hab : ∀ s0 s1 : UInt64, (⟨s0, s1⟩ : U128).toNat' = ((lo3 CA4c + 2 ^ 128 - W) % 2 ^ 128 + Yv) % 2 ^ 128 →
          (⟨s0, s1⟩ : U128).toNat' = (lo3 CA4c + 2 ^ 128 - W + Y.toNat') % 2 ^ 128 := by
        intro s0 s1 h; rw [h, hYvY]; omega
      by_cases hc : decide (S.w0 + Y.w0 < Y.w0) = true
      · have hc' : decide (S.w0 + CY.w0 < CY.w0) = true := hc
        rw [if_pos hc']
        simp only [hc, if_true] at ab1
        have hnt := neg_tail256 CQc Y T _ _ X.w2 X.w3 Q0 X0 (lo3 CA4c) W q' (by rw [hYvY]; exact hY0) hY126 hcq
          (by rw [hYvY]; exact hinv) (by rw [hYvY]; exact hfitq) hW' (by rw [hYvY]; exact hm2) hneg (hab _ _ ab1)
        rw [hYvY] at hnt
        exact hnt
      · have hc' : ¬ decide (S.w0 + CY.w0 < CY.w0) = true := hc
        rw [if_neg hc']
        simp only [hc, Bool.false_eq_true, if_false] at ab1
        have hnt := neg_tail256 CQc Y T _ _ X.w2 X.w3 Q0 X0 (lo3 CA4c) W q' (by rw [hYvY]; exact hY0) hY126 hcq
          (by rw [hYvY]; exact hinv) (by rw [hYvY]; exact hfitq) hW' (by rw [hYvY]; exact hm2) hneg (hab _ _ ab1)
        rw [hYvY] at hnt
        exact hnt
    · -- the estimate was not too large
      have hSv' : S.w0.toNat + 2 ^ 64 * S.w1.toNat = lo3 CA4c - W := by omega
      have hnn : ¬ (2 ^ 127 ≤ S.w0.toNat + 2 ^ 64 * S.w1.toNat) := by omega
      rw [if_neg (by rw [decide_eq_true_eq]; exact hnn)]
      have hge : unsigned_compare_ge_256_128 S CY = .ok (decide (S.w0.toNat + 2 ^ 64 * S.w1.toNat ≥ Yv)) := by
        have := Dec.C01GenArith.gen_unsigned_compare_ge_128 ⟨S.w0, S.w1⟩ Y
        rw [hYvY] at this
        rw [← hSval, ← this]; rfl
      rw [hge, ok_bind]
      by_cases hgeY : S.w0.toNat + 2 ^ 64 * S.w1.toNat ≥ Yv
      · obtain ⟨S2, hS2', _, _, hS2v⟩ := Dec.C01GenArith.gen_sub_256_128_to_256 S Y
        have hS2'' : sub_256_128_to_256 S CY = .ok S2 := hS2'
        rw [if_pos (by rw [decide_eq_true_eq]; exact hgeY), hS2'', ok_bind]
        rw [hYvY] at hS2v
        refine leaf_close256 CQc (T + 1) ⟨S2.w0, S2.w1⟩ _ _ Q0 X0 Yv (lo3 CA4c) q' hY0 hcq hinv hfitq ?_ ?_
        · have : (T + 1).toNat = T.toNat + 1 := by rw [UInt64.toNat_add, hT1]; omega
          rw [this, Nat.add_mul, Nat.one_mul, ← hW]
          show lo3 CA4c = W + Yv + (S2.w0.toNat + 2 ^ 64 * S2.w1.toNat)
          omega
        · show S2.w0.toNat + 2 ^ 64 * S2.w1.toNat < Yv
          omega
      · rw [if_neg (by rw [decide_eq_true_eq]; exact hgeY)]
        refine leaf_close256 CQc T ⟨S.w0, S.w1⟩ _ _ Q0 X0 Yv (lo3 CA4c) q' hY0 hcq hinv hfitq ?_ ?_
        · rw [← hW]; show lo3 CA4c = W + (S.w0.toNat + 2 ^ 64 * S.w1.toNat); omega
        · show S.w0.toNat + 2 ^ 64 * S.w1.toNat < Yv; omega
  -- the dividend as a float, the first quotient
  obtain ⟨p3, p2, p1, s1, s2, lx0, q3, q2, q1, qs1, qs2, qlx, rlx⟩ := chain4 X.w3 X.w2 X.w1 X.w0
  have q3' : (F64U.ofU64 (UInt64.ofInt (toI CA4d.w3))).mul d192 = .ok p3 := q3
  have q2' : (F64U.ofU64 (UInt64.ofInt (toI CA4d.w2))).mul d128 = .ok p2 := q2
  have q1' : (F64U.ofU64 (UInt64.ofInt (toI CA4d.w1))).mul t64 = .ok p1 := q1
  have qs1' : p1.add (F64U.ofU64 (UInt64.ofInt (toI CA4d.w0))) = .ok s1 := qs1
  have g1' : (F64U.ofU64 (UInt64.ofInt (toI CY.w1))).mul t64 = .ok Py := g1
  have g2' : Py.add (F64U.ofU64 (UInt64.ofInt (toI CY.w0))) = .ok ly := g2
  rw [q3', ok_bind, q2', ok_bind, q1', ok_bind, qs1', ok_bind, qs2, ok_bind, qlx, ok_bind, g1', ok_bind, g2', ok_bind]
  obtain ⟨Lx0, hLx0⟩ : ∃ Lx0, Lx0 = lval4 X.w3.toNat X.w2.toNat X.w1.toNat X.w0.toNat := ⟨_, rfl⟩
  rw [← hLx0] at rlx
  have hLx0lt : Lx0 < 2 ^ 260 := by
    rw [hLx0]; exact lt_trans (lval4_lt _ _ _ _ X.w3.toNat_lt X.w2.toNat_lt X.w1.toNat_lt X.w0.toNat_lt) (Nat.pow_lt_pow_right (by decide) (by decide))
  obtain ⟨lq0, hdiv0, hest0⟩ := f_div2 lx0 ly Lx0 Ly rlx hyrep hLy0 hLx0lt hLy130
  extract_lets ly' K1
  have hdiv0' : lx0.div ly' = .ok lq0 := hdiv0
  rw [hdiv0', ok_bind]
  -- stage 2 and the last stage
  have hK1 : ∀ (CA4c CA2 : U256) (CQc CQT : U128) (Q carry : UInt64) (d60' lx lq : F64U) (q' : Nat),
      CQc.toNat' = Q0 + q' → q' * Yv + lo3 CA4c = X0 → lo3 CA4c < 2 ^ 51 * (2 ^ 49 * Yv) →
      ((2 ^ 51 - 1) * (2 ^ 49 * Yv) ≤ lo3 CA4c →
        lval3 CA4c.w2.toNat CA4c.w1.toNat CA4c.w0.toNat ≤ (2 ^ 52 + 1) * 2 ^ 48 * Ly) →
      EstOK2 lq (lval3 CA4c.w2.toNat CA4c.w1.toNat CA4c.w0.toNat) Ly →
      ∃ Qr R, K1 () CA4c CA2 CQc CQT Q carry d60' lx lq = .ok (Qr, R) ∧ Qr.toNat' = Q0 + X0 / Yv ∧
        R.w0.toNat + 2 ^ 64 * R.w1.toNat = X0 % Yv ∧ R.w2 = X.w2 ∧ R.w3 = X.w3 := by
    intro CA4c CA2 CQc CQT Q carry d60' lx lq q' hcq hinv hup hcor hest
    simp only [K1]
    have hc2 : (if decide (CA4c.w2 > CY51c.w2) = true then (pure true : Except String Bool)
        else if (CA4c.w2 == CY51c.w2) = true then unsigned_compare_gt_256_as_128 CA4c CY51c else pure false) =
        .ok (decide (Y.toNat' * 2 ^ 51 < lo3 CA4c)) := by
      exact cond2_256z CA4c Y _
    rw [hc2, ok_bind]
    have hYvY : Y.toNat' = Yv := hYv.symm
    rw [hYvY]
    have hXc := lo3_lt CA4c
    by_cases hst2 : Yv * 2 ^ 51 < lo3 CA4c
    · rw [if_pos (by rw [decide_eq_true_eq]; exact hst2)]
      have hNx := near_lval3 CA4c.w2.toNat CA4c.w1.toNat CA4c.w0.toNat CA4c.w1.toNat_lt CA4c.w0.toNat_lt
      obtain ⟨Lx, hLx⟩ : ∃ Lx, Lx = lval3 CA4c.w2.toNat CA4c.w1.toNat CA4c.w0.toNat := ⟨_, rfl⟩
      rw [← hLx] at hNx hest hcor
      have hXv : CA4c.w2.toNat * 2 ^ 128 + (CA4c.w1.toNat * 2 ^ 64 + CA4c.w0.toNat) = lo3 CA4c := by unfold lo3; omega
      rw [hXv] at hNx
      have hd49 : fpDecode 52 11 (4386506037058863104 : UInt64).toNat = some (2 ^ 52, -((49 : Nat) : Int) - 52) := decode_d49
      obtain ⟨lq', T, hmul, hT, hTE⟩ := est_scaled2 lq Lx Ly 49 4386506037058863104 hd49 (by norm_num) (by norm_num)
        hest hLy0 (by
          have a := hNx.2; have b := hNy.2; rw [e52a, e52b] at a
          omega) (by
          have a := hNx.1; have b := hNy.1; rw [e52a] at a; rw [e53a] at b
          omega)
      have hstage : 1 ≤ T.toNat ∧ (T.toNat - 1) * (2 ^ 49 * Yv) ≤ lo3 CA4c ∧
          lo3 CA4c < (T.toNat - 1) * (2 ^ 49 * Yv) + 3 * (2 ^ 49 * Yv) := by
        by_cases hcr : (2 ^ 51 - 1) * (2 ^ 49 * Yv) ≤ lo3 CA4c
        · exact stage2_corner (lo3 CA4c) Yv T.toNat Lx Ly hY0 hcr hup hNx hNy hTE (hcor hcr)
        · exact stage2_math2 (lo3 CA4c) Yv T.toNat Lx Ly hY0 (by omega) (Nat.lt_of_not_le hcr) hNx hNy hTE
      obtain ⟨m1, m2, m3⟩ := hstage
      have hmul' : lq.mul d49 = .ok lq' := hmul
      rw [hmul', ok_bind, hT, ok_bind]
      have hQv : (T - 1).toNat = T.toNat - 1 := by
        have h1 : (1 : UInt64).toNat = 1 := rfl
        have := T.toNat_lt
        rw [UInt64.toNat_sub, h1]; omega
      obtain ⟨A, hA, hAv⟩ := Dec.C01GenArith.gen_mul_64x64_to_128 (T - 1) Y.w0
      obtain ⟨Ah, hAh, hAhv⟩ := Dec.C01GenArith.gen_mul_64x64_to_128 (T - 1) Y.w1
      have hA' : mul_64x64_to_128 (T - 1) CY.w0 = .ok A := hA
      have hAh' : mul_64x64_to_128 (T - 1) CY.w1 = .ok Ah := hAh
      rw [hA', ok_bind, hAh', ok_bind]
      have hprod := mul3 (T - 1) Y A Ah hAv hAhv
      rw [hQv, hYvY] at hprod
      obtain ⟨W, hW⟩ : ∃ W, W = (T.toNat - 1) * (2 ^ 49 * Yv) := ⟨_, rfl⟩
      rw [← hW] at m2 m3
      have hW' : (T.toNat - 1) * Yv * 2 ^ 49 = W := by rw [hW]; ring
      have tail2 : ∀ (h1' : UInt64) (A2h' : U128) (z : UInt64),
          A.w0.toNat + 2 ^ 64 * (A.w1 + Ah.w0).toNat + 2 ^ 128 * h1'.toNat = (T.toNat - 1) * Yv →
          ∃ Qr R,
            (do
              let t1 ← sub_borrow_out CA4c.w0 (A.w0 <<< 49)
              let t2 ← sub_borrow_in_out CA4c.w1 ((A.w1 + Ah.w0) <<< 49 ||| A.w0 >>> 15) t1.2
              let cq ← add_128_128 CQc { w0 := (T - 1) <<< 49, w1 := (T - 1) >>> 15 }
              let f3 ← (F64U.ofU64 (UInt64.ofInt (toI (CA4c.w2 - (h1' <<< 49 ||| (A.w1 + Ah.w0) >>> 15) - t2.2)))).mul d128
              let f4 ← (F64U.ofU64 (UInt64.ofInt (toI t2.1))).mul t64
              let f5 ← f4.add (F64U.ofU64 (UInt64.ofInt (toI t1.1)))
              let f6 ← f3.add f5
              let f7 ← f6.div ly'
              K2 () { w0 := t1.1, w1 := t2.1, w2 := CA4c.w2 - (h1' <<< 49 ||| (A.w1 + Ah.w0) >>> 15) - t2.2, w3 := CA4c.w3 }
                { w0 := A.w0 <<< 49, w1 := (A.w1 + Ah.w0) <<< 49 ||| A.w0 >>> 15,
                  w2 := h1' <<< 49 ||| (A.w1 + Ah.w0) >>> 15, w3 := z }
                cq { w0 := A.w0, w1 := A.w1 + Ah.w0 } A2h' { w0 := (T - 1) <<< 49, w1 := (T - 1) >>> 15 } (T - 1) t2.2 d49 f6 f7)
              = .ok (Qr, R) ∧ Qr.toNat' = Q0 + X0 / Yv ∧ R.w0.toNat + 2 ^ 64 * R.w1.toNat = X0 % Yv ∧ R.w2 = X.w2 ∧
                R.w3 = X.w3 := by
        intro h1' A2h' z hP
        have hsh := shl3_49 A.w0 (A.w1 + Ah.w0) h1'
        rw [hP, hW', Nat.mod_eq_of_lt (by omega)] at hsh
        obtain ⟨t1, t2, ht1, ht2, hsub⟩ := sub3 CA4c.w0 CA4c.w1 CA4c.w2 (A.w0 <<< 0x31) ((A.w1 + Ah.w0) <<< 0x31 ||| A.w0 >>> 0xf)
          (h1' <<< 0x31 ||| (A.w1 + Ah.w0) >>> 0xf)
        rw [hsh] at hsub
        have hlo3 : CA4c.w0.toNat + 2 ^ 64 * CA4c.w1.toNat + 2 ^ 128 * CA4c.w2.toNat = lo3 CA4c := rfl
        rw [hlo3] at hsub
        have hsub' : t1.1.toNat + 2 ^ 64 * t2.1.toNat +
            2 ^ 128 * (CA4c.w2 - (h1' <<< 0x31 ||| (A.w1 + Ah.w0) >>> 0xf) - t2.2).toNat = lo3 CA4c - W := by omega
        have ht1' : sub_borrow_out CA4c.w0 (A.w0 <<< 49) = .ok t1 := ht1
        have ht2' : sub_borrow_in_out CA4c.w1 ((A.w1 + Ah.w0) <<< 49 ||| A.w0 >>> 15) t1.2 = .ok t2 := ht2
        rw [ht1', ok_bind, ht2', ok_bind]
        have hqp := q_pair49 (T - 1)
        rw [hQv] at hqp
        have hfitq : CQc.toNat' + (T.toNat - 1) * 2 ^ 49 < 2 ^ 128 := by
          have hdm := Nat.div_add_mod X0 Yv
          have hmod := Nat.mod_lt X0 hY0
          have a : (q' + (T.toNat - 1) * 2 ^ 49) * Yv ≤ X0 := by
            have : (q' + (T.toNat - 1) * 2 ^ 49) * Yv = q' * Yv + W := by rw [hW]; ring
            omega
          have b : q' + (T.toNat - 1) * 2 ^ 49 ≤ X0 / Yv := (Nat.le_div_iff_mul_le hY0).2 a
          omega
        obtain ⟨CQn, hCQn, hCQv⟩ := Dec.C01GenArith.gen_add_128_128_exact CQc ⟨(T - 1) <<< 0x31, (T - 1) >>> 0xf⟩
          (by rw [hqp]; exact hfitq)
        have hCQn' : add_128_128 CQc { w0 := (T - 1) <<< 49, w1 := (T - 1) >>> 15 } = .ok CQn := hCQn
        rw [hCQn', ok_bind]
        rw [hqp] at hCQv
        obtain ⟨w2n, hw2n⟩ : ∃ w : UInt64, w = CA4c.w2 - (h1' <<< 0x31 ||| (A.w1 + Ah.w0) >>> 0xf) - t2.2 := ⟨_, rfl⟩
        rw [← hw2n] at hsub'
        obtain ⟨f3, f4, f5, f6, k3, k4, k5, k6, rf6⟩ := chain3 w2n t2.1 t1.1
        have k3' : (F64U.ofU64 (UInt64.ofInt (toI (CA4c.w2 - (h1' <<< 49 ||| (A.w1 + Ah.w0) >>> 15) - t2.2)))).mul d128 = .ok f3 := by
          rw [hw2n] at k3; exact k3
        have k4' : (F64U.ofU64 (UInt64.ofInt (toI t2.1))).mul t64 = .ok f4 := k4
        rw [k3', ok_bind, k4', ok_bind, k5, ok_bind, k6, ok_bind]
        have hL3lt : lval3 w2n.toNat t2.1.toNat t1.1.toNat < 2 ^ 260 :=
          lt_trans (lval3_lt _ _ _ w2n.toNat_lt t2.1.toNat_lt t1.1.toNat_lt) (Nat.pow_lt_pow_right (by decide) (by decide))
        obtain ⟨lq1, hdiv1, hest1⟩ := f_div2 f6 ly _ Ly rf6 hyrep hLy0 hL3lt hLy130
        have hdiv1' : f6.div ly' = .ok lq1 := hdiv1
        rw [hdiv1', ok_bind]
        have hnew : lo3 (⟨t1.1, t2.1, CA4c.w2 - (h1' <<< 49 ||| (A.w1 + Ah.w0) >>> 15) - t2.2, CA4c.w3⟩ : U256)
            = lo3 CA4c - W := by
          show t1.1.toNat + 2 ^ 64 * t2.1.toNat + 2 ^ 128 * (CA4c.w2 - (h1' <<< 0x31 ||| (A.w1 + Ah.w0) >>> 0xf) - t2.2).toNat = _
          rw [← hw2n]; exact hsub'
        refine hK2 ⟨t1.1, t2.1, CA4c.w2 - (h1' <<< 49 ||| (A.w1 + Ah.w0) >>> 15) - t2.2, CA4c.w3⟩
          ⟨A.w0 <<< 49, (A.w1 + Ah.w0) <<< 49 ||| A.w0 >>> 15, h1' <<< 49 ||| (A.w1 + Ah.w0) >>> 15, z⟩ CQn
          ⟨A.w0, A.w1 + Ah.w0⟩ A2h' ⟨(T - 1) <<< 49, (T - 1) >>> 15⟩ (T - 1) t2.2 d49 f6 lq1
          (q' + (T.toNat - 1) * 2 ^ 49) (by rw [hCQv, hcq]; omega) ?_ ?_ ?_
        · rw [hnew]
          have : (q' + (T.toNat - 1) * 2 ^ 49) * Yv = q' * Yv + W := by rw [hW]; ring
          rw [this]; omega
        · rw [hnew]; omega
        · show EstOK2 lq1 (lval3 (CA4c.w2 - (h1' <<< 0x31 ||| (A.w1 + Ah.w0) >>> 0xf) - t2.2).toNat t2.1.toNat t1.1.toNat) Ly
          rw [← hw2n]; exact hest1
      by_cases hcar : decide (A.w1 + Ah.w0 < Ah.w0) = true
      · rw [if_pos hcar]
        simp only [hcar, if_true] at hprod
        exact tail2 (Ah.w1 + 1) ⟨Ah.w0, Ah.w1 + 1⟩ CA2.w3 hprod
      · rw [if_neg hcar]
        simp only [hcar, Bool.false_eq_true, if_false] at hprod
        exact tail2 Ah.w1 Ah CA2.w3 hprod
    · rw [if_neg (by rw [decide_eq_true_eq]; exact hst2)]
      exact hK2 CA4c CA2 CQc dflt128 dflt128 CQT Q carry dfltF lx lq q' hcq hinv (by omega) hest
  simp only []
  have hX0w : X0 = X.w0.toNat + 2 ^ 64 * X.w1.toNat + 2 ^ 128 * X.w2.toNat + 2 ^ 192 * X.w3.toNat := hX0
  have hlo3X : lo3 CA4d = X.w0.toNat + 2 ^ 64 * X.w1.toNat + 2 ^ 128 * X.w2.toNat := rfl
  have hYvY : Y.toNat' = Yv := hYv.symm
  have hc1 : (CA4d.w3 != 0 || CA4d.w3 == CY36c.w2 &&
      (decide (CA4d.w2 > CY36c.w1) || CA4d.w2 == CY36c.w1 && decide (CA4d.w1 ≥ CY36c.w0))) =
      decide (2 ^ 192 ≤ X.toNat' ∨ Y.toNat' * 2 ^ 100 ≤ X.toNat') := cond1_256 X Y
  rw [hc1, ← hX0, hYvY]
  have h0 := X.w0.toNat_lt; have h1 := X.w1.toNat_lt; have h2 := X.w2.toNat_lt
  by_cases hst1 : 2 ^ 192 ≤ X0 ∨ Yv * 2 ^ 100 ≤ X0
  · rw [if_pos (by rw [decide_eq_true_eq]; exact hst1)]
    have hNx0 : Near Lx0 X0 := by
      have := near_lval4 X.w3.toNat X.w2.toNat X.w1.toNat X.w0.toNat h2 h1 h0
      rw [← hLx0] at this
      have e : X.w3.toNat * 2 ^ 192 + (X.w2.toNat * 2 ^ 128 + (X.w1.toNat * 2 ^ 64 + X.w0.toNat)) = X0 := by
        rw [hX0w]; omega
      rw [e] at this; exact this
    have hlow : 2 ^ 19 * (2 ^ 60 * Yv) ≤ X0 := by rcases hst1 with h | h <;> omega
    have hd60 : fpDecode 52 11 (4336966441157787648 : UInt64).toNat = some (2 ^ 52, -((60 : Nat) : Int) - 52) := decode_d60
    obtain ⟨lq', T, hmul, hT, hTE⟩ := est_scaled2 lq0 Lx0 Ly 60 4336966441157787648 hd60 (by norm_num) (by norm_num)
      hest0 hLy0 (by
        have a := hNx0.2; have b := hNy.2; rw [e52a, e52b] at a
        omega) (by
        have a := hNx0.1; have b := hNy.1; rw [e52a] at a; rw [e53a] at b
        omega)
    obtain ⟨m1, m2, m3⟩ := stage1_math2 X0 Yv T.toNat Lx0 Ly hY0 hlow (by rw [e53]; exact hQ) hNx0 hNy hTE
    have hmul' : lq0.mul d60 = .ok lq' := hmul
    rw [hmul', ok_bind, hT, ok_bind]
    have hQv : (T - 4).toNat = T.toNat - 4 := by
      have h4 : (4 : UInt64).toNat = 4 := rfl
      have := T.toNat_lt
      rw [UInt64.toNat_sub, h4]; omega
    obtain ⟨P, hP, hPv, hP3⟩ := Dec.C01GenArith.gen_mul_64x128_to_256 (T - 4) Y
    have hP' : mul_64x128_to_256 (T - 4) CY = .ok P := hP
    rw [hP', ok_bind]
    rw [hQv, hYvY] at hPv
    have hPlo : P.w0.toNat + 2 ^ 64 * P.w1.toNat + 2 ^ 128 * P.w2.toNat = (T.toNat - 4) * Yv := by
      have : P.toNat' = P.w0.toNat + 2 ^ 64 * P.w1.toNat + 2 ^ 128 * P.w2.toNat + 2 ^ 192 * P.w3.toNat := rfl
      have z : P.w3.toNat = 0 := by rw [hP3]; rfl
      omega
    obtain ⟨W, hW⟩ : ∃ W, W = (T.toNat - 4) * (2 ^ 60 * Yv) := ⟨_, rfl⟩
    rw [← hW] at m2 m3
    have hW' : (T.toNat - 4) * Yv * 2 ^ 60 = W := by rw [hW]; ring
    have hsh := shl3_60 P.w0 P.w1 P.w2
    rw [hPlo, hW'] at hsh
    obtain ⟨t1, t2, ht1, ht2, hsub⟩ := sub3 X.w0 X.w1 X.w2 (P.w0 <<< 0x3c) (P.w1 <<< 0x3c ||| P.w0 >>> 4)
      (P.w2 <<< 0x3c ||| P.w1 >>> 4)
    rw [hsh] at hsub
    have hsub' : t1.1.toNat + 2 ^ 64 * t2.1.toNat + 2 ^ 128 * (X.w2 - (P.w2 <<< 0x3c ||| P.w1 >>> 4) - t2.2).toNat = X0 - W := by
      have hXlt := Dec.C01GenArith.toNat'_lt128 CQ
      omega
    have ht1' : sub_borrow_out CA4d.w0 (P.w0 <<< 60) = .ok t1 := ht1
    have ht2' : sub_borrow_in_out CA4d.w1 (P.w1 <<< 60 ||| P.w0 >>> 4) t1.2 = .ok t2 := ht2
    rw [ht1', ok_bind, ht2', ok_bind]
    obtain ⟨w2n, hw2n⟩ : ∃ w : UInt64, w = X.w2 - (P.w2 <<< 0x3c ||| P.w1 >>> 4) - t2.2 := ⟨_, rfl⟩
    rw [← hw2n] at hsub'
    obtain ⟨f3, f4, f5, f6, k3, k4, k5, k6, rf6⟩ := chain3 w2n t2.1 t1.1
    have k3' : (F64U.ofU64 (UInt64.ofInt (toI (CA4d.w2 - (P.w2 <<< 60 ||| P.w1 >>> 4) - t2.2)))).mul d128 = .ok f3 := by
      rw [hw2n] at k3; exact k3
    have k4' : (F64U.ofU64 (UInt64.ofInt (toI t2.1))).mul t64 = .ok f4 := k4
    rw [k3', ok_bind, k4', ok_bind, k5, ok_bind, k6, ok_bind]
    have hL3lt : lval3 w2n.toNat t2.1.toNat t1.1.toNat < 2 ^ 260 :=
      lt_trans (lval3_lt _ _ _ w2n.toNat_lt t2.1.toNat_lt t1.1.toNat_lt) (Nat.pow_lt_pow_right (by decide) (by decide))
    obtain ⟨lq1, hdiv1, hest1⟩ := f_div2 f6 ly _ Ly rf6 hyrep hLy0 hL3lt hLy130
    have hdiv1' : f6.div ly' = .ok lq1 := hdiv1
    rw [hdiv1', ok_bind]
    have hqp := q_pair60 (T - 4)
    rw [hQv] at hqp
    have hfitq : CQ.toNat' + (T.toNat - 4) * 2 ^ 60 < 2 ^ 128 := by
      have a : ((T.toNat - 4) * 2 ^ 60) * Yv ≤ X0 := by
        have : ((T.toNat - 4) * 2 ^ 60) * Yv = W := by rw [hW]; ring
        omega
      have b : (T.toNat - 4) * 2 ^ 60 ≤ X0 / Yv := (Nat.le_div_iff_mul_le hY0).2 a
      omega
    obtain ⟨CQn, hCQn, hCQv⟩ := Dec.C01GenArith.gen_add_128_128_exact CQ ⟨(T - 4) <<< 0x3c, (T - 4) >>> 4⟩
      (by rw [hqp]; exact hfitq)
    have hCQn' : add_128_128 CQb { w0 := (T - 4) <<< 60, w1 := (T - 4) >>> 4 } = .ok CQn := hCQn
    rw [hCQn', ok_bind]
    rw [hqp] at hCQv
    have hnew : lo3 (⟨t1.1, t2.1, CA4d.w2 - (P.w2 <<< 60 ||| P.w1 >>> 4) - t2.2, CA4d.w3⟩ : U256) = X0 - W := by
      show t1.1.toNat + 2 ^ 64 * t2.1.toNat + 2 ^ 128 * (X.w2 - (P.w2 <<< 0x3c ||| P.w1 >>> 4) - t2.2).toNat = _
      rw [← hw2n]; exact hsub'
    refine hK1 ⟨t1.1, t2.1, CA4d.w2 - (P.w2 <<< 60 ||| P.w1 >>> 4) - t2.2, CA4d.w3⟩
      ⟨P.w0 <<< 60, P.w1 <<< 60 ||| P.w0 >>> 4, P.w2 <<< 60 ||| P.w1 >>> 4, P.w3⟩ CQn ⟨(T - 4) <<< 60, (T - 4) >>> 4⟩ (T - 4)
      t2.2 d60 f6 lq1 ((T.toNat - 4) * 2 ^ 60) (by rw [hCQv, hQ0]) ?_ ?_ ?_ ?_
    · rw [hnew]
      have : (T.toNat - 4) * 2 ^ 60 * Yv = W := by rw [hW]; ring
      rw [this]; omega
    · rw [hnew]; omega
    · intro hcr; exfalso; rw [hnew, e51] at hcr; omega
    · show EstOK2 lq1 (lval3 (X.w2 - (P.w2 <<< 0x3c ||| P.w1 >>> 4) - t2.2).toNat t2.1.toNat t1.1.toNat) Ly
      rw [← hw2n]; exact hest1
  · rw [if_neg (by rw [decide_eq_true_eq]; exact hst1)]
    have hlt192 : X0 < 2 ^ 192 := by omega
    have hlt100 : X0 < 2 ^ 51 * (2 ^ 49 * Yv) := by omega
    have hw3 : X.w3.toNat = 0 := by omega
    have hloX : lo3 CA4d = X0 := by rw [hlo3X, hX0w, hw3]; omega
    refine hK1 CA4d dflt256 CQb dflt128 dflt64 dflt64 dfltF lx0 lq0 0 (by show CQ.toNat' = Q0 + 0; omega) ?_ ?_ ?_ ?_
    · rw [hloX]; omega
    · rw [hloX]; exact hlt100
    · rw [hloX]; intro hcr
      exact hcorner hlt192 hlt100 hcr
    · show EstOK2 lq0 (lval3 X.w2.toNat X.w1.toNat X.w0.toNat) Ly
      rw [← lval4_zero, ← hw3, ← hLx0]; exact hest0

end Dec.C01GenDiv256
