/-
  C04Q — parsing a decimal literal yields the correctly rounded value: the ℚ-level statements, as
  corollaries of the specification of `finish`, and the value of a literal in terms of its digit strings.
-/
import DecProofs.Core.FinishUnique
import DecProofs.Properties.C04Grammar

namespace Dec.C04Q

/-! ### helpers -/

theorem parse_fin (mode : Mode) (l : Literal) (h : l.coeff ≠ 0) :
    parseLiteralSpec mode l = finish mode l.neg l.coeff 1 l.exp10 l.exp10 := by
  simp [parseLiteralSpec, h]

theorem literal_val (l : Literal) :
    (l.coeff : ℚ) * (10 : ℚ) ^ l.exp10 = (l.coeff : ℚ) / ((1 : Nat) : ℚ) * (10 : ℚ) ^ l.exp10 := by
  simp

/-! ### the value of a literal -/

/-- **The value of a literal, read off its digit strings**: `coeff·10^exp10` is
`(int + frac / 10^#frac)·10^exp` — the integer digits, the fraction digits after the point, scaled by the
written exponent. -/
theorem literal_value (l : Literal) :
    (l.coeff : ℚ) * (10 : ℚ) ^ l.exp10 =
      ((digitsVal l.intDigits : ℚ) + (digitsVal l.fracDigits : ℚ) / (10 : ℚ) ^ l.fracDigits.length) *
        (10 : ℚ) ^ l.exp := by
  have hp : (10 : ℚ) ^ l.fracDigits.length ≠ 0 := pow_ne_zero _ ten_ne
  rw [C04Grammar.coeff_eq, Literal.exp10, zpow_sub₀ ten_ne, zpow_natCast]
  push_cast
  field_simp

-- "12.50e1": int = "12", frac = "50", exp = 1: coeff = 1250, exp10 = -1
example : (Literal.mk false [49, 50] [53, 48] 1).coeff = 1250 ∧ (Literal.mk false [49, 50] [53, 48] 1).exp10 = -1 ∧
    digitsVal [49, 50] = 12 ∧ digitsVal [53, 48] = 50 := by decide

/-! ### parsing is correctly rounded -/

/-- **Parsing is correctly rounded.**  A well-formed literal with a non-zero coefficient converts to the correct
delivery (`FinishSpec`) of its exact value `coeff·10^exp10` (see `literal_value`), with the literal's sign and
the literal's own exponent `exp10 = exp − #fraction digits` preferred: the exact value when it is a member of
the format (exponent as close to the written one as possible, no flag), otherwise rounded once in `mode` with
inexact (underflow when tiny), or the mode's overflow result. -/
theorem parse_correct (mode : Mode) (l : Literal) (h : l.coeff ≠ 0) :
    FinishSpec mode l.neg ((l.coeff : ℚ) * (10 : ℚ) ^ l.exp10) l.exp10 (parseLiteralSpec mode l) := by
  rw [parse_fin mode l h, literal_val]
  exact finish_spec mode l.neg l.coeff 1 l.exp10 l.exp10 (Nat.pos_of_ne_zero h) (by omega)

/-- … and the tight form: an outcome is the prescribed parse result *iff* it is the single-valued correct
delivery of the literal's value. -/
theorem parse_eq_iff (mode : Mode) (l : Literal) (h : l.coeff ≠ 0) (out : Datum × Flags) :
    parseLiteralSpec mode l = out ↔
      FinishSpecStrict mode l.neg ((l.coeff : ℚ) * (10 : ℚ) ^ l.exp10) l.exp10 out := by
  rw [parse_fin mode l h, literal_val]
  exact finish_eq_iff mode l.neg l.coeff 1 l.exp10 l.exp10 (Nat.pos_of_ne_zero h) (by omega) out

/-- **A literal that fits is kept as written**: when the digits fit in 34 and the exponent of the last digit
is in range, the result has exactly the literal's coefficient and exponent (trailing zeros preserved), its
sign, and no flag — in every rounding mode, zero coefficients included. -/
theorem parse_keeps_literal (mode : Mode) (l : Literal) (hr : Representable l.coeff l.exp10) :
    parseLiteralSpec mode l = (.fin l.neg l.coeff l.exp10, 0) := by
  by_cases h : l.coeff = 0
  · obtain ⟨_, h2, h3⟩ := hr
    simp only [parseLiteralSpec, h, if_true, zeroAt, clampInt]
    rw [if_neg (by omega), if_neg (by omega)]
  · rw [parse_fin mode l h]
    exact finish_representable mode l.neg l.coeff l.exp10 h hr.1 hr.2.1 hr.2.2

-- "-12.50e1" ↦ -1250E-1 (the trailing zero is kept); "0.00" ↦ 0E-2
example : parseLiteralSpec .rne (Literal.mk true [49, 50] [53, 48] 1) = (.fin true 1250 (-1), 0) :=
  parse_keeps_literal _ _ ⟨by decide, by decide, by decide⟩
example : parseLiteralSpec .rup (Literal.mk false [48] [48, 48] 0) = (.fin false 0 (-2), 0) :=
  parse_keeps_literal _ _ ⟨by decide, by decide, by decide⟩

/-- **Inexact iff digits were lost**: no flag is raised iff the literal's value is a member of the format
(some `c·10^x` with at most 34 digits and `x` in range) — otherwise inexact (at least) is raised. -/
theorem parse_flags_zero_iff (mode : Mode) (l : Literal) (h : l.coeff ≠ 0) :
    (parseLiteralSpec mode l).2 = 0 ↔ IsMember ((l.coeff : ℚ) * (10 : ℚ) ^ l.exp10) := by
  rw [parse_fin mode l h, literal_val]
  exact finish_flags_zero_iff mode l.neg l.coeff 1 l.exp10 l.exp10 (Nat.pos_of_ne_zero h) (by omega)

/-- when no digit is lost the result has exactly the literal's value, with the exponent of its cohort closest
to the written one -/
theorem parse_exact (mode : Mode) (l : Literal) (h : l.coeff ≠ 0)
    (hmem : IsMember ((l.coeff : ℚ) * (10 : ℚ) ^ l.exp10)) :
    ∃ c x, parseLiteralSpec mode l = (.fin l.neg c x, 0) ∧ fval false c x = (l.coeff : ℚ) * (10 : ℚ) ^ l.exp10 ∧
      Representable c x ∧
      ∀ c' x', Representable c' x' → fval false c' x' = (l.coeff : ℚ) * (10 : ℚ) ^ l.exp10 →
        |x - l.exp10| ≤ |x' - l.exp10| := by
  rcases parse_correct mode l h with ⟨_, hh⟩ | ⟨hh, _⟩ | ⟨hh, _⟩
  · exact hh
  · exact absurd hmem hh
  · exact absurd hmem hh

-- 35 significant digits "12345678901234567890123456789012345": one digit is lost (inexact), half-even
example : parseLiteralSpec .rne
    (Literal.mk false [49,50,51,52,53,54,55,56,57,48,49,50,51,52,53,54,55,56,57,48,49,50,51,52,53,54,55,56,57,48,49,50,51,52,53] [] 0) =
    (.fin false 1234567890123456789012345678901234 1, fInexact) := by decide +kernel
-- 36 digits ending in "00", exponent out of range below but the value is a member: exact, zeros absorbed
example : parseLiteralSpec .rne (Literal.mk false [49, 48, 48] [] (-6178)) = (.fin false 1 (-6176), 0) := by
  decide +kernel
-- "1e7000" overflows; "1e-7000" underflows to zero
example : parseLiteralSpec .rne (Literal.mk false [49] [] 7000) = (.inf false, fOverflow ||| fInexact) := by
  decide +kernel
example : parseLiteralSpec .rne (Literal.mk false [49] [] (-7000)) = (.fin false 0 eMin, fUnderflow ||| fInexact) := by
  decide +kernel

/-- **Parsing, in terms of the digit strings**: a literal (what the strict grammar `parseLiteral` returns for an
accepted text: sign, integer digits, fraction digits, exponent — see `C04Grammar.parseLiteral_iff`) with a
non-zero coefficient converts to the correct delivery of `(int + frac/10^#frac)·10^exp`. -/
theorem parse_correct_digits (mode : Mode) (l : Literal) (h : l.coeff ≠ 0) :
    FinishSpec mode l.neg
      (((digitsVal l.intDigits : ℚ) + (digitsVal l.fracDigits : ℚ) / (10 : ℚ) ^ l.fracDigits.length) *
        (10 : ℚ) ^ l.exp) l.exp10 (parseLiteralSpec mode l) := by
  rw [← literal_value]
  exact parse_correct mode l h

-- the text "-12.50e1" is the literal used above
example : (parseLiteral [45, 49, 50, 46, 53, 48, 101, 49]).map (fun l => (l.neg, l.intDigits, l.fracDigits, l.exp)) =
    some (true, [49, 50], [53, 48], 1) := by decide

end Dec.C04Q
