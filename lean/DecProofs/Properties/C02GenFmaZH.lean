/-
  C02GenFmaZ (part H: Case (1''B), the translated text, padding and half-unit comparison) — see C02GenFmaZ.lean
-/
import DecProofs.Properties.C02GenFmaZG
set_option linter.unusedSimpArgs false
set_option linter.unusedVariables false
namespace Dec.C02GenFmaZ
open Dec Dec.Rs Dec.Gen.Code Dec.C03GenCompare Dec.C02GenCorrection
open Dec.C08GenRoundIntegral (bind_ok' ite_true_bool ite_false_bool i32_add i32_sub i32_neg)
open Dec.C01GenAdd (idx_i32 ten2k128_get19 lt113)

/-! ## 12. Case (1''B): the translated text in slices -/


/-- Case (1''B) of `bid128_ext_fma` (`p34 == delta`, `z` can be padded to 34 digits): the translated text of the branch, its live variables as parameters -/
def caseZ2 (ptr_is_midpoint_lt_even_ : Bool) (ptr_is_midpoint_gt_even_ : Bool) (ptr_is_inexact_lt_midpoint_ : Bool) (ptr_is_inexact_gt_midpoint_ : Bool) (rnd_mode_ : RoundingMode) (pfpsf_ : UInt32) (res_ : U128) (z_sign_ : UInt64) (p_sign_ : UInt64) (z_exp_ : UInt64) (C3_ : U128) (C4_ : U256) (q3_ : Int32) (q4_ : Int32) (e3_ : Int32) (scale_ : Int32) (p34_ : Int32) (is_midpoint_lt_even_ : Bool) (is_midpoint_gt_even_ : Bool) (is_inexact_lt_midpoint_ : Bool) (is_inexact_gt_midpoint_ : Bool) (incr_exp_ : Bool) (lt_half_ulp_ : Bool) (eq_half_ulp_ : Bool) (gt_half_ulp_ : Bool) (R64_ : UInt64) (P128_ : U128) (R128_ : U128) (P192_ : U192) (R192_ : U192) (R256_ : U256) : Except String (U128 × Bool × Bool × Bool × Bool × UInt32) := do
  let mut ptr_is_midpoint_lt_even : Bool := ptr_is_midpoint_lt_even_
  let mut ptr_is_midpoint_gt_even : Bool := ptr_is_midpoint_gt_even_
  let mut ptr_is_inexact_lt_midpoint : Bool := ptr_is_inexact_lt_midpoint_
  let mut ptr_is_inexact_gt_midpoint : Bool := ptr_is_inexact_gt_midpoint_
  let mut rnd_mode : RoundingMode := rnd_mode_
  let mut pfpsf : UInt32 := pfpsf_
  let mut res : U128 := res_
  let mut z_sign : UInt64 := z_sign_
  let mut p_sign : UInt64 := p_sign_
  let mut z_exp : UInt64 := z_exp_
  let mut C3 : U128 := C3_
  let mut C4 : U256 := C4_
  let mut q3 : Int32 := q3_
  let mut q4 : Int32 := q4_
  let mut e3 : Int32 := e3_
  let mut scale : Int32 := scale_
  let mut p34 : Int32 := p34_
  let mut is_midpoint_lt_even : Bool := is_midpoint_lt_even_
  let mut is_midpoint_gt_even : Bool := is_midpoint_gt_even_
  let mut is_inexact_lt_midpoint : Bool := is_inexact_lt_midpoint_
  let mut is_inexact_gt_midpoint : Bool := is_inexact_gt_midpoint_
  let mut incr_exp : Bool := incr_exp_
  let mut lt_half_ulp : Bool := lt_half_ulp_
  let mut eq_half_ulp : Bool := eq_half_ulp_
  let mut gt_half_ulp : Bool := gt_half_ulp_
  let mut R64 : UInt64 := R64_
  let mut P128 : U128 := P128_
  let mut R128 : U128 := R128_
  let mut P192 : U192 := P192_
  let mut R192 : U192 := R192_
  let mut R256 : U256 := R256_
  scale := (p34 - q3)
  if (scale == (0 : Int32)) then
    res := { res with w1 := C3.w1 }
    res := { res with w0 := C3.w0 }
  else
    if (decide (q3 ≤ (0x13 : Int32))) then
      res := (← (if (decide (scale ≤ (0x13 : Int32))) then (do pure (← mul_64x64_to_128MACH C3.w0 (← tbl64 Dec.Gen.BID_TEN2K64 (UInt64.ofInt (toI scale))))) else (do pure (← mul_128x64_to_128 C3.w0 (← tbl128 Dec.Gen.BID_TEN2K128 (UInt64.ofInt (toI ((scale - (0x14 : Int32))))))))))
    else
      res := (← mul_128x64_to_128 (← tbl64 Dec.Gen.BID_TEN2K64 (UInt64.ofInt (toI scale))) C3)
  z_exp := (z_exp - (((UInt64.ofInt (toI scale))) <<< 0x31))
  e3 := (e3 - scale)
  if (decide (q4 ≤ (0x13 : Int32))) then
    let t__26 : UInt64 := (← tbl64 Dec.Gen.BID_MIDPOINT64 (UInt64.ofInt (toI ((q4 - (1 : Int32))))))
    if (let value := t__26; (decide (C4.w0 < value))) then
      let mut value : UInt64 := t__26
      lt_half_ulp := true
    else
      if (let value := t__26; (C4.w0 == value)) then
        let mut value : UInt64 := t__26
        eq_half_ulp := true
      else
        gt_half_ulp := true
  else
    if (decide (q4 ≤ (0x26 : Int32))) then
      if (← (if (C4.w2 == (0 : UInt64)) then (do pure ((← (if (decide (C4.w1 < (← tbl128 Dec.Gen.BID_MIDPOINT128 (UInt64.ofInt (toI ((q4 - (0x14 : Int32)))))).w1)) then pure true else (do pure ((← (if (C4.w1 == (← tbl128 Dec.Gen.BID_MIDPOINT128 (UInt64.ofInt (toI ((q4 - (0x14 : Int32)))))).w1) then (do pure (decide (C4.w0 < (← tbl128 Dec.Gen.BID_MIDPOINT128 (UInt64.ofInt (toI ((q4 - (0x14 : Int32)))))).w0))) else pure false)))))))) else pure false)) then
        lt_half_ulp := true
      else
        if (← (if (← (if (C4.w2 == (0 : UInt64)) then (do pure (C4.w1 == (← tbl128 Dec.Gen.BID_MIDPOINT128 (UInt64.ofInt (toI ((q4 - (0x14 : Int32)))))).w1)) else pure false)) then (do pure (C4.w0 == (← tbl128 Dec.Gen.BID_MIDPOINT128 (UInt64.ofInt (toI ((q4 - (0x14 : Int32)))))).w0)) else pure false)) then
          eq_half_ulp := true
        else
          gt_half_ulp := true
    else
      if (decide (q4 ≤ (0x3a : Int32))) then
        if (← (if (C4.w3 == (0 : UInt64)) then (do pure ((← (if (← (if (decide (C4.w2 < (← tbl192 Dec.Gen.BID_MIDPOINT192 (UInt64.ofInt (toI ((q4 - (0x27 : Int32)))))).w2)) then pure true else (do pure ((← (if (C4.w2 == (← tbl192 Dec.Gen.BID_MIDPOINT192 (UInt64.ofInt (toI ((q4 - (0x27 : Int32)))))).w2) then (do pure (decide (C4.w1 < (← tbl192 Dec.Gen.BID_MIDPOINT192 (UInt64.ofInt (toI ((q4 - (0x27 : Int32)))))).w1))) else pure false)))))) then pure true else (do pure ((← (if (← (if (C4.w2 == (← tbl192 Dec.Gen.BID_MIDPOINT192 (UInt64.ofInt (toI ((q4 - (0x27 : Int32)))))).w2) then (do pure (C4.w1 == (← tbl192 Dec.Gen.BID_MIDPOINT192 (UInt64.ofInt (toI ((q4 - (0x27 : Int32)))))).w1)) else pure false)) then (do pure (decide (C4.w0 < (← tbl192 Dec.Gen.BID_MIDPOINT192 (UInt64.ofInt (toI ((q4 - (0x27 : Int32)))))).w0))) else pure false)))))))) else pure false)) then
          lt_half_ulp := true
        else
          if (← (if (← (if (← (if (C4.w3 == (0 : UInt64)) then (do pure (C4.w2 == (← tbl192 Dec.Gen.BID_MIDPOINT192 (UInt64.ofInt (toI ((q4 - (0x27 : Int32)))))).w2)) else pure false)) then (do pure (C4.w1 == (← tbl192 Dec.Gen.BID_MIDPOINT192 (UInt64.ofInt (toI ((q4 - (0x27 : Int32)))))).w1)) else pure false)) then (do pure (C4.w0 == (← tbl192 Dec.Gen.BID_MIDPOINT192 (UInt64.ofInt (toI ((q4 - (0x27 : Int32)))))).w0)) else pure false)) then
            eq_half_ulp := true
          else
            gt_half_ulp := true
      else
        if (← (if (← (if (← (if (decide (C4.w3 < (← tbl256 Dec.Gen.BID_MIDPOINT256 (UInt64.ofInt (toI ((q4 - (0x3b : Int32)))))).w3)) then pure true else (do pure ((← (if (C4.w3 == (← tbl256 Dec.Gen.BID_MIDPOINT256 (UInt64.ofInt (toI ((q4 - (0x3b : Int32)))))).w3) then (do pure (decide (C4.w2 < (← tbl256 Dec.Gen.BID_MIDPOINT256 (UInt64.ofInt (toI ((q4 - (0x3b : Int32)))))).w2))) else pure false)))))) then pure true else (do pure ((← (if (← (if (C4.w3 == (← tbl256 Dec.Gen.BID_MIDPOINT256 (UInt64.ofInt (toI ((q4 - (0x3b : Int32)))))).w3) then (do pure (C4.w2 == (← tbl256 Dec.Gen.BID_MIDPOINT256 (UInt64.ofInt (toI ((q4 - (0x3b : Int32)))))).w2)) else pure false)) then (do pure (decide (C4.w1 < (← tbl256 Dec.Gen.BID_MIDPOINT256 (UInt64.ofInt (toI ((q4 - (0x3b : Int32)))))).w1))) else pure false)))))) then pure true else (do pure ((← (if (← (if (← (if (C4.w3 == (← tbl256 Dec.Gen.BID_MIDPOINT256 (UInt64.ofInt (toI ((q4 - (0x3b : Int32)))))).w3) then (do pure (C4.w2 == (← tbl256 Dec.Gen.BID_MIDPOINT256 (UInt64.ofInt (toI ((q4 - (0x3b : Int32)))))).w2)) else pure false)) then (do pure (C4.w1 == (← tbl256 Dec.Gen.BID_MIDPOINT256 (UInt64.ofInt (toI ((q4 - (0x3b : Int32)))))).w1)) else pure false)) then (do pure (decide (C4.w0 < (← tbl256 Dec.Gen.BID_MIDPOINT256 (UInt64.ofInt (toI ((q4 - (0x3b : Int32)))))).w0))) else pure false)))))) then
          lt_half_ulp := true
        else
          if (← (if (← (if (← (if (C4.w3 == (← tbl256 Dec.Gen.BID_MIDPOINT256 (UInt64.ofInt (toI ((q4 - (0x3b : Int32)))))).w3) then (do pure (C4.w2 == (← tbl256 Dec.Gen.BID_MIDPOINT256 (UInt64.ofInt (toI ((q4 - (0x3b : Int32)))))).w2)) else pure false)) then (do pure (C4.w1 == (← tbl256 Dec.Gen.BID_MIDPOINT256 (UInt64.ofInt (toI ((q4 - (0x3b : Int32)))))).w1)) else pure false)) then (do pure (C4.w0 == (← tbl256 Dec.Gen.BID_MIDPOINT256 (UInt64.ofInt (toI ((q4 - (0x3b : Int32)))))).w0)) else pure false)) then
            eq_half_ulp := true
          else
            gt_half_ulp := true
  if (p_sign == z_sign) then
    if lt_half_ulp then
      res := { res with w1 := (res.w1 ||| (z_sign ||| ((z_exp &&& c_MASK_EXP)))) }
      is_inexact_lt_midpoint := true
    else
      if (((eq_half_ulp && (((res.w0 &&& (1 : UInt64))) == (1 : UInt64)))) || gt_half_ulp) then
        res := { res with w0 := (res.w0 + 1) }
        if (res.w0 == (0 : UInt64)) then
          res := { res with w1 := (res.w1 + 1) }
        if ((((res.w1 &&& c_MASK_COEFF)) == (0x1ed09bead87c0 : UInt64)) && (res.w0 == (0x378d8e6400000000 : UInt64))) then
          e3 := (e3 + 1)
          z_exp := (((((UInt64.ofInt (toI ((e3 + (0x1820 : Int32)))))) <<< 0x31)) &&& c_MASK_EXP)
          res := { res with w1 := (0x314dc6448d93 : UInt64) }
          res := { res with w0 := (0x38c15b0a00000000 : UInt64) }
        res := { res with w1 := (res.w1 ||| (z_sign ||| ((z_exp &&& c_MASK_EXP)))) }
        if eq_half_ulp then
          is_midpoint_lt_even := true
        else
          is_inexact_gt_midpoint := true
      else
        res := { res with w1 := (res.w1 ||| (z_sign ||| ((z_exp &&& c_MASK_EXP)))) }
        is_midpoint_gt_even := true
    pfpsf := (pfpsf ||| c_StatusFlags_BID_INEXACT_EXCEPTION)
    if ((decide (e3 > c_EXP_MAX_UNBIASED)) && (rnd_mode == RoundingMode.NearestEven)) then
      res := { res with w1 := (z_sign ||| (0x7800000000000000 : UInt64)) }
      res := { res with w0 := (0 : UInt64) }
      pfpsf := (pfpsf ||| (c_StatusFlags_BID_INEXACT_EXCEPTION ||| c_StatusFlags_BID_OVERFLOW_EXCEPTION))
      ptr_is_midpoint_lt_even := is_midpoint_lt_even
      ptr_is_midpoint_gt_even := is_midpoint_gt_even
      ptr_is_inexact_lt_midpoint := is_inexact_lt_midpoint
      ptr_is_inexact_gt_midpoint := is_inexact_gt_midpoint
      return (res, ptr_is_midpoint_lt_even, ptr_is_midpoint_gt_even, ptr_is_inexact_lt_midpoint, ptr_is_inexact_gt_midpoint, pfpsf)
    if (rnd_mode != RoundingMode.NearestEven) then
      let t__27 ← bid_rounding_correction rnd_mode is_inexact_lt_midpoint is_inexact_gt_midpoint is_midpoint_lt_even is_midpoint_gt_even e3 res pfpsf
      res := t__27.1
      pfpsf := t__27.2
      z_exp := (res.w1 &&& c_MASK_EXP)
  else
    if ((res.w1 != (0x314dc6448d93 : UInt64)) || (res.w0 != (0x38c15b0a00000000 : UInt64))) then
      if lt_half_ulp then
        res := { res with w1 := (res.w1 ||| (z_sign ||| ((z_exp &&& c_MASK_EXP)))) }
        is_inexact_gt_midpoint := true
      else
        if (((eq_half_ulp && (((res.w0 &&& (1 : UInt64))) == (1 : UInt64)))) || gt_half_ulp) then
          res := { res with w0 := (res.w0 - 1) }
          if (res.w0 == (0xffffffffffffffff : UInt64)) then
            res := { res with w1 := (res.w1 - 1) }
          res := { res with w1 := (res.w1 ||| (z_sign ||| ((z_exp &&& c_MASK_EXP)))) }
          if eq_half_ulp then
            is_midpoint_gt_even := true
          else
            is_inexact_lt_midpoint := true
        else
          res := { res with w1 := (res.w1 ||| (z_sign ||| ((z_exp &&& c_MASK_EXP)))) }
          is_midpoint_lt_even := true
      if (decide (e3 > c_EXP_MAX_UNBIASED)) then
        if (rnd_mode == RoundingMode.NearestEven) then
          res := { res with w1 := (z_sign ||| (0x7800000000000000 : UInt64)) }
          res := { res with w0 := (0 : UInt64) }
          pfpsf := (pfpsf ||| (c_StatusFlags_BID_INEXACT_EXCEPTION ||| c_StatusFlags_BID_OVERFLOW_EXCEPTION))
        else
          let t__28 ← bid_rounding_correction rnd_mode is_inexact_lt_midpoint is_inexact_gt_midpoint is_midpoint_lt_even is_midpoint_gt_even e3 res pfpsf
          res := t__28.1
          pfpsf := t__28.2
        ptr_is_midpoint_lt_even := is_midpoint_lt_even
        ptr_is_midpoint_gt_even := is_midpoint_gt_even
        ptr_is_inexact_lt_midpoint := is_inexact_lt_midpoint
        ptr_is_inexact_gt_midpoint := is_inexact_gt_midpoint
        return (res, ptr_is_midpoint_lt_even, ptr_is_midpoint_gt_even, ptr_is_inexact_lt_midpoint, ptr_is_inexact_gt_midpoint, pfpsf)
      pfpsf := (pfpsf ||| c_StatusFlags_BID_INEXACT_EXCEPTION)
      if (rnd_mode != RoundingMode.NearestEven) then
        let t__29 ← bid_rounding_correction rnd_mode is_inexact_lt_midpoint is_inexact_gt_midpoint is_midpoint_lt_even is_midpoint_gt_even e3 res pfpsf
        res := t__29.1
        pfpsf := t__29.2
      z_exp := (res.w1 &&& c_MASK_EXP)
    else
      e3 := (Int32.ofInt (toI ((((z_exp >>> 0x31)) - (0x1820 : UInt64)))))
      if (decide (e3 > c_EXP_MIN_UNBIASED)) then
        if (q4 == (1 : Int32)) then
          res := { res with w1 := (0x1ed09bead87c0 : UInt64) }
          res := { res with w0 := ((0x378d8e6400000000 : UInt64) - C4.w0) }
          z_exp := (z_exp - c_EXP_P1)
          e3 := (e3 - 1)
          res := { res with w1 := (res.w1 ||| (z_sign ||| ((z_exp &&& c_MASK_EXP)))) }
        else
          if (decide (q4 ≤ (0x12 : Int32))) then
            let t__30 ← bid_round64_2_18 q4 (q4 - (1 : Int32)) C4.w0 incr_exp is_midpoint_lt_even is_midpoint_gt_even is_inexact_lt_midpoint is_inexact_gt_midpoint
            incr_exp := t__30.2.1
            is_midpoint_lt_even := t__30.2.2.1
            is_midpoint_gt_even := t__30.2.2.2.1
            is_inexact_lt_midpoint := t__30.2.2.2.2.1
            is_inexact_gt_midpoint := t__30.2.2.2.2.2
            R64 := t__30.1
          else
            if (decide (q4 ≤ (0x26 : Int32))) then
              P128 := { P128 with w1 := C4.w1 }
              P128 := { P128 with w0 := C4.w0 }
              let t__31 ← bid_round128_19_38 q4 (q4 - (1 : Int32)) P128 incr_exp is_midpoint_lt_even is_midpoint_gt_even is_inexact_lt_midpoint is_inexact_gt_midpoint
              incr_exp := t__31.2.1
              is_midpoint_lt_even := t__31.2.2.1
              is_midpoint_gt_even := t__31.2.2.2.1
              is_inexact_lt_midpoint := t__31.2.2.2.2.1
              is_inexact_gt_midpoint := t__31.2.2.2.2.2
              R128 := t__31.1
              R64 := R128.w0
            else
              if (decide (q4 ≤ (0x39 : Int32))) then
                P192 := { P192 with w2 := C4.w2 }
                P192 := { P192 with w1 := C4.w1 }
                P192 := { P192 with w0 := C4.w0 }
                let t__32 ← bid_round192_39_57 q4 (q4 - (1 : Int32)) P192 incr_exp is_midpoint_lt_even is_midpoint_gt_even is_inexact_lt_midpoint is_inexact_gt_midpoint
                incr_exp := t__32.2.1
                is_midpoint_lt_even := t__32.2.2.1
                is_midpoint_gt_even := t__32.2.2.2.1
                is_inexact_lt_midpoint := t__32.2.2.2.2.1
                is_inexact_gt_midpoint := t__32.2.2.2.2.2
                R192 := t__32.1
                R64 := R192.w0
              else
                let t__33 ← bid_round256_58_76 q4 (q4 - (1 : Int32)) C4 incr_exp is_midpoint_lt_even is_midpoint_gt_even is_inexact_lt_midpoint is_inexact_gt_midpoint
                incr_exp := t__33.2.1
                is_midpoint_lt_even := t__33.2.2.1
                is_midpoint_gt_even := t__33.2.2.2.1
                is_inexact_lt_midpoint := t__33.2.2.2.2.1
                is_inexact_gt_midpoint := t__33.2.2.2.2.2
                R256 := t__33.1
                R64 := R256.w0
          if ((((!is_midpoint_lt_even) && (!is_midpoint_gt_even)) && (!is_inexact_lt_midpoint)) && (!is_inexact_gt_midpoint)) then
            z_exp := (z_exp - c_EXP_P1)
            e3 := (e3 - 1)
            res := { res with w1 := ((z_sign ||| ((z_exp &&& c_MASK_EXP))) ||| (0x1ed09bead87c0 : UInt64)) }
            res := { res with w0 := ((0x378d8e6400000000 : UInt64) - R64) }
          else
            if incr_exp then
              R64 := (0xa : UInt64)
            res := { res with w1 := (z_sign ||| (0x1ed09bead87c0 : UInt64)) }
            res := { res with w0 := ((0x378d8e6400000000 : UInt64) - R64) }
            z_exp := (z_exp - c_EXP_P1)
            e3 := (e3 - 1)
            if is_inexact_lt_midpoint then
              is_inexact_lt_midpoint := false
              is_inexact_gt_midpoint := true
            else
              if is_inexact_gt_midpoint then
                is_inexact_gt_midpoint := false
                is_inexact_lt_midpoint := true
              else
                if is_midpoint_lt_even then
                  is_midpoint_lt_even := false
                  is_midpoint_gt_even := true
                else
                  if is_midpoint_gt_even then
                    is_midpoint_gt_even := false
                    is_midpoint_lt_even := true
                  else
                    pure ()
            if (decide (e3 > c_EXP_MAX_UNBIASED)) then
              if (rnd_mode == RoundingMode.NearestEven) then
                res := { res with w1 := (z_sign ||| (0x7800000000000000 : UInt64)) }
                res := { res with w0 := (0 : UInt64) }
                pfpsf := (pfpsf ||| (c_StatusFlags_BID_INEXACT_EXCEPTION ||| c_StatusFlags_BID_OVERFLOW_EXCEPTION))
              else
                let t__34 ← bid_rounding_correction rnd_mode is_inexact_lt_midpoint is_inexact_gt_midpoint is_midpoint_lt_even is_midpoint_gt_even e3 res pfpsf
                res := t__34.1
                pfpsf := t__34.2
              ptr_is_midpoint_lt_even := is_midpoint_lt_even
              ptr_is_midpoint_gt_even := is_midpoint_gt_even
              ptr_is_inexact_lt_midpoint := is_inexact_lt_midpoint
              ptr_is_inexact_gt_midpoint := is_inexact_gt_midpoint
              return (res, ptr_is_midpoint_lt_even, ptr_is_midpoint_gt_even, ptr_is_inexact_lt_midpoint, ptr_is_inexact_gt_midpoint, pfpsf)
            pfpsf := (pfpsf ||| c_StatusFlags_BID_INEXACT_EXCEPTION)
            res := { res with w1 := (res.w1 ||| (z_sign ||| ((((UInt64.ofInt (toI ((e3 + (0x1820 : Int32)))))) <<< 0x31)))) }
            if (rnd_mode != RoundingMode.NearestEven) then
              let t__35 ← bid_rounding_correction rnd_mode is_inexact_lt_midpoint is_inexact_gt_midpoint is_midpoint_lt_even is_midpoint_gt_even e3 res pfpsf
              res := t__35.1
              pfpsf := t__35.2
            z_exp := (res.w1 &&& c_MASK_EXP)
        if (decide (e3 > c_EXP_MAX_UNBIASED)) then
          if (rnd_mode == RoundingMode.NearestEven) then
            res := { res with w1 := (z_sign ||| (0x7800000000000000 : UInt64)) }
            res := { res with w0 := (0 : UInt64) }
            pfpsf := (pfpsf ||| (c_StatusFlags_BID_INEXACT_EXCEPTION ||| c_StatusFlags_BID_OVERFLOW_EXCEPTION))
          else
            let t__36 ← bid_rounding_correction rnd_mode is_inexact_lt_midpoint is_inexact_gt_midpoint is_midpoint_lt_even is_midpoint_gt_even e3 res pfpsf
            res := t__36.1
            pfpsf := t__36.2
          ptr_is_midpoint_lt_even := is_midpoint_lt_even
          ptr_is_midpoint_gt_even := is_midpoint_gt_even
          ptr_is_inexact_lt_midpoint := is_inexact_lt_midpoint
          ptr_is_inexact_gt_midpoint := is_inexact_gt_midpoint
          return (res, ptr_is_midpoint_lt_even, ptr_is_midpoint_gt_even, ptr_is_inexact_lt_midpoint, ptr_is_inexact_gt_midpoint, pfpsf)
      else
        if gt_half_ulp then
          res := { res with w1 := (0x314dc6448d93 : UInt64) }
          res := { res with w0 := (0x38c15b09ffffffff : UInt64) }
        else
          res := { res with w1 := (0x314dc6448d93 : UInt64) }
          res := { res with w0 := (0x38c15b0a00000000 : UInt64) }
        res := { res with w1 := (res.w1 ||| (z_sign ||| ((z_exp &&& c_MASK_EXP)))) }
        pfpsf := (pfpsf ||| c_StatusFlags_BID_UNDERFLOW_EXCEPTION)
        if eq_half_ulp then
          is_midpoint_lt_even := true
        else
          if lt_half_ulp then
            is_inexact_gt_midpoint := true
          else
            is_inexact_lt_midpoint := true
        if (rnd_mode != RoundingMode.NearestEven) then
          let t__37 ← bid_rounding_correction rnd_mode is_inexact_lt_midpoint is_inexact_gt_midpoint is_midpoint_lt_even is_midpoint_gt_even e3 res pfpsf
          res := t__37.1
          pfpsf := t__37.2
          z_exp := (res.w1 &&& c_MASK_EXP)
      if (((is_inexact_lt_midpoint || is_inexact_gt_midpoint) || is_midpoint_lt_even) || is_midpoint_gt_even) then
        pfpsf := (pfpsf ||| c_StatusFlags_BID_INEXACT_EXCEPTION)
  res := { res with w1 := (res.w1 ||| (z_sign ||| ((z_exp &&& c_MASK_EXP)))) }
  ptr_is_midpoint_lt_even := is_midpoint_lt_even
  ptr_is_midpoint_gt_even := is_midpoint_gt_even
  ptr_is_inexact_lt_midpoint := is_inexact_lt_midpoint
  ptr_is_inexact_gt_midpoint := is_inexact_gt_midpoint
  return (res, ptr_is_midpoint_lt_even, ptr_is_midpoint_gt_even, ptr_is_inexact_lt_midpoint, ptr_is_inexact_gt_midpoint, pfpsf)

/-- Case (1''B): `res` := the coefficient of `z` padded to 34 digits, the exponent variables lowered (the translated text) -/
def z2Pad {α : Type} (res_ : U128) (z_exp_ : UInt64) (C3_ : U128) (q3_ : Int32) (e3_ : Int32) (scale_ : Int32) (p34_ : Int32) (k : Int32 → U128 → UInt64 → Int32 → Except String α) : Except String α := do
  let mut res : U128 := res_
  let mut z_exp : UInt64 := z_exp_
  let mut C3 : U128 := C3_
  let mut q3 : Int32 := q3_
  let mut e3 : Int32 := e3_
  let mut scale : Int32 := scale_
  let mut p34 : Int32 := p34_
  scale := (p34 - q3)
  if (scale == (0 : Int32)) then
    res := { res with w1 := C3.w1 }
    res := { res with w0 := C3.w0 }
  else
    if (decide (q3 ≤ (0x13 : Int32))) then
      res := (← (if (decide (scale ≤ (0x13 : Int32))) then (do pure (← mul_64x64_to_128MACH C3.w0 (← tbl64 Dec.Gen.BID_TEN2K64 (UInt64.ofInt (toI scale))))) else (do pure (← mul_128x64_to_128 C3.w0 (← tbl128 Dec.Gen.BID_TEN2K128 (UInt64.ofInt (toI ((scale - (0x14 : Int32))))))))))
    else
      res := (← mul_128x64_to_128 (← tbl64 Dec.Gen.BID_TEN2K64 (UInt64.ofInt (toI scale))) C3)
  z_exp := (z_exp - (((UInt64.ofInt (toI scale))) <<< 0x31))
  e3 := (e3 - scale)
  k scale res z_exp e3

/-- Case (1''B): the product against half a unit in the last place of the padded `z` (the translated text) -/
def z2Half {α : Type} (C4_ : U256) (q4_ : Int32) (lt_half_ulp_ : Bool) (eq_half_ulp_ : Bool) (gt_half_ulp_ : Bool) (k : Bool → Bool → Bool → Except String α) : Except String α := do
  let mut C4 : U256 := C4_
  let mut q4 : Int32 := q4_
  let mut lt_half_ulp : Bool := lt_half_ulp_
  let mut eq_half_ulp : Bool := eq_half_ulp_
  let mut gt_half_ulp : Bool := gt_half_ulp_
  if (decide (q4 ≤ (0x13 : Int32))) then
    let t__26 : UInt64 := (← tbl64 Dec.Gen.BID_MIDPOINT64 (UInt64.ofInt (toI ((q4 - (1 : Int32))))))
    if (let value := t__26; (decide (C4.w0 < value))) then
      let mut value : UInt64 := t__26
      lt_half_ulp := true
    else
      if (let value := t__26; (C4.w0 == value)) then
        let mut value : UInt64 := t__26
        eq_half_ulp := true
      else
        gt_half_ulp := true
  else
    if (decide (q4 ≤ (0x26 : Int32))) then
      if (← (if (C4.w2 == (0 : UInt64)) then (do pure ((← (if (decide (C4.w1 < (← tbl128 Dec.Gen.BID_MIDPOINT128 (UInt64.ofInt (toI ((q4 - (0x14 : Int32)))))).w1)) then pure true else (do pure ((← (if (C4.w1 == (← tbl128 Dec.Gen.BID_MIDPOINT128 (UInt64.ofInt (toI ((q4 - (0x14 : Int32)))))).w1) then (do pure (decide (C4.w0 < (← tbl128 Dec.Gen.BID_MIDPOINT128 (UInt64.ofInt (toI ((q4 - (0x14 : Int32)))))).w0))) else pure false)))))))) else pure false)) then
        lt_half_ulp := true
      else
        if (← (if (← (if (C4.w2 == (0 : UInt64)) then (do pure (C4.w1 == (← tbl128 Dec.Gen.BID_MIDPOINT128 (UInt64.ofInt (toI ((q4 - (0x14 : Int32)))))).w1)) else pure false)) then (do pure (C4.w0 == (← tbl128 Dec.Gen.BID_MIDPOINT128 (UInt64.ofInt (toI ((q4 - (0x14 : Int32)))))).w0)) else pure false)) then
          eq_half_ulp := true
        else
          gt_half_ulp := true
    else
      if (decide (q4 ≤ (0x3a : Int32))) then
        if (← (if (C4.w3 == (0 : UInt64)) then (do pure ((← (if (← (if (decide (C4.w2 < (← tbl192 Dec.Gen.BID_MIDPOINT192 (UInt64.ofInt (toI ((q4 - (0x27 : Int32)))))).w2)) then pure true else (do pure ((← (if (C4.w2 == (← tbl192 Dec.Gen.BID_MIDPOINT192 (UInt64.ofInt (toI ((q4 - (0x27 : Int32)))))).w2) then (do pure (decide (C4.w1 < (← tbl192 Dec.Gen.BID_MIDPOINT192 (UInt64.ofInt (toI ((q4 - (0x27 : Int32)))))).w1))) else pure false)))))) then pure true else (do pure ((← (if (← (if (C4.w2 == (← tbl192 Dec.Gen.BID_MIDPOINT192 (UInt64.ofInt (toI ((q4 - (0x27 : Int32)))))).w2) then (do pure (C4.w1 == (← tbl192 Dec.Gen.BID_MIDPOINT192 (UInt64.ofInt (toI ((q4 - (0x27 : Int32)))))).w1)) else pure false)) then (do pure (decide (C4.w0 < (← tbl192 Dec.Gen.BID_MIDPOINT192 (UInt64.ofInt (toI ((q4 - (0x27 : Int32)))))).w0))) else pure false)))))))) else pure false)) then
          lt_half_ulp := true
        else
          if (← (if (← (if (← (if (C4.w3 == (0 : UInt64)) then (do pure (C4.w2 == (← tbl192 Dec.Gen.BID_MIDPOINT192 (UInt64.ofInt (toI ((q4 - (0x27 : Int32)))))).w2)) else pure false)) then (do pure (C4.w1 == (← tbl192 Dec.Gen.BID_MIDPOINT192 (UInt64.ofInt (toI ((q4 - (0x27 : Int32)))))).w1)) else pure false)) then (do pure (C4.w0 == (← tbl192 Dec.Gen.BID_MIDPOINT192 (UInt64.ofInt (toI ((q4 - (0x27 : Int32)))))).w0)) else pure false)) then
            eq_half_ulp := true
          else
            gt_half_ulp := true
      else
        if (← (if (← (if (← (if (decide (C4.w3 < (← tbl256 Dec.Gen.BID_MIDPOINT256 (UInt64.ofInt (toI ((q4 - (0x3b : Int32)))))).w3)) then pure true else (do pure ((← (if (C4.w3 == (← tbl256 Dec.Gen.BID_MIDPOINT256 (UInt64.ofInt (toI ((q4 - (0x3b : Int32)))))).w3) then (do pure (decide (C4.w2 < (← tbl256 Dec.Gen.BID_MIDPOINT256 (UInt64.ofInt (toI ((q4 - (0x3b : Int32)))))).w2))) else pure false)))))) then pure true else (do pure ((← (if (← (if (C4.w3 == (← tbl256 Dec.Gen.BID_MIDPOINT256 (UInt64.ofInt (toI ((q4 - (0x3b : Int32)))))).w3) then (do pure (C4.w2 == (← tbl256 Dec.Gen.BID_MIDPOINT256 (UInt64.ofInt (toI ((q4 - (0x3b : Int32)))))).w2)) else pure false)) then (do pure (decide (C4.w1 < (← tbl256 Dec.Gen.BID_MIDPOINT256 (UInt64.ofInt (toI ((q4 - (0x3b : Int32)))))).w1))) else pure false)))))) then pure true else (do pure ((← (if (← (if (← (if (C4.w3 == (← tbl256 Dec.Gen.BID_MIDPOINT256 (UInt64.ofInt (toI ((q4 - (0x3b : Int32)))))).w3) then (do pure (C4.w2 == (← tbl256 Dec.Gen.BID_MIDPOINT256 (UInt64.ofInt (toI ((q4 - (0x3b : Int32)))))).w2)) else pure false)) then (do pure (C4.w1 == (← tbl256 Dec.Gen.BID_MIDPOINT256 (UInt64.ofInt (toI ((q4 - (0x3b : Int32)))))).w1)) else pure false)) then (do pure (decide (C4.w0 < (← tbl256 Dec.Gen.BID_MIDPOINT256 (UInt64.ofInt (toI ((q4 - (0x3b : Int32)))))).w0))) else pure false)))))) then
          lt_half_ulp := true
        else
          if (← (if (← (if (← (if (C4.w3 == (← tbl256 Dec.Gen.BID_MIDPOINT256 (UInt64.ofInt (toI ((q4 - (0x3b : Int32)))))).w3) then (do pure (C4.w2 == (← tbl256 Dec.Gen.BID_MIDPOINT256 (UInt64.ofInt (toI ((q4 - (0x3b : Int32)))))).w2)) else pure false)) then (do pure (C4.w1 == (← tbl256 Dec.Gen.BID_MIDPOINT256 (UInt64.ofInt (toI ((q4 - (0x3b : Int32)))))).w1)) else pure false)) then (do pure (C4.w0 == (← tbl256 Dec.Gen.BID_MIDPOINT256 (UInt64.ofInt (toI ((q4 - (0x3b : Int32)))))).w0)) else pure false)) then
            eq_half_ulp := true
          else
            gt_half_ulp := true
  k lt_half_ulp eq_half_ulp gt_half_ulp

/-- Case (1''B), equal signs (the translated text) -/
def z2Same (ptr_is_midpoint_lt_even_ : Bool) (ptr_is_midpoint_gt_even_ : Bool) (ptr_is_inexact_lt_midpoint_ : Bool) (ptr_is_inexact_gt_midpoint_ : Bool) (rnd_mode_ : RoundingMode) (pfpsf_ : UInt32) (res_ : U128) (z_sign_ : UInt64) (z_exp_ : UInt64) (e3_ : Int32) (is_midpoint_lt_even_ : Bool) (is_midpoint_gt_even_ : Bool) (is_inexact_lt_midpoint_ : Bool) (is_inexact_gt_midpoint_ : Bool) (lt_half_ulp_ : Bool) (eq_half_ulp_ : Bool) (gt_half_ulp_ : Bool) (k : U128 → UInt64 → UInt32 → Bool → Bool → Bool → Bool → Except String (U128 × Bool × Bool × Bool × Bool × UInt32)) : Except String (U128 × Bool × Bool × Bool × Bool × UInt32) := do
  let mut ptr_is_midpoint_lt_even : Bool := ptr_is_midpoint_lt_even_
  let mut ptr_is_midpoint_gt_even : Bool := ptr_is_midpoint_gt_even_
  let mut ptr_is_inexact_lt_midpoint : Bool := ptr_is_inexact_lt_midpoint_
  let mut ptr_is_inexact_gt_midpoint : Bool := ptr_is_inexact_gt_midpoint_
  let mut rnd_mode : RoundingMode := rnd_mode_
  let mut pfpsf : UInt32 := pfpsf_
  let mut res : U128 := res_
  let mut z_sign : UInt64 := z_sign_
  let mut z_exp : UInt64 := z_exp_
  let mut e3 : Int32 := e3_
  let mut is_midpoint_lt_even : Bool := is_midpoint_lt_even_
  let mut is_midpoint_gt_even : Bool := is_midpoint_gt_even_
  let mut is_inexact_lt_midpoint : Bool := is_inexact_lt_midpoint_
  let mut is_inexact_gt_midpoint : Bool := is_inexact_gt_midpoint_
  let mut lt_half_ulp : Bool := lt_half_ulp_
  let mut eq_half_ulp : Bool := eq_half_ulp_
  let mut gt_half_ulp : Bool := gt_half_ulp_
  if lt_half_ulp then
    res := { res with w1 := (res.w1 ||| (z_sign ||| ((z_exp &&& c_MASK_EXP)))) }
    is_inexact_lt_midpoint := true
  else
    if (((eq_half_ulp && (((res.w0 &&& (1 : UInt64))) == (1 : UInt64)))) || gt_half_ulp) then
      res := { res with w0 := (res.w0 + 1) }
      if (res.w0 == (0 : UInt64)) then
        res := { res with w1 := (res.w1 + 1) }
      if ((((res.w1 &&& c_MASK_COEFF)) == (0x1ed09bead87c0 : UInt64)) && (res.w0 == (0x378d8e6400000000 : UInt64))) then
        e3 := (e3 + 1)
        z_exp := (((((UInt64.ofInt (toI ((e3 + (0x1820 : Int32)))))) <<< 0x31)) &&& c_MASK_EXP)
        res := { res with w1 := (0x314dc6448d93 : UInt64) }
        res := { res with w0 := (0x38c15b0a00000000 : UInt64) }
      res := { res with w1 := (res.w1 ||| (z_sign ||| ((z_exp &&& c_MASK_EXP)))) }
      if eq_half_ulp then
        is_midpoint_lt_even := true
      else
        is_inexact_gt_midpoint := true
    else
      res := { res with w1 := (res.w1 ||| (z_sign ||| ((z_exp &&& c_MASK_EXP)))) }
      is_midpoint_gt_even := true
  pfpsf := (pfpsf ||| c_StatusFlags_BID_INEXACT_EXCEPTION)
  if ((decide (e3 > c_EXP_MAX_UNBIASED)) && (rnd_mode == RoundingMode.NearestEven)) then
    res := { res with w1 := (z_sign ||| (0x7800000000000000 : UInt64)) }
    res := { res with w0 := (0 : UInt64) }
    pfpsf := (pfpsf ||| (c_StatusFlags_BID_INEXACT_EXCEPTION ||| c_StatusFlags_BID_OVERFLOW_EXCEPTION))
    ptr_is_midpoint_lt_even := is_midpoint_lt_even
    ptr_is_midpoint_gt_even := is_midpoint_gt_even
    ptr_is_inexact_lt_midpoint := is_inexact_lt_midpoint
    ptr_is_inexact_gt_midpoint := is_inexact_gt_midpoint
    return (res, ptr_is_midpoint_lt_even, ptr_is_midpoint_gt_even, ptr_is_inexact_lt_midpoint, ptr_is_inexact_gt_midpoint, pfpsf)
  if (rnd_mode != RoundingMode.NearestEven) then
    let t__27 ← bid_rounding_correction rnd_mode is_inexact_lt_midpoint is_inexact_gt_midpoint is_midpoint_lt_even is_midpoint_gt_even e3 res pfpsf
    res := t__27.1
    pfpsf := t__27.2
    z_exp := (res.w1 &&& c_MASK_EXP)
  k res z_exp pfpsf is_midpoint_lt_even is_midpoint_gt_even is_inexact_lt_midpoint is_inexact_gt_midpoint

/-- Case (1''B), opposite signs, the padded `z` not `10^33` (the translated text) -/
def z2Diff (ptr_is_midpoint_lt_even_ : Bool) (ptr_is_midpoint_gt_even_ : Bool) (ptr_is_inexact_lt_midpoint_ : Bool) (ptr_is_inexact_gt_midpoint_ : Bool) (rnd_mode_ : RoundingMode) (pfpsf_ : UInt32) (res_ : U128) (z_sign_ : UInt64) (z_exp_ : UInt64) (e3_ : Int32) (is_midpoint_lt_even_ : Bool) (is_midpoint_gt_even_ : Bool) (is_inexact_lt_midpoint_ : Bool) (is_inexact_gt_midpoint_ : Bool) (lt_half_ulp_ : Bool) (eq_half_ulp_ : Bool) (gt_half_ulp_ : Bool) (k : U128 → UInt64 → UInt32 → Bool → Bool → Bool → Bool → Except String (U128 × Bool × Bool × Bool × Bool × UInt32)) : Except String (U128 × Bool × Bool × Bool × Bool × UInt32) := do
  let mut ptr_is_midpoint_lt_even : Bool := ptr_is_midpoint_lt_even_
  let mut ptr_is_midpoint_gt_even : Bool := ptr_is_midpoint_gt_even_
  let mut ptr_is_inexact_lt_midpoint : Bool := ptr_is_inexact_lt_midpoint_
  let mut ptr_is_inexact_gt_midpoint : Bool := ptr_is_inexact_gt_midpoint_
  let mut rnd_mode : RoundingMode := rnd_mode_
  let mut pfpsf : UInt32 := pfpsf_
  let mut res : U128 := res_
  let mut z_sign : UInt64 := z_sign_
  let mut z_exp : UInt64 := z_exp_
  let mut e3 : Int32 := e3_
  let mut is_midpoint_lt_even : Bool := is_midpoint_lt_even_
  let mut is_midpoint_gt_even : Bool := is_midpoint_gt_even_
  let mut is_inexact_lt_midpoint : Bool := is_inexact_lt_midpoint_
  let mut is_inexact_gt_midpoint : Bool := is_inexact_gt_midpoint_
  let mut lt_half_ulp : Bool := lt_half_ulp_
  let mut eq_half_ulp : Bool := eq_half_ulp_
  let mut gt_half_ulp : Bool := gt_half_ulp_
  if lt_half_ulp then
    res := { res with w1 := (res.w1 ||| (z_sign ||| ((z_exp &&& c_MASK_EXP)))) }
    is_inexact_gt_midpoint := true
  else
    if (((eq_half_ulp && (((res.w0 &&& (1 : UInt64))) == (1 : UInt64)))) || gt_half_ulp) then
      res := { res with w0 := (res.w0 - 1) }
      if (res.w0 == (0xffffffffffffffff : UInt64)) then
        res := { res with w1 := (res.w1 - 1) }
      res := { res with w1 := (res.w1 ||| (z_sign ||| ((z_exp &&& c_MASK_EXP)))) }
      if eq_half_ulp then
        is_midpoint_gt_even := true
      else
        is_inexact_lt_midpoint := true
    else
      res := { res with w1 := (res.w1 ||| (z_sign ||| ((z_exp &&& c_MASK_EXP)))) }
      is_midpoint_lt_even := true
  if (decide (e3 > c_EXP_MAX_UNBIASED)) then
    if (rnd_mode == RoundingMode.NearestEven) then
      res := { res with w1 := (z_sign ||| (0x7800000000000000 : UInt64)) }
      res := { res with w0 := (0 : UInt64) }
      pfpsf := (pfpsf ||| (c_StatusFlags_BID_INEXACT_EXCEPTION ||| c_StatusFlags_BID_OVERFLOW_EXCEPTION))
    else
      let t__28 ← bid_rounding_correction rnd_mode is_inexact_lt_midpoint is_inexact_gt_midpoint is_midpoint_lt_even is_midpoint_gt_even e3 res pfpsf
      res := t__28.1
      pfpsf := t__28.2
    ptr_is_midpoint_lt_even := is_midpoint_lt_even
    ptr_is_midpoint_gt_even := is_midpoint_gt_even
    ptr_is_inexact_lt_midpoint := is_inexact_lt_midpoint
    ptr_is_inexact_gt_midpoint := is_inexact_gt_midpoint
    return (res, ptr_is_midpoint_lt_even, ptr_is_midpoint_gt_even, ptr_is_inexact_lt_midpoint, ptr_is_inexact_gt_midpoint, pfpsf)
  pfpsf := (pfpsf ||| c_StatusFlags_BID_INEXACT_EXCEPTION)
  if (rnd_mode != RoundingMode.NearestEven) then
    let t__29 ← bid_rounding_correction rnd_mode is_inexact_lt_midpoint is_inexact_gt_midpoint is_midpoint_lt_even is_midpoint_gt_even e3 res pfpsf
    res := t__29.1
    pfpsf := t__29.2
  z_exp := (res.w1 &&& c_MASK_EXP)
  k res z_exp pfpsf is_midpoint_lt_even is_midpoint_gt_even is_inexact_lt_midpoint is_inexact_gt_midpoint

/-- Case (1''B), opposite signs, the padded `z` = `10^33` (the translated text) -/
def z2Pow (ptr_is_midpoint_lt_even_ : Bool) (ptr_is_midpoint_gt_even_ : Bool) (ptr_is_inexact_lt_midpoint_ : Bool) (ptr_is_inexact_gt_midpoint_ : Bool) (rnd_mode_ : RoundingMode) (pfpsf_ : UInt32) (res_ : U128) (z_sign_ : UInt64) (z_exp_ : UInt64) (C4_ : U256) (q4_ : Int32) (e3_ : Int32) (is_midpoint_lt_even_ : Bool) (is_midpoint_gt_even_ : Bool) (is_inexact_lt_midpoint_ : Bool) (is_inexact_gt_midpoint_ : Bool) (incr_exp_ : Bool) (lt_half_ulp_ : Bool) (eq_half_ulp_ : Bool) (gt_half_ulp_ : Bool) (R64_ : UInt64) (P128_ : U128) (R128_ : U128) (P192_ : U192) (R192_ : U192) (R256_ : U256) (k : U128 → UInt64 → UInt32 → Bool → Bool → Bool → Bool → Except String (U128 × Bool × Bool × Bool × Bool × UInt32)) : Except String (U128 × Bool × Bool × Bool × Bool × UInt32) := do
  let mut ptr_is_midpoint_lt_even : Bool := ptr_is_midpoint_lt_even_
  let mut ptr_is_midpoint_gt_even : Bool := ptr_is_midpoint_gt_even_
  let mut ptr_is_inexact_lt_midpoint : Bool := ptr_is_inexact_lt_midpoint_
  let mut ptr_is_inexact_gt_midpoint : Bool := ptr_is_inexact_gt_midpoint_
  let mut rnd_mode : RoundingMode := rnd_mode_
  let mut pfpsf : UInt32 := pfpsf_
  let mut res : U128 := res_
  let mut z_sign : UInt64 := z_sign_
  let mut z_exp : UInt64 := z_exp_
  let mut C4 : U256 := C4_
  let mut q4 : Int32 := q4_
  let mut e3 : Int32 := e3_
  let mut is_midpoint_lt_even : Bool := is_midpoint_lt_even_
  let mut is_midpoint_gt_even : Bool := is_midpoint_gt_even_
  let mut is_inexact_lt_midpoint : Bool := is_inexact_lt_midpoint_
  let mut is_inexact_gt_midpoint : Bool := is_inexact_gt_midpoint_
  let mut incr_exp : Bool := incr_exp_
  let mut lt_half_ulp : Bool := lt_half_ulp_
  let mut eq_half_ulp : Bool := eq_half_ulp_
  let mut gt_half_ulp : Bool := gt_half_ulp_
  let mut R64 : UInt64 := R64_
  let mut P128 : U128 := P128_
  let mut R128 : U128 := R128_
  let mut P192 : U192 := P192_
  let mut R192 : U192 := R192_
  let mut R256 : U256 := R256_
  e3 := (Int32.ofInt (toI ((((z_exp >>> 0x31)) - (0x1820 : UInt64)))))
  if (decide (e3 > c_EXP_MIN_UNBIASED)) then
    if (q4 == (1 : Int32)) then
      res := { res with w1 := (0x1ed09bead87c0 : UInt64) }
      res := { res with w0 := ((0x378d8e6400000000 : UInt64) - C4.w0) }
      z_exp := (z_exp - c_EXP_P1)
      e3 := (e3 - 1)
      res := { res with w1 := (res.w1 ||| (z_sign ||| ((z_exp &&& c_MASK_EXP)))) }
    else
      if (decide (q4 ≤ (0x12 : Int32))) then
        let t__30 ← bid_round64_2_18 q4 (q4 - (1 : Int32)) C4.w0 incr_exp is_midpoint_lt_even is_midpoint_gt_even is_inexact_lt_midpoint is_inexact_gt_midpoint
        incr_exp := t__30.2.1
        is_midpoint_lt_even := t__30.2.2.1
        is_midpoint_gt_even := t__30.2.2.2.1
        is_inexact_lt_midpoint := t__30.2.2.2.2.1
        is_inexact_gt_midpoint := t__30.2.2.2.2.2
        R64 := t__30.1
      else
        if (decide (q4 ≤ (0x26 : Int32))) then
          P128 := { P128 with w1 := C4.w1 }
          P128 := { P128 with w0 := C4.w0 }
          let t__31 ← bid_round128_19_38 q4 (q4 - (1 : Int32)) P128 incr_exp is_midpoint_lt_even is_midpoint_gt_even is_inexact_lt_midpoint is_inexact_gt_midpoint
          incr_exp := t__31.2.1
          is_midpoint_lt_even := t__31.2.2.1
          is_midpoint_gt_even := t__31.2.2.2.1
          is_inexact_lt_midpoint := t__31.2.2.2.2.1
          is_inexact_gt_midpoint := t__31.2.2.2.2.2
          R128 := t__31.1
          R64 := R128.w0
        else
          if (decide (q4 ≤ (0x39 : Int32))) then
            P192 := { P192 with w2 := C4.w2 }
            P192 := { P192 with w1 := C4.w1 }
            P192 := { P192 with w0 := C4.w0 }
            let t__32 ← bid_round192_39_57 q4 (q4 - (1 : Int32)) P192 incr_exp is_midpoint_lt_even is_midpoint_gt_even is_inexact_lt_midpoint is_inexact_gt_midpoint
            incr_exp := t__32.2.1
            is_midpoint_lt_even := t__32.2.2.1
            is_midpoint_gt_even := t__32.2.2.2.1
            is_inexact_lt_midpoint := t__32.2.2.2.2.1
            is_inexact_gt_midpoint := t__32.2.2.2.2.2
            R192 := t__32.1
            R64 := R192.w0
          else
            let t__33 ← bid_round256_58_76 q4 (q4 - (1 : Int32)) C4 incr_exp is_midpoint_lt_even is_midpoint_gt_even is_inexact_lt_midpoint is_inexact_gt_midpoint
            incr_exp := t__33.2.1
            is_midpoint_lt_even := t__33.2.2.1
            is_midpoint_gt_even := t__33.2.2.2.1
            is_inexact_lt_midpoint := t__33.2.2.2.2.1
            is_inexact_gt_midpoint := t__33.2.2.2.2.2
            R256 := t__33.1
            R64 := R256.w0
      if ((((!is_midpoint_lt_even) && (!is_midpoint_gt_even)) && (!is_inexact_lt_midpoint)) && (!is_inexact_gt_midpoint)) then
        z_exp := (z_exp - c_EXP_P1)
        e3 := (e3 - 1)
        res := { res with w1 := ((z_sign ||| ((z_exp &&& c_MASK_EXP))) ||| (0x1ed09bead87c0 : UInt64)) }
        res := { res with w0 := ((0x378d8e6400000000 : UInt64) - R64) }
      else
        if incr_exp then
          R64 := (0xa : UInt64)
        res := { res with w1 := (z_sign ||| (0x1ed09bead87c0 : UInt64)) }
        res := { res with w0 := ((0x378d8e6400000000 : UInt64) - R64) }
        z_exp := (z_exp - c_EXP_P1)
        e3 := (e3 - 1)
        if is_inexact_lt_midpoint then
          is_inexact_lt_midpoint := false
          is_inexact_gt_midpoint := true
        else
          if is_inexact_gt_midpoint then
            is_inexact_gt_midpoint := false
            is_inexact_lt_midpoint := true
          else
            if is_midpoint_lt_even then
              is_midpoint_lt_even := false
              is_midpoint_gt_even := true
            else
              if is_midpoint_gt_even then
                is_midpoint_gt_even := false
                is_midpoint_lt_even := true
              else
                pure ()
        if (decide (e3 > c_EXP_MAX_UNBIASED)) then
          if (rnd_mode == RoundingMode.NearestEven) then
            res := { res with w1 := (z_sign ||| (0x7800000000000000 : UInt64)) }
            res := { res with w0 := (0 : UInt64) }
            pfpsf := (pfpsf ||| (c_StatusFlags_BID_INEXACT_EXCEPTION ||| c_StatusFlags_BID_OVERFLOW_EXCEPTION))
          else
            let t__34 ← bid_rounding_correction rnd_mode is_inexact_lt_midpoint is_inexact_gt_midpoint is_midpoint_lt_even is_midpoint_gt_even e3 res pfpsf
            res := t__34.1
            pfpsf := t__34.2
          ptr_is_midpoint_lt_even := is_midpoint_lt_even
          ptr_is_midpoint_gt_even := is_midpoint_gt_even
          ptr_is_inexact_lt_midpoint := is_inexact_lt_midpoint
          ptr_is_inexact_gt_midpoint := is_inexact_gt_midpoint
          return (res, ptr_is_midpoint_lt_even, ptr_is_midpoint_gt_even, ptr_is_inexact_lt_midpoint, ptr_is_inexact_gt_midpoint, pfpsf)
        pfpsf := (pfpsf ||| c_StatusFlags_BID_INEXACT_EXCEPTION)
        res := { res with w1 := (res.w1 ||| (z_sign ||| ((((UInt64.ofInt (toI ((e3 + (0x1820 : Int32)))))) <<< 0x31)))) }
        if (rnd_mode != RoundingMode.NearestEven) then
          let t__35 ← bid_rounding_correction rnd_mode is_inexact_lt_midpoint is_inexact_gt_midpoint is_midpoint_lt_even is_midpoint_gt_even e3 res pfpsf
          res := t__35.1
          pfpsf := t__35.2
        z_exp := (res.w1 &&& c_MASK_EXP)
    if (decide (e3 > c_EXP_MAX_UNBIASED)) then
      if (rnd_mode == RoundingMode.NearestEven) then
        res := { res with w1 := (z_sign ||| (0x7800000000000000 : UInt64)) }
        res := { res with w0 := (0 : UInt64) }
        pfpsf := (pfpsf ||| (c_StatusFlags_BID_INEXACT_EXCEPTION ||| c_StatusFlags_BID_OVERFLOW_EXCEPTION))
      else
        let t__36 ← bid_rounding_correction rnd_mode is_inexact_lt_midpoint is_inexact_gt_midpoint is_midpoint_lt_even is_midpoint_gt_even e3 res pfpsf
        res := t__36.1
        pfpsf := t__36.2
      ptr_is_midpoint_lt_even := is_midpoint_lt_even
      ptr_is_midpoint_gt_even := is_midpoint_gt_even
      ptr_is_inexact_lt_midpoint := is_inexact_lt_midpoint
      ptr_is_inexact_gt_midpoint := is_inexact_gt_midpoint
      return (res, ptr_is_midpoint_lt_even, ptr_is_midpoint_gt_even, ptr_is_inexact_lt_midpoint, ptr_is_inexact_gt_midpoint, pfpsf)
  else
    if gt_half_ulp then
      res := { res with w1 := (0x314dc6448d93 : UInt64) }
      res := { res with w0 := (0x38c15b09ffffffff : UInt64) }
    else
      res := { res with w1 := (0x314dc6448d93 : UInt64) }
      res := { res with w0 := (0x38c15b0a00000000 : UInt64) }
    res := { res with w1 := (res.w1 ||| (z_sign ||| ((z_exp &&& c_MASK_EXP)))) }
    pfpsf := (pfpsf ||| c_StatusFlags_BID_UNDERFLOW_EXCEPTION)
    if eq_half_ulp then
      is_midpoint_lt_even := true
    else
      if lt_half_ulp then
        is_inexact_gt_midpoint := true
      else
        is_inexact_lt_midpoint := true
    if (rnd_mode != RoundingMode.NearestEven) then
      let t__37 ← bid_rounding_correction rnd_mode is_inexact_lt_midpoint is_inexact_gt_midpoint is_midpoint_lt_even is_midpoint_gt_even e3 res pfpsf
      res := t__37.1
      pfpsf := t__37.2
      z_exp := (res.w1 &&& c_MASK_EXP)
  if (((is_inexact_lt_midpoint || is_inexact_gt_midpoint) || is_midpoint_lt_even) || is_midpoint_gt_even) then
    pfpsf := (pfpsf ||| c_StatusFlags_BID_INEXACT_EXCEPTION)
  k res z_exp pfpsf is_midpoint_lt_even is_midpoint_gt_even is_inexact_lt_midpoint is_inexact_gt_midpoint

/-- Case (1''B): sign and exponent OR-ed in once more, return (the translated text) -/
def z2Fin (ptr_is_midpoint_lt_even_ : Bool) (ptr_is_midpoint_gt_even_ : Bool) (ptr_is_inexact_lt_midpoint_ : Bool) (ptr_is_inexact_gt_midpoint_ : Bool) (pfpsf_ : UInt32) (res_ : U128) (z_sign_ : UInt64) (z_exp_ : UInt64) (is_midpoint_lt_even_ : Bool) (is_midpoint_gt_even_ : Bool) (is_inexact_lt_midpoint_ : Bool) (is_inexact_gt_midpoint_ : Bool) : Except String (U128 × Bool × Bool × Bool × Bool × UInt32) := do
  let mut ptr_is_midpoint_lt_even : Bool := ptr_is_midpoint_lt_even_
  let mut ptr_is_midpoint_gt_even : Bool := ptr_is_midpoint_gt_even_
  let mut ptr_is_inexact_lt_midpoint : Bool := ptr_is_inexact_lt_midpoint_
  let mut ptr_is_inexact_gt_midpoint : Bool := ptr_is_inexact_gt_midpoint_
  let mut pfpsf : UInt32 := pfpsf_
  let mut res : U128 := res_
  let mut z_sign : UInt64 := z_sign_
  let mut z_exp : UInt64 := z_exp_
  let mut is_midpoint_lt_even : Bool := is_midpoint_lt_even_
  let mut is_midpoint_gt_even : Bool := is_midpoint_gt_even_
  let mut is_inexact_lt_midpoint : Bool := is_inexact_lt_midpoint_
  let mut is_inexact_gt_midpoint : Bool := is_inexact_gt_midpoint_
  res := { res with w1 := (res.w1 ||| (z_sign ||| ((z_exp &&& c_MASK_EXP)))) }
  ptr_is_midpoint_lt_even := is_midpoint_lt_even
  ptr_is_midpoint_gt_even := is_midpoint_gt_even
  ptr_is_inexact_lt_midpoint := is_inexact_lt_midpoint
  ptr_is_inexact_gt_midpoint := is_inexact_gt_midpoint
  return (res, ptr_is_midpoint_lt_even, ptr_is_midpoint_gt_even, ptr_is_inexact_lt_midpoint, ptr_is_inexact_gt_midpoint, pfpsf)

set_option maxRecDepth 8000 in
theorem caseZ2_eq (pml pmg pil pig : Bool) (m : RoundingMode) (pfpsf : UInt32) (res : U128) (z_sign p_sign z_exp : UInt64)
    (C3 : U128) (C4 : U256) (q3 q4 e3 scale p34 : Int32) (ml mg il ig incr lt eq gt : Bool) (R64 : UInt64) (P128 R128 : U128)
    (P192 R192 : U192) (R256 : U256) :
    caseZ2 pml pmg pil pig m pfpsf res z_sign p_sign z_exp C3 C4 q3 q4 e3 scale p34 ml mg il ig incr lt eq gt R64 P128 R128
        P192 R192 R256 =
      z2Pad res z_exp C3 q3 e3 scale p34 fun scale res z_exp e3 =>
        z2Half C4 q4 lt eq gt fun lt eq gt =>
          if (p_sign == z_sign) = true then
            z2Same pml pmg pil pig m pfpsf res z_sign z_exp e3 ml mg il ig lt eq gt fun res z_exp pfpsf ml mg il ig =>
              z2Fin pml pmg pil pig pfpsf res z_sign z_exp ml mg il ig
          else if ((res.w1 != (0x314dc6448d93 : UInt64)) || (res.w0 != (0x38c15b0a00000000 : UInt64))) = true then
            z2Diff pml pmg pil pig m pfpsf res z_sign z_exp e3 ml mg il ig lt eq gt fun res z_exp pfpsf ml mg il ig =>
              z2Fin pml pmg pil pig pfpsf res z_sign z_exp ml mg il ig
          else
            z2Pow pml pmg pil pig m pfpsf res z_sign z_exp C4 q4 e3 ml mg il ig incr lt eq gt R64 P128 R128 P192 R192 R256
              fun res z_exp pfpsf ml mg il ig => z2Fin pml pmg pil pig pfpsf res z_sign z_exp ml mg il ig := by
  rfl


/-- **Case (1''B), the padding**: the words of `c3·10^(34 − q3)`, the exponent variables lowered -/
theorem z2Pad_spec {α : Type} (res : U128) (z_exp : UInt64) (C3 : U128) (q3 e3 scale p34 : Int32)
    (k : Int32 → U128 → UInt64 → Int32 → Except String α) (c3 : Nat) (E3 : Int)
    (hC3 : C3.w1.toNat * 2^64 + C3.w0.toNat = c3) (hc0 : 0 < c3) (hc34 : c3 < 10 ^ 34) (hq3 : q3.toInt = ndigits c3)
    (he3 : e3.toInt = E3) (hE2 : E3 ≤ 12222) (hS2 : ((34 - ndigits c3 : Nat) : Int) ≤ E3 + 6176)
    (hze : z_exp.toNat = (E3 + 6176).toNat * 2^49) (hp : p34 = 34) :
    ∃ (sc' : Int32) (r : U128) (zx' : UInt64) (e3' : Int32),
      z2Pad res z_exp C3 q3 e3 scale p34 k = k sc' r zx' e3' ∧
      r.w1.toNat * 2^64 + r.w0.toNat = c3 * 10 ^ (34 - ndigits c3) ∧
      zx'.toNat = (E3 - (34 - ndigits c3 : Nat) + 6176).toNat * 2^49 ∧ e3'.toInt = E3 - (34 - ndigits c3 : Nat) := by
  have hQ34 : ndigits c3 ≤ 34 := Dec.C08GenRoundIntegral.ndigits_le_34 c3 (by rw [Dec.C13PackHelpers.P34_eq']; exact hc34)
  have hQ1 := ndigits_pos hc0
  obtain ⟨S, hS⟩ : ∃ S, S = 34 - ndigits c3 := ⟨_, rfl⟩
  rw [← hS] at hS2 ⊢
  have hsc : (p34 - q3).toInt = S := by rw [hp, i32_sub _ _ (by decide) (by omega), hq3]; show (34 : Int) - _ = _; omega
  have he' : (e3 - (p34 - q3)).toInt = E3 - S := by rw [i32_sub _ _ (by omega) (by omega), he3, hsc]
  have hze' := exp_after' z_exp (p34 - q3) (E3 + 6176).toNat S hze hsc (by omega) (by omega)
  have hzt : (z_exp - (UInt64.ofInt (toI (p34 - q3))) <<< 49).toNat = (E3 - S + 6176).toNat * 2^49 := by
    rw [hze']; congr 1; omega
  by_cases hS0 : S = 0
  · have hz : (p34 - q3 == 0) = true := by rw [beq_zero_i32 _ S hsc]; simpa using hS0
    refine ⟨p34 - q3, ⟨C3.w0, C3.w1⟩, _, _, ?_, by rw [hS0]; simpa using hC3, hzt, he'⟩
    simp only [z2Pad, bind, pure, Except.pure, bind_ok', hz, if_true]
  · have hz : ¬ (p34 - q3 == 0) = true := by rw [beq_zero_i32 _ S hsc]; simpa using hS0
    obtain ⟨d1, d2, g1, g2, g3⟩ := pad_facts q3 (p34 - q3) C3 c3 (ndigits c3) S hC3 hq3 hsc rfl hc0 (by omega) (by omega)
    by_cases c1 : ndigits c3 ≤ 19
    · by_cases c2 : S ≤ 19
      · obtain ⟨v, r, hv, hr, hrv⟩ := g1 c1 c2
        refine ⟨p34 - q3, r, _, _, ?_, hrv, hzt, he'⟩
        simp only [z2Pad, bind, pure, Except.pure, bind_ok', hz, if_false, if_true, Bool.false_eq_true, d1, d2, c1, c2,
          decide_true, hv, hr]
      · obtain ⟨v, r, hv, hr, hrv⟩ := g2 c1 (by omega)
        refine ⟨p34 - q3, r, _, _, ?_, hrv, hzt, he'⟩
        simp only [z2Pad, bind, pure, Except.pure, bind_ok', hz, if_false, if_true, Bool.false_eq_true, d1, d2, c1, c2,
          decide_true, decide_false, hv, hr]
    · obtain ⟨v, r, hv, hr, hrv⟩ := g3 (by omega)
      refine ⟨p34 - q3, r, _, _, ?_, hrv, hzt, he'⟩
      simp only [z2Pad, bind, pure, Except.pure, bind_ok', hz, if_false, if_true, Bool.false_eq_true, d1, d2, c1,
        decide_true, decide_false, hv, hr]


/-! ### multi-word comparisons -/

theorem lex_step (B ah al bh bl : Nat) (hal : al < B) (hbl : bl < B) :
    (ah < bh ∨ ah = bh ∧ al < bl) ↔ ah * B + al < bh * B + bl := by
  constructor
  · rintro (h | ⟨h, h'⟩)
    · have := Nat.mul_le_mul_right B (show ah + 1 ≤ bh from h)
      rw [Nat.add_mul] at this; omega
    · subst h; omega
  · intro h
    rcases Nat.lt_trichotomy ah bh with h1 | h1 | h1
    · exact Or.inl h1
    · subst h1; exact Or.inr ⟨rfl, by omega⟩
    · have := Nat.mul_le_mul_right B (show bh + 1 ≤ ah from h1)
      rw [Nat.add_mul] at this; omega

theorem lex_eq (B ah al bh bl : Nat) (hal : al < B) (hbl : bl < B) :
    (ah = bh ∧ al = bl) ↔ ah * B + al = bh * B + bl := by
  constructor
  · rintro ⟨rfl, rfl⟩; rfl
  · intro h
    rcases Nat.lt_trichotomy ah bh with h1 | h1 | h1
    · have := Nat.mul_le_mul_right B (show ah + 1 ≤ bh from h1)
      rw [Nat.add_mul] at this; omega
    · subst h1; exact ⟨rfl, by omega⟩
    · have := Nat.mul_le_mul_right B (show bh + 1 ≤ ah from h1)
      rw [Nat.add_mul] at this; omega

theorem lex4_lt (a3 a2 a1 a0 b3 b2 b1 b0 : Nat) (ha0 : a0 < 2^64) (ha1 : a1 < 2^64) (ha2 : a2 < 2^64)
    (hb0 : b0 < 2^64) (hb1 : b1 < 2^64) (hb2 : b2 < 2^64) :
    (a3 < b3 ∨ a3 = b3 ∧ (a2 < b2 ∨ a2 = b2 ∧ (a1 < b1 ∨ a1 = b1 ∧ a0 < b0))) ↔
      a3 * 2^192 + a2 * 2^128 + a1 * 2^64 + a0 < b3 * 2^192 + b2 * 2^128 + b1 * 2^64 + b0 := by
  have h1 := lex_step (2^64) a1 a0 b1 b0 ha0 hb0
  have h2 := lex_step (2^128) a2 (a1 * 2^64 + a0) b2 (b1 * 2^64 + b0) (by omega) (by omega)
  have h3 := lex_step (2^192) a3 (a2 * 2^128 + (a1 * 2^64 + a0)) b3 (b2 * 2^128 + (b1 * 2^64 + b0)) (by omega) (by omega)
  rw [h1, h2, h3]
  simp only [Nat.add_assoc]

theorem lex4_eq (a3 a2 a1 a0 b3 b2 b1 b0 : Nat) (ha0 : a0 < 2^64) (ha1 : a1 < 2^64) (ha2 : a2 < 2^64)
    (hb0 : b0 < 2^64) (hb1 : b1 < 2^64) (hb2 : b2 < 2^64) :
    (a3 = b3 ∧ a2 = b2 ∧ a1 = b1 ∧ a0 = b0) ↔
      a3 * 2^192 + a2 * 2^128 + a1 * 2^64 + a0 = b3 * 2^192 + b2 * 2^128 + b1 * 2^64 + b0 := by
  have h1 := lex_eq (2^64) a1 a0 b1 b0 ha0 hb0
  have h2 := lex_eq (2^128) a2 (a1 * 2^64 + a0) b2 (b1 * 2^64 + b0) (by omega) (by omega)
  have h3 := lex_eq (2^192) a3 (a2 * 2^128 + (a1 * 2^64 + a0)) b3 (b2 * 2^128 + (b1 * 2^64 + b0)) (by omega) (by omega)
  rw [h1, h2, h3]
  simp only [Nat.add_assoc]

theorem ite_ok' {α : Type} (c : Prop) [Decidable c] (a b : α) :
    (if c then (Except.ok a : Except String α) else .ok b) = .ok (if c then a else b) := by split <;> rfl

theorem lt_nat (a b : UInt64) : decide (a < b) = decide (a.toNat < b.toNat) := by
  rw [decide_eq_decide, UInt64.lt_iff_toNat_lt]

set_option maxRecDepth 8000 in
/-- **Case (1''B), the product against half a unit** of the padded `z`'s last place -/
theorem z2Half_spec {α : Type} (C4 : U256) (q4 : Int32) (k : Bool → Bool → Bool → Except String α) (c4 : Nat)
    (hC4 : C4.w3.toNat * 2^192 + C4.w2.toNat * 2^128 + C4.w1.toNat * 2^64 + C4.w0.toNat = c4) (h40 : 0 < c4)
    (hq4 : q4.toInt = ndigits c4) (hq468 : ndigits c4 ≤ 68) :
    z2Half C4 q4 false false false k =
      k (decide (2 * c4 < 10 ^ ndigits c4)) (decide (2 * c4 = 10 ^ ndigits c4)) (decide (10 ^ ndigits c4 < 2 * c4)) := by
  have hQ1 := ndigits_pos h40
  obtain ⟨lo, hi⟩ := ndigits_spec h40
  have w0 := C4.w0.toNat_lt; have w1 := C4.w1.toNat_lt; have w2 := C4.w2.toNat_lt; have w3 := C4.w3.toNat_lt
  have hpw : 10 ^ ndigits c4 = 10 * 10 ^ (ndigits c4 - 1) := by rw [← Nat.pow_succ']; congr 1; omega
  have fin : ∀ b1 b2 : Bool, ∀ H : Nat, H = 5 * 10 ^ (ndigits c4 - 1) → b1 = decide (c4 < H) → b2 = decide (c4 = H) →
      (if b1 = true then k true false false else if b2 = true then k false true false else k false false true) =
      k (decide (2 * c4 < 10 ^ ndigits c4)) (decide (2 * c4 = 10 ^ ndigits c4)) (decide (10 ^ ndigits c4 < 2 * c4)) := by
    intro b1 b2 H hH h1 h2
    subst h1 h2 hH
    rw [hpw]
    by_cases c1 : c4 < 5 * 10 ^ (ndigits c4 - 1)
    · rw [if_pos (by simpa using c1), show decide (2 * c4 < 10 * 10 ^ (ndigits c4 - 1)) = true from by simpa using (by omega),
        show decide (2 * c4 = 10 * 10 ^ (ndigits c4 - 1)) = false from by simpa using (by omega),
        show decide (10 * 10 ^ (ndigits c4 - 1) < 2 * c4) = false from by simpa using (by omega)]
    · rw [if_neg (by simpa using c1)]
      by_cases c2 : c4 = 5 * 10 ^ (ndigits c4 - 1)
      · rw [if_pos (by simpa using c2), show decide (2 * c4 < 10 * 10 ^ (ndigits c4 - 1)) = false from by simpa using (by omega),
          show decide (2 * c4 = 10 * 10 ^ (ndigits c4 - 1)) = true from by simpa using (by omega),
          show decide (10 * 10 ^ (ndigits c4 - 1) < 2 * c4) = false from by simpa using (by omega)]
      · rw [if_neg (by simpa using c2), show decide (2 * c4 < 10 * 10 ^ (ndigits c4 - 1)) = false from by simpa using (by omega),
          show decide (2 * c4 = 10 * 10 ^ (ndigits c4 - 1)) = false from by simpa using (by omega),
          show decide (10 * 10 ^ (ndigits c4 - 1) < 2 * c4) = true from by simpa using (by omega)]
  by_cases c1 : ndigits c4 ≤ 19
  · have d1 : decide (q4 ≤ 0x13) = true := by
      rw [decide_eq_true_eq, Int32.le_iff_toInt_le, hq4]; show (ndigits c4 : Int) ≤ 19; omega
    have hi' : (q4 - 1).toInt = ((ndigits c4 - 1 : Nat) : Int) := by
      rw [i32_sub _ _ (by omega) (by decide), hq4]; show (ndigits c4 : Int) - 1 = _; omega
    obtain ⟨v, hv, hvn⟩ := mid64_get (ndigits c4 - 1) (by omega)
    have hlt : c4 < 2^64 := lt_of_lt_of_le hi (le_trans (Nat.pow_le_pow_right (by decide) c1) (by decide))
    have hw : C4.w0.toNat = c4 := by omega
    simp only [z2Half, bind, pure, Except.pure, bind_ok', d1, if_true, idx_i32 _ _ hi', hv]
    rw [← fin (decide (C4.w0 < v)) (C4.w0 == v) _ hvn (by rw [lt_nat, hw]) (by rw [beq_nat, hw])]
  · have d1 : decide (q4 ≤ 0x13) = false := by
      rw [decide_eq_false_iff_not, Int32.le_iff_toInt_le, hq4]; show ¬ (ndigits c4 : Int) ≤ 19; omega
    by_cases c2 : ndigits c4 ≤ 38
    · have d2 : decide (q4 ≤ 0x26) = true := by
        rw [decide_eq_true_eq, Int32.le_iff_toInt_le, hq4]; show (ndigits c4 : Int) ≤ 38; omega
      have hi' : (q4 - 0x14).toInt = ((ndigits c4 - 20 : Nat) : Int) := by
        rw [i32_sub _ _ (by omega) (by decide), hq4]; show (ndigits c4 : Int) - 20 = _; omega
      obtain ⟨v, hv, hvn⟩ := mid128_get (ndigits c4 - 20) (by omega)
      simp only [z2Half, bind, pure, Except.pure, bind_ok', d1, d2, if_true, if_false, Bool.false_eq_true, idx_i32 _ _ hi', hv, ite_ok']
      have hv0 := v.w0.toNat_lt; have hv1 := v.w1.toNat_lt
      have hc4lt : c4 < 2^128 := lt_of_lt_of_le hi (le_trans (Nat.pow_le_pow_right (by decide) c2) (by decide))
      have hz2 : (0 : UInt64).toNat = 0 := rfl
      have hvn' : v.w1.toNat * 2^64 + v.w0.toNat = 5 * 10 ^ (ndigits c4 - 1) := by rw [hvn]; congr 2; omega
      clear hvn
      have hw3 : C4.w3.toNat = 0 := by omega
      have hw2 : C4.w2.toNat = 0 := by omega
      have hC4' : c4 = C4.w1.toNat * 2^64 + C4.w0.toNat := by rw [← hC4, hw3, hw2, Nat.zero_mul, Nat.zero_mul, Nat.zero_add]
      clear hC4 lo hi hpw
      refine fin _ _ (v.w1.toNat * 2^64 + v.w0.toNat) hvn' ?_ ?_
      · rw [Bool.eq_iff_iff]
        simp only [beq_nat, lt_nat, hz2, decide_eq_true_eq, Bool.if_true_left, Bool.if_false_right, Bool.and_eq_true,
          Bool.or_eq_true, hC4']
        omega
      · rw [Bool.eq_iff_iff]
        simp only [beq_nat, hz2, decide_eq_true_eq, Bool.if_true_left, Bool.if_false_right, Bool.and_eq_true,
          Bool.or_eq_true, hC4']
        omega
    · have d2 : decide (q4 ≤ 0x26) = false := by
        rw [decide_eq_false_iff_not, Int32.le_iff_toInt_le, hq4]; show ¬ (ndigits c4 : Int) ≤ 38; omega
      by_cases c3 : ndigits c4 ≤ 58
      · have d3 : decide (q4 ≤ 0x3a) = true := by
          rw [decide_eq_true_eq, Int32.le_iff_toInt_le, hq4]; show (ndigits c4 : Int) ≤ 58; omega
        have hi' : (q4 - 0x27).toInt = ((ndigits c4 - 39 : Nat) : Int) := by
          rw [i32_sub _ _ (by omega) (by decide), hq4]; show (ndigits c4 : Int) - 39 = _; omega
        obtain ⟨v, hv, hvn⟩ := mid192_get (ndigits c4 - 39) (by omega)
        simp only [z2Half, bind, pure, Except.pure, bind_ok', d1, d2, d3, if_true, if_false, Bool.false_eq_true, idx_i32 _ _ hi', hv,
          ite_ok']
        have hv0 := v.w0.toNat_lt; have hv1 := v.w1.toNat_lt; have hv2 := v.w2.toNat_lt
        have hc4lt : c4 < 2^193 := lt_of_lt_of_le hi (le_trans (Nat.pow_le_pow_right (by decide) c3) (by decide))
        have hz2 : (0 : UInt64).toNat = 0 := rfl
        have hvn' : v.w2.toNat * 2^128 + v.w1.toNat * 2^64 + v.w0.toNat = 5 * 10 ^ (ndigits c4 - 1) := by
          rw [hvn]; congr 2; omega
        clear hvn
        have hz192 : v.w2.toNat * 2^128 + v.w1.toNat * 2^64 + v.w0.toNat =
            0 * 2^192 + v.w2.toNat * 2^128 + v.w1.toNat * 2^64 + v.w0.toNat := by rw [Nat.zero_mul, Nat.zero_add]
        refine fin _ _ (v.w2.toNat * 2^128 + v.w1.toNat * 2^64 + v.w0.toNat) hvn' ?_ ?_
        · rw [Bool.eq_iff_iff]
          simp only [beq_nat, lt_nat, hz2, decide_eq_true_eq, Bool.if_true_left, Bool.if_false_right, Bool.and_eq_true,
            Bool.or_eq_true, ← hC4]
          rw [hz192, ← lex4_lt _ _ _ _ _ _ _ _ w0 w1 w2 hv0 hv1 hv2]
          omega
        · rw [Bool.eq_iff_iff]
          simp only [beq_nat, lt_nat, hz2, decide_eq_true_eq, Bool.if_true_left, Bool.if_false_right, Bool.and_eq_true,
            Bool.or_eq_true, ← hC4]
          rw [hz192, ← lex4_eq _ _ _ _ _ _ _ _ w0 w1 w2 hv0 hv1 hv2]
          omega
      · have d3 : decide (q4 ≤ 0x3a) = false := by
          rw [decide_eq_false_iff_not, Int32.le_iff_toInt_le, hq4]; show ¬ (ndigits c4 : Int) ≤ 58; omega
        have hi' : (q4 - 0x3b).toInt = ((ndigits c4 - 59 : Nat) : Int) := by
          rw [i32_sub _ _ (by omega) (by decide), hq4]; show (ndigits c4 : Int) - 59 = _; omega
        obtain ⟨v, hv, hvn⟩ := mid256_get (ndigits c4 - 59) (by omega)
        simp only [z2Half, bind, pure, Except.pure, bind_ok', d1, d2, d3, if_true, if_false, Bool.false_eq_true, idx_i32 _ _ hi', hv,
          ite_ok']
        have hv0 := v.w0.toNat_lt; have hv1 := v.w1.toNat_lt; have hv2 := v.w2.toNat_lt; have hv3 := v.w3.toNat_lt
        have hvn' : v.w3.toNat * 2^192 + v.w2.toNat * 2^128 + v.w1.toNat * 2^64 + v.w0.toNat = 5 * 10 ^ (ndigits c4 - 1) := by
          rw [hvn]; congr 2; omega
        clear hvn
        refine fin _ _ (v.w3.toNat * 2^192 + v.w2.toNat * 2^128 + v.w1.toNat * 2^64 + v.w0.toNat) hvn' ?_ ?_
        · rw [Bool.eq_iff_iff]
          simp only [beq_nat, lt_nat, decide_eq_true_eq, Bool.if_true_left, Bool.if_false_right, Bool.and_eq_true,
            Bool.or_eq_true, ← hC4]
          rw [← lex4_lt _ _ _ _ _ _ _ _ w0 w1 w2 hv0 hv1 hv2]
          omega
        · rw [Bool.eq_iff_iff]
          simp only [beq_nat, lt_nat, decide_eq_true_eq, Bool.if_true_left, Bool.if_false_right, Bool.and_eq_true,
            Bool.or_eq_true, ← hC4]
          rw [← lex4_eq _ _ _ _ _ _ _ _ w0 w1 w2 hv0 hv1 hv2]
          omega


end Dec.C02GenFmaZ
