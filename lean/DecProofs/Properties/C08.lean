/-
  C08 — round-to-integral operations round to an integer in the stated direction.
-/
import DecModel.Ops

namespace Dec.C08

/-- operands whose exponent is already non-negative are returned unchanged (and "not changed") -/
theorem integral_unchanged (mode : Mode) (s : Bool) (c : Nat) (e : Int) (h : 0 ≤ e) :
    toIntegralD mode (.fin s c e) = (.fin s c e, false) := by
  simp [toIntegralD, h]

/-- all others come back as the rounded integer with exponent zero and the operand's sign (also when
the result is zero); "changed" iff a non-zero fraction was discarded -/
theorem integral_rounded (mode : Mode) (s : Bool) (c : Nat) (e : Int) (h : e < 0) :
    toIntegralD mode (.fin s c e) =
      (.fin s (roundInt mode s (c / 10 ^ (-e).toNat) (c % 10 ^ (-e).toNat) (10 ^ (-e).toNat)) 0,
       c % 10 ^ (-e).toNat != 0) := by
  have : ¬ (e ≥ 0) := by omega
  simp [toIntegralD, this]

/-- infinities are returned as is -/
theorem integral_inf (mode : Mode) (s : Bool) : toIntegralD mode (.inf s) = (.inf s, false) := rfl

/-- the integral result really is an integer close to the operand: with `D = 10^(-e)`,
`c = q·D + r`, the result coefficient is `q` or `q+1`, and is `q` when `r = 0` -/
theorem integral_close (mode : Mode) (s : Bool) (c : Nat) (e : Int) (h : e < 0) :
    ∃ m, (toIntegralD mode (.fin s c e)).1 = .fin s m 0 ∧
      (m = c / 10 ^ (-e).toNat ∨ m = c / 10 ^ (-e).toNat + 1) ∧
      (c % 10 ^ (-e).toNat = 0 → m = c / 10 ^ (-e).toNat) := by
  rw [integral_rounded mode s c e h]
  refine ⟨_, rfl, ?_, ?_⟩
  · unfold roundInt; split <;> simp
  · intro h0; simp [roundInt, roundUp, h0]

/-- modf: the integral part is the toward-zero integer, the fractional part the exact difference
(computed by the exact subtraction of the model), both with the sign of x -/
theorem modf_spec (s : Bool) (c : Nat) (e : Int) :
    modfD (.fin s c e) =
      (((toIntegralD .rtz (.fin s c e)).1).setSign s,
       ((subD .rne (.fin s c e) (toIntegralD .rtz (.fin s c e)).1).1).setSign s) := rfl

example : toIntegralD .rne (.fin false 25 (-1)) = (.fin false 2 0, true) := by decide
example : toIntegralD .rna (.fin true 25 (-1)) = (.fin true 3 0, true) := by decide
example : toIntegralD .rup (.fin true 3 (-1)) = (.fin true 0 0, true) := by decide   -- -0.3 ↦ -0

end Dec.C08
