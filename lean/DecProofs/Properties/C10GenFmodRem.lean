import DecProofs.Properties.C10GenRem
import DecProofs.Properties.C12GenNaN
import DecModel.Rem
import DecGen.Api
import DecProofs.Properties.C10Bound
import DecProofs.Properties.JudgeSound

/-
C10 — `bid128_fmod` and `bid128_rem` (bid128_fmod.rs / bid128_rem.rs, machine translation in `DecGen/Code.lean`) on ALL inputs,
against `Dec.fmodD` / `Dec.remD` (DecModel/Rem.lean), the judge's expectations `"fmod"` / `"remainder"` (DecModel/Ops.lean),
and the property text C10 about the public methods `d128::fmod` / `d128::remainder` (`Dec.Gen.Api.run`).

Division of labour.  The numeric cores — two finite non-zero canonical operands: the one-division branch, the scaling loop
with its fuel, the helper `bid___div_128_by_128`, for `rem` the nearest-even correction — are `fmod_finite` / `rem_finite`
of `C10GenRem.lean` (hkPack; unconditional).  This file proves the FRONT ENDS (everything the two routines do before
`diff_expon := exponent_x - exponent_y`; that text is identical in the two routines), connects the cores to `decode`, and
assembles the all-input theorems.  NaN operands are `C12GenNaN.fmod_nan` / `rem_nan`.

  §1 bit tests and small facts;  §2 the front end of `bid128_fmod`, case by case (with `dx = decode x`, `dy = decode y`):
       dx infinite                       → invalid, `+NaN`                                   fmod_xinf
       dx = ±0·10^e (or non-canonical),  dy zero → invalid `+NaN`                             fmod_xzero_yzero
                                         dy infinite → `±0·10^e` (canonical)                  fmod_xzero_yinf
                                         dy finite ≠ 0 → `±0·10^min(e,e₂)`                    fmod_xzero_yfin
       dx finite ≠ 0,                    dy infinite → `x` itself                             fmod_yinf
                                         dy zero (or non-canonical) → invalid `+NaN`          fmod_yzero
                                         dy finite ≠ 0 → `fmod_finite`                        fmod_fin
     assembled: `fmod_nonnan`;  §3 the same for `bid128_rem` (`rem_…`, `rem_nonnan`);
  §4 `fmod_spec`, `rem_spec` (every pair of patterns, every status word: `.ok (binSpec fmodD/remD x y f)`, never a panic),
     `fmod_accepted`, `rem_accepted` (the judge's `accepts` says ok on the observation built from the routine's result);
  §5 the property text on `Api.run "fmod"` / `"remainder"`: `api_fmod`, `api_remainder` (all inputs), `fmod_property`,
     `remainder_property` (finite x, non-zero finite y: exact `x − n·y`, bound, sign, quantum exponent, canonical, no flag),
     `invalid_property`, `yinf_property`, `far_property`.

Non-canonical operands (coefficient ≥ 10^34, or the `11` steering form) are read as zeros by `unpack_BID128_value`, exactly as
`decode` reads them: they need no separate case — `dx = .fin s 0 e` covers them (examples below).

The guards of the `exponent_x ≤ exponent_y` branch (proved inside `fmod_finite` / `rem_finite`; what they are for):
  * `diff_expon > 34 → x`: from a gap of 35 on `|y| ≥ 10^35·10^e₁ > 2|x|`, so both results are `x`; at a gap of exactly 34
    `fmod` is still `x` but `remainder` need not be (`9·10^33 rem 1E+34 = −1·10^33`), and `BID_POWER10_TABLE_128[34]` is the
    last power the 256-bit product is taken with — so `≥ 34` instead of `> 34` would be wrong for `rem` only
    (`far_property` and the examples after it);
  * `P256.w[2] != 0 || P256.w[3] != 0 → x`: the aligned divisor `Y = CY·10^gap` has more than 128 bits, hence `Y > 2|x|`;
    the comparisons that follow (`unsigned_compare_gt/ge_256_128`) and the divisor handed to `bid___div_128_by_128` look at
    the two LOW words only, so this guard is what makes them exact; with `&&` a `Y` in `[2^128, 2^192)` would be cut to
    128 bits (examples after `far_property`: one `Y` with only word 2 set, one with word 3 set);
  * `P256 > CX` (fmod) / `P256 ≥ 2·CX` (rem) → x: `|x| < |y|` resp. `2|x| ≤ |y|`: no division needed.

No deviation of the code from the model was found.  No `sorry`; axioms: the three standard ones.
-/
namespace Dec.C10GenFmodRem
open Dec.Rs Dec.Gen.Code Dec.C06GenFromInt Dec.C12GenNaN Dec

/-! ## 1. Bit tests and small facts -/


/-- `x.w[1] & 0x78… == 0x78…`: infinite or NaN -/
theorem inf78 (x : U128) :
    (x.w1 &&& 0x7800000000000000 == 0x7800000000000000) = ((decode (bitsOf x)).isInf || (decode (bitsOf x)).isNaN) := by
  have e := test_special x
  rw [show c_MASK_SPECIAL = (0x7800000000000000 : UInt64) from rfl] at e
  rw [e]
  rcases decode_cases (bitsOf x) with ⟨h1, h2⟩ | ⟨h1, h2⟩ | ⟨h1, h2⟩ | ⟨h1, h2⟩
  · rw [decode_inf _ h1 h2]; simp [h1, Datum.isInf]
  · rw [decode_nan _ h1 h2]; simp [h1, Datum.isNaN]
  · rw [decode_large _ h1 h2]; simp [Datum.isInf, Datum.isNaN]; omega
  · rw [decode_small _ h1 h2]; simp [Datum.isInf, Datum.isNaN]; omega

theorem snan_false {d : Datum} (h : d.isNaN = false) : d.isSNaN = false := by
  cases d <;> first | rfl | exact Bool.noConfusion h

theorem unpack_inf' (s0 : UInt64) (e0 : Int32) (c0 x : U128) {s : Bool} (h : decode (bitsOf x) = .inf s) :
    unpack_BID128_value s0 e0 c0 x = .ok (0, x.w1 &&& 0x8000000000000000, 0, ofBits (canon (bitsOf x))) := by
  rw [unpack_value_spec, h]

theorem unpack_fin' (s0 : UInt64) (e0 : Int32) (c0 x : U128) {s : Bool} {c : Nat} {e : Int}
    (h : decode (bitsOf x) = .fin s c e) :
    unpack_BID128_value s0 e0 c0 x =
      .ok ((ofBits c).w0 ||| (ofBits c).w1, x.w1 &&& 0x8000000000000000, Int32.ofInt (e + 6176), ofBits c) := by
  rw [unpack_value_spec, h]

/-! ## 2. The front end of `bid128_fmod` -/

/-- x infinite, y not a NaN: invalid, the default NaN -/
theorem fmod_xinf (x y : U128) (f : UInt32) (s : Bool) (hx : decode (bitsOf x) = .inf s)
    (hy : (decode (bitsOf y)).isNaN = false) :
    bid128_fmod x y f = .ok (⟨0, 0x7c00000000000000⟩, f ||| 1) := by
  obtain ⟨vy, hvy⟩ := unpack_ok 0 0 default y
  have hxn : (decode (bitsOf x)).isNaN = false := by rw [hx]; rfl
  unfold bid128_fmod
  take_call hvy
  take_call (unpack_inf' _ _ _ x hx)
  take_pos
  · rfl
  take_neg
  · rw [snan_c64 y, snan_false hy]; decide
  take_neg
  · rw [nan_lit x, hxn]; decide
  take_pos
  · rw [inf78, hx]; rfl
  take_pos
  · rw [bne, nan_lit y, hy]; rfl
  take_call (set_flags_ok _ _)
  rfl


theorem inf_bits {b : Nat} {s : Bool} (h : decode b = .inf s) : b / 2^123 % 16 = 15 ∧ b / 2^122 % 2 = 0 := by
  rcases decode_cases b with ⟨h1, h2⟩ | ⟨h1, h2⟩ | ⟨h1, h2⟩ | ⟨h1, h2⟩
  · exact ⟨h1, h2⟩
  · rw [decode_nan _ h1 h2] at h; exact Datum.noConfusion h
  · rw [decode_large _ h1 h2] at h; exact Datum.noConfusion h
  · rw [decode_small _ h1 h2] at h; exact Datum.noConfusion h

/-- the canonical re-encoding of an infinity has a non-zero high word -/
theorem cinf_w1_ne (y : U128) {s : Bool} (h : decode (bitsOf y) = .inf s) :
    ((ofBits (canon (bitsOf y))).w1 == 0) = false := by
  obtain ⟨h1, h2⟩ := inf_bits h
  rw [beq_eq_false_iff_ne, ne_eq, ← UInt64.toNat_inj, canon_inf _ h1 h2]
  unfold ofBits
  simp only [UInt64.toNat_ofNat', UInt64.toNat_zero]
  have : bitsOf y / 2^127 % 2 < 2 := Nat.mod_lt _ (by decide)
  omega

/-- `y.w[1] & NAN_MASK == INFINITY_MASK`: y is an infinity -/
theorem anyinf (y : U128) : (y.w1 &&& c_NAN_MASK64 == c_INFINITY_MASK64) = (decode (bitsOf y)).isInf := by
  have e := test_anyinf y
  rw [show c_MASK_ANY_INF = c_NAN_MASK64 from rfl, show c_MASK_INF = c_INFINITY_MASK64 from rfl] at e
  rw [e]
  rcases decode_cases (bitsOf y) with ⟨h1, h2⟩ | ⟨h1, h2⟩ | ⟨h1, h2⟩ | ⟨h1, h2⟩
  · rw [decode_inf _ h1 h2]; simp [h1, h2, Datum.isInf]
  · rw [decode_nan _ h1 h2]; simp [h1, h2, Datum.isInf]
  · rw [decode_large _ h1 h2]; simp [Datum.isInf]; omega
  · rw [decode_small _ h1 h2]; simp [Datum.isInf]; omega

/-- the zero result word: sign of x, the given biased exponent, coefficient 0 -/
theorem zero_word (x : U128) (E : Int32) (h0 : 0 ≤ E.toInt) (h1 : E.toInt ≤ 12287) :
    (⟨0, (x.w1 &&& (0x8000000000000000 : UInt64)) ||| ((UInt64.ofInt (toI E)) <<< 0x31)⟩ : U128)
      = ofBits (encode (.fin (decode (bitsOf x)).neg 0 (E.toInt - 6176))) := by
  have hsw := sign_word x
  have hs : x.w1 &&& (0x8000000000000000 : UInt64) = 0 ∨ x.w1 &&& (0x8000000000000000 : UInt64) = 0x8000000000000000 := by
    cases hn : (decode (bitsOf x)).neg <;> rw [hn] at hsw
    · left; rw [← UInt64.toNat_inj]; exact hsw
    · right; rw [← UInt64.toNat_inj]; exact hsw
  obtain ⟨r, hr, hb, -, -⟩ := very_fast_encode (x.w1 &&& (0x8000000000000000 : UInt64)) E ⟨0, 0⟩ hs h0 h1 (by decide)
  have hr' : r = ⟨0, ((x.w1 &&& (0x8000000000000000 : UInt64)) ||| ((UInt64.ofInt (toI E)) <<< 0x31)) ||| 0⟩ := by
    have : bid_get_BID128_very_fast (x.w1 &&& (0x8000000000000000 : UInt64)) E ⟨0, 0⟩ =
      .ok ⟨0, ((x.w1 &&& (0x8000000000000000 : UInt64)) ||| ((UInt64.ofInt (toI E)) <<< 0x31)) ||| 0⟩ := rfl
    rw [this] at hr; injection hr with hr; exact hr.symm
  rw [UInt64.or_zero] at hr'
  rw [← hr']
  apply eq_ofBits
  rw [hb]
  have hsg : (x.w1 &&& (0x8000000000000000 : UInt64) != 0) = (decode (bitsOf x)).neg := by
    cases hn : (decode (bitsOf x)).neg <;> rw [hn] at hsw
    · have : x.w1 &&& (0x8000000000000000 : UInt64) = 0 := by rw [← UInt64.toNat_inj]; exact hsw
      rw [this]; rfl
    · have : x.w1 &&& (0x8000000000000000 : UInt64) = 0x8000000000000000 := by rw [← UInt64.toNat_inj]; exact hsw
      rw [this]; rfl
  rw [hsg]
  rfl


theorem fin_range {b : Nat} {s : Bool} {c : Nat} {e : Int} (h : decode b = .fin s c e) :
    c < 10^34 ∧ 0 ≤ e + 6176 ∧ e + 6176 ≤ 12287 := by
  have wf := decode_WF b
  rw [h] at wf
  obtain ⟨a, b, c⟩ := wf
  unfold P34 at a; unfold eMin at b; unfold eMax at c
  exact ⟨a, by omega, by omega⟩

theorem exp_toInt {e : Int} (h0 : 0 ≤ e + 6176) (h1 : e + 6176 ≤ 12287) : (Int32.ofInt (e + 6176)).toInt = e + 6176 :=
  Int32.toInt_ofInt_of_le (by omega) (by omega)

theorem ind_zero : ((ofBits 0).w0 ||| (ofBits 0).w1 == 0) = true := by decide

theorem cy_zero : ((ofBits 0).w1 == 0 && (ofBits 0).w0 == 0) = true := by decide

/-- x zero (or non-canonical), y zero: invalid -/
theorem fmod_xzero_yzero (x y : U128) (f : UInt32) (s s2 : Bool) (e e2 : Int)
    (hx : decode (bitsOf x) = .fin s 0 e) (hy : decode (bitsOf y) = .fin s2 0 e2) :
    bid128_fmod x y f = .ok (⟨0, 0x7c00000000000000⟩, f ||| 1) := by
  have hxn : (decode (bitsOf x)).isNaN = false := by rw [hx]; rfl
  have hyn : (decode (bitsOf y)).isNaN = false := by rw [hy]; rfl
  unfold bid128_fmod
  take_call (unpack_fin' _ _ _ y hy)
  take_call (unpack_fin' _ _ _ x hx)
  take_pos
  · exact ind_zero
  take_neg
  · rw [snan_c64 y, snan_false hyn]; decide
  take_neg
  · rw [nan_lit x, hxn]; decide
  take_neg
  · rw [inf78, hx]; exact Bool.false_ne_true
  take_pos
  · exact cy_zero
  take_call (set_flags_ok _ _)
  rfl


/-- the last step of the zero paths -/
theorem zero_close (x : U128) (f : UInt32) (s : Bool) (e e' : Int) (hx : decode (bitsOf x) = .fin s 0 e)
    (r0 : 0 ≤ e' + 6176) (r1 : e' + 6176 ≤ 12287) :
    (Except.ok ((⟨0, (x.w1 &&& (0x8000000000000000 : UInt64)) ||| ((UInt64.ofInt (toI (Int32.ofInt (e' + 6176)))) <<< 0x31)⟩ : U128), f)
      : Except String (U128 × UInt32)) = .ok (ofBits (encode (.fin s 0 e')), f) := by
  have h0 : (0 : Int) ≤ (Int32.ofInt (e' + 6176)).toInt := by rw [exp_toInt r0 r1]; exact r0
  have h1 : (Int32.ofInt (e' + 6176)).toInt ≤ 12287 := by rw [exp_toInt r0 r1]; exact r1
  rw [zero_word x _ h0 h1, exp_toInt r0 r1, hx, neg_fin, show e' + 6176 - 6176 = e' by omega]

/-- x zero (or non-canonical), y infinite: x's zero, canonical -/
theorem fmod_xzero_yinf (x y : U128) (f : UInt32) (s s2 : Bool) (e : Int)
    (hx : decode (bitsOf x) = .fin s 0 e) (hy : decode (bitsOf y) = .inf s2) :
    bid128_fmod x y f = .ok (ofBits (encode (.fin s 0 e)), f) := by
  have hxn : (decode (bitsOf x)).isNaN = false := by rw [hx]; rfl
  have hyn : (decode (bitsOf y)).isNaN = false := by rw [hy]; rfl
  obtain ⟨-, r0, r1⟩ := fin_range hx
  unfold bid128_fmod
  take_call (unpack_inf' _ _ _ y hy)
  take_call (unpack_fin' _ _ _ x hx)
  take_pos
  · exact ind_zero
  take_neg
  · rw [snan_c64 y, snan_false hyn]; decide
  take_neg
  · rw [nan_lit x, hxn]; decide
  take_neg
  · rw [inf78, hx]; exact Bool.false_ne_true
  take_neg
  · show ¬ (((ofBits (canon (bitsOf y))).w1 == 0 && (ofBits (canon (bitsOf y))).w0 == 0) = true)
    rw [cinf_w1_ne y hy]; exact Bool.false_ne_true
  take_pos
  · rw [anyinf, hy]; rfl
  take_neg
  · rw [bne, anyinf, hy, show (Datum.inf s2).isInf = true from rfl, Bool.not_true, Bool.and_false]
    exact Bool.false_ne_true
  head_step
  exact zero_close x f s e e hx r0 r1

theorem cy_nonzero {c : Nat} (hc : c < 2^128) (h : c ≠ 0) :
    ¬ (((ofBits c).w1 == 0 && (ofBits c).w0 == 0) = true) := by
  intro hh
  simp only [Bool.and_eq_true, beq_iff_eq] at hh
  apply h
  apply (indicator_zero_iff hc).1
  rw [hh.1, hh.2]; rfl

theorem valid_nonzero {c : Nat} (hc : c < 2^128) (h : c ≠ 0) : ((ofBits c).w0 ||| (ofBits c).w1 != 0) = true := by
  rw [bne_iff_ne]
  intro hh
  exact h ((indicator_zero_iff hc).1 hh)

theorem exp_gt {e e2 : Int} (a0 : 0 ≤ e + 6176) (a1 : e + 6176 ≤ 12287) (b0 : 0 ≤ e2 + 6176) (b1 : e2 + 6176 ≤ 12287) :
    decide (Int32.ofInt (e + 6176) > Int32.ofInt (e2 + 6176)) = decide (e2 < e) := by
  rw [Bool.eq_iff_iff, decide_eq_true_iff, decide_eq_true_iff, gt_iff_lt, Int32.lt_iff_toInt_lt, exp_toInt a0 a1,
    exp_toInt b0 b1]
  omega

/-- x zero (or non-canonical), y finite non-zero: zero with the sign of x and the smaller exponent -/
theorem fmod_xzero_yfin (x y : U128) (f : UInt32) (s s2 : Bool) (c2 : Nat) (e e2 : Int)
    (hx : decode (bitsOf x) = .fin s 0 e) (hy : decode (bitsOf y) = .fin s2 c2 e2) (hc2 : c2 ≠ 0) :
    bid128_fmod x y f = .ok (ofBits (encode (.fin s 0 (min e e2))), f) := by
  have hxn : (decode (bitsOf x)).isNaN = false := by rw [hx]; rfl
  have hyn : (decode (bitsOf y)).isNaN = false := by rw [hy]; rfl
  obtain ⟨-, r0, r1⟩ := fin_range hx
  obtain ⟨q, q0, q1⟩ := fin_range hy
  have hc : c2 < 2^128 := by omega
  unfold bid128_fmod
  take_call (unpack_fin' _ _ _ y hy)
  take_call (unpack_fin' _ _ _ x hx)
  take_pos
  · exact ind_zero
  take_neg
  · rw [snan_c64 y, snan_false hyn]; decide
  take_neg
  · rw [nan_lit x, hxn]; decide
  take_neg
  · rw [inf78, hx]; exact Bool.false_ne_true
  take_neg
  · exact cy_nonzero hc hc2
  take_pos
  · show (((ofBits c2).w0 ||| (ofBits c2).w1 != 0) || _) = true
    rw [valid_nonzero hc hc2]; rfl
  by_cases hlt : e2 < e
  · take_pos
    · show (decide (Int32.ofInt (e + 6176) > Int32.ofInt (e2 + 6176)) && _) = true
      rw [exp_gt r0 r1 q0 q1, bne, anyinf, hy, decide_eq_true hlt]; rfl
    head_step
    have : min e e2 = e2 := by omega
    rw [this]
    exact zero_close x f s e e2 hx q0 q1
  · take_neg
    · show ¬ ((decide (Int32.ofInt (e + 6176) > Int32.ofInt (e2 + 6176)) && _) = true)
      rw [exp_gt r0 r1 q0 q1, decide_eq_false hlt, Bool.false_and]; exact Bool.false_ne_true
    head_step
    have : min e e2 = e := by omega
    rw [this]
    exact zero_close x f s e e hx r0 r1

/-- a finite pattern with a non-zero coefficient is canonical: it is the encoding of what it decodes to -/
theorem x_canon (x : U128) {s : Bool} {c : Nat} {e : Int} (hx : decode (bitsOf x) = .fin s c e) (hc : c ≠ 0) :
    x = ofBits (encode (.fin s c e)) := by
  apply eq_ofBits
  exact (Dec.C10GenRem.nz_canon (bitsOf x) (bitsOf_lt x) s c e hx hc).symm

/-- x finite non-zero, y infinite: x itself -/
theorem fmod_yinf (x y : U128) (f : UInt32) (s s2 : Bool) (c : Nat) (e : Int)
    (hx : decode (bitsOf x) = .fin s c e) (hc : c ≠ 0) (hy : decode (bitsOf y) = .inf s2) :
    bid128_fmod x y f = .ok (x, f) := by
  have hyn : (decode (bitsOf y)).isNaN = false := by rw [hy]; rfl
  obtain ⟨q, -, -⟩ := fin_range hx
  have hc' : c < 2^128 := by omega
  unfold bid128_fmod
  take_call (unpack_inf' _ _ _ y hy)
  take_call (unpack_fin' _ _ _ x hx)
  take_neg
  · show ¬ (((ofBits c).w0 ||| (ofBits c).w1 == 0) = true)
    have := valid_nonzero hc' hc
    rw [bne] at this
    intro h; rw [h] at this; exact Bool.noConfusion this
  take_pos
  · rfl
  take_neg
  · rw [nan_lit y, hyn]; decide
  take_pos
  · rw [inf78, hy]; rfl
  rfl

/-- x finite non-zero, y zero (or non-canonical): invalid -/
theorem fmod_yzero (x y : U128) (f : UInt32) (s s2 : Bool) (c : Nat) (e e2 : Int)
    (hx : decode (bitsOf x) = .fin s c e) (hc : c ≠ 0) (hy : decode (bitsOf y) = .fin s2 0 e2) :
    bid128_fmod x y f = .ok (⟨0, 0x7c00000000000000⟩, f ||| 1) := by
  have hyn : (decode (bitsOf y)).isNaN = false := by rw [hy]; rfl
  obtain ⟨q, -, -⟩ := fin_range hx
  have hc' : c < 2^128 := by omega
  unfold bid128_fmod
  take_call (unpack_fin' _ _ _ y hy)
  take_call (unpack_fin' _ _ _ x hx)
  take_neg
  · show ¬ (((ofBits c).w0 ||| (ofBits c).w1 == 0) = true)
    have := valid_nonzero hc' hc
    rw [bne] at this
    intro h; rw [h] at this; exact Bool.noConfusion this
  take_pos
  · exact ind_zero
  take_neg
  · rw [nan_lit y, hyn]; decide
  take_neg
  · rw [inf78, hy]; exact Bool.false_ne_true
  take_call (set_flags_ok _ _)
  rfl

theorem toNat'_ofBits {c : Nat} (h : c < 2^128) : (ofBits c).toNat' = c := by
  have := bitsOf_ofBits h
  unfold bitsOf at this
  unfold U128.toNat'
  omega

theorem sign_cases (x : U128) :
    (x.w1 &&& (0x8000000000000000 : UInt64) = 0 ∨ x.w1 &&& (0x8000000000000000 : UInt64) = 0x8000000000000000) ∧
    decide (x.w1 &&& (0x8000000000000000 : UInt64) ≠ 0) = (decode (bitsOf x)).neg := by
  have hsw := sign_word x
  cases hn : (decode (bitsOf x)).neg <;> rw [hn] at hsw
  · have : x.w1 &&& (0x8000000000000000 : UInt64) = 0 := by rw [← UInt64.toNat_inj]; exact hsw
    rw [this]; exact ⟨Or.inl rfl, by decide⟩
  · have : x.w1 &&& (0x8000000000000000 : UInt64) = 0x8000000000000000 := by rw [← UInt64.toNat_inj]; exact hsw
    rw [this]; exact ⟨Or.inr rfl, by decide⟩

/-- the hypotheses of hkPack's finite cores, from `decode` -/
theorem core_hyps (x : U128) {s : Bool} {c : Nat} {e : Int} (hx : decode (bitsOf x) = .fin s c e) (hc : c ≠ 0) :
    ∃ rx sx ex cx, unpack_BID128_value 0 0 default x = .ok (rx, sx, ex, cx) ∧ (rx == 0) = false ∧
      (sx = 0 ∨ sx = 0x8000000000000000) ∧ decide (sx ≠ 0) = s ∧ ex.toInt = e + 6176 ∧ 0 ≤ ex.toInt ∧ ex.toInt ≤ 12287 ∧
      cx.toNat' = c ∧ 0 < c ∧ c < 10^34 := by
  obtain ⟨q, r0, r1⟩ := fin_range hx
  have hc' : c < 2^128 := by omega
  obtain ⟨k1, k2⟩ := sign_cases x
  refine ⟨_, _, _, _, unpack_fin' 0 0 default x hx, ?_, k1, ?_, exp_toInt r0 r1, ?_, ?_, toNat'_ofBits hc', by omega, q⟩
  · have := valid_nonzero hc' hc
    rw [bne] at this
    cases h : ((ofBits c).w0 ||| (ofBits c).w1 == 0)
    · rfl
    · rw [h] at this; exact Bool.noConfusion this
  · rw [k2, hx, neg_fin]
  · rw [exp_toInt r0 r1]; exact r0
  · rw [exp_toInt r0 r1]; exact r1

/-- both finite and non-zero: `fmodD` (the finite core is `C10GenRem.fmod_finite`) -/
theorem fmod_fin (x y : U128) (f : UInt32) (s s2 : Bool) (c c2 : Nat) (e e2 : Int)
    (hx : decode (bitsOf x) = .fin s c e) (hc : c ≠ 0) (hy : decode (bitsOf y) = .fin s2 c2 e2) (hc2 : c2 ≠ 0) :
    bid128_fmod x y f = .ok (ofBits (encode (fmodD (.fin s c e) (.fin s2 c2 e2)).1), f) := by
  obtain ⟨rx, sx, ex, cx, a1, a2, a3, a4, a5, a6, a7, a8, a9, a10⟩ := core_hyps x hx hc
  obtain ⟨ry, sy, ey, cy, b1, b2, b3, b4, b5, b6, b7, b8, b9, b10⟩ := core_hyps y hy hc2
  obtain ⟨res, h1, h2⟩ := Dec.C10GenRem.fmod_finite x y f rx sx ry sy ex ey cx cy a1 b1 a2 b2 a3 a6 a7 b6 b7
    (by rw [a8]; exact a9) (by rw [a8]; exact a10) (by rw [b8]; exact b9) (by rw [b8]; exact b10)
    (by rw [a4, a8, a5, show e + 6176 - 6176 = e by omega]
        exact (Dec.C10GenRem.nz_canon (bitsOf x) (bitsOf_lt x) s c e hx hc).symm)
  rw [h1, Dec.C10GenRem.fmodD_fin s s2 c c2 e e2 hc2]
  congr 2
  apply eq_ofBits
  show Dec.C13GenPack.bitsOf res = _
  rw [h2, a4, a8, b8, a5, b5]
  have m : min (e + 6176) (e2 + 6176) = min e e2 + 6176 := by omega
  rw [m, show e + 6176 - (min e e2 + 6176) = e - min e e2 by omega,
    show e2 + 6176 - (min e e2 + 6176) = e2 - min e e2 by omega, show min e e2 + 6176 - 6176 = min e e2 by omega]

theorem dnan_word : ofBits (encode defaultNaN) = ⟨0, 0x7c00000000000000⟩ := by decide +kernel

theorem inv_flag (f : UInt32) : f ||| UInt32.ofNat fInvalid = f ||| 1 := rfl
theorem no_flag (f : UInt32) : f ||| UInt32.ofNat 0 = f := UInt32.or_zero

/-- **`bid128_fmod`, no operand a NaN**: the pattern returned is the canonical encoding of `fmodD`'s datum, and the flags
`fmodD` raises (invalid for an infinite `x` or a zero `y`, else none) are OR-ed into the status word -/
theorem fmod_nonnan (x y : U128) (f : UInt32) (hx : (decode (bitsOf x)).isNaN = false)
    (hy : (decode (bitsOf y)).isNaN = false) :
    bid128_fmod x y f = .ok (ofBits (encode (fmodD (decode (bitsOf x)) (decode (bitsOf y))).1),
      f ||| UInt32.ofNat (fmodD (decode (bitsOf x)) (decode (bitsOf y))).2) := by
  cases hdx : decode (bitsOf x) with
  | nan a b c => rw [hdx] at hx; exact Bool.noConfusion hx
  | inf s =>
    rw [fmod_xinf x y f s hdx hy]
    show _ = Except.ok (ofBits (encode invalidResult.1), f ||| UInt32.ofNat invalidResult.2)
    rw [show invalidResult = (defaultNaN, fInvalid) from rfl, dnan_word, inv_flag]
  | fin s c e =>
    cases hdy : decode (bitsOf y) with
    | nan a b c => rw [hdy] at hy; exact Bool.noConfusion hy
    | inf s2 =>
      show _ = Except.ok (ofBits (encode (Datum.fin s c e)), f ||| UInt32.ofNat 0)
      rw [no_flag]
      by_cases hc : c = 0
      · subst hc; exact fmod_xzero_yinf x y f s s2 e hdx hdy
      · rw [fmod_yinf x y f s s2 c e hdx hc hdy, ← x_canon x hdx hc]
    | fin s2 c2 e2 =>
      by_cases hc2 : c2 = 0
      · subst hc2
        have : fmodD (.fin s c e) (.fin s2 0 e2) = invalidResult := by simp [fmodD]
        rw [this, show invalidResult = (defaultNaN, fInvalid) from rfl, dnan_word, inv_flag]
        by_cases hc : c = 0
        · subst hc; exact fmod_xzero_yzero x y f s s2 e e2 hdx hdy
        · exact fmod_yzero x y f s s2 c e e2 hdx hc hdy
      · by_cases hc : c = 0
        · subst hc
          rw [fmod_xzero_yfin x y f s s2 c2 e e2 hdx hdy hc2, Dec.C10GenRem.fmodD_fin s s2 0 c2 e e2 hc2]
          simp only [Nat.zero_mul, Nat.zero_mod, no_flag]
        · rw [fmod_fin x y f s s2 c c2 e e2 hdx hc hdy hc2, Dec.C10GenRem.fmodD_fin s s2 c c2 e e2 hc2, no_flag]


-- +Inf fmod 1, status word 0x20 on entry: invalid, +NaN
example : bid128_fmod ⟨0, 0x7800000000000000⟩ ⟨1, 0x3040000000000000⟩ 0x20 = .ok (⟨0, 0x7c00000000000000⟩, 0x21) := by
  decide +kernel
-- 1 fmod -Inf (with garbage in the low bits of the infinity): 1, nothing raised
example : bid128_fmod ⟨1, 0x3040000000000000⟩ ⟨5, 0xf800000000000001⟩ 0x20 = .ok (⟨1, 0x3040000000000000⟩, 0x20) := by
  decide +kernel
-- a non-canonical x (coefficient 10^34: read as 0) fmod +Inf: +0E+0
example : bid128_fmod ⟨0x378d8e6400000000, 0x3041ed09bead87c0⟩ ⟨0, 0x7800000000000000⟩ 0 = .ok (⟨0, 0x3040000000000000⟩, 0) := by
  decide +kernel
-- 7.5 fmod 2 = 1.5;  1E+100 fmod 7 = 4 (the scaling loop)
example : bid128_fmod ⟨75, 0x303e000000000000⟩ ⟨2, 0x3040000000000000⟩ 0x20 = .ok (⟨15, 0x303e000000000000⟩, 0x20) := by
  decide +kernel
example : bid128_fmod ⟨1, 0x3108000000000000⟩ ⟨7, 0x3040000000000000⟩ 0 = .ok (⟨4, 0x3040000000000000⟩, 0) := by decide +kernel
example : fmodD (decode (bitsOf ⟨75, 0x303e000000000000⟩)) (decode (bitsOf ⟨2, 0x3040000000000000⟩)) = (.fin false 15 (-1), 0) := by
  decide +kernel

/-! ## 3. The front end of `bid128_rem` (the same text, the same proofs) -/

/-- x infinite, y not a NaN: invalid, the default NaN -/
theorem rem_xinf (x y : U128) (f : UInt32) (s : Bool) (hx : decode (bitsOf x) = .inf s)
    (hy : (decode (bitsOf y)).isNaN = false) :
    bid128_rem x y f = .ok (⟨0, 0x7c00000000000000⟩, f ||| 1) := by
  obtain ⟨vy, hvy⟩ := unpack_ok 0 0 default y
  have hxn : (decode (bitsOf x)).isNaN = false := by rw [hx]; rfl
  unfold bid128_rem
  take_call hvy
  take_call (unpack_inf' _ _ _ x hx)
  take_pos
  · rfl
  take_neg
  · rw [snan_c64 y, snan_false hy]; decide
  take_neg
  · rw [nan_lit x, hxn]; decide
  take_pos
  · rw [inf78, hx]; rfl
  take_pos
  · rw [bne, nan_lit y, hy]; rfl
  take_call (set_flags_ok _ _)
  rfl

/-- x zero (or non-canonical), y zero: invalid -/
theorem rem_xzero_yzero (x y : U128) (f : UInt32) (s s2 : Bool) (e e2 : Int)
    (hx : decode (bitsOf x) = .fin s 0 e) (hy : decode (bitsOf y) = .fin s2 0 e2) :
    bid128_rem x y f = .ok (⟨0, 0x7c00000000000000⟩, f ||| 1) := by
  have hxn : (decode (bitsOf x)).isNaN = false := by rw [hx]; rfl
  have hyn : (decode (bitsOf y)).isNaN = false := by rw [hy]; rfl
  unfold bid128_rem
  take_call (unpack_fin' _ _ _ y hy)
  take_call (unpack_fin' _ _ _ x hx)
  take_pos
  · exact ind_zero
  take_neg
  · rw [snan_c64 y, snan_false hyn]; decide
  take_neg
  · rw [nan_lit x, hxn]; decide
  take_neg
  · rw [inf78, hx]; exact Bool.false_ne_true
  take_pos
  · exact cy_zero
  take_call (set_flags_ok _ _)
  rfl

/-- x zero (or non-canonical), y infinite: x's zero, canonical -/
theorem rem_xzero_yinf (x y : U128) (f : UInt32) (s s2 : Bool) (e : Int)
    (hx : decode (bitsOf x) = .fin s 0 e) (hy : decode (bitsOf y) = .inf s2) :
    bid128_rem x y f = .ok (ofBits (encode (.fin s 0 e)), f) := by
  have hxn : (decode (bitsOf x)).isNaN = false := by rw [hx]; rfl
  have hyn : (decode (bitsOf y)).isNaN = false := by rw [hy]; rfl
  obtain ⟨-, r0, r1⟩ := fin_range hx
  unfold bid128_rem
  take_call (unpack_inf' _ _ _ y hy)
  take_call (unpack_fin' _ _ _ x hx)
  take_pos
  · exact ind_zero
  take_neg
  · rw [snan_c64 y, snan_false hyn]; decide
  take_neg
  · rw [nan_lit x, hxn]; decide
  take_neg
  · rw [inf78, hx]; exact Bool.false_ne_true
  take_neg
  · show ¬ (((ofBits (canon (bitsOf y))).w1 == 0 && (ofBits (canon (bitsOf y))).w0 == 0) = true)
    rw [cinf_w1_ne y hy]; exact Bool.false_ne_true
  take_pos
  · rw [anyinf, hy]; rfl
  take_neg
  · rw [bne, anyinf, hy, show (Datum.inf s2).isInf = true from rfl, Bool.not_true, Bool.and_false]
    exact Bool.false_ne_true
  head_step
  exact zero_close x f s e e hx r0 r1

/-- x zero (or non-canonical), y finite non-zero: zero with the sign of x and the smaller exponent -/
theorem rem_xzero_yfin (x y : U128) (f : UInt32) (s s2 : Bool) (c2 : Nat) (e e2 : Int)
    (hx : decode (bitsOf x) = .fin s 0 e) (hy : decode (bitsOf y) = .fin s2 c2 e2) (hc2 : c2 ≠ 0) :
    bid128_rem x y f = .ok (ofBits (encode (.fin s 0 (min e e2))), f) := by
  have hxn : (decode (bitsOf x)).isNaN = false := by rw [hx]; rfl
  have hyn : (decode (bitsOf y)).isNaN = false := by rw [hy]; rfl
  obtain ⟨-, r0, r1⟩ := fin_range hx
  obtain ⟨q, q0, q1⟩ := fin_range hy
  have hc : c2 < 2^128 := by omega
  unfold bid128_rem
  take_call (unpack_fin' _ _ _ y hy)
  take_call (unpack_fin' _ _ _ x hx)
  take_pos
  · exact ind_zero
  take_neg
  · rw [snan_c64 y, snan_false hyn]; decide
  take_neg
  · rw [nan_lit x, hxn]; decide
  take_neg
  · rw [inf78, hx]; exact Bool.false_ne_true
  take_neg
  · exact cy_nonzero hc hc2
  take_pos
  · show (((ofBits c2).w0 ||| (ofBits c2).w1 != 0) || _) = true
    rw [valid_nonzero hc hc2]; rfl
  by_cases hlt : e2 < e
  · take_pos
    · show (decide (Int32.ofInt (e + 6176) > Int32.ofInt (e2 + 6176)) && _) = true
      rw [exp_gt r0 r1 q0 q1, bne, anyinf, hy, decide_eq_true hlt]; rfl
    head_step
    have : min e e2 = e2 := by omega
    rw [this]
    exact zero_close x f s e e2 hx q0 q1
  · take_neg
    · show ¬ ((decide (Int32.ofInt (e + 6176) > Int32.ofInt (e2 + 6176)) && _) = true)
      rw [exp_gt r0 r1 q0 q1, decide_eq_false hlt, Bool.false_and]; exact Bool.false_ne_true
    head_step
    have : min e e2 = e := by omega
    rw [this]
    exact zero_close x f s e e hx r0 r1

/-- x finite non-zero, y infinite: x itself -/
theorem rem_yinf (x y : U128) (f : UInt32) (s s2 : Bool) (c : Nat) (e : Int)
    (hx : decode (bitsOf x) = .fin s c e) (hc : c ≠ 0) (hy : decode (bitsOf y) = .inf s2) :
    bid128_rem x y f = .ok (x, f) := by
  have hyn : (decode (bitsOf y)).isNaN = false := by rw [hy]; rfl
  obtain ⟨q, -, -⟩ := fin_range hx
  have hc' : c < 2^128 := by omega
  unfold bid128_rem
  take_call (unpack_inf' _ _ _ y hy)
  take_call (unpack_fin' _ _ _ x hx)
  take_neg
  · show ¬ (((ofBits c).w0 ||| (ofBits c).w1 == 0) = true)
    have := valid_nonzero hc' hc
    rw [bne] at this
    intro h; rw [h] at this; exact Bool.noConfusion this
  take_pos
  · rfl
  take_neg
  · rw [nan_lit y, hyn]; decide
  take_pos
  · rw [inf78, hy]; rfl
  rfl

/-- x finite non-zero, y zero (or non-canonical): invalid -/
theorem rem_yzero (x y : U128) (f : UInt32) (s s2 : Bool) (c : Nat) (e e2 : Int)
    (hx : decode (bitsOf x) = .fin s c e) (hc : c ≠ 0) (hy : decode (bitsOf y) = .fin s2 0 e2) :
    bid128_rem x y f = .ok (⟨0, 0x7c00000000000000⟩, f ||| 1) := by
  have hyn : (decode (bitsOf y)).isNaN = false := by rw [hy]; rfl
  obtain ⟨q, -, -⟩ := fin_range hx
  have hc' : c < 2^128 := by omega
  unfold bid128_rem
  take_call (unpack_fin' _ _ _ y hy)
  take_call (unpack_fin' _ _ _ x hx)
  take_neg
  · show ¬ (((ofBits c).w0 ||| (ofBits c).w1 == 0) = true)
    have := valid_nonzero hc' hc
    rw [bne] at this
    intro h; rw [h] at this; exact Bool.noConfusion this
  take_pos
  · exact ind_zero
  take_neg
  · rw [nan_lit y, hyn]; decide
  take_neg
  · rw [inf78, hy]; exact Bool.false_ne_true
  take_call (set_flags_ok _ _)
  rfl

/-- both finite and non-zero: `remD` (the finite core is `C10GenRem.rem_finite`) -/
theorem rem_fin (x y : U128) (f : UInt32) (s s2 : Bool) (c c2 : Nat) (e e2 : Int)
    (hx : decode (bitsOf x) = .fin s c e) (hc : c ≠ 0) (hy : decode (bitsOf y) = .fin s2 c2 e2) (hc2 : c2 ≠ 0) :
    bid128_rem x y f = .ok (ofBits (encode (remD (.fin s c e) (.fin s2 c2 e2)).1), f) := by
  obtain ⟨rx, sx, ex, cx, a1, a2, a3, a4, a5, a6, a7, a8, a9, a10⟩ := core_hyps x hx hc
  obtain ⟨ry, sy, ey, cy, b1, b2, b3, b4, b5, b6, b7, b8, b9, b10⟩ := core_hyps y hy hc2
  obtain ⟨res, h1, h2⟩ := Dec.C10GenRem.rem_finite x y f rx sx ry sy ex ey cx cy a1 b1 a2 b2 a3 a6 a7 b6 b7
    (by rw [a8]; exact a9) (by rw [a8]; exact a10) (by rw [b8]; exact b9) (by rw [b8]; exact b10)
    (by rw [a4, a8, a5, show e + 6176 - 6176 = e by omega]
        exact (Dec.C10GenRem.nz_canon (bitsOf x) (bitsOf_lt x) s c e hx hc).symm)
  rw [h1, Dec.C10GenRem.remD_fin s s2 c c2 e e2 hc2]
  congr 2
  apply eq_ofBits
  show Dec.C13GenPack.bitsOf res = _
  rw [h2, a4, a8, b8, a5, b5]
  have m : min (e + 6176) (e2 + 6176) = min e e2 + 6176 := by omega
  rw [m, show e + 6176 - (min e e2 + 6176) = e - min e e2 by omega,
    show e2 + 6176 - (min e e2 + 6176) = e2 - min e e2 by omega, show min e e2 + 6176 - 6176 = min e e2 by omega]

/-- **`bid128_rem`, no operand a NaN**: the pattern returned is the canonical encoding of `remD`'s datum, and the flags
`remD` raises (invalid for an infinite `x` or a zero `y`, else none) are OR-ed into the status word -/
theorem rem_nonnan (x y : U128) (f : UInt32) (hx : (decode (bitsOf x)).isNaN = false)
    (hy : (decode (bitsOf y)).isNaN = false) :
    bid128_rem x y f = .ok (ofBits (encode (remD (decode (bitsOf x)) (decode (bitsOf y))).1),
      f ||| UInt32.ofNat (remD (decode (bitsOf x)) (decode (bitsOf y))).2) := by
  cases hdx : decode (bitsOf x) with
  | nan a b c => rw [hdx] at hx; exact Bool.noConfusion hx
  | inf s =>
    rw [rem_xinf x y f s hdx hy]
    show _ = Except.ok (ofBits (encode invalidResult.1), f ||| UInt32.ofNat invalidResult.2)
    rw [show invalidResult = (defaultNaN, fInvalid) from rfl, dnan_word, inv_flag]
  | fin s c e =>
    cases hdy : decode (bitsOf y) with
    | nan a b c => rw [hdy] at hy; exact Bool.noConfusion hy
    | inf s2 =>
      show _ = Except.ok (ofBits (encode (Datum.fin s c e)), f ||| UInt32.ofNat 0)
      rw [no_flag]
      by_cases hc : c = 0
      · subst hc; exact rem_xzero_yinf x y f s s2 e hdx hdy
      · rw [rem_yinf x y f s s2 c e hdx hc hdy, ← x_canon x hdx hc]
    | fin s2 c2 e2 =>
      by_cases hc2 : c2 = 0
      · subst hc2
        have : remD (.fin s c e) (.fin s2 0 e2) = invalidResult := by simp [remD]
        rw [this, show invalidResult = (defaultNaN, fInvalid) from rfl, dnan_word, inv_flag]
        by_cases hc : c = 0
        · subst hc; exact rem_xzero_yzero x y f s s2 e e2 hdx hdy
        · exact rem_yzero x y f s s2 c e e2 hdx hc hdy
      · by_cases hc : c = 0
        · subst hc
          rw [rem_xzero_yfin x y f s s2 c2 e e2 hdx hdy hc2, Dec.C10GenRem.remD_fin s s2 0 c2 e e2 hc2]
          simp only [Nat.zero_mul, Dec.C10GenRem.remFin, Nat.zero_mod, if_true, no_flag]
        · rw [rem_fin x y f s s2 c c2 e e2 hdx hc hdy hc2, Dec.C10GenRem.remD_fin s s2 c c2 e e2 hc2, no_flag]


-- 1 rem 0, status word 0x20 on entry: invalid, +NaN
example : bid128_rem ⟨1, 0x3040000000000000⟩ ⟨0, 0x3040000000000000⟩ 0x20 = .ok (⟨0, 0x7c00000000000000⟩, 0x21) := by
  decide +kernel
-- -0E+5 rem 3E-2 = -0E-2;  a non-canonical x (coefficient 10^34: read as +0E+0) rem 3E-2 = +0E-2
example : bid128_rem ⟨0, 0xb04a000000000000⟩ ⟨3, 0x303c000000000000⟩ 0 = .ok (⟨0, 0xb03c000000000000⟩, 0) := by decide +kernel
example : bid128_rem ⟨0x378d8e6400000000, 0x3041ed09bead87c0⟩ ⟨3, 0x303c000000000000⟩ 0 = .ok (⟨0, 0x303c000000000000⟩, 0) := by
  decide +kernel
-- 7 rem 2 = -1 (n = 4);  5 rem 2 = +1 (tie, n = 2 even);  6 rem 4 = -2 (tie, n = 2);  1E+100 rem 7 = -3
example : bid128_rem ⟨7, 0x3040000000000000⟩ ⟨2, 0x3040000000000000⟩ 0x20 = .ok (⟨1, 0xb040000000000000⟩, 0x20) := by decide +kernel
example : bid128_rem ⟨5, 0x3040000000000000⟩ ⟨2, 0x3040000000000000⟩ 0 = .ok (⟨1, 0x3040000000000000⟩, 0) := by decide +kernel
example : bid128_rem ⟨6, 0x3040000000000000⟩ ⟨4, 0x3040000000000000⟩ 0 = .ok (⟨2, 0xb040000000000000⟩, 0) := by decide +kernel
example : bid128_rem ⟨1, 0x3108000000000000⟩ ⟨7, 0x3040000000000000⟩ 0 = .ok (⟨3, 0xb040000000000000⟩, 0) := by decide +kernel

/-! ## 4. All inputs; the judge -/

/-- what the specification prescribes for a binary arithmetic method with datum-level definition `D`: the NaN rule when an
operand is a NaN (first operand's NaN first), else the canonical encoding of `D`'s datum and `D`'s flags OR-ed in -/
def binSpec (D : Datum → Datum → Datum × Flags) (x y : U128) (f : UInt32) : U128 × UInt32 :=
  if ((decode (bitsOf x)).isNaN || (decode (bitsOf y)).isNaN) = true then
    (pick2 x y, nanFlags f [decode (bitsOf x), decode (bitsOf y)])
  else (ofBits (encode (D (decode (bitsOf x)) (decode (bitsOf y))).1),
        f ||| UInt32.ofNat (D (decode (bitsOf x)) (decode (bitsOf y))).2)

/-- **`bid128_fmod` on all inputs**: every pair of 128-bit patterns and every status word; never panics -/
theorem fmod_spec (x y : U128) (f : UInt32) : bid128_fmod x y f = .ok (binSpec fmodD x y f) := by
  unfold binSpec
  by_cases h : ((decode (bitsOf x)).isNaN || (decode (bitsOf y)).isNaN) = true
  · rw [if_pos h]; exact fmod_nan x y f h
  · rw [if_neg h]
    simp only [Bool.or_eq_true, not_or, Bool.not_eq_true] at h
    exact fmod_nonnan x y f h.1 h.2

/-- **`bid128_rem` on all inputs** -/
theorem rem_spec (x y : U128) (f : UInt32) : bid128_rem x y f = .ok (binSpec remD x y f) := by
  unfold binSpec
  by_cases h : ((decode (bitsOf x)).isNaN || (decode (bitsOf y)).isNaN) = true
  · rw [if_pos h]; exact rem_nan x y f h
  · rw [if_neg h]
    simp only [Bool.or_eq_true, not_or, Bool.not_eq_true] at h
    exact rem_nonnan x y f h.1 h.2

/-- `fmodD` / `remD` of well-formed non-NaN data are well-formed and raise at most `invalid` -/
theorem fmodD_WF {a b : Datum} (ha : a.WF) (hb : b.WF) (na : a.isNaN = false) (nb : b.isNaN = false) :
    (fmodD a b).1.WF ∧ (remD a b).1.WF := by
  cases a with
  | nan _ _ _ => exact Bool.noConfusion na
  | inf s =>
    obtain ⟨h2, h1, -⟩ := Dec.C10.rem_specials s s 0 0 0 b
    rw [h1, h2]; exact ⟨by decide, by decide⟩
  | fin s c e =>
    cases b with
    | nan _ _ _ => exact Bool.noConfusion nb
    | inf s2 => exact ⟨ha, ha⟩
    | fin s2 c2 e2 =>
      by_cases hc2 : c2 = 0
      · subst hc2
        have h1 : fmodD (.fin s c e) (.fin s2 0 e2) = invalidResult := by simp [fmodD]
        have h2 : remD (.fin s c e) (.fin s2 0 e2) = invalidResult := by simp [remD]
        rw [h1, h2]; exact ⟨by decide, by decide⟩
      · obtain ⟨w1, -, w2, -⟩ := Dec.C10Bound.rem_fmod_WF s s2 c c2 e e2 ha hb hc2
        exact ⟨w2, w1⟩

/-- the rendering of a binary observation as the judge reads it -/
def obs (op : String) (m : Mode) (x y : U128) (f : UInt32) (r : U128 × UInt32) : Obs :=
  ⟨op, m, f.toNat, [.d (bitsOf x), .d (bitsOf y)], some ([.d (bitsOf r.1)], r.2.toNat)⟩

theorem flags_toNat (f : UInt32) (n : Nat) (hn : n < 2^32) : (f ||| UInt32.ofNat n).toNat = f.toNat ||| n := by
  rw [UInt32.toNat_or, UInt32.toNat_ofNat', Nat.mod_eq_of_lt hn]

theorem flags_small (p : Datum × Flags) (h : p.2 = 0 ∨ p.2 = fInvalid) : p.2 < 2^32 := by
  rcases h with h | h <;> rw [h] <;> decide

theorem fmodD_flags (a b : Datum) : ((fmodD a b).2 = 0 ∨ (fmodD a b).2 = fInvalid) ∧
    ((remD a b).2 = 0 ∨ (remD a b).2 = fInvalid) := by
  have hi : invalidResult.2 = fInvalid := rfl
  cases a with
  | nan _ _ _ => exact ⟨Or.inr (by cases b <;> rfl), Or.inr (by cases b <;> rfl)⟩
  | inf s =>
    obtain ⟨h2, h1, -⟩ := Dec.C10.rem_specials s s 0 0 0 b
    rw [h1, h2]; exact ⟨Or.inr hi, Or.inr hi⟩
  | fin s c e =>
    cases b with
    | nan _ _ _ => exact ⟨Or.inr rfl, Or.inr rfl⟩
    | inf s2 => exact ⟨Or.inl rfl, Or.inl rfl⟩
    | fin s2 c2 e2 =>
      by_cases hc2 : c2 = 0
      · subst hc2
        have h1 : fmodD (.fin s c e) (.fin s2 0 e2) = invalidResult := by simp [fmodD]
        have h2 : remD (.fin s c e) (.fin s2 0 e2) = invalidResult := by simp [remD]
        rw [h1, h2]; exact ⟨Or.inr hi, Or.inr hi⟩
      · rw [Dec.C10GenRem.fmodD_fin s s2 c c2 e e2 hc2, Dec.C10GenRem.remD_fin s s2 c c2 e e2 hc2]
        exact ⟨Or.inl rfl, Or.inl rfl⟩

/-- the judge's expectation for a `bin … exactD` method is met by `binSpec` -/
theorem binSpec_accepted (D : Datum → Datum → Datum × Flags) (op : String) (m : Mode) (ta : Bool) (x y : U128) (f : UInt32)
    (hexp : expect op m [.d (bitsOf x), .d (bitsOf y)] ta = bin (bitsOf x) (bitsOf y) (fun a b => exactD (D a b)))
    (hWF : ((decode (bitsOf x)).isNaN || (decode (bitsOf y)).isNaN) = false →
      (D (decode (bitsOf x)) (decode (bitsOf y))).1.WF ∧ (D (decode (bitsOf x)) (decode (bitsOf y))).2 < 2^32) :
    ∃ c, accepts ta (obs op m x y f (binSpec D x y f)) = .ok c := by
  rw [Dec.JudgeSound.accepts_def]
  show ∃ c, judgeWith (expect op m [.d (bitsOf x), .d (bitsOf y)] ta) _ = _
  rw [hexp]
  unfold bin nanRule binSpec
  by_cases h : ((decode (bitsOf x)).isNaN || (decode (bitsOf y)).isNaN) = true
  · rw [if_pos h]
    have hne : ([decode (bitsOf x), decode (bitsOf y)].filter Datum.isNaN).isEmpty = false := by
      simp only [List.filter_cons, List.filter_nil]
      cases hx : (decode (bitsOf x)).isNaN <;> cases hy : (decode (bitsOf y)).isNaN <;> simp_all
    simp only [hne, Bool.false_eq_true, if_false]
    rw [Dec.JudgeSound.ok_oneOf_iff]
    obtain ⟨k1, k2⟩ := rule_binary x y f h
    refine ⟨_, _, rfl, ?_, k2⟩
    simp only [List.mem_map] at k1 ⊢
    obtain ⟨n, hn, he⟩ := k1
    exact ⟨n, hn, by rw [he]⟩
  · rw [if_neg h]
    have hem : ([decode (bitsOf x), decode (bitsOf y)].filter Datum.isNaN).isEmpty = true := by
      simp only [Bool.or_eq_true, not_or, Bool.not_eq_true] at h
      simp [h.1, h.2]
    simp only [hem, if_true]
    unfold exactD
    rw [Dec.JudgeSound.ok_oneOf_iff]
    obtain ⟨w, fl⟩ := hWF (by simpa using h)
    refine ⟨_, _, rfl, ?_, ?_⟩
    · simp only [List.mem_singleton]
      rw [bitsOf_ofBits (encode_lt w)]
    · simp only [obs]; exact flags_toNat f _ fl

/-- **the judge accepts what the translated `bid128_fmod` returns**, for every pair of patterns, status word and mode:
the observation built from the routine's result meets `expect "fmod"` (DecModel/Ops.lean) -/
theorem fmod_accepted (m : Mode) (ta : Bool) (x y : U128) (f : UInt32) :
    ∃ r, bid128_fmod x y f = .ok r ∧ ∃ c, accepts ta (obs "fmod" m x y f r) = .ok c := by
  refine ⟨_, fmod_spec x y f, binSpec_accepted fmodD "fmod" m ta x y f (Dec.JudgeSound.dispatch_fmod m _ _ ta) ?_⟩
  intro h
  simp only [Bool.or_eq_false_iff] at h
  exact ⟨(fmodD_WF (decode_WF _) (decode_WF _) h.1 h.2).1, flags_small _ (fmodD_flags _ _).1⟩

/-- **the judge accepts what the translated `bid128_rem` returns** (`expect "remainder"`) -/
theorem rem_accepted (m : Mode) (ta : Bool) (x y : U128) (f : UInt32) :
    ∃ r, bid128_rem x y f = .ok r ∧ ∃ c, accepts ta (obs "remainder" m x y f r) = .ok c := by
  refine ⟨_, rem_spec x y f, binSpec_accepted remD "remainder" m ta x y f (Dec.JudgeSound.dispatch_remainder m _ _ ta) ?_⟩
  intro h
  simp only [Bool.or_eq_false_iff] at h
  exact ⟨(fmodD_WF (decode_WF _) (decode_WF _) h.1 h.2).2, flags_small _ (fmodD_flags _ _).2⟩


-- the observation of `7 rem 2` from the word 0x20, as the judge reads it: accepted
example : ∃ c, accepts false (obs "remainder" .rne ⟨7, 0x3040000000000000⟩ ⟨2, 0x3040000000000000⟩ 0x20
    (⟨1, 0xb040000000000000⟩, 0x20)) = .ok c := by
  obtain ⟨r, h1, h2⟩ := rem_accepted .rne false ⟨7, 0x3040000000000000⟩ ⟨2, 0x3040000000000000⟩ 0x20
  have e : bid128_rem ⟨7, 0x3040000000000000⟩ ⟨2, 0x3040000000000000⟩ 0x20 = .ok (⟨1, 0xb040000000000000⟩, 0x20) := by
    decide +kernel
  have hr : (⟨1, 0xb040000000000000⟩, 0x20) = r := Except.ok.inj (e.symm.trans h1)
  rw [hr]; exact h2
-- sNaN(payload 5) fmod 2: the NaN rule
example : binSpec fmodD ⟨5, 0x7e00000000000000⟩ ⟨2, 0x3040000000000000⟩ 0 = (⟨5, 0x7c00000000000000⟩, 1) := by decide +kernel

/-! ## 5. The property C10 about the public methods `fmod` and `remainder` (`Dec.Gen.Api.run`) -/

open Dec.Gen.Api

/-- the datum a value denotes -/
abbrev dOf (x : U128) : Datum := decode (bitsOf x)

theorem run_fmod (m : RoundingMode) (f : UInt32) (a0 a1 : U128) :
    run "fmod" m f [.d a0, .d a1] = some ((bid128_fmod a0 a1 f).map fun (r, g) => ([.d r], g)) := rfl
theorem run_remainder (m : RoundingMode) (f : UInt32) (a0 a1 : U128) :
    run "remainder" m f [.d a0, .d a1] = some ((bid128_rem a0 a1 f).map fun (r, g) => ([.d r], g)) := rfl

/-- `d128::fmod` on every pair of values, every status word (the rounding mode is not used): returns normally with what
the specification prescribes -/
theorem api_fmod (m : RoundingMode) (f : UInt32) (x y : U128) :
    run "fmod" m f [.d x, .d y] = some (.ok ([.d (binSpec fmodD x y f).1], (binSpec fmodD x y f).2)) := by
  rw [run_fmod, fmod_spec]
  generalize binSpec fmodD x y f = p
  cases p; rfl

/-- `d128::remainder` on every pair of values -/
theorem api_remainder (m : RoundingMode) (f : UInt32) (x y : U128) :
    run "remainder" m f [.d x, .d y] = some (.ok ([.d (binSpec remD x y f).1], (binSpec remD x y f).2)) := by
  rw [run_remainder, rem_spec]
  generalize binSpec remD x y f = p
  cases p; rfl

theorem binSpec_nonnan (D : Datum → Datum → Datum × Flags) (x y : U128) (f : UInt32) (hx : (dOf x).isNaN = false)
    (hy : (dOf y).isNaN = false) :
    binSpec D x y f = (ofBits (encode (D (dOf x) (dOf y)).1), f ||| UInt32.ofNat (D (dOf x) (dOf y)).2) := by
  unfold binSpec
  rw [if_neg]
  show ¬ (((dOf x).isNaN || (dOf y).isNaN) = true)
  rw [hx, hy]; decide

/-- a result `ofBits (encode d)` for a well-formed `d` denotes `d` and is canonical -/
theorem result_datum {d : Datum} (w : d.WF) : dOf (ofBits (encode d)) = d ∧ isCanonical (bitsOf (ofBits (encode d))) = true := by
  unfold dOf
  rw [bitsOf_ofBits (encode_lt w)]
  exact ⟨decode_encode w, isCanonical_encode w⟩

/-- C10, fmod: "For finite x and nonzero finite y … fmod returns exactly x - n*y with n = trunc(x/y), so … |fmod| < |y| with
the sign of x; … always exactly representable, carry quantum exponent min(ex, ey), give a zero with the sign of x when the
division is exact, and raise no flag."  With `x = ±c₁·10^e₁`, `y = ±c₂·10^e₂`, `m = min e₁ e₂`, `X = c₁·10^(e₁−m)`,
`Y = c₂·10^(e₂−m)` (so `|x| = X·10^m`, `|y| = Y·10^m`): the method returns, the status word is unchanged, the result is the
canonical pattern of `(sign of x) R·10^m` with `X = (X / Y)·Y + R` and `R < Y`. -/
theorem fmod_property (md : RoundingMode) (f : UInt32) (x y : U128) (s1 s2 : Bool) (c1 c2 : Nat) (e1 e2 : Int)
    (hx : dOf x = .fin s1 c1 e1) (hy : dOf y = .fin s2 c2 e2) (hc2 : c2 ≠ 0) :
    ∃ (r : U128) (R : Nat), run "fmod" md f [.d x, .d y] = some (.ok ([.d r], f)) ∧
      dOf r = .fin s1 R (min e1 e2) ∧ isCanonical (bitsOf r) = true ∧
      c1 * 10 ^ (e1 - min e1 e2).toNat
        = (c1 * 10 ^ (e1 - min e1 e2).toNat / (c2 * 10 ^ (e2 - min e1 e2).toNat)) * (c2 * 10 ^ (e2 - min e1 e2).toNat) + R ∧
      R < c2 * 10 ^ (e2 - min e1 e2).toNat := by
  have nx : (dOf x).isNaN = false := by rw [hx]; rfl
  have ny : (dOf y).isNaN = false := by rw [hy]; rfl
  have wx : (Datum.fin s1 c1 e1).WF := by rw [← hx]; exact decode_WF _
  have wy : (Datum.fin s2 c2 e2).WF := by rw [← hy]; exact decode_WF _
  have hval := Dec.C10GenRem.fmodD_fin s1 s2 c1 c2 e1 e2 hc2
  obtain ⟨-, -, w, -⟩ := Dec.C10Bound.rem_fmod_WF s1 s2 c1 c2 e1 e2 wx wy hc2
  rw [hval] at w
  obtain ⟨k1, k2⟩ := result_datum w
  have hY : 0 < c2 * 10 ^ (e2 - min e1 e2).toNat := Nat.mul_pos (Nat.pos_of_ne_zero hc2) (Nat.pow_pos (by decide))
  refine ⟨_, _, ?_, k1, k2, ?_, Nat.mod_lt _ hY⟩
  · rw [api_fmod, binSpec_nonnan fmodD x y f nx ny, hx, hy, hval]
    exact congrArg (fun g => some (Except.ok ([AVal.d _], g))) (no_flag f)
  · exact (Nat.div_add_mod' _ _).symm

/-- C10, remainder: "remainder returns exactly x - n*y with n the integer nearest x/y (ties to even) … so |remainder| <=
|y|/2 …; exactly representable, quantum exponent min(ex, ey), a zero with the sign of x when the division is exact, no
flag."  Same `X`, `Y`, `m`: the result is the canonical pattern of `±R·10^m` with `2R ≤ Y`, and there is an integer `n` with
either (sign of x, `X = n·Y + R`) or (opposite sign, `R ≠ 0`, `X + R = n·Y`); on a tie `2R = Y` that `n` is even; `R = 0`
keeps the sign of x. -/
theorem remainder_property (md : RoundingMode) (f : UInt32) (x y : U128) (s1 s2 : Bool) (c1 c2 : Nat) (e1 e2 : Int)
    (hx : dOf x = .fin s1 c1 e1) (hy : dOf y = .fin s2 c2 e2) (hc2 : c2 ≠ 0) :
    ∃ (r : U128) (neg : Bool) (R n : Nat), run "remainder" md f [.d x, .d y] = some (.ok ([.d r], f)) ∧
      dOf r = .fin neg R (min e1 e2) ∧ isCanonical (bitsOf r) = true ∧
      2 * R ≤ c2 * 10 ^ (e2 - min e1 e2).toNat ∧
      ((neg = s1 ∧ c1 * 10 ^ (e1 - min e1 e2).toNat = n * (c2 * 10 ^ (e2 - min e1 e2).toNat) + R) ∨
       (neg = !s1 ∧ R ≠ 0 ∧ c1 * 10 ^ (e1 - min e1 e2).toNat + R = n * (c2 * 10 ^ (e2 - min e1 e2).toNat))) ∧
      (2 * R = c2 * 10 ^ (e2 - min e1 e2).toNat → n % 2 = 0) ∧ (R = 0 → neg = s1) := by
  have nx : (dOf x).isNaN = false := by rw [hx]; rfl
  have ny : (dOf y).isNaN = false := by rw [hy]; rfl
  have wx : (Datum.fin s1 c1 e1).WF := by rw [← hx]; exact decode_WF _
  have wy : (Datum.fin s2 c2 e2).WF := by rw [← hy]; exact decode_WF _
  have hs := Dec.C10.rem_spec s1 s2 c1 c2 e1 e2 hc2
  simp only [Dec.C10.scaled] at hs
  have hmin : (if e1 ≤ e2 then e1 else e2) = min e1 e2 := by split <;> omega
  rw [hmin] at hs
  obtain ⟨n, R, neg, hval, p1, p2, p3, p4⟩ := hs
  obtain ⟨w, -, -, -⟩ := Dec.C10Bound.rem_fmod_WF s1 s2 c1 c2 e1 e2 wx wy hc2
  rw [hval] at w
  obtain ⟨k1, k2⟩ := result_datum w
  refine ⟨_, neg, R, n, ?_, k1, k2, p1, p2, p3, p4⟩
  rw [api_remainder, binSpec_nonnan remD x y f nx ny, hx, hy, hval]
  exact congrArg (fun g => some (Except.ok ([AVal.d _], g))) (no_flag f)

/-- C10: "x infinite or y zero gives a quiet NaN with invalid" (neither operand a NaN): both methods return the default
quiet NaN `+NaN` (payload 0) and OR `invalid` into the status word -/
theorem invalid_property (md : RoundingMode) (f : UInt32) (x y : U128) (hx : (dOf x).isNaN = false)
    (hy : (dOf y).isNaN = false) (h : (dOf x).isInf = true ∨ ∃ s e, dOf y = .fin s 0 e) :
    run "fmod" md f [.d x, .d y] = some (.ok ([.d ⟨0, 0x7c00000000000000⟩], f ||| 1)) ∧
    run "remainder" md f [.d x, .d y] = some (.ok ([.d ⟨0, 0x7c00000000000000⟩], f ||| 1)) ∧
    dOf ⟨0, 0x7c00000000000000⟩ = .nan false false 0 := by
  have key : fmodD (dOf x) (dOf y) = invalidResult ∧ remD (dOf x) (dOf y) = invalidResult := by
    rcases h with h | ⟨s, e, h⟩
    · cases hdx : dOf x with
      | inf s => obtain ⟨h2, h1, -⟩ := Dec.C10.rem_specials s s 0 0 0 (dOf y); exact ⟨h1, h2⟩
      | fin _ _ _ => rw [hdx] at h; exact Bool.noConfusion h
      | nan _ _ _ => rw [hdx] at h; exact Bool.noConfusion h
    · rw [h]
      cases hdx : dOf x with
      | inf sx => obtain ⟨h2, h1, -⟩ := Dec.C10.rem_specials sx sx 0 0 0 (Datum.fin s 0 e); exact ⟨h1, h2⟩
      | fin s1 c1 e1 => exact ⟨by simp [fmodD], by simp [remD]⟩
      | nan _ _ _ => rw [hdx] at hx; exact Bool.noConfusion hx
  refine ⟨?_, ?_, by decide +kernel⟩
  · rw [api_fmod, binSpec_nonnan fmodD x y f hx hy, key.1, show invalidResult = (defaultNaN, fInvalid) from rfl, dnan_word,
      inv_flag]
  · rw [api_remainder, binSpec_nonnan remD x y f hx hy, key.2, show invalidResult = (defaultNaN, fInvalid) from rfl,
      dnan_word, inv_flag]

/-- C10: "y infinite returns x unchanged" (x finite): both methods return the canonical pattern of `x`'s datum — `x` itself
when `x` is canonical — and raise nothing -/
theorem yinf_property (md : RoundingMode) (f : UInt32) (x y : U128) (s s2 : Bool) (c : Nat) (e : Int)
    (hx : dOf x = .fin s c e) (hy : dOf y = .inf s2) :
    ∃ r, run "fmod" md f [.d x, .d y] = some (.ok ([.d r], f)) ∧
      run "remainder" md f [.d x, .d y] = some (.ok ([.d r], f)) ∧
      dOf r = dOf x ∧ bitsOf r = canon (bitsOf x) ∧ (isCanonical (bitsOf x) = true → r = x) := by
  have nx : (dOf x).isNaN = false := by rw [hx]; rfl
  have ny : (dOf y).isNaN = false := by rw [hy]; rfl
  have wx : (Datum.fin s c e).WF := by rw [← hx]; exact decode_WF _
  obtain ⟨k1, -⟩ := result_datum wx
  refine ⟨ofBits (encode (.fin s c e)), ?_, ?_, by rw [k1, hx], ?_, ?_⟩
  · rw [api_fmod, binSpec_nonnan fmodD x y f nx ny, hx, hy]
    exact congrArg (fun g => some (Except.ok ([AVal.d _], g))) (no_flag f)
  · rw [api_remainder, binSpec_nonnan remD x y f nx ny, hx, hy]
    exact congrArg (fun g => some (Except.ok ([AVal.d _], g))) (no_flag f)
  · rw [bitsOf_ofBits (encode_lt wx)]; unfold canon; rw [show decode (bitsOf x) = dOf x from rfl, hx]
  · intro hcan
    have := ((isCanonical_iff _).1 hcan).2
    unfold canon at this
    rw [show decode (bitsOf x) = dOf x from rfl, hx] at this
    rw [this, ofBits_bitsOf]


/-- the guard `diff_expon > 34` (x's exponent below y's): from a gap of 34 on, `fmod` is `x` (`|x| < 10^34·10^e₁ ≤ |y|`), so
for `bid128_fmod` the guard only saves the table look-up and the 256-bit product; for `remainder` a gap of exactly 34 can
still round away from `x` (`2|x|` may exceed `|y|`: `9·10^33 rem 1E+34 = −1·10^33`, example below), from 35 on it cannot —
there the guard must be `> 34`, not `≥ 34` -/
theorem far_property (md : RoundingMode) (f : UInt32) (x y : U128) (s1 s2 : Bool) (c1 c2 : Nat) (e1 e2 : Int)
    (hx : dOf x = .fin s1 c1 e1) (hy : dOf y = .fin s2 c2 e2) (hc2 : c2 ≠ 0) :
    (e1 + 34 ≤ e2 → ∃ r, run "fmod" md f [.d x, .d y] = some (.ok ([.d r], f)) ∧ dOf r = dOf x) ∧
    (e1 + 35 ≤ e2 → ∃ r, run "remainder" md f [.d x, .d y] = some (.ok ([.d r], f)) ∧ dOf r = dOf x) := by
  have nx : (dOf x).isNaN = false := by rw [hx]; rfl
  have ny : (dOf y).isNaN = false := by rw [hy]; rfl
  have wx : (Datum.fin s1 c1 e1).WF := by rw [← hx]; exact decode_WF _
  obtain ⟨k1, -⟩ := result_datum wx
  have hc1 : c1 < 10 ^ 34 := wx.1
  have hc2' : 1 ≤ c2 := Nat.pos_of_ne_zero hc2
  have scale : ∀ g : Nat, e1 + g ≤ e2 → min e1 e2 = e1 ∧ (e1 - min e1 e2).toNat = 0 ∧
      10 ^ g ≤ c2 * 10 ^ (e2 - min e1 e2).toNat := by
    intro g hg
    have hm : min e1 e2 = e1 := by omega
    refine ⟨hm, by omega, ?_⟩
    rw [hm]
    calc 10 ^ g ≤ 10 ^ (e2 - e1).toNat := Nat.pow_le_pow_right (by decide) (by omega)
      _ = 1 * 10 ^ (e2 - e1).toNat := (Nat.one_mul _).symm
      _ ≤ c2 * 10 ^ (e2 - e1).toNat := Nat.mul_le_mul_right _ hc2'
  constructor
  · intro hg
    obtain ⟨hm, h0, hY⟩ := scale 34 (by omega)
    have hval : fmodD (.fin s1 c1 e1) (.fin s2 c2 e2) = (.fin s1 c1 e1, 0) := by
      rw [Dec.C10GenRem.fmodD_fin s1 s2 c1 c2 e1 e2 hc2, h0, Nat.pow_zero, Nat.mul_one, Nat.mod_eq_of_lt (by omega), hm]
    refine ⟨_, ?_, by rw [k1, hx]⟩
    rw [api_fmod, binSpec_nonnan fmodD x y f nx ny, hx, hy, hval]
    exact congrArg (fun g => some (Except.ok ([AVal.d _], g))) (no_flag f)
  · intro hg
    obtain ⟨hm, h0, hY⟩ := scale 35 (by omega)
    have hval : remD (.fin s1 c1 e1) (.fin s2 c2 e2) = (.fin s1 c1 e1, 0) := by
      rw [Dec.C10GenRem.remD_fin s1 s2 c1 c2 e1 e2 hc2, h0, Nat.pow_zero, Nat.mul_one, hm]
      rw [hm] at hY
      generalize c2 * 10 ^ (e2 - e1).toNat = Y at hY
      have hlt : c1 < Y := by omega
      unfold Dec.C10GenRem.remFin
      rw [Nat.mod_eq_of_lt hlt]
      by_cases hz : c1 = 0
      · rw [if_pos hz, hz]
      · rw [if_neg hz, if_neg]
        simp only [Bool.or_eq_true, Bool.and_eq_true, decide_eq_true_eq, not_or, not_and]
        constructor
        · omega
        · intro h; omega
    refine ⟨_, ?_, by rw [k1, hx]⟩
    rw [api_remainder, binSpec_nonnan remD x y f nx ny, hx, hy, hval]
    exact congrArg (fun g => some (Except.ok ([AVal.d _], g))) (no_flag f)


-- the public methods on the inputs of the examples above
example : run "fmod" .NearestEven 0x20 [.d ⟨75, 0x303e000000000000⟩, .d ⟨2, 0x3040000000000000⟩]
    = some (.ok ([.d ⟨15, 0x303e000000000000⟩], 0x20)) := by decide +kernel
example : run "remainder" .NearestEven 0x20 [.d ⟨7, 0x3040000000000000⟩, .d ⟨2, 0x3040000000000000⟩]
    = some (.ok ([.d ⟨1, 0xb040000000000000⟩], 0x20)) := by decide +kernel
-- gap of exactly 34: x = 9·10^33 (34 digits, exponent 0), y = 1E+34: fmod is x, remainder is −1·10^33
example : bid128_fmod ⟨0xfecc335a00000000, 0x3041bbbbf868fa2c⟩ ⟨1, 0x3084000000000000⟩ 0
    = .ok (⟨0xfecc335a00000000, 0x3041bbbbf868fa2c⟩, 0) := by decide +kernel
example : bid128_rem ⟨0xfecc335a00000000, 0x3041bbbbf868fa2c⟩ ⟨1, 0x3084000000000000⟩ 0
    = .ok (⟨0x38c15b0a00000000, 0xb040314dc6448d93⟩, 0) := by decide +kernel
-- gap 35 (y = 1E+35): remainder is x
example : bid128_rem ⟨0xfecc335a00000000, 0x3041bbbbf868fa2c⟩ ⟨1, 0x3086000000000000⟩ 0
    = .ok (⟨0xfecc335a00000000, 0x3041bbbbf868fa2c⟩, 0) := by decide +kernel
-- the `P256.w[2] != 0 || P256.w[3] != 0` guard: y = (10^34 − 1)E+10 (Y ≈ 2^146: only word 2 set) and (10^34 − 1)E+30
-- (Y ≈ 2^212: word 3 set); both results are x
example : bid128_rem ⟨0xfecc335a00000000, 0x3041bbbbf868fa2c⟩ ⟨0x378d8e63ffffffff, 0x3055ed09bead87c0⟩ 0
    = .ok (⟨0xfecc335a00000000, 0x3041bbbbf868fa2c⟩, 0) := by decide +kernel
example : bid128_fmod ⟨0xfecc335a00000000, 0x3041bbbbf868fa2c⟩ ⟨0x378d8e63ffffffff, 0x3055ed09bead87c0⟩ 0
    = .ok (⟨0xfecc335a00000000, 0x3041bbbbf868fa2c⟩, 0) := by decide +kernel
example : bid128_rem ⟨0xfecc335a00000000, 0x3041bbbbf868fa2c⟩ ⟨0x378d8e63ffffffff, 0x307ded09bead87c0⟩ 0
    = .ok (⟨0xfecc335a00000000, 0x3041bbbbf868fa2c⟩, 0) := by decide +kernel
example : (mul_128x128_to_256 ⟨0x378d8e63ffffffff, 0x1ed09bead87c0⟩ ⟨10000000000, 0⟩).map (fun p => (p.w2 != 0, p.w3 != 0))
    = .ok (true, false) := by decide +kernel
example : (mul_128x128_to_256 ⟨0x378d8e63ffffffff, 0x1ed09bead87c0⟩ ⟨0x4674edea40000000, 0xc9f2c9cd0⟩).map
    (fun p => (p.w2 != 0, p.w3 != 0)) = .ok (true, true) := by decide +kernel

end Dec.C10GenFmodRem
