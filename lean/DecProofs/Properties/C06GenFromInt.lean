/-
  C06 / C09 (generated-code level) — theorems about the machine translation `DecGen/Code.lean` of the Rust source, for ALL
  inputs, in terms of the spec-level model (`Dec.decode`, `Dec.encode`, `Dec.canon`, `Dec.fromIntD`, `Dec.quantumD`):
   1. the integer → decimal128 conversions of bid_from_int.rs (`bid128_from_int32/uint32/int64/uint64`);
   2. the exponent queries `bid128_quantexp`, `bid128_llquantexp`, `bid128_quantum`;
  and, beyond the assignment,
   3. `bid128_quiet_ordered`, `bid128_quiet_unordered`;
   4. `unpack_BID128_value`, the operand decoder used by the arithmetic routines, against `decode`;
   5. the packers `bid_get_BID128_very_fast`, `return_bid128`, `return_bid128_zero` (on their call-site domain);
   6. the pure delegations `lround`, `llround`, `lrint`, `llrint`, `nexttoward`, `scalbn`, `ldexp`, `scalbln`, `sub`;
   7. `unpack_BID128`, the by-reference twin of 4 (differs from it — and from `decode` — on non-canonical NaNs).
  Core Lean only (no Mathlib).  Every routine theorem says `= .ok …`: the routine never panics.
-/
import DecGen.Code
import DecModel.Misc
import DecProofs.Core.Codec

namespace Dec.C06GenFromInt
open Dec.Rs Dec.Gen.Code

/-! ## 0. Words and patterns -/

/-- equality of results is decidable (only used to evaluate the translated routines in the `example`s, by the kernel) -/
instance decEqExcept {ε α : Type} [DecidableEq ε] [DecidableEq α] : DecidableEq (Except ε α)
  | .ok a, .ok b => if h : a = b then isTrue (h ▸ rfl) else isFalse (fun h' => h (Except.ok.inj h'))
  | .error a, .error b => if h : a = b then isTrue (h ▸ rfl) else isFalse (fun h' => h (Except.error.inj h'))
  | .ok _, .error _ => isFalse nofun
  | .error _, .ok _ => isFalse nofun

/-- the 128-bit pattern held by a `U128` (`w1` is the high word) -/
def bitsOf (x : U128) : Nat := x.w1.toNat * 2^64 + x.w0.toNat

/-- the `U128` holding the pattern `b` (meant for `b < 2^128`) -/
def ofBits (b : Nat) : U128 := ⟨UInt64.ofNat (b % 2^64), UInt64.ofNat (b / 2^64)⟩

theorem bitsOf_lt (x : U128) : bitsOf x < 2^128 := by
  have h0 := x.w0.toNat_lt; have h1 := x.w1.toNat_lt
  unfold bitsOf; omega

theorem bitsOf_ofBits {b : Nat} (h : b < 2^128) : bitsOf (ofBits b) = b := by
  simp only [bitsOf, ofBits, UInt64.toNat_ofNat']
  omega

theorem ofBits_bitsOf (x : U128) : ofBits (bitsOf x) = x := by
  have h0 := x.w0.toNat_lt; have h1 := x.w1.toNat_lt
  obtain ⟨a, b⟩ := x
  simp only [ofBits, bitsOf, U128.mk.injEq, ← UInt64.toNat_inj, UInt64.toNat_ofNat'] at *
  omega

/-- a contiguous mask selects a bit field -/
theorem and_field (x k s : Nat) : x &&& ((2^k - 1) * 2^s) = (x / 2^s % 2^k) * 2^s := by
  have h1 : (x &&& ((2^k - 1) * 2^s)) / 2^s = x / 2^s % 2^k := by
    rw [Nat.and_div_two_pow, Nat.mul_div_cancel _ (Nat.two_pow_pos s), Nat.and_two_pow_sub_one_eq_mod]
  have h2 : (x &&& ((2^k - 1) * 2^s)) % 2^s = 0 := by
    rw [Nat.and_mod_two_pow, Nat.mul_mod_left, Nat.and_zero]
  have h3 := Nat.div_add_mod (x &&& ((2^k - 1) * 2^s)) (2^s)
  rw [h1, h2, Nat.add_zero, Nat.mul_comm] at h3
  exact h3.symm

/-! ## 1. Integer → decimal128 -/

/-- the cast `as u64` of a non-negative mathematical value -/
theorem ofInt_nonneg (k : Int) (h0 : 0 ≤ k) : UInt64.ofInt k = UInt64.ofNat k.natAbs := by
  unfold UInt64.ofInt
  rw [← UInt64.toNat_inj, UInt64.toNat_ofNat', UInt64.toNat_ofNat']
  omega

/-- two's-complement negation `!v + 1` of the cast of a non-positive value is its magnitude -/
theorem not_ofInt_add_one (k : Int) (h0 : k ≤ 0) : ~~~(UInt64.ofInt k) + 1 = UInt64.ofNat k.natAbs := by
  rw [← UInt64.neg_eq_not_add, ← UInt64.ofInt_neg, ofInt_nonneg _ (by omega), Int.natAbs_neg]

/-- the canonical encoding of the integer datum `±c·10^0`, `c < 2^64`, as two words -/
theorem ofBits_encode_int (neg : Bool) (c : Nat) (hc : c < 2^64) :
    ofBits (encode (.fin neg c 0)) =
      ⟨UInt64.ofNat c, if neg then 0xb040000000000000 else 0x3040000000000000⟩ := by
  cases neg <;>
  · simp only [ofBits, encode, signBit, U128.mk.injEq, ← UInt64.toNat_inj, UInt64.toNat_ofNat',
      Bool.false_eq_true, if_false, if_true]
    refine ⟨by omega, ?_⟩
    simp only [UInt64.toNat_ofNat]
    omega

/-- an integer datum with `|n| < 2^64` is well formed -/
theorem fromIntD_WF (n : Int) (h : n.natAbs < 2^64) : (fromIntD n).WF := by
  unfold fromIntD Datum.WF P34 eMin eMax
  omega

theorem bv32_sign (v : BitVec 32) : (v &&& 0x80000000#32 = 0x80000000#32) ↔ v.toInt < 0 := by
  rw [← BitVec.toNat_inj, BitVec.toNat_and, BitVec.toInt_eq_toNat_cond]
  have h := v.isLt
  have e : (0x80000000#32).toNat = (2^1 - 1) * 2^31 := rfl
  rw [e, and_field]
  omega

theorem bv64_sign (v : BitVec 64) : (v &&& 0x8000000000000000#64 = 0x8000000000000000#64) ↔ v.toInt < 0 := by
  rw [← BitVec.toNat_inj, BitVec.toNat_and, BitVec.toInt_eq_toNat_cond]
  have h := v.isLt
  have e : (0x8000000000000000#64).toNat = (2^1 - 1) * 2^63 := rfl
  rw [e, and_field]
  omega

/-- the sign test of `bid128_from_int32` (`x & SIGNMASK32 == SIGNMASK32`) is `x < 0` -/
theorem int32_sign_test (n : Int32) :
    ((n &&& Int32.ofInt (toI c_SIGNMASK32)) == Int32.ofInt (toI c_SIGNMASK32)) = decide (n.toInt < 0) := by
  have e : Int32.ofInt (toI c_SIGNMASK32) = Int32.ofBitVec 0x80000000#32 := by decide
  rw [e, Bool.eq_iff_iff, beq_iff_eq, decide_eq_true_iff, ← Int32.toBitVec_inj, Int32.toBitVec_and]
  exact bv32_sign n.toBitVec

/-- the sign test of `bid128_from_int64` is `x < 0` -/
theorem int64_sign_test (n : Int64) :
    ((n &&& Int64.ofInt (toI c_SIGNMASK64)) == Int64.ofInt (toI c_SIGNMASK64)) = decide (n.toInt < 0) := by
  have e : Int64.ofInt (toI c_SIGNMASK64) = Int64.ofBitVec 0x8000000000000000#64 := by decide
  rw [e, Bool.eq_iff_iff, beq_iff_eq, decide_eq_true_iff, ← Int64.toBitVec_inj, Int64.toBitVec_and]
  exact bv64_sign n.toBitVec

/-- `as u64` ignores a balanced reduction modulo 2^64 -/
theorem ofInt_bmod (k : Int) : UInt64.ofInt (k.bmod (2^64)) = UInt64.ofInt k := by
  unfold UInt64.ofInt
  have : (k.bmod (2^64)) % 2^64 = k % 2^64 := Int.bmod_emod
  rw [this]

/-- `(!x + 1) as u64` for a non-positive `i64` is `|x|` (also for `i64::MIN`, where `!x + 1` wraps to `x`) -/
theorem int64_neg_cast (n : Int64) (h : n.toInt ≤ 0) :
    UInt64.ofInt (~~~n + 1).toInt = UInt64.ofNat n.toInt.natAbs := by
  rw [← Int64.neg_eq_not_add, Int64.toInt_neg, ofInt_bmod, ofInt_nonneg _ (by omega), Int.natAbs_neg]

theorem int32_natAbs_lt (n : Int32) : n.toInt.natAbs < 2^64 := by
  have h1 := n.toInt_lt; have h2 := n.le_toInt; omega

theorem int64_natAbs_lt (n : Int64) : n.toInt.natAbs < 2^64 := by
  have h1 := n.toInt_lt; have h2 := n.le_toInt; omega

/-- **`bid128_from_uint64`**: for every `u64` `n` the routine returns (never panics) exactly the canonical encoding of
the datum `+n·10^0`. -/
theorem from_uint64_spec (n : UInt64) :
    bid128_from_uint64 n = .ok (ofBits (encode (fromIntD n.toNat))) := by
  unfold fromIntD
  rw [ofBits_encode_int _ _ (by have := n.toNat_lt; omega)]
  have h : decide ((n.toNat : Int) < 0) = false := by simp
  simp only [h, Int.natAbs_natCast, UInt64.ofNat_toNat]
  rfl

/-- **`bid128_from_uint32`**: for every `u32` `n`, exactly the canonical encoding of `+n·10^0`. -/
theorem from_uint32_spec (n : UInt32) :
    bid128_from_uint32 n = .ok (ofBits (encode (fromIntD n.toNat))) := by
  unfold fromIntD
  rw [ofBits_encode_int _ _ (by have := n.toNat_lt; omega)]
  have h : decide ((n.toNat : Int) < 0) = false := by simp
  simp only [h, Int.natAbs_natCast]
  unfold bid128_from_uint32
  simp only [pure, Except.pure, toI, ofInt_nonneg _ (Int.natCast_nonneg _), Int.natAbs_natCast]
  rfl

/-- **`bid128_from_int32`**: for every `i32` `n` (including `i32::MIN`), exactly the canonical encoding of the datum
(sign of `n`, coefficient `|n|`, exponent 0). -/
theorem from_int32_spec (n : Int32) :
    bid128_from_int32 n = .ok (ofBits (encode (fromIntD n.toInt))) := by
  unfold fromIntD
  rw [ofBits_encode_int _ _ (int32_natAbs_lt n)]
  unfold bid128_from_int32
  simp only [pure, Except.pure, int32_sign_test]
  by_cases h : n.toInt < 0
  · simp only [h, decide_true, if_true, toI, not_ofInt_add_one _ (Int.le_of_lt h)]
  · simp only [h, decide_false, if_false, toI, ofInt_nonneg _ (Int.not_lt.mp h), Bool.false_eq_true]

/-- **`bid128_from_int64`**: for every `i64` `n` (including `i64::MIN`), exactly the canonical encoding of the datum
(sign of `n`, coefficient `|n|`, exponent 0). -/
theorem from_int64_spec (n : Int64) :
    bid128_from_int64 n = .ok (ofBits (encode (fromIntD n.toInt))) := by
  unfold fromIntD
  rw [ofBits_encode_int _ _ (int64_natAbs_lt n)]
  unfold bid128_from_int64
  simp only [pure, Except.pure, int64_sign_test]
  by_cases h : n.toInt < 0
  · simp only [h, decide_true, if_true, toI, int64_neg_cast _ (Int.le_of_lt h)]
  · simp only [h, decide_false, if_false, toI, ofInt_nonneg _ (Int.not_lt.mp h), Bool.false_eq_true]

/-- what "returns the canonical encoding of the integer `k`" means for the result pattern -/
theorem int_result (k : Int) (h : k.natAbs < 2^64) :
    decode (bitsOf (ofBits (encode (fromIntD k)))) = .fin (decide (k < 0)) k.natAbs 0 ∧
      isCanonical (bitsOf (ofBits (encode (fromIntD k)))) = true ∧
      bitsOf (ofBits (encode (fromIntD k))) = encode (fromIntD k) := by
  have wf := fromIntD_WF k h
  rw [bitsOf_ofBits (encode_lt wf)]
  exact ⟨decode_encode wf, isCanonical_encode wf, rfl⟩

/-- `bid128_from_int32 n` decodes to (sign of `n`, `|n|`, exponent 0) and is canonical, for every `n` -/
theorem from_int32_decode (n : Int32) : ∃ r, bid128_from_int32 n = .ok r ∧
    decode (bitsOf r) = .fin (decide (n.toInt < 0)) n.toInt.natAbs 0 ∧ isCanonical (bitsOf r) = true :=
  ⟨_, from_int32_spec n, (int_result _ (int32_natAbs_lt n)).1, (int_result _ (int32_natAbs_lt n)).2.1⟩

/-- `bid128_from_int64 n` decodes to (sign of `n`, `|n|`, exponent 0) and is canonical, for every `n` -/
theorem from_int64_decode (n : Int64) : ∃ r, bid128_from_int64 n = .ok r ∧
    decode (bitsOf r) = .fin (decide (n.toInt < 0)) n.toInt.natAbs 0 ∧ isCanonical (bitsOf r) = true :=
  ⟨_, from_int64_spec n, (int_result _ (int64_natAbs_lt n)).1, (int_result _ (int64_natAbs_lt n)).2.1⟩

/-- `bid128_from_uint32 n` decodes to `+n·10^0` and is canonical, for every `n` -/
theorem from_uint32_decode (n : UInt32) : ∃ r, bid128_from_uint32 n = .ok r ∧
    decode (bitsOf r) = .fin false n.toNat 0 ∧ isCanonical (bitsOf r) = true := by
  have h : (n.toNat : Int).natAbs < 2^64 := by have := n.toNat_lt; omega
  have := int_result _ h
  simp only [Int.natAbs_natCast, show decide ((n.toNat : Int) < 0) = false by simp] at this
  exact ⟨_, from_uint32_spec n, this.1, this.2.1⟩

/-- `bid128_from_uint64 n` decodes to `+n·10^0` and is canonical, for every `n` (including `u64::MAX`) -/
theorem from_uint64_decode (n : UInt64) : ∃ r, bid128_from_uint64 n = .ok r ∧
    decode (bitsOf r) = .fin false n.toNat 0 ∧ isCanonical (bitsOf r) = true := by
  have h : (n.toNat : Int).natAbs < 2^64 := by have := n.toNat_lt; omega
  have := int_result _ h
  simp only [Int.natAbs_natCast, show decide ((n.toNat : Int) < 0) = false by simp] at this
  exact ⟨_, from_uint64_spec n, this.1, this.2.1⟩

-- i32::MIN, i64::MIN, u64::MAX and friends, evaluated
example : bid128_from_int32 (-2147483648) = .ok ⟨0x80000000, 0xb040000000000000⟩ := by decide +kernel
example : bid128_from_int32 (-7) = .ok (ofBits (encode (.fin true 7 0))) := from_int32_spec (-7)
example : bid128_from_int64 (-9223372036854775808) = .ok ⟨0x8000000000000000, 0xb040000000000000⟩ := by decide +kernel
example : bid128_from_int64 9223372036854775807 = .ok (ofBits (encode (.fin false 9223372036854775807 0))) :=
  from_int64_spec 9223372036854775807
example : bid128_from_uint32 4294967295 = .ok (ofBits (encode (.fin false 4294967295 0))) :=
  from_uint32_spec 4294967295
example : bid128_from_uint64 18446744073709551615 = .ok ⟨0xffffffffffffffff, 0x3040000000000000⟩ := by decide +kernel
example : decode (bitsOf ⟨0x8000000000000000, 0xb040000000000000⟩) = .fin true (2^63) 0 := by decide +kernel

/-! ## 2. Exponent queries: `quantexp`, `llquantexp`, `quantum`

### 2a. The bit-field tests of the code, in terms of the pattern -/

/-- `(w & m) == v` for a contiguous mask `m = (2^k−1)·2^s` and `v = c·2^s`: the `k`-bit field at bit `s` is `c` -/
theorem test_field (w m v : UInt64) (k s c : Nat) (hm : m.toNat = (2^k - 1) * 2^s) (hv : v.toNat = c * 2^s) :
    ((w &&& m) == v) = decide (w.toNat / 2^s % 2^k = c) := by
  rw [Bool.eq_iff_iff, beq_iff_eq, decide_eq_true_iff, ← UInt64.toNat_inj, UInt64.toNat_and, hm, hv, and_field]
  exact Nat.mul_left_inj (Nat.pos_iff_ne_zero.mp (Nat.two_pow_pos s))

/-- `(x.w[1] & MASK_SPECIAL) == MASK_SPECIAL`: bits 126..123 are all ones (infinity or NaN) -/
theorem test_special (x : U128) :
    ((x.w1 &&& c_MASK_SPECIAL) == c_MASK_SPECIAL) = decide (bitsOf x / 2^123 % 16 = 15) := by
  rw [test_field x.w1 _ _ 4 59 15 (by rfl) (by rfl)]
  have := x.w0.toNat_lt
  unfold bitsOf
  congr 1
  apply propext
  omega

/-- `(x.w[1] & MASK_STEERING_BITS) == MASK_STEERING_BITS`: bits 126, 125 are ones (large-coefficient form, if not special) -/
theorem test_steering (x : U128) :
    ((x.w1 &&& c_MASK_STEERING_BITS) == c_MASK_STEERING_BITS) = decide (bitsOf x / 2^123 % 16 / 4 = 3) := by
  rw [test_field x.w1 _ _ 2 61 3 (by rfl) (by rfl)]
  have := x.w0.toNat_lt
  unfold bitsOf
  congr 1
  apply propext
  omega

/-- `(x.w[1] & MASK_ANY_INF) == MASK_INF`: bits 126..122 are `11110` (infinity) -/
theorem test_anyinf (x : U128) :
    ((x.w1 &&& c_MASK_ANY_INF) == c_MASK_INF) = decide (bitsOf x / 2^123 % 16 = 15 ∧ bitsOf x / 2^122 % 2 = 0) := by
  rw [test_field x.w1 _ _ 5 58 30 (by rfl) (by rfl)]
  have := x.w0.toNat_lt
  unfold bitsOf
  congr 1
  apply propext
  omega

/-- `(x.w[1] & NAN_MASK64) == NAN_MASK64`: bits 126..122 are `11111` (NaN) -/
theorem test_nan (x : U128) :
    ((x.w1 &&& c_NAN_MASK64) == c_NAN_MASK64) = decide (bitsOf x / 2^123 % 16 = 15 ∧ bitsOf x / 2^122 % 2 = 1) := by
  rw [test_field x.w1 _ _ 5 58 31 (by rfl) (by rfl)]
  have := x.w0.toNat_lt
  unfold bitsOf
  congr 1
  apply propext
  omega

theorem exp_large (x : U128) : x.w1.toNat / 2^47 % 2^14 = bitsOf x / 2^111 % 2^14 := by
  have := x.w0.toNat_lt
  unfold bitsOf; omega

theorem exp_small (x : U128) : x.w1.toNat / 2^49 % 2^14 = bitsOf x / 2^113 % 2^14 := by
  have := x.w0.toNat_lt
  unfold bitsOf; omega

/-- `(w >> s) & 0x3fff` is the 14-bit field at bit `s` -/
theorem field14 (w s : UInt64) (hs : s.toNat < 64) :
    ((w >>> s) &&& (0x3fff : UInt64)).toNat = w.toNat / 2^s.toNat % 2^14 := by
  rw [UInt64.toNat_and, UInt64.toNat_shiftRight, Nat.shiftRight_eq_div_pow, Nat.mod_eq_of_lt hs]
  have e : (0x3fff : UInt64).toNat = 2^14 - 1 := rfl
  rw [e, Nat.and_two_pow_sub_one_eq_mod]

/-- `llquantexp`'s exponent expression `(((w >> s) & 0x3fff) as i64) - 6176` -/
theorem i64_field (w s : UInt64) (hs : s.toNat < 64) :
    Int64.ofInt (toI ((w >>> s) &&& (0x3fff : UInt64))) - (0x1820 : Int64)
      = Int64.ofInt (((w.toNat / 2^s.toNat % 2^14 : Nat) : Int) - 6176) := by
  rw [Int64.ofInt_sub]
  simp only [toI, field14 w s hs]
  rfl

/-- `quantum`'s exponent expression `(((w >> s) & 0x3fff) as i32) - 6176` -/
theorem i32_field' (w s : UInt64) (hs : s.toNat < 64) :
    Int32.ofInt (toI ((w >>> s) &&& (0x3fff : UInt64))) - (0x1820 : Int32)
      = Int32.ofInt (((w.toNat / 2^s.toNat % 2^14 : Nat) : Int) - 6176) := by
  rw [Int32.ofInt_sub]
  simp only [toI, field14 w s hs]
  rfl

/-- `quantexp`'s exponent expression `(((w >> s) as i32) & 0x3fff) - 6176` (truncating cast first, mask after) -/
theorem i32_field (w : UInt64) (s : UInt64) (hs : s.toNat < 64) :
    ((Int32.ofInt (toI (w >>> s))) &&& (0x3fff : Int32)) - (0x1820 : Int32)
      = Int32.ofInt (((w.toNat / 2^s.toNat % 2^14 : Nat) : Int) - 6176) := by
  rw [Int32.ofInt_sub]
  congr 1
  rw [← Int32.toBitVec_inj, Int32.toBitVec_and, Int32.toBitVec_ofInt, Int32.toBitVec_ofInt]
  simp only [toI]
  rw [BitVec.ofInt_natCast, BitVec.ofInt_natCast, ← BitVec.toNat_inj, BitVec.toNat_and, BitVec.toNat_ofNat,
    BitVec.toNat_ofNat, UInt64.toNat_shiftRight, Nat.shiftRight_eq_div_pow, Nat.mod_eq_of_lt hs]
  have e : (Int32.toBitVec 16383).toNat = 2^14 - 1 := rfl
  rw [e, Nat.and_two_pow_sub_one_eq_mod]
  omega

/-- the exponent of any decoded finite datum lies in `[eMin, eMax] = [-6176, 6111]` (non-canonical patterns included) -/
theorem decode_exp_range {b : Nat} {s : Bool} {c : Nat} {e : Int} (h : decode b = .fin s c e) :
    -6176 ≤ e ∧ e ≤ 6111 := by
  have wf := decode_WF b
  rw [h] at wf
  exact wf.2

/-! ### 2b. `bid128_quantexp` -/

/-- **`bid128_quantexp`**: for every pattern `x` and every incoming status word `f` the routine returns (never panics):
the exponent of the decoded datum (zeros and non-canonical encodings included) with the status word unchanged when `x` is
finite; `i32::MIN` with `invalid` (bit 0x01) OR-ed into the status word when `x` is an infinity or a NaN. -/
theorem quantexp_spec (x : U128) (f : UInt32) :
    bid128_quantexp x f = .ok (match decode (bitsOf x) with
      | .fin _ _ e => (Int32.ofInt e, f)
      | _ => (Int32.minValue, f ||| 1)) := by
  unfold bid128_quantexp
  simp only [pure, Except.pure, test_special, test_steering, i32_field _ 0x2f (by decide), i32_field _ 0x31 (by decide)]
  rcases decode_cases (bitsOf x) with ⟨h1, h2⟩ | ⟨h1, h2⟩ | ⟨h1, h2⟩ | ⟨h1, h2⟩
  · rw [decode_inf _ h1 h2]; simp only [h1, decide_true, if_true]; rfl
  · rw [decode_nan _ h1 h2]; simp only [h1, decide_true, if_true]; rfl
  · rw [decode_large _ h1 h2]; simp only [h1, h2, decide_true, decide_false, if_true, if_false, Bool.false_eq_true]
    rw [show (47 : UInt64).toNat = 47 from rfl, exp_large]
  · rw [decode_small _ h1 h2]; simp only [h1, h2, decide_false, if_false, Bool.false_eq_true]
    rw [show (49 : UInt64).toNat = 49 from rfl, exp_small]

/-- finite `x`: the returned `i32` has exactly the value `e` (no wrap), and the status word is the incoming one -/
theorem quantexp_finite (x : U128) (f : UInt32) {s : Bool} {c : Nat} {e : Int} (h : decode (bitsOf x) = .fin s c e) :
    ∃ r : Int32, bid128_quantexp x f = .ok (r, f) ∧ r.toInt = e := by
  have hr := decode_exp_range h
  refine ⟨Int32.ofInt e, ?_, Int32.toInt_ofInt_of_le (by omega) (by omega)⟩
  rw [quantexp_spec, h]

/-- infinite or NaN `x`: `i32::MIN = -2^31`, and the status word gains `invalid` -/
theorem quantexp_special (x : U128) (f : UInt32) (h : (decode (bitsOf x)).isFin = false) :
    ∃ r : Int32, bid128_quantexp x f = .ok (r, f ||| 1) ∧ r.toInt = -2147483648 ∧
      (f ||| 1).toNat = f.toNat ||| fInvalid := by
  refine ⟨Int32.minValue, ?_, rfl, by rw [UInt32.toNat_or]; rfl⟩
  rw [quantexp_spec]
  cases hd : decode (bitsOf x) with
  | fin s c e => rw [hd] at h; exact Bool.noConfusion h
  | inf s => rfl
  | nan s g p => rfl

-- 1E+6111 written with the large-coefficient form (a non-canonical zero): exponent field bits 124..111
example : bid128_quantexp ⟨5, 0x6000800000000000⟩ 0x20 = .ok (-6175, 0x20) := by decide +kernel
example : decode (bitsOf ⟨5, 0x6000800000000000⟩) = .fin false 0 (-6175) := by decide +kernel
-- -Inf, sNaN: indefinite value and invalid
example : bid128_quantexp ⟨0, 0xf800000000000000⟩ 0x20 = .ok (-2147483648, 0x21) := by decide +kernel
example : bid128_quantexp ⟨7, 0x7e00000000000000⟩ 0 = .ok (Int32.minValue, 1) := by decide +kernel
example : ∃ r : Int32, bid128_quantexp ⟨123, 0x3042000000000000⟩ 4 = .ok (r, 4) ∧ r.toInt = 1 :=
  quantexp_finite _ _ (s := false) (c := 123) (by decide +kernel)

/-! ### 2c. `bid128_llquantexp` -/

/-- **`bid128_llquantexp`**: as `quantexp`, with an `i64` result and `i64::MIN` as the indefinite value. -/
theorem llquantexp_spec (x : U128) (f : UInt32) :
    bid128_llquantexp x f = .ok (match decode (bitsOf x) with
      | .fin _ _ e => (Int64.ofInt e, f)
      | _ => (Int64.minValue, f ||| 1)) := by
  unfold bid128_llquantexp
  simp only [pure, Except.pure, test_special, test_steering, i64_field _ 0x2f (by decide), i64_field _ 0x31 (by decide)]
  rcases decode_cases (bitsOf x) with ⟨h1, h2⟩ | ⟨h1, h2⟩ | ⟨h1, h2⟩ | ⟨h1, h2⟩
  · rw [decode_inf _ h1 h2]; simp only [h1, decide_true, if_true]; rfl
  · rw [decode_nan _ h1 h2]; simp only [h1, decide_true, if_true]; rfl
  · rw [decode_large _ h1 h2]; simp only [h1, h2, decide_true, decide_false, if_true, if_false, Bool.false_eq_true]
    rw [show (47 : UInt64).toNat = 47 from rfl, exp_large]
  · rw [decode_small _ h1 h2]; simp only [h1, h2, decide_false, if_false, Bool.false_eq_true]
    rw [show (49 : UInt64).toNat = 49 from rfl, exp_small]

/-- finite `x`: the returned `i64` has exactly the value `e`, and the status word is the incoming one -/
theorem llquantexp_finite (x : U128) (f : UInt32) {s : Bool} {c : Nat} {e : Int} (h : decode (bitsOf x) = .fin s c e) :
    ∃ r : Int64, bid128_llquantexp x f = .ok (r, f) ∧ r.toInt = e := by
  have hr := decode_exp_range h
  refine ⟨Int64.ofInt e, ?_, Int64.toInt_ofInt_of_le (by omega) (by omega)⟩
  rw [llquantexp_spec, h]

/-- infinite or NaN `x`: `i64::MIN = -2^63` (not `i32::MIN` widened), and the status word gains `invalid` -/
theorem llquantexp_special (x : U128) (f : UInt32) (h : (decode (bitsOf x)).isFin = false) :
    ∃ r : Int64, bid128_llquantexp x f = .ok (r, f ||| 1) ∧ r.toInt = -9223372036854775808 ∧
      (f ||| 1).toNat = f.toNat ||| fInvalid := by
  refine ⟨Int64.minValue, ?_, rfl, by rw [UInt32.toNat_or]; rfl⟩
  rw [llquantexp_spec]
  cases hd : decode (bitsOf x) with
  | fin s c e => rw [hd] at h; exact Bool.noConfusion h
  | inf s => rfl
  | nan s g p => rfl

example : bid128_llquantexp ⟨0, 0x0000000000000000⟩ 0x3f = .ok (-6176, 0x3f) := by decide +kernel
example : bid128_llquantexp ⟨1, 0x7c00000000000000⟩ 0x02 = .ok (-9223372036854775808, 0x03) := by decide +kernel
example : ∃ r : Int64, bid128_llquantexp ⟨0, 0x7800000000000000⟩ 0 = .ok (r, 0 ||| 1) ∧ r.toInt = -9223372036854775808 ∧
    ((0 : UInt32) ||| 1).toNat = (0 : UInt32).toNat ||| fInvalid :=
  llquantexp_special _ _ (by decide +kernel)

/-! ### 2d. `bid128_quantum` -/

/-- `y as u64` of an `i64` is its bit pattern -/
theorem ofInt_toInt64 (y : Int64) : UInt64.ofInt y.toInt = y.toUInt64 := by
  unfold UInt64.ofInt
  rw [← UInt64.toNat_inj, UInt64.toNat_ofNat', ← Int64.toInt_toBitVec, BitVec.toInt_eq_toNat_cond,
    ← Int64.toNat_toBitVec]
  have := y.toBitVec.isLt
  omega

/-- the biased-exponent arithmetic of `bid128_quantum`: `(((F − 6176) as i64) << 49) + 0x3040000000000000`, as `u64`,
is `F << 49` (the wrap-around of the negative intermediate cancels) -/
theorem quantum_w1 (F : Nat) (hF : F < 2^14) :
    UInt64.ofInt (toI ((Int64.ofInt (toI (Int32.ofInt ((F : Int) - 6176)))) <<< (0x31 : Int64)
        + (0x3040000000000000 : Int64)))
      = UInt64.ofNat (F * 2^49) := by
  simp only [toI]
  rw [ofInt_toInt64, Int32.toInt_ofInt_of_le (by omega) (by omega)]
  rw [← UInt64.toNat_inj, ← Int64.toNat_toBitVec, Int64.toBitVec_add, Int64.toBitVec_shiftLeft]
  have e1 : (Int64.toBitVec 49).smod 64 = 49#64 := by decide
  have e2 : (Int64.toBitVec 3476778912330022912) = 3476778912330022912#64 := by decide
  rw [e1, e2, BitVec.toNat_add, BitVec.shiftLeft_eq', BitVec.toNat_shiftLeft, Int64.toBitVec_ofInt,
    BitVec.toNat_ofInt, UInt64.toNat_ofNat', Nat.shiftLeft_eq]
  simp only [BitVec.toNat_ofNat, Nat.reduceMod, Nat.reducePow]
  omega

/-- the canonical encoding of `+1·10^(F−6176)` as two words -/
theorem ofBits_encode_quantum (F : Nat) (hF : F < 2^14) :
    ofBits (encode (.fin false 1 ((F : Int) - 6176))) = ⟨1, UInt64.ofNat (F * 2^49)⟩ := by
  simp only [ofBits, encode, signBit, U128.mk.injEq, ← UInt64.toNat_inj, UInt64.toNat_ofNat', Bool.false_eq_true,
    if_false]
  have : ((F : Int) - 6176 + 6176).toNat = F := by omega
  rw [this]
  refine ⟨?_, by omega⟩
  simp only [UInt64.toNat_ofNat]
  omega

/-- **`bid128_quantum`**: for every pattern `x` the routine returns (never panics):
* `x` finite (zeros, non-canonical encodings included): exactly the canonical encoding of `+1·10^e`, `e` the exponent of `x`;
* `x` infinite: exactly the canonical `+Inf`;
* `x` NaN: high word = high word of `x` with the signalling bit (bit 121) cleared, LOW WORD ZERO — the low 64 bits of
  the payload are dropped (the routine starts from `Default::default()` and only assigns `w[1]`), see `quantum_nan`. -/
theorem quantum_spec (x : U128) :
    bid128_quantum x = .ok (match decode (bitsOf x) with
      | .nan .. => ⟨0, x.w1 &&& 0xfdffffffffffffff⟩
      | d => ofBits (encode (quantumD d))) := by
  unfold bid128_quantum
  simp only [pure, Except.pure, test_anyinf, test_nan, test_steering, i32_field' _ 0x2f (by decide),
    i32_field' _ 0x31 (by decide)]
  rcases decode_cases (bitsOf x) with ⟨h1, h2⟩ | ⟨h1, h2⟩ | ⟨h1, h2⟩ | ⟨h1, h2⟩
  · rw [decode_inf _ h1 h2]; simp only [h1, h2, and_self, decide_true, if_true, quantumD]
    have e : ofBits (encode (.inf false)) = ⟨0, 0x7800000000000000⟩ := by decide +kernel
    rw [e]
  · rw [decode_nan _ h1 h2]
    simp only [h1, h2, decide_true, if_true, (by decide : ¬ ((1 : Nat) = 0)), and_false, decide_false,
      Bool.false_eq_true, if_false, and_self]
    rfl
  · have hF : bitsOf x / 2 ^ 111 % 2 ^ 14 < 2^14 := Nat.mod_lt _ (by decide)
    rw [decode_large _ h1 h2]
    simp only [h1, h2, decide_true, decide_false, if_true, if_false, Bool.false_eq_true, false_and, quantumD]
    rw [show (47 : UInt64).toNat = 47 from rfl, exp_large, quantum_w1 _ hF, ofBits_encode_quantum _ hF]
  · have hF : bitsOf x / 2 ^ 113 % 2 ^ 14 < 2^14 := Nat.mod_lt _ (by decide)
    rw [decode_small _ h1 h2]
    simp only [h1, h2, decide_false, if_false, Bool.false_eq_true, false_and, quantumD]
    rw [show (49 : UInt64).toNat = 49 from rfl, exp_small, quantum_w1 _ hF, ofBits_encode_quantum _ hF]

theorem quantumD_WF {d : Datum} (h : d.WF) : (quantumD d).WF := by
  cases d with
  | fin s c e => exact ⟨by decide, h.2⟩
  | inf s => trivial
  | nan s g p => exact h

/-- `x` not a NaN: the result decodes to the model's `quantumD` of the decoded operand (`+1·10^e`, resp. `+Inf`) and is
canonical. -/
theorem quantum_nonnan (x : U128) (h : (decode (bitsOf x)).isNaN = false) :
    ∃ r, bid128_quantum x = .ok r ∧ bitsOf r = encode (quantumD (decode (bitsOf x))) ∧
      decode (bitsOf r) = quantumD (decode (bitsOf x)) ∧ isCanonical (bitsOf r) = true := by
  have wf := quantumD_WF (decode_WF (bitsOf x))
  refine ⟨ofBits (encode (quantumD (decode (bitsOf x)))), ?_, ?_⟩
  · rw [quantum_spec]
    cases hd : decode (bitsOf x) with
    | fin s c e => rfl
    | inf s => rfl
    | nan s g p => rw [hd] at h; exact Bool.noConfusion h
  · rw [bitsOf_ofBits (encode_lt wf)]
    exact ⟨rfl, decode_encode wf, isCanonical_encode wf⟩

/-- clearing bit 57 of a word (`& QUIET_MASK64`) -/
theorem and_quiet (w : Nat) : w &&& 0xfdffffffffffffff = (w / 2^58 % 2^6) * 2^58 + w % 2^57 := by
  have e : (0xfdffffffffffffff : Nat) = (2^6 - 1) * 2^58 ||| (2^57 - 1) := by decide
  rw [e, Nat.and_or_distrib_left, and_field, Nat.and_two_pow_sub_one_eq_mod, Nat.mul_comm,
    ← Nat.two_pow_add_eq_or_of_lt (by omega)]

/-- a quieted NaN high word `A·2^58 + L` (`A` = bits 63..58 with the five NaN bits set, `L` = bits 56..0) over a zero
low word, field by field -/
theorem quiet_bits (A L : Nat) (hA : A < 64) (hA' : A % 32 = 31) (hL : L < 2^57) :
    (A * 2^58 + L) * 2^64 / 2^123 % 16 = 15 ∧ (A * 2^58 + L) * 2^64 / 2^122 % 2 = 1 ∧
    (A * 2^58 + L) * 2^64 / 2^127 % 2 = A / 32 ∧ (A * 2^58 + L) * 2^64 / 2^121 % 2 = 0 ∧
    (A * 2^58 + L) * 2^64 % 2^110 = L % 2^46 * 2^64 := by
  refine ⟨by omega, by omega, by omega, by omega, by omega⟩

/-- the arithmetic of `quantum_nan` on the two words `W` (high), `V` (low) -/
theorem decode_quieted (W V : Nat) (hV : V < 2^64)
    (h1 : (W * 2^64 + V) / 2^123 % 16 = 15) (h2 : (W * 2^64 + V) / 2^122 % 2 = 1) :
    decode ((W / 2^58 % 2^6 * 2^58 + W % 2^57) * 2^64)
      = .nan ((W * 2^64 + V) / 2^127 % 2 == 1) false
          (if (W * 2^64 + V) % 2^110 / 2^64 * 2^64 < P33 then (W * 2^64 + V) % 2^110 / 2^64 * 2^64 else 0) := by
  have a1 : W / 2^58 % 32 = 31 := by omega
  have a2 : (W * 2^64 + V) / 2^127 % 2 = W / 2^63 % 2 := by omega
  have a3 : (W * 2^64 + V) % 2^110 / 2^64 = W % 2^46 := by omega
  have c1 : W / 2^58 % 2^6 % 32 = 31 := by omega
  have c2 : W / 2^58 % 2^6 < 64 := by omega
  have c3 : W / 2^58 % 2^6 / 32 = W / 2^63 % 2 := by omega
  have c4 : W % 2^57 < 2^57 := by omega
  have c5 : W % 2^57 % 2^46 = W % 2^46 := by omega
  obtain ⟨b1, b2, b3, b4, b5⟩ := quiet_bits _ _ c2 c1 c4
  rw [decode_nan _ b1 b2, b3, b4, b5, a2, a3, c3, c5]
  rfl

theorem neg_nan (a b : Bool) (c : Nat) : (Datum.nan a b c).neg = a := rfl

/-- `x` a NaN (quiet or signalling, canonical or not): the result is the QUIET NaN of the same sign whose payload is the
payload field of `x` with its low 64 bits zeroed (then read as `decode` reads any payload field: `≥ 10^33 ↦ 0`).
So the payload is preserved only when it is a multiple of 2^64; no flag can be raised (the routine has no status word).
The result is not canonicalised (reserved bits 120..110 of `x` are passed through). -/
theorem quantum_nan (x : U128) (h : (decode (bitsOf x)).isNaN = true) :
    ∃ r, bid128_quantum x = .ok r ∧ r.w0 = 0 ∧
      decode (bitsOf r) = .nan (decode (bitsOf x)).neg false
        (if bitsOf x % 2^110 / 2^64 * 2^64 < P33 then bitsOf x % 2^110 / 2^64 * 2^64 else 0) := by
  rcases decode_cases (bitsOf x) with ⟨h1, h2⟩ | ⟨h1, h2⟩ | ⟨h1, h2⟩ | ⟨h1, h2⟩
  · rw [decode_inf _ h1 h2] at h; exact Bool.noConfusion h
  · have hd := decode_nan _ h1 h2
    have e : (0xfdffffffffffffff : UInt64).toNat = 0xfdffffffffffffff := by decide
    have hb : bitsOf ⟨0, x.w1 &&& 0xfdffffffffffffff⟩
        = (x.w1.toNat / 2^58 % 2^6 * 2^58 + x.w1.toNat % 2^57) * 2^64 := by
      unfold bitsOf
      rw [UInt64.toNat_and, e, and_quiet, UInt64.toNat_zero, Nat.add_zero]
    refine ⟨⟨0, x.w1 &&& 0xfdffffffffffffff⟩, ?_, rfl, ?_⟩
    · rw [quantum_spec, hd]
    · rw [hb, hd, neg_nan]
      unfold bitsOf at h1 h2 ⊢
      exact decode_quieted _ _ x.w0.toNat_lt h1 h2
  · rw [decode_large _ h1 h2] at h; exact Bool.noConfusion h
  · rw [decode_small _ h1 h2] at h; exact Bool.noConfusion h

-- -0E-6176 (all-zero but sign) ↦ +1E-6176; 7.5 ↦ 0.1; non-canonical coefficient (≥ 10^34) ↦ quantum of its exponent
example : bid128_quantum ⟨0, 0x8000000000000000⟩ = .ok ⟨1, 0⟩ := by decide +kernel
example : bid128_quantum ⟨75, 0x303e000000000000⟩ = .ok (ofBits (encode (.fin false 1 (-1)))) := by decide +kernel
example : bid128_quantum ⟨0, 0x5fffffffffffffff⟩ = .ok ⟨1, 0x5ffe000000000000⟩ := by decide +kernel
-- -Inf with trailing garbage ↦ canonical +Inf
example : bid128_quantum ⟨99, 0xf9ffffffffffffff⟩ = .ok ⟨0, 0x7800000000000000⟩ := by decide +kernel
-- NaN payloads: the low word is dropped (qNaN(5) ↦ qNaN(0)), sNaN is quieted, sign kept; the result may be non-canonical
example : bid128_quantum ⟨5, 0x7c00000000000000⟩ = .ok ⟨0, 0x7c00000000000000⟩ := by decide +kernel
example : bid128_quantum ⟨5, 0xfe00000000000001⟩ = .ok ⟨0, 0xfc00000000000001⟩ := by decide +kernel
example : ∃ r, bid128_quantum ⟨5, 0xfe00000000000001⟩ = .ok r ∧ r.w0 = 0 ∧
    decode (bitsOf r) = .nan true false (2^64) := by
  have := quantum_nan ⟨5, 0xfe00000000000001⟩ (by decide +kernel)
  rwa [show bitsOf ⟨5, 0xfe00000000000001⟩ % 2^110 / 2^64 * 2^64 = 2^64 by decide +kernel,
    show decode (bitsOf ⟨5, 0xfe00000000000001⟩) = .nan true true (2^64 + 5) by decide +kernel,
    if_pos (by decide +kernel)] at this
example : isCanonical (bitsOf ⟨0, 0x7c003fffffffffff⟩) = false := by decide +kernel
example : bid128_quantum ⟨0, 0x7c003fffffffffff⟩ = .ok ⟨0, 0x7c003fffffffffff⟩ := by decide +kernel

/-! ## 3. Extra: `bid128_quiet_ordered`, `bid128_quiet_unordered` (bid128_compare.rs) -/

/-- `(x.w[1] & MASK_NAN) == MASK_NAN` is "x decodes to a NaN" -/
theorem nan_test_decode (x : U128) :
    ((x.w1 &&& c_MASK_NAN) == c_MASK_NAN) = (decode (bitsOf x)).isNaN := by
  have e := test_nan x
  rw [show c_NAN_MASK64 = c_MASK_NAN from rfl] at e
  rw [e]
  rcases decode_cases (bitsOf x) with ⟨h1, h2⟩ | ⟨h1, h2⟩ | ⟨h1, h2⟩ | ⟨h1, h2⟩
  · rw [decode_inf _ h1 h2]; simp [h1, h2, Datum.isNaN]
  · rw [decode_nan _ h1 h2]; simp [h1, h2, Datum.isNaN]
  · rw [decode_large _ h1 h2]; simp [h1, Datum.isNaN]
  · rw [decode_small _ h1 h2]; simp [h1, Datum.isNaN]

theorem isSNaN_nan (a b : Bool) (c : Nat) : (Datum.nan a b c).isSNaN = b := rfl
theorem isSNaN_inf (a : Bool) : (Datum.inf a).isSNaN = false := rfl
theorem isSNaN_fin (a : Bool) (c : Nat) (e : Int) : (Datum.fin a c e).isSNaN = false := rfl

/-- `(x.w[1] & MASK_SNAN) == MASK_SNAN` is "x decodes to a signalling NaN" -/
theorem snan_test_decode (x : U128) :
    ((x.w1 &&& c_MASK_SNAN) == c_MASK_SNAN) = (decode (bitsOf x)).isSNaN := by
  rw [test_field x.w1 _ _ 6 57 63 (by rfl) (by rfl)]
  have hw := x.w0.toNat_lt
  rcases decode_cases (bitsOf x) with ⟨h1, h2⟩ | ⟨h1, h2⟩ | ⟨h1, h2⟩ | ⟨h1, h2⟩
  · rw [decode_inf _ h1 h2, isSNaN_inf, decide_eq_false_iff_not]; unfold bitsOf at h1 h2; omega
  · rw [decode_nan _ h1 h2, isSNaN_nan, Bool.eq_iff_iff, decide_eq_true_iff, beq_iff_eq]
    unfold bitsOf at h1 h2 ⊢; omega
  · rw [decode_large _ h1 h2, isSNaN_fin, decide_eq_false_iff_not]; unfold bitsOf at h1 h2; omega
  · rw [decode_small _ h1 h2, isSNaN_fin, decide_eq_false_iff_not]; unfold bitsOf at h1 h2; omega

theorem isSNaN_isNaN (d : Datum) (h : d.isNaN = false) : d.isSNaN = false := by
  cases d <;> first | rfl | exact Bool.noConfusion h

/-- **`bid128_quiet_ordered`**: for all patterns and every incoming status word: the result is "neither operand is a NaN";
`invalid` is OR-ed into the status word exactly when an operand is a signalling NaN; nothing else changes. -/
theorem quiet_ordered_spec (x y : U128) (f : UInt32) :
    bid128_quiet_ordered x y f = .ok
      (!((decode (bitsOf x)).isNaN || (decode (bitsOf y)).isNaN),
       if (decode (bitsOf x)).isSNaN || (decode (bitsOf y)).isSNaN then f ||| 1 else f) := by
  unfold bid128_quiet_ordered
  simp only [pure, Except.pure, nan_test_decode, snan_test_decode]
  have hx := isSNaN_isNaN (decode (bitsOf x))
  have hy := isSNaN_isNaN (decode (bitsOf y))
  generalize (decode (bitsOf x)).isNaN = a at *
  generalize (decode (bitsOf y)).isNaN = b at *
  generalize (decode (bitsOf x)).isSNaN = c at *
  generalize (decode (bitsOf y)).isSNaN = d at *
  cases a <;> cases b <;> simp_all <;> (cases c <;> cases d <;> rfl)

/-- **`bid128_quiet_unordered`**: the negation of `quiet_ordered`, same flag behaviour. -/
theorem quiet_unordered_spec (x y : U128) (f : UInt32) :
    bid128_quiet_unordered x y f = .ok
      ((decode (bitsOf x)).isNaN || (decode (bitsOf y)).isNaN,
       if (decode (bitsOf x)).isSNaN || (decode (bitsOf y)).isSNaN then f ||| 1 else f) := by
  unfold bid128_quiet_unordered
  simp only [pure, Except.pure, nan_test_decode, snan_test_decode]
  have hx := isSNaN_isNaN (decode (bitsOf x))
  have hy := isSNaN_isNaN (decode (bitsOf y))
  generalize (decode (bitsOf x)).isNaN = a at *
  generalize (decode (bitsOf y)).isNaN = b at *
  generalize (decode (bitsOf x)).isSNaN = c at *
  generalize (decode (bitsOf y)).isSNaN = d at *
  cases a <;> cases b <;> simp_all <;> (cases c <;> cases d <;> rfl)

example : bid128_quiet_ordered ⟨1, 0x3040000000000000⟩ ⟨0, 0x7e00000000000000⟩ 0x20 = .ok (false, 0x21) := by
  decide +kernel
example : bid128_quiet_unordered ⟨1, 0x3040000000000000⟩ ⟨0, 0x7c00000000000000⟩ 0x20 = .ok (true, 0x20) := by
  decide +kernel
example : bid128_quiet_ordered ⟨1, 0x3040000000000000⟩ ⟨0, 0x7800000000000000⟩ 0 = .ok (true, 0) := by
  decide +kernel

/-! ## 4. Extra: `unpack_BID128_value` (bid_internal.rs), the operand decoder of the arithmetic routines -/

/-- `bid_power10_table_128[33]` = 10^33 (read from the regenerated table) -/
theorem T33 : tbl128 Dec.Gen.BID_POWER10_TABLE_128 (UInt64.ofInt (toI 0x21)) = .ok ⟨0x38c15b0a00000000, 0x314dc6448d93⟩ := by
  decide +kernel
/-- `bid_power10_table_128[34]` = 10^34 -/
theorem T34 : tbl128 Dec.Gen.BID_POWER10_TABLE_128 (UInt64.ofInt (toI 0x22)) = .ok ⟨0x378d8e6400000000, 0x1ed09bead87c0⟩ := by
  decide +kernel

/-- the two-word comparison `A ≥ B` of `__unsigned_compare_ge_128` -/
theorem ge128 (a1 a0 c1 c0 : UInt64) :
    (decide (a1 > c1) || (a1 == c1 && decide (a0 ≥ c0)))
      = decide (a1.toNat * 2^64 + a0.toNat ≥ c1.toNat * 2^64 + c0.toNat) := by
  have h1 := a0.toNat_lt; have h2 := c0.toNat_lt
  rw [Bool.eq_iff_iff]
  simp only [Bool.or_eq_true, Bool.and_eq_true, decide_eq_true_iff, beq_iff_eq, GT.gt, GE.ge, UInt64.lt_iff_toNat_lt,
    UInt64.le_iff_toNat_le, ← UInt64.toNat_inj]
  omega

/-- `w & (2^k − 1)` -/
theorem and_low (w m : UInt64) (k : Nat) (hm : m.toNat = 2^k - 1) : (w &&& m).toNat = w.toNat % 2^k := by
  rw [UInt64.toNat_and, hm, Nat.and_two_pow_sub_one_eq_mod]

/-- `(w & m)` for a contiguous mask, as a number -/
theorem and_field64 (w m : UInt64) (k s : Nat) (hm : m.toNat = (2^k - 1) * 2^s) :
    (w &&& m).toNat = w.toNat / 2^s % 2^k * 2^s := by
  rw [UInt64.toNat_and, hm, and_field]

theorem test_large (x : U128) :
    decide (x.w1 &&& c_INFINITY_MASK64 ≥ c_SPECIAL_ENCODING_MASK64) = decide (bitsOf x / 2^123 % 16 / 4 = 3) := by
  have := x.w0.toNat_lt
  rw [Bool.eq_iff_iff, decide_eq_true_iff, decide_eq_true_iff, GE.ge, UInt64.le_iff_toNat_le,
    and_field64 _ _ 4 59 (by rfl), show c_SPECIAL_ENCODING_MASK64.toNat = 12 * 2^59 from rfl]
  unfold bitsOf
  omega

theorem test_notspecial (x : U128) :
    decide (x.w1 &&& c_INFINITY_MASK64 < c_INFINITY_MASK64) = decide (bitsOf x / 2^123 % 16 ≠ 15) := by
  have := x.w0.toNat_lt
  rw [Bool.eq_iff_iff, decide_eq_true_iff, decide_eq_true_iff, UInt64.lt_iff_toNat_lt,
    and_field64 _ _ 4 59 (by rfl), show c_INFINITY_MASK64.toNat = 15 * 2^59 from rfl]
  unfold bitsOf
  omega

theorem test_payload (x : U128) :
    (decide (x.w1 &&& 70368744177663 > 54210108624275) ||
      x.w1 &&& 70368744177663 == 54210108624275 && decide (x.w0 ≥ 4089650035136921600))
      = decide (P33 ≤ bitsOf x % 2^110) := by
  have := x.w0.toNat_lt
  rw [ge128, and_low _ _ 46 (by rfl)]
  rw [show (54210108624275 : UInt64).toNat = 54210108624275 from rfl, show (4089650035136921600 : UInt64).toNat = 4089650035136921600 from rfl]
  unfold bitsOf P33
  congr 1
  apply propext
  omega

theorem test_coeff (x : U128) :
    (decide (x.w1 &&& c_SMALL_COEFF_MASK128 > 542101086242752) ||
      x.w1 &&& c_SMALL_COEFF_MASK128 == 542101086242752 && decide (x.w0 ≥ 4003012203950112768))
      = decide (P34 ≤ bitsOf x % 2^113) := by
  have := x.w0.toNat_lt
  rw [ge128, and_low _ _ 49 (by rfl)]
  rw [show (542101086242752 : UInt64).toNat = 542101086242752 from rfl, show (4003012203950112768 : UInt64).toNat = 4003012203950112768 from rfl]
  unfold bitsOf P34
  congr 1
  apply propext
  omega

theorem test_inf' (x : U128) :
    ((x.w1 &&& c_NAN_MASK64) == c_INFINITY_MASK64) = decide (bitsOf x / 2^123 % 16 = 15 ∧ bitsOf x / 2^122 % 2 = 0) :=
  test_anyinf x

theorem i32_exp (w : UInt64) (s : UInt64) (hs : s.toNat < 64) :
    (Int32.ofInt (toI (w >>> s))) &&& c_EXPONENT_MASK128 = Int32.ofInt ((w.toNat / 2^s.toNat % 2^14 : Nat) : Int) := by
  rw [← Int32.toBitVec_inj, Int32.toBitVec_and, Int32.toBitVec_ofInt, Int32.toBitVec_ofInt]
  simp only [toI]
  rw [BitVec.ofInt_natCast, BitVec.ofInt_natCast, ← BitVec.toNat_inj, BitVec.toNat_and, BitVec.toNat_ofNat,
    BitVec.toNat_ofNat, UInt64.toNat_shiftRight, Nat.shiftRight_eq_div_pow, Nat.mod_eq_of_lt hs]
  have e : (Int32.toBitVec c_EXPONENT_MASK128).toNat = 2^14 - 1 := rfl
  rw [e, Nat.and_two_pow_sub_one_eq_mod]
  omega


theorem eq_ofBits {r : U128} {n : Nat} (h : bitsOf r = n) : r = ofBits n := by
  rw [← h, ofBits_bitsOf]

/-- infinity: the "coefficient" returned is the canonical infinity of the same sign -/
theorem unpack_inf (x : U128) (h1 : bitsOf x / 2^123 % 16 = 15) (h2 : bitsOf x / 2^122 % 2 = 0) :
    (⟨0, x.w1 &&& c_SINFINITY_MASK64⟩ : U128) = ofBits (canon (bitsOf x)) := by
  apply eq_ofBits
  rw [canon_inf _ h1 h2]
  have hv := x.w0.toNat_lt
  unfold bitsOf at *
  rw [and_field64 _ _ 5 59 (by rfl), UInt64.toNat_zero]
  generalize x.w1.toNat = W at *
  generalize x.w0.toNat = V at *
  omega

/-- NaN with payload field ≥ 10^33: sign, NaN bits and signalling bit only -/
theorem unpack_nan_big (x : U128) (h1 : bitsOf x / 2^123 % 16 = 15) (h2 : bitsOf x / 2^122 % 2 = 1)
    (h3 : P33 ≤ bitsOf x % 2^110) :
    (⟨0, x.w1 &&& 18302628885633695744⟩ : U128) = ofBits (canon (bitsOf x)) := by
  apply eq_ofBits
  rw [canon_nan _ h1 h2, if_neg (by omega)]
  clear h3
  have hv := x.w0.toNat_lt
  unfold bitsOf at *
  rw [and_field64 _ _ 7 57 (by rfl), UInt64.toNat_zero]
  generalize x.w1.toNat = W at *
  generalize x.w0.toNat = V at *
  omega

theorem and_nanmask (w : Nat) : w &&& 0xfe003fffffffffff = (w / 2^57 % 2^7) * 2^57 + w % 2^46 := by
  have e : (0xfe003fffffffffff : Nat) = (2^7 - 1) * 2^57 ||| (2^46 - 1) := by decide
  rw [e, Nat.and_or_distrib_left, and_field, Nat.and_two_pow_sub_one_eq_mod, Nat.mul_comm,
    ← Nat.two_pow_add_eq_or_of_lt (by omega)]

/-- NaN with payload field < 10^33: reserved bits 120..110 cleared, all else kept -/
theorem unpack_nan_small (x : U128) (h1 : bitsOf x / 2^123 % 16 = 15) (h2 : bitsOf x / 2^122 % 2 = 1)
    (h3 : bitsOf x % 2^110 < P33) :
    (⟨x.w0, x.w1 &&& 18302699254377873407⟩ : U128) = ofBits (canon (bitsOf x)) := by
  apply eq_ofBits
  rw [canon_nan _ h1 h2, if_pos h3]
  clear h3
  have hv := x.w0.toNat_lt
  unfold bitsOf at *
  rw [UInt64.toNat_and, show (18302699254377873407 : UInt64).toNat = 0xfe003fffffffffff from rfl, and_nanmask]
  generalize x.w1.toNat = W at *
  generalize x.w0.toNat = V at *
  omega

/-- ordinary form, coefficient field < 10^34 -/
theorem unpack_small (x : U128) : (⟨x.w0, x.w1 &&& c_SMALL_COEFF_MASK128⟩ : U128) = ofBits (bitsOf x % 2^113) := by
  apply eq_ofBits
  have hv := x.w0.toNat_lt
  unfold bitsOf
  rw [and_low _ _ 49 (by rfl)]
  generalize x.w1.toNat = W at *
  generalize x.w0.toNat = V at *
  omega


theorem ofBits_zero : ofBits 0 = ⟨0, 0⟩ := by decide

/-- **`unpack_BID128_value`** (bid_internal.rs; the operand decoder of the arithmetic routines): for EVERY pattern `x`
(and whatever the three scratch arguments hold) the routine returns (never panics) the quadruple
(non-zero indicator, sign word, biased exponent, coefficient) where, with `d = decode x`:
* the sign word is `x.w[1] & 0x8000000000000000`;
* `d = ±c·10^e` finite (non-canonical encodings decode to `c = 0`): exponent `e + 6176`, coefficient exactly `c` as a
  128-bit pair, indicator = `lo | hi` of that pair (zero iff `c = 0`);
* `d` infinite or NaN: exponent 0, indicator 0, and the "coefficient" is the CANONICAL re-encoding of `x`
  (infinity: sign and `0x78…` only; NaN: sign, NaN bits, signalling bit, payload if `< 10^33` else 0). -/
theorem unpack_value_spec (s0 : UInt64) (e0 : Int32) (c0 x : U128) :
    unpack_BID128_value s0 e0 c0 x = .ok (match decode (bitsOf x) with
      | .fin _ c e => ((ofBits c).w0 ||| (ofBits c).w1, x.w1 &&& 0x8000000000000000, Int32.ofInt (e + 6176), ofBits c)
      | _ => (0, x.w1 &&& 0x8000000000000000, 0, ofBits (canon (bitsOf x)))) := by
  unfold unpack_BID128_value
  simp only [pure, Except.pure, bind, Except.bind, T33, T34, unsigned_compare_ge_128, test_large, test_notspecial,
    test_payload, test_coeff, test_inf', i32_exp _ 0x2f (by decide), i32_exp _ 0x31 (by decide)]
  rcases decode_cases (bitsOf x) with ⟨h1, h2⟩ | ⟨h1, h2⟩ | ⟨h1, h2⟩ | ⟨h1, h2⟩
  · rw [decode_inf _ h1 h2]
    simp only [h1, h2, decide_true, if_true, ne_eq, not_true_eq_false, decide_false, Bool.false_eq_true, if_false,
      and_self, ite_self, unpack_inf x h1 h2]
  · rw [decode_nan _ h1 h2]
    simp only [h1, h2, decide_true, if_true, ne_eq, not_true_eq_false, decide_false, Bool.false_eq_true, if_false,
      (by decide : ¬ ((1 : Nat) = 0)), and_false]
    by_cases h4 : P33 ≤ bitsOf x % 2^110
    · simp only [h4, decide_true, if_true, unpack_nan_big x h1 h2 h4]
    · simp only [h4, decide_false, Bool.false_eq_true, if_false, unpack_nan_small x h1 h2 (by omega)]
  · rw [decode_large _ h1 h2]
    simp only [h1, h2, decide_true, if_true, ne_eq, not_false_eq_true, ofBits_zero, Int.sub_add_cancel]
    rw [show (47 : UInt64).toNat = 47 from rfl, exp_large]
    rfl
  · rw [decode_small _ h1 h2]
    simp only [h1, h2, decide_false, Bool.false_eq_true, if_false, Int.sub_add_cancel]
    rw [show (49 : UInt64).toNat = 49 from rfl, exp_small]
    by_cases h4 : P34 ≤ bitsOf x % 2^113
    · simp only [h4, decide_true, if_true, if_neg (show ¬ (bitsOf x % 2^113 < P34) by omega), ofBits_zero]
    · simp only [h4, decide_false, Bool.false_eq_true, if_false, if_pos (show bitsOf x % 2^113 < P34 by omega)]
      rw [← unpack_small x]


theorem neg_inf (a : Bool) : (Datum.inf a).neg = a := rfl
theorem neg_fin (a : Bool) (c : Nat) (e : Int) : (Datum.fin a c e).neg = a := rfl

/-- the sign of the decoded datum is bit 127, whatever the pattern -/
theorem decode_neg (b : Nat) : (decode b).neg = (b / 2^127 % 2 == 1) := by
  rcases decode_cases b with ⟨h1, h2⟩ | ⟨h1, h2⟩ | ⟨h1, h2⟩ | ⟨h1, h2⟩
  · rw [decode_inf _ h1 h2, neg_inf]
  · rw [decode_nan _ h1 h2, neg_nan]
  · rw [decode_large _ h1 h2, neg_fin]
  · rw [decode_small _ h1 h2, neg_fin]

/-- the sign word `x.w[1] & 0x8000000000000000` is `2^63` for a negative datum (−0, −Inf, −NaN included), else 0 -/
theorem sign_word (x : U128) :
    (x.w1 &&& 0x8000000000000000).toNat = if (decode (bitsOf x)).neg then 2^63 else 0 := by
  have hv := x.w0.toNat_lt
  have hw := x.w1.toNat_lt
  rw [decode_neg, and_field64 _ _ 1 63 (by rfl)]
  unfold bitsOf
  generalize x.w1.toNat = W at *
  generalize x.w0.toNat = V at *
  by_cases h : (W * 2^64 + V) / 2^127 % 2 = 1
  · rw [if_pos (by rw [beq_iff_eq]; exact h)]; omega
  · rw [if_neg (by rw [beq_iff_eq]; exact h)]; omega

/-- the non-zero indicator `lo | hi` of a coefficient -/
theorem indicator_zero_iff {c : Nat} (h : c < 2^128) : ((ofBits c).w0 ||| (ofBits c).w1 = 0) ↔ c = 0 := by
  rw [UInt64.or_eq_zero_iff]
  simp only [ofBits, ← UInt64.toNat_inj, UInt64.toNat_ofNat', UInt64.toNat_zero]
  omega

/-- finite operand: the returned fields, as numbers -/
theorem unpack_value_finite (s0 : UInt64) (e0 : Int32) (c0 x : U128) {s : Bool} {c : Nat} {e : Int}
    (h : decode (bitsOf x) = .fin s c e) :
    ∃ nz sg ex co, unpack_BID128_value s0 e0 c0 x = .ok (nz, sg, ex, co) ∧
      (nz = 0 ↔ c = 0) ∧ sg.toNat = (if s then 2^63 else 0) ∧ ex.toInt = e + 6176 ∧ bitsOf co = c := by
  have hr := decode_exp_range h
  have wf := decode_WF (bitsOf x)
  rw [h] at wf
  have hc : c < 2^128 := by have := wf.1; unfold P34 at this; omega
  refine ⟨_, _, _, _, by rw [unpack_value_spec, h], indicator_zero_iff hc, ?_,
    Int32.toInt_ofInt_of_le (by omega) (by omega), bitsOf_ofBits hc⟩
  rw [sign_word, h, neg_fin]

/-- infinite or NaN operand: exponent 0, indicator 0, coefficient = canonical re-encoding (so it decodes like `x`) -/
theorem unpack_value_special (s0 : UInt64) (e0 : Int32) (c0 x : U128) (h : (decode (bitsOf x)).isFin = false) :
    ∃ sg co, unpack_BID128_value s0 e0 c0 x = .ok (0, sg, 0, co) ∧
      sg.toNat = (if (decode (bitsOf x)).neg then 2^63 else 0) ∧ bitsOf co = canon (bitsOf x) ∧
      decode (bitsOf co) = decode (bitsOf x) := by
  refine ⟨_, ofBits (canon (bitsOf x)), ?_, sign_word x, bitsOf_ofBits (canon_lt _), ?_⟩
  · rw [unpack_value_spec]
    cases hd : decode (bitsOf x) with
    | fin s c e => rw [hd] at h; exact Bool.noConfusion h
    | inf s => rfl
    | nan s g p => rfl
  · rw [bitsOf_ofBits (canon_lt _), decode_canon]

-- 7.5 (canonical), a non-canonical coefficient, the large form, -Inf with garbage, an sNaN with payload ≥ 10^33
example : unpack_BID128_value 9 9 ⟨9, 9⟩ ⟨75, 0xb03e000000000000⟩ = .ok (75, 0x8000000000000000, 6175, ⟨75, 0⟩) := by
  decide +kernel
example : unpack_BID128_value 0 0 default ⟨0, 0x3041ed09bead87c1⟩ = .ok (0, 0, 6176, ⟨0, 0⟩) := by decide +kernel
example : unpack_BID128_value 0 0 default ⟨7, 0x6000800000000003⟩ = .ok (0, 0, 1, ⟨0, 0⟩) := by decide +kernel
example : unpack_BID128_value 0 0 default ⟨7, 0xf900000000000003⟩
    = .ok (0, 0x8000000000000000, 0, ⟨0, 0xf800000000000000⟩) := by decide +kernel
example : unpack_BID128_value 0 0 default ⟨7, 0x7e1f3fffffffffff⟩ = .ok (0, 0, 0, ⟨0, 0x7e00000000000000⟩) := by
  decide +kernel
example : ∃ nz sg ex co, unpack_BID128_value 0 0 default ⟨75, 0xb03e000000000000⟩ = .ok (nz, sg, ex, co) ∧
      (nz = 0 ↔ 75 = 0) ∧ sg.toNat = (if true then 2^63 else 0) ∧ ex.toInt = -1 + 6176 ∧ bitsOf co = 75 :=
  unpack_value_finite 0 0 default ⟨75, 0xb03e000000000000⟩ (by decide +kernel)


/-! ## 5. Extra: the field packers `bid_get_BID128_very_fast` (bid_internal.rs), `return_bid128`, `return_bid128_zero`
(bid_binarydecimal.rs) -/

/-- `(e as u64) << 49` for a biased exponent `0 ≤ e < 2^14` -/
theorem exp_shift49 (e : Int32) (he0 : 0 ≤ e.toInt) (he1 : e.toInt < 2^14) :
    ((UInt64.ofInt (toI e)) <<< (0x31 : UInt64)).toNat = e.toInt.toNat * 2^49 := by
  simp only [toI]
  rw [UInt64.toNat_shiftLeft, ofInt_nonneg _ he0, UInt64.toNat_ofNat', show (0x31 : UInt64).toNat % 64 = 49 from rfl,
    Nat.shiftLeft_eq]
  omega

theorem or_disjoint (a b s : Nat) (hb : b < 2^s) : a * 2^s ||| b = a * 2^s + b := by
  rw [Nat.mul_comm, Nat.two_pow_add_eq_or_of_lt hb]

/-- **`bid_get_BID128_very_fast`** (bid_internal.rs): on the domain its call sites establish — sign word `0` or `2^63`,
biased exponent `0 ≤ e < 2^14`, coefficient `< 2^113` — the three fields are simply laid side by side. -/
theorem very_fast_spec (sgn : UInt64) (e : Int32) (c : U128) (hs : sgn = 0 ∨ sgn = 0x8000000000000000)
    (he0 : 0 ≤ e.toInt) (he1 : e.toInt < 2^14) (hc : bitsOf c < 2^113) :
    ∃ r, bid_get_BID128_very_fast sgn e c = .ok r ∧
      bitsOf r = sgn.toNat * 2^64 + e.toInt.toNat * 2^113 + bitsOf c := by
  refine ⟨⟨c.w0, (sgn ||| ((UInt64.ofInt (toI e)) <<< (0x31 : UInt64))) ||| c.w1⟩, rfl, ?_⟩
  have h0 := c.w0.toNat_lt
  have hc1 : c.w1.toNat < 2^49 := by unfold bitsOf at hc; omega
  have hE : e.toInt.toNat < 2^14 := by omega
  unfold bitsOf
  simp only []
  rw [UInt64.toNat_or, UInt64.toNat_or, exp_shift49 e he0 he1, Nat.or_assoc, or_disjoint _ _ 49 hc1]
  generalize e.toInt.toNat = E at *
  rcases hs with rfl | rfl
  · rw [UInt64.toNat_zero, Nat.zero_or]; omega
  · rw [show (0x8000000000000000 : UInt64).toNat = 1 * 2^63 from rfl, or_disjoint _ _ 63 (by omega)]; omega


/-- … and when moreover the coefficient is `< 10^34` and the biased exponent `≤ 12287` (= emax + bias), that is the
canonical encoding of `(sign, coefficient, e − 6176)`: the result decodes to it and is canonical. -/
theorem very_fast_encode (sgn : UInt64) (e : Int32) (c : U128) (hs : sgn = 0 ∨ sgn = 0x8000000000000000)
    (he0 : 0 ≤ e.toInt) (he1 : e.toInt ≤ 12287) (hc : bitsOf c < P34) :
    ∃ r, bid_get_BID128_very_fast sgn e c = .ok r ∧
      bitsOf r = encode (.fin (sgn != 0) (bitsOf c) (e.toInt - 6176)) ∧
      decode (bitsOf r) = .fin (sgn != 0) (bitsOf c) (e.toInt - 6176) ∧ isCanonical (bitsOf r) = true := by
  have hc' : bitsOf c < 2^113 := by unfold P34 at hc; omega
  obtain ⟨r, hr, hb⟩ := very_fast_spec sgn e c hs he0 (by omega) hc'
  have wf : (Datum.fin (sgn != 0) (bitsOf c) (e.toInt - 6176)).WF := by
    refine ⟨hc, ?_, ?_⟩
    · unfold eMin; omega
    · unfold eMax; omega
  have he : bitsOf r = encode (.fin (sgn != 0) (bitsOf c) (e.toInt - 6176)) := by
    rw [hb, encode, show e.toInt - 6176 + 6176 = e.toInt by omega]
    rcases hs with rfl | rfl
    · rfl
    · rfl
  refine ⟨r, hr, he, ?_, ?_⟩
  · rw [he, decode_encode wf]
  · rw [he, isCanonical_encode wf]

example : bid_get_BID128_very_fast 0x8000000000000000 6175 ⟨75, 0⟩ = .ok ⟨75, 0xb03e000000000000⟩ := by decide +kernel

/-- `(v as u64) << k` for a small non-negative `i32` -/
theorem i32_shift (v : Int32) (k : UInt64) (n : Nat) (hk : k.toNat % 64 = n) (h0 : 0 ≤ v.toInt)
    (h1 : v.toInt.toNat * 2^n < 2^64) :
    ((UInt64.ofInt (toI v)) <<< k).toNat = v.toInt.toNat * 2^n := by
  simp only [toI]
  rw [UInt64.toNat_shiftLeft, ofInt_nonneg _ h0, UInt64.toNat_ofNat', hk, Nat.shiftLeft_eq]
  have : v.toInt.natAbs = v.toInt.toNat := by omega
  rw [this]
  have h2 : v.toInt.toNat ≤ v.toInt.toNat * 2^n := Nat.le_mul_of_pos_right _ (Nat.two_pow_pos n)
  rw [Nat.mod_eq_of_lt (a := v.toInt.toNat) (by omega), Nat.mod_eq_of_lt h1]

/-- **`return_bid128`** (bid_binarydecimal.rs): sign `s ∈ {0,1}`, biased exponent `0 ≤ e < 2^14`, coefficient words
`c_hi < 2^49`, `c_lo`: the fields laid side by side. -/
theorem return_bid128_spec (s e : Int32) (chi clo : UInt64) (hs : s.toInt = 0 ∨ s.toInt = 1)
    (he0 : 0 ≤ e.toInt) (he1 : e.toInt < 2^14) (hc : chi.toNat < 2^49) :
    ∃ r, return_bid128 s e chi clo = .ok r ∧
      bitsOf r = s.toInt.toNat * 2^127 + e.toInt.toNat * 2^113 + chi.toNat * 2^64 + clo.toNat := by
  refine ⟨⟨clo, ((UInt64.ofInt (toI s)) <<< (0x3f : UInt64)) + ((UInt64.ofInt (toI e)) <<< (0x31 : UInt64)) + chi⟩,
    rfl, ?_⟩
  have hE : e.toInt.toNat < 2^14 := by omega
  have hS : s.toInt.toNat ≤ 1 := by omega
  unfold bitsOf
  simp only []
  rw [UInt64.toNat_add, UInt64.toNat_add, i32_shift s _ 63 rfl (by omega) (by omega),
    i32_shift e _ 49 rfl he0 (by omega)]
  generalize e.toInt.toNat = E at *
  generalize s.toInt.toNat = S at *
  omega

/-- **`return_bid128_zero`**: the canonical zero `±0E+0` -/
theorem return_bid128_zero_spec (s : Int32) (hs : s.toInt = 0 ∨ s.toInt = 1) :
    ∃ r, return_bid128_zero s = .ok r ∧ bitsOf r = encode (.fin (s.toInt == 1) 0 0) := by
  obtain ⟨r, hr, hb⟩ := return_bid128_spec s 0x1820 0 0 hs (by decide) (by decide) (by decide)
  refine ⟨r, ?_, ?_⟩
  · unfold return_bid128_zero
    simp only [hr]
  · rw [hb]
    rcases hs with h | h <;> rw [h] <;> rfl

example : return_bid128 1 6175 0 75 = .ok ⟨75, 0xb03e000000000000⟩ := by decide +kernel
example : return_bid128_zero 1 = .ok ⟨0, 0xb040000000000000⟩ := by decide +kernel


/-! ## 6. Extra: routines that only delegate (`lround`, `llround`, `lrint`, `llrint`, `nexttoward`, `scalbn`, `ldexp`,
`scalbln`, `sub`): what they delegate to, with which arguments -/

theorem bind_eta {α β : Type} (a : Except String (α × β)) :
    (a >>= fun t => Except.ok (t.1, t.2)) = a := by
  cases a <;> rfl

/-- **`bid128_lround`** is `bid128_to_int64_rninta` (round to nearest, ties away; no inexact) -/
theorem lround_eq (x : U128) (f : UInt32) : bid128_lround x f = bid128_to_int64_rninta x f := by
  unfold bid128_lround
  simp only [pure, Except.pure, bind_eta]

/-- **`bid128_llround`** is `bid128_to_int64_rninta` -/
theorem llround_eq (x : U128) (f : UInt32) : bid128_llround x f = bid128_to_int64_rninta x f := by
  unfold bid128_llround
  simp only [pure, Except.pure, bind_eta]

/-- **`bid128_nexttoward`** is `bid128_nextafter` -/
theorem nexttoward_eq (x y : U128) (f : UInt32) : bid128_nexttoward x y f = bid128_nextafter x y f := by
  unfold bid128_nexttoward
  simp only [pure, Except.pure, bind_eta]

/-- **`bid128_lrint`** dispatches on the rounding mode to the inexact-signalling `i64` conversions -/
theorem lrint_eq (x : U128) (m : RoundingMode) (f : UInt32) :
    bid128_lrint x m f = (match m with
      | .NearestEven => bid128_to_int64_xrnint x f
      | .NearestAway => bid128_to_int64_xrninta x f
      | .Downward => bid128_to_int64_xfloor x f
      | .Upward => bid128_to_int64_xceil x f
      | .TowardZero => bid128_to_int64_xint x f) := by
  unfold bid128_lrint
  cases m <;> simp only [pure, Except.pure, bind_eta] <;> rfl

/-- **`bid128_llrint`**: the same dispatch -/
theorem llrint_eq (x : U128) (m : RoundingMode) (f : UInt32) :
    bid128_llrint x m f = (match m with
      | .NearestEven => bid128_to_int64_xrnint x f
      | .NearestAway => bid128_to_int64_xrninta x f
      | .Downward => bid128_to_int64_xfloor x f
      | .Upward => bid128_to_int64_xceil x f
      | .TowardZero => bid128_to_int64_xint x f) := by
  unfold bid128_llrint
  cases m <;> simp only [pure, Except.pure, bind_eta] <;> rfl


/-- **`bid128_scalbn`**: runs `bid128_scalbn_clear_status` from a CLEAR status word and ORs the flags it raised into the
caller's word (so the inner routine cannot see the caller's flags). -/
theorem scalbn_eq (x : U128) (n : Int32) (m : RoundingMode) (f : UInt32) :
    bid128_scalbn x n m f = (bid128_scalbn_clear_status x n m 0 >>= fun r => Except.ok (r.1, f ||| r.2)) := by
  unfold bid128_scalbn
  rfl

/-- **`bid128_ldexp`**: likewise over `bid128_ldexp_clear_status`. -/
theorem ldexp_eq (x : U128) (n : Int32) (m : RoundingMode) (f : UInt32) :
    bid128_ldexp x n m f = (bid128_ldexp_clear_status x n m 0 >>= fun r => Except.ok (r.1, f ||| r.2)) := by
  unfold bid128_ldexp
  rfl

/-- the `i64 → i32` saturation of `bid128_scalbln`: truncate, widen back, compare with the original -/
theorem scalbln_clamp (n : Int64) :
    (if decide (Int64.ofInt (toI (Int32.ofInt (toI n))) < n) = true then (0x7fffffff : Int32)
     else if decide (Int64.ofInt (toI (Int32.ofInt (toI n))) > n) = true then (0x80000000 : Int32)
     else Int32.ofInt (toI n)) = Int32.ofInt (clampI32 n.toInt) := by
  simp only [toI, GT.gt, Int64.lt_iff_toInt_lt, decide_eq_true_iff]
  have hb := Int32.toInt_lt (Int32.ofInt n.toInt)
  have hb' := Int32.le_toInt (Int32.ofInt n.toInt)
  rw [Int64.toInt_ofInt_of_le (by omega) (by omega)]
  unfold clampI32 clampInt
  by_cases h1 : n.toInt < -2147483648
  · rw [if_pos h1, if_neg (by omega), if_pos (by omega)]; rfl
  · rw [if_neg h1]
    by_cases h2 : n.toInt > 2147483647
    · rw [if_pos h2, if_pos (by omega)]; rfl
    · rw [if_neg h2]
      have : (Int32.ofInt n.toInt).toInt = n.toInt := Int32.toInt_ofInt_of_le (by omega) (by omega)
      rw [this, if_neg (by omega), if_neg (by omega)]

/-- **`bid128_scalbln`** is `bid128_scalbn` at the exponent saturated to `i32` (`clampI32` of the model) -/
theorem scalbln_eq (x : U128) (n : Int64) (m : RoundingMode) (f : UInt32) :
    bid128_scalbln x n m f = bid128_scalbn x (Int32.ofInt (clampI32 n.toInt)) m f := by
  unfold bid128_scalbln
  rw [← scalbln_clamp]
  simp only [pure, Except.pure, bind_eta]
  split
  · rfl
  · split <;> rfl

example : bid128_scalbln ⟨1, 0x3040000000000000⟩ 4294967296 .NearestEven 0
    = bid128_scalbn ⟨1, 0x3040000000000000⟩ 2147483647 .NearestEven 0 := scalbln_eq _ _ _ _


/-- the sign flip written in `bid128_sub` (clear the sign bit if set, else set it) moves the pattern by 2^127 -/
theorem flip_sign_bits (y : U128) :
    bitsOf ⟨y.w0, if (y.w1 &&& c_MASK_SIGN != 0) = true then y.w1 &&& 0x7fffffffffffffff
                  else y.w1 ||| 0x8000000000000000⟩ = (bitsOf y + 2^127) % 2^128 := by
  have h0 := y.w0.toNat_lt
  have h1 := y.w1.toNat_lt
  have ht : (y.w1 &&& c_MASK_SIGN != 0) = decide (2^63 ≤ y.w1.toNat) := by
    rw [Bool.eq_iff_iff, bne_iff_ne, decide_eq_true_iff, ne_eq, ← UInt64.toNat_inj, and_field64 _ _ 1 63 (by rfl),
      UInt64.toNat_zero]
    omega
  rw [ht]
  unfold bitsOf
  by_cases h : 2^63 ≤ y.w1.toNat
  · simp only [h, decide_true, if_true]
    rw [and_low _ _ 63 (by rfl)]
    omega
  · simp only [h, decide_false, Bool.false_eq_true, if_false]
    rw [UInt64.toNat_or, show (0x8000000000000000 : UInt64).toNat = 2^63 from rfl,
      Nat.or_two_pow_eq_add_of_lt (by omega)]
    omega

/-- **`bid128_sub`** is `bid128_add` with the second operand's sign bit flipped — unless that operand is a NaN, which is
passed unchanged (so `x − NaN` keeps the NaN's sign). Same rounding mode, same status word. -/
theorem sub_eq (x y : U128) (m : RoundingMode) (f : UInt32) :
    bid128_sub x y m f =
      bid128_add x (if (decode (bitsOf y)).isNaN then y
                    else ofBits ((bitsOf y + 2^127) % 2^128)) m f := by
  unfold bid128_sub
  simp only [pure, Except.pure, bind_eta, bne, nan_test_decode]
  cases hn : (decode (bitsOf y)).isNaN
  · simp only [Bool.not_false, if_true, Bool.false_eq_true, if_false]
    rw [← flip_sign_bits, ofBits_bitsOf]
    rfl
  · simp only [Bool.not_true, Bool.false_eq_true, if_false, if_true]


example (x : U128) (m : RoundingMode) (f : UInt32) :
    bid128_sub x ⟨1, 0x3040000000000000⟩ m f = bid128_add x ⟨1, 0xb040000000000000⟩ m f := by
  have h : (decode (bitsOf ⟨1, 0x3040000000000000⟩)).isNaN = false := by decide +kernel
  have h2 : ofBits ((bitsOf ⟨1, 0x3040000000000000⟩ + 2^127) % 2^128) = ⟨1, 0xb040000000000000⟩ := by decide +kernel
  rw [sub_eq, h, h2]
  rfl
example (x : U128) (m : RoundingMode) (f : UInt32) :
    bid128_sub x ⟨1, 0xfc00000000000000⟩ m f = bid128_add x ⟨1, 0xfc00000000000000⟩ m f := by
  have h : (decode (bitsOf ⟨1, 0xfc00000000000000⟩)).isNaN = true := by decide +kernel
  rw [sub_eq, h]
  rfl

/-! ## 7. Extra: `unpack_BID128` (bid_internal.rs), the by-reference twin of `unpack_BID128_value` -/

/-- `unpack_BID128` compares the low 111 bits (47 of the high word — one more than the payload field) with 10^33 -/
theorem test_payload111 (x : U128) :
    (decide (x.w1 &&& c_LARGE_COEFF_MASK128 > 54210108624275) ||
      x.w1 &&& c_LARGE_COEFF_MASK128 == 54210108624275 && decide (x.w0 ≥ 4089650035136921600))
      = decide (P33 ≤ bitsOf x % 2^111) := by
  have := x.w0.toNat_lt
  rw [ge128, and_low _ _ 47 (by rfl)]
  rw [show (54210108624275 : UInt64).toNat = 54210108624275 from rfl,
    show (4089650035136921600 : UInt64).toNat = 4089650035136921600 from rfl]
  unfold bitsOf P33
  congr 1
  apply propext
  omega

theorem unpack_clear111 (x : U128) :
    (⟨0, x.w1 &&& ~~~c_LARGE_COEFF_MASK128⟩ : U128) = ofBits (bitsOf x / 2^111 * 2^111) := by
  apply eq_ofBits
  have hv := x.w0.toNat_lt
  have hw := x.w1.toNat_lt
  unfold bitsOf
  rw [and_field64 _ _ 17 47 (by rfl), UInt64.toNat_zero]
  generalize x.w1.toNat = W at *
  generalize x.w0.toNat = V at *
  omega

/-- **`unpack_BID128`** (bid_internal.rs; the by-reference twin, used by the `sqlx` glue only): identical to
`unpack_BID128_value` on finite operands; on infinities and NaNs the exponent is 0, the indicator 0 and the "coefficient"
is `x` ITSELF when its low 111 bits are `< 10^33`, else `x` with its low 111 bits cleared — NOT canonicalised, and the
comparison takes in reserved bit 110 (see `unpack_ref_nan_bit110`). -/
theorem unpack_ref_spec (s0 : UInt64) (e0 : Int32) (c0 x : U128) :
    unpack_BID128 s0 e0 c0 x = .ok (match decode (bitsOf x) with
      | .fin _ c e => ((ofBits c).w0 ||| (ofBits c).w1, x.w1 &&& 0x8000000000000000, Int32.ofInt (e + 6176), ofBits c)
      | _ => (0, x.w1 &&& 0x8000000000000000, 0,
              if P33 ≤ bitsOf x % 2^111 then ofBits (bitsOf x / 2^111 * 2^111) else x)) := by
  unfold unpack_BID128
  simp only [pure, Except.pure, bind, Except.bind, T33, T34, unsigned_compare_ge_128, test_large, test_notspecial,
    test_payload111, test_coeff, i32_exp _ 0x2f (by decide), i32_exp _ 0x31 (by decide), unpack_clear111]
  rcases decode_cases (bitsOf x) with ⟨h1, h2⟩ | ⟨h1, h2⟩ | ⟨h1, h2⟩ | ⟨h1, h2⟩
  · rw [decode_inf _ h1 h2]
    simp only [h1, decide_true, if_true, ne_eq, not_true_eq_false, decide_false, Bool.false_eq_true, if_false]
    by_cases h4 : P33 ≤ bitsOf x % 2^111
    · simp only [h4, decide_true, if_true]
    · simp only [h4, decide_false, Bool.false_eq_true, if_false]
  · rw [decode_nan _ h1 h2]
    simp only [h1, decide_true, if_true, ne_eq, not_true_eq_false, decide_false, Bool.false_eq_true, if_false]
    by_cases h4 : P33 ≤ bitsOf x % 2^111
    · simp only [h4, decide_true, if_true]
    · simp only [h4, decide_false, Bool.false_eq_true, if_false]
  · rw [decode_large _ h1 h2]
    simp only [h1, h2, decide_true, if_true, ne_eq, not_false_eq_true, ofBits_zero, Int.sub_add_cancel]
    rw [show (47 : UInt64).toNat = 47 from rfl, exp_large]
    rfl
  · rw [decode_small _ h1 h2]
    simp only [h2, decide_false, Bool.false_eq_true, if_false, Int.sub_add_cancel]
    rw [show (49 : UInt64).toNat = 49 from rfl, exp_small]
    by_cases h4 : P34 ≤ bitsOf x % 2^113
    · simp only [h4, decide_true, if_true, if_neg (show ¬ (bitsOf x % 2^113 < P34) by omega), ofBits_zero]
    · simp only [h4, decide_false, Bool.false_eq_true, if_false, if_pos (show bitsOf x % 2^113 < P34 by omega)]
      rw [← unpack_small x]

/-- the two unpackers agree on every finite operand -/
theorem unpack_ref_eq_value_finite (s0 : UInt64) (e0 : Int32) (c0 x : U128) (h : (decode (bitsOf x)).isFin = true) :
    unpack_BID128 s0 e0 c0 x = unpack_BID128_value s0 e0 c0 x := by
  rw [unpack_ref_spec, unpack_value_spec]
  cases hd : decode (bitsOf x) with
  | fin s c e => rfl
  | inf s => rw [hd] at h; exact Bool.noConfusion h
  | nan s g p => rw [hd] at h; exact Bool.noConfusion h

-- a quiet NaN with payload 5 and reserved bit 110 set: `decode` (IEEE: reserved bits ignored) reads payload 5,
-- `unpack_BID128_value` returns the canonical qNaN(5), `unpack_BID128` returns qNaN(0): the payload is lost
example : decode (bitsOf ⟨5, 0x7c00400000000000⟩) = .nan false false 5 := by decide +kernel
example : unpack_BID128_value 0 0 default ⟨5, 0x7c00400000000000⟩ = .ok (0, 0, 0, ⟨5, 0x7c00000000000000⟩) := by
  decide +kernel
theorem unpack_ref_nan_bit110 :
    unpack_BID128 0 0 default ⟨5, 0x7c00400000000000⟩ = .ok (0, 0, 0, ⟨0, 0x7c00000000000000⟩) := by
  decide +kernel
-- below 10^33 with bit 110 clear the pattern is passed through unchanged, reserved bits 120..111 included
example : unpack_BID128 0 0 default ⟨5, 0xfe1f800000000000⟩ = .ok (0, 0x8000000000000000, 0, ⟨5, 0xfe1f800000000000⟩) := by
  decide +kernel


end Dec.C06GenFromInt
