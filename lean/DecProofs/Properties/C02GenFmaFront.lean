import Lean.Elab.Tactic
import Lean.Meta.AppBuilder
import DecGen.Code
import DecModel.Arith
import DecProofs.Core.FinishUnique
import DecProofs.Properties.C01GenMul
import DecProofs.Properties.C02GenCorrection

set_option linter.unusedSimpArgs false
set_option linter.unusedVariables false

/-! ## 0. A lock-step congruence prover for "the routine is the chain of its blocks"

`rfl` cannot prove `ext_fma_shape`: the translation of a `do` block shares the rest of the routine between the branches of
every `if` through a join point (`have __do_jp := fun … => rest; if … then __do_jp a else __do_jp b`), and a definitional
unfolding check — the elaborator's or the kernel's — first substitutes the join point and then compares `rest` once PER PATH
through the routine (some 10^8 paths through this front end).  `lockstep` walks the two sides together instead, reducing at
the head only (β, ζ, projections, unfolding the blocks of this file) and building an explicit congruence proof — `congrArg`
on the join point itself, on the differing branch of an `ite`, on the continuation of a `bind`, `funext` under binders — so
that every piece of the routine is compared once.  What it produces is an ordinary proof term, checked by the kernel. -/

namespace Lockstep
open Lean Meta

/-- one reduction step at the head that is not ζ: β, projection of a constructor, unfolding of a constant admitted by `unf` -/
def headStep (unf : Name → Bool) (e : Expr) : MetaM (Option Expr) := do
  let f := e.getAppFn
  match f with
  | .lam .. => return some (f.beta e.getAppArgs)
  | .mdata _ f' => return some (mkAppN f' e.getAppArgs)
  | .const n lvls =>
    if unf n then
      let some ci := (← getEnv).find? n | return none
      let some v := ci.value? | return none
      return some ((v.instantiateLevelParams ci.levelParams lvls).beta e.getAppArgs)
    else return none
  | .proj _ i s =>
    match ← projectCore? (← whnfCore s) i with
    | some r => return some (mkAppN r e.getAppArgs)
    | none => return none
  | .letE _ _ v b _ => if e.isApp then return some (mkAppN (b.instantiate1 v) e.getAppArgs) else return none
  | _ => return none

/-- number of nodes, capped -/
partial def smallSize (e : Expr) (cap : Nat) : Nat := Id.run do
  let rec go (e : Expr) (n : Nat) : Nat :=
    if n ≥ cap then n else
    match e with
    | .app f a => go a (go f (n + 1))
    | .lam _ t b _ => go b (go t (n + 1))
    | .forallE _ t b _ => go b (go t (n + 1))
    | .letE _ t v b _ => go b (go v (go t (n + 1)))
    | .mdata _ b => go b n
    | .proj _ _ b => go b (n + 1)
    | _ => n + 1
  go e 0

/-- explicit `funext` (no unification on the big terms) -/
def mkFunExtE (n : Name) (bi : BinderInfo) (α : Expr) (x : Expr) (fx gx h : Expr) : MetaM Expr := do
  let β ← inferType fx
  let u ← getLevel α
  let v ← getLevel β
  let f ← mkLambdaFVars #[x] fx
  let g ← mkLambdaFVars #[x] gx
  let hl ← mkLambdaFVars #[x] h
  let βl ← mkLambdaFVars #[x] β
  return mkApp5 (mkConst ``funext [u, v]) α βl f g hl

mutual
/-- proof of `a = b`, comparing every piece once: first bring both sides to a common shape by head steps -/
partial def prove (unf : Name → Bool) (a b : Expr) : MetaM Expr := do
  if a == b then return ← mkEqRefl a
  let mut a' := a
  let mut b' := b
  let mut fuel := 100000
  while fuel > 0 do
    fuel := fuel - 1
    if a' == b' then break
    if let some x ← headStep unf a' then a' := x; continue
    if let some x ← headStep unf b' then b' := x; continue
    match a', b' with
    | .letE _ t v body _, .letE _ t' v' body' _ =>
      if v != v' && v.isLambda && v'.isLambda && t == t' then break
      a' := body.instantiate1 v; b' := body'.instantiate1 v'
    | .letE _ _ v body _, _ => a' := body.instantiate1 v
    | _, .letE _ _ v body _ => b' := body.instantiate1 v
    | .mdata _ x, _ => a' := x
    | _, .mdata _ x => b' := x
    | _, _ => break
  let p ← core unf a' b'
  if a'.equal a && b'.equal b then return p
  mkExpectedTypeHint p (← mkEq a b)

/-- the structural step -/
partial def core (unf : Name → Bool) (a b : Expr) : MetaM Expr := do
  if a == b then return ← mkEqRefl a
  if smallSize a 4000 < 4000 && smallSize b 4000 < 4000 then
    -- small terms: leave it to the kernel
    return ← mkExpectedTypeHint (← mkEqRefl a) (← mkEq a b)
  match a, b with
  | .letE n t v body _, .letE _ _ v' body' _ =>
    -- a join point: compare the join points themselves, and the bodies with the join point opaque
    let hV ← prove unf v v'
    let fA := Expr.lam n t body .default
    let p1 ← mkCongrArg fA hV            -- body[v] = body[v']
    if body == body' then
      mkExpectedTypeHint p1 (← mkEq a b)
    else
      let hB ← withLocalDecl n .default t fun jp => do
        let l := body.instantiate1 jp
        let r := body'.instantiate1 jp
        let h ← prove unf l r
        mkFunExtE n .default t jp l r h
      let p2 ← mkCongrFun hB v'
      mkExpectedTypeHint (← mkEqTrans p1 p2) (← mkEq a b)
  | .lam n t body bi, .lam _ t' body' _ =>
    if t != t' then throwError "lockstep: binder types differ: {t} vs {t'}"
    withLocalDecl n bi t fun x => do
      let l := body.instantiate1 x
      let r := body'.instantiate1 x
      let h ← prove unf l r
      mkFunExtE n bi t x l r h
  | _, _ =>
    let f := a.getAppFn; let g := b.getAppFn
    let as := a.getAppArgs; let bs := b.getAppArgs
    if a.isApp && b.isApp && f == g && as.size == bs.size then
      let mut p ← mkEqRefl f
      for i in [0:as.size] do
        if as[i]! == bs[i]! then p ← mkCongrFun p as[i]!
        else
          let h ← prove unf as[i]! bs[i]!
          try
            p ← mkCongr p h
          catch _ =>
            throwError "lockstep: dependent argument {i} of {f} differs:\n{(toString (← ppExpr as[i]!)).take 1500}\nvs\n{(toString (← ppExpr bs[i]!)).take 1500}"
      return p
    else
      throwError "lockstep: cannot match\n{(toString (← ppExpr a)).take 600}\nwith\n{(toString (← ppExpr b)).take 600}"
end

open Elab Tactic in
/-- `lockstep pre`: prove an equation between two expansions of a translated routine, unfolding at the head the constants
whose name has the prefix `pre` and the routine itself (the head constant of the left-hand side) -/
elab "lockstep " pre:ident : tactic => do
  let g ← getMainGoal
  let t := (← instantiateMVars (← g.getType)).consumeMData
  let some (_, lhs, rhs) := t.eq? | throwError "lockstep: not an equation"
  let p := pre.getId
  let top := lhs.getAppFn.constName?.getD Name.anonymous
  let prf ← prove (fun n => p.isPrefixOf n || n == top) lhs rhs
  g.assign prf

end Lockstep

namespace Dec.C02GenFmaFront
open Dec.Rs Dec.Gen.Code Dec.C03GenCompare

/-! ## 1. The front end of `bid128_ext_fma` cut into stages (literal text of the translation, continuation-passing)

In every stage the `let mut` declarations come in the order of the declarations of the routine: the translation of `do`
passes the re-assigned variables to a join point in the order of their declaration. -/

/-- what `bid128_ext_fma` returns: the result word, the four indicators, the status word (a notation, not a definition, so
that the stages below are literally the translated text) -/
local notation "Out" => (U128 × Bool × Bool × Bool × Bool × UInt32)

/-- lines 68–121: the NaN front end (`y` first, then `z`, then `x`); no NaN: go on -/
def nanK (x_ y_ z_ : U128) (pfpsf_ : UInt32) (k : Except String Out) : Except String Out := do
  let mut ptr_is_midpoint_lt_even : Bool := false
  let mut ptr_is_midpoint_gt_even : Bool := false
  let mut ptr_is_inexact_lt_midpoint : Bool := false
  let mut ptr_is_inexact_gt_midpoint : Bool := false
  let mut x : U128 := x_
  let mut y : U128 := y_
  let mut z : U128 := z_
  let mut pfpsf : UInt32 := pfpsf_
  let mut res : U128 := (⟨(0xbaddbaddbaddbadd : UInt64), (0xbaddbaddbaddbadd : UInt64)⟩ : U128)
  let mut is_midpoint_lt_even : Bool := false
  let mut is_midpoint_gt_even : Bool := false
  let mut is_inexact_lt_midpoint : Bool := false
  let mut is_inexact_gt_midpoint : Bool := false
  if (((y.w1 &&& c_MASK_NAN)) == c_MASK_NAN) then
    if (((decide (((y.w1 &&& (0x3fffffffffff : UInt64))) > (0x314dc6448d93 : UInt64)))) || ((((((y.w1 &&& (0x3fffffffffff : UInt64))) == (0x314dc6448d93 : UInt64))) && ((decide (y.w0 > (0x38c15b09ffffffff : UInt64))))))) then
      y := { y with w1 := (y.w1 &&& (0xffffc00000000000 : UInt64)) }
      y := { y with w0 := (0 : UInt64) }
    if (((y.w1 &&& c_MASK_SNAN)) == c_MASK_SNAN) then
      pfpsf := (pfpsf ||| c_StatusFlags_BID_INVALID_EXCEPTION)
      res := { res with w1 := (y.w1 &&& (0xfc003fffffffffff : UInt64)) }
      res := { res with w0 := y.w0 }
    else
      res := { res with w1 := (y.w1 &&& (0xfc003fffffffffff : UInt64)) }
      res := { res with w0 := y.w0 }
      if ((((z.w1 &&& c_MASK_SNAN)) == c_MASK_SNAN) || (((x.w1 &&& c_MASK_SNAN)) == c_MASK_SNAN)) then
        pfpsf := (pfpsf ||| c_StatusFlags_BID_INVALID_EXCEPTION)
    ptr_is_midpoint_lt_even := is_midpoint_lt_even
    ptr_is_midpoint_gt_even := is_midpoint_gt_even
    ptr_is_inexact_lt_midpoint := is_inexact_lt_midpoint
    ptr_is_inexact_gt_midpoint := is_inexact_gt_midpoint
    return (res, ptr_is_midpoint_lt_even, ptr_is_midpoint_gt_even, ptr_is_inexact_lt_midpoint, ptr_is_inexact_gt_midpoint, pfpsf)
  else
    if (((z.w1 &&& c_MASK_NAN)) == c_MASK_NAN) then
      if (((decide (((z.w1 &&& (0x3fffffffffff : UInt64))) > (0x314dc6448d93 : UInt64)))) || ((((((z.w1 &&& (0x3fffffffffff : UInt64))) == (0x314dc6448d93 : UInt64))) && ((decide (z.w0 > (0x38c15b09ffffffff : UInt64))))))) then
        z := { z with w1 := (z.w1 &&& (0xffffc00000000000 : UInt64)) }
        z := { z with w0 := (0 : UInt64) }
      if (((z.w1 &&& c_MASK_SNAN)) == c_MASK_SNAN) then
        pfpsf := (pfpsf ||| c_StatusFlags_BID_INVALID_EXCEPTION)
        res := { res with w1 := (z.w1 &&& (0xfc003fffffffffff : UInt64)) }
        res := { res with w0 := z.w0 }
      else
        res := { res with w1 := (z.w1 &&& (0xfc003fffffffffff : UInt64)) }
        res := { res with w0 := z.w0 }
        if (((x.w1 &&& c_MASK_SNAN)) == c_MASK_SNAN) then
          pfpsf := (pfpsf ||| c_StatusFlags_BID_INVALID_EXCEPTION)
      ptr_is_midpoint_lt_even := is_midpoint_lt_even
      ptr_is_midpoint_gt_even := is_midpoint_gt_even
      ptr_is_inexact_lt_midpoint := is_inexact_lt_midpoint
      ptr_is_inexact_gt_midpoint := is_inexact_gt_midpoint
      return (res, ptr_is_midpoint_lt_even, ptr_is_midpoint_gt_even, ptr_is_inexact_lt_midpoint, ptr_is_inexact_gt_midpoint, pfpsf)
    else
      if (((x.w1 &&& c_MASK_NAN)) == c_MASK_NAN) then
        if (((decide (((x.w1 &&& (0x3fffffffffff : UInt64))) > (0x314dc6448d93 : UInt64)))) || ((((((x.w1 &&& (0x3fffffffffff : UInt64))) == (0x314dc6448d93 : UInt64))) && ((decide (x.w0 > (0x38c15b09ffffffff : UInt64))))))) then
          x := { x with w1 := (x.w1 &&& (0xffffc00000000000 : UInt64)) }
          x := { x with w0 := (0 : UInt64) }
        if (((x.w1 &&& c_MASK_SNAN)) == c_MASK_SNAN) then
          pfpsf := (pfpsf ||| c_StatusFlags_BID_INVALID_EXCEPTION)
          res := { res with w1 := (x.w1 &&& (0xfc003fffffffffff : UInt64)) }
          res := { res with w0 := x.w0 }
        else
          res := { res with w1 := (x.w1 &&& (0xfc003fffffffffff : UInt64)) }
          res := { res with w0 := x.w0 }
        ptr_is_midpoint_lt_even := is_midpoint_lt_even
        ptr_is_midpoint_gt_even := is_midpoint_gt_even
        ptr_is_inexact_lt_midpoint := is_inexact_lt_midpoint
        ptr_is_inexact_gt_midpoint := is_inexact_gt_midpoint
        return (res, ptr_is_midpoint_lt_even, ptr_is_midpoint_gt_even, ptr_is_inexact_lt_midpoint, ptr_is_inexact_gt_midpoint, pfpsf)
  k

/-- lines 122–136 (and 137–151, 152–166): sign word, exponent field (still shifted left 49 bits; `0` for an infinity)
and coefficient (zero for the two non-canonical finite forms) of one operand -/
def unpackK {α : Type} (x : U128) (k : UInt64 → UInt64 → U128 → Except String α) : Except String α := do
  let mut x_sign : UInt64 := default
  let mut x_exp : UInt64 := (0 : UInt64)
  let mut C1 : U128 := default
  x_sign := (x.w1 &&& c_MASK_SIGN)
  C1 := { C1 with w1 := (x.w1 &&& c_MASK_COEFF) }
  C1 := { C1 with w0 := x.w0 }
  if (((x.w1 &&& c_MASK_ANY_INF)) != c_MASK_INF) then
    if (((x.w1 &&& (0x6000000000000000 : UInt64))) == (0x6000000000000000 : UInt64)) then
      x_exp := (((x.w1 <<< 2)) &&& c_MASK_EXP)
      C1 := { C1 with w1 := (0 : UInt64) }
      C1 := { C1 with w0 := (0 : UInt64) }
    else
      x_exp := (x.w1 &&& c_MASK_EXP)
      if ((decide (C1.w1 > (0x1ed09bead87c0 : UInt64))) || (((C1.w1 == (0x1ed09bead87c0 : UInt64)) && (decide (C1.w0 > (0x378d8e63ffffffff : UInt64)))))) then
        C1 := { C1 with w1 := (0 : UInt64) }
        C1 := { C1 with w0 := (0 : UInt64) }
      else
        pure ()
  k x_sign x_exp C1

/-- lines 167–234: the sign of the product; an infinite operand: the answer; three finite operands: go on -/
def infK (x y z : U128) (x_sign y_sign z_sign : UInt64) (C1 C2 : U128) (pfpsf_ : UInt32)
    (k : UInt64 → Except String Out) : Except String Out := do
  let mut ptr_is_midpoint_lt_even : Bool := false
  let mut ptr_is_midpoint_gt_even : Bool := false
  let mut ptr_is_inexact_lt_midpoint : Bool := false
  let mut ptr_is_inexact_gt_midpoint : Bool := false
  let mut pfpsf : UInt32 := pfpsf_
  let mut res : U128 := (⟨(0xbaddbaddbaddbadd : UInt64), (0xbaddbaddbaddbadd : UInt64)⟩ : U128)
  let mut p_sign : UInt64 := default
  let mut is_midpoint_lt_even : Bool := false
  let mut is_midpoint_gt_even : Bool := false
  let mut is_inexact_lt_midpoint : Bool := false
  let mut is_inexact_gt_midpoint : Bool := false
  p_sign := (x_sign ^^^ y_sign)
  if (((x.w1 &&& c_MASK_ANY_INF)) == c_MASK_INF) then
    if (((y.w1 &&& c_MASK_ANY_INF)) == c_MASK_INF) then
      if (((z.w1 &&& c_MASK_ANY_INF)) == c_MASK_INF) then
        if (p_sign == z_sign) then
          res := { res with w1 := (z_sign ||| c_MASK_INF) }
          res := { res with w0 := (0 : UInt64) }
        else
          res := { res with w1 := (0x7c00000000000000 : UInt64) }
          res := { res with w0 := (0 : UInt64) }
          pfpsf := (pfpsf ||| c_StatusFlags_BID_INVALID_EXCEPTION)
      else
        res := { res with w1 := (p_sign ||| c_MASK_INF) }
        res := { res with w0 := (0 : UInt64) }
    else
      if ((C2.w1 != (0 : UInt64)) || (C2.w0 != (0 : UInt64))) then
        if (((z.w1 &&& c_MASK_ANY_INF)) == c_MASK_INF) then
          if (p_sign == z_sign) then
            res := { res with w1 := (z_sign ||| c_MASK_INF) }
            res := { res with w0 := (0 : UInt64) }
          else
            res := { res with w1 := (0x7c00000000000000 : UInt64) }
            res := { res with w0 := (0 : UInt64) }
            pfpsf := (pfpsf ||| c_StatusFlags_BID_INVALID_EXCEPTION)
        else
          res := { res with w1 := (p_sign ||| c_MASK_INF) }
          res := { res with w0 := (0 : UInt64) }
      else
        res := { res with w1 := (0x7c00000000000000 : UInt64) }
        res := { res with w0 := (0 : UInt64) }
        pfpsf := (pfpsf ||| c_StatusFlags_BID_INVALID_EXCEPTION)
    ptr_is_midpoint_lt_even := is_midpoint_lt_even
    ptr_is_midpoint_gt_even := is_midpoint_gt_even
    ptr_is_inexact_lt_midpoint := is_inexact_lt_midpoint
    ptr_is_inexact_gt_midpoint := is_inexact_gt_midpoint
    return (res, ptr_is_midpoint_lt_even, ptr_is_midpoint_gt_even, ptr_is_inexact_lt_midpoint, ptr_is_inexact_gt_midpoint, pfpsf)
  else
    if (((y.w1 &&& c_MASK_ANY_INF)) == c_MASK_INF) then
      if (((z.w1 &&& c_MASK_ANY_INF)) == c_MASK_INF) then
        if (((p_sign != z_sign)) || (((C1.w1 == (0 : UInt64)) && (C1.w0 == (0 : UInt64))))) then
          res := { res with w1 := (0x7c00000000000000 : UInt64) }
          res := { res with w0 := (0 : UInt64) }
          pfpsf := (pfpsf ||| c_StatusFlags_BID_INVALID_EXCEPTION)
        else
          res := { res with w1 := (z_sign ||| c_MASK_INF) }
          res := { res with w0 := (0 : UInt64) }
      else
        if ((C1.w1 == (0 : UInt64)) && (C1.w0 == (0 : UInt64))) then
          res := { res with w1 := (0x7c00000000000000 : UInt64) }
          res := { res with w0 := (0 : UInt64) }
          pfpsf := (pfpsf ||| c_StatusFlags_BID_INVALID_EXCEPTION)
        else
          res := { res with w1 := (p_sign ||| c_MASK_INF) }
          res := { res with w0 := (0 : UInt64) }
      ptr_is_midpoint_lt_even := is_midpoint_lt_even
      ptr_is_midpoint_gt_even := is_midpoint_gt_even
      ptr_is_inexact_lt_midpoint := is_inexact_lt_midpoint
      ptr_is_inexact_gt_midpoint := is_inexact_gt_midpoint
      return (res, ptr_is_midpoint_lt_even, ptr_is_midpoint_gt_even, ptr_is_inexact_lt_midpoint, ptr_is_inexact_gt_midpoint, pfpsf)
    else
      if (((z.w1 &&& c_MASK_ANY_INF)) == c_MASK_INF) then
        res := { res with w1 := (z_sign ||| c_MASK_INF) }
        res := { res with w0 := (0 : UInt64) }
        ptr_is_midpoint_lt_even := is_midpoint_lt_even
        ptr_is_midpoint_gt_even := is_midpoint_gt_even
        ptr_is_inexact_lt_midpoint := is_inexact_lt_midpoint
        ptr_is_inexact_gt_midpoint := is_inexact_gt_midpoint
        return (res, ptr_is_midpoint_lt_even, ptr_is_midpoint_gt_even, ptr_is_inexact_lt_midpoint, ptr_is_inexact_gt_midpoint, pfpsf)
  k p_sign

/-- lines 235–252: the exponent field of the product (clamped below); product zero and addend zero: the answer -/
def zeroK (x_exp y_exp z_exp : UInt64) (C1 C2 C3 : U128) (p_sign z_sign : UInt64) (rnd_mode : RoundingMode)
    (pfpsf : UInt32) (k : UInt64 → Except String Out) : Except String Out := do
  let mut ptr_is_midpoint_lt_even : Bool := false
  let mut ptr_is_midpoint_gt_even : Bool := false
  let mut ptr_is_inexact_lt_midpoint : Bool := false
  let mut ptr_is_inexact_gt_midpoint : Bool := false
  let mut res : U128 := (⟨(0xbaddbaddbaddbadd : UInt64), (0xbaddbaddbaddbadd : UInt64)⟩ : U128)
  let mut p_exp : UInt64 := default
  let mut true_p_exp : Int32 := default
  let mut is_midpoint_lt_even : Bool := false
  let mut is_midpoint_gt_even : Bool := false
  let mut is_inexact_lt_midpoint : Bool := false
  let mut is_inexact_gt_midpoint : Bool := false
  true_p_exp := (Int32.ofInt (toI ((((((Int64.ofInt (toI ((x_exp >>> 0x31))))) - (0x1820 : Int64)) + ((Int64.ofInt (toI ((y_exp >>> 0x31)))))) - (0x1820 : Int64)))))
  p_exp := (if (decide (true_p_exp < (-0x1820))) then 0 else (((UInt64.ofInt (toI ((true_p_exp + (0x1820 : Int32)))))) <<< 0x31))
  if (((((((C1.w1 == (0 : UInt64)) && (C1.w0 == (0 : UInt64)))) || (((C2.w1 == (0 : UInt64)) && (C2.w0 == (0 : UInt64)))))) && (C3.w1 == (0 : UInt64))) && (C3.w0 == (0 : UInt64))) then
    res := { res with w1 := (if (decide (p_exp < z_exp)) then p_exp else z_exp) }
    if (p_sign == z_sign) then
      res := { res with w1 := (res.w1 ||| z_sign) }
      res := { res with w0 := (0 : UInt64) }
    else
      if (rnd_mode == RoundingMode.Downward) then
        res := { res with w1 := (res.w1 ||| c_MASK_SIGN) }
        res := { res with w0 := (0 : UInt64) }
      else
        res := { res with w0 := (0 : UInt64) }
    ptr_is_midpoint_lt_even := is_midpoint_lt_even
    ptr_is_midpoint_gt_even := is_midpoint_gt_even
    ptr_is_inexact_lt_midpoint := is_inexact_lt_midpoint
    ptr_is_inexact_gt_midpoint := is_inexact_gt_midpoint
    return (res, ptr_is_midpoint_lt_even, ptr_is_midpoint_gt_even, ptr_is_inexact_lt_midpoint, ptr_is_inexact_gt_midpoint, pfpsf)
  k p_exp

/-- lines 253–268 (and 269–284, 285–300): the number of decimal digits of a coefficient (`0` for zero); `tmp` is the scratch
variable of the binary-exponent trick (never read afterwards, but part of the state the translation threads along) -/
def digitsK {α : Type} (C1 : U128) (tmp_ : F64U) (k : Int32 → F64U → Except String α) : Except String α := do
  let mut q1 : Int32 := (0 : Int32)
  let mut tmp : F64U := tmp_
  let mut x_nr_bits : Int32 := default
  if ((C1.w1 != (0 : UInt64)) || (C1.w0 != (0 : UInt64))) then
    if (C1.w1 == (0 : UInt64)) then
      if (decide (C1.w0 ≥ (0x20000000000000 : UInt64))) then
        tmp := (F64U.ofU64 (UInt64.ofInt (toI ((C1.w0 >>> 0x20)))))
        x_nr_bits := (Int32.ofInt (toI (((0x21 : UInt32) + ((((((UInt32.ofInt (toI ((tmp.bits >>> 0x34))))) &&& (0x7ff : UInt32))) - (0x3ff : UInt32)))))))
      else
        tmp := (F64U.ofU64 (UInt64.ofInt (toI C1.w0)))
        x_nr_bits := (Int32.ofInt (toI (((1 : UInt32) + ((((((UInt32.ofInt (toI ((tmp.bits >>> 0x34))))) &&& (0x7ff : UInt32))) - (0x3ff : UInt32)))))))
    else
      tmp := (F64U.ofU64 (UInt64.ofInt (toI C1.w1)))
      x_nr_bits := (Int32.ofInt (toI (((0x41 : UInt32) + ((((((UInt32.ofInt (toI ((tmp.bits >>> 0x34))))) &&& (0x7ff : UInt32))) - (0x3ff : UInt32)))))))
    q1 := (Int32.ofInt (toI ((← tblDD Dec.Gen.BID_NR_DIGITS (UInt64.ofInt (toI ((x_nr_bits - (1 : Int32)))))).digits)))
    if (q1 == (0 : Int32)) then
      q1 := (Int32.ofInt (toI ((← tblDD Dec.Gen.BID_NR_DIGITS (UInt64.ofInt (toI ((x_nr_bits - (1 : Int32)))))).digits1)))
      if (← (if (decide (C1.w1 > (← tblDD Dec.Gen.BID_NR_DIGITS (UInt64.ofInt (toI ((x_nr_bits - (1 : Int32)))))).threshold_hi)) then pure true else (do pure ((← (if (C1.w1 == (← tblDD Dec.Gen.BID_NR_DIGITS (UInt64.ofInt (toI ((x_nr_bits - (1 : Int32)))))).threshold_hi) then (do pure (decide (C1.w0 ≥ (← tblDD Dec.Gen.BID_NR_DIGITS (UInt64.ofInt (toI ((x_nr_bits - (1 : Int32)))))).threshold_lo))) else pure false)))))) then
        q1 := (q1 + 1)
  k q1 tmp

/-- lines 301–329: a zero product and a non-zero addend: the addend, brought towards the preferred exponent -/
def prodZeroK (z : U128) (C1 C2 C3 : U128) (z_exp_ p_exp z_sign : UInt64) (q3 : Int32) (pfpsf : UInt32)
    (k : Except String Out) : Except String Out := do
  let mut ptr_is_midpoint_lt_even : Bool := false
  let mut ptr_is_midpoint_gt_even : Bool := false
  let mut ptr_is_inexact_lt_midpoint : Bool := false
  let mut ptr_is_inexact_gt_midpoint : Bool := false
  let mut res : U128 := (⟨(0xbaddbaddbaddbadd : UInt64), (0xbaddbaddbaddbadd : UInt64)⟩ : U128)
  let mut z_exp : UInt64 := z_exp_
  let mut scale : Int32 := default
  let mut ind : Int32 := default
  let mut p34 : Int32 := c_P34
  let mut is_midpoint_lt_even : Bool := false
  let mut is_midpoint_gt_even : Bool := false
  let mut is_inexact_lt_midpoint : Bool := false
  let mut is_inexact_gt_midpoint : Bool := false
  if ((((C1.w1 == (0 : UInt64)) && (C1.w0 == (0 : UInt64)))) || (((C2.w1 == (0 : UInt64)) && (C2.w0 == (0 : UInt64))))) then
    if (decide (z_exp ≤ p_exp)) then
      res := { res with w1 := ((z_sign ||| ((z_exp &&& c_MASK_EXP))) ||| C3.w1) }
      res := { res with w0 := C3.w0 }
    else
      scale := (p34 - q3)
      ind := (Int32.ofInt (toI ((((z_exp - p_exp)) >>> 0x31))))
      if (decide (ind < scale)) then
        scale := ind
      if (scale == (0 : Int32)) then
        res := { res with w1 := z.w1 }
        res := { res with w0 := z.w0 }
      else
        if (decide (q3 ≤ (0x13 : Int32))) then
          if (decide (scale ≤ (0x13 : Int32))) then
            res := (← mul_64x64_to_128MACH C3.w0 (← tbl64 Dec.Gen.BID_TEN2K64 (UInt64.ofInt (toI scale))))
          else
            res := (← mul_128x64_to_128 C3.w0 (← tbl128 Dec.Gen.BID_TEN2K128 (UInt64.ofInt (toI ((scale - (0x14 : Int32)))))))
        else
          res := (← mul_128x64_to_128 (← tbl64 Dec.Gen.BID_TEN2K64 (UInt64.ofInt (toI scale))) C3)
      z_exp := (z_exp - (((UInt64.ofInt (toI scale))) <<< 0x31))
      res := { res with w1 := (res.w1 ||| (z_sign ||| ((z_exp &&& c_MASK_EXP)))) }
    ptr_is_midpoint_lt_even := is_midpoint_lt_even
    ptr_is_midpoint_gt_even := is_midpoint_gt_even
    ptr_is_inexact_lt_midpoint := is_inexact_lt_midpoint
    ptr_is_inexact_gt_midpoint := is_inexact_gt_midpoint
    return (res, ptr_is_midpoint_lt_even, ptr_is_midpoint_gt_even, ptr_is_inexact_lt_midpoint, ptr_is_inexact_gt_midpoint, pfpsf)
  else
    pure ()
  k

/-- lines 330–388: the unbiased exponents, the exact product `C4 = C1·C2` and its number of digits `q4` -/
def productK {α : Type} (x_exp y_exp z_exp : UInt64) (C1 C2 : U128) (q1 q2 : Int32)
    (k : Int32 → Int32 → U256 → Int32 → Except String α) : Except String α := do
  let mut C4 : U256 := default
  let mut q4 : Int32 := default
  let mut e1 : Int32 := default
  let mut e2 : Int32 := default
  let mut e3 : Int32 := default
  let mut e4 : Int32 := default
  e1 := (Int32.ofInt (toI ((((Int64.ofInt (toI ((x_exp >>> 0x31))))) - (0x1820 : Int64)))))
  e2 := (Int32.ofInt (toI ((((Int64.ofInt (toI ((y_exp >>> 0x31))))) - (0x1820 : Int64)))))
  e3 := (Int32.ofInt (toI ((((Int64.ofInt (toI ((z_exp >>> 0x31))))) - (0x1820 : Int64)))))
  e4 := (e1 + e2)
  C4 := { C4 with w3 := (0 : UInt64) }
  C4 := { C4 with w2 := (0 : UInt64) }
  C4 := { C4 with w1 := (0 : UInt64) }
  C4 := { C4 with w0 := (0 : UInt64) }
  if (decide ((q1 + q2) ≤ (0x13 : Int32))) then
    C4 := { C4 with w0 := (C1.w0 * C2.w0) }
    q4 := (if (decide (C4.w0 < (← tbl64 Dec.Gen.BID_TEN2K64 (UInt64.ofInt (toI (((q1 + q2) - (1 : Int32)))))))) then ((q1 + q2) - (1 : Int32)) else (q1 + q2))
  else
    if ((q1 + q2) == (0x14 : Int32)) then
      let mut tmp_1 : U128 := (← mul_64x64_to_128MACH C1.w0 C2.w0)
      C4 := { C4 with w0 := tmp_1.w0 }
      C4 := { C4 with w1 := tmp_1.w1 }
      q4 := (if (← (if (C4.w1 == (0 : UInt64)) then (do pure (decide (C4.w0 < (← tbl64 Dec.Gen.BID_TEN2K64 (UInt64.ofInt (toI 0x13)))))) else pure false)) then 0x13 else 0x14)
    else
      if (decide ((q1 + q2) ≤ (0x26 : Int32))) then
        if (decide (q1 ≤ (0x13 : Int32))) then
          let mut tmp_2 : U128 := (← mul_128x64_to_128 C1.w0 C2)
          C4 := { C4 with w0 := tmp_2.w0 }
          C4 := { C4 with w1 := tmp_2.w1 }
        else
          let mut tmp_3 : U128 := (← mul_128x64_to_128 C2.w0 C1)
          C4 := { C4 with w0 := tmp_3.w0 }
          C4 := { C4 with w1 := tmp_3.w1 }
        q4 := (if (← (if (decide (C4.w1 < (← tbl128 Dec.Gen.BID_TEN2K128 (UInt64.ofInt (toI (((q1 + q2) - (0x15 : Int32)))))).w1)) then pure true else (do pure ((← (if (C4.w1 == (← tbl128 Dec.Gen.BID_TEN2K128 (UInt64.ofInt (toI (((q1 + q2) - (0x15 : Int32)))))).w1) then (do pure (decide (C4.w0 < (← tbl128 Dec.Gen.BID_TEN2K128 (UInt64.ofInt (toI (((q1 + q2) - (0x15 : Int32)))))).w0))) else pure false)))))) then ((q1 + q2) - (1 : Int32)) else (q1 + q2))
      else
        if ((q1 + q2) == (0x27 : Int32)) then
          C4 := (← mul_128x128_to_256 C1 C2)
          q4 := (if (← (if (C4.w2 == (0 : UInt64)) then (do pure ((← (if (decide (C4.w1 < (← tbl128 Dec.Gen.BID_TEN2K128 (UInt64.ofInt (toI 0x12))).w1)) then pure true else (do pure ((← (if (C4.w1 == (← tbl128 Dec.Gen.BID_TEN2K128 (UInt64.ofInt (toI 0x12))).w1) then (do pure (decide (C4.w0 < (← tbl128 Dec.Gen.BID_TEN2K128 (UInt64.ofInt (toI 0x12))).w0))) else pure false)))))))) else pure false)) then 0x26 else 0x27)
        else
          if (decide ((q1 + q2) ≤ (0x39 : Int32))) then
            if (C1.w1 == (0 : UInt64)) then
              let t__4 := (← mul_64x128_full C1.w0 C2)
              let mut a : UInt64 := t__4.1
              let mut b : U128 := t__4.2
              C4 := { C4 with w0 := b.w0 }
              C4 := { C4 with w1 := b.w1 }
              C4 := { C4 with w2 := a }
            else
              if (C2.w1 == (0 : UInt64)) then
                let t__5 := (← mul_64x128_full C2.w0 C1)
                let mut a : UInt64 := t__5.1
                let mut b : U128 := t__5.2
                C4 := { C4 with w0 := b.w0 }
                C4 := { C4 with w1 := b.w1 }
                C4 := { C4 with w2 := a }
              else
                C4 := (← mul_128x128_to_256 C1 C2)
            q4 := (if (← (if (decide (C4.w2 < (← tbl256 Dec.Gen.BID_TEN2K256 (UInt64.ofInt (toI (((q1 + q2) - (0x28 : Int32)))))).w2)) then pure true else (do pure ((← (if (C4.w2 == (← tbl256 Dec.Gen.BID_TEN2K256 (UInt64.ofInt (toI (((q1 + q2) - (0x28 : Int32)))))).w2) then (do pure ((← (if (decide (C4.w1 < (← tbl256 Dec.Gen.BID_TEN2K256 (UInt64.ofInt (toI (((q1 + q2) - (0x28 : Int32)))))).w1)) then pure true else (do pure ((← (if (C4.w1 == (← tbl256 Dec.Gen.BID_TEN2K256 (UInt64.ofInt (toI (((q1 + q2) - (0x28 : Int32)))))).w1) then (do pure (decide (C4.w0 < (← tbl256 Dec.Gen.BID_TEN2K256 (UInt64.ofInt (toI (((q1 + q2) - (0x28 : Int32)))))).w0))) else pure false)))))))) else pure false)))))) then ((q1 + q2) - (1 : Int32)) else (q1 + q2))
          else
            if ((q1 + q2) == (0x3a : Int32)) then
              C4 := (← mul_128x128_to_256 C1 C2)
              q4 := (if (← (if (C4.w3 == (0 : UInt64)) then (do pure ((← (if (decide (C4.w2 < (← tbl256 Dec.Gen.BID_TEN2K256 (UInt64.ofInt (toI 0x12))).w2)) then pure true else (do pure ((← (if (C4.w2 == (← tbl256 Dec.Gen.BID_TEN2K256 (UInt64.ofInt (toI 0x12))).w2) then (do pure ((← (if (decide (C4.w1 < (← tbl256 Dec.Gen.BID_TEN2K256 (UInt64.ofInt (toI 0x12))).w1)) then pure true else (do pure ((← (if (C4.w1 == (← tbl256 Dec.Gen.BID_TEN2K256 (UInt64.ofInt (toI 0x12))).w1) then (do pure (decide (C4.w0 < (← tbl256 Dec.Gen.BID_TEN2K256 (UInt64.ofInt (toI 0x12))).w0))) else pure false)))))))) else pure false)))))))) else pure false)) then 0x39 else 0x3a)
            else
              C4 := (← mul_128x128_to_256 C1 C2)
              q4 := (if (← (if (decide (C4.w3 < (← tbl256 Dec.Gen.BID_TEN2K256 (UInt64.ofInt (toI (((q1 + q2) - (0x28 : Int32)))))).w3)) then pure true else (do pure ((← (if (C4.w3 == (← tbl256 Dec.Gen.BID_TEN2K256 (UInt64.ofInt (toI (((q1 + q2) - (0x28 : Int32)))))).w3) then (do pure ((← (if (decide (C4.w2 < (← tbl256 Dec.Gen.BID_TEN2K256 (UInt64.ofInt (toI (((q1 + q2) - (0x28 : Int32)))))).w2)) then pure true else (do pure ((← (if (C4.w2 == (← tbl256 Dec.Gen.BID_TEN2K256 (UInt64.ofInt (toI (((q1 + q2) - (0x28 : Int32)))))).w2) then (do pure ((← (if (decide (C4.w1 < (← tbl256 Dec.Gen.BID_TEN2K256 (UInt64.ofInt (toI (((q1 + q2) - (0x28 : Int32)))))).w1)) then pure true else (do pure ((← (if (C4.w1 == (← tbl256 Dec.Gen.BID_TEN2K256 (UInt64.ofInt (toI (((q1 + q2) - (0x28 : Int32)))))).w1) then (do pure (decide (C4.w0 < (← tbl256 Dec.Gen.BID_TEN2K256 (UInt64.ofInt (toI (((q1 + q2) - (0x28 : Int32)))))).w0))) else pure false)))))))) else pure false)))))))) else pure false)))))) then ((q1 + q2) - (1 : Int32)) else (q1 + q2))
  k e3 e4 C4 q4

/-- lines 392–449 (`z = 0` path): the product brought to at most 34 digits — rounded to nearest-even by a `bid_round*`
helper if it is longer (`incr_exp`: the rounding carried), or scaled up when its exponent is above `emax` and there is
room; the continuation gets the coefficient, `e4`, `q4`, the status word, `incr_exp` and the four indicators -/
def round1K (C4 : U256) (q4_ e4_ : Int32) (pfpsf_ : UInt32)
    (k : U128 → Int32 → Int32 → UInt32 → Bool → Bool → Bool → Bool → Bool → Except String Out) : Except String Out := do
  let mut pfpsf : UInt32 := pfpsf_
  let mut res : U128 := (⟨(0xbaddbaddbaddbadd : UInt64), (0xbaddbaddbaddbadd : UInt64)⟩ : U128)
  let mut q4 : Int32 := q4_
  let mut e4 : Int32 := e4_
  let mut scale : Int32 := default
  let mut x0 : Int32 := default
  let mut p34 : Int32 := c_P34
  let mut is_midpoint_lt_even : Bool := false
  let mut is_midpoint_gt_even : Bool := false
  let mut is_inexact_lt_midpoint : Bool := false
  let mut is_inexact_gt_midpoint : Bool := false
  let mut incr_exp : Bool := false
  let mut P128 : U128 := default
  let mut P192 : U192 := default
  let mut R192 : U192 := default
  let mut R256 : U256 := default
  if (decide (q4 > p34)) then
    x0 := (q4 - p34)
    if (decide (q4 ≤ (0x26 : Int32))) then
      P128 := { P128 with w1 := C4.w1 }
      P128 := { P128 with w0 := C4.w0 }
      let t__6 ← bid_round128_19_38 q4 x0 P128 incr_exp is_midpoint_lt_even is_midpoint_gt_even is_inexact_lt_midpoint is_inexact_gt_midpoint
      incr_exp := t__6.2.1
      is_midpoint_lt_even := t__6.2.2.1
      is_midpoint_gt_even := t__6.2.2.2.1
      is_inexact_lt_midpoint := t__6.2.2.2.2.1
      is_inexact_gt_midpoint := t__6.2.2.2.2.2
      res := t__6.1
    else
      if (decide (q4 ≤ (0x39 : Int32))) then
        P192 := { P192 with w2 := C4.w2 }
        P192 := { P192 with w1 := C4.w1 }
        P192 := { P192 with w0 := C4.w0 }
        let t__7 ← bid_round192_39_57 q4 x0 P192 incr_exp is_midpoint_lt_even is_midpoint_gt_even is_inexact_lt_midpoint is_inexact_gt_midpoint
        incr_exp := t__7.2.1
        is_midpoint_lt_even := t__7.2.2.1
        is_midpoint_gt_even := t__7.2.2.2.1
        is_inexact_lt_midpoint := t__7.2.2.2.2.1
        is_inexact_gt_midpoint := t__7.2.2.2.2.2
        R192 := t__7.1
        res := { res with w0 := R192.w0 }
        res := { res with w1 := R192.w1 }
      else
        let t__8 ← bid_round256_58_76 q4 x0 C4 incr_exp is_midpoint_lt_even is_midpoint_gt_even is_inexact_lt_midpoint is_inexact_gt_midpoint
        incr_exp := t__8.2.1
        is_midpoint_lt_even := t__8.2.2.1
        is_midpoint_gt_even := t__8.2.2.2.1
        is_inexact_lt_midpoint := t__8.2.2.2.2.1
        is_inexact_gt_midpoint := t__8.2.2.2.2.2
        R256 := t__8.1
        res := { res with w0 := R256.w0 }
        res := { res with w1 := R256.w1 }
    e4 := (e4 + x0)
    q4 := p34
    if incr_exp then
      e4 := (e4 + 1)
      if ((q4 + e4) == (c_EXP_MIN_UNBIASED + p34)) then
        pfpsf := (pfpsf ||| (c_StatusFlags_BID_INEXACT_EXCEPTION ||| c_StatusFlags_BID_UNDERFLOW_EXCEPTION))
  else
    if (((decide ((q4 + e4) ≤ (p34 + c_EXP_MAX_UNBIASED)))) && ((decide (e4 > c_EXP_MAX_UNBIASED)))) then
      scale := (e4 - c_EXP_MAX_UNBIASED)
      if (decide (q4 ≤ (0x13 : Int32))) then
        if (decide (scale ≤ (0x13 : Int32))) then
          res := (← mul_64x64_to_128MACH C4.w0 (← tbl64 Dec.Gen.BID_TEN2K64 (UInt64.ofInt (toI scale))))
        else
          res := (← mul_128x64_to_128 C4.w0 (← tbl128 Dec.Gen.BID_TEN2K128 (UInt64.ofInt (toI ((scale - (0x14 : Int32)))))))
      else
        let mut tmp_9 : U128 := (⟨C4.w0, C4.w1⟩ : U128)
        res := (← mul_128x64_to_128 (← tbl64 Dec.Gen.BID_TEN2K64 (UInt64.ofInt (toI scale))) tmp_9)
      e4 := (e4 - scale)
      q4 := (q4 + scale)
    else
      res := { res with w1 := C4.w1 }
      res := { res with w0 := C4.w0 }
  k res e4 q4 pfpsf incr_exp is_midpoint_lt_even is_midpoint_gt_even is_inexact_lt_midpoint is_inexact_gt_midpoint

/-- lines 450–465: overflow of the result rounded to nearest-even -/
def ovfK (res_ : U128) (e4 q4 : Int32) (pfpsf_ save_fpsf : UInt32) (p_sign : UInt64) (rnd_mode : RoundingMode)
    (is_midpoint_lt_even is_midpoint_gt_even is_inexact_lt_midpoint is_inexact_gt_midpoint : Bool)
    (k : Except String Out) : Except String Out := do
  let mut ptr_is_midpoint_lt_even : Bool := false
  let mut ptr_is_midpoint_gt_even : Bool := false
  let mut ptr_is_inexact_lt_midpoint : Bool := false
  let mut ptr_is_inexact_gt_midpoint : Bool := false
  let mut pfpsf : UInt32 := pfpsf_
  let mut res : U128 := res_
  let mut p34 : Int32 := c_P34
  if (decide ((q4 + e4) > (p34 + c_EXP_MAX_UNBIASED))) then
    if (rnd_mode == RoundingMode.NearestEven) then
      res := { res with w1 := (p_sign ||| (0x7800000000000000 : UInt64)) }
      res := { res with w0 := (0 : UInt64) }
      pfpsf := (pfpsf ||| (c_StatusFlags_BID_INEXACT_EXCEPTION ||| c_StatusFlags_BID_OVERFLOW_EXCEPTION))
    else
      res := { res with w1 := (res.w1 ||| p_sign) }
      let t__10 ← bid_rounding_correction rnd_mode is_inexact_lt_midpoint is_inexact_gt_midpoint is_midpoint_lt_even is_midpoint_gt_even e4 res pfpsf
      res := t__10.1
      pfpsf := t__10.2
    pfpsf := (pfpsf ||| save_fpsf)
    ptr_is_midpoint_lt_even := is_midpoint_lt_even
    ptr_is_midpoint_gt_even := is_midpoint_gt_even
    ptr_is_inexact_lt_midpoint := is_inexact_lt_midpoint
    ptr_is_inexact_gt_midpoint := is_inexact_gt_midpoint
    return (res, ptr_is_midpoint_lt_even, ptr_is_midpoint_gt_even, ptr_is_inexact_lt_midpoint, ptr_is_inexact_gt_midpoint, pfpsf)
  k

/-- lines 466–610: the tiny results — a second rounding at the least exponent with the double-rounding repair, or
(exact) the preferred exponent; underflow; the correction for the other rounding modes.  (`P128_`: the scratch variable as
the first rounding left it; both its words are overwritten before it is read.) -/
def tinyK (res_ : U128) (e4_ q4 e3 : Int32) (pfpsf_ save_fpsf : UInt32) (p_sign : UInt64) (rnd_mode : RoundingMode)
    (incr_exp_ is_midpoint_lt_even_ is_midpoint_gt_even_ is_inexact_lt_midpoint_ is_inexact_gt_midpoint_ : Bool)
    (k : Except String Out) : Except String Out := do
  let mut ptr_is_midpoint_lt_even : Bool := false
  let mut ptr_is_midpoint_gt_even : Bool := false
  let mut ptr_is_inexact_lt_midpoint : Bool := false
  let mut ptr_is_inexact_gt_midpoint : Bool := false
  let mut pfpsf : UInt32 := pfpsf_
  let mut res : U128 := res_
  let mut e4 : Int32 := e4_
  let mut scale : Int32 := default
  let mut ind : Int32 := default
  let mut x0 : Int32 := default
  let mut p34 : Int32 := c_P34
  let mut is_midpoint_lt_even : Bool := is_midpoint_lt_even_
  let mut is_midpoint_gt_even : Bool := is_midpoint_gt_even_
  let mut is_inexact_lt_midpoint : Bool := is_inexact_lt_midpoint_
  let mut is_inexact_gt_midpoint : Bool := is_inexact_gt_midpoint_
  let mut is_midpoint_lt_even0 : Bool := default
  let mut is_midpoint_gt_even0 : Bool := default
  let mut is_inexact_lt_midpoint0 : Bool := default
  let mut is_inexact_gt_midpoint0 : Bool := default
  let mut incr_exp : Bool := incr_exp_
  let mut lt_half_ulp : Bool := false
  let mut eq_half_ulp : Bool := false
  let mut is_tiny : Bool := false
  let mut R64 : UInt64 := default
  let mut P128 : U128 := default
  if (decide ((q4 + e4) < (c_EXP_MIN_UNBIASED + p34))) then
    is_tiny := true
    if (decide (e4 < c_EXP_MIN_UNBIASED)) then
      x0 := (c_EXP_MIN_UNBIASED - e4)
      is_inexact_lt_midpoint0 := is_inexact_lt_midpoint
      is_inexact_gt_midpoint0 := is_inexact_gt_midpoint
      is_midpoint_lt_even0 := is_midpoint_lt_even
      is_midpoint_gt_even0 := is_midpoint_gt_even
      is_inexact_lt_midpoint := false
      is_inexact_gt_midpoint := false
      is_midpoint_lt_even := false
      is_midpoint_gt_even := false
      let t__11 : Int32 := x0
      if (let value := t__11; (decide (value < q4))) then
        let mut value : Int32 := t__11
        if (decide (q4 ≤ (0x12 : Int32))) then
          let t__12 ← bid_round64_2_18 q4 x0 res.w0 incr_exp is_midpoint_lt_even is_midpoint_gt_even is_inexact_lt_midpoint is_inexact_gt_midpoint
          incr_exp := t__12.2.1
          is_midpoint_lt_even := t__12.2.2.1
          is_midpoint_gt_even := t__12.2.2.2.1
          is_inexact_lt_midpoint := t__12.2.2.2.2.1
          is_inexact_gt_midpoint := t__12.2.2.2.2.2
          R64 := t__12.1
          if incr_exp then
            R64 := (← tbl64 Dec.Gen.BID_TEN2K64 (UInt64.ofInt (toI ((q4 - x0)))))
          res := { res with w0 := R64 }
        else
          P128 := { P128 with w1 := res.w1 }
          P128 := { P128 with w0 := res.w0 }
          let t__13 ← bid_round128_19_38 q4 x0 P128 incr_exp is_midpoint_lt_even is_midpoint_gt_even is_inexact_lt_midpoint is_inexact_gt_midpoint
          incr_exp := t__13.2.1
          is_midpoint_lt_even := t__13.2.2.1
          is_midpoint_gt_even := t__13.2.2.2.1
          is_inexact_lt_midpoint := t__13.2.2.2.2.1
          is_inexact_gt_midpoint := t__13.2.2.2.2.2
          res := t__13.1
          if incr_exp then
            if (decide ((q4 - x0) ≤ (0x13 : Int32))) then
              res := { res with w0 := (← tbl64 Dec.Gen.BID_TEN2K64 (UInt64.ofInt (toI ((q4 - x0))))) }
            else
              res := { res with w0 := (← tbl128 Dec.Gen.BID_TEN2K128 (UInt64.ofInt (toI (((q4 - x0) - (0x14 : Int32)))))).w0 }
              res := { res with w1 := (← tbl128 Dec.Gen.BID_TEN2K128 (UInt64.ofInt (toI (((q4 - x0) - (0x14 : Int32)))))).w1 }
        e4 := (e4 + x0)
      else
        if (let value := t__11; (value == q4)) then
          let mut value : Int32 := t__11
          if (decide (q4 ≤ (0x13 : Int32))) then
            let t__14 : UInt64 := (← tbl64 Dec.Gen.BID_MIDPOINT64 (UInt64.ofInt (toI ((q4 - (1 : Int32))))))
            if (let value := t__14; (decide (res.w0 < value))) then
              let mut value_15 : UInt64 := t__14
              lt_half_ulp := true
              is_inexact_lt_midpoint := true
            else
              if (let value := t__14; (res.w0 == value)) then
                let mut value_16 : UInt64 := t__14
                eq_half_ulp := true
                is_midpoint_gt_even := true
              else
                is_inexact_gt_midpoint := true
          else
            if (← (if (decide (res.w1 < (← tbl128 Dec.Gen.BID_MIDPOINT128 (UInt64.ofInt (toI ((q4 - (0x14 : Int32)))))).w1)) then pure true else (do pure ((← (if (res.w1 == (← tbl128 Dec.Gen.BID_MIDPOINT128 (UInt64.ofInt (toI ((q4 - (0x14 : Int32)))))).w1) then (do pure (decide (res.w0 < (← tbl128 Dec.Gen.BID_MIDPOINT128 (UInt64.ofInt (toI ((q4 - (0x14 : Int32)))))).w0))) else pure false)))))) then
              lt_half_ulp := true
              is_inexact_lt_midpoint := true
            else
              if (← (if (res.w1 == (← tbl128 Dec.Gen.BID_MIDPOINT128 (UInt64.ofInt (toI ((q4 - (0x14 : Int32)))))).w1) then (do pure (res.w0 == (← tbl128 Dec.Gen.BID_MIDPOINT128 (UInt64.ofInt (toI ((q4 - (0x14 : Int32)))))).w0)) else pure false)) then
                eq_half_ulp := true
                is_midpoint_gt_even := true
              else
                is_inexact_gt_midpoint := true
          if (lt_half_ulp || eq_half_ulp) then
            res := { res with w1 := (0 : UInt64) }
            res := { res with w0 := (0 : UInt64) }
          else
            res := { res with w1 := (0 : UInt64) }
            res := { res with w0 := (1 : UInt64) }
          e4 := c_EXP_MIN_UNBIASED
        else
          res := { res with w1 := (0 : UInt64) }
          res := { res with w0 := (0 : UInt64) }
          e4 := c_EXP_MIN_UNBIASED
          is_inexact_lt_midpoint := true
      if (((is_inexact_gt_midpoint0 || is_midpoint_lt_even0)) && is_midpoint_lt_even) then
        res := { res with w0 := (res.w0 - 1) }
        if (res.w0 == (0xffffffffffffffff : UInt64)) then
          res := { res with w1 := (res.w1 - 1) }
        is_midpoint_lt_even := false
        is_inexact_lt_midpoint := true
      else
        if (((is_inexact_lt_midpoint0 || is_midpoint_gt_even0)) && is_midpoint_gt_even) then
          res := { res with w0 := (res.w0 + 1) }
          if (res.w0 == (0 : UInt64)) then
            res := { res with w1 := (res.w1 + 1) }
          is_midpoint_gt_even := false
          is_inexact_gt_midpoint := true
        else
          if ((((!is_midpoint_lt_even) && (!is_midpoint_gt_even)) && (!is_inexact_lt_midpoint)) && (!is_inexact_gt_midpoint)) then
            if (is_inexact_gt_midpoint0 || is_midpoint_lt_even0) then
              is_inexact_gt_midpoint := true
            if (is_inexact_lt_midpoint0 || is_midpoint_gt_even0) then
              is_inexact_lt_midpoint := true
          else
            if (is_midpoint_gt_even && ((is_inexact_gt_midpoint0 || is_midpoint_lt_even0))) then
              is_inexact_lt_midpoint := true
              is_inexact_gt_midpoint := false
              is_midpoint_lt_even := false
              is_midpoint_gt_even := false
            else
              if (is_midpoint_lt_even && ((is_inexact_lt_midpoint0 || is_midpoint_gt_even0))) then
                is_inexact_lt_midpoint := false
                is_inexact_gt_midpoint := true
                is_midpoint_lt_even := false
                is_midpoint_gt_even := false
              else
                pure ()
    else
      if (decide (e3 < e4)) then
        scale := (p34 - q4)
        ind := (e4 - e3)
        if (decide (ind < scale)) then
          scale := ind
        if (scale == (0 : Int32)) then
          pure ()
        else
          if (decide (q4 ≤ (0x13 : Int32))) then
            if (decide (scale ≤ (0x13 : Int32))) then
              res := (← mul_64x64_to_128MACH res.w0 (← tbl64 Dec.Gen.BID_TEN2K64 (UInt64.ofInt (toI scale))))
            else
              res := (← mul_128x64_to_128 res.w0 (← tbl128 Dec.Gen.BID_TEN2K128 (UInt64.ofInt (toI ((scale - (0x14 : Int32)))))))
          else
            res := (← mul_128x64_to_128 (← tbl64 Dec.Gen.BID_TEN2K64 (UInt64.ofInt (toI scale))) res)
        e4 := (e4 - scale)
    if (((is_inexact_lt_midpoint || is_inexact_gt_midpoint) || is_midpoint_lt_even) || is_midpoint_gt_even) then
      pfpsf := (pfpsf ||| c_StatusFlags_BID_INEXACT_EXCEPTION)
      pfpsf := (pfpsf ||| c_StatusFlags_BID_UNDERFLOW_EXCEPTION)
    res := { res with w1 := (res.w1 ||| (p_sign ||| ((((UInt64.ofInt (toI ((e4 + (0x1820 : Int32)))))) <<< 0x31)))) }
    if (rnd_mode != RoundingMode.NearestEven) then
      let t__17 ← bid_rounding_correction rnd_mode is_inexact_lt_midpoint is_inexact_gt_midpoint is_midpoint_lt_even is_midpoint_gt_even e4 res pfpsf
      res := t__17.1
      pfpsf := t__17.2
    pfpsf := (pfpsf ||| save_fpsf)
    ptr_is_midpoint_lt_even := is_midpoint_lt_even
    ptr_is_midpoint_gt_even := is_midpoint_gt_even
    ptr_is_inexact_lt_midpoint := is_inexact_lt_midpoint
    ptr_is_inexact_gt_midpoint := is_inexact_gt_midpoint
    return (res, ptr_is_midpoint_lt_even, ptr_is_midpoint_gt_even, ptr_is_inexact_lt_midpoint, ptr_is_inexact_gt_midpoint, pfpsf)
  k

/-- lines 611–646: the result in the normal range — packed, corrected for the rounding mode, flags, and (exact results)
the preferred exponent -/
def normalK (res_ : U128) (e4 q4 : Int32) (z_exp : UInt64) (pfpsf_ save_fpsf : UInt32) (p_sign : UInt64)
    (rnd_mode : RoundingMode)
    (is_midpoint_lt_even is_midpoint_gt_even is_inexact_lt_midpoint is_inexact_gt_midpoint : Bool) : Except String Out := do
  let mut ptr_is_midpoint_lt_even : Bool := false
  let mut ptr_is_midpoint_gt_even : Bool := false
  let mut ptr_is_inexact_lt_midpoint : Bool := false
  let mut ptr_is_inexact_gt_midpoint : Bool := false
  let mut pfpsf : UInt32 := pfpsf_
  let mut res : U128 := res_
  let mut p_exp : UInt64 := default
  let mut C3 : U128 := default
  let mut scale : Int32 := default
  let mut ind : Int32 := default
  let mut p34 : Int32 := c_P34
  let mut is_tiny : Bool := false
  res := { res with w1 := (res.w1 ||| (p_sign ||| ((((UInt64.ofInt (toI ((e4 + (0x1820 : Int32)))))) <<< 0x31)))) }
  if (rnd_mode != RoundingMode.NearestEven) then
    let t__18 ← bid_rounding_correction rnd_mode is_inexact_lt_midpoint is_inexact_gt_midpoint is_midpoint_lt_even is_midpoint_gt_even e4 res pfpsf
    res := t__18.1
    pfpsf := t__18.2
    if ((e4 == c_EXP_MIN_UNBIASED) && (((decide (((res.w1 &&& c_MASK_COEFF)) < (0x314dc6448d93 : UInt64))) || (((((res.w1 &&& c_MASK_COEFF)) == (0x314dc6448d93 : UInt64)) && (decide (res.w0 < (0x38c15b0a00000000 : UInt64)))))))) then
      is_tiny := true
  if (((is_inexact_lt_midpoint || is_inexact_gt_midpoint) || is_midpoint_lt_even) || is_midpoint_gt_even) then
    pfpsf := (pfpsf ||| c_StatusFlags_BID_INEXACT_EXCEPTION)
    if is_tiny then
      pfpsf := (pfpsf ||| c_StatusFlags_BID_UNDERFLOW_EXCEPTION)
  if (((pfpsf &&& c_StatusFlags_BID_INEXACT_EXCEPTION)) == (0 : UInt32)) then
    p_exp := (res.w1 &&& c_MASK_EXP)
    if (decide (z_exp < p_exp)) then
      C3 := { C3 with w1 := (res.w1 &&& c_MASK_COEFF) }
      C3 := { C3 with w0 := res.w0 }
      scale := (p34 - q4)
      ind := (Int32.ofInt (toI ((((p_exp - z_exp)) >>> 0x31))))
      if (decide (ind < scale)) then
        scale := ind
      p_exp := (p_exp - (((UInt64.ofInt (toI scale))) <<< 0x31))
      if (scale == (0 : Int32)) then
        pure ()
      else
        if (decide (q4 ≤ (0x13 : Int32))) then
          res := (← (if (decide (scale ≤ (0x13 : Int32))) then (do pure (← mul_64x64_to_128MACH C3.w0 (← tbl64 Dec.Gen.BID_TEN2K64 (UInt64.ofInt (toI scale))))) else (do pure (← mul_128x64_to_128 C3.w0 (← tbl128 Dec.Gen.BID_TEN2K128 (UInt64.ofInt (toI ((scale - (0x14 : Int32))))))))))
          res := { res with w1 := (res.w1 ||| (p_sign ||| ((p_exp &&& c_MASK_EXP)))) }
        else
          res := (← mul_128x64_to_128 (← tbl64 Dec.Gen.BID_TEN2K64 (UInt64.ofInt (toI scale))) C3)
          res := { res with w1 := (res.w1 ||| (p_sign ||| ((p_exp &&& c_MASK_EXP)))) }
  pfpsf := (pfpsf ||| save_fpsf)
  ptr_is_midpoint_lt_even := is_midpoint_lt_even
  ptr_is_midpoint_gt_even := is_midpoint_gt_even
  ptr_is_inexact_lt_midpoint := is_inexact_lt_midpoint
  ptr_is_inexact_gt_midpoint := is_inexact_gt_midpoint
  return (res, ptr_is_midpoint_lt_even, ptr_is_midpoint_gt_even, ptr_is_inexact_lt_midpoint, ptr_is_inexact_gt_midpoint, pfpsf)
/-- the type of the continuation of the front end (the case blocks).  The front end hands over — all three operands
finite, product and addend non-zero — the rounding mode, the status word (untouched), the sign words of `z` and of the
product, the exponent fields of `z` and of the product (still shifted left 49 bits), the coefficient `C3` of `z`, the exact
product `C4`, the digit counts `q3`, `q4` and the unbiased exponents `e3`, `e4`.  Everything else the cases use starts from
its initial value. -/
abbrev Cont := RoundingMode → UInt32 → UInt64 → UInt64 → UInt64 → UInt64 → U128 → U256 → Int32 → Int32 → Int32 → Int32 →
  F64U → Except String Out

/-- lines 389–646: the addend is zero — the product, rounded once, is the answer (this is all of multiplication) -/
def z0K (C3 : U128) (C4 : U256) (q4 e3 e4 : Int32) (z_exp p_sign : UInt64) (rnd_mode : RoundingMode) (pfpsf : UInt32)
    (k : Except String Out) : Except String Out :=
  if ((C3.w1 == (0 : UInt64)) && (C3.w0 == (0 : UInt64))) then
    round1K C4 q4 e4 (0 : UInt32) (fun res e4 q4 pf incr mle mge ilm igm =>
      ovfK res e4 q4 pf pfpsf p_sign rnd_mode mle mge ilm igm
        (tinyK res e4 q4 e3 pf pfpsf p_sign rnd_mode incr mle mge ilm igm
          (normalK res e4 q4 z_exp pf pfpsf p_sign rnd_mode mle mge ilm igm)))
  else k

/-- the front end: NaNs, unpacking, infinities, zeros, digit counts, the exact product, the `z = 0` path; what remains
(three finite operands, product and addend non-zero) goes to the continuation -/
def frontK (x y z : U128) (rnd_mode : RoundingMode) (pfpsf : UInt32) (k : Cont) : Except String Out :=
  nanK x y z pfpsf (unpackK x fun x_sign x_exp C1 => unpackK y fun y_sign y_exp C2 => unpackK z fun z_sign z_exp C3 =>
    infK x y z x_sign y_sign z_sign C1 C2 pfpsf fun p_sign =>
    zeroK x_exp y_exp z_exp C1 C2 C3 p_sign z_sign rnd_mode pfpsf fun p_exp =>
    digitsK C1 default fun q1 tmp => digitsK C2 tmp fun q2 tmp => digitsK C3 tmp fun q3 tmp =>
    prodZeroK z C1 C2 C3 z_exp p_exp z_sign q3 pfpsf
      (productK x_exp y_exp z_exp C1 C2 q1 q2 fun e3 e4 C4 q4 =>
        z0K C3 C4 q4 e3 e4 z_exp p_sign rnd_mode pfpsf
          (k rnd_mode pfpsf z_sign p_sign z_exp p_exp C3 C4 q3 q4 e3 e4 tmp)))

/-- lines 647 to the end of the translation (Rust 1776–3935): `delta` and the case analysis `'delta_ge_zero` — the blocks of the
other files (Z, Mid, Swap, Low), here as one literal copy so that `ext_fma_shape` is a definitional equation -/
def caseLoop (ptr_is_midpoint_lt_even_ ptr_is_midpoint_gt_even_ ptr_is_inexact_lt_midpoint_ ptr_is_inexact_gt_midpoint_ : Bool)
    (rnd_mode_ : RoundingMode) (pfpsf_ : UInt32) (z_sign_ p_sign_ z_exp_ p_exp_ : UInt64) (C3_ : U128) (C4_ : U256)
    (q3_ q4_ e3_ e4_ : Int32) (tmp_ : F64U) : Except String Out := do
  let mut ptr_is_midpoint_lt_even : Bool := ptr_is_midpoint_lt_even_
  let mut ptr_is_midpoint_gt_even : Bool := ptr_is_midpoint_gt_even_
  let mut ptr_is_inexact_lt_midpoint : Bool := ptr_is_inexact_lt_midpoint_
  let mut ptr_is_inexact_gt_midpoint : Bool := ptr_is_inexact_gt_midpoint_
  let mut rnd_mode : RoundingMode := rnd_mode_
  let mut pfpsf : UInt32 := pfpsf_
  let mut res : U128 := (⟨(0xbaddbaddbaddbadd : UInt64), (0xbaddbaddbaddbadd : UInt64)⟩ : U128)
  let mut z_sign : UInt64 := z_sign_
  let mut p_sign : UInt64 := p_sign_
  let mut tmp_sign : UInt64 := default
  let mut z_exp : UInt64 := z_exp_
  let mut p_exp : UInt64 := p_exp_
  let mut C3 : U128 := C3_
  let mut C4 : U256 := C4_
  let mut q3 : Int32 := q3_
  let mut q4 : Int32 := q4_
  let mut e3 : Int32 := e3_
  let mut e4 : Int32 := e4_
  let mut scale : Int32 := default
  let mut ind : Int32 := default
  let mut delta : Int32 := default
  let mut x0 : Int32 := default
  let mut p34 : Int32 := c_P34
  let mut tmp : F64U := tmp_
  let mut is_midpoint_lt_even : Bool := false
  let mut is_midpoint_gt_even : Bool := false
  let mut is_inexact_lt_midpoint : Bool := false
  let mut is_inexact_gt_midpoint : Bool := false
  let mut is_midpoint_lt_even0 : Bool := default
  let mut is_midpoint_gt_even0 : Bool := default
  let mut is_inexact_lt_midpoint0 : Bool := default
  let mut is_inexact_gt_midpoint0 : Bool := default
  let mut incr_exp : Bool := false
  let mut lsb : Bool := default
  let mut lt_half_ulp : Bool := false
  let mut eq_half_ulp : Bool := false
  let mut gt_half_ulp : Bool := false
  let mut is_tiny : Bool := false
  let mut R64 : UInt64 := default
  let mut tmp64 : UInt64 := default
  let mut P128 : U128 := default
  let mut R128 : U128 := default
  let mut P192 : U192 := default
  let mut R192 : U192 := default
  let mut R256 : U256 := default
  delta := (((q3 + e3) - q4) - e4)
  let mut brk__19 : Bool := false
  for _ in [0:4096] do
    if (decide (delta ≥ (0 : Int32))) then
      if ((decide (p34 ≤ (delta - (1 : Int32)))) || (((p34 == delta) && (decide ((e3 + (0x1820 : Int32)) < (p34 - q3)))))) then
        if ((decide (((q3 + e3)) > ((p34 + c_EXP_MAX_UNBIASED)))) && (decide (p34 ≤ (delta - (1 : Int32))))) then
          let mut C4_half : U256 := (← (if (decide (q4 ≤ (0x13 : Int32))) then (do pure (⟨(← tbl64 Dec.Gen.BID_MIDPOINT64 (UInt64.ofInt (toI ((q4 - (1 : Int32)))))), (0 : UInt64), (0 : UInt64), (0 : UInt64)⟩ : U256)) else (do pure (← (if (decide (q4 ≤ (0x26 : Int32))) then (do pure (⟨(← tbl128 Dec.Gen.BID_MIDPOINT128 (UInt64.ofInt (toI ((q4 - (0x14 : Int32)))))).w0, (← tbl128 Dec.Gen.BID_MIDPOINT128 (UInt64.ofInt (toI ((q4 - (0x14 : Int32)))))).w1, (0 : UInt64), (0 : UInt64)⟩ : U256)) else (do pure (← (if (decide (q4 ≤ (0x3a : Int32))) then (do pure (⟨(← tbl192 Dec.Gen.BID_MIDPOINT192 (UInt64.ofInt (toI ((q4 - (0x27 : Int32)))))).w0, (← tbl192 Dec.Gen.BID_MIDPOINT192 (UInt64.ofInt (toI ((q4 - (0x27 : Int32)))))).w1, (← tbl192 Dec.Gen.BID_MIDPOINT192 (UInt64.ofInt (toI ((q4 - (0x27 : Int32)))))).w2, (0 : UInt64)⟩ : U256)) else (do pure (← tbl256 Dec.Gen.BID_MIDPOINT256 (UInt64.ofInt (toI ((q4 - (0x3b : Int32)))))))))))))))
          if ((← (if ((((((rnd_mode == RoundingMode.NearestEven) || (rnd_mode == RoundingMode.NearestAway))) && (p_sign != z_sign)) && (delta == (p34 + (1 : Int32)))) && (((q3 + e3)) == (((p34 + c_EXP_MAX_UNBIASED) + (1 : Int32))))) then (do pure ((← (if (← (if ((← (if (decide (q3 ≤ (0x13 : Int32))) then (do pure (C3.w0 == (← tbl64 Dec.Gen.BID_TEN2K64 (UInt64.ofInt (toI ((q3 - (1 : Int32)))))))) else pure false))) then pure true else (do pure ((← (if ((q3 == (0x14 : Int32)) && (C3.w1 == (0 : UInt64))) then (do pure (C3.w0 == (← tbl64 Dec.Gen.BID_TEN2K64 (UInt64.ofInt (toI 0x13))))) else pure false)))))) then pure true else (do pure ((← (if (← (if (decide (q3 ≥ (0x15 : Int32))) then (do pure (C3.w1 == (← tbl128 Dec.Gen.BID_TEN2K128 (UInt64.ofInt (toI ((q3 - (0x15 : Int32)))))).w1)) else pure false)) then (do pure (C3.w0 == (← tbl128 Dec.Gen.BID_TEN2K128 (UInt64.ofInt (toI ((q3 - (0x15 : Int32)))))).w0)) else pure false)))))))) else pure false)) && (((decide (C4.w3 > C4_half.w3)) || (((C4.w3 == C4_half.w3) && (((decide (C4.w2 > C4_half.w2)) || (((C4.w2 == C4_half.w2) && (((decide (C4.w1 > C4_half.w1)) || (((C4.w1 == C4_half.w1) && (decide (C4.w0 > C4_half.w0))))))))))))))) then
            res := { res with w1 := (z_sign ||| (0x5fffed09bead87c0 : UInt64)) }
            res := { res with w0 := (0x378d8e63ffffffff : UInt64) }
            is_inexact_lt_midpoint := true
            pfpsf := (pfpsf ||| c_StatusFlags_BID_INEXACT_EXCEPTION)
          else
            if (rnd_mode == RoundingMode.NearestEven) then
              res := { res with w1 := (z_sign ||| (0x7800000000000000 : UInt64)) }
              res := { res with w0 := (0 : UInt64) }
              pfpsf := (pfpsf ||| (c_StatusFlags_BID_INEXACT_EXCEPTION ||| c_StatusFlags_BID_OVERFLOW_EXCEPTION))
            else
              if (p_sign == z_sign) then
                is_inexact_lt_midpoint := true
              else
                is_inexact_gt_midpoint := true
              scale := (p34 - q3)
              if (scale == (0 : Int32)) then
                res := { res with w1 := (z_sign ||| C3.w1) }
                res := { res with w0 := C3.w0 }
              else
                if (decide (q3 ≤ (0x13 : Int32))) then
                  if (decide (scale ≤ (0x13 : Int32))) then
                    res := (← mul_64x64_to_128MACH C3.w0 (← tbl64 Dec.Gen.BID_TEN2K64 (UInt64.ofInt (toI scale))))
                  else
                    res := (← mul_128x64_to_128 C3.w0 (← tbl128 Dec.Gen.BID_TEN2K128 (UInt64.ofInt (toI ((scale - (0x14 : Int32)))))))
                else
                  res := (← mul_128x64_to_128 (← tbl64 Dec.Gen.BID_TEN2K64 (UInt64.ofInt (toI scale))) C3)
              e3 := (e3 - scale)
              res := { res with w1 := (res.w1 ||| z_sign) }
              let t__20 ← bid_rounding_correction rnd_mode is_inexact_lt_midpoint is_inexact_gt_midpoint is_midpoint_lt_even is_midpoint_gt_even e3 res pfpsf
              res := t__20.1
              pfpsf := t__20.2
          ptr_is_midpoint_lt_even := is_midpoint_lt_even
          ptr_is_midpoint_gt_even := is_midpoint_gt_even
          ptr_is_inexact_lt_midpoint := is_inexact_lt_midpoint
          ptr_is_inexact_gt_midpoint := is_inexact_gt_midpoint
          return (res, ptr_is_midpoint_lt_even, ptr_is_midpoint_gt_even, ptr_is_inexact_lt_midpoint, ptr_is_inexact_gt_midpoint, pfpsf)
        if (decide (q3 < p34)) then
          scale := (p34 - q3)
          ind := (e3 + (0x1820 : Int32))
          if (decide (ind < scale)) then
            scale := ind
          if (scale == (0 : Int32)) then
            res := { res with w1 := C3.w1 }
            res := { res with w0 := C3.w0 }
          else
            if (decide (q3 ≤ (0x13 : Int32))) then
              res := (← (if (decide (scale ≤ (0x13 : Int32))) then (do pure (← mul_64x64_to_128MACH C3.w0 (← tbl64 Dec.Gen.BID_TEN2K64 (UInt64.ofInt (toI scale))))) else (do pure (← mul_128x64_to_128 C3.w0 (← tbl128 Dec.Gen.BID_TEN2K128 (UInt64.ofInt (toI ((scale - (0x14 : Int32))))))))))
            else
              res := (← mul_128x64_to_128 (← tbl64 Dec.Gen.BID_TEN2K64 (UInt64.ofInt (toI scale))) C3)
          z_exp := (z_exp - (((UInt64.ofInt (toI scale))) <<< 0x31))
          e3 := (e3 - scale)
          res := { res with w1 := (res.w1 ||| (z_sign ||| ((z_exp &&& c_MASK_EXP)))) }
          if (decide ((scale + q3) < p34)) then
            pfpsf := (pfpsf ||| c_StatusFlags_BID_UNDERFLOW_EXCEPTION)
        else
          scale := (0 : Int32)
          res := { res with w1 := ((z_sign ||| ((((UInt64.ofInt (toI ((e3 + (0x1820 : Int32)))))) <<< 0x31))) ||| C3.w1) }
          res := { res with w0 := C3.w0 }
        if (((p_sign != z_sign)) && ((delta == (((q3 + scale) + (1 : Int32)))))) then
          if (← (if (← (if ((← (if (decide (q3 ≤ (0x13 : Int32))) then (do pure (C3.w0 != (← tbl64 Dec.Gen.BID_TEN2K64 (UInt64.ofInt (toI ((q3 - (1 : Int32)))))))) else pure false))) then pure true else (do pure ((← (if (q3 == (0x14 : Int32)) then (do pure ((← (if (C3.w1 != (0 : UInt64)) then pure true else (do pure (C3.w0 != (← tbl64 Dec.Gen.BID_TEN2K64 (UInt64.ofInt (toI 0x13))))))))) else pure false)))))) then pure true else (do pure ((← (if (decide (q3 ≥ (0x15 : Int32))) then (do pure ((← (if (C3.w1 != (← tbl128 Dec.Gen.BID_TEN2K128 (UInt64.ofInt (toI ((q3 - (0x15 : Int32)))))).w1) then pure true else (do pure (C3.w0 != (← tbl128 Dec.Gen.BID_TEN2K128 (UInt64.ofInt (toI ((q3 - (0x15 : Int32)))))).w0)))))) else pure false)))))) then
            is_inexact_gt_midpoint := true
          else
            if (q4 == (1 : Int32)) then
              R64 := C4.w0
            else
              if (decide (q4 ≤ (0x12 : Int32))) then
                let t__21 ← bid_round64_2_18 q4 (q4 - (1 : Int32)) C4.w0 incr_exp is_midpoint_lt_even is_midpoint_gt_even is_inexact_lt_midpoint is_inexact_gt_midpoint
                incr_exp := t__21.2.1
                is_midpoint_lt_even := t__21.2.2.1
                is_midpoint_gt_even := t__21.2.2.2.1
                is_inexact_lt_midpoint := t__21.2.2.2.2.1
                is_inexact_gt_midpoint := t__21.2.2.2.2.2
                R64 := t__21.1
              else
                if (decide (q4 ≤ (0x26 : Int32))) then
                  P128 := { P128 with w1 := C4.w1 }
                  P128 := { P128 with w0 := C4.w0 }
                  let t__22 ← bid_round128_19_38 q4 (q4 - (1 : Int32)) P128 incr_exp is_midpoint_lt_even is_midpoint_gt_even is_inexact_lt_midpoint is_inexact_gt_midpoint
                  incr_exp := t__22.2.1
                  is_midpoint_lt_even := t__22.2.2.1
                  is_midpoint_gt_even := t__22.2.2.2.1
                  is_inexact_lt_midpoint := t__22.2.2.2.2.1
                  is_inexact_gt_midpoint := t__22.2.2.2.2.2
                  R128 := t__22.1
                  R64 := R128.w0
                else
                  if (decide (q4 ≤ (0x39 : Int32))) then
                    P192 := { P192 with w2 := C4.w2 }
                    P192 := { P192 with w1 := C4.w1 }
                    P192 := { P192 with w0 := C4.w0 }
                    let t__23 ← bid_round192_39_57 q4 (q4 - (1 : Int32)) P192 incr_exp is_midpoint_lt_even is_midpoint_gt_even is_inexact_lt_midpoint is_inexact_gt_midpoint
                    incr_exp := t__23.2.1
                    is_midpoint_lt_even := t__23.2.2.1
                    is_midpoint_gt_even := t__23.2.2.2.1
                    is_inexact_lt_midpoint := t__23.2.2.2.2.1
                    is_inexact_gt_midpoint := t__23.2.2.2.2.2
                    R192 := t__23.1
                    R64 := R192.w0
                  else
                    let t__24 ← bid_round256_58_76 q4 (q4 - (1 : Int32)) C4 incr_exp is_midpoint_lt_even is_midpoint_gt_even is_inexact_lt_midpoint is_inexact_gt_midpoint
                    incr_exp := t__24.2.1
                    is_midpoint_lt_even := t__24.2.2.1
                    is_midpoint_gt_even := t__24.2.2.2.1
                    is_inexact_lt_midpoint := t__24.2.2.2.2.1
                    is_inexact_gt_midpoint := t__24.2.2.2.2.2
                    R256 := t__24.1
                    R64 := R256.w0
              if incr_exp then
                R64 := (0xa : UInt64)
            let mut z_at_emin : Bool := (e3 == c_EXP_MIN_UNBIASED)
            if (((((R64 == (5 : UInt64)) && (!is_inexact_lt_midpoint)) && (!is_inexact_gt_midpoint)) && (!is_midpoint_lt_even)) && (!is_midpoint_gt_even)) then
              is_inexact_lt_midpoint := false
              is_inexact_gt_midpoint := false
              is_midpoint_lt_even := true
              is_midpoint_gt_even := false
            else
              if ((((e3 == c_EXP_MIN_UNBIASED)) || (decide (R64 < (5 : UInt64)))) || (((R64 == (5 : UInt64)) && is_inexact_gt_midpoint))) then
                is_inexact_lt_midpoint := false
                is_inexact_gt_midpoint := true
                is_midpoint_lt_even := false
                is_midpoint_gt_even := false
              else
                is_inexact_lt_midpoint := true
                is_inexact_gt_midpoint := false
                is_midpoint_lt_even := false
                is_midpoint_gt_even := false
                if (decide ((q3 + scale) ≤ (0x13 : Int32))) then
                  res := { res with w1 := (0 : UInt64) }
                  res := { res with w0 := (← tbl64 Dec.Gen.BID_TEN2K64 (UInt64.ofInt (toI ((q3 + scale))))) }
                else
                  res := { res with w1 := (← tbl128 Dec.Gen.BID_TEN2K128 (UInt64.ofInt (toI (((q3 + scale) - (0x14 : Int32)))))).w1 }
                  res := { res with w0 := (← tbl128 Dec.Gen.BID_TEN2K128 (UInt64.ofInt (toI (((q3 + scale) - (0x14 : Int32)))))).w0 }
                res := { res with w0 := (res.w0 - 1) }
                z_exp := (z_exp - c_EXP_P1)
                e3 := (e3 - 1)
                res := { res with w1 := (res.w1 ||| (z_sign ||| ((((UInt64.ofInt (toI ((e3 + (0x1820 : Int32)))))) <<< 0x31)))) }
            if z_at_emin then
              pfpsf := (pfpsf ||| c_StatusFlags_BID_UNDERFLOW_EXCEPTION)
          pfpsf := (pfpsf ||| c_StatusFlags_BID_INEXACT_EXCEPTION)
        else
          if (p_sign == z_sign) then
            is_inexact_lt_midpoint := true
          else
            is_inexact_gt_midpoint := true
          pfpsf := (pfpsf ||| c_StatusFlags_BID_INEXACT_EXCEPTION)
        if ((((e3 == c_EXP_MIN_UNBIASED) && (decide (((q3 + scale)) < p34)))) || ((((((e3 == c_EXP_MIN_UNBIASED) && (((q3 + scale)) == p34)) && (((res.w1 &&& c_MASK_COEFF)) == (0x314dc6448d93 : UInt64))) && (res.w0 == (0x38c15b0a00000000 : UInt64))) && (z_sign != p_sign)))) then
          pfpsf := (pfpsf ||| c_StatusFlags_BID_UNDERFLOW_EXCEPTION)
        if (rnd_mode != RoundingMode.NearestEven) then
          let t__25 ← bid_rounding_correction rnd_mode is_inexact_lt_midpoint is_inexact_gt_midpoint is_midpoint_lt_even is_midpoint_gt_even e3 res pfpsf
          res := t__25.1
          pfpsf := t__25.2
        ptr_is_midpoint_lt_even := is_midpoint_lt_even
        ptr_is_midpoint_gt_even := is_midpoint_gt_even
        ptr_is_inexact_lt_midpoint := is_inexact_lt_midpoint
        ptr_is_inexact_gt_midpoint := is_inexact_gt_midpoint
        return (res, ptr_is_midpoint_lt_even, ptr_is_midpoint_gt_even, ptr_is_inexact_lt_midpoint, ptr_is_inexact_gt_midpoint, pfpsf)
      else
        if (p34 == delta) then
          scale := (p34 - q3)
          if (scale == (0 : Int32)) then
            res := { res with w1 := C3.w1 }
            res := { res with w0 := C3.w0 }
          else
            if (decide (q3 ≤ (0x13 : Int32))) then
              res := (← (if (decide (scale ≤ (0x13 : Int32))) then (do pure (← mul_64x64_to_128MACH C3.w0 (← tbl64 Dec.Gen.BID_TEN2K64 (UInt64.ofInt (toI scale))))) else (do pure (← mul_128x64_to_128 C3.w0 (← tbl128 Dec.Gen.BID_TEN2K128 (UInt64.ofInt (toI ((scale - (0x14 : Int32))))))))))
            else
              res := (← mul_128x64_to_128 (← tbl64 Dec.Gen.BID_TEN2K64 (UInt64.ofInt (toI scale))) C3)
          z_exp := (z_exp - (((UInt64.ofInt (toI scale))) <<< 0x31))
          e3 := (e3 - scale)
          if (decide (q4 ≤ (0x13 : Int32))) then
            let t__26 : UInt64 := (← tbl64 Dec.Gen.BID_MIDPOINT64 (UInt64.ofInt (toI ((q4 - (1 : Int32))))))
            if (let value := t__26; (decide (C4.w0 < value))) then
              let mut value : UInt64 := t__26
              lt_half_ulp := true
            else
              if (let value := t__26; (C4.w0 == value)) then
                let mut value : UInt64 := t__26
                eq_half_ulp := true
              else
                gt_half_ulp := true
          else
            if (decide (q4 ≤ (0x26 : Int32))) then
              if (← (if (C4.w2 == (0 : UInt64)) then (do pure ((← (if (decide (C4.w1 < (← tbl128 Dec.Gen.BID_MIDPOINT128 (UInt64.ofInt (toI ((q4 - (0x14 : Int32)))))).w1)) then pure true else (do pure ((← (if (C4.w1 == (← tbl128 Dec.Gen.BID_MIDPOINT128 (UInt64.ofInt (toI ((q4 - (0x14 : Int32)))))).w1) then (do pure (decide (C4.w0 < (← tbl128 Dec.Gen.BID_MIDPOINT128 (UInt64.ofInt (toI ((q4 - (0x14 : Int32)))))).w0))) else pure false)))))))) else pure false)) then
                lt_half_ulp := true
              else
                if (← (if (← (if (C4.w2 == (0 : UInt64)) then (do pure (C4.w1 == (← tbl128 Dec.Gen.BID_MIDPOINT128 (UInt64.ofInt (toI ((q4 - (0x14 : Int32)))))).w1)) else pure false)) then (do pure (C4.w0 == (← tbl128 Dec.Gen.BID_MIDPOINT128 (UInt64.ofInt (toI ((q4 - (0x14 : Int32)))))).w0)) else pure false)) then
                  eq_half_ulp := true
                else
                  gt_half_ulp := true
            else
              if (decide (q4 ≤ (0x3a : Int32))) then
                if (← (if (C4.w3 == (0 : UInt64)) then (do pure ((← (if (← (if (decide (C4.w2 < (← tbl192 Dec.Gen.BID_MIDPOINT192 (UInt64.ofInt (toI ((q4 - (0x27 : Int32)))))).w2)) then pure true else (do pure ((← (if (C4.w2 == (← tbl192 Dec.Gen.BID_MIDPOINT192 (UInt64.ofInt (toI ((q4 - (0x27 : Int32)))))).w2) then (do pure (decide (C4.w1 < (← tbl192 Dec.Gen.BID_MIDPOINT192 (UInt64.ofInt (toI ((q4 - (0x27 : Int32)))))).w1))) else pure false)))))) then pure true else (do pure ((← (if (← (if (C4.w2 == (← tbl192 Dec.Gen.BID_MIDPOINT192 (UInt64.ofInt (toI ((q4 - (0x27 : Int32)))))).w2) then (do pure (C4.w1 == (← tbl192 Dec.Gen.BID_MIDPOINT192 (UInt64.ofInt (toI ((q4 - (0x27 : Int32)))))).w1)) else pure false)) then (do pure (decide (C4.w0 < (← tbl192 Dec.Gen.BID_MIDPOINT192 (UInt64.ofInt (toI ((q4 - (0x27 : Int32)))))).w0))) else pure false)))))))) else pure false)) then
                  lt_half_ulp := true
                else
                  if (← (if (← (if (← (if (C4.w3 == (0 : UInt64)) then (do pure (C4.w2 == (← tbl192 Dec.Gen.BID_MIDPOINT192 (UInt64.ofInt (toI ((q4 - (0x27 : Int32)))))).w2)) else pure false)) then (do pure (C4.w1 == (← tbl192 Dec.Gen.BID_MIDPOINT192 (UInt64.ofInt (toI ((q4 - (0x27 : Int32)))))).w1)) else pure false)) then (do pure (C4.w0 == (← tbl192 Dec.Gen.BID_MIDPOINT192 (UInt64.ofInt (toI ((q4 - (0x27 : Int32)))))).w0)) else pure false)) then
                    eq_half_ulp := true
                  else
                    gt_half_ulp := true
              else
                if (← (if (← (if (← (if (decide (C4.w3 < (← tbl256 Dec.Gen.BID_MIDPOINT256 (UInt64.ofInt (toI ((q4 - (0x3b : Int32)))))).w3)) then pure true else (do pure ((← (if (C4.w3 == (← tbl256 Dec.Gen.BID_MIDPOINT256 (UInt64.ofInt (toI ((q4 - (0x3b : Int32)))))).w3) then (do pure (decide (C4.w2 < (← tbl256 Dec.Gen.BID_MIDPOINT256 (UInt64.ofInt (toI ((q4 - (0x3b : Int32)))))).w2))) else pure false)))))) then pure true else (do pure ((← (if (← (if (C4.w3 == (← tbl256 Dec.Gen.BID_MIDPOINT256 (UInt64.ofInt (toI ((q4 - (0x3b : Int32)))))).w3) then (do pure (C4.w2 == (← tbl256 Dec.Gen.BID_MIDPOINT256 (UInt64.ofInt (toI ((q4 - (0x3b : Int32)))))).w2)) else pure false)) then (do pure (decide (C4.w1 < (← tbl256 Dec.Gen.BID_MIDPOINT256 (UInt64.ofInt (toI ((q4 - (0x3b : Int32)))))).w1))) else pure false)))))) then pure true else (do pure ((← (if (← (if (← (if (C4.w3 == (← tbl256 Dec.Gen.BID_MIDPOINT256 (UInt64.ofInt (toI ((q4 - (0x3b : Int32)))))).w3) then (do pure (C4.w2 == (← tbl256 Dec.Gen.BID_MIDPOINT256 (UInt64.ofInt (toI ((q4 - (0x3b : Int32)))))).w2)) else pure false)) then (do pure (C4.w1 == (← tbl256 Dec.Gen.BID_MIDPOINT256 (UInt64.ofInt (toI ((q4 - (0x3b : Int32)))))).w1)) else pure false)) then (do pure (decide (C4.w0 < (← tbl256 Dec.Gen.BID_MIDPOINT256 (UInt64.ofInt (toI ((q4 - (0x3b : Int32)))))).w0))) else pure false)))))) then
                  lt_half_ulp := true
                else
                  if (← (if (← (if (← (if (C4.w3 == (← tbl256 Dec.Gen.BID_MIDPOINT256 (UInt64.ofInt (toI ((q4 - (0x3b : Int32)))))).w3) then (do pure (C4.w2 == (← tbl256 Dec.Gen.BID_MIDPOINT256 (UInt64.ofInt (toI ((q4 - (0x3b : Int32)))))).w2)) else pure false)) then (do pure (C4.w1 == (← tbl256 Dec.Gen.BID_MIDPOINT256 (UInt64.ofInt (toI ((q4 - (0x3b : Int32)))))).w1)) else pure false)) then (do pure (C4.w0 == (← tbl256 Dec.Gen.BID_MIDPOINT256 (UInt64.ofInt (toI ((q4 - (0x3b : Int32)))))).w0)) else pure false)) then
                    eq_half_ulp := true
                  else
                    gt_half_ulp := true
          if (p_sign == z_sign) then
            if lt_half_ulp then
              res := { res with w1 := (res.w1 ||| (z_sign ||| ((z_exp &&& c_MASK_EXP)))) }
              is_inexact_lt_midpoint := true
            else
              if (((eq_half_ulp && (((res.w0 &&& (1 : UInt64))) == (1 : UInt64)))) || gt_half_ulp) then
                res := { res with w0 := (res.w0 + 1) }
                if (res.w0 == (0 : UInt64)) then
                  res := { res with w1 := (res.w1 + 1) }
                if ((((res.w1 &&& c_MASK_COEFF)) == (0x1ed09bead87c0 : UInt64)) && (res.w0 == (0x378d8e6400000000 : UInt64))) then
                  e3 := (e3 + 1)
                  z_exp := (((((UInt64.ofInt (toI ((e3 + (0x1820 : Int32)))))) <<< 0x31)) &&& c_MASK_EXP)
                  res := { res with w1 := (0x314dc6448d93 : UInt64) }
                  res := { res with w0 := (0x38c15b0a00000000 : UInt64) }
                res := { res with w1 := (res.w1 ||| (z_sign ||| ((z_exp &&& c_MASK_EXP)))) }
                if eq_half_ulp then
                  is_midpoint_lt_even := true
                else
                  is_inexact_gt_midpoint := true
              else
                res := { res with w1 := (res.w1 ||| (z_sign ||| ((z_exp &&& c_MASK_EXP)))) }
                is_midpoint_gt_even := true
            pfpsf := (pfpsf ||| c_StatusFlags_BID_INEXACT_EXCEPTION)
            if ((decide (e3 > c_EXP_MAX_UNBIASED)) && (rnd_mode == RoundingMode.NearestEven)) then
              res := { res with w1 := (z_sign ||| (0x7800000000000000 : UInt64)) }
              res := { res with w0 := (0 : UInt64) }
              pfpsf := (pfpsf ||| (c_StatusFlags_BID_INEXACT_EXCEPTION ||| c_StatusFlags_BID_OVERFLOW_EXCEPTION))
              ptr_is_midpoint_lt_even := is_midpoint_lt_even
              ptr_is_midpoint_gt_even := is_midpoint_gt_even
              ptr_is_inexact_lt_midpoint := is_inexact_lt_midpoint
              ptr_is_inexact_gt_midpoint := is_inexact_gt_midpoint
              return (res, ptr_is_midpoint_lt_even, ptr_is_midpoint_gt_even, ptr_is_inexact_lt_midpoint, ptr_is_inexact_gt_midpoint, pfpsf)
            if (rnd_mode != RoundingMode.NearestEven) then
              let t__27 ← bid_rounding_correction rnd_mode is_inexact_lt_midpoint is_inexact_gt_midpoint is_midpoint_lt_even is_midpoint_gt_even e3 res pfpsf
              res := t__27.1
              pfpsf := t__27.2
              z_exp := (res.w1 &&& c_MASK_EXP)
          else
            if ((res.w1 != (0x314dc6448d93 : UInt64)) || (res.w0 != (0x38c15b0a00000000 : UInt64))) then
              if lt_half_ulp then
                res := { res with w1 := (res.w1 ||| (z_sign ||| ((z_exp &&& c_MASK_EXP)))) }
                is_inexact_gt_midpoint := true
              else
                if (((eq_half_ulp && (((res.w0 &&& (1 : UInt64))) == (1 : UInt64)))) || gt_half_ulp) then
                  res := { res with w0 := (res.w0 - 1) }
                  if (res.w0 == (0xffffffffffffffff : UInt64)) then
                    res := { res with w1 := (res.w1 - 1) }
                  res := { res with w1 := (res.w1 ||| (z_sign ||| ((z_exp &&& c_MASK_EXP)))) }
                  if eq_half_ulp then
                    is_midpoint_gt_even := true
                  else
                    is_inexact_lt_midpoint := true
                else
                  res := { res with w1 := (res.w1 ||| (z_sign ||| ((z_exp &&& c_MASK_EXP)))) }
                  is_midpoint_lt_even := true
              if (decide (e3 > c_EXP_MAX_UNBIASED)) then
                if (rnd_mode == RoundingMode.NearestEven) then
                  res := { res with w1 := (z_sign ||| (0x7800000000000000 : UInt64)) }
                  res := { res with w0 := (0 : UInt64) }
                  pfpsf := (pfpsf ||| (c_StatusFlags_BID_INEXACT_EXCEPTION ||| c_StatusFlags_BID_OVERFLOW_EXCEPTION))
                else
                  let t__28 ← bid_rounding_correction rnd_mode is_inexact_lt_midpoint is_inexact_gt_midpoint is_midpoint_lt_even is_midpoint_gt_even e3 res pfpsf
                  res := t__28.1
                  pfpsf := t__28.2
                ptr_is_midpoint_lt_even := is_midpoint_lt_even
                ptr_is_midpoint_gt_even := is_midpoint_gt_even
                ptr_is_inexact_lt_midpoint := is_inexact_lt_midpoint
                ptr_is_inexact_gt_midpoint := is_inexact_gt_midpoint
                return (res, ptr_is_midpoint_lt_even, ptr_is_midpoint_gt_even, ptr_is_inexact_lt_midpoint, ptr_is_inexact_gt_midpoint, pfpsf)
              pfpsf := (pfpsf ||| c_StatusFlags_BID_INEXACT_EXCEPTION)
              if (rnd_mode != RoundingMode.NearestEven) then
                let t__29 ← bid_rounding_correction rnd_mode is_inexact_lt_midpoint is_inexact_gt_midpoint is_midpoint_lt_even is_midpoint_gt_even e3 res pfpsf
                res := t__29.1
                pfpsf := t__29.2
              z_exp := (res.w1 &&& c_MASK_EXP)
            else
              e3 := (Int32.ofInt (toI ((((z_exp >>> 0x31)) - (0x1820 : UInt64)))))
              if (decide (e3 > c_EXP_MIN_UNBIASED)) then
                if (q4 == (1 : Int32)) then
                  res := { res with w1 := (0x1ed09bead87c0 : UInt64) }
                  res := { res with w0 := ((0x378d8e6400000000 : UInt64) - C4.w0) }
                  z_exp := (z_exp - c_EXP_P1)
                  e3 := (e3 - 1)
                  res := { res with w1 := (res.w1 ||| (z_sign ||| ((z_exp &&& c_MASK_EXP)))) }
                else
                  if (decide (q4 ≤ (0x12 : Int32))) then
                    let t__30 ← bid_round64_2_18 q4 (q4 - (1 : Int32)) C4.w0 incr_exp is_midpoint_lt_even is_midpoint_gt_even is_inexact_lt_midpoint is_inexact_gt_midpoint
                    incr_exp := t__30.2.1
                    is_midpoint_lt_even := t__30.2.2.1
                    is_midpoint_gt_even := t__30.2.2.2.1
                    is_inexact_lt_midpoint := t__30.2.2.2.2.1
                    is_inexact_gt_midpoint := t__30.2.2.2.2.2
                    R64 := t__30.1
                  else
                    if (decide (q4 ≤ (0x26 : Int32))) then
                      P128 := { P128 with w1 := C4.w1 }
                      P128 := { P128 with w0 := C4.w0 }
                      let t__31 ← bid_round128_19_38 q4 (q4 - (1 : Int32)) P128 incr_exp is_midpoint_lt_even is_midpoint_gt_even is_inexact_lt_midpoint is_inexact_gt_midpoint
                      incr_exp := t__31.2.1
                      is_midpoint_lt_even := t__31.2.2.1
                      is_midpoint_gt_even := t__31.2.2.2.1
                      is_inexact_lt_midpoint := t__31.2.2.2.2.1
                      is_inexact_gt_midpoint := t__31.2.2.2.2.2
                      R128 := t__31.1
                      R64 := R128.w0
                    else
                      if (decide (q4 ≤ (0x39 : Int32))) then
                        P192 := { P192 with w2 := C4.w2 }
                        P192 := { P192 with w1 := C4.w1 }
                        P192 := { P192 with w0 := C4.w0 }
                        let t__32 ← bid_round192_39_57 q4 (q4 - (1 : Int32)) P192 incr_exp is_midpoint_lt_even is_midpoint_gt_even is_inexact_lt_midpoint is_inexact_gt_midpoint
                        incr_exp := t__32.2.1
                        is_midpoint_lt_even := t__32.2.2.1
                        is_midpoint_gt_even := t__32.2.2.2.1
                        is_inexact_lt_midpoint := t__32.2.2.2.2.1
                        is_inexact_gt_midpoint := t__32.2.2.2.2.2
                        R192 := t__32.1
                        R64 := R192.w0
                      else
                        let t__33 ← bid_round256_58_76 q4 (q4 - (1 : Int32)) C4 incr_exp is_midpoint_lt_even is_midpoint_gt_even is_inexact_lt_midpoint is_inexact_gt_midpoint
                        incr_exp := t__33.2.1
                        is_midpoint_lt_even := t__33.2.2.1
                        is_midpoint_gt_even := t__33.2.2.2.1
                        is_inexact_lt_midpoint := t__33.2.2.2.2.1
                        is_inexact_gt_midpoint := t__33.2.2.2.2.2
                        R256 := t__33.1
                        R64 := R256.w0
                  if ((((!is_midpoint_lt_even) && (!is_midpoint_gt_even)) && (!is_inexact_lt_midpoint)) && (!is_inexact_gt_midpoint)) then
                    z_exp := (z_exp - c_EXP_P1)
                    e3 := (e3 - 1)
                    res := { res with w1 := ((z_sign ||| ((z_exp &&& c_MASK_EXP))) ||| (0x1ed09bead87c0 : UInt64)) }
                    res := { res with w0 := ((0x378d8e6400000000 : UInt64) - R64) }
                  else
                    if incr_exp then
                      R64 := (0xa : UInt64)
                    res := { res with w1 := (z_sign ||| (0x1ed09bead87c0 : UInt64)) }
                    res := { res with w0 := ((0x378d8e6400000000 : UInt64) - R64) }
                    z_exp := (z_exp - c_EXP_P1)
                    e3 := (e3 - 1)
                    if is_inexact_lt_midpoint then
                      is_inexact_lt_midpoint := false
                      is_inexact_gt_midpoint := true
                    else
                      if is_inexact_gt_midpoint then
                        is_inexact_gt_midpoint := false
                        is_inexact_lt_midpoint := true
                      else
                        if is_midpoint_lt_even then
                          is_midpoint_lt_even := false
                          is_midpoint_gt_even := true
                        else
                          if is_midpoint_gt_even then
                            is_midpoint_gt_even := false
                            is_midpoint_lt_even := true
                          else
                            pure ()
                    if (decide (e3 > c_EXP_MAX_UNBIASED)) then
                      if (rnd_mode == RoundingMode.NearestEven) then
                        res := { res with w1 := (z_sign ||| (0x7800000000000000 : UInt64)) }
                        res := { res with w0 := (0 : UInt64) }
                        pfpsf := (pfpsf ||| (c_StatusFlags_BID_INEXACT_EXCEPTION ||| c_StatusFlags_BID_OVERFLOW_EXCEPTION))
                      else
                        let t__34 ← bid_rounding_correction rnd_mode is_inexact_lt_midpoint is_inexact_gt_midpoint is_midpoint_lt_even is_midpoint_gt_even e3 res pfpsf
                        res := t__34.1
                        pfpsf := t__34.2
                      ptr_is_midpoint_lt_even := is_midpoint_lt_even
                      ptr_is_midpoint_gt_even := is_midpoint_gt_even
                      ptr_is_inexact_lt_midpoint := is_inexact_lt_midpoint
                      ptr_is_inexact_gt_midpoint := is_inexact_gt_midpoint
                      return (res, ptr_is_midpoint_lt_even, ptr_is_midpoint_gt_even, ptr_is_inexact_lt_midpoint, ptr_is_inexact_gt_midpoint, pfpsf)
                    pfpsf := (pfpsf ||| c_StatusFlags_BID_INEXACT_EXCEPTION)
                    res := { res with w1 := (res.w1 ||| (z_sign ||| ((((UInt64.ofInt (toI ((e3 + (0x1820 : Int32)))))) <<< 0x31)))) }
                    if (rnd_mode != RoundingMode.NearestEven) then
                      let t__35 ← bid_rounding_correction rnd_mode is_inexact_lt_midpoint is_inexact_gt_midpoint is_midpoint_lt_even is_midpoint_gt_even e3 res pfpsf
                      res := t__35.1
                      pfpsf := t__35.2
                    z_exp := (res.w1 &&& c_MASK_EXP)
                if (decide (e3 > c_EXP_MAX_UNBIASED)) then
                  if (rnd_mode == RoundingMode.NearestEven) then
                    res := { res with w1 := (z_sign ||| (0x7800000000000000 : UInt64)) }
                    res := { res with w0 := (0 : UInt64) }
                    pfpsf := (pfpsf ||| (c_StatusFlags_BID_INEXACT_EXCEPTION ||| c_StatusFlags_BID_OVERFLOW_EXCEPTION))
                  else
                    let t__36 ← bid_rounding_correction rnd_mode is_inexact_lt_midpoint is_inexact_gt_midpoint is_midpoint_lt_even is_midpoint_gt_even e3 res pfpsf
                    res := t__36.1
                    pfpsf := t__36.2
                  ptr_is_midpoint_lt_even := is_midpoint_lt_even
                  ptr_is_midpoint_gt_even := is_midpoint_gt_even
                  ptr_is_inexact_lt_midpoint := is_inexact_lt_midpoint
                  ptr_is_inexact_gt_midpoint := is_inexact_gt_midpoint
                  return (res, ptr_is_midpoint_lt_even, ptr_is_midpoint_gt_even, ptr_is_inexact_lt_midpoint, ptr_is_inexact_gt_midpoint, pfpsf)
              else
                if gt_half_ulp then
                  res := { res with w1 := (0x314dc6448d93 : UInt64) }
                  res := { res with w0 := (0x38c15b09ffffffff : UInt64) }
                else
                  res := { res with w1 := (0x314dc6448d93 : UInt64) }
                  res := { res with w0 := (0x38c15b0a00000000 : UInt64) }
                res := { res with w1 := (res.w1 ||| (z_sign ||| ((z_exp &&& c_MASK_EXP)))) }
                pfpsf := (pfpsf ||| c_StatusFlags_BID_UNDERFLOW_EXCEPTION)
                if eq_half_ulp then
                  is_midpoint_lt_even := true
                else
                  if lt_half_ulp then
                    is_inexact_gt_midpoint := true
                  else
                    is_inexact_lt_midpoint := true
                if (rnd_mode != RoundingMode.NearestEven) then
                  let t__37 ← bid_rounding_correction rnd_mode is_inexact_lt_midpoint is_inexact_gt_midpoint is_midpoint_lt_even is_midpoint_gt_even e3 res pfpsf
                  res := t__37.1
                  pfpsf := t__37.2
                  z_exp := (res.w1 &&& c_MASK_EXP)
              if (((is_inexact_lt_midpoint || is_inexact_gt_midpoint) || is_midpoint_lt_even) || is_midpoint_gt_even) then
                pfpsf := (pfpsf ||| c_StatusFlags_BID_INEXACT_EXCEPTION)
          res := { res with w1 := (res.w1 ||| (z_sign ||| ((z_exp &&& c_MASK_EXP)))) }
          ptr_is_midpoint_lt_even := is_midpoint_lt_even
          ptr_is_midpoint_gt_even := is_midpoint_gt_even
          ptr_is_inexact_lt_midpoint := is_inexact_lt_midpoint
          ptr_is_inexact_gt_midpoint := is_inexact_gt_midpoint
          return (res, ptr_is_midpoint_lt_even, ptr_is_midpoint_gt_even, ptr_is_inexact_lt_midpoint, ptr_is_inexact_gt_midpoint, pfpsf)
        else
          if ((((((((((decide (q3 ≤ delta)) && (decide (delta < p34))) && (decide (p34 < (delta + q4))))) || (((decide (q3 ≤ delta)) && (decide ((delta + q4) ≤ p34))))) || (((decide (delta < q3)) && (decide (p34 < (delta + q4)))))) || ((((decide (delta < q3)) && (decide (q3 ≤ (delta + q4)))) && (decide ((delta + q4) ≤ p34))))) || ((decide ((delta + q4) < q3))))) && (!(((decide (delta ≤ (1 : Int32))) && (p_sign != z_sign))))) then
            if (((((decide (q3 ≤ delta)) && (decide (delta < p34))) && (decide (p34 < (delta + q4))))) || (((decide (delta < q3)) && (decide (p34 < (delta + q4)))))) then
              scale := (p34 - q3)
              x0 := ((delta + q4) - p34)
            else
              if (decide ((delta + q4) < q3)) then
                scale := ((q3 - delta) - q4)
                if (decide (q4 ≤ (0x13 : Int32))) then
                  if (decide (scale ≤ (0x13 : Int32))) then
                    P128 := (← mul_64x64_to_128MACH C4.w0 (← tbl64 Dec.Gen.BID_TEN2K64 (UInt64.ofInt (toI scale))))
                  else
                    P128 := (← mul_128x64_to_128 C4.w0 (← tbl128 Dec.Gen.BID_TEN2K128 (UInt64.ofInt (toI ((scale - (0x14 : Int32)))))))
                else
                  let mut tmp_38 : U128 := (⟨C4.w0, C4.w1⟩ : U128)
                  P128 := (← mul_128x64_to_128 (← tbl64 Dec.Gen.BID_TEN2K64 (UInt64.ofInt (toI scale))) tmp_38)
                C4 := { C4 with w0 := P128.w0 }
                C4 := { C4 with w1 := P128.w1 }
                scale := (0 : Int32)
                x0 := (0 : Int32)
              else
                scale := ((delta + q4) - q3)
                x0 := (0 : Int32)
            let mut brk__39 : Bool := false
            for _ in [0:4096] do
              if (scale == (0 : Int32)) then
                res := { res with w1 := C3.w1 }
                res := { res with w0 := C3.w0 }
              else
                if (decide (q3 ≤ (0x13 : Int32))) then
                  res := (← (if (decide (scale ≤ (0x13 : Int32))) then (do pure (← mul_64x64_to_128MACH C3.w0 (← tbl64 Dec.Gen.BID_TEN2K64 (UInt64.ofInt (toI scale))))) else (do pure (← mul_128x64_to_128 C3.w0 (← tbl128 Dec.Gen.BID_TEN2K128 (UInt64.ofInt (toI ((scale - (0x14 : Int32))))))))))
                else
                  res := (← mul_128x64_to_128 (← tbl64 Dec.Gen.BID_TEN2K64 (UInt64.ofInt (toI scale))) C3)
              e3 := (e3 - scale)
              if (x0 == (0 : Int32)) then
                R128 := { R128 with w1 := C4.w1 }
                R128 := { R128 with w0 := C4.w0 }
              else
                if (decide (q4 ≤ (0x12 : Int32))) then
                  let t__40 ← bid_round64_2_18 q4 x0 C4.w0 incr_exp is_midpoint_lt_even is_midpoint_gt_even is_inexact_lt_midpoint is_inexact_gt_midpoint
                  incr_exp := t__40.2.1
                  is_midpoint_lt_even := t__40.2.2.1
                  is_midpoint_gt_even := t__40.2.2.2.1
                  is_inexact_lt_midpoint := t__40.2.2.2.2.1
                  is_inexact_gt_midpoint := t__40.2.2.2.2.2
                  R64 := t__40.1
                  if incr_exp then
                    R64 := (← tbl64 Dec.Gen.BID_TEN2K64 (UInt64.ofInt (toI ((q4 - x0)))))
                  R128 := { R128 with w1 := (0 : UInt64) }
                  R128 := { R128 with w0 := R64 }
                else
                  if (decide (q4 ≤ (0x26 : Int32))) then
                    P128 := { P128 with w1 := C4.w1 }
                    P128 := { P128 with w0 := C4.w0 }
                    let t__41 ← bid_round128_19_38 q4 x0 P128 incr_exp is_midpoint_lt_even is_midpoint_gt_even is_inexact_lt_midpoint is_inexact_gt_midpoint
                    incr_exp := t__41.2.1
                    is_midpoint_lt_even := t__41.2.2.1
                    is_midpoint_gt_even := t__41.2.2.2.1
                    is_inexact_lt_midpoint := t__41.2.2.2.2.1
                    is_inexact_gt_midpoint := t__41.2.2.2.2.2
                    R128 := t__41.1
                    if incr_exp then
                      if (decide ((q4 - x0) ≤ (0x13 : Int32))) then
                        R128 := { R128 with w0 := (← tbl64 Dec.Gen.BID_TEN2K64 (UInt64.ofInt (toI ((q4 - x0))))) }
                      else
                        R128 := { R128 with w0 := (← tbl128 Dec.Gen.BID_TEN2K128 (UInt64.ofInt (toI (((q4 - x0) - (0x14 : Int32)))))).w0 }
                        R128 := { R128 with w1 := (← tbl128 Dec.Gen.BID_TEN2K128 (UInt64.ofInt (toI (((q4 - x0) - (0x14 : Int32)))))).w1 }
                  else
                    if (decide (q4 ≤ (0x39 : Int32))) then
                      P192 := { P192 with w2 := C4.w2 }
                      P192 := { P192 with w1 := C4.w1 }
                      P192 := { P192 with w0 := C4.w0 }
                      let t__42 ← bid_round192_39_57 q4 x0 P192 incr_exp is_midpoint_lt_even is_midpoint_gt_even is_inexact_lt_midpoint is_inexact_gt_midpoint
                      incr_exp := t__42.2.1
                      is_midpoint_lt_even := t__42.2.2.1
                      is_midpoint_gt_even := t__42.2.2.2.1
                      is_inexact_lt_midpoint := t__42.2.2.2.2.1
                      is_inexact_gt_midpoint := t__42.2.2.2.2.2
                      R192 := t__42.1
                      if incr_exp then
                        if (decide ((q4 - x0) ≤ (0x13 : Int32))) then
                          R192 := { R192 with w0 := (← tbl64 Dec.Gen.BID_TEN2K64 (UInt64.ofInt (toI ((q4 - x0))))) }
                        else
                          R192 := { R192 with w0 := (← tbl128 Dec.Gen.BID_TEN2K128 (UInt64.ofInt (toI (((q4 - x0) - (0x14 : Int32)))))).w0 }
                          R192 := { R192 with w1 := (← tbl128 Dec.Gen.BID_TEN2K128 (UInt64.ofInt (toI (((q4 - x0) - (0x14 : Int32)))))).w1 }
                      R128 := { R128 with w1 := R192.w1 }
                      R128 := { R128 with w0 := R192.w0 }
                    else
                      let t__43 ← bid_round256_58_76 q4 x0 C4 incr_exp is_midpoint_lt_even is_midpoint_gt_even is_inexact_lt_midpoint is_inexact_gt_midpoint
                      incr_exp := t__43.2.1
                      is_midpoint_lt_even := t__43.2.2.1
                      is_midpoint_gt_even := t__43.2.2.2.1
                      is_inexact_lt_midpoint := t__43.2.2.2.2.1
                      is_inexact_gt_midpoint := t__43.2.2.2.2.2
                      R256 := t__43.1
                      if incr_exp then
                        if (decide ((q4 - x0) ≤ (0x13 : Int32))) then
                          R256 := { R256 with w0 := (← tbl64 Dec.Gen.BID_TEN2K64 (UInt64.ofInt (toI ((q4 - x0))))) }
                        else
                          R256 := { R256 with w0 := (← tbl128 Dec.Gen.BID_TEN2K128 (UInt64.ofInt (toI (((q4 - x0) - (0x14 : Int32)))))).w0 }
                          R256 := { R256 with w1 := (← tbl128 Dec.Gen.BID_TEN2K128 (UInt64.ofInt (toI (((q4 - x0) - (0x14 : Int32)))))).w1 }
                      R128 := { R128 with w1 := R256.w1 }
                      R128 := { R128 with w0 := R256.w0 }
              if (z_sign == p_sign) then
                lsb := (((res.w0 &&& (1 : UInt64))) == (1 : UInt64))
                res := { res with w0 := (res.w0 + R128.w0) }
                res := { res with w1 := (res.w1 + R128.w1) }
                if (decide (res.w0 < R128.w0)) then
                  res := { res with w1 := (res.w1 + 1) }
                if ((decide (res.w1 > (0x1ed09bead87c0 : UInt64))) || (((res.w1 == (0x1ed09bead87c0 : UInt64)) && (decide (res.w0 > (0x378d8e63ffffffff : UInt64)))))) then
                  is_inexact_lt_midpoint0 := is_inexact_lt_midpoint
                  is_inexact_gt_midpoint0 := is_inexact_gt_midpoint
                  is_midpoint_lt_even0 := is_midpoint_lt_even
                  is_midpoint_gt_even0 := is_midpoint_gt_even
                  is_inexact_lt_midpoint := false
                  is_inexact_gt_midpoint := false
                  is_midpoint_lt_even := false
                  is_midpoint_gt_even := false
                  P128 := { P128 with w1 := res.w1 }
                  P128 := { P128 with w0 := res.w0 }
                  let t__44 ← bid_round128_19_38 (0x23 : Int32) (1 : Int32) P128 incr_exp is_midpoint_lt_even is_midpoint_gt_even is_inexact_lt_midpoint is_inexact_gt_midpoint
                  incr_exp := t__44.2.1
                  is_midpoint_lt_even := t__44.2.2.1
                  is_midpoint_gt_even := t__44.2.2.2.1
                  is_inexact_lt_midpoint := t__44.2.2.2.2.1
                  is_inexact_gt_midpoint := t__44.2.2.2.2.2
                  res := t__44.1
                  if (((is_inexact_gt_midpoint0 || is_midpoint_lt_even0)) && is_midpoint_lt_even) then
                    res := { res with w0 := (res.w0 - 1) }
                    if (res.w0 == (0xffffffffffffffff : UInt64)) then
                      res := { res with w1 := (res.w1 - 1) }
                    is_midpoint_lt_even := false
                    is_inexact_lt_midpoint := true
                  else
                    if (((is_inexact_lt_midpoint0 || is_midpoint_gt_even0)) && is_midpoint_gt_even) then
                      res := { res with w0 := (res.w0 + 1) }
                      if (res.w0 == (0 : UInt64)) then
                        res := { res with w1 := (res.w1 + 1) }
                      is_midpoint_gt_even := false
                      is_inexact_gt_midpoint := true
                    else
                      if ((((!is_midpoint_lt_even) && (!is_midpoint_gt_even)) && (!is_inexact_lt_midpoint)) && (!is_inexact_gt_midpoint)) then
                        if (is_inexact_gt_midpoint0 || is_midpoint_lt_even0) then
                          is_inexact_gt_midpoint := true
                        if (is_inexact_lt_midpoint0 || is_midpoint_gt_even0) then
                          is_inexact_lt_midpoint := true
                      else
                        if (is_midpoint_gt_even && ((is_inexact_gt_midpoint0 || is_midpoint_lt_even0))) then
                          is_inexact_lt_midpoint := true
                          is_inexact_gt_midpoint := false
                          is_midpoint_lt_even := false
                          is_midpoint_gt_even := false
                        else
                          if (is_midpoint_lt_even && ((is_inexact_lt_midpoint0 || is_midpoint_gt_even0))) then
                            is_inexact_lt_midpoint := false
                            is_inexact_gt_midpoint := true
                            is_midpoint_lt_even := false
                            is_midpoint_gt_even := false
                          else
                            pure ()
                  e3 := (e3 + 1)
                  if (((((!is_midpoint_lt_even) && (!is_midpoint_gt_even)) && (!is_inexact_lt_midpoint)) && (!is_inexact_gt_midpoint)) && ((((is_midpoint_lt_even0 || is_midpoint_gt_even0) || is_inexact_lt_midpoint0) || is_inexact_gt_midpoint0))) then
                    is_inexact_lt_midpoint := true
                else
                  res := { res with w1 := (res.w1 &&& c_MASK_COEFF) }
                  if lsb then
                    if is_midpoint_gt_even then
                      is_midpoint_gt_even := false
                      is_midpoint_lt_even := true
                      res := { res with w0 := (res.w0 + 1) }
                      if (res.w0 == (0 : UInt64)) then
                        res := { res with w1 := (res.w1 + 1) }
                      if ((res.w1 == (0x1ed09bead87c0 : UInt64)) && (res.w0 == (0x378d8e6400000000 : UInt64))) then
                        res := { res with w1 := (0x314dc6448d93 : UInt64) }
                        res := { res with w0 := (0x38c15b0a00000000 : UInt64) }
                        e3 := (e3 + 1)
                    else
                      if is_midpoint_lt_even then
                        is_midpoint_lt_even := false
                        is_midpoint_gt_even := true
                        res := { res with w0 := (res.w0 - 1) }
                        if (res.w0 == (0xffffffffffffffff : UInt64)) then
                          res := { res with w1 := (res.w1 - 1) }
                        if ((res.w1 == (0 : UInt64)) && (res.w0 == (0 : UInt64))) then
                          z_sign := (if (rnd_mode != RoundingMode.Downward) then (0 : UInt64) else (0x8000000000000000 : UInt64))
                          res := { res with w1 := (0 : UInt64) }
                          res := { res with w0 := (0 : UInt64) }
                          ptr_is_midpoint_lt_even := is_midpoint_lt_even
                          ptr_is_midpoint_gt_even := is_midpoint_gt_even
                          ptr_is_inexact_lt_midpoint := is_inexact_lt_midpoint
                          ptr_is_inexact_gt_midpoint := is_inexact_gt_midpoint
                          return (res, ptr_is_midpoint_lt_even, ptr_is_midpoint_gt_even, ptr_is_inexact_lt_midpoint, ptr_is_inexact_gt_midpoint, pfpsf)
                      else
                        pure ()
              else
                lsb := (((res.w0 &&& (1 : UInt64))) == (1 : UInt64))
                tmp64 := res.w0
                res := { res with w0 := (res.w0 - R128.w0) }
                res := { res with w1 := (res.w1 - R128.w1) }
                if (decide (res.w0 > tmp64)) then
                  res := { res with w1 := (res.w1 - 1) }
                if (((decide (e3 > c_EXP_MIN_UNBIASED)) && (((((decide (res.w1 < (0x314dc6448d93 : UInt64))) || (((res.w1 == (0x314dc6448d93 : UInt64)) && (decide (res.w0 < (0x38c15b0a00000000 : UInt64))))))) || (((((is_inexact_lt_midpoint || is_midpoint_gt_even)) && (res.w1 == (0x314dc6448d93 : UInt64))) && (res.w0 == (0x38c15b0a00000000 : UInt64))))))) && (decide (x0 ≥ (1 : Int32)))) then
                  x0 := (x0 - 1)
                  e3 := (e3 + scale)
                  scale := (scale + 1)
                  is_inexact_lt_midpoint := false
                  is_inexact_gt_midpoint := false
                  is_midpoint_lt_even := false
                  is_midpoint_gt_even := false
                  incr_exp := false
                  continue
                if is_inexact_lt_midpoint then
                  is_inexact_lt_midpoint := false
                  is_inexact_gt_midpoint := true
                else
                  if is_inexact_gt_midpoint then
                    is_inexact_gt_midpoint := false
                    is_inexact_lt_midpoint := true
                  else
                    if (!lsb) then
                      if is_midpoint_lt_even then
                        is_midpoint_lt_even := false
                        is_midpoint_gt_even := true
                      else
                        if is_midpoint_gt_even then
                          is_midpoint_gt_even := false
                          is_midpoint_lt_even := true
                        else
                          pure ()
                    else
                      if lsb then
                        if is_midpoint_lt_even then
                          res := { res with w0 := (res.w0 + 1) }
                          if (res.w0 == (0 : UInt64)) then
                            res := { res with w1 := (res.w1 + 1) }
                          if ((res.w1 == (0x1ed09bead87c0 : UInt64)) && (res.w0 == (0x378d8e6400000000 : UInt64))) then
                            res := { res with w1 := (0x314dc6448d93 : UInt64) }
                            res := { res with w0 := (0x38c15b0a00000000 : UInt64) }
                            e3 := (e3 + 1)
                        else
                          if is_midpoint_gt_even then
                            res := { res with w0 := (res.w0 - 1) }
                            if (res.w0 == (0xffffffffffffffff : UInt64)) then
                              res := { res with w1 := (res.w1 - 1) }
                            if ((res.w1 == (0 : UInt64)) && (res.w0 == (0 : UInt64))) then
                              z_sign := (if (rnd_mode != RoundingMode.Downward) then (0 : UInt64) else (0x8000000000000000 : UInt64))
                              res := { res with w1 := (0 : UInt64) }
                              res := { res with w0 := (0 : UInt64) }
                              ptr_is_midpoint_lt_even := is_midpoint_lt_even
                              ptr_is_midpoint_gt_even := is_midpoint_gt_even
                              ptr_is_inexact_lt_midpoint := is_inexact_lt_midpoint
                              ptr_is_inexact_gt_midpoint := is_inexact_gt_midpoint
                              return (res, ptr_is_midpoint_lt_even, ptr_is_midpoint_gt_even, ptr_is_inexact_lt_midpoint, ptr_is_inexact_gt_midpoint, pfpsf)
                          else
                            pure ()
                      else
                        pure ()
              let t__45 : Int32 := e3
              if (let value := t__45; (value == c_EXP_MIN_UNBIASED)) then
                let mut value : Int32 := t__45
                if ((decide (((res.w1 &&& c_MASK_COEFF)) < (0x314dc6448d93 : UInt64))) || (((((res.w1 &&& c_MASK_COEFF)) == (0x314dc6448d93 : UInt64)) && (decide (res.w0 < (0x38c15b0a00000000 : UInt64)))))) then
                  is_tiny := true
                if ((((((res.w1 &&& (0x7fffffffffffffff : UInt64))) == (0x314dc6448d93 : UInt64))) && ((res.w0 == (0x38c15b0a00000000 : UInt64)))) && ((is_inexact_gt_midpoint || is_midpoint_lt_even))) then
                  is_tiny := true
              else
                if (let value := t__45; (decide (value < c_EXP_MIN_UNBIASED))) then
                  let mut value : Int32 := t__45
                  is_tiny := true
                  x0 := (c_EXP_MIN_UNBIASED - e3)
                  is_inexact_lt_midpoint0 := is_inexact_lt_midpoint
                  is_inexact_gt_midpoint0 := is_inexact_gt_midpoint
                  is_midpoint_lt_even0 := is_midpoint_lt_even
                  is_midpoint_gt_even0 := is_midpoint_gt_even
                  is_inexact_lt_midpoint := false
                  is_inexact_gt_midpoint := false
                  is_midpoint_lt_even := false
                  is_midpoint_gt_even := false
                  if (res.w1 == (0 : UInt64)) then
                    ind := (Int32.ofInt (toI (← countWhile64 Dec.Gen.BID_TEN2K64 1 19 (fun x => (decide (res.w0 ≥ x))))))
                    ind := (ind + 1)
                  else
                    if (← (if (decide (res.w1 < (← tbl128 Dec.Gen.BID_TEN2K128 (UInt64.ofInt (toI 0))).w1)) then pure true else (do pure ((← (if (res.w1 == (← tbl128 Dec.Gen.BID_TEN2K128 (UInt64.ofInt (toI 0))).w1) then (do pure (decide (res.w0 < (← tbl128 Dec.Gen.BID_TEN2K128 (UInt64.ofInt (toI 0))).w0))) else pure false)))))) then
                      ind := (0x14 : Int32)
                    else
                      ind := (Int32.ofInt (toI (← countWhile128 Dec.Gen.BID_TEN2K128 1 18 (fun d => (!(((decide (res.w1 < d.w1)) || (((res.w1 == d.w1) && (decide (res.w0 < d.w0)))))))))))
                      ind := (ind + 1)
                      ind := (ind + 0x14)
                  if (x0 == ind) then
                    res := { res with w1 := (0 : UInt64) }
                    res := { res with w0 := (1 : UInt64) }
                    is_inexact_gt_midpoint := true
                  else
                    if (decide (ind ≤ (0x12 : Int32))) then
                      let t__46 ← bid_round64_2_18 ind x0 res.w0 incr_exp is_midpoint_lt_even is_midpoint_gt_even is_inexact_lt_midpoint is_inexact_gt_midpoint
                      incr_exp := t__46.2.1
                      is_midpoint_lt_even := t__46.2.2.1
                      is_midpoint_gt_even := t__46.2.2.2.1
                      is_inexact_lt_midpoint := t__46.2.2.2.2.1
                      is_inexact_gt_midpoint := t__46.2.2.2.2.2
                      R64 := t__46.1
                      if incr_exp then
                        R64 := (← tbl64 Dec.Gen.BID_TEN2K64 (UInt64.ofInt (toI ((ind - x0)))))
                      res := { res with w1 := (0 : UInt64) }
                      res := { res with w0 := R64 }
                    else
                      if (decide (ind ≤ (0x26 : Int32))) then
                        P128 := { P128 with w1 := res.w1 }
                        P128 := { P128 with w0 := res.w0 }
                        let t__47 ← bid_round128_19_38 ind x0 P128 incr_exp is_midpoint_lt_even is_midpoint_gt_even is_inexact_lt_midpoint is_inexact_gt_midpoint
                        incr_exp := t__47.2.1
                        is_midpoint_lt_even := t__47.2.2.1
                        is_midpoint_gt_even := t__47.2.2.2.1
                        is_inexact_lt_midpoint := t__47.2.2.2.2.1
                        is_inexact_gt_midpoint := t__47.2.2.2.2.2
                        res := t__47.1
                        if incr_exp then
                          if (decide ((ind - x0) ≤ (0x13 : Int32))) then
                            res := { res with w0 := (← tbl64 Dec.Gen.BID_TEN2K64 (UInt64.ofInt (toI ((ind - x0))))) }
                          else
                            res := { res with w0 := (← tbl128 Dec.Gen.BID_TEN2K128 (UInt64.ofInt (toI (((ind - x0) - (0x14 : Int32)))))).w0 }
                            res := { res with w1 := (← tbl128 Dec.Gen.BID_TEN2K128 (UInt64.ofInt (toI (((ind - x0) - (0x14 : Int32)))))).w1 }
                  if (((is_inexact_gt_midpoint0 || is_midpoint_lt_even0)) && is_midpoint_lt_even) then
                    res := { res with w0 := (res.w0 - 1) }
                    if (res.w0 == (0xffffffffffffffff : UInt64)) then
                      res := { res with w1 := (res.w1 - 1) }
                    is_midpoint_lt_even := false
                    is_inexact_lt_midpoint := true
                  else
                    if (((is_inexact_lt_midpoint0 || is_midpoint_gt_even0)) && is_midpoint_gt_even) then
                      res := { res with w0 := (res.w0 + 1) }
                      if (res.w0 == (0 : UInt64)) then
                        res := { res with w1 := (res.w1 + 1) }
                      is_midpoint_gt_even := false
                      is_inexact_gt_midpoint := true
                    else
                      if ((((!is_midpoint_lt_even) && (!is_midpoint_gt_even)) && (!is_inexact_lt_midpoint)) && (!is_inexact_gt_midpoint)) then
                        if (is_inexact_gt_midpoint0 || is_midpoint_lt_even0) then
                          is_inexact_gt_midpoint := true
                        if (is_inexact_lt_midpoint0 || is_midpoint_gt_even0) then
                          is_inexact_lt_midpoint := true
                      else
                        if (is_midpoint_gt_even && ((is_inexact_gt_midpoint0 || is_midpoint_lt_even0))) then
                          is_inexact_lt_midpoint := true
                          is_inexact_gt_midpoint := false
                          is_midpoint_lt_even := false
                          is_midpoint_gt_even := false
                        else
                          if (is_midpoint_lt_even && ((is_inexact_lt_midpoint0 || is_midpoint_gt_even0))) then
                            is_inexact_lt_midpoint := false
                            is_inexact_gt_midpoint := true
                            is_midpoint_lt_even := false
                            is_midpoint_gt_even := false
                          else
                            pure ()
                  e3 := (e3 + x0)
                  if (((((!is_midpoint_lt_even) && (!is_midpoint_gt_even)) && (!is_inexact_lt_midpoint)) && (!is_inexact_gt_midpoint)) && ((((is_midpoint_lt_even0 || is_midpoint_gt_even0) || is_inexact_lt_midpoint0) || is_inexact_gt_midpoint0))) then
                    is_inexact_lt_midpoint := true
                else
                  pure ()
              if (((is_inexact_lt_midpoint || is_inexact_gt_midpoint) || is_midpoint_lt_even) || is_midpoint_gt_even) then
                pfpsf := (pfpsf ||| c_StatusFlags_BID_INEXACT_EXCEPTION)
                if is_tiny then
                  pfpsf := (pfpsf ||| c_StatusFlags_BID_UNDERFLOW_EXCEPTION)
              if ((res.w1 == (0x1ed09bead87c0 : UInt64)) && (res.w0 == (0x378d8e6400000000 : UInt64))) then
                res := { res with w1 := (0x314dc6448d93 : UInt64) }
                res := { res with w0 := (0x38c15b0a00000000 : UInt64) }
                e3 := (e3 + 1)
              res := { res with w1 := (res.w1 ||| (z_sign ||| ((((UInt64.ofInt (toI ((e3 + (0x1820 : Int32)))))) <<< 0x31)))) }
              if ((rnd_mode == RoundingMode.NearestEven) && (decide (e3 > c_EXP_MAX_UNBIASED))) then
                res := { res with w1 := (z_sign ||| (0x7800000000000000 : UInt64)) }
                res := { res with w0 := (0 : UInt64) }
                pfpsf := (pfpsf ||| (c_StatusFlags_BID_INEXACT_EXCEPTION ||| c_StatusFlags_BID_OVERFLOW_EXCEPTION))
              if (rnd_mode != RoundingMode.NearestEven) then
                let t__48 ← bid_rounding_correction rnd_mode is_inexact_lt_midpoint is_inexact_gt_midpoint is_midpoint_lt_even is_midpoint_gt_even e3 res pfpsf
                res := t__48.1
                pfpsf := t__48.2
              ptr_is_midpoint_lt_even := is_midpoint_lt_even
              ptr_is_midpoint_gt_even := is_midpoint_gt_even
              ptr_is_inexact_lt_midpoint := is_inexact_lt_midpoint
              ptr_is_inexact_gt_midpoint := is_inexact_gt_midpoint
              return (res, ptr_is_midpoint_lt_even, ptr_is_midpoint_gt_even, ptr_is_inexact_lt_midpoint, ptr_is_inexact_gt_midpoint, pfpsf)
            if !brk__39 then throw "loop fuel exhausted"
          else
            if (decide ((delta + q4) < q3)) then
              P128 := { P128 with w1 := C3.w1 }
              P128 := { P128 with w0 := C3.w0 }
              C3 := { C3 with w1 := C4.w1 }
              C3 := { C3 with w0 := C4.w0 }
              C4 := { C4 with w1 := P128.w1 }
              C4 := { C4 with w0 := P128.w0 }
              ind := q3
              q3 := q4
              q4 := ind
              ind := e3
              e3 := e4
              e4 := ind
              tmp_sign := z_sign
              z_sign := p_sign
              p_sign := tmp_sign
            else
              delta := (-delta)
            let t__49 ← bid_add_and_round q3 q4 e4 delta p34 z_sign p_sign C3 C4 rnd_mode is_midpoint_lt_even is_midpoint_gt_even is_inexact_lt_midpoint is_inexact_gt_midpoint pfpsf
            is_midpoint_lt_even := t__49.2.1
            is_midpoint_gt_even := t__49.2.2.1
            is_inexact_lt_midpoint := t__49.2.2.2.1
            is_inexact_gt_midpoint := t__49.2.2.2.2.1
            pfpsf := t__49.2.2.2.2.2
            res := t__49.1
            ptr_is_midpoint_lt_even := is_midpoint_lt_even
            ptr_is_midpoint_gt_even := is_midpoint_gt_even
            ptr_is_inexact_lt_midpoint := is_inexact_lt_midpoint
            ptr_is_inexact_gt_midpoint := is_inexact_gt_midpoint
            return (res, ptr_is_midpoint_lt_even, ptr_is_midpoint_gt_even, ptr_is_inexact_lt_midpoint, ptr_is_inexact_gt_midpoint, pfpsf)
    else
      delta := (-delta)
      if ((decide (p34 < q4)) && (decide (q4 ≤ delta))) then
        x0 := (q4 - p34)
        if (decide (q4 ≤ (0x26 : Int32))) then
          P128 := { P128 with w1 := C4.w1 }
          P128 := { P128 with w0 := C4.w0 }
          let t__50 ← bid_round128_19_38 q4 x0 P128 incr_exp is_midpoint_lt_even is_midpoint_gt_even is_inexact_lt_midpoint is_inexact_gt_midpoint
          incr_exp := t__50.2.1
          is_midpoint_lt_even := t__50.2.2.1
          is_midpoint_gt_even := t__50.2.2.2.1
          is_inexact_lt_midpoint := t__50.2.2.2.2.1
          is_inexact_gt_midpoint := t__50.2.2.2.2.2
          res := t__50.1
        else
          if (decide (q4 ≤ (0x39 : Int32))) then
            P192 := { P192 with w2 := C4.w2 }
            P192 := { P192 with w1 := C4.w1 }
            P192 := { P192 with w0 := C4.w0 }
            let t__51 ← bid_round192_39_57 q4 x0 P192 incr_exp is_midpoint_lt_even is_midpoint_gt_even is_inexact_lt_midpoint is_inexact_gt_midpoint
            incr_exp := t__51.2.1
            is_midpoint_lt_even := t__51.2.2.1
            is_midpoint_gt_even := t__51.2.2.2.1
            is_inexact_lt_midpoint := t__51.2.2.2.2.1
            is_inexact_gt_midpoint := t__51.2.2.2.2.2
            R192 := t__51.1
            res := { res with w0 := R192.w0 }
            res := { res with w1 := R192.w1 }
          else
            let t__52 ← bid_round256_58_76 q4 x0 C4 incr_exp is_midpoint_lt_even is_midpoint_gt_even is_inexact_lt_midpoint is_inexact_gt_midpoint
            incr_exp := t__52.2.1
            is_midpoint_lt_even := t__52.2.2.1
            is_midpoint_gt_even := t__52.2.2.2.1
            is_inexact_lt_midpoint := t__52.2.2.2.2.1
            is_inexact_gt_midpoint := t__52.2.2.2.2.2
            R256 := t__52.1
            res := { res with w0 := R256.w0 }
            res := { res with w1 := R256.w1 }
        e4 := (e4 + x0)
        if incr_exp then
          e4 := (e4 + 1)
        if ((((!is_midpoint_lt_even) && (!is_midpoint_gt_even)) && (!is_inexact_lt_midpoint)) && (!is_inexact_gt_midpoint)) then
          if (p_sign == z_sign) then
            is_inexact_lt_midpoint := true
          else
            if ((res.w1 != (0x314dc6448d93 : UInt64)) || (res.w0 != (0x38c15b0a00000000 : UInt64))) then
              is_inexact_gt_midpoint := true
            else
              if (decide (delta > (p34 + (1 : Int32)))) then
                is_inexact_gt_midpoint := true
              else
                if (decide (q3 ≤ (0x13 : Int32))) then
                  let t__53 : UInt64 := (← tbl64 Dec.Gen.BID_MIDPOINT64 (UInt64.ofInt (toI ((q3 - (1 : Int32))))))
                  if (let value := t__53; (decide (C3.w0 < value))) then
                    let mut value : UInt64 := t__53
                    is_inexact_gt_midpoint := true
                  else
                    if (let value := t__53; (C3.w0 == value)) then
                      let mut value : UInt64 := t__53
                      is_midpoint_lt_even := true
                    else
                      res := { res with w1 := (0x1ed09bead87c0 : UInt64) }
                      res := { res with w0 := (0x378d8e63ffffffff : UInt64) }
                      e4 := (e4 - 1)
                      is_inexact_lt_midpoint := true
                else
                  if (← (if (decide (C3.w1 < (← tbl128 Dec.Gen.BID_MIDPOINT128 (UInt64.ofInt (toI ((q3 - (0x14 : Int32)))))).w1)) then pure true else (do pure ((← (if (C3.w1 == (← tbl128 Dec.Gen.BID_MIDPOINT128 (UInt64.ofInt (toI ((q3 - (0x14 : Int32)))))).w1) then (do pure (decide (C3.w0 < (← tbl128 Dec.Gen.BID_MIDPOINT128 (UInt64.ofInt (toI ((q3 - (0x14 : Int32)))))).w0))) else pure false)))))) then
                    is_inexact_gt_midpoint := true
                  else
                    if (← (if (C3.w1 == (← tbl128 Dec.Gen.BID_MIDPOINT128 (UInt64.ofInt (toI ((q3 - (0x14 : Int32)))))).w1) then (do pure (C3.w0 == (← tbl128 Dec.Gen.BID_MIDPOINT128 (UInt64.ofInt (toI ((q3 - (0x14 : Int32)))))).w0)) else pure false)) then
                      is_midpoint_lt_even := true
                    else
                      res := { res with w1 := (0x1ed09bead87c0 : UInt64) }
                      res := { res with w0 := (0x378d8e63ffffffff : UInt64) }
                      e4 := (e4 - 1)
                      is_inexact_lt_midpoint := true
        else
          if is_midpoint_lt_even then
            if (z_sign != p_sign) then
              res := { res with w0 := (res.w0 - 1) }
              if (res.w0 == (0xffffffffffffffff : UInt64)) then
                res := { res with w1 := (res.w1 - 1) }
              if ((res.w1 == (0x314dc6448d93 : UInt64)) && (res.w0 == (0x38c15b09ffffffff : UInt64))) then
                res := { res with w1 := (0x1ed09bead87c0 : UInt64) }
                res := { res with w0 := (0x378d8e63ffffffff : UInt64) }
                e4 := (e4 - 1)
              is_midpoint_lt_even := false
              is_inexact_lt_midpoint := true
            else
              is_midpoint_lt_even := false
              is_inexact_gt_midpoint := true
          else
            if is_midpoint_gt_even then
              if (z_sign == p_sign) then
                res := { res with w0 := (res.w0 + 1) }
                if (res.w0 == (0 : UInt64)) then
                  res := { res with w1 := (res.w1 + 1) }
                is_midpoint_gt_even := false
                is_inexact_gt_midpoint := true
              else
                is_midpoint_gt_even := false
                is_inexact_lt_midpoint := true
            else
              pure ()
        if ((rnd_mode == RoundingMode.NearestEven) && (decide (e4 > c_EXP_MAX_UNBIASED))) then
          res := { res with w1 := (p_sign ||| (0x7800000000000000 : UInt64)) }
          res := { res with w0 := (0 : UInt64) }
          pfpsf := (pfpsf ||| (c_StatusFlags_BID_OVERFLOW_EXCEPTION ||| c_StatusFlags_BID_INEXACT_EXCEPTION))
        else
          p_exp := (((UInt64.ofInt (toI ((e4 + (0x1820 : Int32)))))) <<< 0x31)
          res := { res with w1 := (res.w1 ||| (p_sign ||| ((p_exp &&& c_MASK_EXP)))) }
        if (rnd_mode != RoundingMode.NearestEven) then
          let t__54 ← bid_rounding_correction rnd_mode is_inexact_lt_midpoint is_inexact_gt_midpoint is_midpoint_lt_even is_midpoint_gt_even e4 res pfpsf
          res := t__54.1
          pfpsf := t__54.2
        if (((is_inexact_lt_midpoint || is_inexact_gt_midpoint) || is_midpoint_lt_even) || is_midpoint_gt_even) then
          pfpsf := (pfpsf ||| c_StatusFlags_BID_INEXACT_EXCEPTION)
        ptr_is_midpoint_lt_even := is_midpoint_lt_even
        ptr_is_midpoint_gt_even := is_midpoint_gt_even
        ptr_is_inexact_lt_midpoint := is_inexact_lt_midpoint
        ptr_is_inexact_gt_midpoint := is_inexact_gt_midpoint
        return (res, ptr_is_midpoint_lt_even, ptr_is_midpoint_gt_even, ptr_is_inexact_lt_midpoint, ptr_is_inexact_gt_midpoint, pfpsf)
      else
        if ((((((((decide (q4 ≤ p34)) && (decide (p34 ≤ delta)))) || ((((decide (q4 ≤ delta)) && (decide (delta < p34))) && (decide (p34 < (delta + q3)))))) || (((decide (q4 ≤ delta)) && (decide ((delta + q3) ≤ p34))))) || ((((decide (delta < q4)) && (decide (q4 ≤ p34))) && (decide (p34 < (delta + q3)))))) || ((((decide (delta < q4)) && (decide (q4 ≤ (delta + q3)))) && (decide ((delta + q3) ≤ p34))))) || (((decide ((delta + q3) < q4)) && (decide (q4 ≤ p34))))) then
          P128 := { P128 with w1 := C3.w1 }
          P128 := { P128 with w0 := C3.w0 }
          C3 := { C3 with w1 := C4.w1 }
          C3 := { C3 with w0 := C4.w0 }
          C4 := { C4 with w1 := P128.w1 }
          C4 := { C4 with w0 := P128.w0 }
          ind := q3
          q3 := q4
          q4 := ind
          ind := e3
          e3 := e4
          e4 := ind
          tmp_sign := z_sign
          z_sign := p_sign
          p_sign := tmp_sign
          tmp := (⟨z_exp⟩ : F64U)
          z_exp := p_exp
          p_exp := tmp.bits
          continue
        else
          if (((((decide (p34 ≤ delta)) && (decide (delta < q4))) && (decide (q4 < (delta + q3))))) || ((((decide (delta < p34)) && (decide (p34 < q4))) && (decide (q4 < (delta + q3)))))) then
            x0 := (e4 - e3)
            if (decide (q3 ≤ (0x12 : Int32))) then
              let t__55 ← bid_round64_2_18 q3 x0 C3.w0 incr_exp is_midpoint_lt_even is_midpoint_gt_even is_inexact_lt_midpoint is_inexact_gt_midpoint
              incr_exp := t__55.2.1
              is_midpoint_lt_even := t__55.2.2.1
              is_midpoint_gt_even := t__55.2.2.2.1
              is_inexact_lt_midpoint := t__55.2.2.2.2.1
              is_inexact_gt_midpoint := t__55.2.2.2.2.2
              R64 := t__55.1
              C3 := { C3 with w0 := R64 }
            else
              if (decide (q3 ≤ (0x26 : Int32))) then
                let t__56 ← bid_round128_19_38 q3 x0 C3 incr_exp is_midpoint_lt_even is_midpoint_gt_even is_inexact_lt_midpoint is_inexact_gt_midpoint
                incr_exp := t__56.2.1
                is_midpoint_lt_even := t__56.2.2.1
                is_midpoint_gt_even := t__56.2.2.2.1
                is_inexact_lt_midpoint := t__56.2.2.2.2.1
                is_inexact_gt_midpoint := t__56.2.2.2.2.2
                R128 := t__56.1
                C3 := { C3 with w1 := R128.w1 }
                C3 := { C3 with w0 := R128.w0 }
            if incr_exp then
              P128 := { P128 with w1 := C3.w1 }
              P128 := { P128 with w0 := C3.w0 }
              C3 := (← mul_64x128_to_128 (← tbl64 Dec.Gen.BID_TEN2K64 (UInt64.ofInt (toI 1))) P128)
            e3 := (e3 + x0)
            R256 := { R256 with w3 := (0 : UInt64) }
            R256 := { R256 with w2 := (0 : UInt64) }
            R256 := { R256 with w1 := C3.w1 }
            R256 := { R256 with w0 := C3.w0 }
            if (p_sign == z_sign) then
              R256 := (← bid_add256 C4 R256)
            else
              R256 := (← bid_sub256 C4 R256)
              lsb := (((C4.w0 &&& (1 : UInt64))) == (1 : UInt64))
              if is_inexact_lt_midpoint then
                is_inexact_lt_midpoint := false
                is_inexact_gt_midpoint := true
              else
                if is_inexact_gt_midpoint then
                  is_inexact_gt_midpoint := false
                  is_inexact_lt_midpoint := true
                else
                  if (!lsb) then
                    if is_midpoint_lt_even then
                      is_midpoint_lt_even := false
                      is_midpoint_gt_even := true
                    else
                      if is_midpoint_gt_even then
                        is_midpoint_gt_even := false
                        is_midpoint_lt_even := true
                      else
                        pure ()
                  else
                    if lsb then
                      if is_midpoint_lt_even then
                        R256 := { R256 with w0 := (R256.w0 + 1) }
                        if (R256.w0 == (0 : UInt64)) then
                          R256 := { R256 with w1 := (R256.w1 + 1) }
                          if (R256.w1 == (0 : UInt64)) then
                            R256 := { R256 with w2 := (R256.w2 + 1) }
                            if (R256.w2 == (0 : UInt64)) then
                              R256 := { R256 with w3 := (R256.w3 + 1) }
                      else
                        if is_midpoint_gt_even then
                          R256 := { R256 with w0 := (R256.w0 - 1) }
                          if (R256.w0 == (0xffffffffffffffff : UInt64)) then
                            R256 := { R256 with w1 := (R256.w1 - 1) }
                            if (R256.w1 == (0xffffffffffffffff : UInt64)) then
                              R256 := { R256 with w2 := (R256.w2 - 1) }
                              if (R256.w2 == (0xffffffffffffffff : UInt64)) then
                                R256 := { R256 with w3 := (R256.w3 - 1) }
                        else
                          pure ()
                    else
                      pure ()
            ind := (← bid_bid_nr_digits256 R256)
            let t__57 : Int32 := ind
            if (let value := t__57; (decide (value < p34))) then
              let mut value : Int32 := t__57
              pure ()
            else
              if (let value := t__57; (value == p34)) then
                let mut value : Int32 := t__57
                res := { res with w1 := R256.w1 }
                res := { res with w0 := R256.w0 }
              else
                x0 := (ind - p34)
                is_inexact_lt_midpoint0 := is_inexact_lt_midpoint
                is_inexact_gt_midpoint0 := is_inexact_gt_midpoint
                is_midpoint_lt_even0 := is_midpoint_lt_even
                is_midpoint_gt_even0 := is_midpoint_gt_even
                is_inexact_lt_midpoint := false
                is_inexact_gt_midpoint := false
                is_midpoint_lt_even := false
                is_midpoint_gt_even := false
                if (decide (ind ≤ (0x26 : Int32))) then
                  P128 := { P128 with w1 := R256.w1 }
                  P128 := { P128 with w0 := R256.w0 }
                  let t__58 ← bid_round128_19_38 ind x0 P128 incr_exp is_midpoint_lt_even is_midpoint_gt_even is_inexact_lt_midpoint is_inexact_gt_midpoint
                  incr_exp := t__58.2.1
                  is_midpoint_lt_even := t__58.2.2.1
                  is_midpoint_gt_even := t__58.2.2.2.1
                  is_inexact_lt_midpoint := t__58.2.2.2.2.1
                  is_inexact_gt_midpoint := t__58.2.2.2.2.2
                  R128 := t__58.1
                else
                  if (decide (ind ≤ (0x39 : Int32))) then
                    P192 := { P192 with w2 := R256.w2 }
                    P192 := { P192 with w1 := R256.w1 }
                    P192 := { P192 with w0 := R256.w0 }
                    let t__59 ← bid_round192_39_57 ind x0 P192 incr_exp is_midpoint_lt_even is_midpoint_gt_even is_inexact_lt_midpoint is_inexact_gt_midpoint
                    incr_exp := t__59.2.1
                    is_midpoint_lt_even := t__59.2.2.1
                    is_midpoint_gt_even := t__59.2.2.2.1
                    is_inexact_lt_midpoint := t__59.2.2.2.2.1
                    is_inexact_gt_midpoint := t__59.2.2.2.2.2
                    R192 := t__59.1
                    R128 := { R128 with w1 := R192.w1 }
                    R128 := { R128 with w0 := R192.w0 }
                  else
                    let t__60 ← bid_round256_58_76 ind x0 R256 incr_exp is_midpoint_lt_even is_midpoint_gt_even is_inexact_lt_midpoint is_inexact_gt_midpoint
                    incr_exp := t__60.2.1
                    is_midpoint_lt_even := t__60.2.2.1
                    is_midpoint_gt_even := t__60.2.2.2.1
                    is_inexact_lt_midpoint := t__60.2.2.2.2.1
                    is_inexact_gt_midpoint := t__60.2.2.2.2.2
                    R256 := t__60.1
                    R128 := { R128 with w1 := R256.w1 }
                    R128 := { R128 with w0 := R256.w0 }
                e4 := ((e4 + x0) + (if incr_exp then 1 else 0))
                res := { res with w1 := R128.w1 }
                res := { res with w0 := R128.w0 }
                if (((is_inexact_gt_midpoint0 || is_midpoint_lt_even0)) && is_midpoint_lt_even) then
                  res := { res with w0 := (res.w0 - 1) }
                  if (res.w0 == (0xffffffffffffffff : UInt64)) then
                    res := { res with w1 := (res.w1 - 1) }
                  is_midpoint_lt_even := false
                  is_inexact_lt_midpoint := true
                  if ((res.w1 == (0x314dc6448d93 : UInt64)) && (res.w0 == (0x38c15b09ffffffff : UInt64))) then
                    res := { res with w1 := (0x1ed09bead87c0 : UInt64) }
                    res := { res with w0 := (0x378d8e63ffffffff : UInt64) }
                    e4 := (e4 - 1)
                else
                  if (((is_inexact_lt_midpoint0 || is_midpoint_gt_even0)) && is_midpoint_gt_even) then
                    res := { res with w0 := (res.w0 + 1) }
                    if (res.w0 == (0 : UInt64)) then
                      res := { res with w1 := (res.w1 + 1) }
                    is_midpoint_gt_even := false
                    is_inexact_gt_midpoint := true
                  else
                    if ((((!is_midpoint_lt_even) && (!is_midpoint_gt_even)) && (!is_inexact_lt_midpoint)) && (!is_inexact_gt_midpoint)) then
                      if (is_inexact_gt_midpoint0 || is_midpoint_lt_even0) then
                        is_inexact_gt_midpoint := true
                      if (is_inexact_lt_midpoint0 || is_midpoint_gt_even0) then
                        is_inexact_lt_midpoint := true
                    else
                      if (is_midpoint_gt_even && ((is_inexact_gt_midpoint0 || is_midpoint_lt_even0))) then
                        is_inexact_lt_midpoint := true
                        is_inexact_gt_midpoint := false
                        is_midpoint_lt_even := false
                        is_midpoint_gt_even := false
                      else
                        if (is_midpoint_lt_even && ((is_inexact_lt_midpoint0 || is_midpoint_gt_even0))) then
                          is_inexact_lt_midpoint := false
                          is_inexact_gt_midpoint := true
                          is_midpoint_lt_even := false
                          is_midpoint_gt_even := false
                        else
                          pure ()
            if (rnd_mode == RoundingMode.NearestEven) then
              if (decide (e4 < c_EXP_MIN_UNBIASED)) then
                is_tiny := true
            else
              P128 := { P128 with w1 := ((p_sign ||| (0x3040000000000000 : UInt64)) ||| res.w1) }
              P128 := { P128 with w0 := res.w0 }
              let t__61 ← bid_rounding_correction rnd_mode is_inexact_lt_midpoint is_inexact_gt_midpoint is_midpoint_lt_even is_midpoint_gt_even (0 : Int32) P128 pfpsf
              P128 := t__61.1
              pfpsf := t__61.2
              scale := (Int32.ofInt (toI ((((((P128.w1 &&& c_MASK_EXP)) >>> 0x31)) - (0x1820 : UInt64)))))
              if (decide ((e4 + scale) < c_EXP_MIN_UNBIASED)) then
                is_tiny := true
            res := { res with w1 := (res.w1 ||| (p_sign ||| ((((UInt64.ofInt (toI ((e4 + (0x1820 : Int32)))))) <<< 0x31)))) }
            ind := p34
            if ((rnd_mode == RoundingMode.NearestEven) && (decide (((ind + e4)) > ((p34 + c_EXP_MAX_UNBIASED))))) then
              res := { res with w1 := (p_sign ||| (0x7800000000000000 : UInt64)) }
              res := { res with w0 := (0 : UInt64) }
              pfpsf := (pfpsf ||| (c_StatusFlags_BID_INEXACT_EXCEPTION ||| c_StatusFlags_BID_OVERFLOW_EXCEPTION))
              ptr_is_midpoint_lt_even := is_midpoint_lt_even
              ptr_is_midpoint_gt_even := is_midpoint_gt_even
              ptr_is_inexact_lt_midpoint := is_inexact_lt_midpoint
              ptr_is_inexact_gt_midpoint := is_inexact_gt_midpoint
              return (res, ptr_is_midpoint_lt_even, ptr_is_midpoint_gt_even, ptr_is_inexact_lt_midpoint, ptr_is_inexact_gt_midpoint, pfpsf)
            if (decide (e4 < c_EXP_MIN_UNBIASED)) then
              x0 := (c_EXP_MIN_UNBIASED - e4)
              is_inexact_lt_midpoint0 := is_inexact_lt_midpoint
              is_inexact_gt_midpoint0 := is_inexact_gt_midpoint
              is_midpoint_lt_even0 := is_midpoint_lt_even
              is_midpoint_gt_even0 := is_midpoint_gt_even
              is_inexact_lt_midpoint := false
              is_inexact_gt_midpoint := false
              is_midpoint_lt_even := false
              is_midpoint_gt_even := false
              let t__62 : Int32 := x0
              if (let value := t__62; (decide (value > ind))) then
                let mut value : Int32 := t__62
                is_inexact_lt_midpoint := true
                res := { res with w1 := (p_sign ||| (0 : UInt64)) }
                res := { res with w0 := (0 : UInt64) }
                e4 := c_EXP_MIN_UNBIASED
              else
                if (let value := t__62; (value == ind)) then
                  let mut value : Int32 := t__62
                  R128 := { R128 with w1 := (res.w1 &&& c_MASK_COEFF) }
                  R128 := { R128 with w0 := res.w0 }
                  if (decide (ind ≤ (0x13 : Int32))) then
                    let t__63 : UInt64 := (← tbl64 Dec.Gen.BID_MIDPOINT64 (UInt64.ofInt (toI ((ind - (1 : Int32))))))
                    if (let value := t__63; (decide (R128.w0 < value))) then
                      let mut value_64 : UInt64 := t__63
                      lt_half_ulp := true
                      is_inexact_lt_midpoint := true
                    else
                      if (let value := t__63; (R128.w0 == value)) then
                        let mut value_65 : UInt64 := t__63
                        if (is_inexact_lt_midpoint0 || is_midpoint_gt_even0) then
                          gt_half_ulp := true
                          is_inexact_gt_midpoint := true
                        else
                          if (is_inexact_gt_midpoint0 || is_midpoint_lt_even0) then
                            lt_half_ulp := true
                            is_inexact_lt_midpoint := true
                          else
                            eq_half_ulp := true
                            is_midpoint_gt_even := true
                      else
                        gt_half_ulp := true
                        is_inexact_gt_midpoint := true
                  else
                    if (← (if (decide (R128.w1 < (← tbl128 Dec.Gen.BID_MIDPOINT128 (UInt64.ofInt (toI ((ind - (0x14 : Int32)))))).w1)) then pure true else (do pure ((← (if (R128.w1 == (← tbl128 Dec.Gen.BID_MIDPOINT128 (UInt64.ofInt (toI ((ind - (0x14 : Int32)))))).w1) then (do pure (decide (R128.w0 < (← tbl128 Dec.Gen.BID_MIDPOINT128 (UInt64.ofInt (toI ((ind - (0x14 : Int32)))))).w0))) else pure false)))))) then
                      lt_half_ulp := true
                      is_inexact_lt_midpoint := true
                    else
                      if (← (if (R128.w1 == (← tbl128 Dec.Gen.BID_MIDPOINT128 (UInt64.ofInt (toI ((ind - (0x14 : Int32)))))).w1) then (do pure (R128.w0 == (← tbl128 Dec.Gen.BID_MIDPOINT128 (UInt64.ofInt (toI ((ind - (0x14 : Int32)))))).w0)) else pure false)) then
                        if (is_inexact_lt_midpoint0 || is_midpoint_gt_even0) then
                          gt_half_ulp := true
                          is_inexact_gt_midpoint := true
                        else
                          if (is_inexact_gt_midpoint0 || is_midpoint_lt_even0) then
                            lt_half_ulp := true
                            is_inexact_lt_midpoint := true
                          else
                            eq_half_ulp := true
                            is_midpoint_gt_even := true
                      else
                        gt_half_ulp := true
                        is_inexact_gt_midpoint := true
                  if (lt_half_ulp || eq_half_ulp) then
                    res := { res with w1 := (0 : UInt64) }
                    res := { res with w0 := (0 : UInt64) }
                  else
                    res := { res with w1 := (0 : UInt64) }
                    res := { res with w0 := (1 : UInt64) }
                  res := { res with w1 := (res.w1 ||| p_sign) }
                  e4 := c_EXP_MIN_UNBIASED
                else
                  if (decide (ind ≤ (0x12 : Int32))) then
                    let t__66 ← bid_round64_2_18 ind x0 res.w0 incr_exp is_midpoint_lt_even is_midpoint_gt_even is_inexact_lt_midpoint is_inexact_gt_midpoint
                    incr_exp := t__66.2.1
                    is_midpoint_lt_even := t__66.2.2.1
                    is_midpoint_gt_even := t__66.2.2.2.1
                    is_inexact_lt_midpoint := t__66.2.2.2.2.1
                    is_inexact_gt_midpoint := t__66.2.2.2.2.2
                    R64 := t__66.1
                    res := { res with w1 := (0 : UInt64) }
                    res := { res with w0 := R64 }
                  else
                    if (decide (ind ≤ (0x26 : Int32))) then
                      P128 := { P128 with w1 := (res.w1 &&& c_MASK_COEFF) }
                      P128 := { P128 with w0 := res.w0 }
                      let t__67 ← bid_round128_19_38 ind x0 P128 incr_exp is_midpoint_lt_even is_midpoint_gt_even is_inexact_lt_midpoint is_inexact_gt_midpoint
                      incr_exp := t__67.2.1
                      is_midpoint_lt_even := t__67.2.2.1
                      is_midpoint_gt_even := t__67.2.2.2.1
                      is_inexact_lt_midpoint := t__67.2.2.2.2.1
                      is_inexact_gt_midpoint := t__67.2.2.2.2.2
                      res := t__67.1
                  e4 := (e4 + x0)
                  if incr_exp then
                    P128 := { P128 with w1 := (res.w1 &&& c_MASK_COEFF) }
                    P128 := { P128 with w0 := res.w0 }
                    res := (← mul_64x128_to_128 (← tbl64 Dec.Gen.BID_TEN2K64 (UInt64.ofInt (toI 1))) P128)
                  res := { res with w1 := ((p_sign ||| ((((UInt64.ofInt (toI ((e4 + (0x1820 : Int32)))))) <<< 0x31))) ||| ((res.w1 &&& c_MASK_COEFF))) }
                  if (((is_inexact_gt_midpoint0 || is_midpoint_lt_even0)) && is_midpoint_lt_even) then
                    res := { res with w0 := (res.w0 - 1) }
                    if (res.w0 == (0xffffffffffffffff : UInt64)) then
                      res := { res with w1 := (res.w1 - 1) }
                    is_midpoint_lt_even := false
                    is_inexact_lt_midpoint := true
                  else
                    if (((is_inexact_lt_midpoint0 || is_midpoint_gt_even0)) && is_midpoint_gt_even) then
                      res := { res with w0 := (res.w0 + 1) }
                      if (res.w0 == (0 : UInt64)) then
                        res := { res with w1 := (res.w1 + 1) }
                      is_midpoint_gt_even := false
                      is_inexact_gt_midpoint := true
                    else
                      if ((((!is_midpoint_lt_even) && (!is_midpoint_gt_even)) && (!is_inexact_lt_midpoint)) && (!is_inexact_gt_midpoint)) then
                        if (is_inexact_gt_midpoint0 || is_midpoint_lt_even0) then
                          is_inexact_gt_midpoint := true
                        if (is_inexact_lt_midpoint0 || is_midpoint_gt_even0) then
                          is_inexact_lt_midpoint := true
                      else
                        if (is_midpoint_gt_even && ((is_inexact_gt_midpoint0 || is_midpoint_lt_even0))) then
                          is_inexact_lt_midpoint := true
                          is_inexact_gt_midpoint := false
                          is_midpoint_lt_even := false
                          is_midpoint_gt_even := false
                        else
                          if (is_midpoint_lt_even && ((is_inexact_lt_midpoint0 || is_midpoint_gt_even0))) then
                            is_inexact_lt_midpoint := false
                            is_inexact_gt_midpoint := true
                            is_midpoint_lt_even := false
                            is_midpoint_gt_even := false
                          else
                            pure ()
            if (rnd_mode != RoundingMode.NearestEven) then
              let t__68 ← bid_rounding_correction rnd_mode is_inexact_lt_midpoint is_inexact_gt_midpoint is_midpoint_lt_even is_midpoint_gt_even e4 res pfpsf
              res := t__68.1
              pfpsf := t__68.2
            if (((((((res.w1 &&& (0x7fffffffffffffff : UInt64))) == (0x314dc6448d93 : UInt64))) && ((res.w0 == (0x38c15b0a00000000 : UInt64))))) && (((((((rnd_mode == RoundingMode.NearestEven) || (rnd_mode == RoundingMode.NearestAway))) && ((is_midpoint_lt_even || is_inexact_gt_midpoint)))) || ((((((((rnd_mode == RoundingMode.Upward)) && (((res.w1 &&& c_MASK_SIGN)) == (0 : UInt64)))) || ((((rnd_mode == RoundingMode.Downward)) && (((res.w1 &&& c_MASK_SIGN)) != (0 : UInt64)))))) && ((((is_midpoint_lt_even || is_midpoint_gt_even) || is_inexact_lt_midpoint) || is_inexact_gt_midpoint))))))) then
              is_tiny := true
            if (((is_midpoint_lt_even || is_midpoint_gt_even) || is_inexact_lt_midpoint) || is_inexact_gt_midpoint) then
              pfpsf := (pfpsf ||| c_StatusFlags_BID_INEXACT_EXCEPTION)
              if is_tiny then
                pfpsf := (pfpsf ||| c_StatusFlags_BID_UNDERFLOW_EXCEPTION)
            ptr_is_midpoint_lt_even := is_midpoint_lt_even
            ptr_is_midpoint_gt_even := is_midpoint_gt_even
            ptr_is_inexact_lt_midpoint := is_inexact_lt_midpoint
            ptr_is_inexact_gt_midpoint := is_inexact_gt_midpoint
            return (res, ptr_is_midpoint_lt_even, ptr_is_midpoint_gt_even, ptr_is_inexact_lt_midpoint, ptr_is_inexact_gt_midpoint, pfpsf)
          else
            if (((((decide (p34 ≤ delta)) && (decide ((delta + q3) ≤ q4)))) || ((((decide (delta < p34)) && (decide (p34 < (delta + q3)))) && (decide ((delta + q3) ≤ q4))))) || (((decide ((delta + q3) ≤ p34)) && (decide (p34 < q4))))) then
              let t__69 ← bid_add_and_round q3 q4 e4 delta p34 z_sign p_sign C3 C4 rnd_mode is_midpoint_lt_even is_midpoint_gt_even is_inexact_lt_midpoint is_inexact_gt_midpoint pfpsf
              is_midpoint_lt_even := t__69.2.1
              is_midpoint_gt_even := t__69.2.2.1
              is_inexact_lt_midpoint := t__69.2.2.2.1
              is_inexact_gt_midpoint := t__69.2.2.2.2.1
              pfpsf := t__69.2.2.2.2.2
              res := t__69.1
              ptr_is_midpoint_lt_even := is_midpoint_lt_even
              ptr_is_midpoint_gt_even := is_midpoint_gt_even
              ptr_is_inexact_lt_midpoint := is_inexact_lt_midpoint
              ptr_is_inexact_gt_midpoint := is_inexact_gt_midpoint
              return (res, ptr_is_midpoint_lt_even, ptr_is_midpoint_gt_even, ptr_is_inexact_lt_midpoint, ptr_is_inexact_gt_midpoint, pfpsf)
            else
              pure ()
    brk__19 := true
    break
  if !brk__19 then throw "loop fuel exhausted"
  ptr_is_midpoint_lt_even := is_midpoint_lt_even
  ptr_is_midpoint_gt_even := is_midpoint_gt_even
  ptr_is_inexact_lt_midpoint := is_inexact_lt_midpoint
  ptr_is_inexact_gt_midpoint := is_inexact_gt_midpoint
  return (res, ptr_is_midpoint_lt_even, ptr_is_midpoint_gt_even, ptr_is_inexact_lt_midpoint, ptr_is_inexact_gt_midpoint, pfpsf)

/-- **`ext_fma_shape`**: the routine is its front end followed by the case analysis -/
set_option maxHeartbeats 4000000 in
theorem ext_fma_shape (p1 p2 p3 p4 : Bool) (x y z : U128) (m : RoundingMode) (f : UInt32) :
    bid128_ext_fma p1 p2 p3 p4 x y z m f = frontK x y z m f (caseLoop p1 p2 p3 p4) := by
  lockstep Dec.C02GenFmaFront

end Dec.C02GenFmaFront
