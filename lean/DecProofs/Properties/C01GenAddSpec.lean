/-
  C01 (generated-code level), headline: `bid128_add` and `bid128_sub` are the model's `addD` / `subD` — datum and flags —
  for ALL inputs and all five rounding modes, with no hypothesis left.  Assembly of
    C01GenAdd.lean / C01GenAddLoop.lean            infinities, zeros, exact / aligned / far branches, delta = P34 main part
    C01GenAddRound.lean + C01GenAddRoundBlock.lean  the reciprocal rounding block; delta = P34 power-of-ten sub-case (D1);
                                                    the rounding loop, one turn and one rounding
    C01GenAddLoop35.lean (arm A)                    the loop, equal signs, 35-digit sum: second rounding and its repair
    C01GenAddLoopB.lean / B2 / BClosed (arm B)      the loop, opposite signs, cancellation: `second_pass`
-/
import DecProofs.Properties.C01GenAddLoopBClosed
import DecProofs.Properties.C01GenAddLoop35

namespace Dec.C01GenAddSpec
open Dec.Rs Dec.Gen.Code Dec.C06GenFromInt Dec.C01GenAdd Dec.C01GenAddLoop Dec.C01GenAddRound
open Dec.C13GenPack (md)
open Dec.C01GenAddRoundBlock (roundBlockSpec)

/-- arm (A), in the form the assembly consumes -/
theorem armARounding : Dec.C01GenAddLoopB2.ArmARounding := by
  intro x y m f s1 s2 c1 c2 e1 e2 hx hy hc1 hc2 h
  exact Dec.C01GenAddLoop35.add_loopA roundBlockSpec x y m f hx hy hc1 hc2 h

/-- the rounding loop is closed -/
theorem loopRestRounding : LoopRestRounding := Dec.C01GenAddLoopBClosed.loop_rest_of_armA armARounding

/-- the remaining region of `C01GenAddLoop.lean` is closed -/
theorem addRounding : AddRounding := Dec.C01GenAddRoundClosed.add_rounding_partial' loopRestRounding

/-- **`bid128_add` = `addD` for all inputs, all rounding modes** (result word and status flags; NaN operands by the NaN
rules of `binSpec`) -/
theorem bid128_add_spec (x y : U128) (m : RoundingMode) (f : UInt32) :
    bid128_add x y m f = .ok (binSpec (addD (md m)) x y f) :=
  Dec.C01GenAddLoopBClosed.bid128_add_spec_upToA armARounding x y m f

/-- **`bid128_sub` = `subD` for all inputs, all rounding modes** -/
theorem bid128_sub_spec (x y : U128) (m : RoundingMode) (f : UInt32) :
    bid128_sub x y m f = .ok (binSpec (subD (md m)) x y f) :=
  Dec.C01GenAddLoopBClosed.bid128_sub_spec_upToA armARounding x y m f

-- 5 − 3 = 2
example : bid128_sub ⟨5, 0x3040000000000000⟩ ⟨3, 0x3040000000000000⟩ .NearestEven 0
    = .ok (binSpec (subD (md .NearestEven)) ⟨5, 0x3040000000000000⟩ ⟨3, 0x3040000000000000⟩ 0) :=
  bid128_sub_spec _ _ _ _

/-! ## The public methods -/

open Dec.Gen.Api
open Dec.C12GenNaN

/-- `d128::addition`: returns normally with what the specification prescribes, for all inputs -/
theorem api_addition (m : RoundingMode) (f : UInt32) (x y : U128) :
    run "addition" m f [.d x, .d y] =
      some (.ok ([.d (binSpec (addD (md m)) x y f).1], (binSpec (addD (md m)) x y f).2)) := by
  rw [run_addition, bid128_add_spec x y m f]
  generalize binSpec (addD (md m)) x y f = p
  cases p; rfl

/-- `d128::subtraction`, for all inputs -/
theorem api_subtraction (m : RoundingMode) (f : UInt32) (x y : U128) :
    run "subtraction" m f [.d x, .d y] =
      some (.ok ([.d (binSpec (subD (md m)) x y f).1], (binSpec (subD (md m)) x y f).2)) := by
  rw [run_subtraction, bid128_sub_spec x y m f]
  generalize binSpec (subD (md m)) x y f = p
  cases p; rfl

/-- C01, addition, "For any operands … and each of the five rounding modes, addition … return[s], bit for
bit, the IEEE 754-2008 decimal128 result: the exact mathematical value rounded once in the requested direction, encoded
with the preferred quantum exponent (exact results) or the least possible exponent (inexact results), with the standard's
sign-of-zero, overflow … rules.  The status bits newly raised are exactly inexact / overflow / underflow …".  For finite
`x = ±c₁·10^e₁`, `y = ±c₂·10^e₂` with exact sum `V`: the method returns normally a canonical pattern; if `V = 0` the zero
of exponent `min e₁ e₂` with the sign of the IEEE rule (`zeroSumSign`: `−` only for two negative zeros-sums or in
`Downward`) and no new flag; otherwise THE strict correct delivery of `V` (`FinishSpecStrict`: `V` itself at the cohort
exponent closest to `min e₁ e₂` without a flag, else rounded once in the mode at the least exponent, inexact, underflow iff
tiny, or the mode's overflow result) — datum and exactly those flags OR-ed into the status word. -/
theorem addition_property (m : RoundingMode) (f : UInt32) (x y : U128) (s1 s2 : Bool) (c1 c2 : Nat) (e1 e2 : Int)
    (hx : dOf x = .fin s1 c1 e1) (hy : dOf y = .fin s2 c2 e2) :
    ∃ r g, run "addition" m f [.d x, .d y] = some (.ok ([.d r], g)) ∧ isCanonical (bitsOf r) = true ∧
      (fval s1 c1 e1 + fval s2 c2 e2 = 0 → dOf r = zeroAt (zeroSumSign (md m) s1 s2) (min e1 e2) ∧ g = f) ∧
      (fval s1 c1 e1 + fval s2 c2 e2 ≠ 0 → ∃ out : Datum × Flags,
        FinishSpecStrict (md m) (decide (fval s1 c1 e1 + fval s2 c2 e2 < 0)) |fval s1 c1 e1 + fval s2 c2 e2| (min e1 e2) out ∧
        dOf r = out.1 ∧ g = f ||| UInt32.ofNat out.2) := by
  have hw : (addD (md m) (dOf x) (dOf y)).1.WF := by
    rw [hx, hy]; exact addFin_WF _ _ _ _ _ _ _ _
  obtain ⟨hd, hc⟩ := result_datum hw
  have hb : binSpec (addD (md m)) x y f =
      (ofBits (encode (addD (md m) (dOf x) (dOf y)).1), f ||| UInt32.ofNat (addD (md m) (dOf x) (dOf y)).2) := by
    unfold binSpec; rw [if_neg (by rw [hx, hy]; exact fun h => Bool.noConfusion h)]
  refine ⟨_, _, api_addition m f x y, by rw [hb]; exact hc, ?_, ?_⟩
  · intro hV
    have := (Dec.C01Q.add_correct (md m) s1 c1 e1 s2 c2 e2).1 hV
    rw [hb]
    show dOf (ofBits (encode (addD (md m) (dOf x) (dOf y)).1)) = _ ∧ f ||| UInt32.ofNat (addD (md m) (dOf x) (dOf y)).2 = f
    rw [hd, hx, hy, this]
    exact ⟨rfl, or_zero32 f⟩
  · intro hV
    refine ⟨addD (md m) (.fin s1 c1 e1) (.fin s2 c2 e2), Dec.C01Strict.add_correct_strict (md m) s1 c1 e1 s2 c2 e2 hV, ?_, ?_⟩
    · rw [hb]
      show dOf (ofBits (encode (addD (md m) (dOf x) (dOf y)).1)) = _
      rw [hd, hx, hy]
    · rw [hb, hx, hy]

/-- C01, subtraction, as `addition_property` for the exact difference -/
theorem subtraction_property (m : RoundingMode) (f : UInt32) (x y : U128) (s1 s2 : Bool) (c1 c2 : Nat) (e1 e2 : Int)
    (hx : dOf x = .fin s1 c1 e1) (hy : dOf y = .fin s2 c2 e2) :
    ∃ r g, run "subtraction" m f [.d x, .d y] = some (.ok ([.d r], g)) ∧ isCanonical (bitsOf r) = true ∧
      (fval s1 c1 e1 - fval s2 c2 e2 = 0 → dOf r = zeroAt (zeroSumSign (md m) s1 (!s2)) (min e1 e2) ∧ g = f) ∧
      (fval s1 c1 e1 - fval s2 c2 e2 ≠ 0 → ∃ out : Datum × Flags,
        FinishSpecStrict (md m) (decide (fval s1 c1 e1 - fval s2 c2 e2 < 0)) |fval s1 c1 e1 - fval s2 c2 e2| (min e1 e2) out ∧
        dOf r = out.1 ∧ g = f ||| UInt32.ofNat out.2) := by
  have hsub : subD (md m) (dOf x) (dOf y) = addD (md m) (.fin s1 c1 e1) (.fin (!s2) c2 e2) := by rw [hx, hy]; rfl
  have hw : (subD (md m) (dOf x) (dOf y)).1.WF := by
    rw [hsub]; exact addFin_WF _ _ _ _ _ _ _ _
  obtain ⟨hd, hc⟩ := result_datum hw
  have hb : binSpec (subD (md m)) x y f =
      (ofBits (encode (subD (md m) (dOf x) (dOf y)).1), f ||| UInt32.ofNat (subD (md m) (dOf x) (dOf y)).2) := by
    unfold binSpec; rw [if_neg (by rw [hx, hy]; exact fun h => Bool.noConfusion h)]
  refine ⟨_, _, api_subtraction m f x y, by rw [hb]; exact hc, ?_, ?_⟩
  · intro hV
    have := (Dec.C01Q.sub_correct (md m) s1 c1 e1 s2 c2 e2).1 hV
    rw [hb]
    show dOf (ofBits (encode (subD (md m) (dOf x) (dOf y)).1)) = _ ∧ f ||| UInt32.ofNat (subD (md m) (dOf x) (dOf y)).2 = f
    rw [hd, hx, hy, this]
    exact ⟨rfl, or_zero32 f⟩
  · intro hV
    refine ⟨subD (md m) (.fin s1 c1 e1) (.fin s2 c2 e2), Dec.C01Strict.sub_correct_strict (md m) s1 c1 e1 s2 c2 e2 hV, ?_, ?_⟩
    · rw [hb]
      show dOf (ofBits (encode (subD (md m) (dOf x) (dOf y)).1)) = _
      rw [hd, hx, hy]
    · rw [hb, hx, hy]

end Dec.C01GenAddSpec
