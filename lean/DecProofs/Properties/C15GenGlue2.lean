/-
  The trait glue of `src/d128.rs`, second part: `Sum` / `Product` and C15 (never panics) for all 35 glue operations of the
  regenerated dispatch `DecGen/Api3.lean`.  See `C15GenGlue.lean` for the setting.
  Axioms: `propext`, `Classical.choice`, `Quot.sound`.
-/
import DecProofs.Properties.C15GenGlue

set_option linter.unusedVariables false

namespace Dec.C15GenGlue
open Dec Dec.Rs Dec.Gen.Code Dec.Gen.Code3 Dec.Gen.Api Dec.Gen.Api3

/-! ## 4. `Sum` / `Product`: left folds of the operator from `ZERO` / `ONE` -/

set_option quotPrecheck false in
/-- one step of `sum`: what `a + b` returns.  (A notation, not a definition: comparing a defined constant with the projection
`(binSpec …).1` sends both the elaborator and the kernel into unfolding `binSpec` — minutes, then "deep recursion".) -/
local notation "addStep" => (fun (a b : U128) => (Dec.C01GenAddLoop.binSpec (addD Mode.rne) a b 0).fst)
set_option quotPrecheck false in
/-- one step of `product`: what `a * b` returns -/
local notation "mulStep" => (fun (a b : U128) => (Dec.C10GenFmodRem.binSpec (mulD Mode.rne) a b 0).fst)

/-- a monadic left fold of a step that always returns is the pure left fold -/
theorem foldlM_ok {α : Type} (f : α → α → Except String α) (g : α → α → α) (h : ∀ a b, f a b = .ok (g a b)) :
    ∀ (xs : List α) (init : α), xs.foldlM f init = .ok (xs.foldl g init)
  | [], _ => rfl
  | x :: xs, init => by
    rw [List.foldlM_cons, h, List.foldl_cons]
    exact foldlM_ok f g h xs (g init x)

theorem fold_add (init : U128) (xs : List U128) : Dec.Gen.Api3.foldOp d128_Add_add init xs = .ok (xs.foldl addStep init) :=
  foldlM_ok _ _ op_add_spec xs init
theorem fold_mul (init : U128) (xs : List U128) : Dec.Gen.Api3.foldOp d128_Mul_mul init xs = .ok (xs.foldl mulStep init) :=
  foldlM_ok _ _ op_mul_spec xs init

theorem bitsOf_map (xs : List U128) : Dec.Gen.Api3.bitsOf (xs.map AVal.d) = some xs := by
  induction xs with
  | nil => rfl
  | cons x xs ih => simp [Dec.Gen.Api3.bitsOf, ih]

/-- **`iter.sum()`** over any number of operands (every pattern): never fails, and is the left fold of the specification's
addition step (nearest-even, NaN rule) from +0E+0; the empty sum is `ZERO` -/
theorem sum_spec (xs : List U128) : run3 "sum" (xs.map .d) = some (.ok [.d (xs.foldl addStep c_ZERO)]) := by
  rw [show run3 "sum" (xs.map AVal.d) = (Dec.Gen.Api3.bitsOf (xs.map AVal.d)).map (fun ys => (Dec.Gen.Api3.foldOp d128_Add_add c_ZERO ys).map fun r => [AVal.d r]) from ?_,
    bitsOf_map, Option.map_some, fold_add]; rfl
  cases xs <;> rfl
theorem sum_ref_spec (xs : List U128) : run3 "sum_ref" (xs.map .d) = some (.ok [.d (xs.foldl addStep c_ZERO)]) := by
  rw [show run3 "sum_ref" (xs.map AVal.d) = (Dec.Gen.Api3.bitsOf (xs.map AVal.d)).map (fun ys => (Dec.Gen.Api3.foldOp d128_Add_add c_ZERO ys).map fun r => [AVal.d r]) from ?_,
    bitsOf_map, Option.map_some, fold_add]; rfl
  cases xs <;> rfl
/-- **`iter.product()`**: never fails; the left fold of the multiplication step from +1E+0 -/
theorem product_spec (xs : List U128) : run3 "product" (xs.map .d) = some (.ok [.d (xs.foldl mulStep c_ONE)]) := by
  rw [show run3 "product" (xs.map AVal.d) = (Dec.Gen.Api3.bitsOf (xs.map AVal.d)).map (fun ys => (Dec.Gen.Api3.foldOp d128_Mul_mul c_ONE ys).map fun r => [AVal.d r]) from ?_,
    bitsOf_map, Option.map_some, fold_mul]; rfl
  cases xs <;> rfl
theorem product_ref_spec (xs : List U128) : run3 "product_ref" (xs.map .d) = some (.ok [.d (xs.foldl mulStep c_ONE)]) := by
  rw [show run3 "product_ref" (xs.map AVal.d) = (Dec.Gen.Api3.bitsOf (xs.map AVal.d)).map (fun ys => (Dec.Gen.Api3.foldOp d128_Mul_mul c_ONE ys).map fun r => [AVal.d r]) from ?_,
    bitsOf_map, Option.map_some, fold_mul]; rfl
  cases xs <;> rfl

-- 1 + 2 + 5 = 8 (through the translated glue and the translated `bid128_add`)
example : run3 "sum" [.d ⟨1, 0x3040000000000000⟩, .d ⟨2, 0x3040000000000000⟩, .d ⟨5, 0x3040000000000000⟩]
    = some (.ok [.d ⟨8, 0x3040000000000000⟩]) := by decide +kernel
-- the empty product is ONE
example : run3 "product" [] = some (.ok [.d c_ONE]) := by decide +kernel

/-! ## 5. C15 for the glue: every operation of `run3` returns normally on every well-typed argument list -/

theorem total_op_add (x y : U128) : ∃ r, run3 "op_add" [.d x, .d y] = some (.ok r) := by
  rw [show run3 "op_add" [.d x, .d y] = some ((d128_Add_add x y).map fun r => [AVal.d r]) from rfl, op_add_spec]; exact ⟨_, rfl⟩
theorem total_op_add_ref (x y : U128) : ∃ r, run3 "op_add_ref" [.d x, .d y] = some (.ok r) := by
  rw [show run3 "op_add_ref" [.d x, .d y] = some ((d128_Add_add x y).map fun r => [AVal.d r]) from rfl, op_add_spec]; exact ⟨_, rfl⟩
theorem total_op_add_assign (x y : U128) : ∃ r, run3 "op_add_assign" [.d x, .d y] = some (.ok r) := by
  rw [show run3 "op_add_assign" [.d x, .d y] = some ((d128_AddAssign_add_assign x y).map fun r => [AVal.d r]) from rfl, add_assign_eq, op_add_spec]; exact ⟨_, rfl⟩
theorem total_op_add_assign_ref (x y : U128) : ∃ r, run3 "op_add_assign_ref" [.d x, .d y] = some (.ok r) := by
  rw [show run3 "op_add_assign_ref" [.d x, .d y] = some ((d128_AddAssign_add_assign x y).map fun r => [AVal.d r]) from rfl, add_assign_eq, op_add_spec]; exact ⟨_, rfl⟩
theorem total_op_sub (x y : U128) : ∃ r, run3 "op_sub" [.d x, .d y] = some (.ok r) := by
  rw [show run3 "op_sub" [.d x, .d y] = some ((d128_Sub_sub x y).map fun r => [AVal.d r]) from rfl, op_sub_spec]; exact ⟨_, rfl⟩
theorem total_op_sub_ref (x y : U128) : ∃ r, run3 "op_sub_ref" [.d x, .d y] = some (.ok r) := by
  rw [show run3 "op_sub_ref" [.d x, .d y] = some ((d128_Sub_sub x y).map fun r => [AVal.d r]) from rfl, op_sub_spec]; exact ⟨_, rfl⟩
theorem total_op_sub_assign (x y : U128) : ∃ r, run3 "op_sub_assign" [.d x, .d y] = some (.ok r) := by
  rw [show run3 "op_sub_assign" [.d x, .d y] = some ((d128_SubAssign_sub_assign x y).map fun r => [AVal.d r]) from rfl, sub_assign_eq, op_sub_spec]; exact ⟨_, rfl⟩
theorem total_op_sub_assign_ref (x y : U128) : ∃ r, run3 "op_sub_assign_ref" [.d x, .d y] = some (.ok r) := by
  rw [show run3 "op_sub_assign_ref" [.d x, .d y] = some ((d128_SubAssign_sub_assign x y).map fun r => [AVal.d r]) from rfl, sub_assign_eq, op_sub_spec]; exact ⟨_, rfl⟩
theorem total_op_mul (x y : U128) : ∃ r, run3 "op_mul" [.d x, .d y] = some (.ok r) := by
  rw [show run3 "op_mul" [.d x, .d y] = some ((d128_Mul_mul x y).map fun r => [AVal.d r]) from rfl, op_mul_spec]; exact ⟨_, rfl⟩
theorem total_op_mul_ref (x y : U128) : ∃ r, run3 "op_mul_ref" [.d x, .d y] = some (.ok r) := by
  rw [show run3 "op_mul_ref" [.d x, .d y] = some ((d128_Mul_mul x y).map fun r => [AVal.d r]) from rfl, op_mul_spec]; exact ⟨_, rfl⟩
theorem total_op_mul_assign (x y : U128) : ∃ r, run3 "op_mul_assign" [.d x, .d y] = some (.ok r) := by
  rw [show run3 "op_mul_assign" [.d x, .d y] = some ((d128_MulAssign_mul_assign x y).map fun r => [AVal.d r]) from rfl, mul_assign_eq, op_mul_spec]; exact ⟨_, rfl⟩
theorem total_op_mul_assign_ref (x y : U128) : ∃ r, run3 "op_mul_assign_ref" [.d x, .d y] = some (.ok r) := by
  rw [show run3 "op_mul_assign_ref" [.d x, .d y] = some ((d128_MulAssign_mul_assign x y).map fun r => [AVal.d r]) from rfl, mul_assign_eq, op_mul_spec]; exact ⟨_, rfl⟩
theorem total_op_div (x y : U128) : ∃ r, run3 "op_div" [.d x, .d y] = some (.ok r) := by
  rw [show run3 "op_div" [.d x, .d y] = some ((d128_Div_div x y).map fun r => [AVal.d r]) from rfl, op_div_spec]; exact ⟨_, rfl⟩
theorem total_op_div_ref (x y : U128) : ∃ r, run3 "op_div_ref" [.d x, .d y] = some (.ok r) := by
  rw [show run3 "op_div_ref" [.d x, .d y] = some ((d128_Div_div x y).map fun r => [AVal.d r]) from rfl, op_div_spec]; exact ⟨_, rfl⟩
theorem total_op_div_assign (x y : U128) : ∃ r, run3 "op_div_assign" [.d x, .d y] = some (.ok r) := by
  rw [show run3 "op_div_assign" [.d x, .d y] = some ((d128_DivAssign_div_assign x y).map fun r => [AVal.d r]) from rfl, div_assign_eq, op_div_spec]; exact ⟨_, rfl⟩
theorem total_op_div_assign_ref (x y : U128) : ∃ r, run3 "op_div_assign_ref" [.d x, .d y] = some (.ok r) := by
  rw [show run3 "op_div_assign_ref" [.d x, .d y] = some ((d128_DivAssign_div_assign x y).map fun r => [AVal.d r]) from rfl, div_assign_eq, op_div_spec]; exact ⟨_, rfl⟩
theorem total_op_rem (x y : U128) : ∃ r, run3 "op_rem" [.d x, .d y] = some (.ok r) := by
  rw [show run3 "op_rem" [.d x, .d y] = some ((d128_Rem_rem x y).map fun r => [AVal.d r]) from rfl, op_rem_spec]; exact ⟨_, rfl⟩
theorem total_op_rem_ref (x y : U128) : ∃ r, run3 "op_rem_ref" [.d x, .d y] = some (.ok r) := by
  rw [show run3 "op_rem_ref" [.d x, .d y] = some ((d128_Rem_rem x y).map fun r => [AVal.d r]) from rfl, op_rem_spec]; exact ⟨_, rfl⟩
theorem total_op_rem_assign (x y : U128) : ∃ r, run3 "op_rem_assign" [.d x, .d y] = some (.ok r) := by
  rw [show run3 "op_rem_assign" [.d x, .d y] = some ((d128_RemAssign_rem_assign x y).map fun r => [AVal.d r]) from rfl, rem_assign_eq, op_rem_spec]; exact ⟨_, rfl⟩
theorem total_op_rem_assign_ref (x y : U128) : ∃ r, run3 "op_rem_assign_ref" [.d x, .d y] = some (.ok r) := by
  rw [show run3 "op_rem_assign_ref" [.d x, .d y] = some ((d128_RemAssign_rem_assign x y).map fun r => [AVal.d r]) from rfl, rem_assign_eq, op_rem_spec]; exact ⟨_, rfl⟩
theorem total_op_neg (x : U128) : ∃ r, run3 "op_neg" [.d x] = some (.ok r) := by
  rw [show run3 "op_neg" [.d x] = some ((d128_Neg_neg x).map fun r => [AVal.d r]) from rfl, neg_spec]; exact ⟨_, rfl⟩
theorem total_op_neg_ref (x : U128) : ∃ r, run3 "op_neg_ref" [.d x] = some (.ok r) := by
  rw [show run3 "op_neg_ref" [.d x] = some ((d128_Neg_neg x).map fun r => [AVal.d r]) from rfl, neg_spec]; exact ⟨_, rfl⟩
theorem total_from_i32 (n : Int) : ∃ r, run3 "from_i32" [.i n] = some (.ok r) := by
  rw [show run3 "from_i32" [.i n] = some ((d128_From_i32_from (Int32.ofInt n)).map fun r => [AVal.d r]) from rfl, from_i32_spec]; exact ⟨_, rfl⟩
theorem total_from_u32 (n : Int) : ∃ r, run3 "from_u32" [.i n] = some (.ok r) := by
  rw [show run3 "from_u32" [.i n] = some ((d128_From_u32_from (UInt32.ofInt n)).map fun r => [AVal.d r]) from rfl, from_u32_spec]; exact ⟨_, rfl⟩
theorem total_from_i64 (n : Int) : ∃ r, run3 "from_i64" [.i n] = some (.ok r) := by
  rw [show run3 "from_i64" [.i n] = some ((d128_From_i64_from (Int64.ofInt n)).map fun r => [AVal.d r]) from rfl, from_i64_spec]; exact ⟨_, rfl⟩
theorem total_from_u64 (n : Int) : ∃ r, run3 "from_u64" [.i n] = some (.ok r) := by
  rw [show run3 "from_u64" [.i n] = some ((d128_From_u64_from (UInt64.ofInt n)).map fun r => [AVal.d r]) from rfl, from_u64_spec]; exact ⟨_, rfl⟩
theorem total_from_u128 (n : Int) : ∃ r, run3 "from_u128" [.i n] = some (.ok r) := by
  rw [show run3 "from_u128" [.i n] = some ((d128_From_u128_from n.toNat).map fun r => [AVal.d r]) from rfl, from_u128_spec]; exact ⟨_, rfl⟩
theorem total_default : ∃ r, run3 "default" [] = some (.ok r) := by
  rw [show run3 "default" [] = some ((d128_Default_default).map fun r => [AVal.d r]) from rfl, default_spec]; exact ⟨_, rfl⟩
theorem total_copy (x : U128) : ∃ r, run3 "copy" [.d x] = some (.ok r) := ⟨_, rfl⟩
theorem total_copy_sign (x y : U128) : ∃ r, run3 "copy_sign" [.d x, .d y] = some (.ok r) := by
  rw [show run3 "copy_sign" [.d x, .d y] = some ((d128_copy_sign x y).map fun r => [AVal.d r]) from rfl, copy_sign_spec']; exact ⟨_, rfl⟩
theorem total_is_canonical (x : U128) : ∃ r, run3 "is_canonical" [.d x] = some (.ok r) := by
  rw [show run3 "is_canonical" [.d x] = some ((d128_is_canonical x).map fun r => [AVal.b r]) from rfl, is_canonical_spec']; exact ⟨_, rfl⟩

/-- the 35 operations with a totality theorem above, and the four text entry points of `run3s`, are exactly the regenerated dispatch -/
theorem glue_ops_listed : Dec.Gen.Api3.covered.map (·.1) =
    ["op_add", "op_add_ref", "op_add_assign", "op_add_assign_ref", "op_sub", "op_sub_ref", "op_sub_assign", "op_sub_assign_ref",
     "op_mul", "op_mul_ref", "op_mul_assign", "op_mul_assign_ref", "op_div", "op_div_ref", "op_div_assign", "op_div_assign_ref",
     "op_rem", "op_rem_ref", "op_rem_assign", "op_rem_assign_ref", "op_neg", "op_neg_ref",
     "from_i32", "from_u32", "from_i64", "from_u64", "from_u128", "default", "copy", "copy_sign", "is_canonical",
     "sum", "sum_ref", "product", "product_ref",
     -- the four text entry points, over the string routine as a parameter: `C14GenTextGlue`
     "convert_from_decimal_character", "from_str", "from_string_ref", "nan",
     -- the four formatter impls, over the formatter as a parameter: `C14GenTextGlue`
     "display", "debug", "upperexp", "lowerexp"] := by decide +kernel

/-! ## 6. The public constants, as the source writes them -/

/-- the datum each `pub const … : d128` of d128.rs denotes: the twelve constants are canonical encodings of
−1, +0, +1, ±qNaN, ±sNaN (payload 0), ±∞, 1E−33 (`EPSILON`), 1E−6143 (`MIN`, the least positive normal number) and
(10^34 − 1)E+6111 (`MAX`) — scraped from the source on every run, evaluated by the kernel -/
theorem constants_spec :
    Dec.Gen.Api3.constants.map (fun p => (p.1, Dec.C06GenFromInt.bitsOf p.2)) =
      [("MINUS_ONE", encode (.fin true 1 0)), ("ZERO", encode (.fin false 0 0)), ("ONE", encode (.fin false 1 0)),
       ("NAN", encode (.nan false false 0)), ("NEG_NAN", encode (.nan true false 0)),
       ("SNAN", encode (.nan false true 0)), ("NEG_SNAN", encode (.nan true true 0)),
       ("INFINITY", encode (.inf false)), ("NEGATIVE_INFINITY", encode (.inf true)),
       ("EPSILON", encode (.fin false 1 (-33))), ("MIN", encode (.fin false 1 (-6143))),
       ("MAX", encode (.fin false (10^34 - 1) 6111))] := by decide +kernel

/-- … and they are the values the specification judge expects of the `const` observations -/
theorem constants_judged :
    Dec.Gen.Api3.constants.map (fun p => (p.1, Dec.C06GenFromInt.bitsOf p.2)) = Dec.constTable := by decide +kernel

/-! ## 7. One statement for the 35 operations of `run3` -/

/-- argument shapes of the glue operations -/
inductive Shape | dd | d | i | none | ds
  deriving DecidableEq, Repr

/-- an argument list of the given shape: two decimals / one decimal / one integer / nothing / any number of decimals -/
def WellTyped : Shape → List AVal → Prop
  | .dd, args => ∃ x y : U128, args = [.d x, .d y]
  | .d, args => ∃ x : U128, args = [.d x]
  | .i, args => ∃ n : Int, args = [.i n]
  | .none, args => args = []
  | .ds, args => ∃ xs : List U128, args = xs.map AVal.d

/-- the 35 operations of `run3` with their shapes -/
def glueOps : List (String × Shape) := [
  ("op_add", .dd), ("op_add_ref", .dd), ("op_add_assign", .dd), ("op_add_assign_ref", .dd),
  ("op_sub", .dd), ("op_sub_ref", .dd), ("op_sub_assign", .dd), ("op_sub_assign_ref", .dd),
  ("op_mul", .dd), ("op_mul_ref", .dd), ("op_mul_assign", .dd), ("op_mul_assign_ref", .dd),
  ("op_div", .dd), ("op_div_ref", .dd), ("op_div_assign", .dd), ("op_div_assign_ref", .dd),
  ("op_rem", .dd), ("op_rem_ref", .dd), ("op_rem_assign", .dd), ("op_rem_assign_ref", .dd),
  ("op_neg", .d), ("op_neg_ref", .d),
  ("from_i32", .i), ("from_u32", .i), ("from_i64", .i), ("from_u64", .i), ("from_u128", .i), ("default", .none),
  ("copy", .d), ("copy_sign", .dd), ("is_canonical", .d),
  ("sum", .ds), ("sum_ref", .ds), ("product", .ds), ("product_ref", .ds)]

/-- `glueOps` names exactly the operations of the regenerated dispatch that `run3` serves (the remaining eight of
`Api3.covered` are the text and formatter operations of `run3s` / `run3f`) -/
theorem glueOps_covered : glueOps.map (·.1) = (Dec.Gen.Api3.covered.map (·.1)).take 35 := by decide +kernel

/-- **C15 for the glue, one statement**: every operation of `run3`, on every argument list of its shape (all bit patterns,
every `Int`, folds of any length), returns normally -/
theorem glue_total : ∀ p ∈ glueOps, ∀ args, WellTyped p.2 args → ∃ r, run3 p.1 args = some (.ok r) := by
  intro p hp args hw
  simp only [glueOps, List.mem_cons, List.mem_nil_iff, or_false] at hp
  rcases hp with rfl | rfl | rfl | rfl | rfl | rfl | rfl | rfl | rfl | rfl | rfl | rfl | rfl | rfl | rfl | rfl | rfl | rfl | rfl | rfl |
    rfl | rfl | rfl | rfl | rfl | rfl | rfl | rfl | rfl | rfl | rfl | rfl | rfl | rfl | rfl
  all_goals first
    | (obtain ⟨x, y, rfl⟩ := hw; first
        | exact total_op_add x y | exact total_op_add_ref x y | exact total_op_add_assign x y | exact total_op_add_assign_ref x y
        | exact total_op_sub x y | exact total_op_sub_ref x y | exact total_op_sub_assign x y | exact total_op_sub_assign_ref x y
        | exact total_op_mul x y | exact total_op_mul_ref x y | exact total_op_mul_assign x y | exact total_op_mul_assign_ref x y
        | exact total_op_div x y | exact total_op_div_ref x y | exact total_op_div_assign x y | exact total_op_div_assign_ref x y
        | exact total_op_rem x y | exact total_op_rem_ref x y | exact total_op_rem_assign x y | exact total_op_rem_assign_ref x y
        | exact total_copy_sign x y)
    | (obtain ⟨x, rfl⟩ := hw; first
        | exact total_op_neg x | exact total_op_neg_ref x | exact total_copy x | exact total_is_canonical x
        | exact total_from_i32 x | exact total_from_u32 x | exact total_from_i64 x | exact total_from_u64 x | exact total_from_u128 x
        | exact ⟨_, sum_spec x⟩ | exact ⟨_, sum_ref_spec x⟩ | exact ⟨_, product_spec x⟩ | exact ⟨_, product_ref_spec x⟩)
    | (cases hw; exact total_default)

end Dec.C15GenGlue
