/-
  C01 (generated-code level): the results of `C01GenAddRound.lean` with the specification of the inline rounding block
  discharged (`Dec.C01GenAddRoundBlock.roundBlockSpec`).  The only named hypothesis left in C01 is
  `Dec.C01GenAddRound.LoopRestRounding` (the open rest of the rounding loop of `bid128_add`).
-/
import DecProofs.Properties.C01GenAddRound
import DecProofs.Properties.C01GenAddRoundBlock

namespace Dec.C01GenAddRoundClosed
open Dec.Rs Dec.Gen.Code Dec.C06GenFromInt Dec.C01GenAdd Dec.C01GenAddLoop Dec.C01GenAddRound
open Dec.C13GenPack (md)
open Dec.C01GenAddRoundBlock (roundBlockSpec)

/-- **`bid128_add` on `PowCond`** (delta = P34, opposite signs, first coefficient a power of ten; region of the former
defect D1) is `addD`, datum and flags, all five modes -/
theorem add_d34pow' (x y : U128) (m : RoundingMode) (f : UInt32) {s1 s2 : Bool} {c1 c2 : Nat} {e1 e2 : Int}
    (hx : decode (bitsOf x) = .fin s1 c1 e1) (hy : decode (bitsOf y) = .fin s2 c2 e2) (hc1 : c1 ≠ 0) (hc2 : c2 ≠ 0)
    (h : PowCond s1 c1 e1 s2 c2 e2) :
    bid128_add x y m f =
      .ok (ofBits (encode (addD (md m) (decode (bitsOf x)) (decode (bitsOf y))).1),
           f ||| UInt32.ofNat (addD (md m) (decode (bitsOf x)) (decode (bitsOf y))).2) :=
  add_d34pow roundBlockSpec x y m f hx hy hc1 hc2 h

-- the witness of the former defect D1: 1.000E-23 + (−4.5E-57), Downward: 9.999999999999999999999999999999995E-24, inexact
example : bid128_add ⟨1000, 0x300c000000000000⟩ ⟨45, 0xafcc000000000000⟩ .Downward 0
    = .ok (ofBits (encode (.fin false (10^34 - 5) (-57))), 0x20) := by
  rw [add_d34pow' (s1 := false) (c1 := 1000) (e1 := -26) (s2 := true) (c2 := 45) (e2 := -58) _ _ _ _ (by decide +kernel)
    (by decide +kernel) (by decide) (by decide) (by decide +kernel)]
  decide +kernel

/-- **`bid128_add` on `Loop1Cond`** (the rounding loop, one turn, one rounding) is `addD`, datum and flags, all five modes -/
theorem add_loop1' (x y : U128) (m : RoundingMode) (f : UInt32) {s1 s2 : Bool} {c1 c2 : Nat} {e1 e2 : Int}
    (hx : decode (bitsOf x) = .fin s1 c1 e1) (hy : decode (bitsOf y) = .fin s2 c2 e2) (hc1 : c1 ≠ 0) (hc2 : c2 ≠ 0)
    (h : Loop1Cond s1 c1 e1 s2 c2 e2) :
    bid128_add x y m f =
      .ok (ofBits (encode (addD (md m) (decode (bitsOf x)) (decode (bitsOf y))).1),
           f ||| UInt32.ofNat (addD (md m) (decode (bitsOf x)) (decode (bitsOf y))).2) :=
  add_loop1 roundBlockSpec x y m f hx hy hc1 hc2 h

-- 15 + 1.000000000000000000000000000000001 → 16.00000000000000000000000000000000, inexact
example : bid128_add ⟨15, 0x3040000000000000⟩ ⟨0x38c15b0a00000001, 0x2ffe314dc6448d93⟩ .NearestEven 0
    = .ok (ofBits (encode (.fin false (16 * 10^32) (-32))), 0x20) := by
  rw [add_loop1' (s1 := false) (c1 := 15) (e1 := 0) (s2 := false) (c2 := 10^33 + 1) (e2 := -33) _ _ _ _ (by decide +kernel)
    (by decide +kernel) (by decide) (by decide) (by decide +kernel)]
  decide +kernel

/-- **`bid128_add` is `addD`** (the public result, NaN operands included) for every input outside the open part of the
loop's region -/
theorem bid128_add_spec_closed' (x y : U128) (m : RoundingMode) (f : UInt32)
    (h : ¬ (LoopRegion (dOf x) (dOf y) ∧ ¬ Loop1Region (dOf x) (dOf y))) :
    bid128_add x y m f = .ok (binSpec (addD (md m)) x y f) :=
  bid128_add_spec_closed roundBlockSpec x y m f h

/-- `AddRounding` from the rest of the loop -/
theorem add_rounding_partial' (HR : LoopRestRounding) : AddRounding := add_rounding_partial roundBlockSpec HR

/-- **`bid128_add` for all inputs, all modes** — up to `LoopRestRounding` -/
theorem bid128_add_spec_partial2' (HR : LoopRestRounding) (x y : U128) (m : RoundingMode) (f : UInt32) :
    bid128_add x y m f = .ok (binSpec (addD (md m)) x y f) :=
  bid128_add_spec_partial2 roundBlockSpec HR x y m f

/-- **`bid128_sub` for all inputs, all modes** — up to `LoopRestRounding` -/
theorem bid128_sub_spec_partial2' (HR : LoopRestRounding) (x y : U128) (m : RoundingMode) (f : UInt32) :
    bid128_sub x y m f = .ok (binSpec (subD (md m)) x y f) :=
  bid128_sub_spec_partial2 roundBlockSpec HR x y m f

end Dec.C01GenAddRoundClosed
