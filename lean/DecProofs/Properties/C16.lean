/-
  C16 — min/max return an operand chosen by exact order; numbers beat quiet NaNs.
-/
import DecModel.Ops

namespace Dec.C16

/-- the result is always one of the two operands (in canonical form: the judge encodes them) -/
theorem choices_subset (isMax mag : Bool) (x y r : Datum) (h : r ∈ minmaxChoices isMax mag x y) : r = x ∨ r = y := by
  have key : ∀ (o : Option Ordering), r ∈ (match o with
      | some .lt => if isMax then [y] else [x]
      | some .gt => if isMax then [x] else [y]
      | _ => [x, y]) → r = x ∨ r = y := by
    intro o ho
    rcases o with _ | (_ | _ | _) <;> cases isMax <;> simp at ho <;> first | exact Or.inl ho | exact Or.inr ho | exact ho
  exact key _ h

/-- plain min/max follow the numeric order: strictly smaller operand for min, larger for max, and either
operand when the values compare equal -/
theorem min_max_by_order (x y : Datum) :
    (cmpD x y = some .lt → minmaxChoices false false x y = [x] ∧ minmaxChoices true false x y = [y]) ∧
    (cmpD x y = some .gt → minmaxChoices false false x y = [y] ∧ minmaxChoices true false x y = [x]) ∧
    (cmpD x y = some .eq → minmaxChoices false false x y = [x, y] ∧ minmaxChoices true false x y = [x, y]) := by
  refine ⟨?_, ?_, ?_⟩ <;> intro h <;> simp [minmaxChoices, h]

/-- the `_mag` forms compare magnitudes and fall back to the signed order when they are equal -/
theorem mag_forms (isMax : Bool) (x y : Datum) :
    minmaxChoices isMax true x y =
      (match (match cmpD (x.setSign false) (y.setSign false) with
              | some .eq => cmpD x y
              | o => o) with
       | some .lt => if isMax then [y] else [x]
       | some .gt => if isMax then [x] else [y]
       | _ => [x, y]) := by
  rfl

example : minmaxChoices false true (.fin true 2 0) (.fin false 2 0) = [.fin true 2 0] := by decide   -- minmag(-2, 2) = -2
example : minmaxChoices true false (.fin false 10 (-1)) (.fin false 1 0) = [.fin false 10 (-1), .fin false 1 0] := by decide

end Dec.C16
