/-
  C01 (generated-code level): arm (B) of the rounding loop of `bid128_add` (opposite signs, cancellation: `second_pass`)
  with all hypotheses discharged (`loopB_code roundBlockSpec`), examples, and the headline up to arm (A) only.
-/
import DecProofs.Properties.C01GenAddLoopB2
import DecProofs.Properties.C01GenAddRoundBlock

namespace Dec.C01GenAddLoopBClosed
open Dec.Rs Dec.Gen.Code Dec.C06GenFromInt Dec.C01GenAdd Dec.C01GenAddLoop Dec.C01GenAddRound Dec.C01GenAddLoopB
open Dec.C01GenAddLoopB2
open Dec.C13GenPack (md)
open Dec.C01GenAddRoundBlock (roundBlockSpec)

/-- the word-level statement of arm (B), proved -/
theorem loopBCodeSpec : LoopBCodeSpec := loopB_code roundBlockSpec

/-- **`bid128_add`, two non-zero numbers, `ArmBCond`** (the rounding loop, opposite signs, the difference of the padded
first coefficient and the rounded second one falls to `10^33` or below: a second turn with one digit less — nothing rounded
if only one digit was to go —, or the boundary with one turn) is `addD`, datum and flags, all five modes -/
theorem add_loopB' (x y : U128) (m : RoundingMode) (f : UInt32) {s1 s2 : Bool} {c1 c2 : Nat} {e1 e2 : Int}
    (hx : decode (bitsOf x) = .fin s1 c1 e1) (hy : decode (bitsOf y) = .fin s2 c2 e2) (hc1 : c1 ≠ 0) (hc2 : c2 ≠ 0)
    (h : ArmBCond s1 c1 e1 s2 c2 e2) :
    bid128_add x y m f =
      .ok (ofBits (encode (addD (md m) (decode (bitsOf x)) (decode (bitsOf y))).1),
           f ||| UInt32.ofNat (addD (md m) (decode (bitsOf x)) (decode (bitsOf y))).2) :=
  add_loopB loopBCodeSpec x y m f hx hy hc1 hc2 h

-- k = 1, massive cancellation: 1E1 − 9.999999999999999999999999999999999 = 1E-33, exact (second turn, nothing rounded)
example : bid128_add ⟨1, 0x3042000000000000⟩ ⟨0x378d8e63ffffffff, 0xafffed09bead87c0⟩ .NearestEven 0
    = .ok (ofBits (encode (.fin false 1 (-33))), 0) := by
  rw [add_loopB' (s1 := false) (c1 := 1) (e1 := 1) (s2 := true) (c2 := 10^34 - 1) (e2 := -33) _ _ _ _ (by decide +kernel)
    (by decide +kernel) (by decide) (by decide) (by decide +kernel)]
  decide +kernel
-- k = 2, second turn with one digit: 1E2 − 9.999999999999999999999999999999999 = 90.000000000000000000000000000000001
-- → 90.00000000000000000000000000000000, inexact
example : bid128_add ⟨1, 0x3044000000000000⟩ ⟨0x378d8e63ffffffff, 0xafffed09bead87c0⟩ .NearestEven 0
    = .ok (ofBits (encode (.fin false (9 * 10^33) (-32))), 0x20) := by
  rw [add_loopB' (s1 := false) (c1 := 1) (e1 := 2) (s2 := true) (c2 := 10^34 - 1) (e2 := -33) _ _ _ _ (by decide +kernel)
    (by decide +kernel) (by decide) (by decide) (by decide +kernel)]
  decide +kernel
-- the boundary, one turn: (10^33 + 2) − 1.5 = 10^33 + 0.5, a tie → 10^33 (even), inexact
example : bid128_add ⟨0x38c15b0a00000002, 0x3040314dc6448d93⟩ ⟨15, 0xb03e000000000000⟩ .NearestEven 0
    = .ok (ofBits (encode (.fin false (10^33) 0)), 0x20) := by
  rw [add_loopB' (s1 := false) (c1 := 10^33 + 2) (e1 := 0) (s2 := true) (c2 := 15) (e2 := -1) _ _ _ _ (by decide +kernel)
    (by decide +kernel) (by decide) (by decide) (by decide +kernel)]
  decide +kernel

/-- `LoopRestRounding` from arm (A) alone -/
theorem loop_rest_of_armA (HA : ArmARounding) : LoopRestRounding := loop_rest_of_arms HA loopBCodeSpec

/-- **`bid128_add` for all inputs, all modes** — up to arm (A) (`ArmARounding`) -/
theorem bid128_add_spec_upToA (HA : ArmARounding) (x y : U128) (m : RoundingMode) (f : UInt32) :
    bid128_add x y m f = .ok (binSpec (addD (md m)) x y f) :=
  bid128_add_spec_all HA loopBCodeSpec x y m f

/-- **`bid128_sub` for all inputs, all modes** — up to arm (A) (`ArmARounding`) -/
theorem bid128_sub_spec_upToA (HA : ArmARounding) (x y : U128) (m : RoundingMode) (f : UInt32) :
    bid128_sub x y m f = .ok (binSpec (subD (md m)) x y f) :=
  bid128_sub_spec_all HA loopBCodeSpec x y m f

end Dec.C01GenAddLoopBClosed
