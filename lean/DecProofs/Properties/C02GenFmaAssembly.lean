/-
  C02GenFmaAssembly — the case blocks of the fused multiply-add plugged into the translated routine: what the stand-alone
  block definitions of C02GenFmaSwap / Wrap / Z / Mid return IS what `Dec.Gen.Code.bid128_ext_fma` returns.

  With `C02GenFmaFront.ext_fma_shape` (`bid128_ext_fma … = frontK … (caseLoop …)`) the routine ends in `caseLoop`, the literal
  text of the case analysis: a loop `for _ in [0:4096]` (`'delta_ge_zero`: left by `return` in every case, re-entered once by
  `continue` after the swap of Cases (8), (9), (10), (13), (14), (18)) followed by the text after the loop.

  WHY NOT AN EQUATION BY `lockstep`.  Inside the loop the translation of `return v` is `pure (ForInStep.done (some v, s))`,
  `s` the current values of the 44 variables the loop body re-assigns; in a block definition standing on its own it is
  `pure v`.  And the blocks declare their `let mut`s in their own order, so their join points take the variables in another
  order (and fewer of them) than the loop's.  So the statement is `Ret post in_loop_text block` (§1: whenever the block returns
  `v`, the in-loop text leaves the loop in a state from which the text after the loop returns `v`), proved by `relstep` (§3):
  the lock-step walk of `Lockstep.prove`, with join-point parameters matched BY NAME (parameters the block's join point never
  mentions are left free), rules for `ite`, `bind`, `return` / end of body, `throw`, and `match` on the result of an inner loop.

  CONTENTS.
    §1 `Ret`, its congruence rules.  §2 `iter`, `forIn_range_iter`, `loop_returns`: one turn of a `for _ in [0:n]` loop.
    §3 `relstep`; `ret_step`, `ret_pos`, `ret_neg`: walking down the case tests.
    §4 `St`: the state of the loop (the 44 variables, named); `caseBody`, `casePost`: body and text after the loop, cut out of
       the definition of `caseLoop`; `run m n s`: `n` turns from state `s`, then `casePost`;
       `caseLoop_eq : caseLoop … = run m 4096 (St.init …)`; `run_returns`, `run_continues`.
    §5 THE BLOCKS, each from an ARBITRARY state `s` (so that they apply in the second pass as well) under the tests that lead
       to it, exactly as the code writes them:
         `run_case7`     Case (7)                      = `C02GenFmaSwap.case7K`
         `run_swap`      Cases (8),(9),(10),(13),(14),(18): `run m (n+1) s = run m n s.swap` (`St.swap`: the ten variables
                         exchanged, `delta` negated — the state `C02GenFmaSwap.swapK` hands to its continuation)
         `run_case1517`  Cases (15)–(17)               = `C02GenFmaWrap.case1517K`
         `run_arm26`     the arm of Cases (2)–(6)       = `C02GenFmaWrap.arm26K`
         `run_caseZ1`    Cases (1), (1′), (1″A)         = `C02GenFmaZ.caseZ1`
         `run_caseZ2`    Case (1″B)                    = `C02GenFmaZ.caseZ2`
         `run_mid`       Cases (2)–(6) with their arm   = `C02GenFmaMid.midBlock` (inner loop `'case2_repeat` included)
       and `caseLoop_case7` (first pass, for `caseLoop` itself).  Not yet: Cases (11), (12) (no block definition yet).
    §6 `HandoverFacts` (what `C02GenFmaFrontSpec.front_spec` hands over; `HandoverFacts.of`), `delta_val`, `zinv`, `zinv_swapped`,
       `first_pass_swaps`; `ext_fma_case7`, `ext_fma_caseZ1`, `ext_fma_case1517`, `ext_fma_arm26`, `ext_fma_swap_caseZ1`: the
       registered block specifications (`case7_fma`, `caseZ1_spec`, `case1517_fma`, `arm26_fma`) turned into statements about
       `bid128_ext_fma` given the hand-over.
    §7 THE ROUTINE ON NUMBERS.  `ExtFmaOK p1 p2 p3 p4 x y z m f` / `FmaOK x y z m f`: `bid128_ext_fma` / `bid128_fma` return
       `.ok` of the canonical encoding of the model's `fmaD (modeOf m) (dOf x) (dOf y) (dOf z)` datum and `f ||| flags` (and,
       for `ext_fma`, some indicators).  For three NUMBERS `x = ±c1·10^e1`, `y = ±c2·10^e2`, `z = ±c3·10^e3`, `c1·c2 ≠ 0`,
       `c3 ≠ 0`, with `q3 = ndigits c3`, `q4 = ndigits (c1·c2)`, `delta = q3 + e3 − q4 − (e1 + e2)` (each `ext_fma_ok_*` has
       its `fma_ok_*` twin; the tests are numeric: `case1Cond_iff`, `cond1112_iff`, `cond1517_iff` convert the code's):
         `…_case1`        delta ≥ 35, or delta = 34 and e3 + 6176 < 34 − q3                 Cases (1), (1′), (1″A)
         `…_case1b`       delta = 34 and e3 + 6176 ≥ 34 − q3                                Case (1″B)
         `…_case2to6`     0 ≤ delta ≤ 33, not (delta ≤ 1 and opposite signs)                Cases (2)–(6), first pass
         `…_arm26`        delta ∈ {0, 1}, opposite signs                                    the arm → `bid_add_and_round`
         `…_case7`        34 < q4, q3 + e3 ≤ e1 + e2                                        Case (7)
         `…_case1517`     34 < q4, e1 + e2 ≤ e3, q3 + e3 < q4 + e1 + e2                      Cases (15)–(17)
         `…_case8`        q4 ≤ 34, −delta ≥ 35, or = 34 and e1+e2+6176 < 34 − q4             Case (8): swap, then Case (1)
         `…_swap_case1b`  q4 ≤ 34, −delta = 34, e1 + e2 + 6176 ≥ 34 − q4                    swap, then Case (1″B)
         `…_swap_arm26`   q4 ≤ 34, delta = −1, opposite signs                               swap, then the arm
       (`AarSpec`, the correctness of `bid_add_and_round`, is discharged by `C02GenFmaWrap.aarSpec`.)
    §8 ALL OPERANDS BUT THE REMAINING CASES.  `RemNum` / `FmaRemaining x y z`: three numbers in one of: zero product with
       non-zero addend; non-zero product with zero addend (the `z = 0` path); Cases (11), (12); the second pass of Cases
       (2)–(6) (old Cases (9), (10), (13), (14), (18)).  `ext_fma_ok_numbers`: the case analysis is COMPLETE — the nine
       conditions above and `RemNum` cover all numbers.  `bid128_ext_fma_spec_partial`, `bid128_fma_spec_partial`:
           no NaN operand, ¬ FmaRemaining x y z  ⟹  FmaOK x y z m f
       — infinite operands (`FrontSpec.front_inf`: ∞·0, ∞ − ∞ invalid) and zero product with zero addend
       (`front_zero_zero`) included.  NaN operands: `C12GenNaN.ext_fma_nan` / `fma_nan` (the NaN rule, not `fmaD`).
    §9 MULTIPLICATION.  `MulOK x y m f` (`bid128_mul` returns the model's `mulD`); `MulOK.of_fma` (outside the zero case, from
       `FmaOK y x z0`, by `C01GenMul.mul_eq_fma` / `fmaD_z0_eq_mulD`), `MulOK.of_zero`; `bid128_mul_spec_partial`: all non-NaN
       operands except two numbers with a non-zero product (zeros of every kind, infinite operands, `∞·0`).  The non-zero
       products are the `z = 0` path: once `FmaOK y x z0 m f` is there, `MulOK.of_fma` is the headline.
  The state record of §4 is generated: `bin/gen_fma_state` re-lists the loop's variables from the current translation.
  Findings: none of its own (the file only transports).  Remarks: the two passes of the loop are two turns of `run`; the
  hand-over's `p_exp` is NOT clamped above (FrontSpec `hpe`), which the swapped Case (1) needs only for `e1 + e2 ≥ −6176`
  (automatic in Case (8)).
-/
import Lean.Elab.Tactic
import Lean.Meta.AppBuilder
import DecProofs.Properties.C12GenNaN
import DecProofs.Properties.C02GenFmaFront
import DecProofs.Properties.C02GenFmaFrontSpec
import DecProofs.Properties.C02GenFmaSwap
import DecProofs.Properties.C02GenFmaWrap
import DecProofs.Properties.C02GenFmaZH
import DecProofs.Properties.C02GenFmaMidTop
import DecProofs.Properties.C02GenFmaZQ
import DecProofs.Properties.C02GenFmaWrapClosed
import DecProofs.Properties.C02GenFma1112

set_option linter.unusedSimpArgs false
set_option linter.unusedVariables false

namespace Dec.C02GenFmaAssembly
open Dec.Rs Dec.Gen.Code

local notation "Out" => (U128 × Bool × Bool × Bool × Bool × UInt32)

/-! ## 1. A block that `return`s, inside the loop and on its own

Inside `for _ in [0:4096] do …` the translation of `return v` is `pure (ForInStep.done (some v, s))` with `s` the current
values of all the variables the loop body re-assigns, and the text after the loop (`post`) hands `v` on; falling out of the
body's last statement `break` is `pure (ForInStep.done (none, s))`, and `post` goes on with the text after the loop.  In a
block definition standing on its own both are `pure v`.  `Ret post t u`: whenever the stand-alone text `u` returns `v`,
the in-loop text `t` leaves the loop in a state from which the text after the loop returns `v`. -/

def Ret {σ : Type} (post : Option Out × σ → Except String Out) (t : Except String (ForInStep (Option Out × σ)))
    (u : Except String Out) : Prop :=
  ∀ v, u = .ok v → ∃ r, t = .ok (ForInStep.done r) ∧ post r = .ok v

theorem ret_leaf {σ : Type} (post : Option Out × σ → Except String Out) (r : Option Out × σ) (v : Out)
    (h : post r = .ok v) :
    Ret post (pure (ForInStep.done r) : Except String (ForInStep (Option Out × σ))) (pure v) := by
  intro w hw
  cases hw
  exact ⟨r, rfl, h⟩

theorem ret_throw {σ : Type} (post : Option Out × σ → Except String Out)
    (t : Except String (ForInStep (Option Out × σ))) (e : String) : Ret post t (throw e) := by
  intro w h; cases h

theorem ret_ite {σ : Type} (post : Option Out × σ → Except String Out) (c : Prop) [Decidable c]
    {a b : Except String (ForInStep (Option Out × σ))}
    {a' b' : Except String Out} (ha : Ret post a a') (hb : Ret post b b') :
    Ret post (if c then a else b) (if c then a' else b') := by
  by_cases h : c
  · rw [if_pos h, if_pos h]; exact ha
  · rw [if_neg h, if_neg h]; exact hb

theorem ret_bind {σ β : Type} (post : Option Out × σ → Except String Out) (m : Except String β)
    {f : β → Except String (ForInStep (Option Out × σ))}
    {f' : β → Except String Out} (h : ∀ r, Ret post (f r) (f' r)) : Ret post (m >>= f) (m >>= f') := by
  intro v hv
  cases m with
  | error e => cases hv
  | ok r => exact h r v hv

theorem ret_match_opt {σ β : Type} (post : Option Out × σ → Except String Out) (o : Option β)
    {ts : β → Except String (ForInStep (Option Out × σ))} {tn : Unit → Except String (ForInStep (Option Out × σ))}
    {us : β → Except String Out} {un : Unit → Except String Out}
    (hs : ∀ v, Ret post (ts v) (us v)) (hn : Ret post (tn ()) (un ())) :
    Ret post (match o with | some v => ts v | none => tn ()) (match o with | some v => us v | none => un ()) := by
  cases o with
  | none => exact hn
  | some v => exact hs v

theorem ret_of_eq {σ : Type} {post : Option Out × σ → Except String Out}
    {t t' : Except String (ForInStep (Option Out × σ))} {u : Except String Out}
    (e : t = t') (h : Ret post t' u) : Ret post t u := e ▸ h

/-! ## 2. One turn of a `for _ in [0:n]` loop -/

/-- `n` turns of a loop whose body does not look at the counter -/
def iter {σ : Type} (g : σ → Except String (ForInStep σ)) : Nat → σ → Except String σ
  | 0, s => pure s
  | n + 1, s => g s >>= fun r => match r with
    | .done s' => pure s'
    | .yield s' => iter g n s'

theorem forIn_list_iter {σ α : Type} (g : σ → Except String (ForInStep σ)) (l : List α) (s : σ) :
    forIn l s (fun _ st => g st) = iter g l.length s := by
  induction l generalizing s with
  | nil => rfl
  | cons a l ih =>
    rw [List.forIn_cons, List.length_cons]
    show _ = g s >>= _
    congr 1
    funext r
    cases r with
    | done s' => rfl
    | yield s' => exact ih s'

theorem forIn_range_iter {σ : Type} (n : Nat) (g : σ → Except String (ForInStep σ)) (s : σ) :
    forIn [0:n] s (fun _ st => g st) = iter g n s := by
  rw [Std.Legacy.Range.forIn_eq_forIn_range', forIn_list_iter]
  simp [Std.Legacy.Range.size]

/-- the first turn leaves the loop in a state from which the text after the loop returns `v`: so does the loop -/
theorem loop_returns {σ : Type} (n : Nat) (f : Nat → Option Out × σ → Except String (ForInStep (Option Out × σ)))
    (hf : ∀ i j st, f i st = f j st)
    (init : Option Out × σ) (post : Option Out × σ → Except String Out) (u : Except String Out) (v : Out)
    (hu : u = .ok v) (hR : Ret post (f 0 init) u) :
    (forIn [0:n+1] init f >>= post) = .ok v := by
  have e : f = fun _ st => f 0 st := by funext i st; exact hf i 0 st
  rw [e, forIn_range_iter]
  obtain ⟨r, hs, hp⟩ := hR v hu
  show (f 0 init >>= _) >>= post = _
  rw [hs]
  exact hp


/-! ## 3. `relstep`: the in-loop text of a block against the block's stand-alone definition

Walks the two texts together as `Lockstep.prove` does (reducing at the head only; every piece visited once) and builds a
proof of `Ret in_loop stand_alone` from `ret_ite`, `ret_bind`, `ret_leaf`, `ret_throw`.  Join points: the two sides pass the
re-assigned variables in the order of the `let mut` declarations of THEIR `do` block, and the loop passes more of them; the
parameters are matched BY NAME, a parameter of the stand-alone join point that its body never mentions is left free. -/

namespace Relstep
open Lean Meta

structure JpInfo where
  jp' : Expr
  hjp : Expr
  /-- for each parameter of the stand-alone join point: `some i` = the in-loop parameter `i`, `none` = free -/
  perm : Array (Option Nat)

abbrev Env := List (FVarId × JpInfo)

def Env.lookup (env : Env) (f : FVarId) : Option JpInfo := (List.find? (fun (p : FVarId × JpInfo) => p.1 == f) env).map (·.2)

def mkRet (σ post a b : Expr) : Expr := mkApp4 (mkConst ``Dec.C02GenFmaAssembly.Ret) σ post a b

/-- the leading lambdas of a join point: names and types are read off without instantiating -/
def lamInfo (e : Expr) : Array Name :=
  let rec go (e : Expr) (acc : Array Name) : Array Name :=
    match e with
    | .lam n _ b _ => go b (acc.push n.eraseMacroScopes)
    | _ => acc
  go e #[]

/-- reduce the projections of explicit pairs and structure instances everywhere (the state of the loop is a nested pair
given explicitly, and the variables of the body are its components) -/
def projRed (e : Expr) : MetaM Expr :=
  Meta.transform e (post := fun e => do
    match e with
    | .proj _ i s =>
      match ← projectCore? s i with
      | some r => return .visit r
      | none => return .done e
    | _ =>
      let f := e.getAppFn
      if let .const n _ := f then
        if let some info ← getProjectionFnInfo? n then
          let args := e.getAppArgs
          if args.size > info.numParams then
            let s := args[info.numParams]!
            if s.isAppOf info.ctorName then
              let sargs := s.getAppArgs
              if sargs.size == info.numParams + (← getConstInfoCtor info.ctorName).numFields then
                let r := mkAppN sargs[info.numParams + info.i]! (args.extract (info.numParams + 1) args.size)
                return .visit r
      return .done e)

def sameOrDefEq (a b : Expr) : MetaM Bool := do
  if a == b then return true
  withReducible (isDefEq a b)

/-- bring both sides to a common shape by head steps; a `let` of a function (a join point) is kept when the other side is
at a join point as well -/
def norm (unf : Name → Bool) (a b : Expr) : MetaM (Expr × Expr) := do
  let mut a' := a
  let mut b' := b
  let mut fuel := 100000
  while fuel > 0 do
    fuel := fuel - 1
    if let some x ← Lockstep.headStep unf a' then a' := x; continue
    if let some x ← Lockstep.headStep unf b' then b' := x; continue
    match a', b' with
    | .letE _ _ v body _, .letE _ _ v' body' _ =>
      if v.isLambda && v'.isLambda then break
      else if v.isLambda then b' := body'.instantiate1 v'
      else if v'.isLambda then a' := body.instantiate1 v
      else
        a' := body.instantiate1 v; b' := body'.instantiate1 v'
    | .letE _ _ v body _, _ => a' := body.instantiate1 v
    | _, .letE _ _ v body _ => b' := body.instantiate1 v
    | .mdata _ x, _ => a' := x
    | _, .mdata _ x => b' := x
    | _, _ => break
  return (a', b')

partial def rel (unf : Name → Bool) (σ post : Expr) (env : Env) (a b : Expr) : MetaM Expr := do
  let (a', b') ← norm unf a b
  let p ← core a' b'
  if a'.equal a && b'.equal b then return p
  mkExpectedTypeHint p (mkRet σ post a b)
where
  core (a b : Expr) : MetaM Expr := do
    match a, b with
    | .letE n t v body _, .letE n' t' v' body' _ =>
      -- two join points
      let namesA := lamInfo v
      let namesB := lamInfo v'
      -- liveness of the parameters of the stand-alone join point
      let rec bodyOf (e : Expr) (k : Nat) : Expr := match k, e with
        | 0, e => e
        | k + 1, .lam _ _ b _ => bodyOf b k
        | _, e => e
      let xB := bodyOf v' namesB.size
      let mut perm : Array (Option Nat) := #[]
      for j in [0:namesB.size] do
        if j == 0 then perm := perm.push (some 0)
        else if xB.hasLooseBVar (namesB.size - 1 - j) then
          match namesA.idxOf? namesB[j]! with
          | some i => perm := perm.push (some i)
          | none => throwError "relstep: the stand-alone join point has a parameter {namesB[j]!} the loop's does not have ({namesA})"
        else perm := perm.push none
      let r ← withLocalDecl n .default t fun jp => withLocalDecl n' .default t' fun jp' => do
        -- the relation between the two join points, proved of their values
        let (hV, hjpType) ← lambdaBoundedTelescope v namesA.size fun xs xA => do
          -- the free parameters of the stand-alone side
          let deadTys ← forallBoundedTelescope t' namesB.size fun ys _ => do
            let mut tys : Array (Name × Expr) := #[]
            for j in [0:namesB.size] do
              if perm[j]!.isNone then tys := tys.push (namesB[j]!, ← inferType ys[j]!)
            return tys
          withLocalDeclsDND deadTys fun dead => do
            let mut argsB : Array Expr := #[]
            let mut d := 0
            for j in [0:namesB.size] do
              match perm[j]! with
              | some i => argsB := argsB.push xs[i]!
              | none => argsB := argsB.push dead[d]!; d := d + 1
            let hX ← rel unf σ post env xA (v'.beta argsB)
            let hV ← mkLambdaFVars (xs ++ dead) hX
            let hjpType ← mkForallFVars (xs ++ dead) (mkRet σ post (mkAppN jp xs) (mkAppN jp' argsB))
            return (hV, hjpType)
        withLocalDecl `hjp .default hjpType fun hjp => do
          let hB ← rel unf σ post ((jp.fvarId!, { jp' := jp', hjp := hjp, perm := perm }) :: env)
            (body.instantiate1 jp) (body'.instantiate1 jp')
          let f ← mkLambdaFVars #[jp, jp', hjp] hB
          return mkApp3 f v v' hV
      mkExpectedTypeHint r (mkRet σ post a b)
    | _, _ =>
      let f := a.getAppFn
      let as := a.getAppArgs
      let g := b.getAppFn
      let bs := b.getAppArgs
      -- a jump
      if let .fvar fid := f then
        if let some info := env.lookup fid then
          unless g == info.jp' do throwError "relstep: a jump in the loop, but on the other side{indentExpr g}"
          let mut args := as
          for j in [0:bs.size] do
            match info.perm[j]! with
            | some i =>
              unless ← sameOrDefEq as[i]! bs[j]! do
                throwError "relstep: jump arguments differ:{indentExpr as[i]!}\nvs{indentExpr bs[j]!}"
            | none => args := args.push bs[j]!
          return ← mkExpectedTypeHint (mkAppN info.hjp args) (mkRet σ post a b)
      -- the stand-alone text throws
      if b.isAppOf ``MonadExcept.throw || b.isAppOf ``throw || b.isAppOf ``Except.error then
        let e := bs.back!
        return ← mkExpectedTypeHint (mkApp4 (mkConst ``Dec.C02GenFmaAssembly.ret_throw) σ post a e) (mkRet σ post a b)
      if a.isAppOfArity ``ite 5 && b.isAppOfArity ``ite 5 then
        unless ← sameOrDefEq as[1]! bs[1]! do
          throwError "relstep: tests differ:{indentExpr as[1]!}\nvs{indentExpr bs[1]!}"
        let ha ← rel unf σ post env as[3]! bs[3]!
        let hb ← rel unf σ post env as[4]! bs[4]!
        let p := mkAppN (mkConst ``Dec.C02GenFmaAssembly.ret_ite) #[σ, post, as[1]!, as[2]!, as[3]!, as[4]!, bs[3]!, bs[4]!, ha, hb]
        return ← mkExpectedTypeHint p (mkRet σ post a b)
      if a.isAppOfArity ``Bind.bind 6 && b.isAppOfArity ``Bind.bind 6 then
        unless ← sameOrDefEq as[4]! bs[4]! do
          throwError "relstep: calls differ:{indentExpr as[4]!}\nvs{indentExpr bs[4]!}"
        let β := as[2]!
        let fa := as[5]!
        let fb := bs[5]!
        let h ← withLocalDecl `r .default β fun r => do
          let h ← rel unf σ post env (fa.beta #[r]) (fb.beta #[r])
          mkLambdaFVars #[r] h
        let p := mkAppN (mkConst ``Dec.C02GenFmaAssembly.ret_bind) #[σ, β, post, as[4]!, fa, fb, h]
        return ← mkExpectedTypeHint p (mkRet σ post a b)
      -- `match o with | some v => … | none => …` after an inner loop
      if let some ma ← matchMatcherApp? a then
        if let some mb ← matchMatcherApp? b then
          if ma.discrs.size == 1 && mb.discrs.size == 1 && ma.alts.size == 2 && mb.alts.size == 2 then
            unless ← sameOrDefEq ma.discrs[0]! mb.discrs[0]! do
              throwError "relstep: matches on different values:{indentExpr ma.discrs[0]!}\nvs{indentExpr mb.discrs[0]!}"
            let o := ma.discrs[0]!
            let oTy ← whnf (← inferType o)
            unless oTy.isAppOfArity ``Option 1 do throwError "relstep: a match on{indentExpr oTy}"
            let β := oTy.appArg!
            -- which alternative is `some`?
            let isUnit (alt : Expr) : Bool := match alt with
              | .lam _ t _ _ => t.isConstOf ``Unit || t.isConstOf ``PUnit || t.isAppOf ``PUnit
              | _ => false
            let (iS, iN) := if isUnit ma.alts[0]! then (1, 0) else (0, 1)
            let (jS, jN) := if isUnit mb.alts[0]! then (1, 0) else (0, 1)
            let tsA := ma.alts[iS]!; let tnA := ma.alts[iN]!
            let tsB := mb.alts[jS]!; let tnB := mb.alts[jN]!
            let hs ← withLocalDecl `v .default β fun v => do
              let h ← rel unf σ post env (tsA.beta #[v]) (tsB.beta #[v])
              mkLambdaFVars #[v] h
            let u := mkConst ``Unit.unit
            let hn ← rel unf σ post env (tnA.beta #[u]) (tnB.beta #[u])
            let p := mkAppN (mkConst ``Dec.C02GenFmaAssembly.ret_match_opt) #[σ, β, post, o, tsA, tnA, tsB, tnB, hs, hn]
            return ← mkExpectedTypeHint p (mkRet σ post a b)
      if a.isAppOfArity ``Pure.pure 4 && b.isAppOfArity ``Pure.pure 4 then
        -- `return` (or the end of the body): in the loop `pure (ForInStep.done r)`; the text after the loop must give the value
        let x := as[3]!
        if x.isAppOfArity ``ForInStep.done 2 then
          let r := x.appArg!
          let v := bs[3]!
          let outTy ← inferType v
          let okv ← mkAppOptM ``Except.ok #[mkConst ``String, outTy, v]
          let lhs := (mkApp post r).headBeta
          unless ← withDefault (isDefEq lhs okv) do
            throwError "relstep: the text after the loop does not return the block's value:{indentExpr lhs}\nvs{indentExpr okv}"
          let h ← mkExpectedTypeHint (← mkEqRefl okv) (← mkEq (mkApp post r) okv)
          return ← mkExpectedTypeHint (mkAppN (mkConst ``Dec.C02GenFmaAssembly.ret_leaf) #[σ, post, r, v, h]) (mkRet σ post a b)
        throwError "relstep: the stand-alone text returns, the loop does{indentExpr x}"
      throwError "relstep: cannot match\n{(toString (← ppExpr a)).take 800}\nwith\n{(toString (← ppExpr b)).take 800}"

open Elab Tactic in
/-- `relstep pre`: prove `Ret in_loop stand_alone`, unfolding at the head the constants whose name has the prefix `pre` and
the head constant of the stand-alone side -/
elab "relstep " pre:ident : tactic => do
  let g ← getMainGoal
  g.withContext do
    let t := (← instantiateMVars (← g.getType)).consumeMData
    unless t.isAppOfArity ``Dec.C02GenFmaAssembly.Ret 4 do throwError "relstep: not a `Ret` goal"
    let args := t.getAppArgs
    let p := pre.getId
    let top := args[3]!.getAppFn.constName?.getD Name.anonymous
    let a ← projRed args[2]!
    let prf ← rel (fun n => p.isPrefixOf n || n == top) args[0]! args[1]! [] a args[3]!
    g.assign (← mkExpectedTypeHint prf t)

end Relstep

/-! ## 3b. Walking down the case tests -/

open Dec.C12GenNaN in
open Lean Meta Elab Tactic in
/-- reduce the in-loop side of a `Ret` goal at its head -/
elab "ret_step" : tactic => do
  let g ← getMainGoal
  let t := (← instantiateMVars (← g.getType)).consumeMData
  unless t.isAppOfArity ``Dec.C02GenFmaAssembly.Ret 4 do throwError "ret_step: not a `Ret` goal"
  let args := t.getAppArgs
  let a' ← whnfCore args[2]!
  let g' ← g.replaceTargetDefEq (mkApp4 t.getAppFn args[0]! args[1]! a' args[3]!)
  replaceMainGoal [g']

macro "ret_pos " h:term : tactic => `(tactic| (ret_step; refine ret_of_eq (if_pos $h) ?_))
macro "ret_neg " h:term : tactic => `(tactic| (ret_step; refine ret_of_eq (if_neg $h) ?_))

-- BEGIN GENERATED (bin/gen_fma_state)
/-! ## 4. The state of the case loop

The `for _ in [0:4096]` loop `'delta_ge_zero` of `caseLoop` carries the 43 variables its body re-assigns (in the order of
their declaration) and its `brk__` marker as a nested pair; `St` is that tuple with names, `St.init` the state in which
`caseLoop` enters the loop. -/

structure St where
  ptr_is_midpoint_lt_even : Bool
  ptr_is_midpoint_gt_even : Bool
  ptr_is_inexact_lt_midpoint : Bool
  ptr_is_inexact_gt_midpoint : Bool
  pfpsf : UInt32
  res : U128
  z_sign : UInt64
  p_sign : UInt64
  tmp_sign : UInt64
  z_exp : UInt64
  p_exp : UInt64
  C3 : U128
  C4 : U256
  q3 : Int32
  q4 : Int32
  e3 : Int32
  e4 : Int32
  scale : Int32
  ind : Int32
  delta : Int32
  x0 : Int32
  tmp : F64U
  is_midpoint_lt_even : Bool
  is_midpoint_gt_even : Bool
  is_inexact_lt_midpoint : Bool
  is_inexact_gt_midpoint : Bool
  is_midpoint_lt_even0 : Bool
  is_midpoint_gt_even0 : Bool
  is_inexact_lt_midpoint0 : Bool
  is_inexact_gt_midpoint0 : Bool
  incr_exp : Bool
  lsb : Bool
  lt_half_ulp : Bool
  eq_half_ulp : Bool
  gt_half_ulp : Bool
  is_tiny : Bool
  R64 : UInt64
  tmp64 : UInt64
  P128 : U128
  R128 : U128
  P192 : U192
  R192 : U192
  R256 : U256
  brk : Bool

/-- the type of the nested pair (a notation, so that the terms below are literally those of the translation) -/
local notation "Sig" => (Bool × Bool × Bool × Bool × UInt32 × U128 × UInt64 × UInt64 × UInt64 × UInt64 × UInt64 × U128 × U256 × Int32 × Int32 × Int32 × Int32 × Int32 × Int32 × Int32 × Int32 × F64U × Bool × Bool × Bool × Bool × Bool × Bool × Bool × Bool × Bool × Bool × Bool × Bool × Bool × Bool × UInt64 × UInt64 × U128 × U128 × U192 × U192 × U256 × Bool)

/-- the state as the loop carries it -/
def St.tup (s : St) : Sig :=
  (s.ptr_is_midpoint_lt_even, s.ptr_is_midpoint_gt_even, s.ptr_is_inexact_lt_midpoint, s.ptr_is_inexact_gt_midpoint, s.pfpsf, s.res, s.z_sign, s.p_sign, s.tmp_sign, s.z_exp, s.p_exp, s.C3, s.C4, s.q3, s.q4, s.e3, s.e4, s.scale, s.ind, s.delta, s.x0, s.tmp, s.is_midpoint_lt_even, s.is_midpoint_gt_even, s.is_inexact_lt_midpoint, s.is_inexact_gt_midpoint, s.is_midpoint_lt_even0, s.is_midpoint_gt_even0, s.is_inexact_lt_midpoint0, s.is_inexact_gt_midpoint0, s.incr_exp, s.lsb, s.lt_half_ulp, s.eq_half_ulp, s.gt_half_ulp, s.is_tiny, s.R64, s.tmp64, s.P128, s.R128, s.P192, s.R192, s.R256, s.brk)

/-- the state at the entry of the loop: what the front end hands over, `delta`, and initial values -/
def St.init (p1 p2 p3 p4 : Bool) (f : UInt32) (zs ps ze pe : UInt64) (C3 : U128) (C4 : U256) (q3 q4 e3 e4 : Int32)
    (tmp : F64U) : St :=
  { ptr_is_midpoint_lt_even := p1,
    ptr_is_midpoint_gt_even := p2,
    ptr_is_inexact_lt_midpoint := p3,
    ptr_is_inexact_gt_midpoint := p4,
    pfpsf := f,
    res := (⟨(0xbaddbaddbaddbadd : UInt64), (0xbaddbaddbaddbadd : UInt64)⟩ : U128),
    z_sign := zs,
    p_sign := ps,
    tmp_sign := default,
    z_exp := ze,
    p_exp := pe,
    C3 := C3,
    C4 := C4,
    q3 := q3,
    q4 := q4,
    e3 := e3,
    e4 := e4,
    scale := default,
    ind := default,
    delta := q3 + e3 - q4 - e4,
    x0 := default,
    tmp := tmp,
    is_midpoint_lt_even := false,
    is_midpoint_gt_even := false,
    is_inexact_lt_midpoint := false,
    is_inexact_gt_midpoint := false,
    is_midpoint_lt_even0 := default,
    is_midpoint_gt_even0 := default,
    is_inexact_lt_midpoint0 := default,
    is_inexact_gt_midpoint0 := default,
    incr_exp := false,
    lsb := default,
    lt_half_ulp := false,
    eq_half_ulp := false,
    gt_half_ulp := false,
    is_tiny := false,
    R64 := default,
    tmp64 := default,
    P128 := default,
    R128 := default,
    P192 := default,
    R192 := default,
    R256 := default,
    brk := false }
-- END GENERATED (bin/gen_fma_state)

open Lean Meta Elab Command in
/-- the body and the post-loop text of the `for` loop of `caseLoop`, cut out of its definition (the text of a loop body —
with `return`, `continue`, `break` — cannot be written down outside a loop, so the definitions are made from the term) -/
elab "extract_case_loop" : command => do
  liftTermElabM do
    let ci ← getConstInfo ``Dec.C02GenFmaFront.caseLoop
    let v := ci.value!
    let (fdef, pdef) ← lambdaTelescope v fun xs body => do
      let body ← whnfCore body
      unless body.isAppOfArity ``Bind.bind 6 do throwError "extract_case_loop: unexpected shape{indentExpr body.getAppFn}"
      let loop := body.getAppArgs[4]!
      let post := body.getAppArgs[5]!
      unless loop.isAppOf ``ForIn.forIn do throwError "extract_case_loop: no loop{indentExpr loop.getAppFn}"
      let f := loop.appArg!
      return (← mkLambdaFVars xs f (usedOnly := true), ← mkLambdaFVars xs post (usedOnly := true))
    let add (n : Name) (val : Expr) : TermElabM Unit := do
      let ty ← inferType val
      addDecl <| .defnDecl { name := n, levelParams := [], type := ty, value := val, hints := .regular 0, safety := .safe }
    add `Dec.C02GenFmaAssembly.caseBody fdef
    add `Dec.C02GenFmaAssembly.casePost pdef

extract_case_loop

/-- `n` turns of the case loop from the state `s`, then the text after the loop -/
noncomputable def run (m : RoundingMode) (n : Nat) (s : St) : Except String Out :=
  forIn [0:n] ((none : Option Out), s.tup) (fun i st => caseBody m i st) >>= fun r => casePost r

/-- **`caseLoop` is 4096 turns from the initial state** -/
theorem caseLoop_eq (p1 p2 p3 p4 : Bool) (m : RoundingMode) (f : UInt32) (zs ps ze pe : UInt64) (C3 : U128) (C4 : U256)
    (q3 q4 e3 e4 : Int32) (tmp : F64U) :
    Dec.C02GenFmaFront.caseLoop p1 p2 p3 p4 m f zs ps ze pe C3 C4 q3 q4 e3 e4 tmp =
      run m 4096 (St.init p1 p2 p3 p4 f zs ps ze pe C3 C4 q3 q4 e3 e4 tmp) := by
  lockstep Dec.C02GenFmaAssembly

theorem caseBody_const (m : RoundingMode) (i j : Nat) (st : Option Out × Sig) : caseBody m i st = caseBody m j st := rfl

/-- a turn that returns (or leaves the loop at its end, with the text after the loop returning) ends the run -/
theorem run_returns (m : RoundingMode) (n : Nat) (s : St) (u : Except String Out) (v : Out) (hu : u = .ok v)
    (hR : Ret casePost (caseBody m 0 (none, s.tup)) u) : run m (n + 1) s = .ok v :=
  loop_returns n (caseBody m) (caseBody_const m) _ casePost u v hu hR

/-- a turn that ends in `continue`: the run goes on from the new state -/
theorem run_continues (m : RoundingMode) (n : Nat) (s s' : St)
    (h : caseBody m 0 (none, s.tup) = .ok (ForInStep.yield (none, s'.tup))) : run m (n + 1) s = run m n s' := by
  unfold run
  have e : caseBody m = fun _ st => caseBody m 0 st := by funext i st; exact caseBody_const m i 0 st
  rw [e, forIn_range_iter, forIn_range_iter]
  show (caseBody m 0 (none, s.tup) >>= _) >>= casePost = _
  rw [h]
  rfl

/-! ## 5. The blocks, plugged in -/

open Dec.C02GenFmaFront Dec.C02GenFmaSwap Dec.C12GenNaN

/-- **Case (7)** in the loop: from any state with `delta < 0` that passes the test of Case (7), a turn of the loop returns
what `C02GenFmaSwap.case7K` returns on the variables of that state -/
theorem run_case7 (m : RoundingMode) (n : Nat) (s : St) (v : Out)
    (hd : ¬ (decide (s.delta ≥ (0 : Int32)) = true))
    (h7 : (decide (c_P34 < s.q4) && decide (s.q4 ≤ -s.delta)) = true)
    (h : case7K s.q3 s.q4 s.e4 (-s.delta) c_P34 s.z_sign s.p_sign s.C3 s.C4 m s.incr_exp s.is_midpoint_lt_even
      s.is_midpoint_gt_even s.is_inexact_lt_midpoint s.is_inexact_gt_midpoint s.pfpsf = .ok v) :
    run m (n + 1) s = .ok v := by
  refine run_returns m n s _ v h ?_
  delta caseBody St.tup
  ret_neg hd
  ret_pos h7
  relstep Dec.C02GenFmaSwap.case7K

/-- Case (7) for `caseLoop` itself (first pass) -/
theorem caseLoop_case7 (p1 p2 p3 p4 : Bool) (m : RoundingMode) (f : UInt32) (zs ps ze pe : UInt64) (C3 : U128) (C4 : U256)
    (q3 q4 e3 e4 : Int32) (tmp : F64U) (v : Out)
    (hd : ¬ (decide (q3 + e3 - q4 - e4 ≥ (0 : Int32)) = true))
    (h7 : (decide (c_P34 < q4) && decide (q4 ≤ -(q3 + e3 - q4 - e4))) = true)
    (h : case7K q3 q4 e4 (-(q3 + e3 - q4 - e4)) c_P34 zs ps C3 C4 m false false false false false f = .ok v) :
    caseLoop p1 p2 p3 p4 m f zs ps ze pe C3 C4 q3 q4 e3 e4 tmp = .ok v := by
  rw [caseLoop_eq]
  exact run_case7 m 4095 _ v hd h7 h

/-- the state after the swap of Cases (8), (9), (10), (13), (14), (18): `delta` negated; product and addend, their digit
counts, exponents, sign words and exponent fields exchanged (the two high words of `C4` stay); the scratch variables
`P128`, `ind`, `tmp_sign`, `tmp` as the swap leaves them -/
def St.swap (s : St) : St :=
  { s with
    delta := -s.delta
    P128 := ⟨s.C3.w0, s.C3.w1⟩
    C3 := ⟨s.C4.w0, s.C4.w1⟩
    C4 := ⟨s.C3.w0, s.C3.w1, s.C4.w2, s.C4.w3⟩
    ind := s.e3
    q3 := s.q4
    q4 := s.q3
    e3 := s.e4
    e4 := s.e3
    tmp_sign := s.z_sign
    z_sign := s.p_sign
    p_sign := s.z_sign
    tmp := (⟨s.z_exp⟩ : F64U)
    z_exp := s.p_exp
    p_exp := s.z_exp }

/-- **the swap** in the loop: from a state with `delta < 0` that fails the test of Case (7) and passes `swapCond`, the turn
ends in `continue` and the run goes on from the swapped state -/
theorem run_swap (m : RoundingMode) (n : Nat) (s : St)
    (hd : ¬ (decide (s.delta ≥ (0 : Int32)) = true))
    (h7 : ¬ (decide (c_P34 < s.q4) && decide (s.q4 ≤ -s.delta)) = true)
    (hs : swapCond s.q3 s.q4 (-s.delta) c_P34 = true) :
    run m (n + 1) s = run m n s.swap := by
  refine run_continues m n s s.swap ?_
  delta caseBody St.tup
  take_neg
  · exact hd
  take_neg
  · exact h7
  take_pos
  · exact hs
  rfl

/-- the test of Cases (11), (12), literally -/
def cond1112 (q3 q4 delta p34 : Int32) : Bool :=
  (((((decide (p34 ≤ delta)) && (decide (delta < q4))) && (decide (q4 < (delta + q3))))) || ((((decide (delta < p34)) && (decide (p34 < q4))) && (decide (q4 < (delta + q3))))))

open Dec.C02GenFmaWrap in
/-- **Cases (15)–(17)** in the loop: `delta < 0`, the tests of Case (7), of the swap and of Cases (11), (12) fail, the test
`cond1517` holds: a turn of the loop returns what `C02GenFmaWrap.case1517K` returns -/
theorem run_case1517 (m : RoundingMode) (n : Nat) (s : St) (v : Out)
    (hd : ¬ (decide (s.delta ≥ (0 : Int32)) = true))
    (h7 : ¬ (decide (c_P34 < s.q4) && decide (s.q4 ≤ -s.delta)) = true)
    (hs : ¬ swapCond s.q3 s.q4 (-s.delta) c_P34 = true)
    (h11 : ¬ cond1112 s.q3 s.q4 (-s.delta) c_P34 = true)
    (h15 : cond1517 s.q3 s.q4 (-s.delta) c_P34 = true)
    (h : case1517K s.q3 s.q4 s.e4 (-s.delta) c_P34 s.z_sign s.p_sign s.C3 s.C4 m s.is_midpoint_lt_even
      s.is_midpoint_gt_even s.is_inexact_lt_midpoint s.is_inexact_gt_midpoint s.pfpsf = .ok v) :
    run m (n + 1) s = .ok v := by
  refine run_returns m n s _ v h ?_
  delta caseBody St.tup
  ret_neg hd
  ret_neg h7
  ret_neg hs
  ret_neg h11
  ret_pos h15
  relstep Dec.C02GenFmaWrap.case1517K

open Dec.C02GenFmaWrap in
/-- **the arm of Cases (2)–(6)** (`delta ≤ 1`, opposite signs) in the loop: `delta ≥ 0`, the test of Case (1) and
`p34 == delta` fail, and the test of the Mid block (`mid26` and not (`delta ≤ 1` and signs different)) fails: a turn of the
loop returns what `C02GenFmaWrap.arm26K` returns -/
theorem run_arm26 (m : RoundingMode) (n : Nat) (s : St) (v : Out)
    (hd : decide (s.delta ≥ (0 : Int32)) = true)
    (h1 : ¬ case1Cond s.q3 s.e3 s.delta c_P34 = true)
    (h1' : ¬ (c_P34 == s.delta) = true)
    (hmid : ¬ (mid26 s.q3 s.q4 s.delta c_P34 && !((decide (s.delta ≤ (1 : Int32))) && (s.p_sign != s.z_sign))) = true)
    (h : arm26K s.q3 s.q4 s.e3 s.e4 s.delta c_P34 s.z_sign s.p_sign s.C3 s.C4 m s.is_midpoint_lt_even
      s.is_midpoint_gt_even s.is_inexact_lt_midpoint s.is_inexact_gt_midpoint s.pfpsf = .ok v) :
    run m (n + 1) s = .ok v := by
  refine run_returns m n s _ v h ?_
  delta caseBody St.tup
  ret_pos hd
  ret_neg h1
  ret_neg h1'
  ret_neg hmid
  relstep Dec.C02GenFmaWrap.arm26K

open Dec.C02GenFmaZ in
/-- **Cases (1), (1′), (1″A)** in the loop (`delta ≥ 0` and the test `case1Cond`): a turn of the loop returns what
`C02GenFmaZ.caseZ1` returns on the variables of the state -/
theorem run_caseZ1 (m : RoundingMode) (n : Nat) (s : St) (v : Out)
    (hd : decide (s.delta ≥ (0 : Int32)) = true)
    (h1 : case1Cond s.q3 s.e3 s.delta c_P34 = true)
    (h : caseZ1 s.ptr_is_midpoint_lt_even s.ptr_is_midpoint_gt_even s.ptr_is_inexact_lt_midpoint s.ptr_is_inexact_gt_midpoint m s.pfpsf s.res s.z_sign s.p_sign s.z_exp s.C3 s.C4 s.q3 s.q4 s.e3 s.scale s.ind s.delta c_P34 s.is_midpoint_lt_even s.is_midpoint_gt_even s.is_inexact_lt_midpoint s.is_inexact_gt_midpoint s.incr_exp s.R64 s.P128 s.R128 s.P192 s.R192 s.R256 = .ok v) :
    run m (n + 1) s = .ok v := by
  refine run_returns m n s _ v h ?_
  delta caseBody St.tup
  ret_pos hd
  ret_pos h1
  relstep Dec.C02GenFmaZ.caseZ1

open Dec.C02GenFmaZ in
/-- **Case (1″B)** in the loop (`delta ≥ 0`, not `case1Cond`, `p34 == delta`): a turn of the loop returns what
`C02GenFmaZ.caseZ2` returns on the variables of the state -/
theorem run_caseZ2 (m : RoundingMode) (n : Nat) (s : St) (v : Out)
    (hd : decide (s.delta ≥ (0 : Int32)) = true)
    (h1 : ¬ case1Cond s.q3 s.e3 s.delta c_P34 = true)
    (h1' : (c_P34 == s.delta) = true)
    (h : caseZ2 s.ptr_is_midpoint_lt_even s.ptr_is_midpoint_gt_even s.ptr_is_inexact_lt_midpoint s.ptr_is_inexact_gt_midpoint m s.pfpsf s.res s.z_sign s.p_sign s.z_exp s.C3 s.C4 s.q3 s.q4 s.e3 s.scale c_P34 s.is_midpoint_lt_even s.is_midpoint_gt_even s.is_inexact_lt_midpoint s.is_inexact_gt_midpoint s.incr_exp s.lt_half_ulp s.eq_half_ulp s.gt_half_ulp s.R64 s.P128 s.R128 s.P192 s.R192 s.R256 = .ok v) :
    run m (n + 1) s = .ok v := by
  refine run_returns m n s _ v h ?_
  delta caseBody St.tup
  ret_pos hd
  ret_neg h1
  ret_pos h1'
  relstep Dec.C02GenFmaZ.caseZ2

open Dec.C02GenFmaMid in
/-- **Cases (2)–(6)** with their arm in the loop (`delta ≥ 0`, not `case1Cond`, not `p34 == delta`): a turn of the loop
returns what `C02GenFmaMid.midBlock` returns on the variables of the state -/
theorem run_mid (m : RoundingMode) (n : Nat) (s : St) (v : Out)
    (hd : decide (s.delta ≥ (0 : Int32)) = true)
    (h1 : ¬ case1Cond s.q3 s.e3 s.delta c_P34 = true)
    (h1' : ¬ (c_P34 == s.delta) = true)
    (h : midBlock s.ptr_is_midpoint_lt_even s.ptr_is_midpoint_gt_even s.ptr_is_inexact_lt_midpoint s.ptr_is_inexact_gt_midpoint m s.pfpsf s.res s.z_sign s.p_sign s.tmp_sign s.C3 s.C4 s.q3 s.q4 s.e3 s.e4 s.scale s.ind s.delta s.x0 c_P34 s.is_midpoint_lt_even s.is_midpoint_gt_even s.is_inexact_lt_midpoint s.is_inexact_gt_midpoint s.is_midpoint_lt_even0 s.is_midpoint_gt_even0 s.is_inexact_lt_midpoint0 s.is_inexact_gt_midpoint0 s.incr_exp s.lsb s.is_tiny s.R64 s.tmp64 s.P128 s.R128 s.P192 s.R192 s.R256 = .ok v) :
    run m (n + 1) s = .ok v := by
  refine run_returns m n s _ v h ?_
  delta caseBody St.tup
  ret_pos hd
  ret_neg h1
  ret_neg h1'
  relstep Dec.C02GenFmaMid.midBlock

theorem cond1112_eq : cond1112 = Dec.C02GenFma1112.cond1112 := rfl

open Dec.C02GenFma1112 in
/-- **Cases (11), (12)** in the loop: `delta < 0`, the tests of Case (7) and of the swap fail, `cond1112` holds: a turn of the
loop returns what `C02GenFma1112.case1112K` returns on the variables of the state -/
theorem run_case1112 (m : RoundingMode) (n : Nat) (s : St) (v : Out)
    (hd : ¬ (decide (s.delta ≥ (0 : Int32)) = true))
    (h7 : ¬ (decide (c_P34 < s.q4) && decide (s.q4 ≤ -s.delta)) = true)
    (hs : ¬ swapCond s.q3 s.q4 (-s.delta) c_P34 = true)
    (h11 : Dec.C02GenFmaAssembly.cond1112 s.q3 s.q4 (-s.delta) c_P34 = true)
    (h : case1112K s.q3 c_P34 s.z_sign s.p_sign s.C4 m s.ptr_is_midpoint_lt_even s.ptr_is_midpoint_gt_even s.ptr_is_inexact_lt_midpoint s.ptr_is_inexact_gt_midpoint s.pfpsf s.res s.C3 s.e3 s.e4 s.scale s.ind s.x0 s.is_midpoint_lt_even s.is_midpoint_gt_even s.is_inexact_lt_midpoint s.is_inexact_gt_midpoint s.is_midpoint_lt_even0 s.is_midpoint_gt_even0 s.is_inexact_lt_midpoint0 s.is_inexact_gt_midpoint0 s.incr_exp s.lsb s.lt_half_ulp s.eq_half_ulp s.gt_half_ulp s.is_tiny s.R64 s.P128 s.R128 s.P192 s.R192 s.R256 = .ok v) :
    run m (n + 1) s = .ok v := by
  refine run_returns m n s _ v h ?_
  delta caseBody St.tup
  ret_neg hd
  ret_neg h7
  ret_neg hs
  ret_pos h11
  relstep Dec.C02GenFma1112.case1112K

/-! ### examples: `caseLoop` itself, run on concrete hand-overs -/

-- Case (7): product (10^34 + 5)·10^0 (35 digits), addend +3·10^−2, nearest-even (the first example of C02GenFmaSwap, here
-- through the loop of the routine): (10^33 + 1)·10^1, inexact, `is_inexact_gt_midpoint`
example : (caseLoop false false false false .NearestEven 0 (sgnW false) (sgnW false) 0 0 (w128 3) (w256 (10^34 + 5))
      1 35 (-2) 0 default).toOption =
    some (Dec.C02GenCorrection.ofBits (encode (.fin false (10^33 + 1) 1)), false, false, false, true, 0x20) := by
  decide +kernel

-- the swap, then Case (2) in the second pass: product 5·10^0 (one digit), addend 123·10^3: `delta = −5`, Case (9); the sum
-- 123005 is exact
example : (caseLoop false false false false .NearestEven 0 (sgnW false) (sgnW false) ((6179 : UInt64) <<< 49) ((6176 : UInt64) <<< 49)
      (w128 123) (w256 5) 3 1 3 0 default).toOption =
    some (Dec.C02GenCorrection.ofBits (encode (.fin false 123005 0)), false, false, false, false, 0) := by
  decide +kernel


/-! ## 6. The routine itself, case by case

The front end (`C02GenFmaFrontSpec.front_spec`) hands over, for three numbers `x = ±c1·10^e1`, `y = ±c2·10^e2`,
`z = ±c3·10^e3` with `c1·c2 ≠ 0`, `c3 ≠ 0`: `bid128_ext_fma … x y z m f = caseLoop … zs ps ze pe C3 C4 q3 q4 e3w e4w tmp` with the
facts of `C02GenFmaFrontSpec.Handover` (`HandoverFacts` here: the same with `0 < c_i` added, `HandoverFacts.of`).  The theorems
`ext_fma_*` take that equation and those facts and give the result of `bid128_ext_fma` in the case at hand; §7 puts
`front_spec` in front. -/

open Dec.C02GenRound (v128 v256)
open Dec.C02GenCorrection (ofBits modeOf)

/-- what is known of the variables handed to the case loop -/
structure HandoverFacts (s1 s2 s3 : Bool) (c1 c2 c3 : Nat) (e1 e2 e3 : Int)
    (zs ps ze pe : UInt64) (C3 : U128) (C4 : U256) (q3 q4 e3w e4w : Int32) : Prop where
  hzs : zs = sgnW s3
  hps : ps = sgnW (s1 != s2)
  hC3 : v128 C3 = c3
  hC4 : v256 C4 = c1 * c2
  hq3 : q3.toInt = (ndigits c3 : Int)
  hq4 : q4.toInt = (ndigits (c1 * c2) : Int)
  he3 : e3w.toInt = e3
  he4 : e4w.toInt = e1 + e2
  hze : ze.toNat = (e3 + 6176).toNat * 2^49
  hpe : pe.toNat = (e1 + e2 + 6176).toNat * 2^49
  c1pos : 0 < c1
  c2pos : 0 < c2
  c3pos : 0 < c3
  c1lt : c1 < 10 ^ 34
  c2lt : c2 < 10 ^ 34
  c3lt : c3 < 10 ^ 34
  e1lo : -6176 ≤ e1
  e1hi : e1 ≤ 6111
  e2lo : -6176 ≤ e2
  e2hi : e2 ≤ 6111
  e3lo : -6176 ≤ e3
  e3hi : e3 ≤ 6111

/-- from the front end's `Handover` -/
theorem HandoverFacts.of {s1 s2 s3 : Bool} {c1 c2 c3 : Nat} {e1 e2 e3 : Int} {zs ps ze pe : UInt64} {C3 : U128} {C4 : U256}
    {q3 q4 e3w e4w : Int32} (h : Dec.C02GenFmaFrontSpec.Handover s1 s2 s3 c1 c2 c3 e1 e2 e3 zs ps ze pe C3 C4 q3 q4 e3w e4w)
    (h12 : c1 * c2 ≠ 0) (h3 : c3 ≠ 0) : HandoverFacts s1 s2 s3 c1 c2 c3 e1 e2 e3 zs ps ze pe C3 C4 q3 q4 e3w e4w := by
  have hc1 : c1 ≠ 0 := fun h0 => h12 (by rw [h0]; simp)
  have hc2 : c2 ≠ 0 := fun h0 => h12 (by rw [h0]; simp)
  refine ⟨h.hzs, h.hps, h.hC3, h.hC4, h.hq3, h.hq4, h.he3, h.he4, h.hze, ?_, by omega, by omega, by omega, h.hc1, h.hc2,
    h.hc3, h.hr1.1, h.hr1.2, h.hr2.1, h.hr2.2, h.hr3.1, h.hr3.2⟩
  rw [h.hpe]; congr 1; omega

theorem i32sub (a b : Int32) (x y : Int) (ha : a.toInt = x) (hb : b.toInt = y) (h1 : -2^31 ≤ x - y) (h2 : x - y < 2^31) :
    (a - b).toInt = x - y := by
  rw [Int32.toInt_sub, ha, hb]; exact Int.bmod_eq_of_le (by omega) (by omega)
theorem i32add (a b : Int32) (x y : Int) (ha : a.toInt = x) (hb : b.toInt = y) (h1 : -2^31 ≤ x + y) (h2 : x + y < 2^31) :
    (a + b).toInt = x + y := by
  rw [Int32.toInt_add, ha, hb]; exact Int.bmod_eq_of_le (by omega) (by omega)
theorem i32neg (a : Int32) (x : Int) (ha : a.toInt = x) (h1 : -2^31 < x) (h2 : x < 2^31) : (-a).toInt = -x := by
  rw [Int32.toInt_neg, ha]; exact Int.bmod_eq_of_le (by omega) (by omega)

namespace HandoverFacts
variable {s1 s2 s3 : Bool} {c1 c2 c3 : Nat} {e1 e2 e3 : Int} {zs ps : UInt64} {C3 : U128} {C4 : U256}
  {q3 q4 e3w e4w : Int32} {ze pe : UInt64} (H : HandoverFacts s1 s2 s3 c1 c2 c3 e1 e2 e3 zs ps ze pe C3 C4 q3 q4 e3w e4w)
include H

theorem q3_range : 1 ≤ ndigits c3 ∧ ndigits c3 ≤ 34 :=
  ⟨ndigits_pos H.c3pos, (ndigits_le_iff H.c3pos).2 H.c3lt⟩

theorem prod_pos : 0 < c1 * c2 := Nat.mul_pos H.c1pos H.c2pos

theorem q4_range : 1 ≤ ndigits (c1 * c2) ∧ ndigits (c1 * c2) ≤ 68 := by
  refine ⟨ndigits_pos H.prod_pos, (ndigits_le_iff H.prod_pos).2 ?_⟩
  calc c1 * c2 < 10 ^ 34 * 10 ^ 34 := Nat.mul_lt_mul'' H.c1lt H.c2lt
    _ = 10 ^ 68 := by norm_num

/-- `delta` as the routine computes it, no wrap -/
theorem delta_val : (q3 + e3w - q4 - e4w).toInt = (ndigits c3 : Int) + e3 - ndigits (c1 * c2) - (e1 + e2) := by
  have a := H.q3_range; have b := H.q4_range
  have h1 := H.e1lo; have h2 := H.e1hi; have h3 := H.e2lo; have h4 := H.e2hi; have h5 := H.e3lo; have h6 := H.e3hi
  have k1 := i32add q3 e3w _ _ H.hq3 H.he3 (by omega) (by omega)
  have k2 := i32sub (q3 + e3w) q4 _ _ k1 H.hq4 (by omega) (by omega)
  exact i32sub _ e4w _ _ k2 H.he4 (by omega) (by omega)

end HandoverFacts

/-- **Case (7) for the routine**: the product has more than 34 digits and the addend lies entirely below its last digit
(`q3 + e3 ≤ e1 + e2`): `bid128_ext_fma` returns the model's `fmaD` — encoding of the datum, `f ||| flags` — and some
indicators -/
theorem ext_fma_case7 (p1 p2 p3 p4 : Bool) (x y z : U128) (m : RoundingMode) (f : UInt32)
    {s1 s2 s3 : Bool} {c1 c2 c3 : Nat} {e1 e2 e3 : Int} {zs ps : UInt64} {C3 : U128} {C4 : U256} {q3 q4 e3w e4w : Int32}
    {ze pe : UInt64} (H : HandoverFacts s1 s2 s3 c1 c2 c3 e1 e2 e3 zs ps ze pe C3 C4 q3 q4 e3w e4w) (tmp : F64U)
    (hfront : bid128_ext_fma p1 p2 p3 p4 x y z m f = caseLoop p1 p2 p3 p4 m f zs ps ze pe C3 C4 q3 q4 e3w e4w tmp)
    (h34 : 34 < ndigits (c1 * c2)) (hlow : (ndigits c3 : Int) + e3 ≤ e1 + e2) :
    ∃ lt gt ilt igt : Bool, bid128_ext_fma p1 p2 p3 p4 x y z m f =
      .ok (ofBits (encode (fmaD (modeOf m) false (.fin s1 c1 e1) (.fin s2 c2 e2) (.fin s3 c3 e3)).1), lt, gt, ilt, igt,
        f ||| UInt32.ofNat (fmaD (modeOf m) false (.fin s1 c1 e1) (.fin s2 c2 e2) (.fin s3 c3 e3)).2) := by
  have a := H.q3_range; have b := H.q4_range
  have h1 := H.e1lo; have h2 := H.e1hi; have h3 := H.e2lo; have h4 := H.e2hi; have h5 := H.e3lo; have h6 := H.e3hi
  have hdv := H.delta_val
  have hnd : (-(q3 + e3w - q4 - e4w)).toInt = (ndigits (c1 * c2) : Int) + (e1 + e2) - ndigits c3 - e3 := by
    rw [i32neg _ _ hdv (by omega) (by omega)]; omega
  obtain ⟨hs1, hs2⟩ := ndigits_spec H.prod_pos
  obtain ⟨lt, gt, ilt, igt, h⟩ := case7_fma m f s1 s2 s3 c1 c2 e1 e2 C3 C4 (ndigits c3) (ndigits (c1 * c2)) e3 e4w
    (-(q3 + e3w - q4 - e4w)) a.1 a.2 (by rw [H.hC3]; exact H.c3pos)
    (by rw [H.hC3]; exact lt_pow_ndigits c3) (by omega) b.2 H.hC4 hs1 hs2 h5 h6 (by omega) (by omega) H.he4 hnd
    (by rw [hnd]; omega)
  rw [← i32_eq_ofNat q3 _ H.hq3, ← i32_eq_ofNat q4 _ H.hq4, H.hC3, ← H.hzs, ← H.hps] at h
  refine ⟨lt, gt, ilt, igt, ?_⟩
  rw [hfront]
  refine caseLoop_case7 p1 p2 p3 p4 m f zs ps ze pe C3 C4 q3 q4 e3w e4w tmp _ ?_ ?_ h
  · rw [decide_eq_true_eq, ge_iff_le, Int32.le_iff_toInt_le, hdv]
    show ¬ ((0 : Int) ≤ _)
    omega
  · rw [show c_P34 = (34 : Int32) from rfl, case7Cond_iff q3 q4 _, decide_eq_true_eq, H.hq4, hnd]
    omega


open Dec.C02GenFmaZ in
/-- the entry invariant of block Z (first pass), from the hand-over -/
theorem HandoverFacts.zinv {s1 s2 s3 : Bool} {c1 c2 c3 : Nat} {e1 e2 e3 : Int} {zs ps ze pe : UInt64} {C3 : U128} {C4 : U256}
    {q3 q4 e3w e4w : Int32} (H : HandoverFacts s1 s2 s3 c1 c2 c3 e1 e2 e3 zs ps ze pe C3 C4 q3 q4 e3w e4w) :
    ZInv C3 C4 q3 q4 e3w (q3 + e3w - q4 - e4w) c_P34 zs ps ze s3 (s1 != s2) c3 (c1 * c2) e3 (e1 + e2) := by
  have h1 := H.e1lo; have h2 := H.e1hi; have h3 := H.e2lo; have h4 := H.e2hi; have h5 := H.e3lo; have h6 := H.e3hi
  refine ⟨?_, H.c3pos, H.c3lt, H.hq3, H.he3, h5, by omega, H.hze, ?_, ?_, ?_, H.prod_pos, H.hq4, H.q4_range.2, by omega,
    by omega, H.delta_val, rfl⟩
  · rw [← H.hC3]; unfold v128; omega
  · rw [H.hzs, sgnW_toNat]; cases s3 <;> rfl
  · rw [H.hps, sgnW_toNat]; cases (s1 != s2) <;> rfl
  · rw [← H.hC4]; unfold v256; omega

open Dec.C02GenFmaZ in
/-- **Cases (1), (1′), (1″A) for the routine** (first pass): `delta = q3 + e3 − q4 − (e1 + e2) ≥ 0` and the code's test
`p34 ≤ delta − 1 || (p34 == delta && e3 + 6176 < p34 − q3)` — the addend dominates, the product only decides the rounding:
`bid128_ext_fma` returns the model's `fmaD` -/
theorem ext_fma_caseZ1 (p1 p2 p3 p4 : Bool) (x y z : U128) (m : RoundingMode) (f : UInt32)
    {s1 s2 s3 : Bool} {c1 c2 c3 : Nat} {e1 e2 e3 : Int} {zs ps ze pe : UInt64} {C3 : U128} {C4 : U256} {q3 q4 e3w e4w : Int32}
    (H : HandoverFacts s1 s2 s3 c1 c2 c3 e1 e2 e3 zs ps ze pe C3 C4 q3 q4 e3w e4w) (tmp : F64U)
    (hfront : bid128_ext_fma p1 p2 p3 p4 x y z m f = caseLoop p1 p2 p3 p4 m f zs ps ze pe C3 C4 q3 q4 e3w e4w tmp)
    (hd : 0 ≤ (ndigits c3 : Int) + e3 - ndigits (c1 * c2) - (e1 + e2))
    (hcase : case1Cond q3 e3w (q3 + e3w - q4 - e4w) c_P34 = true) :
    ∃ lt gt ilt igt : Bool, bid128_ext_fma p1 p2 p3 p4 x y z m f =
      .ok (ofBits (encode (fmaD (modeOf m) false (.fin s1 c1 e1) (.fin s2 c2 e2) (.fin s3 c3 e3)).1), lt, gt, ilt, igt,
        f ||| UInt32.ofNat (fmaD (modeOf m) false (.fin s1 c1 e1) (.fin s2 c2 e2) (.fin s3 c3 e3)).2) := by
  obtain ⟨lt, gt, ilt, igt, h⟩ := caseZ1_spec C3 C4 q3 q4 e3w (q3 + e3w - q4 - e4w) c_P34 zs ps ze s3 (s1 != s2) c3 (c1 * c2)
    e3 (e1 + e2) H.zinv hcase p1 p2 p3 p4 m f (⟨(0xbaddbaddbaddbadd : UInt64), (0xbaddbaddbaddbadd : UInt64)⟩ : U128)
    default default default default default default default default (if e1 + e2 ≤ e3 then e1 + e2 else e3)
  refine ⟨lt, gt, ilt, igt, ?_⟩
  rw [hfront, caseLoop_eq]
  refine run_caseZ1 m 4095 _ _ ?_ hcase h
  rw [decide_eq_true_eq, ge_iff_le, Int32.le_iff_toInt_le]
  show (0 : Int) ≤ (q3 + e3w - q4 - e4w).toInt
  rw [H.delta_val]; exact hd

open Dec.C02GenFmaWrap in
/-- **Cases (15)–(17) for the routine** (first pass), given the correctness of `bid_add_and_round` (`C02GenFmaWrap.AarSpec`,
to be discharged by C02GenFmaLow): `delta < 0`, the tests of Case (7), of the swap and of Cases (11), (12) fail and
`cond1517` holds — the addend lies inside the digits of a product of more than 34 digits -/
theorem ext_fma_case1517 (haar : AarSpec) (p1 p2 p3 p4 : Bool) (x y z : U128) (m : RoundingMode) (f : UInt32)
    {s1 s2 s3 : Bool} {c1 c2 c3 : Nat} {e1 e2 e3 : Int} {zs ps ze pe : UInt64} {C3 : U128} {C4 : U256} {q3 q4 e3w e4w : Int32}
    (H : HandoverFacts s1 s2 s3 c1 c2 c3 e1 e2 e3 zs ps ze pe C3 C4 q3 q4 e3w e4w) (tmp : F64U)
    (hfront : bid128_ext_fma p1 p2 p3 p4 x y z m f = caseLoop p1 p2 p3 p4 m f zs ps ze pe C3 C4 q3 q4 e3w e4w tmp)
    (hd : (ndigits c3 : Int) + e3 - ndigits (c1 * c2) - (e1 + e2) < 0)
    (h7 : ¬ (decide (c_P34 < q4) && decide (q4 ≤ -(q3 + e3w - q4 - e4w))) = true)
    (hs : ¬ swapCond q3 q4 (-(q3 + e3w - q4 - e4w)) c_P34 = true)
    (h11 : ¬ cond1112 q3 q4 (-(q3 + e3w - q4 - e4w)) c_P34 = true)
    (h15 : cond1517 q3 q4 (-(q3 + e3w - q4 - e4w)) c_P34 = true) :
    ∃ lt gt ilt igt : Bool, bid128_ext_fma p1 p2 p3 p4 x y z m f =
      .ok (ofBits (encode (fmaD (modeOf m) false (.fin s1 c1 e1) (.fin s2 c2 e2) (.fin s3 c3 e3)).1), lt, gt, ilt, igt,
        f ||| UInt32.ofNat (fmaD (modeOf m) false (.fin s1 c1 e1) (.fin s2 c2 e2) (.fin s3 c3 e3)).2) := by
  have a := H.q3_range; have b := H.q4_range
  have h1 := H.e1lo; have h2 := H.e1hi; have h3 := H.e2lo; have h4 := H.e2hi; have h5 := H.e3lo; have h6 := H.e3hi
  have hdv := H.delta_val
  have hnd : (-(q3 + e3w - q4 - e4w)).toInt = (ndigits (c1 * c2) : Int) + (e1 + e2) - ndigits c3 - e3 := by
    rw [i32neg _ _ hdv (by omega) (by omega)]; omega
  obtain ⟨lt, gt, ilt, igt, h⟩ := case1517_fma haar m f s1 s2 s3 c1 c2 e1 e2 C3 C4 (ndigits c3) (ndigits (c1 * c2)) e3 q3 q4 e4w
    (-(q3 + e3w - q4 - e4w)) false false false false H.hq3 H.hq4 a.1 a.2 (by rw [H.hC3]; exact lt_pow_ndigits c3) b.2 H.hC4
    H.prod_pos (lt_pow_ndigits _) h6 (by omega) H.he4 hnd (by rw [hnd]; omega) (by rw [hnd]; omega) h15
  rw [H.hC3, ← H.hzs, ← H.hps] at h
  refine ⟨lt, gt, ilt, igt, ?_⟩
  rw [hfront, caseLoop_eq]
  refine run_case1517 m 4095 _ _ ?_ h7 hs h11 h15 h
  rw [decide_eq_true_eq, ge_iff_le, Int32.le_iff_toInt_le]
  show ¬ ((0 : Int) ≤ (q3 + e3w - q4 - e4w).toInt)
  rw [hdv]; omega

open Dec.C02GenFmaWrap in
/-- **the arm of Cases (2)–(6) for the routine** (first pass), given `AarSpec`: `delta ∈ {0, 1}` and the signs of product and
addend differ (massive cancellation: the exact difference goes to `bid_add_and_round`) -/
theorem ext_fma_arm26 (haar : AarSpec) (p1 p2 p3 p4 : Bool) (x y z : U128) (m : RoundingMode) (f : UInt32)
    {s1 s2 s3 : Bool} {c1 c2 c3 : Nat} {e1 e2 e3 : Int} {zs ps ze pe : UInt64} {C3 : U128} {C4 : U256} {q3 q4 e3w e4w : Int32}
    (H : HandoverFacts s1 s2 s3 c1 c2 c3 e1 e2 e3 zs ps ze pe C3 C4 q3 q4 e3w e4w) (tmp : F64U)
    (hfront : bid128_ext_fma p1 p2 p3 p4 x y z m f = caseLoop p1 p2 p3 p4 m f zs ps ze pe C3 C4 q3 q4 e3w e4w tmp)
    (hd0 : 0 ≤ (ndigits c3 : Int) + e3 - ndigits (c1 * c2) - (e1 + e2))
    (hd1 : (ndigits c3 : Int) + e3 - ndigits (c1 * c2) - (e1 + e2) ≤ 1) (hsign : (s1 != s2) ≠ s3) :
    ∃ lt gt ilt igt : Bool, bid128_ext_fma p1 p2 p3 p4 x y z m f =
      .ok (ofBits (encode (fmaD (modeOf m) false (.fin s1 c1 e1) (.fin s2 c2 e2) (.fin s3 c3 e3)).1), lt, gt, ilt, igt,
        f ||| UInt32.ofNat (fmaD (modeOf m) false (.fin s1 c1 e1) (.fin s2 c2 e2) (.fin s3 c3 e3)).2) := by
  have a := H.q3_range; have b := H.q4_range
  have h1 := H.e1lo; have h2 := H.e1hi; have h3 := H.e2lo; have h4 := H.e2hi; have h5 := H.e3lo; have h6 := H.e3hi
  have hdv := H.delta_val
  obtain ⟨lt, gt, ilt, igt, h⟩ := arm26_fma haar m f s1 s2 s3 c1 c2 e1 e2 C3 C4 (ndigits c3) (ndigits (c1 * c2)) e3 q3 q4 e3w e4w
    (q3 + e3w - q4 - e4w) false false false false H.hq3 H.hq4 a.1 a.2 (by rw [H.hC3]; exact H.c3pos)
    (by rw [H.hC3]; exact lt_pow_ndigits c3) b.1 b.2 H.hC4 H.prod_pos (lt_pow_ndigits _) h5 h6 (by omega) (by omega) H.he3 H.he4
    hdv (by rw [hdv]; exact hd0) (by rw [hdv]; exact hd1) hsign
  rw [H.hC3, ← H.hzs, ← H.hps] at h
  refine ⟨lt, gt, ilt, igt, ?_⟩
  have k34 : (c_P34 : Int32).toInt = 34 := rfl
  have hdm1 : (q3 + e3w - q4 - e4w - 1).toInt = (ndigits c3 : Int) + e3 - ndigits (c1 * c2) - (e1 + e2) - 1 :=
    i32sub _ 1 _ 1 hdv rfl (by omega) (by omega)
  rw [hfront, caseLoop_eq]
  refine run_arm26 m 4095 _ _ ?_ ?_ ?_ ?_ h
  · rw [decide_eq_true_eq, ge_iff_le, Int32.le_iff_toInt_le]
    show (0 : Int) ≤ (q3 + e3w - q4 - e4w).toInt
    rw [hdv]; exact hd0
  · show ¬ case1Cond q3 e3w (q3 + e3w - q4 - e4w) c_P34 = true
    unfold case1Cond
    rw [Bool.or_eq_true, Bool.and_eq_true, decide_eq_true_eq, beq_iff_eq, Int32.le_iff_toInt_le, ← Int32.toInt_inj, hdm1, hdv, k34]
    omega
  · show ¬ (c_P34 == (q3 + e3w - q4 - e4w)) = true
    rw [beq_iff_eq, ← Int32.toInt_inj, hdv, k34]; omega
  · show ¬ (mid26 q3 q4 (q3 + e3w - q4 - e4w) c_P34 &&
      !((decide ((q3 + e3w - q4 - e4w) ≤ (1 : Int32))) && (ps != zs))) = true
    have e1' : decide ((q3 + e3w - q4 - e4w) ≤ (1 : Int32)) = true := by
      rw [decide_eq_true_eq, Int32.le_iff_toInt_le, hdv]; exact hd1
    have e2' : (ps != zs) = true := by
      rw [H.hps, H.hzs, Dec.C02GenFmaSwap.sgnW_bne]; cases hh : (s1 != s2) <;> cases s3 <;> simp_all
    rw [e1', e2']; simp

/-! ### the second pass: after the swap -/

/-- the first pass of a product of at most 34 digits with `delta < 0` ends in the swap -/
theorem first_pass_swaps (p1 p2 p3 p4 : Bool) (m : RoundingMode) (f : UInt32)
    {s1 s2 s3 : Bool} {c1 c2 c3 : Nat} {e1 e2 e3 : Int} {zs ps ze pe : UInt64} {C3 : U128} {C4 : U256} {q3 q4 e3w e4w : Int32}
    (H : HandoverFacts s1 s2 s3 c1 c2 c3 e1 e2 e3 zs ps ze pe C3 C4 q3 q4 e3w e4w) (tmp : F64U)
    (hd : (ndigits c3 : Int) + e3 - ndigits (c1 * c2) - (e1 + e2) < 0) (hq4 : ndigits (c1 * c2) ≤ 34) :
    caseLoop p1 p2 p3 p4 m f zs ps ze pe C3 C4 q3 q4 e3w e4w tmp =
      run m 4095 (St.init p1 p2 p3 p4 f zs ps ze pe C3 C4 q3 q4 e3w e4w tmp).swap := by
  have a := H.q3_range; have b := H.q4_range
  have h1 := H.e1lo; have h2 := H.e1hi; have h3 := H.e2lo; have h4 := H.e2hi; have h5 := H.e3lo; have h6 := H.e3hi
  have hdv := H.delta_val
  have hnd : (-(q3 + e3w - q4 - e4w)).toInt = (ndigits (c1 * c2) : Int) + (e1 + e2) - ndigits c3 - e3 := by
    rw [i32neg _ _ hdv (by omega) (by omega)]; omega
  have hq3' := H.hq3; have hq4' := H.hq4
  rw [caseLoop_eq]
  refine run_swap m 4095 _ ?_ ?_ ?_
  · rw [decide_eq_true_eq, ge_iff_le, Int32.le_iff_toInt_le]
    show ¬ ((0 : Int) ≤ (q3 + e3w - q4 - e4w).toInt)
    rw [hdv]; omega
  · show ¬ (decide (c_P34 < q4) && decide (q4 ≤ -(q3 + e3w - q4 - e4w))) = true
    rw [show c_P34 = (34 : Int32) from rfl, case7Cond_iff q3 q4 _, decide_eq_true_eq, H.hq4]; omega
  · show swapCond q3 q4 (-(q3 + e3w - q4 - e4w)) c_P34 = true
    rw [show c_P34 = (34 : Int32) from rfl, swapCond_iff q3 q4 _ ⟨by omega, by omega, by omega, by omega, by omega, by omega⟩,
      decide_eq_true_eq, H.hq4]; omega

open Dec.C02GenFmaZ in
/-- the entry invariant of block Z in the SECOND pass: the product (at most 34 digits) in the place of the addend -/
theorem HandoverFacts.zinv_swapped {s1 s2 s3 : Bool} {c1 c2 c3 : Nat} {e1 e2 e3 : Int} {zs ps ze pe : UInt64} {C3 : U128}
    {C4 : U256} {q3 q4 e3w e4w : Int32} (H : HandoverFacts s1 s2 s3 c1 c2 c3 e1 e2 e3 zs ps ze pe C3 C4 q3 q4 e3w e4w)
    (hq4 : ndigits (c1 * c2) ≤ 34) (hlo : -6176 ≤ e1 + e2) :
    ZInv ⟨C4.w0, C4.w1⟩ ⟨C3.w0, C3.w1, C4.w2, C4.w3⟩ q4 q3 e4w (-(q3 + e3w - q4 - e4w)) c_P34 ps zs pe (s1 != s2) s3 (c1 * c2) c3
      (e1 + e2) e3 := by
  have a := H.q3_range; have b := H.q4_range
  have h1 := H.e1lo; have h2 := H.e1hi; have h3 := H.e2lo; have h4 := H.e2hi; have h5 := H.e3lo; have h6 := H.e3hi
  have hdv := H.delta_val
  have hnd : (-(q3 + e3w - q4 - e4w)).toInt = (ndigits (c1 * c2) : Int) + (e1 + e2) - ndigits c3 - e3 := by
    rw [i32neg _ _ hdv (by omega) (by omega)]; omega
  have hlt : c1 * c2 < 10 ^ 34 := (ndigits_le_iff H.prod_pos).1 hq4
  obtain ⟨w2, w3, v1, v2⟩ := swap_coeff C3 C4 (by rw [H.hC4]; exact hlt)
  refine ⟨?_, H.prod_pos, hlt, H.hq4, H.he4, hlo, by omega, H.hpe, ?_, ?_, ?_, H.c3pos, H.hq3, by omega, by omega, by omega, hnd, rfl⟩
  · rw [← H.hC4, ← v1]; unfold v128; simp only []; omega
  · rw [H.hps, sgnW_toNat]; cases (s1 != s2) <;> rfl
  · rw [H.hzs, sgnW_toNat]; cases s3 <;> rfl
  · rw [← H.hC3, ← v2]; unfold v256; simp only []; omega

open Dec.C02GenFmaZ in
/-- **old Case (8) (and whatever lands in Case (1) after the swap) for the routine**: `delta < 0`, a product of at most 34
digits; after the swap the code's test of Case (1) holds — the PRODUCT dominates, the addend only decides the rounding -/
theorem ext_fma_swap_caseZ1 (p1 p2 p3 p4 : Bool) (x y z : U128) (m : RoundingMode) (f : UInt32)
    {s1 s2 s3 : Bool} {c1 c2 c3 : Nat} {e1 e2 e3 : Int} {zs ps ze pe : UInt64} {C3 : U128} {C4 : U256} {q3 q4 e3w e4w : Int32}
    (H : HandoverFacts s1 s2 s3 c1 c2 c3 e1 e2 e3 zs ps ze pe C3 C4 q3 q4 e3w e4w) (tmp : F64U)
    (hfront : bid128_ext_fma p1 p2 p3 p4 x y z m f = caseLoop p1 p2 p3 p4 m f zs ps ze pe C3 C4 q3 q4 e3w e4w tmp)
    (hd : (ndigits c3 : Int) + e3 - ndigits (c1 * c2) - (e1 + e2) < 0) (hq4 : ndigits (c1 * c2) ≤ 34)
    (hlo : -6176 ≤ e1 + e2)
    (hcase : case1Cond q4 e4w (-(q3 + e3w - q4 - e4w)) c_P34 = true) :
    ∃ lt gt ilt igt : Bool, bid128_ext_fma p1 p2 p3 p4 x y z m f =
      .ok (ofBits (encode (fmaD (modeOf m) false (.fin s1 c1 e1) (.fin s2 c2 e2) (.fin s3 c3 e3)).1), lt, gt, ilt, igt,
        f ||| UInt32.ofNat (fmaD (modeOf m) false (.fin s1 c1 e1) (.fin s2 c2 e2) (.fin s3 c3 e3)).2) := by
  have a := H.q3_range; have b := H.q4_range
  have h1 := H.e1lo; have h2 := H.e1hi; have h3 := H.e2lo; have h4 := H.e2hi; have h5 := H.e3lo; have h6 := H.e3hi
  have hdv := H.delta_val
  have hnd : (-(q3 + e3w - q4 - e4w)).toInt = (ndigits (c1 * c2) : Int) + (e1 + e2) - ndigits c3 - e3 := by
    rw [i32neg _ _ hdv (by omega) (by omega)]; omega
  obtain ⟨lt, gt, ilt, igt, h⟩ := caseZ1_spec _ _ q4 q3 e4w (-(q3 + e3w - q4 - e4w)) c_P34 ps zs pe (s1 != s2) s3 (c1 * c2) c3
    (e1 + e2) e3 (H.zinv_swapped hq4 hlo) hcase p1 p2 p3 p4 m f (⟨(0xbaddbaddbaddbadd : UInt64), (0xbaddbaddbaddbadd : UInt64)⟩ : U128)
    default e3w default ⟨C3.w0, C3.w1⟩ default default default default (if e1 + e2 ≤ e3 then e1 + e2 else e3)
  rw [addFin_comm] at h
  refine ⟨lt, gt, ilt, igt, ?_⟩
  rw [hfront, first_pass_swaps p1 p2 p3 p4 m f H tmp hd hq4]
  refine run_caseZ1 m 4094 _ _ ?_ hcase h
  rw [decide_eq_true_eq, ge_iff_le, Int32.le_iff_toInt_le]
  show (0 : Int) ≤ (-(q3 + e3w - q4 - e4w)).toInt
  rw [hnd]; omega


open Dec.C02GenFmaWrap in
/-- **the arm after the swap** (second pass), given `AarSpec`: product of at most 34 digits, `delta = −1`, opposite signs -/
theorem ext_fma_swap_arm26 (haar : AarSpec) (p1 p2 p3 p4 : Bool) (x y z : U128) (m : RoundingMode) (f : UInt32)
    {s1 s2 s3 : Bool} {c1 c2 c3 : Nat} {e1 e2 e3 : Int} {zs ps ze pe : UInt64} {C3 : U128} {C4 : U256} {q3 q4 e3w e4w : Int32}
    (H : HandoverFacts s1 s2 s3 c1 c2 c3 e1 e2 e3 zs ps ze pe C3 C4 q3 q4 e3w e4w) (tmp : F64U)
    (hfront : bid128_ext_fma p1 p2 p3 p4 x y z m f = caseLoop p1 p2 p3 p4 m f zs ps ze pe C3 C4 q3 q4 e3w e4w tmp)
    (hd : (ndigits c3 : Int) + e3 - ndigits (c1 * c2) - (e1 + e2) = -1) (hq4 : ndigits (c1 * c2) ≤ 34)
    (hsign : (s1 != s2) ≠ s3) :
    ∃ lt gt ilt igt : Bool, bid128_ext_fma p1 p2 p3 p4 x y z m f =
      .ok (ofBits (encode (fmaD (modeOf m) false (.fin s1 c1 e1) (.fin s2 c2 e2) (.fin s3 c3 e3)).1), lt, gt, ilt, igt,
        f ||| UInt32.ofNat (fmaD (modeOf m) false (.fin s1 c1 e1) (.fin s2 c2 e2) (.fin s3 c3 e3)).2) := by
  have a := H.q3_range; have b := H.q4_range
  have h1 := H.e1lo; have h2 := H.e1hi; have h3 := H.e2lo; have h4 := H.e2hi; have h5 := H.e3lo; have h6 := H.e3hi
  have hdv := H.delta_val
  have hnd : (-(q3 + e3w - q4 - e4w)).toInt = (ndigits (c1 * c2) : Int) + (e1 + e2) - ndigits c3 - e3 := by
    rw [i32neg _ _ hdv (by omega) (by omega)]; omega
  have hlt : c1 * c2 < 10 ^ 34 := (ndigits_le_iff H.prod_pos).1 hq4
  obtain ⟨w2, w3, v1, v2⟩ := swap_coeff C3 C4 (by rw [H.hC4]; exact hlt)
  obtain ⟨lt, gt, ilt, igt, h⟩ := arm26_fma_swapped haar m f s1 s2 s3 c1 c2 c3 e1 e2 ⟨C4.w0, C4.w1⟩ ⟨C3.w0, C3.w1, C4.w2, C4.w3⟩
    (ndigits (c1 * c2)) (ndigits c3) e3 q4 q3 e4w e3w (-(q3 + e3w - q4 - e4w)) false false false false H.hq4 H.hq3 b.1 hq4
    (by rw [v1, H.hC4]) H.prod_pos (lt_pow_ndigits _) a.1 a.2 (by rw [v2, H.hC3]) H.c3pos (lt_pow_ndigits _) h5 h6 (by omega)
    (by omega) H.he4 H.he3 hnd (by rw [hnd]; omega) (by rw [hnd]; omega) hsign
  rw [← H.hzs, ← H.hps] at h
  refine ⟨lt, gt, ilt, igt, ?_⟩
  have k34 : (c_P34 : Int32).toInt = 34 := rfl
  have hdm1 : (-(q3 + e3w - q4 - e4w) - 1).toInt = (ndigits (c1 * c2) : Int) + (e1 + e2) - ndigits c3 - e3 - 1 :=
    i32sub _ 1 _ 1 hnd rfl (by omega) (by omega)
  rw [hfront, first_pass_swaps p1 p2 p3 p4 m f H tmp (by omega) hq4]
  refine run_arm26 m 4094 _ _ ?_ ?_ ?_ ?_ h
  · rw [decide_eq_true_eq, ge_iff_le, Int32.le_iff_toInt_le]
    show (0 : Int) ≤ (-(q3 + e3w - q4 - e4w)).toInt
    rw [hnd]; omega
  · show ¬ case1Cond q4 e4w (-(q3 + e3w - q4 - e4w)) c_P34 = true
    unfold case1Cond
    rw [Bool.or_eq_true, Bool.and_eq_true, decide_eq_true_eq, beq_iff_eq, Int32.le_iff_toInt_le, ← Int32.toInt_inj, hdm1, hnd, k34]
    omega
  · show ¬ (c_P34 == (-(q3 + e3w - q4 - e4w))) = true
    rw [beq_iff_eq, ← Int32.toInt_inj, hnd, k34]; omega
  · show ¬ (mid26 q4 q3 (-(q3 + e3w - q4 - e4w)) c_P34 &&
      !((decide ((-(q3 + e3w - q4 - e4w)) ≤ (1 : Int32))) && (zs != ps))) = true
    have e1' : decide ((-(q3 + e3w - q4 - e4w)) ≤ (1 : Int32)) = true := by
      rw [decide_eq_true_eq, Int32.le_iff_toInt_le, hnd]; show _ ≤ (1 : Int); omega
    have e2' : (zs != ps) = true := by
      rw [H.hps, H.hzs, Dec.C02GenFmaSwap.sgnW_bne]; cases hh : (s1 != s2) <;> cases s3 <;> simp_all
    rw [e1', e2']; simp

open Dec.C02GenFmaZ in
/-- **Case (1″B) for the routine** (first pass): `delta = 34` and the test of Case (1) fails -/
theorem ext_fma_caseZ2 (p1 p2 p3 p4 : Bool) (x y z : U128) (m : RoundingMode) (f : UInt32)
    {s1 s2 s3 : Bool} {c1 c2 c3 : Nat} {e1 e2 e3 : Int} {zs ps ze pe : UInt64} {C3 : U128} {C4 : U256} {q3 q4 e3w e4w : Int32}
    (H : HandoverFacts s1 s2 s3 c1 c2 c3 e1 e2 e3 zs ps ze pe C3 C4 q3 q4 e3w e4w) (tmp : F64U)
    (hfront : bid128_ext_fma p1 p2 p3 p4 x y z m f = caseLoop p1 p2 p3 p4 m f zs ps ze pe C3 C4 q3 q4 e3w e4w tmp)
    (hd : (ndigits c3 : Int) + e3 - ndigits (c1 * c2) - (e1 + e2) = 34)
    (hcase : case1Cond q3 e3w (q3 + e3w - q4 - e4w) c_P34 = false) :
    ∃ lt gt ilt igt : Bool, bid128_ext_fma p1 p2 p3 p4 x y z m f =
      .ok (ofBits (encode (fmaD (modeOf m) false (.fin s1 c1 e1) (.fin s2 c2 e2) (.fin s3 c3 e3)).1), lt, gt, ilt, igt,
        f ||| UInt32.ofNat (fmaD (modeOf m) false (.fin s1 c1 e1) (.fin s2 c2 e2) (.fin s3 c3 e3)).2) := by
  have hdv := H.delta_val
  have h34 : (c_P34 == (q3 + e3w - q4 - e4w)) = true := by
    rw [beq_iff_eq, ← Int32.toInt_inj, hdv, hd]; rfl
  obtain ⟨lt, gt, ilt, igt, h⟩ := caseZ2_spec C3 C4 q3 q4 e3w (q3 + e3w - q4 - e4w) c_P34 zs ps ze s3 (s1 != s2) c3 (c1 * c2)
    e3 (e1 + e2) H.zinv hcase h34 p1 p2 p3 p4 m f (⟨(0xbaddbaddbaddbadd : UInt64), (0xbaddbaddbaddbadd : UInt64)⟩ : U128)
    default default default default default default default (if e1 + e2 ≤ e3 then e1 + e2 else e3)
  refine ⟨lt, gt, ilt, igt, ?_⟩
  rw [hfront, caseLoop_eq]
  refine run_caseZ2 m 4095 _ _ ?_ (ne_true_of_eq_false hcase) h34 h
  rw [decide_eq_true_eq, ge_iff_le, Int32.le_iff_toInt_le]
  show (0 : Int) ≤ (q3 + e3w - q4 - e4w).toInt
  rw [hdv, hd]; decide

open Dec.C02GenFmaZ in
/-- **Case (1″B) after the swap** (second pass): product of at most 34 digits, `−delta = 34`, the test of Case (1) fails on
the swapped variables -/
theorem ext_fma_swap_caseZ2 (p1 p2 p3 p4 : Bool) (x y z : U128) (m : RoundingMode) (f : UInt32)
    {s1 s2 s3 : Bool} {c1 c2 c3 : Nat} {e1 e2 e3 : Int} {zs ps ze pe : UInt64} {C3 : U128} {C4 : U256} {q3 q4 e3w e4w : Int32}
    (H : HandoverFacts s1 s2 s3 c1 c2 c3 e1 e2 e3 zs ps ze pe C3 C4 q3 q4 e3w e4w) (tmp : F64U)
    (hfront : bid128_ext_fma p1 p2 p3 p4 x y z m f = caseLoop p1 p2 p3 p4 m f zs ps ze pe C3 C4 q3 q4 e3w e4w tmp)
    (hd : (ndigits c3 : Int) + e3 - ndigits (c1 * c2) - (e1 + e2) = -34) (hq4 : ndigits (c1 * c2) ≤ 34)
    (hcase : case1Cond q4 e4w (-(q3 + e3w - q4 - e4w)) c_P34 = false) :
    ∃ lt gt ilt igt : Bool, bid128_ext_fma p1 p2 p3 p4 x y z m f =
      .ok (ofBits (encode (fmaD (modeOf m) false (.fin s1 c1 e1) (.fin s2 c2 e2) (.fin s3 c3 e3)).1), lt, gt, ilt, igt,
        f ||| UInt32.ofNat (fmaD (modeOf m) false (.fin s1 c1 e1) (.fin s2 c2 e2) (.fin s3 c3 e3)).2) := by
  have a := H.q3_range; have b := H.q4_range
  have h1 := H.e1lo; have h2 := H.e1hi; have h3 := H.e2lo; have h4 := H.e2hi; have h5 := H.e3lo; have h6 := H.e3hi
  have hdv := H.delta_val
  have hnd : (-(q3 + e3w - q4 - e4w)).toInt = (ndigits (c1 * c2) : Int) + (e1 + e2) - ndigits c3 - e3 := by
    rw [i32neg _ _ hdv (by omega) (by omega)]; omega
  have h34 : (c_P34 == (-(q3 + e3w - q4 - e4w))) = true := by
    rw [beq_iff_eq, ← Int32.toInt_inj, hnd]; show (34 : Int) = _; omega
  obtain ⟨lt, gt, ilt, igt, h⟩ := caseZ2_spec _ _ q4 q3 e4w (-(q3 + e3w - q4 - e4w)) c_P34 ps zs pe (s1 != s2) s3 (c1 * c2) c3
    (e1 + e2) e3 (H.zinv_swapped hq4 (by omega)) hcase h34 p1 p2 p3 p4 m f
    (⟨(0xbaddbaddbaddbadd : UInt64), (0xbaddbaddbaddbadd : UInt64)⟩ : U128)
    default default ⟨C3.w0, C3.w1⟩ default default default default (if e1 + e2 ≤ e3 then e1 + e2 else e3)
  rw [addFin_comm] at h
  refine ⟨lt, gt, ilt, igt, ?_⟩
  rw [hfront, first_pass_swaps p1 p2 p3 p4 m f H tmp (by omega) hq4]
  refine run_caseZ2 m 4094 _ _ ?_ (ne_true_of_eq_false hcase) h34 h
  rw [decide_eq_true_eq, ge_iff_le, Int32.le_iff_toInt_le]
  show (0 : Int) ≤ (-(q3 + e3w - q4 - e4w)).toInt
  rw [hnd]; omega

open Dec.C02GenFmaMid in
/-- the entry invariant of block Mid (first pass), from the hand-over -/
theorem HandoverFacts.midinv {s1 s2 s3 : Bool} {c1 c2 c3 : Nat} {e1 e2 e3 : Int} {zs ps ze pe : UInt64} {C3 : U128} {C4 : U256}
    {q3 q4 e3w e4w : Int32} (H : HandoverFacts s1 s2 s3 c1 c2 c3 e1 e2 e3 zs ps ze pe C3 C4 q3 q4 e3w e4w)
    (hd0 : 0 ≤ (ndigits c3 : Int) + e3 - ndigits (c1 * c2) - (e1 + e2))
    (hd1 : (ndigits c3 : Int) + e3 - ndigits (c1 * c2) - (e1 + e2) ≤ 33) :
    EntryInv C3 C4 q3 q4 e3w e4w (q3 + e3w - q4 - e4w) c_P34 zs ps c3 (c1 * c2) e3 (e1 + e2) s3 (s1 != s2) := by
  have h1 := H.e1lo; have h2 := H.e1hi; have h3 := H.e2lo; have h4 := H.e2hi; have h5 := H.e3lo; have h6 := H.e3hi
  have hdv := H.delta_val
  refine ⟨?_, ⟨H.c3pos, H.c3lt⟩, H.hq3, H.he3, ⟨h5, h6⟩, ?_, ⟨H.prod_pos, ?_⟩, H.hq4, H.he4, ⟨by omega, by omega⟩, hdv,
    ⟨by rw [hdv]; exact hd0, by rw [hdv]; exact hd1⟩, rfl, ?_, ?_⟩
  · rw [← H.hC3]; unfold Dec.C03GenCompare.val128 v128; omega
  · rw [← H.hC4]; unfold Dec.C03GenCompare.val256 v256; omega
  · calc c1 * c2 < 10 ^ 34 * 10 ^ 34 := Nat.mul_lt_mul'' H.c1lt H.c2lt
      _ = P34 * P34 := by decide
  · rw [H.hzs, sgnW_toNat]
  · rw [H.hps, sgnW_toNat]

open Dec.C02GenFmaMid in
/-- **Cases (2)–(6) for the routine** (first pass): `0 ≤ delta ≤ 33`, and not (`delta ≤ 1` with opposite signs) -/
theorem ext_fma_mid (p1 p2 p3 p4 : Bool) (x y z : U128) (m : RoundingMode) (f : UInt32)
    {s1 s2 s3 : Bool} {c1 c2 c3 : Nat} {e1 e2 e3 : Int} {zs ps ze pe : UInt64} {C3 : U128} {C4 : U256} {q3 q4 e3w e4w : Int32}
    (H : HandoverFacts s1 s2 s3 c1 c2 c3 e1 e2 e3 zs ps ze pe C3 C4 q3 q4 e3w e4w) (tmp : F64U)
    (hfront : bid128_ext_fma p1 p2 p3 p4 x y z m f = caseLoop p1 p2 p3 p4 m f zs ps ze pe C3 C4 q3 q4 e3w e4w tmp)
    (hd0 : 0 ≤ (ndigits c3 : Int) + e3 - ndigits (c1 * c2) - (e1 + e2))
    (hd1 : (ndigits c3 : Int) + e3 - ndigits (c1 * c2) - (e1 + e2) ≤ 33)
    (hcase : ¬ ((ndigits c3 : Int) + e3 - ndigits (c1 * c2) - (e1 + e2) ≤ 1 ∧ (s1 != s2) ≠ s3)) :
    ∃ lt gt ilt igt : Bool, bid128_ext_fma p1 p2 p3 p4 x y z m f =
      .ok (ofBits (encode (fmaD (modeOf m) false (.fin s1 c1 e1) (.fin s2 c2 e2) (.fin s3 c3 e3)).1), lt, gt, ilt, igt,
        f ||| UInt32.ofNat (fmaD (modeOf m) false (.fin s1 c1 e1) (.fin s2 c2 e2) (.fin s3 c3 e3)).2) := by
  have a := H.q3_range; have b := H.q4_range
  have h1 := H.e1lo; have h2 := H.e1hi; have h3 := H.e2lo; have h4 := H.e2hi; have h5 := H.e3lo; have h6 := H.e3hi
  have hdv := H.delta_val
  obtain ⟨lt, gt, ilt, igt, h⟩ := midBlock_spec p1 p2 p3 p4 m f (⟨(0xbaddbaddbaddbadd : UInt64), (0xbaddbaddbaddbadd : UInt64)⟩ : U128)
    zs ps default C3 C4 q3 q4 e3w e4w default default (q3 + e3w - q4 - e4w) default c_P34 default default default default false
    default default default default default default default default c3 (c1 * c2) e3 (e1 + e2) s3 (s1 != s2)
    (H.midinv hd0 hd1) (by rw [hdv]; exact hcase)
  refine ⟨lt, gt, ilt, igt, ?_⟩
  have k34 : (c_P34 : Int32).toInt = 34 := rfl
  have hdm1 : (q3 + e3w - q4 - e4w - 1).toInt = (ndigits c3 : Int) + e3 - ndigits (c1 * c2) - (e1 + e2) - 1 :=
    i32sub _ 1 _ 1 hdv rfl (by omega) (by omega)
  rw [hfront, caseLoop_eq]
  refine run_mid m 4095 _ _ ?_ ?_ ?_ h
  · rw [decide_eq_true_eq, ge_iff_le, Int32.le_iff_toInt_le]
    show (0 : Int) ≤ (q3 + e3w - q4 - e4w).toInt
    rw [hdv]; exact hd0
  · show ¬ case1Cond q3 e3w (q3 + e3w - q4 - e4w) c_P34 = true
    unfold case1Cond
    rw [Bool.or_eq_true, Bool.and_eq_true, decide_eq_true_eq, beq_iff_eq, Int32.le_iff_toInt_le, ← Int32.toInt_inj, hdm1, hdv, k34]
    omega
  · show ¬ (c_P34 == (q3 + e3w - q4 - e4w)) = true
    rw [beq_iff_eq, ← Int32.toInt_inj, hdv, k34]; omega


/-! ## 7. `bid128_ext_fma` and `bid128_fma` on numbers, case by case (tests in terms of digit counts and exponents) -/

open Dec.C01GenMul (dOf)
open Dec.C02GenFmaFrontSpec (front_spec)

/-- what `bid128_fma` returns, from what `bid128_ext_fma` returns (the four indicators are dropped) -/
theorem fma_of_ext (x y z : U128) (m : RoundingMode) (f : UInt32) (W : U128) (F : UInt32)
    (h : ∃ lt gt ilt igt : Bool, bid128_ext_fma false false false false x y z m f = .ok (W, lt, gt, ilt, igt, F)) :
    bid128_fma x y z m f = .ok (W, F) := by
  obtain ⟨lt, gt, ilt, igt, h⟩ := h
  unfold bid128_fma
  take_call h
  rfl

/-- the statement "the routine returns the model's `fmaD`" for `bid128_ext_fma` (some indicators) … -/
def ExtFmaOK (p1 p2 p3 p4 : Bool) (x y z : U128) (m : RoundingMode) (f : UInt32) : Prop :=
  ∃ lt gt ilt igt : Bool, bid128_ext_fma p1 p2 p3 p4 x y z m f =
    .ok (ofBits (encode (fmaD (modeOf m) false (dOf x) (dOf y) (dOf z)).1), lt, gt, ilt, igt,
      f ||| UInt32.ofNat (fmaD (modeOf m) false (dOf x) (dOf y) (dOf z)).2)

/-- … and for `bid128_fma` -/
def FmaOK (x y z : U128) (m : RoundingMode) (f : UInt32) : Prop :=
  bid128_fma x y z m f =
    .ok (ofBits (encode (fmaD (modeOf m) false (dOf x) (dOf y) (dOf z)).1),
      f ||| UInt32.ofNat (fmaD (modeOf m) false (dOf x) (dOf y) (dOf z)).2)

theorem FmaOK.of_ext {x y z : U128} {m : RoundingMode} {f : UInt32} (h : ExtFmaOK false false false false x y z m f) :
    FmaOK x y z m f := fma_of_ext x y z m f _ _ h

/-- the tests of the `delta < 0` side, on numbers (`D = −delta`) -/
theorem cond1112_iff (q3 q4 d : Int32) (r : Rng q3 q4 d) :
    cond1112 q3 q4 d 34 = decide ((34 ≤ d.toInt ∧ d.toInt < q4.toInt ∧ q4.toInt < d.toInt + q3.toInt) ∨
      (d.toInt < 34 ∧ 34 < q4.toInt ∧ q4.toInt < d.toInt + q3.toInt)) := by
  have a := dq d q3 r.dlo r.dhi r.q3lo r.q3hi
  rw [Bool.eq_iff_iff]
  simp only [cond1112, Bool.or_eq_true, Bool.and_eq_true, decide_eq_true_eq, Int32.le_iff_toInt_le, Int32.lt_iff_toInt_lt, a, i34]
  omega

open Dec.C02GenFmaWrap in
theorem cond1517_iff (q3 q4 d : Int32) (r : Rng q3 q4 d) :
    cond1517 q3 q4 d 34 = decide ((34 ≤ d.toInt ∧ d.toInt + q3.toInt ≤ q4.toInt) ∨
      (d.toInt < 34 ∧ 34 < d.toInt + q3.toInt ∧ d.toInt + q3.toInt ≤ q4.toInt) ∨
      (d.toInt + q3.toInt ≤ 34 ∧ 34 < q4.toInt)) := by
  have a := dq d q3 r.dlo r.dhi r.q3lo r.q3hi
  rw [Bool.eq_iff_iff]
  simp only [cond1517, Bool.or_eq_true, Bool.and_eq_true, decide_eq_true_eq, Int32.le_iff_toInt_le, Int32.lt_iff_toInt_lt, a, i34]
  omega

/-- the test of Case (1), on numbers -/
theorem case1Cond_iff (q3 e3 d : Int32) (h1 : 1 ≤ q3.toInt) (h2 : q3.toInt ≤ 68) (h3 : -12352 ≤ e3.toInt)
    (h4 : e3.toInt ≤ 12222) (h5 : 0 ≤ d.toInt) (h6 : d.toInt < 2^19) :
    case1Cond q3 e3 d 34 = decide (35 ≤ d.toInt ∨ (d.toInt = 34 ∧ e3.toInt + 6176 < 34 - q3.toInt)) := by
  have a : (d - 1).toInt = d.toInt - 1 := i32sub d 1 _ 1 rfl rfl (by omega) (by omega)
  have b : (e3 + 0x1820).toInt = e3.toInt + 6176 := i32add e3 0x1820 _ 6176 rfl rfl (by omega) (by omega)
  have c : ((34 : Int32) - q3).toInt = 34 - q3.toInt := i32sub 34 q3 34 _ rfl rfl (by omega) (by omega)
  rw [Bool.eq_iff_iff]
  simp only [case1Cond, Bool.or_eq_true, Bool.and_eq_true, decide_eq_true_eq, beq_iff_eq, Int32.le_iff_toInt_le,
    Int32.lt_iff_toInt_lt, ← Int32.toInt_inj, a, b, c, i34]
  omega

section final
variable (x y z : U128) (m : RoundingMode) (f : UInt32) {s1 s2 s3 : Bool} {c1 c2 c3 : Nat} {e1 e2 e3 : Int}
  (hx : dOf x = .fin s1 c1 e1) (hy : dOf y = .fin s2 c2 e2) (hz : dOf z = .fin s3 c3 e3) (h12 : c1 * c2 ≠ 0) (h3 : c3 ≠ 0)
include hx hy hz h12 h3

/-- **Case (7)**: three numbers, non-zero product of more than 34 digits, non-zero addend lying entirely below the last
digit of the product (`q3 + e3 ≤ e1 + e2`) -/
theorem ext_fma_ok_case7 (p1 p2 p3 p4 : Bool) (h34 : 34 < ndigits (c1 * c2)) (hlow : (ndigits c3 : Int) + e3 ≤ e1 + e2) :
    ExtFmaOK p1 p2 p3 p4 x y z m f := by
  obtain ⟨zs, ps, ze, pe, C3, C4, q3, q4, e3w, e4w, tmp, hh, hfront⟩ := front_spec p1 p2 p3 p4 x y z m f hx hy hz h12 h3
  unfold ExtFmaOK; rw [hx, hy, hz]
  exact ext_fma_case7 p1 p2 p3 p4 x y z m f (HandoverFacts.of hh h12 h3) tmp hfront h34 hlow

/-- **Cases (1), (1′), (1″A)** (first pass): `delta = q3 + e3 − q4 − (e1 + e2) ≥ 35`, or `= 34` with
`e3 + 6176 < 34 − q3` — the addend dominates -/
theorem ext_fma_ok_case1 (p1 p2 p3 p4 : Bool)
    (hcase : 35 ≤ (ndigits c3 : Int) + e3 - ndigits (c1 * c2) - (e1 + e2) ∨
      ((ndigits c3 : Int) + e3 - ndigits (c1 * c2) - (e1 + e2) = 34 ∧ e3 + 6176 < 34 - (ndigits c3 : Int))) :
    ExtFmaOK p1 p2 p3 p4 x y z m f := by
  obtain ⟨zs, ps, ze, pe, C3, C4, q3, q4, e3w, e4w, tmp, hh, hfront⟩ := front_spec p1 p2 p3 p4 x y z m f hx hy hz h12 h3
  have H := HandoverFacts.of hh h12 h3
  have a := H.q3_range; have b := H.q4_range
  have h1 := H.e1lo; have h2 := H.e1hi; have h3' := H.e2lo; have h4 := H.e2hi; have h5 := H.e3lo; have h6 := H.e3hi
  have hdv := H.delta_val
  unfold ExtFmaOK; rw [hx, hy, hz]
  refine ext_fma_caseZ1 p1 p2 p3 p4 x y z m f H tmp hfront (by omega) ?_
  rw [show c_P34 = (34 : Int32) from rfl, case1Cond_iff q3 e3w _ (by rw [H.hq3]; omega) (by rw [H.hq3]; omega)
    (by rw [H.he3]; omega) (by rw [H.he3]; omega) (by rw [hdv]; omega) (by rw [hdv]; omega), decide_eq_true_eq, hdv, H.he3,
    H.hq3]
  exact hcase

/-- **old Case (8)** and whatever else lands in Case (1) after the swap: product of at most 34 digits with
`delta' = q4 + (e1 + e2) − q3 − e3 ≥ 35`, or `= 34` with `(e1 + e2) + 6176 < 34 − q4` — the product dominates -/
theorem ext_fma_ok_case8 (p1 p2 p3 p4 : Bool) (hq4 : ndigits (c1 * c2) ≤ 34)
    (hcase : 35 ≤ (ndigits (c1 * c2) : Int) + (e1 + e2) - ndigits c3 - e3 ∨
      ((ndigits (c1 * c2) : Int) + (e1 + e2) - ndigits c3 - e3 = 34 ∧ (e1 + e2) + 6176 < 34 - (ndigits (c1 * c2) : Int))) :
    ExtFmaOK p1 p2 p3 p4 x y z m f := by
  obtain ⟨zs, ps, ze, pe, C3, C4, q3, q4, e3w, e4w, tmp, hh, hfront⟩ := front_spec p1 p2 p3 p4 x y z m f hx hy hz h12 h3
  have H := HandoverFacts.of hh h12 h3
  have a := H.q3_range; have b := H.q4_range
  have h1 := H.e1lo; have h2 := H.e1hi; have h3' := H.e2lo; have h4 := H.e2hi; have h5 := H.e3lo; have h6 := H.e3hi
  have hdv := H.delta_val
  have hnd : (-(q3 + e3w - q4 - e4w)).toInt = (ndigits (c1 * c2) : Int) + (e1 + e2) - ndigits c3 - e3 := by
    rw [i32neg _ _ hdv (by omega) (by omega)]; omega
  unfold ExtFmaOK; rw [hx, hy, hz]
  refine ext_fma_swap_caseZ1 p1 p2 p3 p4 x y z m f H tmp hfront (by omega) hq4 (by omega) ?_
  rw [show c_P34 = (34 : Int32) from rfl, case1Cond_iff q4 e4w _ (by rw [H.hq4]; omega) (by rw [H.hq4]; omega)
    (by rw [H.he4]; omega) (by rw [H.he4]; omega) (by rw [hnd]; omega) (by rw [hnd]; omega), decide_eq_true_eq, hnd, H.he4,
    H.hq4]
  exact hcase

open Dec.C02GenFmaWrap in
/-- **Cases (15)–(17)**: product of more than 34 digits, addend reaching into its digits from above its last
digit but not above its first (`e1 + e2 ≤ e3`, `q3 + e3 ≤ q4 + e1 + e2`) -/
theorem ext_fma_ok_case1517 (p1 p2 p3 p4 : Bool) (h34 : 34 < ndigits (c1 * c2))
    (hlo : e1 + e2 ≤ e3) (hd : (ndigits c3 : Int) + e3 < ndigits (c1 * c2) + (e1 + e2)) :
    ExtFmaOK p1 p2 p3 p4 x y z m f := by
  obtain ⟨zs, ps, ze, pe, C3, C4, q3, q4, e3w, e4w, tmp, hh, hfront⟩ := front_spec p1 p2 p3 p4 x y z m f hx hy hz h12 h3
  have H := HandoverFacts.of hh h12 h3
  have a := H.q3_range; have b := H.q4_range
  have h1 := H.e1lo; have h2 := H.e1hi; have h3' := H.e2lo; have h4 := H.e2hi; have h5 := H.e3lo; have h6 := H.e3hi
  have hdv := H.delta_val
  have hnd : (-(q3 + e3w - q4 - e4w)).toInt = (ndigits (c1 * c2) : Int) + (e1 + e2) - ndigits c3 - e3 := by
    rw [i32neg _ _ hdv (by omega) (by omega)]; omega
  have hq3' := H.hq3; have hq4' := H.hq4
  have r : Rng q3 q4 (-(q3 + e3w - q4 - e4w)) := ⟨by omega, by omega, by omega, by omega, by omega, by omega⟩
  unfold ExtFmaOK; rw [hx, hy, hz]
  refine ext_fma_case1517 aarSpec p1 p2 p3 p4 x y z m f H tmp hfront (by omega) ?_ ?_ ?_ ?_
  · rw [show c_P34 = (34 : Int32) from rfl, case7Cond_iff q3 q4 _, decide_eq_true_eq, hnd, hq4']; omega
  · rw [show c_P34 = (34 : Int32) from rfl, swapCond_iff q3 q4 _ r, decide_eq_true_eq, hq4']; omega
  · rw [show c_P34 = (34 : Int32) from rfl, cond1112_iff q3 q4 _ r, decide_eq_true_eq, hnd, hq4', hq3']; omega
  · rw [show c_P34 = (34 : Int32) from rfl, cond1517_iff q3 q4 _ r, decide_eq_true_eq, hnd, hq4', hq3']; omega

open Dec.C02GenFmaWrap in
/-- **the arm of Cases (2)–(6)** (first pass): `delta ∈ {0, 1}` and opposite signs -/
theorem ext_fma_ok_arm26 (p1 p2 p3 p4 : Bool)
    (hd0 : 0 ≤ (ndigits c3 : Int) + e3 - ndigits (c1 * c2) - (e1 + e2))
    (hd1 : (ndigits c3 : Int) + e3 - ndigits (c1 * c2) - (e1 + e2) ≤ 1) (hsign : (s1 != s2) ≠ s3) :
    ExtFmaOK p1 p2 p3 p4 x y z m f := by
  obtain ⟨zs, ps, ze, pe, C3, C4, q3, q4, e3w, e4w, tmp, hh, hfront⟩ := front_spec p1 p2 p3 p4 x y z m f hx hy hz h12 h3
  unfold ExtFmaOK; rw [hx, hy, hz]
  exact ext_fma_arm26 aarSpec p1 p2 p3 p4 x y z m f (HandoverFacts.of hh h12 h3) tmp hfront hd0 hd1 hsign

open Dec.C02GenFmaWrap in
/-- **the arm after the swap** (second pass): product of at most 34 digits, `delta = −1`, opposite signs -/
theorem ext_fma_ok_swap_arm26 (p1 p2 p3 p4 : Bool) (hq4 : ndigits (c1 * c2) ≤ 34)
    (hd : (ndigits c3 : Int) + e3 - ndigits (c1 * c2) - (e1 + e2) = -1) (hsign : (s1 != s2) ≠ s3) :
    ExtFmaOK p1 p2 p3 p4 x y z m f := by
  obtain ⟨zs, ps, ze, pe, C3, C4, q3, q4, e3w, e4w, tmp, hh, hfront⟩ := front_spec p1 p2 p3 p4 x y z m f hx hy hz h12 h3
  unfold ExtFmaOK; rw [hx, hy, hz]
  exact ext_fma_swap_arm26 aarSpec p1 p2 p3 p4 x y z m f (HandoverFacts.of hh h12 h3) tmp hfront hd hq4 hsign

/-- **Case (1″B)** (first pass): `delta = 34` and `e3 + 6176 ≥ 34 − q3` (the addend can be padded to 34 digits) -/
theorem ext_fma_ok_case1b (p1 p2 p3 p4 : Bool)
    (hd : (ndigits c3 : Int) + e3 - ndigits (c1 * c2) - (e1 + e2) = 34) (hpad : ¬ e3 + 6176 < 34 - (ndigits c3 : Int)) :
    ExtFmaOK p1 p2 p3 p4 x y z m f := by
  obtain ⟨zs, ps, ze, pe, C3, C4, q3, q4, e3w, e4w, tmp, hh, hfront⟩ := front_spec p1 p2 p3 p4 x y z m f hx hy hz h12 h3
  have H := HandoverFacts.of hh h12 h3
  have a := H.q3_range; have b := H.q4_range
  have h1 := H.e1lo; have h2 := H.e1hi; have h3' := H.e2lo; have h4 := H.e2hi; have h5 := H.e3lo; have h6 := H.e3hi
  have hdv := H.delta_val
  unfold ExtFmaOK; rw [hx, hy, hz]
  refine ext_fma_caseZ2 p1 p2 p3 p4 x y z m f H tmp hfront hd ?_
  rw [show c_P34 = (34 : Int32) from rfl, case1Cond_iff q3 e3w _ (by rw [H.hq3]; omega) (by rw [H.hq3]; omega)
    (by rw [H.he3]; omega) (by rw [H.he3]; omega) (by rw [hdv]; omega) (by rw [hdv]; omega), decide_eq_false_iff_not, hdv,
    H.he3, H.hq3]
  omega

/-- **Case (1″B) after the swap**: product of at most 34 digits, `−delta = 34`, `e1 + e2 + 6176 ≥ 34 − q4` -/
theorem ext_fma_ok_swap_case1b (p1 p2 p3 p4 : Bool) (hq4 : ndigits (c1 * c2) ≤ 34)
    (hd : (ndigits c3 : Int) + e3 - ndigits (c1 * c2) - (e1 + e2) = -34)
    (hpad : ¬ (e1 + e2) + 6176 < 34 - (ndigits (c1 * c2) : Int)) :
    ExtFmaOK p1 p2 p3 p4 x y z m f := by
  obtain ⟨zs, ps, ze, pe, C3, C4, q3, q4, e3w, e4w, tmp, hh, hfront⟩ := front_spec p1 p2 p3 p4 x y z m f hx hy hz h12 h3
  have H := HandoverFacts.of hh h12 h3
  have a := H.q3_range; have b := H.q4_range
  have h1 := H.e1lo; have h2 := H.e1hi; have h3' := H.e2lo; have h4 := H.e2hi; have h5 := H.e3lo; have h6 := H.e3hi
  have hdv := H.delta_val
  have hnd : (-(q3 + e3w - q4 - e4w)).toInt = (ndigits (c1 * c2) : Int) + (e1 + e2) - ndigits c3 - e3 := by
    rw [i32neg _ _ hdv (by omega) (by omega)]; omega
  unfold ExtFmaOK; rw [hx, hy, hz]
  refine ext_fma_swap_caseZ2 p1 p2 p3 p4 x y z m f H tmp hfront hd hq4 ?_
  rw [show c_P34 = (34 : Int32) from rfl, case1Cond_iff q4 e4w _ (by rw [H.hq4]; omega) (by rw [H.hq4]; omega)
    (by rw [H.he4]; omega) (by rw [H.he4]; omega) (by rw [hnd]; omega) (by rw [hnd]; omega), decide_eq_false_iff_not, hnd,
    H.he4, H.hq4]
  omega

/-- **Cases (2)–(6)** (first pass): `0 ≤ delta ≤ 33`, and not (`delta ≤ 1` with opposite signs) -/
theorem ext_fma_ok_case2to6 (p1 p2 p3 p4 : Bool)
    (hd0 : 0 ≤ (ndigits c3 : Int) + e3 - ndigits (c1 * c2) - (e1 + e2))
    (hd1 : (ndigits c3 : Int) + e3 - ndigits (c1 * c2) - (e1 + e2) ≤ 33)
    (hcase : ¬ ((ndigits c3 : Int) + e3 - ndigits (c1 * c2) - (e1 + e2) ≤ 1 ∧ (s1 != s2) ≠ s3)) :
    ExtFmaOK p1 p2 p3 p4 x y z m f := by
  obtain ⟨zs, ps, ze, pe, C3, C4, q3, q4, e3w, e4w, tmp, hh, hfront⟩ := front_spec p1 p2 p3 p4 x y z m f hx hy hz h12 h3
  unfold ExtFmaOK; rw [hx, hy, hz]
  exact ext_fma_mid p1 p2 p3 p4 x y z m f (HandoverFacts.of hh h12 h3) tmp hfront hd0 hd1 hcase

/-! the same for `bid128_fma` -/

theorem fma_ok_case1b (hd : (ndigits c3 : Int) + e3 - ndigits (c1 * c2) - (e1 + e2) = 34)
    (hpad : ¬ e3 + 6176 < 34 - (ndigits c3 : Int)) : FmaOK x y z m f :=
  FmaOK.of_ext (ext_fma_ok_case1b x y z m f hx hy hz h12 h3 _ _ _ _ hd hpad)

theorem fma_ok_swap_case1b (hq4 : ndigits (c1 * c2) ≤ 34)
    (hd : (ndigits c3 : Int) + e3 - ndigits (c1 * c2) - (e1 + e2) = -34)
    (hpad : ¬ (e1 + e2) + 6176 < 34 - (ndigits (c1 * c2) : Int)) : FmaOK x y z m f :=
  FmaOK.of_ext (ext_fma_ok_swap_case1b x y z m f hx hy hz h12 h3 _ _ _ _ hq4 hd hpad)

theorem fma_ok_case2to6 (hd0 : 0 ≤ (ndigits c3 : Int) + e3 - ndigits (c1 * c2) - (e1 + e2))
    (hd1 : (ndigits c3 : Int) + e3 - ndigits (c1 * c2) - (e1 + e2) ≤ 33)
    (hcase : ¬ ((ndigits c3 : Int) + e3 - ndigits (c1 * c2) - (e1 + e2) ≤ 1 ∧ (s1 != s2) ≠ s3)) : FmaOK x y z m f :=
  FmaOK.of_ext (ext_fma_ok_case2to6 x y z m f hx hy hz h12 h3 _ _ _ _ hd0 hd1 hcase)

theorem fma_ok_swap_arm26 (hq4 : ndigits (c1 * c2) ≤ 34)
    (hd : (ndigits c3 : Int) + e3 - ndigits (c1 * c2) - (e1 + e2) = -1) (hsign : (s1 != s2) ≠ s3) : FmaOK x y z m f :=
  FmaOK.of_ext (ext_fma_ok_swap_arm26 x y z m f hx hy hz h12 h3 _ _ _ _ hq4 hd hsign)


theorem fma_ok_case7 (h34 : 34 < ndigits (c1 * c2)) (hlow : (ndigits c3 : Int) + e3 ≤ e1 + e2) : FmaOK x y z m f :=
  FmaOK.of_ext (ext_fma_ok_case7 x y z m f hx hy hz h12 h3 _ _ _ _ h34 hlow)

theorem fma_ok_case1
    (hcase : 35 ≤ (ndigits c3 : Int) + e3 - ndigits (c1 * c2) - (e1 + e2) ∨
      ((ndigits c3 : Int) + e3 - ndigits (c1 * c2) - (e1 + e2) = 34 ∧ e3 + 6176 < 34 - (ndigits c3 : Int))) :
    FmaOK x y z m f :=
  FmaOK.of_ext (ext_fma_ok_case1 x y z m f hx hy hz h12 h3 _ _ _ _ hcase)

theorem fma_ok_case8 (hq4 : ndigits (c1 * c2) ≤ 34)
    (hcase : 35 ≤ (ndigits (c1 * c2) : Int) + (e1 + e2) - ndigits c3 - e3 ∨
      ((ndigits (c1 * c2) : Int) + (e1 + e2) - ndigits c3 - e3 = 34 ∧ (e1 + e2) + 6176 < 34 - (ndigits (c1 * c2) : Int))) :
    FmaOK x y z m f :=
  FmaOK.of_ext (ext_fma_ok_case8 x y z m f hx hy hz h12 h3 _ _ _ _ hq4 hcase)

theorem fma_ok_case1517 (h34 : 34 < ndigits (c1 * c2))
    (hlo : e1 + e2 ≤ e3) (hd : (ndigits c3 : Int) + e3 < ndigits (c1 * c2) + (e1 + e2)) : FmaOK x y z m f :=
  FmaOK.of_ext (ext_fma_ok_case1517 x y z m f hx hy hz h12 h3 _ _ _ _ h34 hlo hd)

theorem fma_ok_arm26
    (hd0 : 0 ≤ (ndigits c3 : Int) + e3 - ndigits (c1 * c2) - (e1 + e2))
    (hd1 : (ndigits c3 : Int) + e3 - ndigits (c1 * c2) - (e1 + e2) ≤ 1) (hsign : (s1 != s2) ≠ s3) : FmaOK x y z m f :=
  FmaOK.of_ext (ext_fma_ok_arm26 x y z m f hx hy hz h12 h3 _ _ _ _ hd0 hd1 hsign)

end final

-- Case (7) through `bid128_fma`: x = (10^17 + 1)E0, y = (10^17 + 5)E0 (product 35 digits), z = 3E−2: by the theorem …
example : FmaOK ⟨100000000000000001, 0x3040000000000000⟩ ⟨100000000000000005, 0x3040000000000000⟩ ⟨3, 0x303c000000000000⟩
    .NearestEven 0 :=
  fma_ok_case7 _ _ _ _ _ (s1 := false) (c1 := 10^17 + 1) (e1 := 0) (s2 := false) (c2 := 10^17 + 5) (e2 := 0) (s3 := false)
    (c3 := 3) (e3 := -2) (by decide +kernel) (by decide +kernel) (by decide +kernel) (by decide) (by decide)
    (by decide +kernel) (by decide +kernel)
-- … and by running the translated routine
example : (bid128_fma ⟨100000000000000001, 0x3040000000000000⟩ ⟨100000000000000005, 0x3040000000000000⟩
      ⟨3, 0x303c000000000000⟩ .NearestEven 0).toOption =
    some (ofBits (encode (.fin false 1000000000000000060000000000000001 1)), 0x20) := by decide +kernel


/-! ## 8. All operands but the remaining cases -/

/-- the cases of three numbers NOT yet connected to the model, on numbers (`q3 = ndigits c3`, `q4 = ndigits (c1·c2)`,
`d = q4 + (e1 + e2) − q3 − e3 = −delta`):
  * a zero product with a non-zero addend (answered in the front end, `prodZeroK`; specification in progress in
    C02GenFmaFrontSpec);
  * a non-zero product with a zero addend (the `z = 0` path `z0K`: all of multiplication; in progress);
  * Cases (11), (12): `d > 0`, `34 < q4`, `d < q4 < d + q3` (block plugged: `run_case1112`; its specification
    `C02GenFma1112.case1112_partial` is not yet `= fmaD`);
  * the second pass of Cases (2)–(6) (old Cases (9), (10), (13), (14), (18)): `d > 0`, `q4 ≤ 34`, `d ≤ 33`, not (`d ≤ 1` with
    opposite signs) (block plugged: `run_swap` + `run_mid`; `midBlock_spec` holds under the first-pass invariant only) -/
def RemNum (s1 s2 s3 : Bool) (c1 c2 c3 : Nat) (e1 e2 e3 : Int) : Prop :=
  (c1 * c2 = 0 ∧ c3 ≠ 0) ∨ (c1 * c2 ≠ 0 ∧ c3 = 0) ∨
  (c1 * c2 ≠ 0 ∧ c3 ≠ 0 ∧ 0 < (ndigits (c1 * c2) : Int) + (e1 + e2) - ndigits c3 - e3 ∧
    ((34 < ndigits (c1 * c2) ∧ (ndigits (c1 * c2) : Int) + (e1 + e2) - ndigits c3 - e3 < ndigits (c1 * c2) ∧
        (ndigits (c1 * c2) : Int) < (ndigits (c1 * c2) : Int) + (e1 + e2) - ndigits c3 - e3 + ndigits c3) ∨
     (ndigits (c1 * c2) ≤ 34 ∧ (ndigits (c1 * c2) : Int) + (e1 + e2) - ndigits c3 - e3 ≤ 33 ∧
        ¬ ((ndigits (c1 * c2) : Int) + (e1 + e2) - ndigits c3 - e3 ≤ 1 ∧ (s1 != s2) ≠ s3))))

/-- the remaining cases, for operands: three numbers in one of the cases of `RemNum` -/
def FmaRemaining (x y z : U128) : Prop :=
  ∃ s1 c1 e1 s2 c2 e2 s3 c3 e3, dOf x = .fin s1 c1 e1 ∧ dOf y = .fin s2 c2 e2 ∧ dOf z = .fin s3 c3 e3 ∧
    RemNum s1 s2 s3 c1 c2 c3 e1 e2 e3

theorem fin_of_not_special (d : Datum) (h1 : d.isNaN = false) (h2 : d.isInf = false) : ∃ s c e, d = .fin s c e := by
  cases d with
  | fin s c e => exact ⟨s, c, e, rfl⟩
  | inf s => simp [Datum.isInf] at h2
  | nan s g p => simp [Datum.isNaN] at h1

/-- three numbers with non-zero product and non-zero addend, outside Cases (11), (12) and the second pass of Cases (2)–(6) -/
theorem ext_fma_ok_numbers (p1 p2 p3 p4 : Bool) (x y z : U128) (m : RoundingMode) (f : UInt32)
    {s1 s2 s3 : Bool} {c1 c2 c3 : Nat} {e1 e2 e3 : Int}
    (hx : dOf x = .fin s1 c1 e1) (hy : dOf y = .fin s2 c2 e2) (hz : dOf z = .fin s3 c3 e3) (h12 : c1 * c2 ≠ 0) (h3 : c3 ≠ 0)
    (hrem : ¬ RemNum s1 s2 s3 c1 c2 c3 e1 e2 e3) : ExtFmaOK p1 p2 p3 p4 x y z m f := by
  have hq3 : 1 ≤ ndigits c3 := ndigits_pos (Nat.pos_of_ne_zero h3)
  have hq4 : 1 ≤ ndigits (c1 * c2) := ndigits_pos (Nat.pos_of_ne_zero h12)
  unfold RemNum at hrem
  by_cases hd : 0 ≤ (ndigits c3 : Int) + e3 - ndigits (c1 * c2) - (e1 + e2)
  · -- `delta ≥ 0`
    by_cases hc1 : 35 ≤ (ndigits c3 : Int) + e3 - ndigits (c1 * c2) - (e1 + e2) ∨
        ((ndigits c3 : Int) + e3 - ndigits (c1 * c2) - (e1 + e2) = 34 ∧ e3 + 6176 < 34 - (ndigits c3 : Int))
    · exact ext_fma_ok_case1 x y z m f hx hy hz h12 h3 p1 p2 p3 p4 hc1
    by_cases h34 : (ndigits c3 : Int) + e3 - ndigits (c1 * c2) - (e1 + e2) = 34
    · exact ext_fma_ok_case1b x y z m f hx hy hz h12 h3 p1 p2 p3 p4 h34 (by omega)
    by_cases harm : (ndigits c3 : Int) + e3 - ndigits (c1 * c2) - (e1 + e2) ≤ 1 ∧ (s1 != s2) ≠ s3
    · exact ext_fma_ok_arm26 x y z m f hx hy hz h12 h3 p1 p2 p3 p4 hd harm.1 harm.2
    · exact ext_fma_ok_case2to6 x y z m f hx hy hz h12 h3 p1 p2 p3 p4 hd (by omega) harm
  · -- `delta < 0`
    by_cases hq : 34 < ndigits (c1 * c2)
    · by_cases h7 : (ndigits c3 : Int) + e3 ≤ e1 + e2
      · exact ext_fma_ok_case7 x y z m f hx hy hz h12 h3 p1 p2 p3 p4 hq h7
      by_cases h11 : (ndigits (c1 * c2) : Int) < (ndigits (c1 * c2) : Int) + (e1 + e2) - ndigits c3 - e3 + ndigits c3
      · exact absurd (Or.inr (Or.inr ⟨h12, h3, by omega, Or.inl ⟨hq, by omega, h11⟩⟩)) hrem
      · exact ext_fma_ok_case1517 x y z m f hx hy hz h12 h3 p1 p2 p3 p4 hq (by omega) (by omega)
    · by_cases hc8 : 35 ≤ (ndigits (c1 * c2) : Int) + (e1 + e2) - ndigits c3 - e3 ∨
          ((ndigits (c1 * c2) : Int) + (e1 + e2) - ndigits c3 - e3 = 34 ∧
            (e1 + e2) + 6176 < 34 - (ndigits (c1 * c2) : Int))
      · exact ext_fma_ok_case8 x y z m f hx hy hz h12 h3 p1 p2 p3 p4 (by omega) hc8
      by_cases h34 : (ndigits (c1 * c2) : Int) + (e1 + e2) - ndigits c3 - e3 = 34
      · exact ext_fma_ok_swap_case1b x y z m f hx hy hz h12 h3 p1 p2 p3 p4 (by omega) (by omega) (by omega)
      by_cases harm : (ndigits (c1 * c2) : Int) + (e1 + e2) - ndigits c3 - e3 ≤ 1 ∧ (s1 != s2) ≠ s3
      · exact ext_fma_ok_swap_arm26 x y z m f hx hy hz h12 h3 p1 p2 p3 p4 (by omega) (by omega) harm.2
      · exact absurd (Or.inr (Or.inr ⟨h12, h3, by omega, Or.inr ⟨by omega, by omega, harm⟩⟩)) hrem

/-- **`bid128_ext_fma` outside the remaining cases**: for ALL operands that are not NaNs (NaN operands:
`C12GenNaN.ext_fma_nan`, the NaN rule) and not in `FmaRemaining`, every rounding mode, every incoming status word, the routine
returns `.ok` of the canonical encoding of the model's `fmaD` datum, some indicators, and `f ||| flags` -/
theorem bid128_ext_fma_spec_partial (p1 p2 p3 p4 : Bool) (x y z : U128) (m : RoundingMode) (f : UInt32)
    (hx : (dOf x).isNaN = false) (hy : (dOf y).isNaN = false) (hz : (dOf z).isNaN = false)
    (hrem : ¬ FmaRemaining x y z) : ExtFmaOK p1 p2 p3 p4 x y z m f := by
  by_cases hi : ((dOf x).isInf || (dOf y).isInf || (dOf z).isInf) = true
  · exact ⟨false, false, false, false, Dec.C02GenFmaFrontSpec.front_inf p1 p2 p3 p4 x y z m f hx hy hz hi⟩
  · simp only [Bool.or_eq_true, not_or, Bool.not_eq_true] at hi
    obtain ⟨s1, c1, e1, hx'⟩ := fin_of_not_special _ hx hi.1.1
    obtain ⟨s2, c2, e2, hy'⟩ := fin_of_not_special _ hy hi.1.2
    obtain ⟨s3, c3, e3, hz'⟩ := fin_of_not_special _ hz hi.2
    have hrem' : ¬ RemNum s1 s2 s3 c1 c2 c3 e1 e2 e3 := fun h => hrem ⟨_, _, _, _, _, _, _, _, _, hx', hy', hz', h⟩
    by_cases h12 : c1 * c2 = 0
    · by_cases h3 : c3 = 0
      · subst h3
        exact ⟨false, false, false, false, Dec.C02GenFmaFrontSpec.front_zero_zero p1 p2 p3 p4 x y z m f hx' hy' hz' h12⟩
      · exact absurd (Or.inl ⟨h12, h3⟩) hrem'
    · by_cases h3 : c3 = 0
      · exact absurd (Or.inr (Or.inl ⟨h12, h3⟩)) hrem'
      · exact ext_fma_ok_numbers p1 p2 p3 p4 x y z m f hx' hy' hz' h12 h3 hrem'

/-- **`bid128_fma` outside the remaining cases** (the conditional headline): for all operands that are not NaNs
(`C12GenNaN.fma_nan` for those) and not in `FmaRemaining`:
`bid128_fma x y z m f = .ok (encode (fmaD …).1, f ||| (fmaD …).2)` -/
theorem bid128_fma_spec_partial (x y z : U128) (m : RoundingMode) (f : UInt32)
    (hx : (dOf x).isNaN = false) (hy : (dOf y).isNaN = false) (hz : (dOf z).isNaN = false)
    (hrem : ¬ FmaRemaining x y z) : FmaOK x y z m f :=
  FmaOK.of_ext (bid128_ext_fma_spec_partial false false false false x y z m f hx hy hz hrem)


/-! ## 9. Multiplication, through `C01GenMul.mul_eq_fma` -/

open Dec.C01GenMul (z0 dOf_z0 mul_eq_fma fmaD_z0_eq_mulD mul_zero_mulD)

theorem md_eq_modeOf (m : RoundingMode) : Dec.C13GenPack.md m = modeOf m := by cases m <;> rfl

/-- the statement "the routine returns the model's `mulD`" -/
def MulOK (x y : U128) (m : RoundingMode) (f : UInt32) : Prop :=
  bid128_mul x y m f =
    .ok (ofBits (encode (mulD (modeOf m) (dOf x) (dOf y)).1), f ||| UInt32.ofNat (mulD (modeOf m) (dOf x) (dOf y)).2)

/-- outside the zero case `bid128_mul (x, y)` is `bid128_fma (y, x, +0E+6111)`, and the model's `fmaD` there is `mulD`: so
`FmaOK y x z0` gives `MulOK x y` -/
theorem MulOK.of_fma {x y : U128} {m : RoundingMode} {f : UInt32}
    (h : ¬ ((dOf x).isFin = true ∧ (dOf y).isFin = true ∧ ((dOf x).isZero = true ∨ (dOf y).isZero = true)))
    (hf : FmaOK y x z0 m f) : MulOK x y m f := by
  unfold MulOK
  unfold FmaOK at hf
  rw [mul_eq_fma x y m f h, hf, dOf_z0, fmaD_z0_eq_mulD _ _ _ h]

/-- a zero among two numbers: `bid128_mul` answers itself -/
theorem MulOK.of_zero {x y : U128} {m : RoundingMode} {f : UInt32} {s1 s2 : Bool} {c1 c2 : Nat} {e1 e2 : Int}
    (hx : dOf x = .fin s1 c1 e1) (hy : dOf y = .fin s2 c2 e2) (hz : c1 = 0 ∨ c2 = 0) : MulOK x y m f := by
  obtain ⟨h1, h2⟩ := mul_zero_mulD x y m f hx hy hz
  unfold MulOK
  rw [← md_eq_modeOf, h1, h2]
  exact congrArg (fun g => Except.ok (_, g)) (UInt32.or_zero).symm

/-- **`bid128_mul` outside the remaining case**: for all operands that are not NaNs (`C12GenNaN.mul_nan` for those) and not two
numbers with a NON-ZERO product (that case is the `z = 0` path of `bid128_ext_fma`, in progress): zeros of every kind
(canonical or not) and infinite operands (`∞·0` invalid) — `bid128_mul x y m f = .ok (encode (mulD …).1, f ||| (mulD …).2)` -/
theorem bid128_mul_spec_partial (x y : U128) (m : RoundingMode) (f : UInt32)
    (hx : (dOf x).isNaN = false) (hy : (dOf y).isNaN = false)
    (hrem : ¬ ∃ s1 c1 e1 s2 c2 e2, dOf x = .fin s1 c1 e1 ∧ dOf y = .fin s2 c2 e2 ∧ c1 * c2 ≠ 0) : MulOK x y m f := by
  by_cases hi : ((dOf x).isInf || (dOf y).isInf) = true
  · -- an infinite operand: through `bid128_fma`, where the front end answers
    refine MulOK.of_fma ?_ (bid128_fma_spec_partial y x z0 m f hy hx (by rw [dOf_z0]; rfl) ?_)
    · rintro ⟨fx, fy, -⟩
      rcases Bool.or_eq_true_iff.1 hi with h | h
      · cases hd : dOf x <;> rw [hd] at fx h <;> simp [Datum.isFin, Datum.isInf] at fx h
      · cases hd : dOf y <;> rw [hd] at fy h <;> simp [Datum.isFin, Datum.isInf] at fy h
    · rintro ⟨s1, c1, e1, s2, c2, e2, s3, c3, e3, h1, h2, -, -⟩
      rcases Bool.or_eq_true_iff.1 hi with h | h
      · rw [h2] at h; simp [Datum.isInf] at h
      · rw [h1] at h; simp [Datum.isInf] at h
  · simp only [Bool.or_eq_true, not_or, Bool.not_eq_true] at hi
    obtain ⟨s1, c1, e1, hx'⟩ := fin_of_not_special _ hx hi.1
    obtain ⟨s2, c2, e2, hy'⟩ := fin_of_not_special _ hy hi.2
    have hz : c1 = 0 ∨ c2 = 0 := by
      by_contra hcon
      exact hrem ⟨s1, c1, e1, s2, c2, e2, hx', hy', Nat.mul_ne_zero (fun h => hcon (Or.inl h)) (fun h => hcon (Or.inr h))⟩
    exact MulOK.of_zero hx' hy' hz

end Dec.C02GenFmaAssembly
