/-
  C06GenToUInt32 — the decimal → 32-bit unsigned integer conversions of bid128_to_uint32.rs as translated in
  `DecGen/Code.lean` (`Dec.Gen.Code.bid128_to_uint32_*`): for EVERY 128-bit pattern and every incoming status word each
  routine returns, without panicking, exactly what `Dec.toIntD mode xflag 0 (2^32−1) 2^31 (decode (bitsOf x))` says
  (`specOutU`: the integer as a `UInt32` — `specOutU_toNat`: with that value —, flags or-ed into the incoming word):
  the judge's "convert_to_u32_*" expectations.  Ten theorems `to_uint32_{int,xint,floor,xfloor,ceil,xceil,rnint,xrnint,
  rninta,xrninta}_spec`.

  Negative operands, as each copy treats them (all as the specification says):
    * `−0` (any exponent, non-canonical encodings included) → 0, no flag, in every copy;
    * `int`/`xint`/`ceil`/`xceil`: a negative operand above −1 → 0 (inexact from the `x` variants); everything ≤ −1 invalid
      (range test at ten digits with bound 1, then the explicit "negative → invalid" step after the below-one case);
    * `floor`/`xfloor`: EVERY negative non-zero operand is invalid (tested right after the zero tests, before the digit count);
    * `rnint`/`xrnint`: magnitude ≤ ½ → 0; above ½ invalid;  `rninta`/`xrninta`: magnitude < ½ → 0; −½ and below invalid;
    * an invalid answer raises invalid only (never inexact), also in the `x` variants.

  Method: the blocks and lemmas of `C06GenToInt` / `C06GenToIntRN` (front end, range test, digit removal, fraction tests)
  are reused as they are — they are polymorphic in the result type; new here: the unsigned result blocks (`INVU`, `finU`,
  `resOfU`, `posExpKU`, `remGU`), the boundary lemmas for the bounds 1 and 2^32 (`thr_*U`, `rangeK_semU`), one front-end lemma
  for all copies (`frontU`), the positive tail (`posTailU_spec`), three skeletons (`skelUA`: int/ceil, `skelUB`: floor,
  `skelUC`: to nearest) with their theorems, and per copy an `…_unfold` by `rfl` plus finite parameter checks by `decide`.

  Nothing was found that deviates from the specification.
-/
import DecProofs.Properties.C06GenToInt
import DecProofs.Properties.C06GenToIntRN

set_option linter.unusedSimpArgs false
set_option linter.unusedVariables false
set_option linter.unnecessarySeqFocus false

namespace Dec.C06GenToUInt32
open Dec.Rs Dec.Gen.Code Dec.C06GenToInt
open Dec.C03GenCompare (val128 val128_lt sigW sigF zeroP nzFin negW expW expW_lt val192 val256 ite_ok inf_test steer_test val128_sigF)

/-! ### the boundary test at ten integer digits, for the bounds of the unsigned type (1 for negative operands, 2^32) -/

/-- the boundary comparison when the quotient is just below the bound: the discarded part decides -/
theorem thr_midU (d : Dir) (B c : Nat) (strict : Bool) (hB : B = 1 ∨ B = 4294967296) (ok : thrOK d B c strict)
    (r D' : Nat) (hD' : 0 < D') (hr : r < 10 * D') :
    cmpN strict ((B - 1) * (10 * D') + r) (c * D') = incr d ((B - 1) % 2 == 1) r (10 * D') := by
  unfold cmpN incr
  rcases hB with rfl | rfl <;> cases d <;> simp only [thrOK] at ok <;> obtain ⟨rfl, rfl⟩ := ok
  all_goals (by_cases h0 : r = 0)
  all_goals simp only [h0, if_true, if_false, Bool.false_eq_true, Nat.reduceMod, Nat.reduceSub, Nat.reduceMul, Nat.reduceBEq,
    decide_true, decide_false, Bool.and_true, Bool.and_false, Bool.or_false, Nat.add_zero, Nat.reduceEqDiff]
  all_goals rw [Bool.eq_iff_iff]
  all_goals simp only [decide_eq_true_eq, Bool.false_eq_true, Bool.or_eq_true, iff_false, iff_true, not_lt, not_le]
  all_goals omega


theorem thrOK_cU (d : Dir) (B c : Nat) (strict : Bool) (ok : thrOK d B c strict) (hB : 1 ≤ B) :
    10 * B - 10 ≤ c ∧ c ≤ 10 * B ∧ (strict = true → c < 10 * B) := by
  cases d <;> simp only [thrOK] at ok <;> obtain ⟨rfl, hs⟩ := ok <;> refine ⟨by omega, by omega, ?_⟩ <;> intro h <;>
    first | omega | (rw [hs] at h; exact absurd h (by decide))

/-- the boundary comparison on `C = a·D + r`, `D = 10·D'`: `C ⋈ c·D'` says whether the rounded magnitude reaches `B` -/
theorem thr_divU (d : Dir) (B c : Nat) (strict : Bool) (hB : B = 1 ∨ B = 4294967296) (ok : thrOK d B c strict)
    (a r D' : Nat) (hD' : 0 < D') (hr : r < 10 * D') :
    cmpN strict (a * (10 * D') + r) (c * D') = decide (B ≤ if incr d (a % 2 == 1) r (10 * D') then a + 1 else a) := by
  obtain ⟨c1, c2, c3⟩ := thrOK_cU d B c strict ok (by omega)
  rcases Nat.lt_trichotomy (a + 1) B with hlt | heq | hgt
  · -- a ≤ B − 2: far below
    have h1 : (a + 2) * (10 * D') ≤ B * (10 * D') := Nat.mul_le_mul_right _ (by omega)
    have h2 : (10 * B - 10) * D' ≤ c * D' := Nat.mul_le_mul_right _ c1
    have hR : ¬ B ≤ (if incr d (a % 2 == 1) r (10 * D') then a + 1 else a) := by split <;> omega
    rw [decide_eq_false hR]
    have e1 : B * (10 * D') = (10 * B - 10) * D' + 10 * D' := by
      rw [← Nat.mul_assoc, Nat.mul_comm B 10, ← Nat.add_mul]; congr 1; omega
    rw [Nat.add_mul, e1] at h1
    unfold cmpN
    generalize a * (10 * D') = X at *
    generalize (10 * B - 10) * D' = Y at *
    generalize c * D' = Z at *
    cases strict <;> simp only [Bool.false_eq_true, if_true, if_false, decide_eq_false_iff_not] <;> (try omega)
  · have ha : a = B - 1 := by omega
    subst ha
    rw [thr_midU d B c strict hB ok r D' hD' hr, show B - 1 + 1 = B by omega]
    cases incr d ((B - 1) % 2 == 1) r (10 * D')
    · simp only [Bool.false_eq_true, if_false]; symm; rw [decide_eq_false_iff_not]; omega
    · simp only [if_true]; symm; rw [decide_eq_true_eq]
  · -- a ≥ B
    have h1 : B * (10 * D') ≤ a * (10 * D') := Nat.mul_le_mul_right _ (by omega)
    have h2 : c * D' ≤ (10 * B) * D' := Nat.mul_le_mul_right _ c2
    have hR : B ≤ (if incr d (a % 2 == 1) r (10 * D') then a + 1 else a) := by split <;> omega
    rw [decide_eq_true hR]
    have e1 : B * (10 * D') = (10 * B) * D' := by rw [← Nat.mul_assoc, Nat.mul_comm B 10]
    rw [e1] at h1
    unfold cmpN
    cases strict
    · simp only [Bool.false_eq_true, if_false, decide_eq_true_eq]
      generalize a * (10 * D') = X at *; generalize (10 * B) * D' = Y at *; generalize c * D' = Z at *
      omega
    · have h3 : c * D' < (10 * B) * D' := Nat.mul_lt_mul_of_pos_right (c3 rfl) hD'
      simp only [if_true, decide_eq_true_eq]
      generalize a * (10 * D') = X at *; generalize (10 * B) * D' = Y at *; generalize c * D' = Z at *
      omega


/-- the boundary comparison on an integer magnitude `m`: `10·m ⋈ c` says whether `m` reaches `B` -/
theorem thr_intU (d : Dir) (B c : Nat) (strict : Bool) (hB : B = 1 ∨ B = 4294967296) (ok : thrOK d B c strict)
    (m : Nat) : cmpN strict (10 * m) c = decide (B ≤ m) := by
  unfold cmpN
  rcases hB with rfl | rfl <;> cases d <;> simp only [thrOK] at ok <;> obtain ⟨rfl, rfl⟩ := ok <;>
    simp only [Bool.false_eq_true, if_true, if_false, Nat.reduceMod, Nat.reduceEqDiff, decide_true, decide_false] <;>
    rw [decide_eq_decide] <;> omega

/-- **the range test at ten integer digits is right**: for the rounding direction of the copy, the comparison of
`C·10^(11−n)` with the copy's constant says whether the rounded magnitude reaches the bound `B` -/
theorem range10U (mode : Mode) (s : Bool) (B c : Nat) (strict : Bool) (hB : B = 1 ∨ B = 4294967296)
    (ok : thrOK (dirOf mode s) B c strict) (C : Nat) (e : Int) (hC : 0 < C) (ht : (ndigits C : Int) + e = 10) :
    cmpN strict (C * 10 ^ (11 - ndigits C)) (c * 10 ^ (ndigits C - 11)) = decide (B ≤ magOf mode s C e) := by
  have hn := ndigits_pos hC
  unfold magOf
  by_cases he : e ≥ 0
  · rw [if_pos he, show ndigits C - 11 = 0 by omega, Nat.pow_zero, Nat.mul_one,
      show 11 - ndigits C = e.toNat + 1 by omega, Nat.pow_succ, ← Nat.mul_assoc, Nat.mul_comm _ 10]
    exact thr_intU _ B c strict hB ok _
  · rw [if_neg he, show 11 - ndigits C = 0 by omega, Nat.pow_zero, Nat.mul_one, roundInt_eq]
    have hx : (-e).toNat = (ndigits C - 11) + 1 := by omega
    rw [hx, Nat.pow_succ, Nat.mul_comm _ 10]
    have hD' : 0 < 10 ^ (ndigits C - 11) := Nat.pow_pos (by decide)
    have := thr_divU (dirOf mode s) B c strict hB ok (C / (10 * 10 ^ (ndigits C - 11))) (C % (10 * 10 ^ (ndigits C - 11)))
      (10 ^ (ndigits C - 11)) hD' (Nat.mod_lt _ (by omega))
    rw [Nat.mul_comm (C / _), Nat.div_add_mod] at this
    exact this



/-! ### results, specification -/

def INVU (f : UInt32) : Except String (UInt32 × UInt32) := .ok ((0x80000000 : UInt32), f ||| c_StatusFlags_BID_INVALID_EXCEPTION)
def finU (f : UInt32) (r : UInt32) : Except String (UInt32 × UInt32) := .ok (r, f)
/-- the result word -/
def resOfU (w : UInt64) : UInt32 := (UInt32.ofInt (toI w))

/-- the result for a positive exponent: `C · 10^exp` -/
def posExpKU {α : Type} (C1 : U128) (exp : Int32) (k : UInt32 → Except String α) : Except String α := do
  k (UInt32.ofInt (toI ((C1.w0 * (← tbl64 Dec.Gen.BID_TEN2K64 (UInt64.ofInt (toI exp)))))))

/-- what the specification says the routine for `mode` / `xf` returns on `x` with incoming status word `f` -/
def specOutU (mode : Mode) (xf : Bool) (x : U128) (f : UInt32) : Except String (UInt32 × UInt32) :=
  .ok (UInt32.ofInt (toIntD mode xf 0 4294967295 2147483648 (decode (Dec.C03GenCompare.bitsOf x))).1,
    f ||| UInt32.ofNat (toIntD mode xf 0 4294967295 2147483648 (decode (Dec.C03GenCompare.bitsOf x))).2)

/-- the integer of the model always fits a `u32` (in range or the indefinite value 2^31), so the `UInt32` of `specOutU` has
exactly that value (what `DecGen/Api.lean` compares: `Int.ofNat r.toNat`) -/
theorem specOutU_toNat (mode : Mode) (xf : Bool) (d : Datum) :
    ((UInt32.ofInt (toIntD mode xf 0 4294967295 2147483648 d).1).toNat : Int) = (toIntD mode xf 0 4294967295 2147483648 d).1 := by
  have h : 0 ≤ (toIntD mode xf 0 4294967295 2147483648 d).1 ∧ (toIntD mode xf 0 4294967295 2147483648 d).1 ≤ 4294967295 := by
    cases d with
    | fin s c e =>
      simp only [toIntD]
      split
      · simp_all
      · exact ⟨by decide, by decide⟩
    | inf s => simp [toIntD]
    | nan s g p => simp [toIntD]
  generalize (toIntD mode xf 0 4294967295 2147483648 d).1 = n at *
  unfold UInt32.ofInt
  rw [UInt32.toNat_ofNat']
  omega

/-- the smallest magnitude out of the `u32` range, by sign: a negative operand must round to zero -/
def bndU (s : Bool) : Nat := if s then 1 else 4294967296

/-- `toIntD` on a finite datum, for the 32-bit unsigned type -/
theorem toIntD_finU (mode : Mode) (xf s : Bool) (c : Nat) (e : Int) :
    toIntD mode xf 0 4294967295 2147483648 (.fin s c e) =
      if magOf mode s c e < bndU s then
        (sInt s (magOf mode s c e), if xf && !exactOf c e then fInexact else 0)
      else (2147483648, fInvalid) := by
  simp only [toIntD, roundToInt_eq]
  generalize magOf mode s c e = m
  cases s
  · simp only [sInt, Bool.false_eq_true, if_false, bndU]
    by_cases h : m < 4294967296
    · rw [if_pos h, if_pos (by omega)]
    · rw [if_neg h, if_neg (by omega)]
  · simp only [sInt, if_true, bndU]
    by_cases h : m < 1
    · rw [if_pos h, if_pos (by omega)]
    · rw [if_neg h, if_neg (by omega)]

/-- a copy's range-test parameters are right for rounding mode `mode` (unsigned bounds) -/
def RangeOKU (P : RangeP) (mode : Mode) : Prop :=
  thrOK (dirOf mode true) (bndU true) P.cN.toNat P.sN ∧ thrOK (dirOf mode false) (bndU false) P.cP.toNat P.sP

instance (P : RangeP) (mode : Mode) : Decidable (RangeOKU P mode) := by unfold RangeOKU; infer_instance

/-- at least one integer digit: the rounded magnitude is at least 1 -/
theorem magOf_pos (mode : Mode) (s : Bool) (c : Nat) (e : Int) (hc : 0 < c) (h : 1 ≤ (ndigits c : Int) + e) :
    1 ≤ magOf mode s c e := by
  obtain ⟨hlo, -⟩ := ndigits_spec hc
  unfold magOf
  by_cases he : e ≥ 0
  · rw [if_pos he]; exact Nat.mul_pos hc (Nat.pow_pos (by decide))
  · rw [if_neg he]
    refine Nat.le_trans ?_ (roundInt_ge ..)
    rw [Nat.le_div_iff_mul_le (Nat.pow_pos (by decide)), Nat.one_mul]
    exact Nat.le_trans (Nat.pow_le_pow_right (by decide) (by omega)) hlo

/-- **range test, semantically** (unsigned): with ten or more integer digits the copy answers `inv` exactly when the rounded
integer is out of range; with fewer it continues -/
theorem rangeK_semU {α : Type} (P : RangeP) (mode : Mode) (hP : RangeOKU P mode) (xs : UInt64) (C1 : U128) (q exp : Int32)
    (inv k : Except String α) (s : Bool) (e : Int) (hs : (xs != 0) = s) (hC0 : 0 < val128 C1) (hC : val128 C1 < P34)
    (hq : q.toInt = (ndigits (val128 C1) : Int)) (he : exp.toInt = e) (he1 : -10000 ≤ e) (he2 : e ≤ 10000) :
    rangeK P xs C1 q exp inv k =
      if 10 ≤ (ndigits (val128 C1) : Int) + e ∧ bndU s ≤ magOf mode s (val128 C1) e then inv else k := by
  obtain ⟨hN, hPp⟩ := hP
  have hn := ndigits_pos hC0
  obtain ⟨-, hhi⟩ := ndigits_spec hC0
  have hn34 : ndigits (val128 C1) ≤ 34 := by rw [ndigits_le_iff hC0]; simpa [P34] using hC
  have hcN : P.cN.toNat < 2^36 := by
    have := (thrOK_cU _ _ _ _ hN (by decide)).2.1; simp only [bndU, if_true] at this; omega
  have hcP : P.cP.toNat < 2^36 := by
    have := (thrOK_cU _ _ _ _ hPp (by decide)).2.1; simp only [bndU] at this; simp at this; omega
  rw [rangeK_spec P xs C1 q exp inv k _ e hq he hn hn34 hhi he1 he2 hcN hcP]
  by_cases c1 : 10 < (ndigits (val128 C1) : Int) + e
  · have := magOf_big mode s (val128 C1) e hC0 (by omega)
    rw [if_pos c1, if_pos ⟨by omega, by unfold bndU; split <;> omega⟩]
  rw [if_neg c1]
  by_cases c2 : (ndigits (val128 C1) : Int) + e = 10
  · rw [if_pos c2]
    have hxs : (xs ≠ 0) ↔ s = true := by rw [← hs, bne_iff_ne]
    cases s
    · rw [if_neg (by rw [hxs]; decide), range10U mode false (bndU false) _ _ (Or.inr rfl) hPp _ e hC0 c2]
      simp only [decide_eq_true_eq, show (10 : Int) ≤ (ndigits (val128 C1) : Int) + e from by omega, true_and]
    · rw [if_pos (by rw [hxs]), range10U mode true (bndU true) _ _ (Or.inl rfl) hN _ e hC0 c2]
      simp only [decide_eq_true_eq, show (10 : Int) ≤ (ndigits (val128 C1) : Int) + e from by omega, true_and]
  · rw [if_neg c2, if_neg (by omega)]

/-! ### after digit removal (the operand is positive here) -/

/-- the corrections as the unsigned copies write them (no sign test) -/
def adjTU {α : Type} (lt gt mle mge : Bool) (w : UInt64) (k : UInt64 → Except String α) : Except String α :=
  if (mle || gt) then k (w - 1) else k w
def adjCU {α : Type} (lt gt mle mge : Bool) (w : UInt64) (k : UInt64 → Except String α) : Except String α :=
  if (mge || lt) then k (w + 1) else k w
def adjNU {α : Type} (lt gt mle mge : Bool) (w : UInt64) (k : UInt64 → Except String α) : Except String α := k w

def adjTUD (lt gt mle mge : Bool) : Int := if (mle || gt) then -1 else 0
def adjCUD (lt gt mle mge : Bool) : Int := if (mge || lt) then 1 else 0
def adjNUD (lt gt mle mge : Bool) : Int := 0

def AdjOKU (adj : Bool → Bool → Bool → Bool → UInt64 → (UInt64 → Except String (UInt32 × UInt32)) → Except String (UInt32 × UInt32))
    (adjD : Bool → Bool → Bool → Bool → Int) : Prop :=
  ∀ (lt gt mle mge : Bool) (w : UInt64) (k : UInt64 → Except String (UInt32 × UInt32)),
    adj lt gt mle mge w k = k (applyD (adjD lt gt mle mge) w)

theorem adjTU_ok : AdjOKU adjTU adjTUD := by
  intro lt gt mle mge w k; unfold adjTU adjTUD applyD; cases mle <;> cases gt <;> rfl
theorem adjCU_ok : AdjOKU adjCU adjCUD := by
  intro lt gt mle mge w k; unfold adjCU adjCUD applyD; cases mge <;> cases lt <;> rfl
theorem adjNU_ok : AdjOKU adjNU adjNUD := by
  intro lt gt mle mge w k; rfl

/-- the finite check of a copy's flags and correction against the rounding mode, for a positive operand -/
def GlueOKU (adjD : Bool → Bool → Bool → Bool → Int) (G : GlueP) (mode : Mode) (xf : Bool) : Prop :=
  (∀ aOdd : Bool,
    adjD G.aLt G.aGt false false = (if incrC (dirOf mode false) aOdd .below then 1 else 0) ∧
    adjD false false false false = 0 ∧
    1 + adjD G.cLt G.cGt false false = (if incrC (dirOf mode false) aOdd .above then 1 else 0)) ∧
  (adjD G.moLt G.moGt G.moMle G.moMge = (if incrC (dirOf mode false) false .mid then 1 else 0) ∧
    1 + adjD G.meLt G.meGt G.meMle G.meMge = (if incrC (dirOf mode false) true .mid then 1 else 0)) ∧
  G.aIx = xf ∧ G.cIx = xf

instance (adjD : Bool → Bool → Bool → Bool → Int) (G : GlueP) (mode : Mode) (xf : Bool) :
    Decidable (GlueOKU adjD G mode xf) := by unfold GlueOKU; infer_instance

/-- the treatment of quotient and fraction after digit removal, generic in the flags `G` and the correction `adj` -/
def remGU (adj : Bool → Bool → Bool → Bool → UInt64 → (UInt64 → Except String (UInt32 × UInt32)) → Except String (UInt32 × UInt32))
    (G : GlueP) (f : UInt32) (Cstar : U128) (fstar : U256) (ind : Int32) : Except String (UInt32 × UInt32) :=
  let tail := fun (pf : UInt32) (lt gt : Bool) =>
    midK fstar ind
      (if (((Cstar.w0 &&& (1 : UInt64))) == (1 : UInt64)) then
        adj G.moLt G.moGt G.moMle G.moMge (Cstar.w0 - 1) (fun w => finU pf (resOfU w))
       else adj G.meLt G.meGt G.meMle G.meMge Cstar.w0 (fun w => finU pf (resOfU w)))
      (adj lt gt false false Cstar.w0 (fun w => finU pf (resOfU w)))
  fracK fstar ind
    (tail (if G.aIx then f ||| c_StatusFlags_BID_INEXACT_EXCEPTION else f) G.aLt G.aGt)
    (tail f false false)
    (tail (if G.cIx then f ||| c_StatusFlags_BID_INEXACT_EXCEPTION else f) G.cLt G.cGt)


/-- **after digit removal, generically**: a copy whose correction routine and flags pass the finite check returns the
integer rounded in `mode`, and raises inexact as `xf` says -/
theorem remGU_spec (adj : Bool → Bool → Bool → Bool → UInt64 → (UInt64 → Except String (UInt32 × UInt32)) → Except String (UInt32 × UInt32))
    (adjD : Bool → Bool → Bool → Bool → Int) (G : GlueP) (mode : Mode) (xf : Bool) (f : UInt32)
    (hadj : AdjOKU adj adjD) (hG : GlueOKU adjD G mode xf)
    (Cs : U128) (fs : U256) (ind : Int32) (x a r : Nat) (hx : ind.toInt = x)
    (h1 : 1 ≤ x) (h34 : x ≤ 34) (hr : r < 10 ^ x) (ha : a ≤ 10 ^ 10)
    (hA : Cs.w0.toNat = (if r < 5 * 10 ^ (x - 1) then a else a + 1)) (ok : FracOK x r fs) :
    remGU adj G f Cs fs ind = .ok (UInt32.ofInt ((roundInt mode false a r (10 ^ x) : Nat) : Int), f ||| ixFlag xf (r == 0)) := by
  obtain ⟨g1, g2, gaIx, gcIx⟩ := hG
  have hh : 0 < 5 * 10 ^ (x - 1) := Nat.mul_pos (by decide) (Nat.pow_pos (by decide))
  have ha' : a + 2 < 2^63 := by
    have : (10:Nat)^10 + 2 < 2^63 := by decide
    omega
  rw [roundInt_eq, ← two_h x h1, incr_cls _ _ r _ hh]
  unfold remGU
  simp only []
  rw [fracK_spec fs ind _ _ _ x r hx h1 h34 ok]
  -- the common last step
  have fin : ∀ (pf : UInt32) (δ : Int) (w : UInt64) (m : Nat) (tgt : Bool) (ex : Bool), w.toNat = m → (δ = -1 → 1 ≤ m) → m ≤ a + 1 →
      (δ = -1 ∨ δ = 0 ∨ δ = 1) → (m : Int) + δ = (if tgt then a + 1 else a : Nat) → pf = f ||| ixFlag xf ex →
      finU pf (resOfU (applyD δ w)) = .ok (UInt32.ofInt ((if tgt then a + 1 else a : Nat) : Int), f ||| ixFlag xf ex) := by
    intro pf δ w m tgt ex hw hd hm hδ htgt hpf
    have := applyD_toNat δ w m hw hd (by omega) hδ
    rw [htgt] at this
    unfold finU resOfU
    rw [hpf]
    show Except.ok (UInt32.ofInt ((applyD δ w).toNat : Int), _) = _
    rw [this]
  by_cases c0 : r = 0
  · -- nothing discarded
    obtain ⟨-, gz, -⟩ := g1 false
    rw [if_pos (by omega), if_neg (by omega), midK_spec fs ind _ _ x r hx h1 h34 ok, if_neg (by omega), if_pos c0,
      hadj _ _ _ _ _ _, gz]
    rw [if_pos (by omega)] at hA
    have : (r == 0) = true := by rw [c0]; rfl
    rw [this]
    exact fin f 0 Cs.w0 a false true hA (fun h => absurd h (by decide)) (by omega) (Or.inr (Or.inl rfl)) (by simp [incrC])
      (by unfold ixFlag; cases xf <;> exact (UInt32.or_zero).symm)
  rw [if_neg c0]
  have hex : (r == 0) = false := by rw [beq_eq_false_iff_ne]; exact c0
  rw [hex]
  by_cases c1 : r < 5 * 10 ^ (x - 1)
  · -- below the midpoint
    obtain ⟨gb, -, -⟩ := g1 (a % 2 == 1)
    rw [if_pos c1, if_pos c1, if_pos (by omega), midK_spec fs ind _ _ x r hx h1 h34 ok, if_neg (by omega),
      hadj _ _ _ _ _ _, gb]
    rw [if_pos c1] at hA
    refine fin _ _ Cs.w0 a _ false hA ?_ (by omega) ?_ ?_ (ix_pf f _ xf gaIx)
    · split <;> intro h <;> exact absurd h (by decide)
    · split <;> simp
    · split <;> simp
  rw [if_neg c1, if_neg c1, midK_spec fs ind _ _ x r hx h1 h34 ok]
  rw [if_neg c1] at hA
  by_cases c2 : r = 5 * 10 ^ (x - 1)
  · -- the midpoint
    rw [if_pos c2, if_pos c2, odd_test, hA]
    by_cases codd : (a + 1) % 2 = 1
    · obtain ⟨gmo, -⟩ := g2
      have haodd : (a % 2 == 1) = false := by rw [beq_eq_false_iff_ne]; omega
      rw [if_pos (by simpa using codd), hadj _ _ _ _ _ _, gmo, haodd]
      refine fin _ _ (Cs.w0 - 1) a _ false (by rw [u64_sub_toNat _ _ (by rw [hA]; show 1 ≤ _; omega), hA]; rfl) ?_ (by omega) ?_ ?_
        (ix_pf f _ xf gcIx)
      · split <;> intro h <;> exact absurd h (by decide)
      · split <;> simp
      · split <;> simp
    · obtain ⟨-, gme⟩ := g2
      have haodd : (a % 2 == 1) = true := by rw [beq_iff_eq]; omega
      rw [if_neg (by simpa using codd), hadj _ _ _ _ _ _, haodd]
      refine fin _ _ Cs.w0 (a + 1) _ false hA ?_ (by omega) ?_ ?_ (ix_pf f _ xf gcIx)
      · intro _; omega
      · split at gme <;> omega
      · split at gme <;> split <;> simp_all <;> omega
  · -- above the midpoint
    obtain ⟨-, -, gab⟩ := g1 (a % 2 == 1)
    rw [if_neg c2, if_neg c2, hadj _ _ _ _ _ _]
    refine fin _ _ Cs.w0 (a + 1) _ false hA ?_ (by omega) ?_ ?_ (ix_pf f _ xf gcIx)
    · intro _; omega
    · split at gab <;> omega
    · split at gab <;> split <;> simp_all <;> omega


/-! ### the front end, once for all unsigned copies -/

/-- what the specification says for a finite datum -/
def tgtU (mode : Mode) (xf : Bool) (f : UInt32) (s : Bool) (C : Nat) (e : Int) : Except String (UInt32 × UInt32) :=
  .ok (UInt32.ofInt (toIntD mode xf 0 4294967295 2147483648 (.fin s C e)).1,
    f ||| UInt32.ofNat (toIntD mode xf 0 4294967295 2147483648 (.fin s C e)).2)

theorem tgtU_eq (mode : Mode) (xf : Bool) (f : UInt32) (s : Bool) (C : Nat) (e : Int) :
    tgtU mode xf f s C e =
      if magOf mode s C e < bndU s then .ok (UInt32.ofInt (sInt s (magOf mode s C e)), f ||| ixFlag xf (exactOf C e))
      else INVU f := by
  unfold tgtU
  rw [toIntD_finU]
  split <;> rfl

open Dec.C03GenCompare (decode_bitsOf decodeW_kind nzFin_decode) in
/-- **front end**: special values and zeros are answered as the specification says; for a finite non-zero operand it
remains to show that the continuation returns the specification's answer for the datum `±C·10^e` -/
theorem frontU (nd : U128 → (Int32 → Except String (UInt32 × UInt32)) → Except String (UInt32 × UInt32))
    (hnd : ∀ C1 : U128, 0 < val128 C1 → val128 C1 < 2^113 → ∃ Q : Int32, Q.toInt = (ndigits (val128 C1) : Int) ∧ ∀ k, nd C1 k = k Q)
    (mode : Mode) (xf : Bool) (f : UInt32) (k : UInt64 → U128 → Int32 → Int32 → Except String (UInt32 × UInt32))
    (x : U128)
    (hk : ∀ (xs : UInt64) (s : Bool) (C1 : U128) (Q E : Int32) (e : Int), xs = x.w1 &&& c_MASK_SIGN → (xs != 0) = s →
      0 < val128 C1 → val128 C1 < P34 →
      Q.toInt = (ndigits (val128 C1) : Int) → E.toInt = e → -10000 ≤ e → e ≤ 10000 →
      k xs C1 Q E = tgtU mode xf f s (val128 C1) e) :
    frontKg nd x (INVU f) (.ok (0, f)) k = specOutU mode xf x f := by
  obtain ⟨f1, f2, f3⟩ := frontKg_spec nd hnd x (INVU f) (.ok (0, f)) k
  unfold specOutU
  rw [decode_bitsOf]
  rcases decodeW_kind x.w1.toNat x.w0.toNat with ⟨hN, s, p, hd⟩ | ⟨hN, hI, hd⟩ | ⟨hI, hz, e, hd⟩ | ⟨hI, hS, hlt, hpos, hd⟩
  · rw [f1 (by omega), hd]; rfl
  · rw [f1 hI, hd]; rfl
  · rw [f2 hI hz, hd, toIntD_finU, magOf_zero, exactOf_zero]
    have : (0 : Nat) < bndU (decide (x.w1.toNat / 2 ^ 63 % 2 = 1)) := by unfold bndU; split <;> omega
    rw [if_pos this]
    cases decide (x.w1.toNat / 2 ^ 63 % 2 = 1) <;> cases xf <;>
      exact congrArg Except.ok (Prod.ext rfl (UInt32.or_zero).symm)
  · have hnz : nzFin x := ⟨hI, by unfold zeroP; omega⟩
    obtain ⟨Q, E, hQ, hE, hkk⟩ := f3 hnz
    rw [hkk, hd]
    have hsw : ((x.w1 &&& c_MASK_SIGN) != 0) = decide (x.w1.toNat / 2 ^ 63 % 2 = 1) := sign_word x.w1
    have hv : val128 (sigF x) = sigW x.w1.toNat x.w0.toNat := Dec.C03GenCompare.val128_sigF x
    have hel : expW x.w1.toNat < 12288 := by unfold expW; omega
    have := hk (x.w1 &&& c_MASK_SIGN) _ (sigF x) Q E ((expW x.w1.toNat : Int) - 6176) rfl hsw (by rw [hv]; exact hpos)
      (by rw [hv]; exact hlt) (by rw [hv]; exact hQ) hE (by omega) (by omega)
    rw [this, hv]
    rfl

theorem ndU_ok (C1 : U128) (h0 : 0 < val128 C1) (hC : val128 C1 < 2^113) :
    ∃ Q : Int32, Q.toInt = (ndigits (val128 C1) : Int) ∧ ∀ k : Int32 → Except String (UInt32 × UInt32), nrDigitsK C1 k = k Q := by
  obtain ⟨Q, hQ, hk⟩ := nrDigitsK_spec C1 h0 hC
  exact ⟨Q, hQ, fun k => hk k⟩

/-! ### the tail for a positive operand with at least one integer digit -/

open Dec.C03GenCompare (tbl64_ten) in
theorem posExpKU_spec {α : Type} (C1 : U128) (exp : Int32) (k : UInt32 → Except String α) (g : Nat)
    (hg : exp.toInt = g) (h19 : g ≤ 19) (hm : C1.w0.toNat * 10 ^ g < 2^64) :
    posExpKU C1 exp k = k (UInt32.ofInt ((C1.w0.toNat * 10 ^ g : Nat) : Int)) := by
  have hk := idx_of_i32 _ _ hg
  obtain ⟨t, ht, tv⟩ := tbl64_ten (UInt64.ofInt (toI exp)) (by omega)
  rw [hk] at tv
  unfold posExpKU
  simp only [bind, Except.bind, ht]
  congr 2
  show (((C1.w0 * t).toNat : Nat) : Int) = _
  rw [UInt64.toNat_mul, tv, Nat.mod_eq_of_lt hm]

/-- what the skeletons need from the combined digit-removal step (positive operand) -/
def RemAllOKU (mode : Mode) (xf : Bool) (f : UInt32) (remAll : U128 → Int32 → Except String (UInt32 × UInt32)) : Prop :=
  ∀ (C1 : U128) (ind : Int32) (x : Nat), ind.toInt = x → 1 ≤ x → x ≤ 34 →
    val128 C1 < 10 ^ 34 → val128 C1 / 10 ^ x ≤ 10 ^ 10 →
    remAll C1 ind = .ok (UInt32.ofInt ((roundInt mode false (val128 C1 / 10 ^ x) (val128 C1 % 10 ^ x) (10 ^ x) : Nat) : Int),
      f ||| ixFlag xf (val128 C1 % 10 ^ x == 0))

theorem remAllU_of_rem (mode : Mode) (xf : Bool) (f : UInt32) (rem : U128 → U256 → Int32 → Except String (UInt32 × UInt32))
    (hrem : ∀ (Cs : U128) (fs : U256) (ind : Int32) (x a r : Nat), ind.toInt = x →
      1 ≤ x → x ≤ 34 → r < 10 ^ x → a ≤ 10 ^ 10 →
      Cs.w0.toNat = (if r < 5 * 10 ^ (x - 1) then a else a + 1) → FracOK x r fs →
      rem Cs fs ind = .ok (UInt32.ofInt ((roundInt mode false a r (10 ^ x) : Nat) : Int), f ||| ixFlag xf (r == 0))) :
    RemAllOKU mode xf f (fun C1 ind => removeK C1 ind (fun Cs fs => rem Cs fs ind)) := by
  intro C1 ind x hx h1 h34 hC ha10
  obtain ⟨Cs, fs, hk, hA, hF⟩ := removeK_spec C1 ind (fun Cstar fstar => rem Cstar fstar ind) x hx h1 h34 hC
  have hAlt : (if val128 C1 % 10 ^ x < 5 * 10 ^ (x - 1) then val128 C1 / 10 ^ x else val128 C1 / 10 ^ x + 1) < 2^64 := by
    have : (10:Nat) ^ 10 + 1 < 2^64 := by decide
    split <;> omega
  simp only []
  rw [hk, hrem Cs fs ind x _ _ hx h1 h34 (Nat.mod_lt _ (Nat.pow_pos (by decide))) ha10 (hA hAlt) hF]

/-- the part of every unsigned copy that handles a positive operand with 1 … 10 integer digits -/
def posTailU (f : UInt32) (remAll : U128 → Int32 → Except String (UInt32 × UInt32)) (C1 : U128) (exp : Int32) :
    Except String (UInt32 × UInt32) :=
  if decide (exp < (0 : Int32)) then remAll C1 (-exp)
  else if (exp == (0 : Int32)) then finU f (resOfU C1.w0)
  else posExpKU C1 exp (finU f)

theorem posTailU_spec (mode : Mode) (xf : Bool) (f : UInt32) (remAll : U128 → Int32 → Except String (UInt32 × UInt32))
    (hrem : RemAllOKU mode xf f remAll) (C1 : U128) (E : Int32) (e : Int) (hC0 : 0 < val128 C1) (hC : val128 C1 < P34)
    (hE : E.toInt = e) (h1 : 1 ≤ (ndigits (val128 C1) : Int) + e) (h10 : (ndigits (val128 C1) : Int) + e ≤ 10) :
    posTailU f remAll C1 E =
      .ok (UInt32.ofInt ((magOf mode false (val128 C1) e : Nat) : Int), f ||| ixFlag xf (exactOf (val128 C1) e)) := by
  have hn := ndigits_pos hC0
  obtain ⟨hlo, hhi⟩ := ndigits_spec hC0
  have hn34 : ndigits (val128 C1) ≤ 34 := by rw [ndigits_le_iff hC0]; simpa [P34] using hC
  unfold posTailU
  by_cases c2 : e < 0
  · rw [if_pos (by rw [decide_eq_true_eq, Int32.lt_iff_toInt_lt, hE]; exact c2)]
    have hx : (-E).toInt = (((-e).toNat : Nat) : Int) := by rw [i32_neg _ (by omega), hE]; omega
    have ha10 : val128 C1 / 10 ^ (-e).toNat ≤ 10 ^ 10 := by
      apply Nat.le_of_lt
      rw [Nat.div_lt_iff_lt_mul (Nat.pow_pos (by decide)), ← Nat.pow_add]
      exact Nat.lt_of_lt_of_le hhi (Nat.pow_le_pow_right (by decide) (by omega))
    rw [hrem C1 (-E) (-e).toNat hx (by omega) (by omega) (by simpa [P34] using hC) ha10]
    unfold magOf exactOf
    rw [if_neg (by omega), if_neg (by omega)]
  rw [if_neg (by rw [decide_eq_true_eq, Int32.lt_iff_toInt_lt, hE]; exact c2)]
  have hC10 : val128 C1 < 10 ^ 10 := Nat.lt_of_lt_of_le hhi (Nat.pow_le_pow_right (by decide) (by omega))
  have hw1 : C1.w1.toNat = 0 := val128_small C1 (Nat.lt_trans hC10 (by decide))
  have hw0 : C1.w0.toNat = val128 C1 := by unfold val128; rw [hw1, Nat.zero_mul, Nat.zero_add]
  have hex : exactOf (val128 C1) e = true := by unfold exactOf; rw [if_pos (by omega)]
  have hfl : f ||| ixFlag xf true = f := by unfold ixFlag; cases xf <;> exact UInt32.or_zero
  rw [hex, hfl]
  by_cases c3 : e = 0
  · rw [if_pos (by rw [beq_iff_eq, ← Int32.toInt_inj, hE, c3]; rfl)]
    unfold finU magOf resOfU
    rw [if_pos (by omega), c3]
    show Except.ok (UInt32.ofInt (C1.w0.toNat : Int), f) = _
    rw [hw0]; simp
  · rw [if_neg (by rw [beq_iff_eq, ← Int32.toInt_inj, hE]; exact c3)]
    have hm : val128 C1 * 10 ^ e.toNat < 10 ^ 10 := by
      have : val128 C1 * 10 ^ e.toNat < 10 ^ ndigits (val128 C1) * 10 ^ e.toNat :=
        Nat.mul_lt_mul_of_pos_right hhi (Nat.pow_pos (by decide))
      rw [← Nat.pow_add] at this
      exact Nat.lt_of_lt_of_le this (Nat.pow_le_pow_right (by decide) (by omega))
    rw [posExpKU_spec C1 E (finU f) e.toNat (by rw [hE]; omega) (by omega) (by rw [hw0]; exact Nat.lt_trans hm (by decide)), hw0]
    unfold finU magOf
    rw [if_pos (by omega)]

/-! ### the truncating and ceiling copies (`int`, `xint`, `ceil`, `xceil`) -/

/-- their skeleton: front end, two-sided range test, operands below one, "negative is invalid", positive tail -/
def skelUA (P : RangeP) (f : UInt32) (small : UInt64 → Except String (UInt32 × UInt32))
    (remAll : U128 → Int32 → Except String (UInt32 × UInt32)) (x : U128) : Except String (UInt32 × UInt32) :=
  frontKg nrDigitsK x (INVU f) (.ok (0, f)) (fun x_sign C1 q exp =>
    rangeK P x_sign C1 q exp (INVU f)
      (if decide (q + exp ≤ (0 : Int32)) then small x_sign
       else if (x_sign != (0 : UInt64)) then INVU f
       else posTailU f remAll C1 exp))

theorem skelUA_spec (P : RangeP) (mode : Mode) (xf : Bool) (f : UInt32) (small : UInt64 → Except String (UInt32 × UInt32))
    (remAll : U128 → Int32 → Except String (UInt32 × UInt32)) (hP : RangeOKU P mode)
    (hsmall : ∀ (xs : UInt64) (s : Bool) (C D : Nat), (xs != 0) = s → 0 < C → C < D →
      small xs = if roundInt mode s 0 C D < bndU s then
        .ok (UInt32.ofInt (sInt s (roundInt mode s 0 C D)), f ||| ixFlag xf false) else INVU f)
    (hrem : RemAllOKU mode xf f remAll) (x : U128) :
    skelUA P f small remAll x = specOutU mode xf x f := by
  unfold skelUA
  apply frontU nrDigitsK ndU_ok mode xf f
  intro xs s C1 Q E e _ hs hC0 hC hQ hE he1 he2
  rw [rangeK_semU P mode hP xs C1 Q E _ _ s e hs hC0 hC hQ hE he1 he2, tgtU_eq]
  have hsum : (Q + E).toInt = (ndigits (val128 C1) : Int) + e := by
    have := ndigits_pos hC0
    have hn34 : ndigits (val128 C1) ≤ 34 := by rw [ndigits_le_iff hC0]; simpa [P34] using hC
    rw [i32_add _ _ (by omega) (by omega), hQ, hE]
  by_cases hinv : 10 ≤ (ndigits (val128 C1) : Int) + e ∧ bndU s ≤ magOf mode s (val128 C1) e
  · rw [if_pos hinv, if_neg (by omega)]
  rw [if_neg hinv]
  have ht10 : (ndigits (val128 C1) : Int) + e ≤ 10 := by
    apply Classical.byContradiction; intro hc
    have := magOf_big mode s (val128 C1) e hC0 (by omega)
    exact hinv ⟨by omega, by unfold bndU; split <;> omega⟩
  by_cases c1 : (ndigits (val128 C1) : Int) + e ≤ 0
  · rw [if_pos (by rw [decide_eq_true_eq, Int32.le_iff_toInt_le, hsum]; exact c1)]
    obtain ⟨hneg, ha, hr⟩ := tiny (val128 C1) e hC0 c1
    have hCD : val128 C1 < 10 ^ (-e).toNat := by
      have := Nat.mod_lt (val128 C1) (Nat.pow_pos (n := (-e).toNat) (by decide : 0 < 10)); omega
    rw [hsmall xs s _ (10 ^ (-e).toNat) hs hC0 hCD]
    have hmg : magOf mode s (val128 C1) e = roundInt mode s 0 (val128 C1) (10 ^ (-e).toNat) := by
      unfold magOf; rw [if_neg (show ¬ e ≥ 0 by omega), ha, hr]
    have hex : exactOf (val128 C1) e = false := by
      unfold exactOf; rw [if_neg (show ¬ e ≥ 0 by omega), hr, beq_eq_false_iff_ne]; omega
    rw [hmg, hex]
  rw [if_neg (by rw [decide_eq_true_eq, Int32.le_iff_toInt_le, hsum]; exact c1)]
  have hm1 := magOf_pos mode s (val128 C1) e hC0 (by omega)
  cases s
  · -- positive
    have hin : magOf mode false (val128 C1) e < bndU false := by
      by_cases h10 : (ndigits (val128 C1) : Int) + e = 10
      · apply Classical.byContradiction; intro hc; exact hinv ⟨by omega, by omega⟩
      · have := magOf_small mode false (val128 C1) e hC0 (by omega)
        have : (10:Nat)^9 < 4294967296 := by decide
        unfold bndU; simp only [Bool.false_eq_true, if_false]; omega
    rw [if_neg (by rw [hs]; decide), if_pos hin, posTailU_spec mode xf f remAll hrem C1 E e hC0 hC hE (by omega) ht10]
    rfl
  · rw [if_pos hs, if_neg (by unfold bndU; simp only [if_true]; omega)]

/-- operands below one, for `int`/`ceil`: a negative one rounds to (minus) zero, a positive one to 0 or 1 -/
theorem smallU_dir (mode : Mode) (xf : Bool) (f : UInt32) (v : UInt64 → UInt32) (ix : Bool)
    (hneg : dirOf mode true = .down) (hpos : dirOf mode false = .down ∨ dirOf mode false = .up)
    (hv : ∀ (xs : UInt64) (s : Bool), (xs != 0) = s → v xs = if !s && decide (dirOf mode false = .up) then 1 else 0)
    (hix : ix = xf) :
    ∀ (xs : UInt64) (s : Bool) (C D : Nat), (xs != 0) = s → 0 < C → C < D →
      (.ok (v xs, if ix then f ||| c_StatusFlags_BID_INEXACT_EXCEPTION else f) : Except String (UInt32 × UInt32)) =
        if roundInt mode s 0 C D < bndU s then
          .ok (UInt32.ofInt (sInt s (roundInt mode s 0 C D)), f ||| ixFlag xf false) else INVU f := by
  intro xs s C D hs hC hD
  rw [hv xs s hs, ix_pf f ix xf hix, roundInt_eq]
  have hinc : incr (dirOf mode s) (0 % 2 == 1) C D = decide (dirOf mode s = .up) := by
    unfold incr
    rw [if_neg (by omega)]
    cases s
    · rcases hpos with h | h <;> rw [h] <;> rfl
    · rw [hneg]; rfl
  rw [hinc]
  cases s
  · by_cases h : dirOf mode false = .up
    · simp only [h, decide_true, if_true, bndU, Bool.false_eq_true, if_false, Bool.not_false, Bool.and_self]
      rfl
    · simp only [h, decide_false, if_false, bndU, Bool.false_eq_true, Bool.not_false, Bool.and_false]
      rfl
  · simp only [hneg, decide_false, reduceCtorEq, bndU, if_true, Bool.false_eq_true, if_false, Bool.not_true, Bool.false_and]
    rfl

def P_uint : RangeP := ⟨0xa, false, 0xa00000000, false⟩
def P_uceil : RangeP := ⟨0xa, false, 0x9fffffff6, true⟩
def G_uceil : GlueP := ⟨true, false, false, false, false, false, false, false, false, true, false, false, false, false⟩
def G_uxceil : GlueP := ⟨true, false, true, false, false, true, false, false, false, true, false, false, false, false⟩

set_option maxRecDepth 100000 in
set_option maxHeartbeats 1000000 in
theorem uint32_int_unfold (x : U128) (f : UInt32) :
    bid128_to_uint32_int x f = skelUA P_uint f (fun _ => .ok (0, f))
      (fun C1 ind => removeK C1 ind (fun Cs fs => remGU adjTU G_int f Cs fs ind)) x := rfl

set_option maxRecDepth 100000 in
set_option maxHeartbeats 1000000 in
theorem uint32_xint_unfold (x : U128) (f : UInt32) :
    bid128_to_uint32_xint x f = skelUA P_uint f (fun _ => .ok (0, IX f))
      (fun C1 ind => removeK C1 ind (fun Cs fs => remGU adjTU G_xint f Cs fs ind)) x := rfl

set_option maxRecDepth 100000 in
set_option maxHeartbeats 1000000 in
theorem uint32_ceil_unfold (x : U128) (f : UInt32) :
    bid128_to_uint32_ceil x f = skelUA P_uceil f (fun xs => .ok (if (xs != (0 : UInt64)) then 0 else 1, f))
      (fun C1 ind => removeK C1 ind (fun Cs fs => remGU adjCU G_uceil f Cs fs ind)) x := rfl

set_option maxRecDepth 100000 in
set_option maxHeartbeats 1000000 in
theorem uint32_xceil_unfold (x : U128) (f : UInt32) :
    bid128_to_uint32_xceil x f = skelUA P_uceil f (fun xs => .ok (if (xs != (0 : UInt64)) then 0 else 1, IX f))
      (fun C1 ind => removeK C1 ind (fun Cs fs => remGU adjCU G_uxceil f Cs fs ind)) x := rfl

/-- **`bid128_to_uint32_int`** (truncation, no inexact).  Negative operands: those above −1 give 0, all others are invalid. -/
theorem to_uint32_int_spec (x : U128) (f : UInt32) : bid128_to_uint32_int x f = specOutU .rtz false x f := by
  rw [uint32_int_unfold]
  exact skelUA_spec P_uint .rtz false f _ _ (by decide)
    (smallU_dir .rtz false f (fun _ => 0) false (by decide) (by decide) (by intro xs s _; cases s <;> rfl) rfl)
    (remAllU_of_rem .rtz false f _ (remGU_spec adjTU adjTUD G_int .rtz false f adjTU_ok (by decide))) x

-- 2.5, −0.3, −0.5, −0.7, 4294967295.5, 4294967294.5, −2.5, 5·10^9, a NaN
example : bid128_to_uint32_int ⟨0x19, 0x303e000000000000⟩ 0 = .ok (2, 0x0) := by rfl
example : bid128_to_uint32_int ⟨0x3, 0xb03e000000000000⟩ 0 = .ok (0, 0x0) := by rfl
example : bid128_to_uint32_int ⟨0x5, 0xb03e000000000000⟩ 0 = .ok (0, 0x0) := by rfl
example : bid128_to_uint32_int ⟨0x7, 0xb03e000000000000⟩ 0 = .ok (0, 0x0) := by rfl
example : bid128_to_uint32_int ⟨0x9fffffffb, 0x303e000000000000⟩ 0 = .ok (4294967295, 0x0) := by rfl
example : bid128_to_uint32_int ⟨0x9fffffff1, 0x303e000000000000⟩ 0 = .ok (4294967294, 0x0) := by rfl
example : bid128_to_uint32_int ⟨0x19, 0xb03e000000000000⟩ 0 = .ok (2147483648, 0x1) := by rfl
example : bid128_to_uint32_int ⟨0x5, 0x3052000000000000⟩ 0 = .ok (2147483648, 0x1) := by rfl
example : bid128_to_uint32_int ⟨7, 0x7c00000000000000⟩ 0x20 = .ok (2147483648, 0x21) := by rfl

/-- **`bid128_to_uint32_xint`** (truncation, inexact signalled) -/
theorem to_uint32_xint_spec (x : U128) (f : UInt32) : bid128_to_uint32_xint x f = specOutU .rtz true x f := by
  rw [uint32_xint_unfold]
  exact skelUA_spec P_uint .rtz true f _ _ (by decide)
    (smallU_dir .rtz true f (fun _ => 0) true (by decide) (by decide) (by intro xs s _; cases s <;> rfl) rfl)
    (remAllU_of_rem .rtz true f _ (remGU_spec adjTU adjTUD G_xint .rtz true f adjTU_ok (by decide))) x

-- 2.5, −0.3, −0.5, −0.7, 4294967295.5, 4294967294.5, −2.5, 5·10^9, a NaN
example : bid128_to_uint32_xint ⟨0x19, 0x303e000000000000⟩ 0 = .ok (2, 0x20) := by rfl
example : bid128_to_uint32_xint ⟨0x3, 0xb03e000000000000⟩ 0 = .ok (0, 0x20) := by rfl
example : bid128_to_uint32_xint ⟨0x5, 0xb03e000000000000⟩ 0 = .ok (0, 0x20) := by rfl
example : bid128_to_uint32_xint ⟨0x7, 0xb03e000000000000⟩ 0 = .ok (0, 0x20) := by rfl
example : bid128_to_uint32_xint ⟨0x9fffffffb, 0x303e000000000000⟩ 0 = .ok (4294967295, 0x20) := by rfl
example : bid128_to_uint32_xint ⟨0x9fffffff1, 0x303e000000000000⟩ 0 = .ok (4294967294, 0x20) := by rfl
example : bid128_to_uint32_xint ⟨0x19, 0xb03e000000000000⟩ 0 = .ok (2147483648, 0x1) := by rfl
example : bid128_to_uint32_xint ⟨0x5, 0x3052000000000000⟩ 0 = .ok (2147483648, 0x1) := by rfl
example : bid128_to_uint32_xint ⟨7, 0x7c00000000000000⟩ 0x20 = .ok (2147483648, 0x21) := by rfl

/-- **`bid128_to_uint32_ceil`** (toward +∞, no inexact).  Negative operands above −1 give 0, all others are invalid. -/
theorem to_uint32_ceil_spec (x : U128) (f : UInt32) : bid128_to_uint32_ceil x f = specOutU .rup false x f := by
  rw [uint32_ceil_unfold]
  exact skelUA_spec P_uceil .rup false f _ _ (by decide)
    (smallU_dir .rup false f (fun xs => if (xs != (0 : UInt64)) then 0 else 1) false (by decide) (by decide)
      (by intro xs s hs; rw [hs]; cases s <;> rfl) rfl)
    (remAllU_of_rem .rup false f _ (remGU_spec adjCU adjCUD G_uceil .rup false f adjCU_ok (by decide))) x

-- 2.5, −0.3, −0.5, −0.7, 4294967295.5, 4294967294.5, −2.5, 5·10^9, a NaN
example : bid128_to_uint32_ceil ⟨0x19, 0x303e000000000000⟩ 0 = .ok (3, 0x0) := by rfl
example : bid128_to_uint32_ceil ⟨0x3, 0xb03e000000000000⟩ 0 = .ok (0, 0x0) := by rfl
example : bid128_to_uint32_ceil ⟨0x5, 0xb03e000000000000⟩ 0 = .ok (0, 0x0) := by rfl
example : bid128_to_uint32_ceil ⟨0x7, 0xb03e000000000000⟩ 0 = .ok (0, 0x0) := by rfl
example : bid128_to_uint32_ceil ⟨0x9fffffffb, 0x303e000000000000⟩ 0 = .ok (2147483648, 0x1) := by rfl
example : bid128_to_uint32_ceil ⟨0x9fffffff1, 0x303e000000000000⟩ 0 = .ok (4294967295, 0x0) := by rfl
example : bid128_to_uint32_ceil ⟨0x19, 0xb03e000000000000⟩ 0 = .ok (2147483648, 0x1) := by rfl
example : bid128_to_uint32_ceil ⟨0x5, 0x3052000000000000⟩ 0 = .ok (2147483648, 0x1) := by rfl
example : bid128_to_uint32_ceil ⟨7, 0x7c00000000000000⟩ 0x20 = .ok (2147483648, 0x21) := by rfl

/-- **`bid128_to_uint32_xceil`** (toward +∞, inexact signalled) -/
theorem to_uint32_xceil_spec (x : U128) (f : UInt32) : bid128_to_uint32_xceil x f = specOutU .rup true x f := by
  rw [uint32_xceil_unfold]
  exact skelUA_spec P_uceil .rup true f _ _ (by decide)
    (smallU_dir .rup true f (fun xs => if (xs != (0 : UInt64)) then 0 else 1) true (by decide) (by decide)
      (by intro xs s hs; rw [hs]; cases s <;> rfl) rfl)
    (remAllU_of_rem .rup true f _ (remGU_spec adjCU adjCUD G_uxceil .rup true f adjCU_ok (by decide))) x

-- 2.5, −0.3, −0.5, −0.7, 4294967295.5, 4294967294.5, −2.5, 5·10^9, a NaN
example : bid128_to_uint32_xceil ⟨0x19, 0x303e000000000000⟩ 0 = .ok (3, 0x20) := by rfl
example : bid128_to_uint32_xceil ⟨0x3, 0xb03e000000000000⟩ 0 = .ok (0, 0x20) := by rfl
example : bid128_to_uint32_xceil ⟨0x5, 0xb03e000000000000⟩ 0 = .ok (0, 0x20) := by rfl
example : bid128_to_uint32_xceil ⟨0x7, 0xb03e000000000000⟩ 0 = .ok (0, 0x20) := by rfl
example : bid128_to_uint32_xceil ⟨0x9fffffffb, 0x303e000000000000⟩ 0 = .ok (2147483648, 0x1) := by rfl
example : bid128_to_uint32_xceil ⟨0x9fffffff1, 0x303e000000000000⟩ 0 = .ok (4294967295, 0x20) := by rfl
example : bid128_to_uint32_xceil ⟨0x19, 0xb03e000000000000⟩ 0 = .ok (2147483648, 0x1) := by rfl
example : bid128_to_uint32_xceil ⟨0x5, 0x3052000000000000⟩ 0 = .ok (2147483648, 0x1) := by rfl
example : bid128_to_uint32_xceil ⟨7, 0x7c00000000000000⟩ 0x20 = .ok (2147483648, 0x21) := by rfl

/-! ### the floor copies: a negative non-zero operand is invalid at once -/

theorem frontKg_gen {α : Type} (nd : U128 → (Int32 → Except String α) → Except String α)
    (x : U128) (inv zero : Except String α)
    (k : UInt64 → U128 → Int32 → Int32 → Except String α) :
    (x.w1.toNat / 2^59 % 16 = 15 → frontKg nd x inv zero k = inv) ∧
    (x.w1.toNat / 2^59 % 16 ≠ 15 → zeroP x.w1.toNat x.w0.toNat → frontKg nd x inv zero k = zero) ∧
    (nzFin x → ∃ E : Int32, E.toInt = (expW x.w1.toNat : Int) - 6176 ∧
      frontKg nd x inv zero k = nd (sigF x) (fun q => k (x.w1 &&& c_MASK_SIGN) (sigF x) q E)) := by
  have hl := x.w0.toNat_lt
  have e1 : ((x.w1 &&& c_MASK_SPECIAL) == c_MASK_SPECIAL) = decide (x.w1.toNat / 2^59 % 16 = 15) := inf_test x.w1
  have e2 : (decide ((x.w1 &&& c_MASK_COEFF) > (0x1ed09bead87c0 : UInt64)) ||
      ((x.w1 &&& c_MASK_COEFF) == (0x1ed09bead87c0 : UInt64) && decide (x.w0 > (0x378d8e63ffffffff : UInt64))) ||
      ((x.w1 &&& (0x6000000000000000 : UInt64)) == (0x6000000000000000 : UInt64)) ||
      ((x.w1 &&& c_MASK_COEFF) == (0 : UInt64) && x.w0 == (0 : UInt64))) = decide (zeroP x.w1.toNat x.w0.toNat) :=
    by rw [← Dec.C03GenCompare.zeroTest_eq x]; unfold Dec.C03GenCompare.zeroTest; rw [← steer_test]; rfl
  unfold frontKg
  rw [e1]
  refine ⟨fun h => by rw [if_pos (by simpa using h)], fun h hz => ?_, fun ⟨h, hz⟩ => ?_⟩
  · rw [if_neg (by simpa using h)]
    by_cases c : ((decide ((x.w1 &&& c_MASK_COEFF) > (0x1ed09bead87c0 : UInt64)) ||
      ((x.w1 &&& c_MASK_COEFF) == (0x1ed09bead87c0 : UInt64) && decide (x.w0 > (0x378d8e63ffffffff : UInt64))) ||
      ((x.w1 &&& (0x6000000000000000 : UInt64)) == (0x6000000000000000 : UInt64)))) = true
    · rw [if_pos c]
    · rw [if_neg c]
      have : ((x.w1 &&& c_MASK_COEFF) == (0 : UInt64) && x.w0 == (0 : UInt64)) = true := by
        have := e2
        rw [Bool.not_eq_true] at c
        rw [c, Bool.false_or, decide_eq_true hz] at this
        exact this
      rw [if_pos this]
  · rw [if_neg (by simpa using h)]
    have e3 := e2
    rw [decide_eq_false hz, Bool.or_eq_false_iff] at e3
    rw [if_neg (by rw [e3.1]; decide), if_neg (by rw [e3.2]; decide), sigF_eq]
    exact ⟨_, exp_toInt x.w1, rfl⟩

/-- the skeleton of `floor` / `xfloor`: after the zero tests a negative operand is invalid; then digit count, the range test
of the positive side only (`rangeK` at sign word 0), operands below one, positive tail -/
def skelUB (P : RangeP) (f : UInt32) (small : Except String (UInt32 × UInt32))
    (remAll : U128 → Int32 → Except String (UInt32 × UInt32)) (x : U128) : Except String (UInt32 × UInt32) :=
  frontKg (fun C1 kk => if ((x.w1 &&& c_MASK_SIGN) != (0 : UInt64)) then INVU f else nrDigitsK C1 kk)
    x (INVU f) (.ok (0, f)) (fun _ C1 q exp =>
    rangeK P (0 : UInt64) C1 q exp (INVU f)
      (if decide (q + exp ≤ (0 : Int32)) then small else posTailU f remAll C1 exp))

def G_ufloor : GlueP := G_int

set_option maxRecDepth 100000 in
set_option maxHeartbeats 1000000 in
theorem uint32_floor_unfold (x : U128) (f : UInt32) :
    bid128_to_uint32_floor x f = skelUB P_uint f (.ok (0, f))
      (fun C1 ind => removeK C1 ind (fun Cs fs => remGU adjTU G_int f Cs fs ind)) x := rfl

set_option maxRecDepth 100000 in
set_option maxHeartbeats 1000000 in
theorem uint32_xfloor_unfold (x : U128) (f : UInt32) :
    bid128_to_uint32_xfloor x f = skelUB P_uint f (.ok (0, IX f))
      (fun C1 ind => removeK C1 ind (fun Cs fs => remGU adjTU G_xint f Cs fs ind)) x := rfl

/-- the range test of the positive side alone (sign word 0) -/
theorem rangeK_semU_pos {α : Type} (P : RangeP) (mode : Mode) (hPp : thrOK (dirOf mode false) (bndU false) P.cP.toNat P.sP)
    (hcN : P.cN.toNat < 2^36) (C1 : U128) (q exp : Int32)
    (inv k : Except String α) (e : Int) (hC0 : 0 < val128 C1) (hC : val128 C1 < P34)
    (hq : q.toInt = (ndigits (val128 C1) : Int)) (he : exp.toInt = e) (he1 : -10000 ≤ e) (he2 : e ≤ 10000) :
    rangeK P (0 : UInt64) C1 q exp inv k =
      if 10 ≤ (ndigits (val128 C1) : Int) + e ∧ bndU false ≤ magOf mode false (val128 C1) e then inv else k := by
  have hn := ndigits_pos hC0
  obtain ⟨-, hhi⟩ := ndigits_spec hC0
  have hn34 : ndigits (val128 C1) ≤ 34 := by rw [ndigits_le_iff hC0]; simpa [P34] using hC
  have hcP : P.cP.toNat < 2^36 := by
    have := (thrOK_cU _ _ _ _ hPp (by decide)).2.1; simp only [bndU] at this; simp at this; omega
  rw [rangeK_spec P 0 C1 q exp inv k _ e hq he hn hn34 hhi he1 he2 hcN hcP]
  by_cases c1 : 10 < (ndigits (val128 C1) : Int) + e
  · have := magOf_big mode false (val128 C1) e hC0 (by omega)
    rw [if_pos c1, if_pos ⟨by omega, by unfold bndU; simp only [Bool.false_eq_true, if_false]; omega⟩]
  rw [if_neg c1]
  by_cases c2 : (ndigits (val128 C1) : Int) + e = 10
  · rw [if_pos c2, if_neg (by simp), range10U mode false (bndU false) _ _ (Or.inr rfl) hPp _ e hC0 c2]
    simp only [decide_eq_true_eq, show (10 : Int) ≤ (ndigits (val128 C1) : Int) + e from by omega, true_and]
  · rw [if_neg c2, if_neg (by omega)]

/-- a negative non-zero operand rounds to a non-zero integer when the magnitude is rounded away from zero -/
theorem magOf_up_pos (mode : Mode) (c : Nat) (e : Int) (hc : 0 < c) (hd : dirOf mode true = .up) : 1 ≤ magOf mode true c e := by
  by_cases h : 1 ≤ (ndigits c : Int) + e
  · exact magOf_pos mode true c e hc h
  · obtain ⟨hneg, ha, hr⟩ := tiny c e hc (by omega)
    unfold magOf
    rw [if_neg (by omega), ha, hr, roundInt_eq, hd]
    have : incr Dir.up (0 % 2 == 1) c (10 ^ (-e).toNat) = true := by unfold incr; rw [if_neg (by omega)]
    rw [this]; simp

open Dec.C03GenCompare (decode_bitsOf decodeW_kind) in
theorem skelUB_spec (P : RangeP) (mode : Mode) (xf : Bool) (f : UInt32) (small : Except String (UInt32 × UInt32))
    (remAll : U128 → Int32 → Except String (UInt32 × UInt32))
    (hup : dirOf mode true = .up) (hdn : dirOf mode false = .down)
    (hPp : thrOK (dirOf mode false) (bndU false) P.cP.toNat P.sP) (hcN : P.cN.toNat < 2^36)
    (hsmall : small = .ok (0, f ||| ixFlag xf false))
    (hrem : RemAllOKU mode xf f remAll) (x : U128) :
    skelUB P f small remAll x = specOutU mode xf x f := by
  unfold skelUB
  by_cases hsg : ((x.w1 &&& c_MASK_SIGN) != (0 : UInt64)) = true
  · -- negative
    have hnd' : (fun (C1 : U128) (kk : Int32 → Except String (UInt32 × UInt32)) =>
        if ((x.w1 &&& c_MASK_SIGN) != (0 : UInt64)) = true then INVU f else nrDigitsK C1 kk) = fun _ _ => INVU f := by
      funext C1 kk; rw [if_pos hsg]
    rw [hnd']
    obtain ⟨f1, f2, f3⟩ := frontKg_gen (fun _ _ => INVU f) x (INVU f) (.ok (0, f)) (fun _ C1 q exp =>
      rangeK P (0 : UInt64) C1 q exp (INVU f)
        (if decide (q + exp ≤ (0 : Int32)) then small else posTailU f remAll C1 exp))
    unfold specOutU
    rw [decode_bitsOf]
    rcases decodeW_kind x.w1.toNat x.w0.toNat with ⟨hN, s, p, hd⟩ | ⟨hN, hI, hd⟩ | ⟨hI, hz, e, hd⟩ | ⟨hI, hS, hlt, hpos, hd⟩
    · rw [f1 (by omega), hd]; rfl
    · rw [f1 hI, hd]; rfl
    · rw [f2 hI hz, hd, toIntD_finU, magOf_zero, exactOf_zero]
      have : (0 : Nat) < bndU (decide (x.w1.toNat / 2 ^ 63 % 2 = 1)) := by unfold bndU; split <;> omega
      rw [if_pos this]
      cases decide (x.w1.toNat / 2 ^ 63 % 2 = 1) <;> cases xf <;>
        exact congrArg Except.ok (Prod.ext rfl (UInt32.or_zero).symm)
    · have hnz : nzFin x := ⟨hI, by unfold zeroP; omega⟩
      obtain ⟨E, hE, hkk⟩ := f3 hnz
      rw [hkk, hd]
      have hsw : ((x.w1 &&& c_MASK_SIGN) != 0) = decide (x.w1.toNat / 2 ^ 63 % 2 = 1) := sign_word x.w1
      rw [hsg] at hsw
      rw [← hsw, toIntD_finU]
      have := magOf_up_pos mode (sigW x.w1.toNat x.w0.toNat) ((x.w1.toNat / 2 ^ 49 % 2 ^ 14 : Nat) - (6176 : Int)) hpos hup
      rw [if_neg (by unfold bndU; simp only [if_true]; omega)]
      rfl
  · -- positive: the common front-end lemma applies
    have hnd' : (fun (C1 : U128) (kk : Int32 → Except String (UInt32 × UInt32)) =>
        if ((x.w1 &&& c_MASK_SIGN) != (0 : UInt64)) = true then INVU f else nrDigitsK C1 kk) = nrDigitsK := by
      funext C1 kk; rw [if_neg hsg]
    rw [hnd']
    apply frontU nrDigitsK ndU_ok mode xf f
    intro xs s C1 Q E e hxs hs hC0 hC hQ hE he1 he2
    have hs0 : s = false := by rw [← hs, hxs]; simpa using hsg
    subst hs0
    show rangeK P (0 : UInt64) C1 Q E _ _ = _
    rw [rangeK_semU_pos P mode hPp hcN C1 Q E _ _ e hC0 hC hQ hE he1 he2, tgtU_eq]
    have hsum : (Q + E).toInt = (ndigits (val128 C1) : Int) + e := by
      have := ndigits_pos hC0
      have hn34 : ndigits (val128 C1) ≤ 34 := by rw [ndigits_le_iff hC0]; simpa [P34] using hC
      rw [i32_add _ _ (by omega) (by omega), hQ, hE]
    by_cases hinv : 10 ≤ (ndigits (val128 C1) : Int) + e ∧ bndU false ≤ magOf mode false (val128 C1) e
    · rw [if_pos hinv, if_neg (by omega)]
    rw [if_neg hinv]
    have ht10 : (ndigits (val128 C1) : Int) + e ≤ 10 := by
      apply Classical.byContradiction; intro hc
      have := magOf_big mode false (val128 C1) e hC0 (by omega)
      exact hinv ⟨by omega, by unfold bndU; simp only [Bool.false_eq_true, if_false]; omega⟩
    by_cases c1 : (ndigits (val128 C1) : Int) + e ≤ 0
    · rw [if_pos (by rw [decide_eq_true_eq, Int32.le_iff_toInt_le, hsum]; exact c1), hsmall]
      obtain ⟨hneg, ha, hr⟩ := tiny (val128 C1) e hC0 c1
      have hmg : magOf mode false (val128 C1) e = 0 := by
        unfold magOf; rw [if_neg (show ¬ e ≥ 0 by omega), ha, hr, roundInt_eq, hdn]
        have : incr Dir.down (0 % 2 == 1) (val128 C1) (10 ^ (-e).toNat) = false := by unfold incr; rw [if_neg (by omega)]
        rw [this]; rfl
      have hex : exactOf (val128 C1) e = false := by
        unfold exactOf; rw [if_neg (show ¬ e ≥ 0 by omega), hr, beq_eq_false_iff_ne]; omega
      rw [hmg, hex, if_pos (by unfold bndU; simp)]
      rfl
    rw [if_neg (by rw [decide_eq_true_eq, Int32.le_iff_toInt_le, hsum]; exact c1)]
    have hin : magOf mode false (val128 C1) e < bndU false := by
      by_cases h10 : (ndigits (val128 C1) : Int) + e = 10
      · apply Classical.byContradiction; intro hc; exact hinv ⟨by omega, by omega⟩
      · have := magOf_small mode false (val128 C1) e hC0 (by omega)
        have : (10:Nat)^9 < 4294967296 := by decide
        unfold bndU; simp only [Bool.false_eq_true, if_false]; omega
    rw [if_pos hin, posTailU_spec mode xf f remAll hrem C1 E e hC0 hC hE (by omega) ht10]
    rfl

theorem okU0 (f : UInt32) : (Except.ok (0, f) : Except String (UInt32 × UInt32)) = .ok (0, f ||| ixFlag false false) := by
  rw [show f ||| ixFlag false false = f from UInt32.or_zero]

/-- **`bid128_to_uint32_floor`** (toward −∞, no inexact).  Every negative non-zero operand is invalid (its floor is ≤ −1);
`−0` gives 0. -/
theorem to_uint32_floor_spec (x : U128) (f : UInt32) : bid128_to_uint32_floor x f = specOutU .rdn false x f := by
  rw [uint32_floor_unfold]
  exact skelUB_spec P_uint .rdn false f _ _ (by decide) (by decide) (by decide) (by decide)
    (okU0 f)
    (remAllU_of_rem .rdn false f _ (remGU_spec adjTU adjTUD G_int .rdn false f adjTU_ok (by decide))) x

-- 2.5, −0.3, −0.5, −0.7, 4294967295.5, 4294967294.5, −2.5, 5·10^9, a NaN
example : bid128_to_uint32_floor ⟨0x19, 0x303e000000000000⟩ 0 = .ok (2, 0x0) := by rfl
example : bid128_to_uint32_floor ⟨0x3, 0xb03e000000000000⟩ 0 = .ok (2147483648, 0x1) := by rfl
example : bid128_to_uint32_floor ⟨0x5, 0xb03e000000000000⟩ 0 = .ok (2147483648, 0x1) := by rfl
example : bid128_to_uint32_floor ⟨0x7, 0xb03e000000000000⟩ 0 = .ok (2147483648, 0x1) := by rfl
example : bid128_to_uint32_floor ⟨0x9fffffffb, 0x303e000000000000⟩ 0 = .ok (4294967295, 0x0) := by rfl
example : bid128_to_uint32_floor ⟨0x9fffffff1, 0x303e000000000000⟩ 0 = .ok (4294967294, 0x0) := by rfl
example : bid128_to_uint32_floor ⟨0x19, 0xb03e000000000000⟩ 0 = .ok (2147483648, 0x1) := by rfl
example : bid128_to_uint32_floor ⟨0x5, 0x3052000000000000⟩ 0 = .ok (2147483648, 0x1) := by rfl
example : bid128_to_uint32_floor ⟨7, 0x7c00000000000000⟩ 0x20 = .ok (2147483648, 0x21) := by rfl

/-- **`bid128_to_uint32_xfloor`** (toward −∞, inexact signalled) -/
theorem to_uint32_xfloor_spec (x : U128) (f : UInt32) : bid128_to_uint32_xfloor x f = specOutU .rdn true x f := by
  rw [uint32_xfloor_unfold]
  exact skelUB_spec P_uint .rdn true f _ _ (by decide) (by decide) (by decide) (by decide) rfl
    (remAllU_of_rem .rdn true f _ (remGU_spec adjTU adjTUD G_xint .rdn true f adjTU_ok (by decide))) x

-- 2.5, −0.3, −0.5, −0.7, 4294967295.5, 4294967294.5, −2.5, 5·10^9, a NaN
example : bid128_to_uint32_xfloor ⟨0x19, 0x303e000000000000⟩ 0 = .ok (2, 0x20) := by rfl
example : bid128_to_uint32_xfloor ⟨0x3, 0xb03e000000000000⟩ 0 = .ok (2147483648, 0x1) := by rfl
example : bid128_to_uint32_xfloor ⟨0x5, 0xb03e000000000000⟩ 0 = .ok (2147483648, 0x1) := by rfl
example : bid128_to_uint32_xfloor ⟨0x7, 0xb03e000000000000⟩ 0 = .ok (2147483648, 0x1) := by rfl
example : bid128_to_uint32_xfloor ⟨0x9fffffffb, 0x303e000000000000⟩ 0 = .ok (4294967295, 0x20) := by rfl
example : bid128_to_uint32_xfloor ⟨0x9fffffff1, 0x303e000000000000⟩ 0 = .ok (4294967294, 0x20) := by rfl
example : bid128_to_uint32_xfloor ⟨0x19, 0xb03e000000000000⟩ 0 = .ok (2147483648, 0x1) := by rfl
example : bid128_to_uint32_xfloor ⟨0x5, 0x3052000000000000⟩ 0 = .ok (2147483648, 0x1) := by rfl
example : bid128_to_uint32_xfloor ⟨7, 0x7c00000000000000⟩ 0x20 = .ok (2147483648, 0x21) := by rfl

/-! ### the round-to-nearest copies -/

/-- their skeleton -/
def skelUC (P : RangeP) (f : UInt32) (small0 : Except String (UInt32 × UInt32))
    (midB : UInt64 → U128 → Int32 → Except String (UInt32 × UInt32))
    (remAll : U128 → Int32 → Except String (UInt32 × UInt32)) (x : U128) : Except String (UInt32 × UInt32) :=
  frontKg nrDigitsK x (INVU f) (.ok (0, f)) (fun x_sign C1 q exp =>
    rangeK P x_sign C1 q exp (INVU f)
      (if decide (q + exp < (0 : Int32)) then small0
       else if (q + exp == (0 : Int32)) then midB x_sign C1 q
       else if (x_sign != (0 : UInt64)) then INVU f
       else posTailU f remAll C1 exp))

/-- the answer for an operand in [0.1, 1) once compared with the midpoint: 0, or 1 for a positive operand, invalid for a
negative one -/
def midAnsU (pf f : UInt32) (xs : UInt64) (b : Bool) : Except String (UInt32 × UInt32) :=
  if b then finU pf 0 else if (xs == (0 : UInt64)) then finU pf 1 else INVU f

def P_urnint : RangeP := ⟨5, true, 0x9fffffffb, false⟩
def P_urninta : RangeP := ⟨5, false, 0x9fffffffb, false⟩

set_option maxRecDepth 100000 in
set_option maxHeartbeats 1000000 in
theorem uint32_rnint_unfold (x : U128) (f : UInt32) :
    bid128_to_uint32_rnint x f = skelUC P_urnint f (.ok (0, f))
      (fun xs C1 q => midTestK (fun a b => decide (a ≤ b)) C1 q (midAnsU f f xs) (midAnsU f f xs))
      (fun C1 ind => removeK C1 ind (fun Cs fs => midK fs ind
        (if (((Cs.w0 &&& (1 : UInt64))) == (1 : UInt64)) then finU f (resOfU (Cs.w0 - 1)) else finU f (resOfU Cs.w0))
        (finU f (resOfU Cs.w0)))) x := rfl

set_option maxRecDepth 100000 in
set_option maxHeartbeats 1000000 in
theorem uint32_rninta_unfold (x : U128) (f : UInt32) :
    bid128_to_uint32_rninta x f = skelUC P_urninta f (.ok (0, f))
      (fun xs C1 q => midTestK (fun a b => decide (a < b)) C1 q (midAnsU f f xs) (midAnsU f f xs))
      (fun C1 ind => addHalfK C1 ind (fun C1' => splitCK C1' ind (fun Cs => finU f (resOfU Cs.w0)))) x := rfl

set_option maxRecDepth 100000 in
set_option maxHeartbeats 1000000 in
theorem uint32_xrnint_unfold (x : U128) (f : UInt32) :
    bid128_to_uint32_xrnint x f = skelUC P_urnint f (.ok (0, IX f))
      (fun xs C1 q => midTestK (fun a b => decide (a ≤ b)) C1 q (midAnsU (IX f) f xs) (midAnsU (IX f) f xs))
      (fun C1 ind => removeK C1 ind (fun Cs fs => remGU adjNU G_xrn f Cs fs ind)) x := rfl

set_option maxRecDepth 100000 in
set_option maxHeartbeats 1000000 in
theorem uint32_xrninta_unfold (x : U128) (f : UInt32) :
    bid128_to_uint32_xrninta x f = skelUC P_urninta f (.ok (0, IX f))
      (fun xs C1 q => midTestK (fun a b => decide (a < b)) C1 q (midAnsU (IX f) f xs) (midAnsU (IX f) f xs))
      (fun C1 ind => removeK C1 ind (fun Cs fs =>
        fracK fs ind (finU (IX f) (resOfU Cs.w0)) (finU f (resOfU Cs.w0)) (finU (IX f) (resOfU Cs.w0)))) x := rfl

theorem skelUC_spec (P : RangeP) (mode : Mode) (xf : Bool) (f : UInt32) (small0 : Except String (UInt32 × UInt32))
    (midB : UInt64 → U128 → Int32 → Except String (UInt32 × UInt32))
    (remAll : U128 → Int32 → Except String (UInt32 × UInt32)) (hP : RangeOKU P mode)
    (hdir : ∀ s, dirOf mode s = .even ∨ dirOf mode s = .away)
    (hsmall0 : small0 = .ok (0, f ||| ixFlag xf false))
    (hmidB : ∀ (xs : UInt64) (s : Bool) (C1 : U128) (q : Int32), (xs != 0) = s → 0 < val128 C1 → val128 C1 < 10 ^ 34 →
      q.toInt = (ndigits (val128 C1) : Int) →
      midB xs C1 q = if roundInt mode s 0 (val128 C1) (10 ^ ndigits (val128 C1)) < bndU s then
        .ok (UInt32.ofInt (sInt s (roundInt mode s 0 (val128 C1) (10 ^ ndigits (val128 C1)))), f ||| ixFlag xf false)
        else INVU f)
    (hrem : RemAllOKU mode xf f remAll) (x : U128) :
    skelUC P f small0 midB remAll x = specOutU mode xf x f := by
  unfold skelUC
  apply frontU nrDigitsK ndU_ok mode xf f
  intro xs s C1 Q E e _ hs hC0 hC hQ hE he1 he2
  rw [rangeK_semU P mode hP xs C1 Q E _ _ s e hs hC0 hC hQ hE he1 he2, tgtU_eq]
  have hn := ndigits_pos hC0
  obtain ⟨hlo, hhi⟩ := ndigits_spec hC0
  have hn34 : ndigits (val128 C1) ≤ 34 := by rw [ndigits_le_iff hC0]; simpa [P34] using hC
  have hsum : (Q + E).toInt = (ndigits (val128 C1) : Int) + e := by rw [i32_add _ _ (by omega) (by omega), hQ, hE]
  by_cases hinv : 10 ≤ (ndigits (val128 C1) : Int) + e ∧ bndU s ≤ magOf mode s (val128 C1) e
  · rw [if_pos hinv, if_neg (by omega)]
  rw [if_neg hinv]
  have ht10 : (ndigits (val128 C1) : Int) + e ≤ 10 := by
    apply Classical.byContradiction; intro hc
    have := magOf_big mode s (val128 C1) e hC0 (by omega)
    exact hinv ⟨by omega, by unfold bndU; split <;> omega⟩
  have hround0 : ∀ D, 2 * val128 C1 < D → roundInt mode s 0 (val128 C1) D = 0 := by
    intro D hD
    rw [roundInt_eq]
    have : incr (dirOf mode s) (0 % 2 == 1) (val128 C1) D = false := by
      unfold incr
      rw [if_neg (by omega)]
      rcases hdir s with h | h <;> rw [h] <;> simp only [Bool.or_eq_false_iff, Bool.and_eq_false_iff, decide_eq_false_iff_not] <;> omega
    rw [this]; rfl
  by_cases c1 : (ndigits (val128 C1) : Int) + e < 0
  · -- below 0.1
    rw [if_pos (by rw [decide_eq_true_eq, Int32.lt_iff_toInt_lt, hsum]; exact c1), hsmall0]
    obtain ⟨hneg, ha, hr⟩ := tiny (val128 C1) e hC0 (by omega)
    have hCD : 2 * val128 C1 < 10 ^ (-e).toNat := by
      have h1 : 10 ^ (ndigits (val128 C1) + 1) ≤ 10 ^ (-e).toNat := Nat.pow_le_pow_right (by decide) (by omega)
      rw [Nat.pow_succ] at h1
      omega
    have hmg : magOf mode s (val128 C1) e = 0 := by
      unfold magOf; rw [if_neg (show ¬ e ≥ 0 by omega), ha, hr, hround0 _ hCD]
    have hex : exactOf (val128 C1) e = false := by
      unfold exactOf; rw [if_neg (show ¬ e ≥ 0 by omega), hr, beq_eq_false_iff_ne]; omega
    rw [hmg, hex, if_pos (by unfold bndU; split <;> omega)]
    cases s <;> rfl
  rw [if_neg (by rw [decide_eq_true_eq, Int32.lt_iff_toInt_lt, hsum]; exact c1)]
  by_cases c1' : (ndigits (val128 C1) : Int) + e = 0
  · -- in [0.1, 1)
    rw [if_pos (by rw [beq_iff_eq, ← Int32.toInt_inj, hsum, c1']; rfl)]
    rw [hmidB xs s C1 Q hs hC0 (by simpa [P34] using hC) hQ]
    obtain ⟨hneg, ha, hr⟩ := tiny (val128 C1) e hC0 (by omega)
    have hmg : magOf mode s (val128 C1) e = roundInt mode s 0 (val128 C1) (10 ^ ndigits (val128 C1)) := by
      unfold magOf; rw [if_neg (show ¬ e ≥ 0 by omega), ha, hr, show (-e).toNat = ndigits (val128 C1) by omega]
    have hex : exactOf (val128 C1) e = false := by
      unfold exactOf; rw [if_neg (show ¬ e ≥ 0 by omega), hr, beq_eq_false_iff_ne]; omega
    rw [hmg, hex]
  rw [if_neg (by rw [beq_iff_eq, ← Int32.toInt_inj, hsum]; exact c1')]
  have hm1 := magOf_pos mode s (val128 C1) e hC0 (by omega)
  cases s
  · have hin : magOf mode false (val128 C1) e < bndU false := by
      by_cases h10 : (ndigits (val128 C1) : Int) + e = 10
      · apply Classical.byContradiction; intro hc; exact hinv ⟨by omega, by omega⟩
      · have := magOf_small mode false (val128 C1) e hC0 (by omega)
        have : (10:Nat)^9 < 4294967296 := by decide
        unfold bndU; simp only [Bool.false_eq_true, if_false]; omega
    rw [if_neg (by rw [hs]; decide), if_pos hin, posTailU_spec mode xf f remAll hrem C1 E e hC0 hC hE (by omega) ht10]
    rfl
  · rw [if_pos hs, if_neg (by unfold bndU; simp only [if_true]; omega)]

/-- operands in [0.1, 1): 0 or 1 by the comparison with the midpoint; a negative operand that rounds to −1 is invalid -/
theorem midBU_ok (mode : Mode) (strict : Bool) (hm : (mode = .rne ∧ strict = false) ∨ (mode = .rna ∧ strict = true))
    (cmp : UInt64 → UInt64 → Bool)
    (hcmp : ∀ a b : UInt64, cmp a b = if strict then decide (a.toNat < b.toNat) else decide (a.toNat ≤ b.toNat))
    (pf f : UInt32) (xs : UInt64) (s : Bool) (C1 : U128) (q : Int32)
    (hs : (xs != 0) = s) (hC0 : 0 < val128 C1) (hC : val128 C1 < 10 ^ 34) (hq : q.toInt = (ndigits (val128 C1) : Int)) :
    midTestK cmp C1 q (midAnsU pf f xs) (midAnsU pf f xs) =
      if roundInt mode s 0 (val128 C1) (10 ^ ndigits (val128 C1)) < bndU s then
        .ok (UInt32.ofInt (sInt s (roundInt mode s 0 (val128 C1) (10 ^ ndigits (val128 C1)))), pf)
      else INVU f := by
  have hn := ndigits_pos hC0
  have hn34 : ndigits (val128 C1) ≤ 34 := by rw [ndigits_le_iff hC0]; exact hC
  rw [midTestK_spec cmp strict hcmp C1 q _ _ _ hq hn hn34]
  have hD := two_h (ndigits (val128 C1)) hn
  rw [← hD, roundInt_eq]
  generalize 5 * 10 ^ (ndigits (val128 C1) - 1) = M at *
  generalize val128 C1 = C at *
  have key : ∀ b : Bool, b = !incr (dirOf mode s) (0 % 2 == 1) C (2 * M) →
      (if ndigits C ≤ 19 then midAnsU pf f xs else midAnsU pf f xs) b =
        if (if incr (dirOf mode s) (0 % 2 == 1) C (2 * M) = true then 0 + 1 else 0) < bndU s then
          .ok (UInt32.ofInt (sInt s (if incr (dirOf mode s) (0 % 2 == 1) C (2 * M) = true then 0 + 1 else 0)), pf)
        else INVU f := by
    intro b hb
    rw [ite_self, hb]
    unfold midAnsU
    rw [beq_of_bne xs s hs]
    cases incr (dirOf mode s) (0 % 2 == 1) C (2 * M) <;> cases s <;> rfl
  apply key
  unfold incr
  have hC0' : ¬ C = 0 := by omega
  rcases hm with ⟨rfl, rfl⟩ | ⟨rfl, rfl⟩
  · simp only [dirOf, hC0', Bool.false_eq_true, if_false, Nat.zero_mod, Nat.reduceBEq, Bool.and_false, Bool.or_false]
    rw [Bool.eq_iff_iff]; simp only [decide_eq_true_eq, Bool.not_eq_true', decide_eq_false_iff_not]; omega
  · simp only [dirOf, hC0', if_true, if_false]
    rw [Bool.eq_iff_iff]; simp only [decide_eq_true_eq, Bool.not_eq_true', decide_eq_false_iff_not]; omega

theorem remU_rnint_ok (f : UInt32) :
    RemAllOKU .rne false f (fun C1 ind => removeK C1 ind (fun Cs fs => midK fs ind
      (if (((Cs.w0 &&& (1 : UInt64))) == (1 : UInt64)) then finU f (resOfU (Cs.w0 - 1)) else finU f (resOfU Cs.w0))
      (finU f (resOfU Cs.w0)))) := by
  apply remAllU_of_rem
  intro Cs fs ind x a r hx h1 h34 hr ha hA ok
  have := remGU_spec adjNU adjNUD G0 .rne false f adjNU_ok (by decide) Cs fs ind x a r hx h1 h34 hr ha hA ok
  rw [← this]
  unfold remGU
  simp only []
  rw [fracK_spec fs ind _ _ _ x r hx h1 h34 ok]
  exact (ite3 (r < 5 * 10 ^ (x - 1)) (0 < r) _).symm

theorem remU_xrnint_ok (f : UInt32) :
    RemAllOKU .rne true f (fun C1 ind => removeK C1 ind (fun Cs fs => remGU adjNU G_xrn f Cs fs ind)) :=
  remAllU_of_rem .rne true f _ (remGU_spec adjNU adjNUD G_xrn .rne true f adjNU_ok (by decide))

theorem remU_xrninta_ok (f : UInt32) :
    RemAllOKU .rna true f (fun C1 ind => removeK C1 ind (fun Cs fs =>
      fracK fs ind (finU (IX f) (resOfU Cs.w0)) (finU f (resOfU Cs.w0)) (finU (IX f) (resOfU Cs.w0)))) := by
  apply remAllU_of_rem
  intro Cs fs ind x a r hx h1 h34 hr ha hA ok
  show fracK fs ind _ _ _ = _
  rw [fracK_spec fs ind _ _ _ x r hx h1 h34 ok, roundInt_rna false a r x h1, ← hA]
  unfold finU resOfU
  show (if r < 5 * 10 ^ (x - 1) then (if 0 < r then Except.ok (UInt32.ofInt (Cs.w0.toNat : Int), IX f)
      else Except.ok (UInt32.ofInt (Cs.w0.toNat : Int), f)) else Except.ok (UInt32.ofInt (Cs.w0.toNat : Int), IX f)) = _
  by_cases c0 : r = 0
  · have hh : 0 < 5 * 10 ^ (x - 1) := Nat.mul_pos (by decide) (Nat.pow_pos (by decide))
    rw [if_pos (by omega), if_neg (by omega)]
    have : (r == 0) = true := by rw [c0]; rfl
    rw [this]
    exact congrArg Except.ok (Prod.ext rfl (UInt32.or_zero).symm)
  · have : (r == 0) = false := by rw [beq_eq_false_iff_ne]; exact c0
    rw [this]
    split <;> [rw [if_pos (by omega)]; skip] <;> rfl

/-- `rninta` after digit removal: the half-up quotient is the answer -/
theorem remU_rninta_ok (f : UInt32) :
    RemAllOKU .rna false f (fun C1 ind => addHalfK C1 ind (fun C1' => splitCK C1' ind (fun Cs => finU f (resOfU Cs.w0)))) := by
  intro C1 ind x hx h1 h34 hC ha10
  obtain ⟨r1, r2, -, -, -, -, -, -, -, -, -, -, -⟩ := row (x - 1) (by omega)
  rw [show x - 1 + 1 = x by omega] at r1 r2
  have hh : 0 < 5 * 10 ^ (x - 1) := Nat.mul_pos (by decide) (Nat.pow_pos (by decide))
  have hhalf : 5 * 10 ^ (x - 1) ≤ 5 * 10 ^ 33 := Nat.mul_le_mul_left 5 (Nat.pow_le_pow_right (by decide) (by omega))
  have hsum : val128 C1 + 5 * 10 ^ (x - 1) < 10 ^ 35 := by
    calc val128 C1 + 5 * 10 ^ (x - 1) < 10 ^ 34 + 5 * 10 ^ 33 := Nat.add_lt_add_of_lt_of_le hC hhalf
      _ < 10 ^ 35 := by decide
  obtain ⟨C1', e1, v1⟩ := addHalfK_spec C1 ind (fun C1' => splitCK C1' ind (fun Cs => finU f (resOfU Cs.w0))) x hx h1 h34
    (Nat.lt_trans hsum (by decide))
  obtain ⟨Cs, e2, qv⟩ := splitCK_spec C1' ind (fun Cs => finU f (resOfU Cs.w0)) x hx h1 h34
  have hD := two_h x h1
  generalize hK : kT (x - 1) = K at *
  generalize hE : 128 + shT (x - 1) = E at *
  have hKD : K * (2 * (5 * 10 ^ (x - 1))) = 2 ^ E + (K * 10 ^ x - 2 ^ E) := by rw [hD]; omega
  have hb : ((val128 C1 + 5 * 10 ^ (x - 1)) / (2 * (5 * 10 ^ (x - 1))) + 1) * (K * 10 ^ x - 2 ^ E) < K := by
    rw [hD]
    have : (val128 C1 + 5 * 10 ^ (x - 1)) / 10 ^ x ≤ 10 ^ 35 / 10 ^ x := Nat.div_le_div_right (Nat.le_of_lt hsum)
    calc ((val128 C1 + 5 * 10 ^ (x - 1)) / 10 ^ x + 1) * (K * 10 ^ x - 2 ^ E)
        ≤ (10 ^ 35 / 10 ^ x + 1) * (K * 10 ^ x - 2 ^ E) := Nat.mul_le_mul_right _ (by omega)
      _ < K := r2
  obtain ⟨t1, -⟩ := fracTests (5 * 10 ^ (x - 1)) K E (K * 10 ^ x - 2 ^ E) (val128 C1) hh hKD (by omega) (by omega) hb
  rw [hD] at t1
  rw [v1, t1] at qv
  have hAlt : (if val128 C1 % 10 ^ x < 5 * 10 ^ (x - 1) then val128 C1 / 10 ^ x else val128 C1 / 10 ^ x + 1) < 2^63 := by
    have : (10:Nat) ^ 10 + 1 < 2^63 := by decide
    split <;> omega
  have hw := qv (Nat.lt_trans hAlt (by decide))
  simp only []
  rw [e1, e2, roundInt_rna false _ _ x h1]
  unfold finU resOfU
  show Except.ok (UInt32.ofInt (Cs.w0.toNat : Int), f) = _
  rw [hw]
  exact congrArg Except.ok (Prod.ext rfl (by unfold ixFlag; exact (UInt32.or_zero).symm))


/-- **`bid128_to_uint32_rnint`** (to nearest, ties to even; no inexact).  Negative operands: those that round to 0 (magnitude
at most ½) give 0; all others are invalid. -/
theorem to_uint32_rnint_spec (x : U128) (f : UInt32) : bid128_to_uint32_rnint x f = specOutU .rne false x f := by
  rw [uint32_rnint_unfold]
  refine skelUC_spec P_urnint .rne false f _ _ _ (by decide) (by decide) (okU0 f) ?_ (remU_rnint_ok f) x
  intro xs s C1 q hs hC0 hC hq
  have e : f ||| ixFlag false false = f := UInt32.or_zero
  rw [e]
  exact midBU_ok .rne false (Or.inl ⟨rfl, rfl⟩) _ (fun a b => by simp [UInt64.le_iff_toNat_le]) f f xs s C1 q hs hC0 hC hq

-- 2.5, −0.3, −0.5, −0.7, 4294967295.5, 4294967294.5, −2.5, 5·10^9, a NaN
example : bid128_to_uint32_rnint ⟨0x19, 0x303e000000000000⟩ 0 = .ok (2, 0x0) := by rfl
example : bid128_to_uint32_rnint ⟨0x3, 0xb03e000000000000⟩ 0 = .ok (0, 0x0) := by rfl
example : bid128_to_uint32_rnint ⟨0x5, 0xb03e000000000000⟩ 0 = .ok (0, 0x0) := by rfl
example : bid128_to_uint32_rnint ⟨0x7, 0xb03e000000000000⟩ 0 = .ok (2147483648, 0x1) := by rfl
example : bid128_to_uint32_rnint ⟨0x9fffffffb, 0x303e000000000000⟩ 0 = .ok (2147483648, 0x1) := by rfl
example : bid128_to_uint32_rnint ⟨0x9fffffff1, 0x303e000000000000⟩ 0 = .ok (4294967294, 0x0) := by rfl
example : bid128_to_uint32_rnint ⟨0x19, 0xb03e000000000000⟩ 0 = .ok (2147483648, 0x1) := by rfl
example : bid128_to_uint32_rnint ⟨0x5, 0x3052000000000000⟩ 0 = .ok (2147483648, 0x1) := by rfl
example : bid128_to_uint32_rnint ⟨7, 0x7c00000000000000⟩ 0x20 = .ok (2147483648, 0x21) := by rfl

/-- **`bid128_to_uint32_rninta`** (to nearest, ties away; no inexact).  Negative operands of magnitude below ½ give 0; all
others (−½ included) are invalid. -/
theorem to_uint32_rninta_spec (x : U128) (f : UInt32) : bid128_to_uint32_rninta x f = specOutU .rna false x f := by
  rw [uint32_rninta_unfold]
  refine skelUC_spec P_urninta .rna false f _ _ _ (by decide) (by decide) (okU0 f) ?_ (remU_rninta_ok f) x
  intro xs s C1 q hs hC0 hC hq
  have e : f ||| ixFlag false false = f := UInt32.or_zero
  rw [e]
  exact midBU_ok .rna true (Or.inr ⟨rfl, rfl⟩) _ (fun a b => by simp [UInt64.lt_iff_toNat_lt]) f f xs s C1 q hs hC0 hC hq

-- 2.5, −0.3, −0.5, −0.7, 4294967295.5, 4294967294.5, −2.5, 5·10^9, a NaN
example : bid128_to_uint32_rninta ⟨0x19, 0x303e000000000000⟩ 0 = .ok (3, 0x0) := by rfl
example : bid128_to_uint32_rninta ⟨0x3, 0xb03e000000000000⟩ 0 = .ok (0, 0x0) := by rfl
example : bid128_to_uint32_rninta ⟨0x5, 0xb03e000000000000⟩ 0 = .ok (2147483648, 0x1) := by rfl
example : bid128_to_uint32_rninta ⟨0x7, 0xb03e000000000000⟩ 0 = .ok (2147483648, 0x1) := by rfl
example : bid128_to_uint32_rninta ⟨0x9fffffffb, 0x303e000000000000⟩ 0 = .ok (2147483648, 0x1) := by rfl
example : bid128_to_uint32_rninta ⟨0x9fffffff1, 0x303e000000000000⟩ 0 = .ok (4294967295, 0x0) := by rfl
example : bid128_to_uint32_rninta ⟨0x19, 0xb03e000000000000⟩ 0 = .ok (2147483648, 0x1) := by rfl
example : bid128_to_uint32_rninta ⟨0x5, 0x3052000000000000⟩ 0 = .ok (2147483648, 0x1) := by rfl
example : bid128_to_uint32_rninta ⟨7, 0x7c00000000000000⟩ 0x20 = .ok (2147483648, 0x21) := by rfl

/-- **`bid128_to_uint32_xrnint`** (to nearest, ties to even; inexact signalled — but an invalid answer raises invalid only) -/
theorem to_uint32_xrnint_spec (x : U128) (f : UInt32) : bid128_to_uint32_xrnint x f = specOutU .rne true x f := by
  rw [uint32_xrnint_unfold]
  refine skelUC_spec P_urnint .rne true f _ _ _ (by decide) (by decide) rfl ?_ (remU_xrnint_ok f) x
  intro xs s C1 q hs hC0 hC hq
  exact midBU_ok .rne false (Or.inl ⟨rfl, rfl⟩) _ (fun a b => by simp [UInt64.le_iff_toNat_le]) (IX f) f xs s C1 q hs hC0 hC hq

-- 2.5, −0.3, −0.5, −0.7, 4294967295.5, 4294967294.5, −2.5, 5·10^9, a NaN
example : bid128_to_uint32_xrnint ⟨0x19, 0x303e000000000000⟩ 0 = .ok (2, 0x20) := by rfl
example : bid128_to_uint32_xrnint ⟨0x3, 0xb03e000000000000⟩ 0 = .ok (0, 0x20) := by rfl
example : bid128_to_uint32_xrnint ⟨0x5, 0xb03e000000000000⟩ 0 = .ok (0, 0x20) := by rfl
example : bid128_to_uint32_xrnint ⟨0x7, 0xb03e000000000000⟩ 0 = .ok (2147483648, 0x1) := by rfl
example : bid128_to_uint32_xrnint ⟨0x9fffffffb, 0x303e000000000000⟩ 0 = .ok (2147483648, 0x1) := by rfl
example : bid128_to_uint32_xrnint ⟨0x9fffffff1, 0x303e000000000000⟩ 0 = .ok (4294967294, 0x20) := by rfl
example : bid128_to_uint32_xrnint ⟨0x19, 0xb03e000000000000⟩ 0 = .ok (2147483648, 0x1) := by rfl
example : bid128_to_uint32_xrnint ⟨0x5, 0x3052000000000000⟩ 0 = .ok (2147483648, 0x1) := by rfl
example : bid128_to_uint32_xrnint ⟨7, 0x7c00000000000000⟩ 0x20 = .ok (2147483648, 0x21) := by rfl

/-- **`bid128_to_uint32_xrninta`** (to nearest, ties away; inexact signalled) -/
theorem to_uint32_xrninta_spec (x : U128) (f : UInt32) : bid128_to_uint32_xrninta x f = specOutU .rna true x f := by
  rw [uint32_xrninta_unfold]
  refine skelUC_spec P_urninta .rna true f _ _ _ (by decide) (by decide) rfl ?_ (remU_xrninta_ok f) x
  intro xs s C1 q hs hC0 hC hq
  exact midBU_ok .rna true (Or.inr ⟨rfl, rfl⟩) _ (fun a b => by simp [UInt64.lt_iff_toNat_lt]) (IX f) f xs s C1 q hs hC0 hC hq

-- 2.5, −0.3, −0.5, −0.7, 4294967295.5, 4294967294.5, −2.5, 5·10^9, a NaN
example : bid128_to_uint32_xrninta ⟨0x19, 0x303e000000000000⟩ 0 = .ok (3, 0x20) := by rfl
example : bid128_to_uint32_xrninta ⟨0x3, 0xb03e000000000000⟩ 0 = .ok (0, 0x20) := by rfl
example : bid128_to_uint32_xrninta ⟨0x5, 0xb03e000000000000⟩ 0 = .ok (2147483648, 0x1) := by rfl
example : bid128_to_uint32_xrninta ⟨0x7, 0xb03e000000000000⟩ 0 = .ok (2147483648, 0x1) := by rfl
example : bid128_to_uint32_xrninta ⟨0x9fffffffb, 0x303e000000000000⟩ 0 = .ok (2147483648, 0x1) := by rfl
example : bid128_to_uint32_xrninta ⟨0x9fffffff1, 0x303e000000000000⟩ 0 = .ok (4294967295, 0x20) := by rfl
example : bid128_to_uint32_xrninta ⟨0x19, 0xb03e000000000000⟩ 0 = .ok (2147483648, 0x1) := by rfl
example : bid128_to_uint32_xrninta ⟨0x5, 0x3052000000000000⟩ 0 = .ok (2147483648, 0x1) := by rfl
example : bid128_to_uint32_xrninta ⟨7, 0x7c00000000000000⟩ 0x20 = .ok (2147483648, 0x21) := by rfl

end Dec.C06GenToUInt32
