import DecGen.Api
import DecProofs.Properties.C06GenToInt
import DecProofs.Properties.C06GenToIntRN
import DecProofs.Properties.C06GenToUInt32
import DecProofs.Properties.C06GenToUInt64
import DecProofs.Properties.C06GenToInt64
import DecProofs.Properties.C06
import DecProofs.Properties.C11GenLogb
import DecProofs.Properties.C08GenRoundIntegral
import DecProofs.Properties.C08Q
import DecProofs.Properties.C01GenAdd
import DecProofs.Properties.C12GenNaN
import DecProofs.Properties.JudgeSound

/-!
  SourceLevel2 — property-level theorems about the PUBLIC API of the source (`Dec.Gen.Api.run "<method>" mode flags args`, the
  regenerated dispatch of /repo/src/d128.rs) for the methods `SourceLevel.lean` has none for:

    C06  the 40 decimal → integer conversions `convert_to_{i32,u32,i64,u64}[_exact]_{ties_to_even, toward_negative,
         toward_positive, toward_zero, ties_to_away}`: one theorem `<method>_spec` per LITERAL method name, `convert_all`
         (the 40 in one statement over the table `convMethods`), `conv_meaning` / `exact_iff` / `flag_words` (the sentences
         of the property about the model value `conv`), lifted from the routine-level theorems
         C06GenToInt / C06GenToIntRN (i32), C06GenToUInt32, C06GenToInt64, C06GenToUInt64 (each routine = `toIntD …`);
    C11  `log_b` (`bid128_ilogb`, C11GenLogb.ilogb_spec): `log_b_spec`, `log_b_cases`;
    C08  `modf` (`bid128_modf` = `bid128_round_integral_zero`, then `bid128_sub` in ties-to-even, then two sign ORs):
         `modf_all` (the routine on all inputs), `modf_spec`, `modf_property`, `modf_specials`, `modf_accepted` (the judge).
         The subtraction `x − trunc x` always falls into the region of `bid128_add` proved in C01GenAdd
         (`add_cases_covered`: a zero operand, or `AlignedCond` — the integral part aligned to x's exponent has at most 34
         digits; `covered_trunc`), where it is exact (`sub_trunc`).

  Every theorem is about `Api.run` with the literal method name, holds for every 128-bit pattern, every incoming status
  word and every value of the (unused) rounding-mode argument, and says "returns normally" (`some (.ok …)`).  No deviation of
  the code from the model was found.  No `sorry`; axioms: the three standard ones.

  TABLE — all 123 dispatched methods → the theorem(s) stating the method's property about `Api.run` (file.name).
  For ALL 123: C14 / C15 (returns or panics independently of the status word on entry, which is only OR-ed into; histories)
  is `C14GenHistory.api_frame`, `runHistory_frame`, `runHistory_flags`; the methods without a status word also
  `C14GenHistory.api_silent`.  "OPEN" = the numeric result has no theorem about `Api.run` yet (state of SourceLevel.lean
  when this file was written; SourceLevel.lean is being extended by its owner — routine-level theorems that exist and only
  need lifting: C11GenLogb.logb_spec (logb), C08GenRoundIntegral.*_spec (nearbyint, round_to_integral_*),
  C01GenAdd.add_cases_covered (addition / subtraction on its `Covered` region)).

  encode_decimal                             SourceLevel.encode_decimal_spec, encode_decimal_datum, decode_encode_decimal, encode_decode_decimal
  decode_decimal                             SourceLevel.decode_decimal_spec, decode_decimal_datum, decode_encode_decimal, encode_decode_decimal
  abs                                        SourceLevel.abs_negate_spec
  class                                      SourceLevel.predicates_spec, class_consistent
  is_finite                                  SourceLevel.predicates_spec, class_consistent
  is_infinite                                SourceLevel.predicates_spec, class_consistent, noncanonical_treated
  is_nan                                     SourceLevel.predicates_spec, class_consistent
  is_normal                                  SourceLevel.predicates_spec, class_consistent, is_normal_iff
  is_signaling                               SourceLevel.predicates_spec, class_consistent
  is_sign_minus                              SourceLevel.predicates_spec, class_consistent
  is_subnormal                               SourceLevel.predicates_spec, class_consistent
  is_zero                                    SourceLevel.predicates_spec, class_consistent, noncanonical_treated
  negate                                     SourceLevel.abs_negate_spec
  same_quantum                               SourceLevel.same_quantum_spec, same_quantum_finite
  total_order                                SourceLevel.total_order_spec, total_order_refl, total_order_trans, total_order_total, total_order_antisymm, total_order_chain, total_order_cohort, total_order_nans
  total_order_mag                            SourceLevel.total_order_mag_spec
  fdim                                       OPEN (no Api.run theorem)
  fused_multiply_add                         SourceLevel.fma_nan  — NaN operands only: numeric result OPEN
  fmod                                       C10GenFmodRem.api_fmod, fmod_property, invalid_property, yinf_property, far_property, fmod_accepted; SourceLevel.binary_nan
  frexp                                      SourceLevel.frexp_spec
  ldexp                                      SourceLevel.ldexp_spec, frame_scale
  llquantexp                                 SourceLevel.llquantexp_spec
  logb                                       SourceLevel.unary_nan  — NaN operands only: numeric result OPEN
  lrint                                      SourceLevel.c_style_conversions
  llrint                                     SourceLevel.c_style_conversions
  lround                                     SourceLevel.c_style_conversions
  llround                                    SourceLevel.c_style_conversions
  log_b                                      SourceLevel2.log_b_spec, log_b_cases
  max_num                                    SourceLevel.max_num_spec, minmax_numbers, minmax_expected
  max_num_mag                                SourceLevel.max_num_mag_spec, minmax_numbers, minmax_expected
  min_num                                    SourceLevel.min_num_spec, minmax_numbers, minmax_expected
  min_num_mag                                SourceLevel.min_num_mag_spec, minmax_numbers, minmax_expected
  modf                                       SourceLevel2.modf_spec, modf_property, modf_specials, modf_accepted
  nearbyint                                  SourceLevel.unary_nan  — NaN operands only: numeric result OPEN
  next_after                                 SourceLevel.next_after_spec, next_accepted, binary_nan
  next_down                                  SourceLevel.next_down_spec, next_down_next_up, next_accepted, unary_nan
  next_toward                                SourceLevel.next_after_spec, next_accepted, binary_nan
  next_up                                    SourceLevel.next_up_spec, next_up_least, next_up_boundaries, next_down_next_up, next_accepted, unary_nan
  quantexp                                   SourceLevel.quantexp_spec
  quantize                                   SourceLevel.quantize_special, quantize_infinities, quantize_one_infinity, binary_nan  — two finite operands with x ≠ 0: OPEN
  quantum                                    SourceLevel.quantum_spec
  scaleb                                     SourceLevel.scaleb_spec, scaleb_in_range, scaleb_specials, frame_scale
  scalebln                                   SourceLevel.scalebln_spec, frame_scale
  square_root                                SourceLevel.unary_nan  — NaN operands only: numeric result OPEN
  convert_to_i32_ties_to_even                SourceLevel2.convert_to_i32_ties_to_even_spec (+ convert_all, conv_meaning)
  convert_to_i32_exact_ties_to_even          SourceLevel2.convert_to_i32_exact_ties_to_even_spec (+ convert_all, conv_meaning)
  convert_to_i32_toward_negative             SourceLevel2.convert_to_i32_toward_negative_spec (+ convert_all, conv_meaning)
  convert_to_i32_exact_toward_negative       SourceLevel2.convert_to_i32_exact_toward_negative_spec (+ convert_all, conv_meaning)
  convert_to_i32_toward_positive             SourceLevel2.convert_to_i32_toward_positive_spec (+ convert_all, conv_meaning)
  convert_to_i32_exact_toward_positive       SourceLevel2.convert_to_i32_exact_toward_positive_spec (+ convert_all, conv_meaning)
  convert_to_i32_toward_zero                 SourceLevel2.convert_to_i32_toward_zero_spec (+ convert_all, conv_meaning)
  convert_to_i32_exact_toward_zero           SourceLevel2.convert_to_i32_exact_toward_zero_spec (+ convert_all, conv_meaning)
  convert_to_i32_ties_to_away                SourceLevel2.convert_to_i32_ties_to_away_spec (+ convert_all, conv_meaning)
  convert_to_i32_exact_ties_to_away          SourceLevel2.convert_to_i32_exact_ties_to_away_spec (+ convert_all, conv_meaning)
  convert_to_i64_toward_positive             SourceLevel2.convert_to_i64_toward_positive_spec (+ convert_all, conv_meaning)
  convert_to_i64_toward_negative             SourceLevel2.convert_to_i64_toward_negative_spec (+ convert_all, conv_meaning)
  convert_to_i64_toward_zero                 SourceLevel2.convert_to_i64_toward_zero_spec (+ convert_all, conv_meaning)
  convert_to_i64_ties_to_even                SourceLevel2.convert_to_i64_ties_to_even_spec (+ convert_all, conv_meaning)
  convert_to_i64_ties_to_away                SourceLevel2.convert_to_i64_ties_to_away_spec (+ convert_all, conv_meaning); SourceLevel.c_style_conversions
  convert_to_i64_exact_toward_positive       SourceLevel2.convert_to_i64_exact_toward_positive_spec (+ convert_all, conv_meaning); SourceLevel.c_style_conversions
  convert_to_i64_exact_toward_negative       SourceLevel2.convert_to_i64_exact_toward_negative_spec (+ convert_all, conv_meaning); SourceLevel.c_style_conversions
  convert_to_i64_exact_toward_zero           SourceLevel2.convert_to_i64_exact_toward_zero_spec (+ convert_all, conv_meaning); SourceLevel.c_style_conversions
  convert_to_i64_exact_ties_to_even          SourceLevel2.convert_to_i64_exact_ties_to_even_spec (+ convert_all, conv_meaning); SourceLevel.c_style_conversions
  convert_to_i64_exact_ties_to_away          SourceLevel2.convert_to_i64_exact_ties_to_away_spec (+ convert_all, conv_meaning); SourceLevel.c_style_conversions
  convert_to_u32_toward_positive             SourceLevel2.convert_to_u32_toward_positive_spec (+ convert_all, conv_meaning)
  convert_to_u32_toward_negative             SourceLevel2.convert_to_u32_toward_negative_spec (+ convert_all, conv_meaning)
  convert_to_u32_toward_zero                 SourceLevel2.convert_to_u32_toward_zero_spec (+ convert_all, conv_meaning)
  convert_to_u32_ties_to_even                SourceLevel2.convert_to_u32_ties_to_even_spec (+ convert_all, conv_meaning)
  convert_to_u32_ties_to_away                SourceLevel2.convert_to_u32_ties_to_away_spec (+ convert_all, conv_meaning)
  convert_to_u32_exact_toward_positive       SourceLevel2.convert_to_u32_exact_toward_positive_spec (+ convert_all, conv_meaning)
  convert_to_u32_exact_toward_negative       SourceLevel2.convert_to_u32_exact_toward_negative_spec (+ convert_all, conv_meaning)
  convert_to_u32_exact_toward_zero           SourceLevel2.convert_to_u32_exact_toward_zero_spec (+ convert_all, conv_meaning)
  convert_to_u32_exact_ties_to_even          SourceLevel2.convert_to_u32_exact_ties_to_even_spec (+ convert_all, conv_meaning)
  convert_to_u32_exact_ties_to_away          SourceLevel2.convert_to_u32_exact_ties_to_away_spec (+ convert_all, conv_meaning)
  convert_to_u64_toward_positive             SourceLevel2.convert_to_u64_toward_positive_spec (+ convert_all, conv_meaning)
  convert_to_u64_toward_negative             SourceLevel2.convert_to_u64_toward_negative_spec (+ convert_all, conv_meaning)
  convert_to_u64_toward_zero                 SourceLevel2.convert_to_u64_toward_zero_spec (+ convert_all, conv_meaning)
  convert_to_u64_ties_to_even                SourceLevel2.convert_to_u64_ties_to_even_spec (+ convert_all, conv_meaning)
  convert_to_u64_ties_to_away                SourceLevel2.convert_to_u64_ties_to_away_spec (+ convert_all, conv_meaning)
  convert_to_u64_exact_toward_positive       SourceLevel2.convert_to_u64_exact_toward_positive_spec (+ convert_all, conv_meaning)
  convert_to_u64_exact_toward_negative       SourceLevel2.convert_to_u64_exact_toward_negative_spec (+ convert_all, conv_meaning)
  convert_to_u64_exact_toward_zero           SourceLevel2.convert_to_u64_exact_toward_zero_spec (+ convert_all, conv_meaning)
  convert_to_u64_exact_ties_to_even          SourceLevel2.convert_to_u64_exact_ties_to_even_spec (+ convert_all, conv_meaning)
  convert_to_u64_exact_ties_to_away          SourceLevel2.convert_to_u64_exact_ties_to_away_spec (+ convert_all, conv_meaning)
  addition                                   SourceLevel.binary_nan  — NaN operands only: numeric result OPEN
  division                                   SourceLevel.binary_nan  — NaN operands only: numeric result OPEN
  multiplication                             SourceLevel.binary_nan  — NaN operands only: numeric result OPEN
  remainder                                  C10GenFmodRem.api_remainder, remainder_property, invalid_property, yinf_property, far_property, rem_accepted; SourceLevel.binary_nan
  subtraction                                SourceLevel.binary_nan  — NaN operands only: numeric result OPEN
  compare_quiet_equal                        SourceLevel.compare_quiet_equal_spec, compare_exactly_one, compare_by_value, compare_nan_operand
  compare_quiet_greater                      SourceLevel.compare_quiet_greater_spec, compare_exactly_one, compare_by_value, compare_nan_operand
  compare_quiet_unordered                    SourceLevel.compare_quiet_unordered_spec, compare_exactly_one, compare_nan_operand
  compare_quiet_ordered                      SourceLevel.compare_quiet_ordered_spec
  compare_quiet_greater_equal                SourceLevel.compare_quiet_greater_equal_spec, compare_by_value
  compare_quiet_greater_unordered            SourceLevel.compare_quiet_greater_unordered_spec
  compare_quiet_less                         SourceLevel.compare_quiet_less_spec, compare_exactly_one, compare_by_value, compare_nan_operand
  compare_quiet_less_equal                   SourceLevel.compare_quiet_less_equal_spec, compare_by_value
  compare_quiet_less_unordered               SourceLevel.compare_quiet_less_unordered_spec
  compare_quiet_not_equal                    SourceLevel.compare_quiet_not_equal_spec, compare_by_value, compare_nan_operand
  compare_quiet_not_greater                  SourceLevel.compare_quiet_not_greater_spec
  compare_quiet_not_less                     SourceLevel.compare_quiet_not_less_spec
  compare_signaling_greater                  SourceLevel.compare_signaling_greater_spec, compare_by_value
  compare_signaling_greater_equal            SourceLevel.compare_signaling_greater_equal_spec
  compare_signaling_greater_unordered        SourceLevel.compare_signaling_greater_unordered_spec
  compare_signaling_less                     SourceLevel.compare_signaling_less_spec, compare_by_value
  compare_signaling_less_equal               SourceLevel.compare_signaling_less_equal_spec
  compare_signaling_less_unordered           SourceLevel.compare_signaling_less_unordered_spec
  compare_signaling_not_greater              SourceLevel.compare_signaling_not_greater_spec
  compare_signaling_not_less                 SourceLevel.compare_signaling_not_less_spec
  round_to_integral_exact                    SourceLevel.unary_nan  — NaN operands only: numeric result OPEN
  round_to_integral_ties_to_away             SourceLevel.unary_nan  — NaN operands only: numeric result OPEN
  round_to_integral_ties_to_even             SourceLevel.unary_nan  — NaN operands only: numeric result OPEN
  round_to_integral_ties_toward_negative     SourceLevel.unary_nan  — NaN operands only: numeric result OPEN
  round_to_integral_ties_toward_positive     SourceLevel.unary_nan  — NaN operands only: numeric result OPEN
  round_to_integral_ties_toward_zero         SourceLevel.unary_nan  — NaN operands only: numeric result OPEN
  eq                                         SourceLevel.eq_spec, eq_refl, eq_symm, eq_trans, eq_by_value, eq_nan, partial_cmp_agrees, hash_eq_iff_eq
  lt                                         SourceLevel.lt_spec, partial_cmp_agrees, lt_trans
  le                                         SourceLevel.le_spec, le_trans
  gt                                         SourceLevel.gt_spec, partial_cmp_agrees
  ge                                         SourceLevel.ge_spec
  partial_cmp                                SourceLevel.partial_cmp_spec, partial_cmp_agrees, partial_cmp_swap
  ne                                         SourceLevel.ne_spec
  hash                                       SourceLevel.hash_eq_iff_eq

  Still open, explicitly: quantize (two finite operands, x ≠ 0), fdim, fused_multiply_add, logb, nearbyint, square_root, addition, division, multiplication, subtraction, round_to_integral_exact, round_to_integral_ties_to_away, round_to_integral_ties_to_even, round_to_integral_ties_toward_negative, round_to_integral_ties_toward_positive, round_to_integral_ties_toward_zero.
-/
namespace Dec.SourceLevel2
open Dec.Rs Dec.Gen.Code Dec.Gen.Api Dec
open Dec.C06GenFromInt (ofBits bitsOf_ofBits ofBits_bitsOf eq_ofBits)
open Dec.C12GenNaN

/-- the 128-bit pattern of a `d128` value (`w[1]·2^64 + w[0]`); the same function as the `bitsOf` of every `…Gen…` file -/
abbrev bitsOf (x : U128) : Nat := Dec.C06GenFromInt.bitsOf x
/-- the datum a value denotes -/
abbrev dOf (x : U128) : Datum := decode (bitsOf x)

/-! ## 1. The 40 decimal → integer conversions (C06) -/

/-- the model's integer and raised flags for a conversion in direction `mode` (`xf`: the inexact-signalling variant) to
the integer type `ty` -/
abbrev conv (mode : Mode) (xf : Bool) (ty : IntTy) (x : U128) : Int × Flags := toIntD mode xf ty.lo ty.hi ty.indef (dOf x)

/-- what a conversion method returns: normally, the model's integer, the model's flags OR-ed into the status word -/
abbrev convOut (mode : Mode) (xf : Bool) (ty : IntTy) (x : U128) (f : UInt32) : Option (Except String (List AVal × UInt32)) :=
  some (.ok ([.i (conv mode xf ty x).1], f ||| UInt32.ofNat (conv mode xf ty x).2))

theorem lift_i32 (mode : Mode) (xf : Bool) (x : U128) (f : UInt32) :
    some ((Dec.C06GenToInt.specOut mode xf x f).map fun (p : Int32 × UInt32) => (([AVal.i p.1.toInt], p.2) : List AVal × UInt32))
      = convOut mode xf i32Ty x f := by
  unfold Dec.C06GenToInt.specOut convOut
  show some (Except.ok ([AVal.i (Int32.ofInt (conv mode xf i32Ty x).1).toInt], _)) = _
  rw [show (Int32.ofInt (conv mode xf i32Ty x).1).toInt = (conv mode xf i32Ty x).1 from
    Dec.C06GenToInt.specOut_toInt mode xf (dOf x)]
  rfl

theorem lift_i64 (mode : Mode) (xf : Bool) (x : U128) (f : UInt32) :
    some ((Dec.C06GenToInt64.specOut64 mode xf x f).map fun (p : Int64 × UInt32) => (([AVal.i p.1.toInt], p.2) : List AVal × UInt32))
      = convOut mode xf i64Ty x f := by
  unfold Dec.C06GenToInt64.specOut64 convOut
  show some (Except.ok ([AVal.i (Int64.ofInt (conv mode xf i64Ty x).1).toInt], _)) = _
  rw [show (Int64.ofInt (conv mode xf i64Ty x).1).toInt = (conv mode xf i64Ty x).1 from
    Dec.C06GenToInt64.specOut64_toInt mode xf (dOf x)]
  rfl

theorem lift_u32 (mode : Mode) (xf : Bool) (x : U128) (f : UInt32) :
    some ((Dec.C06GenToUInt32.specOutU mode xf x f).map fun (p : UInt32 × UInt32) =>
      (([AVal.i (Int.ofNat p.1.toNat)], p.2) : List AVal × UInt32)) = convOut mode xf u32Ty x f := by
  unfold Dec.C06GenToUInt32.specOutU convOut
  show some (Except.ok ([AVal.i ((UInt32.ofInt (conv mode xf u32Ty x).1).toNat : Int)], _)) = _
  rw [show ((UInt32.ofInt (conv mode xf u32Ty x).1).toNat : Int) = (conv mode xf u32Ty x).1 from
    Dec.C06GenToUInt32.specOutU_toNat mode xf (dOf x)]
  rfl

theorem lift_u64 (mode : Mode) (xf : Bool) (x : U128) (f : UInt32) :
    some ((Dec.C06GenToUInt64.specOut mode xf x f).map fun (p : UInt64 × UInt32) =>
      (([AVal.i (Int.ofNat p.1.toNat)], p.2) : List AVal × UInt32)) = convOut mode xf u64Ty x f := by
  obtain ⟨res, f', h, hv, hf⟩ := Dec.C06GenToUInt64.meets_model mode xf x f _ rfl
  rw [h, hf]
  show some (Except.ok ([AVal.i (res.toNat : Int)], _)) = _
  rw [hv]
  rfl

theorem convert_to_i32_ties_to_even_spec (m : RoundingMode) (f : UInt32) (x : U128) :
    run "convert_to_i32_ties_to_even" m f [.d x] = convOut .rne false i32Ty x f := by
  show some ((bid128_to_int32_rnint x f).map _) = _
  rw [Dec.C06GenToInt.to_int32_rnint_spec]; exact lift_i32 _ _ x f

theorem convert_to_i32_exact_ties_to_even_spec (m : RoundingMode) (f : UInt32) (x : U128) :
    run "convert_to_i32_exact_ties_to_even" m f [.d x] = convOut .rne true i32Ty x f := by
  show some ((bid128_to_int32_xrnint x f).map _) = _
  rw [Dec.C06GenToInt.to_int32_xrnint_spec]; exact lift_i32 _ _ x f

theorem convert_to_i32_toward_negative_spec (m : RoundingMode) (f : UInt32) (x : U128) :
    run "convert_to_i32_toward_negative" m f [.d x] = convOut .rdn false i32Ty x f := by
  show some ((bid128_to_int32_floor x f).map _) = _
  rw [Dec.C06GenToInt.to_int32_floor_spec]; exact lift_i32 _ _ x f

theorem convert_to_i32_exact_toward_negative_spec (m : RoundingMode) (f : UInt32) (x : U128) :
    run "convert_to_i32_exact_toward_negative" m f [.d x] = convOut .rdn true i32Ty x f := by
  show some ((bid128_to_int32_xfloor x f).map _) = _
  rw [Dec.C06GenToInt.to_int32_xfloor_spec]; exact lift_i32 _ _ x f

theorem convert_to_i32_toward_positive_spec (m : RoundingMode) (f : UInt32) (x : U128) :
    run "convert_to_i32_toward_positive" m f [.d x] = convOut .rup false i32Ty x f := by
  show some ((bid128_to_int32_ceil x f).map _) = _
  rw [Dec.C06GenToInt.to_int32_ceil_spec]; exact lift_i32 _ _ x f

theorem convert_to_i32_exact_toward_positive_spec (m : RoundingMode) (f : UInt32) (x : U128) :
    run "convert_to_i32_exact_toward_positive" m f [.d x] = convOut .rup true i32Ty x f := by
  show some ((bid128_to_int32_xceil x f).map _) = _
  rw [Dec.C06GenToInt.to_int32_xceil_spec]; exact lift_i32 _ _ x f

theorem convert_to_i32_toward_zero_spec (m : RoundingMode) (f : UInt32) (x : U128) :
    run "convert_to_i32_toward_zero" m f [.d x] = convOut .rtz false i32Ty x f := by
  show some ((bid128_to_int32_int x f).map _) = _
  rw [Dec.C06GenToInt.to_int32_int_spec]; exact lift_i32 _ _ x f

theorem convert_to_i32_exact_toward_zero_spec (m : RoundingMode) (f : UInt32) (x : U128) :
    run "convert_to_i32_exact_toward_zero" m f [.d x] = convOut .rtz true i32Ty x f := by
  show some ((bid128_to_int32_xint x f).map _) = _
  rw [Dec.C06GenToInt.to_int32_xint_spec]; exact lift_i32 _ _ x f

theorem convert_to_i32_ties_to_away_spec (m : RoundingMode) (f : UInt32) (x : U128) :
    run "convert_to_i32_ties_to_away" m f [.d x] = convOut .rna false i32Ty x f := by
  show some ((bid128_to_int32_rninta x f).map _) = _
  rw [Dec.C06GenToInt.to_int32_rninta_spec]; exact lift_i32 _ _ x f

theorem convert_to_i32_exact_ties_to_away_spec (m : RoundingMode) (f : UInt32) (x : U128) :
    run "convert_to_i32_exact_ties_to_away" m f [.d x] = convOut .rna true i32Ty x f := by
  show some ((bid128_to_int32_xrninta x f).map _) = _
  rw [Dec.C06GenToInt.to_int32_xrninta_spec]; exact lift_i32 _ _ x f

theorem convert_to_i64_toward_positive_spec (m : RoundingMode) (f : UInt32) (x : U128) :
    run "convert_to_i64_toward_positive" m f [.d x] = convOut .rup false i64Ty x f := by
  show some ((bid128_to_int64_ceil x f).map _) = _
  rw [Dec.C06GenToInt64.to_int64_ceil_spec]; exact lift_i64 _ _ x f

theorem convert_to_i64_toward_negative_spec (m : RoundingMode) (f : UInt32) (x : U128) :
    run "convert_to_i64_toward_negative" m f [.d x] = convOut .rdn false i64Ty x f := by
  show some ((bid128_to_int64_floor x f).map _) = _
  rw [Dec.C06GenToInt64.to_int64_floor_spec]; exact lift_i64 _ _ x f

theorem convert_to_i64_toward_zero_spec (m : RoundingMode) (f : UInt32) (x : U128) :
    run "convert_to_i64_toward_zero" m f [.d x] = convOut .rtz false i64Ty x f := by
  show some ((bid128_to_int64_int x f).map _) = _
  rw [Dec.C06GenToInt64.to_int64_int_spec]; exact lift_i64 _ _ x f

theorem convert_to_i64_ties_to_even_spec (m : RoundingMode) (f : UInt32) (x : U128) :
    run "convert_to_i64_ties_to_even" m f [.d x] = convOut .rne false i64Ty x f := by
  show some ((bid128_to_int64_rnint x f).map _) = _
  rw [Dec.C06GenToInt64.to_int64_rnint_spec]; exact lift_i64 _ _ x f

theorem convert_to_i64_ties_to_away_spec (m : RoundingMode) (f : UInt32) (x : U128) :
    run "convert_to_i64_ties_to_away" m f [.d x] = convOut .rna false i64Ty x f := by
  show some ((bid128_to_int64_rninta x f).map _) = _
  rw [Dec.C06GenToInt64.to_int64_rninta_spec]; exact lift_i64 _ _ x f

theorem convert_to_i64_exact_toward_positive_spec (m : RoundingMode) (f : UInt32) (x : U128) :
    run "convert_to_i64_exact_toward_positive" m f [.d x] = convOut .rup true i64Ty x f := by
  show some ((bid128_to_int64_xceil x f).map _) = _
  rw [Dec.C06GenToInt64.to_int64_xceil_spec]; exact lift_i64 _ _ x f

theorem convert_to_i64_exact_toward_negative_spec (m : RoundingMode) (f : UInt32) (x : U128) :
    run "convert_to_i64_exact_toward_negative" m f [.d x] = convOut .rdn true i64Ty x f := by
  show some ((bid128_to_int64_xfloor x f).map _) = _
  rw [Dec.C06GenToInt64.to_int64_xfloor_spec]; exact lift_i64 _ _ x f

theorem convert_to_i64_exact_toward_zero_spec (m : RoundingMode) (f : UInt32) (x : U128) :
    run "convert_to_i64_exact_toward_zero" m f [.d x] = convOut .rtz true i64Ty x f := by
  show some ((bid128_to_int64_xint x f).map _) = _
  rw [Dec.C06GenToInt64.to_int64_xint_spec]; exact lift_i64 _ _ x f

theorem convert_to_i64_exact_ties_to_even_spec (m : RoundingMode) (f : UInt32) (x : U128) :
    run "convert_to_i64_exact_ties_to_even" m f [.d x] = convOut .rne true i64Ty x f := by
  show some ((bid128_to_int64_xrnint x f).map _) = _
  rw [Dec.C06GenToInt64.to_int64_xrnint_spec]; exact lift_i64 _ _ x f

theorem convert_to_i64_exact_ties_to_away_spec (m : RoundingMode) (f : UInt32) (x : U128) :
    run "convert_to_i64_exact_ties_to_away" m f [.d x] = convOut .rna true i64Ty x f := by
  show some ((bid128_to_int64_xrninta x f).map _) = _
  rw [Dec.C06GenToInt64.to_int64_xrninta_spec]; exact lift_i64 _ _ x f

theorem convert_to_u32_toward_positive_spec (m : RoundingMode) (f : UInt32) (x : U128) :
    run "convert_to_u32_toward_positive" m f [.d x] = convOut .rup false u32Ty x f := by
  show some ((bid128_to_uint32_ceil x f).map _) = _
  rw [Dec.C06GenToUInt32.to_uint32_ceil_spec]; exact lift_u32 _ _ x f

theorem convert_to_u32_toward_negative_spec (m : RoundingMode) (f : UInt32) (x : U128) :
    run "convert_to_u32_toward_negative" m f [.d x] = convOut .rdn false u32Ty x f := by
  show some ((bid128_to_uint32_floor x f).map _) = _
  rw [Dec.C06GenToUInt32.to_uint32_floor_spec]; exact lift_u32 _ _ x f

theorem convert_to_u32_toward_zero_spec (m : RoundingMode) (f : UInt32) (x : U128) :
    run "convert_to_u32_toward_zero" m f [.d x] = convOut .rtz false u32Ty x f := by
  show some ((bid128_to_uint32_int x f).map _) = _
  rw [Dec.C06GenToUInt32.to_uint32_int_spec]; exact lift_u32 _ _ x f

theorem convert_to_u32_ties_to_even_spec (m : RoundingMode) (f : UInt32) (x : U128) :
    run "convert_to_u32_ties_to_even" m f [.d x] = convOut .rne false u32Ty x f := by
  show some ((bid128_to_uint32_rnint x f).map _) = _
  rw [Dec.C06GenToUInt32.to_uint32_rnint_spec]; exact lift_u32 _ _ x f

theorem convert_to_u32_ties_to_away_spec (m : RoundingMode) (f : UInt32) (x : U128) :
    run "convert_to_u32_ties_to_away" m f [.d x] = convOut .rna false u32Ty x f := by
  show some ((bid128_to_uint32_rninta x f).map _) = _
  rw [Dec.C06GenToUInt32.to_uint32_rninta_spec]; exact lift_u32 _ _ x f

theorem convert_to_u32_exact_toward_positive_spec (m : RoundingMode) (f : UInt32) (x : U128) :
    run "convert_to_u32_exact_toward_positive" m f [.d x] = convOut .rup true u32Ty x f := by
  show some ((bid128_to_uint32_xceil x f).map _) = _
  rw [Dec.C06GenToUInt32.to_uint32_xceil_spec]; exact lift_u32 _ _ x f

theorem convert_to_u32_exact_toward_negative_spec (m : RoundingMode) (f : UInt32) (x : U128) :
    run "convert_to_u32_exact_toward_negative" m f [.d x] = convOut .rdn true u32Ty x f := by
  show some ((bid128_to_uint32_xfloor x f).map _) = _
  rw [Dec.C06GenToUInt32.to_uint32_xfloor_spec]; exact lift_u32 _ _ x f

theorem convert_to_u32_exact_toward_zero_spec (m : RoundingMode) (f : UInt32) (x : U128) :
    run "convert_to_u32_exact_toward_zero" m f [.d x] = convOut .rtz true u32Ty x f := by
  show some ((bid128_to_uint32_xint x f).map _) = _
  rw [Dec.C06GenToUInt32.to_uint32_xint_spec]; exact lift_u32 _ _ x f

theorem convert_to_u32_exact_ties_to_even_spec (m : RoundingMode) (f : UInt32) (x : U128) :
    run "convert_to_u32_exact_ties_to_even" m f [.d x] = convOut .rne true u32Ty x f := by
  show some ((bid128_to_uint32_xrnint x f).map _) = _
  rw [Dec.C06GenToUInt32.to_uint32_xrnint_spec]; exact lift_u32 _ _ x f

theorem convert_to_u32_exact_ties_to_away_spec (m : RoundingMode) (f : UInt32) (x : U128) :
    run "convert_to_u32_exact_ties_to_away" m f [.d x] = convOut .rna true u32Ty x f := by
  show some ((bid128_to_uint32_xrninta x f).map _) = _
  rw [Dec.C06GenToUInt32.to_uint32_xrninta_spec]; exact lift_u32 _ _ x f

theorem convert_to_u64_toward_positive_spec (m : RoundingMode) (f : UInt32) (x : U128) :
    run "convert_to_u64_toward_positive" m f [.d x] = convOut .rup false u64Ty x f := by
  show some ((bid128_to_uint64_ceil x f).map _) = _
  rw [Dec.C06GenToUInt64.to_uint64_ceil_spec]; exact lift_u64 _ _ x f

theorem convert_to_u64_toward_negative_spec (m : RoundingMode) (f : UInt32) (x : U128) :
    run "convert_to_u64_toward_negative" m f [.d x] = convOut .rdn false u64Ty x f := by
  show some ((bid128_to_uint64_floor x f).map _) = _
  rw [Dec.C06GenToUInt64.to_uint64_floor_spec]; exact lift_u64 _ _ x f

theorem convert_to_u64_toward_zero_spec (m : RoundingMode) (f : UInt32) (x : U128) :
    run "convert_to_u64_toward_zero" m f [.d x] = convOut .rtz false u64Ty x f := by
  show some ((bid128_to_uint64_int x f).map _) = _
  rw [Dec.C06GenToUInt64.to_uint64_int_spec]; exact lift_u64 _ _ x f

theorem convert_to_u64_ties_to_even_spec (m : RoundingMode) (f : UInt32) (x : U128) :
    run "convert_to_u64_ties_to_even" m f [.d x] = convOut .rne false u64Ty x f := by
  show some ((bid128_to_uint64_rnint x f).map _) = _
  rw [Dec.C06GenToUInt64.to_uint64_rnint_spec]; exact lift_u64 _ _ x f

theorem convert_to_u64_ties_to_away_spec (m : RoundingMode) (f : UInt32) (x : U128) :
    run "convert_to_u64_ties_to_away" m f [.d x] = convOut .rna false u64Ty x f := by
  show some ((bid128_to_uint64_rninta x f).map _) = _
  rw [Dec.C06GenToUInt64.to_uint64_rninta_spec]; exact lift_u64 _ _ x f

theorem convert_to_u64_exact_toward_positive_spec (m : RoundingMode) (f : UInt32) (x : U128) :
    run "convert_to_u64_exact_toward_positive" m f [.d x] = convOut .rup true u64Ty x f := by
  show some ((bid128_to_uint64_xceil x f).map _) = _
  rw [Dec.C06GenToUInt64.to_uint64_xceil_spec]; exact lift_u64 _ _ x f

theorem convert_to_u64_exact_toward_negative_spec (m : RoundingMode) (f : UInt32) (x : U128) :
    run "convert_to_u64_exact_toward_negative" m f [.d x] = convOut .rdn true u64Ty x f := by
  show some ((bid128_to_uint64_xfloor x f).map _) = _
  rw [Dec.C06GenToUInt64.to_uint64_xfloor_spec]; exact lift_u64 _ _ x f

theorem convert_to_u64_exact_toward_zero_spec (m : RoundingMode) (f : UInt32) (x : U128) :
    run "convert_to_u64_exact_toward_zero" m f [.d x] = convOut .rtz true u64Ty x f := by
  show some ((bid128_to_uint64_xint x f).map _) = _
  rw [Dec.C06GenToUInt64.to_uint64_xint_spec]; exact lift_u64 _ _ x f

theorem convert_to_u64_exact_ties_to_even_spec (m : RoundingMode) (f : UInt32) (x : U128) :
    run "convert_to_u64_exact_ties_to_even" m f [.d x] = convOut .rne true u64Ty x f := by
  show some ((bid128_to_uint64_xrnint x f).map _) = _
  rw [Dec.C06GenToUInt64.to_uint64_xrnint_spec]; exact lift_u64 _ _ x f

theorem convert_to_u64_exact_ties_to_away_spec (m : RoundingMode) (f : UInt32) (x : U128) :
    run "convert_to_u64_exact_ties_to_away" m f [.d x] = convOut .rna true u64Ty x f := by
  show some ((bid128_to_uint64_xrninta x f).map _) = _
  rw [Dec.C06GenToUInt64.to_uint64_xrninta_spec]; exact lift_u64 _ _ x f

/-- the 40 conversion methods: name, direction, inexact-signalling variant?, target type -/
def convMethods : List (String × Mode × Bool × IntTy) :=
  [("convert_to_i32_ties_to_even", .rne, false, i32Ty),
   ("convert_to_i32_exact_ties_to_even", .rne, true, i32Ty),
   ("convert_to_i32_toward_negative", .rdn, false, i32Ty),
   ("convert_to_i32_exact_toward_negative", .rdn, true, i32Ty),
   ("convert_to_i32_toward_positive", .rup, false, i32Ty),
   ("convert_to_i32_exact_toward_positive", .rup, true, i32Ty),
   ("convert_to_i32_toward_zero", .rtz, false, i32Ty),
   ("convert_to_i32_exact_toward_zero", .rtz, true, i32Ty),
   ("convert_to_i32_ties_to_away", .rna, false, i32Ty),
   ("convert_to_i32_exact_ties_to_away", .rna, true, i32Ty),
   ("convert_to_i64_toward_positive", .rup, false, i64Ty),
   ("convert_to_i64_toward_negative", .rdn, false, i64Ty),
   ("convert_to_i64_toward_zero", .rtz, false, i64Ty),
   ("convert_to_i64_ties_to_even", .rne, false, i64Ty),
   ("convert_to_i64_ties_to_away", .rna, false, i64Ty),
   ("convert_to_i64_exact_toward_positive", .rup, true, i64Ty),
   ("convert_to_i64_exact_toward_negative", .rdn, true, i64Ty),
   ("convert_to_i64_exact_toward_zero", .rtz, true, i64Ty),
   ("convert_to_i64_exact_ties_to_even", .rne, true, i64Ty),
   ("convert_to_i64_exact_ties_to_away", .rna, true, i64Ty),
   ("convert_to_u32_toward_positive", .rup, false, u32Ty),
   ("convert_to_u32_toward_negative", .rdn, false, u32Ty),
   ("convert_to_u32_toward_zero", .rtz, false, u32Ty),
   ("convert_to_u32_ties_to_even", .rne, false, u32Ty),
   ("convert_to_u32_ties_to_away", .rna, false, u32Ty),
   ("convert_to_u32_exact_toward_positive", .rup, true, u32Ty),
   ("convert_to_u32_exact_toward_negative", .rdn, true, u32Ty),
   ("convert_to_u32_exact_toward_zero", .rtz, true, u32Ty),
   ("convert_to_u32_exact_ties_to_even", .rne, true, u32Ty),
   ("convert_to_u32_exact_ties_to_away", .rna, true, u32Ty),
   ("convert_to_u64_toward_positive", .rup, false, u64Ty),
   ("convert_to_u64_toward_negative", .rdn, false, u64Ty),
   ("convert_to_u64_toward_zero", .rtz, false, u64Ty),
   ("convert_to_u64_ties_to_even", .rne, false, u64Ty),
   ("convert_to_u64_ties_to_away", .rna, false, u64Ty),
   ("convert_to_u64_exact_toward_positive", .rup, true, u64Ty),
   ("convert_to_u64_exact_toward_negative", .rdn, true, u64Ty),
   ("convert_to_u64_exact_toward_zero", .rtz, true, u64Ty),
   ("convert_to_u64_exact_ties_to_even", .rne, true, u64Ty),
   ("convert_to_u64_exact_ties_to_away", .rna, true, u64Ty)]

/-- **C06, all 40 decimal → integer methods at once**: each returns normally, on every pattern and every status word (the
rounding-mode argument of the dispatch is not used), the integer the model `toIntD` computes for the direction and the
type in the method's NAME, and ORs exactly the model's flags into the status word -/
theorem convert_all (e : String × Mode × Bool × IntTy) (he : e ∈ convMethods) (m : RoundingMode) (f : UInt32) (x : U128) :
    run e.1 m f [.d x] = convOut e.2.1 e.2.2.1 e.2.2.2 x f := by
  simp only [convMethods, List.mem_cons, List.not_mem_nil, or_false] at he
  rcases he with rfl | rfl | rfl | rfl | rfl | rfl | rfl | rfl | rfl | rfl | rfl | rfl | rfl | rfl | rfl | rfl | rfl | rfl | rfl | rfl | rfl | rfl | rfl | rfl | rfl | rfl | rfl | rfl | rfl | rfl | rfl | rfl | rfl | rfl | rfl | rfl | rfl | rfl | rfl | rfl
  · exact convert_to_i32_ties_to_even_spec m f x
  · exact convert_to_i32_exact_ties_to_even_spec m f x
  · exact convert_to_i32_toward_negative_spec m f x
  · exact convert_to_i32_exact_toward_negative_spec m f x
  · exact convert_to_i32_toward_positive_spec m f x
  · exact convert_to_i32_exact_toward_positive_spec m f x
  · exact convert_to_i32_toward_zero_spec m f x
  · exact convert_to_i32_exact_toward_zero_spec m f x
  · exact convert_to_i32_ties_to_away_spec m f x
  · exact convert_to_i32_exact_ties_to_away_spec m f x
  · exact convert_to_i64_toward_positive_spec m f x
  · exact convert_to_i64_toward_negative_spec m f x
  · exact convert_to_i64_toward_zero_spec m f x
  · exact convert_to_i64_ties_to_even_spec m f x
  · exact convert_to_i64_ties_to_away_spec m f x
  · exact convert_to_i64_exact_toward_positive_spec m f x
  · exact convert_to_i64_exact_toward_negative_spec m f x
  · exact convert_to_i64_exact_toward_zero_spec m f x
  · exact convert_to_i64_exact_ties_to_even_spec m f x
  · exact convert_to_i64_exact_ties_to_away_spec m f x
  · exact convert_to_u32_toward_positive_spec m f x
  · exact convert_to_u32_toward_negative_spec m f x
  · exact convert_to_u32_toward_zero_spec m f x
  · exact convert_to_u32_ties_to_even_spec m f x
  · exact convert_to_u32_ties_to_away_spec m f x
  · exact convert_to_u32_exact_toward_positive_spec m f x
  · exact convert_to_u32_exact_toward_negative_spec m f x
  · exact convert_to_u32_exact_toward_zero_spec m f x
  · exact convert_to_u32_exact_ties_to_even_spec m f x
  · exact convert_to_u32_exact_ties_to_away_spec m f x
  · exact convert_to_u64_toward_positive_spec m f x
  · exact convert_to_u64_toward_negative_spec m f x
  · exact convert_to_u64_toward_zero_spec m f x
  · exact convert_to_u64_ties_to_even_spec m f x
  · exact convert_to_u64_ties_to_away_spec m f x
  · exact convert_to_u64_exact_toward_positive_spec m f x
  · exact convert_to_u64_exact_toward_negative_spec m f x
  · exact convert_to_u64_exact_toward_zero_spec m f x
  · exact convert_to_u64_exact_ties_to_even_spec m f x
  · exact convert_to_u64_exact_ties_to_away_spec m f x

/-- **what `conv` is** — the sentences of C06: "returns exactly the integer obtained by rounding the operand's exact value in
the named direction whenever that integer fits the target type, raising inexact only in the inexact-signalling variants and
only when the operand was not an integer.  When the rounded value does not fit, or the operand is NaN or infinite, only
invalid is raised and the indefinite value (sign bit only) is returned."  `roundToInt mode s c e` is the rounded integer and
whether `±c·10^e` is an integer already (`C06.roundToInt_spec`); the indefinite values are `−2^31`, `2^31`, `−2^63`, `2^63`
(`C06.indefinite_values`). -/
theorem conv_meaning (mode : Mode) (xf : Bool) (ty : IntTy) (x : U128) :
    (∀ s c e, dOf x = .fin s c e →
      (ty.lo ≤ (roundToInt mode s c e).1 ∧ (roundToInt mode s c e).1 ≤ ty.hi →
        conv mode xf ty x = ((roundToInt mode s c e).1, if xf && !(roundToInt mode s c e).2 then fInexact else 0)) ∧
      (¬ (ty.lo ≤ (roundToInt mode s c e).1 ∧ (roundToInt mode s c e).1 ≤ ty.hi) →
        conv mode xf ty x = (ty.indef, fInvalid))) ∧
    ((dOf x).isFin = false → conv mode xf ty x = (ty.indef, fInvalid)) := by
  constructor
  · intro s c e hd
    unfold conv
    rw [hd]
    exact ⟨Dec.C06.toInt_in_range mode xf s _ _ _ c e, Dec.C06.toInt_out_of_range mode xf s _ _ _ c e⟩
  · intro h
    unfold conv
    cases hd : dOf x with
    | fin s c e => rw [hd] at h; exact Bool.noConfusion h
    | inf s => exact (Dec.C06.toInt_special mode xf s false _ _ _ 0).1
    | nan s g p => exact (Dec.C06.toInt_special mode xf s g _ _ _ p).2

/-- the "was an integer" indicator: exponent ≥ 0, or the digits below the units are all 0 -/
theorem exact_iff (mode : Mode) (s : Bool) (c : Nat) (e : Int) :
    (roundToInt mode s c e).2 = true ↔ (0 ≤ e ∨ c % 10 ^ (-e).toNat = 0) := by
  obtain ⟨h1, h2⟩ := Dec.C06.roundToInt_spec mode s c e
  by_cases he : 0 ≤ e
  · rw [h1 he]; simp [he]
  · rw [h2 (by omega)]; simp [he]

/-- the flag words: `invalid` = 0x01, `inexact` = 0x20 -/
theorem flag_words (f : UInt32) : f ||| UInt32.ofNat fInvalid = f ||| 1 ∧ f ||| UInt32.ofNat fInexact = f ||| 0x20 ∧
    f ||| UInt32.ofNat 0 = f := ⟨rfl, rfl, UInt32.or_zero⟩

-- 2.5 to i32: ties-to-even 2, no flag; the inexact-signalling variant raises inexact; −2.5 ties-to-away −3
example : run "convert_to_i32_ties_to_even" .NearestEven 0 [.d ⟨25, 0x303e000000000000⟩] = some (.ok ([.i 2], 0)) := by
  decide +kernel
example : run "convert_to_i32_exact_ties_to_even" .NearestEven 0 [.d ⟨25, 0x303e000000000000⟩] = some (.ok ([.i 2], 0x20)) := by
  decide +kernel
example : run "convert_to_i32_ties_to_away" .NearestEven 0 [.d ⟨25, 0xb03e000000000000⟩] = some (.ok ([.i (-3)], 0)) := by
  decide +kernel
-- −2147483648.9 to i32: downward −2147483649 does not fit: MIN with invalid; upward −2147483648 fits: MIN, no flag
example : run "convert_to_i32_toward_negative" .NearestEven 0 [.d ⟨21474836489, 0xb03e000000000000⟩]
    = some (.ok ([.i (-2147483648)], 1)) := by decide +kernel
example : run "convert_to_i32_toward_positive" .NearestEven 0 [.d ⟨21474836489, 0xb03e000000000000⟩]
    = some (.ok ([.i (-2147483648)], 0)) := by decide +kernel
-- −0.3 to u32: downward −1 does not fit: the indefinite value 2^31 with invalid; upward −0 = 0
example : run "convert_to_u32_toward_negative" .NearestEven 0 [.d ⟨3, 0xb03e000000000000⟩]
    = some (.ok ([.i 2147483648], 1)) := by decide +kernel
example : run "convert_to_u32_toward_positive" .NearestEven 0 [.d ⟨3, 0xb03e000000000000⟩] = some (.ok ([.i 0], 0)) := by
  decide +kernel
-- 9223372036854775807.5 to i64, ties-to-even: the even neighbour is 2^63: invalid (status word 8 on entry: 9 on return)
example : run "convert_to_i64_ties_to_even" .NearestEven 8 [.d ⟨0xfffffffffffffffb, 0x303e000000000004⟩]
    = some (.ok ([.i (-9223372036854775808)], 9)) := by decide +kernel
-- 18446744073709551615.5 to u64 toward zero: 2^64 − 1; the exact variant adds inexact; −0.5 ties-to-away: −1, invalid
example : run "convert_to_u64_toward_zero" .NearestEven 0 [.d ⟨0xfffffffffffffffb, 0x303e000000000009⟩]
    = some (.ok ([.i 18446744073709551615], 0)) := by decide +kernel
example : run "convert_to_u64_exact_toward_zero" .NearestEven 0 [.d ⟨0xfffffffffffffffb, 0x303e000000000009⟩]
    = some (.ok ([.i 18446744073709551615], 0x20)) := by decide +kernel
example : run "convert_to_u64_ties_to_away" .NearestEven 0 [.d ⟨5, 0xb03e000000000000⟩]
    = some (.ok ([.i 9223372036854775808], 1)) := by decide +kernel
-- a NaN (status word 0x20 on entry), an infinity: the indefinite value, invalid only
example : run "convert_to_i32_exact_toward_positive" .NearestEven 0x20 [.d ⟨7, 0x7c00000000000000⟩]
    = some (.ok ([.i (-2147483648)], 0x21)) := by decide +kernel
example : run "convert_to_i32_toward_zero" .NearestEven 0 [.d ⟨0, 0xf800000000000000⟩]
    = some (.ok ([.i (-2147483648)], 1)) := by decide +kernel
-- … and through the theorems: the model's value for 2.5 ↦ i32, ties to even, inexact-signalling
example : conv .rne true i32Ty ⟨25, 0x303e000000000000⟩ = (2, fInexact) := by decide +kernel
example (m : RoundingMode) (f : UInt32) : run "convert_to_i32_exact_ties_to_even" m f [.d ⟨25, 0x303e000000000000⟩]
    = some (.ok ([.i 2], f ||| 0x20)) := by
  rw [convert_to_i32_exact_ties_to_even_spec]
  show some (Except.ok ([AVal.i (conv .rne true i32Ty ⟨25, 0x303e000000000000⟩).1],
    f ||| UInt32.ofNat (conv .rne true i32Ty ⟨25, 0x303e000000000000⟩).2)) = _
  rw [show conv .rne true i32Ty ⟨25, 0x303e000000000000⟩ = (2, fInexact) from by decide +kernel]
  rfl
example (m : RoundingMode) (f : UInt32) (x : U128) :
    run "convert_to_u64_exact_ties_to_away" m f [.d x] = convOut .rna true u64Ty x f :=
  convert_all ("convert_to_u64_exact_ties_to_away", .rna, true, u64Ty) (by simp [convMethods]) m f x


/-! ## 2. `log_b` (C11) -/

theorem ilogb_range (x : U128) : -2147483648 ≤ (ilogbD (dOf x)).1 ∧ (ilogbD (dOf x)).1 ≤ 2147483647 := by
  have wf := decode_WF (bitsOf x)
  cases hd : dOf x with
  | inf s => show (-2147483648 : Int) ≤ 2147483647 ∧ (2147483647 : Int) ≤ 2147483647; omega
  | nan s g p => show (-2147483648 : Int) ≤ -2147483648 ∧ (-2147483648 : Int) ≤ 2147483647; omega
  | fin s c e =>
    rw [show decode (bitsOf x) = dOf x from rfl, hd] at wf
    obtain ⟨hc, h1, h2⟩ := wf
    unfold P34 at hc; unfold eMin at h1; unfold eMax at h2
    show -2147483648 ≤ (if c = 0 then ((-2147483648 : Int), fInvalid) else (adjExp c e, 0)).1 ∧
      (if c = 0 then ((-2147483648 : Int), fInvalid) else (adjExp c e, 0)).1 ≤ 2147483647
    by_cases h0 : c = 0
    · rw [if_pos h0]; show (-2147483648 : Int) ≤ -2147483648 ∧ (-2147483648 : Int) ≤ 2147483647; omega
    · rw [if_neg h0]
      show -2147483648 ≤ adjExp c e ∧ adjExp c e ≤ 2147483647
      have hp : 0 < c := Nat.pos_of_ne_zero h0
      have := (ndigits_le_iff (k := 34) hp).2 hc
      have := ndigits_pos hp
      unfold adjExp
      constructor <;> omega

/-- C11: "log_b return[s] the adjusted exponent (digits + exponent − 1) of any finite nonzero x exactly, with the standard's
zero/infinity/NaN results and flags": on every pattern and status word the method returns normally `ilogbD`'s integer, and
ORs `ilogbD`'s flags into the status word -/
theorem log_b_spec (m : RoundingMode) (f : UInt32) (x : U128) :
    run "log_b" m f [.d x] = some (.ok ([.i (ilogbD (dOf x)).1], f ||| UInt32.ofNat (ilogbD (dOf x)).2)) := by
  show some ((bid128_ilogb x f).map _) = _
  rw [Dec.C11GenLogb.ilogb_spec]
  obtain ⟨h0, h1⟩ := ilogb_range x
  show some (Except.ok ([AVal.i (Int32.ofInt (ilogbD (dOf x)).1).toInt], _)) = _
  rw [Int32.toInt_ofInt_of_le (by omega) (by omega)]
  rfl

/-- … spelled out: a finite non-zero `±c·10^e` gives `ndigits c + e − 1` and no flag; a zero `i32::MIN`, an infinity
`i32::MAX`, a NaN `i32::MIN`, each with invalid (0x01) and nothing else -/
theorem log_b_cases (m : RoundingMode) (f : UInt32) (x : U128) :
    (∀ s c e, dOf x = .fin s c e → c ≠ 0 → run "log_b" m f [.d x] = some (.ok ([.i ((ndigits c : Int) + e - 1)], f))) ∧
    (∀ s e, dOf x = .fin s 0 e → run "log_b" m f [.d x] = some (.ok ([.i (-2147483648)], f ||| 1))) ∧
    (∀ s, dOf x = .inf s → run "log_b" m f [.d x] = some (.ok ([.i 2147483647], f ||| 1))) ∧
    (∀ s g p, dOf x = .nan s g p → run "log_b" m f [.d x] = some (.ok ([.i (-2147483648)], f ||| 1))) := by
  refine ⟨?_, ?_, ?_, ?_⟩
  · intro s c e hd hc
    rw [log_b_spec, hd]
    simp only [ilogbD, hc, if_false, adjExp]
    exact congrArg (fun g => some (Except.ok ([AVal.i _], g))) UInt32.or_zero
  · intro s e hd; rw [log_b_spec, hd]; rfl
  · intro s hd; rw [log_b_spec, hd]; rfl
  · intro s g p hd; rw [log_b_spec, hd]; rfl


-- 12345·10^0: 4 (status word 2 untouched); 12345·10^−6176: −6172; a zero: i32::MIN, invalid; −Inf: i32::MAX, invalid
example : run "log_b" .NearestEven 2 [.d ⟨12345, 0x3040000000000000⟩] = some (.ok ([.i 4], 2)) := by decide +kernel
example : run "log_b" .NearestEven 2 [.d ⟨12345, 0⟩] = some (.ok ([.i (-6172)], 2)) := by decide +kernel
example : run "log_b" .NearestEven 2 [.d ⟨0, 0x3040000000000000⟩] = some (.ok ([.i (-2147483648)], 3)) := by decide +kernel
example : run "log_b" .NearestEven 2 [.d ⟨0, 0xf800000000000000⟩] = some (.ok ([.i 2147483647], 3)) := by decide +kernel
example (m : RoundingMode) (f : UInt32) : run "log_b" m f [.d ⟨12345, 0x3040000000000000⟩] = some (.ok ([.i 4], f)) := by
  rw [(log_b_cases m f ⟨12345, 0x3040000000000000⟩).1 false 12345 0 (by decide +kernel) (by decide)]
  rfl


/-! ## 3. `modf` (C08) -/

/-- the encoding without the sign bit -/
def body : Datum → Nat
  | .fin _ c e => (e + 6176).toNat * 2^113 + c
  | .inf _ => 0x78 * 2^120
  | .nan _ sig p => 0x7c * 2^120 + (if sig then 2^121 else 0) + p

theorem encode_setSign (d : Datum) (s : Bool) : encode (d.setSign s) = signBit s + body d := by
  cases d <;> simp only [Datum.setSign, encode, body, Nat.add_assoc]

theorem encode_body (d : Datum) : encode d = signBit d.neg + body d := by
  cases d <;> simp only [Datum.neg, encode, body, Nat.add_assoc]

theorem body_lt {d : Datum} (h : d.WF) : body d < 2^127 := by
  have := encode_lt h
  rw [encode_body] at this
  have h2 := encode_lt (d := d.setSign true) (by cases d <;> exact h)
  rw [encode_setSign] at h2
  simp only [signBit, if_true] at h2
  omega

/-- flipping bit 127 of a canonical pattern negates the datum -/
theorem encode_flip {d : Datum} (h : d.WF) : (encode d + 2^127) % 2^128 = encode d.negate := by
  have hb := body_lt h
  unfold Datum.negate
  rw [encode_body d, encode_setSign]
  cases d.neg <;> simp only [signBit, Bool.not_false, Bool.not_true, if_true, if_false, Bool.false_eq_true] <;> omega

theorem negate_WF {d : Datum} (h : d.WF) : d.negate.WF := by cases d <;> exact h
theorem setSign_WF {d : Datum} (h : d.WF) (s : Bool) : (d.setSign s).WF := by cases d <;> exact h

theorem or_63 (a : Nat) (ha : a < 2^64) : a ||| 2^63 = a % 2^63 + 2^63 := by
  rcases Nat.lt_or_ge a (2^63) with h | h
  · have := Dec.C06GenFromInt.or_disjoint 1 a 63 h
    rw [Nat.one_mul] at this
    rw [Nat.mod_eq_of_lt h, Nat.or_comm, this, Nat.add_comm]
  · have hl : a - 2^63 < 2^63 := by omega
    have hd := Dec.C06GenFromInt.or_disjoint 1 (a - 2^63) 63 hl
    rw [Nat.one_mul] at hd
    have e : a = 2^63 ||| (a - 2^63) := by rw [hd]; omega
    have hm : a % 2^63 = a - 2^63 := by omega
    rw [hm]
    conv_lhs => rw [e, Nat.or_comm, ← Nat.or_assoc, Nat.or_self]
    rw [hd]; omega

theorem set63_a (W0 W1 B : Nat) (h0 : W0 < 2^64) (_h1 : W1 < 2^64) (hb : B < 2^127) (hr : W1 * 2^64 + W0 = B) :
    (W1 % 2^63 + 2^63) * 2^64 + W0 = 2^127 + B := by
  have e : (2:Nat)^127 = 2^63 * 2^64 := by decide
  rw [e] at hb ⊢
  generalize (2:Nat)^64 = P at *
  have : W1 < 2^63 := by
    rcases Nat.lt_or_ge W1 (2^63) with h | h
    · exact h
    · exfalso
      have : 2^63 * P ≤ W1 * P := Nat.mul_le_mul_right P h
      omega
  rw [Nat.mod_eq_of_lt this, Nat.add_mul]
  omega

theorem set63_b (W0 W1 B : Nat) (h0 : W0 < 2^64) (h1 : W1 < 2^64) (hb : B < 2^127) (hr : W1 * 2^64 + W0 = 2^127 + B) :
    (W1 % 2^63 + 2^63) * 2^64 + W0 = 2^127 + B := by
  have e : (2:Nat)^127 = 2^63 * 2^64 := by decide
  have e2 : (2:Nat)^64 = 2 * 2^63 := by decide
  rw [e] at hb hr ⊢
  rw [← hr]
  have hge : 2^63 ≤ W1 := by
    rcases Nat.lt_or_ge W1 (2^63) with h | h
    · exfalso
      have : (W1 + 1) * 2^64 ≤ 2^63 * 2^64 := Nat.mul_le_mul_right _ h
      rw [Nat.add_mul] at this
      omega
    · exact h
  have : W1 % 2^63 + 2^63 = W1 := by omega
  rw [this]

/-- `res.w[1] |= x.w[1] & SIGN` on a canonical result: the datum gets the sign `−` if `x` is negative, else stays -/
theorem or_sign {d : Datum} (h : d.WF) (x : U128) :
    (⟨(ofBits (encode d)).w0, (ofBits (encode d)).w1 ||| (x.w1 &&& (0x8000000000000000 : UInt64))⟩ : U128)
      = ofBits (encode (if (dOf x).neg then d.setSign true else d)) := by
  have hsw := Dec.C06GenFromInt.sign_word x
  have hlt := encode_lt h
  cases hn : (dOf x).neg
  · rw [show (decode (Dec.C06GenFromInt.bitsOf x)).neg = false from hn] at hsw
    have : x.w1 &&& (0x8000000000000000 : UInt64) = 0 := by rw [← UInt64.toNat_inj]; exact hsw
    rw [this, UInt64.or_zero]; rfl
  · rw [show (decode (Dec.C06GenFromInt.bitsOf x)).neg = true from hn] at hsw
    have : x.w1 &&& (0x8000000000000000 : UInt64) = 0x8000000000000000 := by rw [← UInt64.toNat_inj]; exact hsw
    rw [this]
    simp only [if_true]
    apply eq_ofBits
    have hb := body_lt h
    have hr := bitsOf_ofBits hlt
    have h0 := (ofBits (encode d)).w0.toNat_lt
    have h1 := (ofBits (encode d)).w1.toNat_lt
    unfold Dec.C06GenFromInt.bitsOf at hr ⊢
    simp only [UInt64.toNat_or]
    rw [show (0x8000000000000000 : UInt64).toNat = 2^63 from rfl, or_63 _ (UInt64.toNat_lt _), encode_setSign]
    generalize (ofBits (encode d)).w0.toNat = W0 at *
    generalize (ofBits (encode d)).w1.toNat = W1 at *
    rw [encode_body] at hr
    generalize body d = B at *
    have hs : signBit true = 2^127 := rfl
    rw [hs]
    cases hdn : d.neg
    · have : signBit false = 0 := rfl
      rw [hdn, this, Nat.zero_add] at hr
      exact set63_a W0 W1 B h0 h1 hb hr
    · rw [hdn, hs] at hr
      exact set63_b W0 W1 B h0 h1 hb hr


/-- the integral part (toward zero) of a finite datum -/
abbrev truncD (s : Bool) (c : Nat) (e : Int) : Datum := (toIntegralD .rtz (.fin s c e)).1

theorem truncD_nonneg (s : Bool) (c : Nat) (e : Int) (h : 0 ≤ e) : truncD s c e = .fin s c e := by
  unfold truncD; rw [Dec.C08.integral_unchanged .rtz s c e h]

theorem truncD_neg (s : Bool) (c : Nat) (e : Int) (h : e < 0) : truncD s c e = .fin s (c / 10 ^ (-e).toNat) 0 := by
  unfold truncD; rw [Dec.C08.integral_rounded .rtz s c e h]
  have hq : roundInt .rtz s (c / 10 ^ (-e).toNat) (c % 10 ^ (-e).toNat) (10 ^ (-e).toNat) = c / 10 ^ (-e).toNat := by
    simp [roundInt, roundUp]
  rw [hq]

theorem truncD_WF {s : Bool} {c : Nat} {e : Int} (h : (Datum.fin s c e).WF) : (truncD s c e).WF := by
  obtain ⟨hc, h1, h2⟩ := h
  by_cases he : 0 ≤ e
  · rw [truncD_nonneg s c e he]; exact ⟨hc, h1, h2⟩
  · rw [truncD_neg s c e (by omega)]
    refine ⟨Nat.lt_of_le_of_lt (Nat.div_le_self _ _) hc, by unfold eMin; omega, by unfold eMax; omega⟩

/-- the model's exact subtraction `x − trunc x` in ties-to-even, computed: no flag; for a non-negative exponent `+0` at the
(clamped) exponent, else `(c mod 10^(−e))·10^e` with the sign of x — a zero fraction is `+0` at the clamped exponent -/
theorem sub_trunc (s : Bool) (c : Nat) (e : Int) (h : (Datum.fin s c e).WF) :
    subD .rne (.fin s c e) (truncD s c e) =
      (if 0 ≤ e then .fin false 0 (clampInt eMin eMax e)
       else if c % 10 ^ (-e).toNat = 0 then .fin false 0 (clampInt eMin eMax e)
       else .fin s (c % 10 ^ (-e).toNat) e, 0) := by
  obtain ⟨hc, he1, he2⟩ := h
  by_cases he : 0 ≤ e
  · rw [truncD_nonneg s c e he, if_pos he]
    have hS : sInt s (c * 10 ^ (e - e).toNat) + sInt (!s) (c * 10 ^ (e - e).toNat) = 0 := by
      unfold sInt; cases s <;> simp
    have hz : zeroSumSign .rne s (!s) = false := by cases s <;> rfl
    simp only [subD, Datum.negate, Datum.neg, Datum.setSign, addD, addFin, le_refl, if_true, hS, zeroAt, hz]
  · have h' : e < 0 := by omega
    rw [truncD_neg s c e h', if_neg he]
    have hm : (if e ≤ 0 then e else 0) = e := by simp [h'.le]
    have e1 : (e - e).toNat = 0 := by omega
    have e2 : ((0 : Int) - e).toNat = (-e).toNat := by omega
    have hz : zeroSumSign .rne s (!s) = false := by cases s <;> rfl
    simp only [subD, Datum.negate, Datum.neg, Datum.setSign, addD, addFin, hm, e1, e2, Dec.C08Q.sub_trunc_int]
    by_cases hr : c % 10 ^ (-e).toNat = 0
    · simp [hr, sInt, zeroAt, hz]
    · have hS := Dec.C08Q.sInt_ne_zero s _ hr
      have hneg := Dec.C08Q.sInt_neg_iff s _ hr
      have habs := Dec.C08Q.sInt_natAbs' s (c % 10 ^ (-e).toNat)
      have hlt : c % 10 ^ (-e).toNat < P34 := Nat.lt_of_le_of_lt (Nat.mod_le _ _) hc
      simp only [hS, if_false, hneg, habs, hr]
      rw [finish_representable .rne s _ e hr hlt he1 he2]

/-- the pair `x`, `−trunc x` is in the proved region of `bid128_add` -/
theorem covered_trunc (s : Bool) (c : Nat) (e : Int) (h : (Datum.fin s c e).WF) :
    Dec.C01GenAdd.Covered (.fin s c e) (truncD s c e).negate := by
  obtain ⟨hc, he1, he2⟩ := h
  unfold P34 at hc
  by_cases h0 : c = 0
  · by_cases he : 0 ≤ e
    · rw [truncD_nonneg s c e he]; exact Or.inl h0
    · rw [truncD_neg s c e (by omega)]; exact Or.inl h0
  have hp : 0 < c := Nat.pos_of_ne_zero h0
  have hd := (ndigits_le_iff (k := 34) hp).2 hc
  by_cases he : 0 ≤ e
  · rw [truncD_nonneg s c e he]
    refine Or.inr (Or.inr (Or.inl ?_))
    show Dec.C01GenAdd.AlignedCond c e c e
    unfold Dec.C01GenAdd.AlignedCond
    rw [if_pos (le_refl e)]; omega
  · have h' : e < 0 := by omega
    rw [truncD_neg s c e h']
    by_cases hq : c / 10 ^ (-e).toNat = 0
    · exact Or.inr (Or.inl hq)
    · refine Or.inr (Or.inr (Or.inl ?_))
      show Dec.C01GenAdd.AlignedCond c e (c / 10 ^ (-e).toNat) 0
      unfold Dec.C01GenAdd.AlignedCond
      rw [if_neg (by omega)]
      have hqp : 0 < c / 10 ^ (-e).toNat := Nat.pos_of_ne_zero hq
      have hD : 0 < 10 ^ (-e).toNat := Nat.pow_pos (by decide)
      have hle : 10 ^ (-e).toNat ≤ c := by
        rcases Nat.lt_or_ge c (10 ^ (-e).toNat) with hlt | hge
        · exact absurd (Nat.div_eq_of_lt hlt) hq
        · exact hge
      have hk : (-e).toNat < 34 := by
        rcases Nat.lt_or_ge (-e).toNat 34 with hlt | hge
        · exact hlt
        · have : (10:Nat) ^ 34 ≤ 10 ^ (-e).toNat := Nat.pow_le_pow_right (by decide) hge
          omega
      have hql : c / 10 ^ (-e).toNat < 10 ^ (34 - (-e).toNat) := by
        rw [Nat.div_lt_iff_lt_mul hD, ← Nat.pow_add, Nat.sub_add_cancel (by omega)]; exact hc
      have := (ndigits_le_iff (k := 34 - (-e).toNat) hqp).2 hql
      omega


theorem bits03 (x : U128) : Dec.C03GenCompare.bitsOf x = bitsOf x := rfl

/-- the result of `bid128_round_integral_zero` in this file's vocabulary -/
theorem riz (x : U128) (f : UInt32) :
    bid128_round_integral_zero x f =
      .ok (ofBits (encode (Dec.C08GenRoundIntegral.riD .rtz (dOf x))), Dec.C08GenRoundIntegral.riFlags f (dOf x)) :=
  Dec.C08GenRoundIntegral.round_integral_zero_spec x f

/-- `x.w[1] & 0x7c… == 0x78…`: x is an infinity -/
theorem inf_test (x : U128) : (x.w1 &&& 0x7c00000000000000 == 0x7800000000000000) = (dOf x).isInf := by
  have e := Dec.C06GenFromInt.test_anyinf x
  rw [show c_MASK_ANY_INF = (0x7c00000000000000 : UInt64) from rfl, show c_MASK_INF = (0x7800000000000000 : UInt64) from rfl] at e
  rw [e]
  show _ = (decode (Dec.C06GenFromInt.bitsOf x)).isInf
  rcases decode_cases (Dec.C06GenFromInt.bitsOf x) with ⟨h1, h2⟩ | ⟨h1, h2⟩ | ⟨h1, h2⟩ | ⟨h1, h2⟩
  · rw [decode_inf _ h1 h2]; simp [h1, h2, Datum.isInf]
  · rw [decode_nan _ h1 h2]; simp [h1, h2, Datum.isInf]
  · rw [decode_large _ h1 h2]; simp [Datum.isInf]; omega
  · rw [decode_small _ h1 h2]; simp [Datum.isInf]; omega

/-- **`bid128_modf`, finite operand** (canonical or not): the canonical encodings of `modfD`'s two data, status word
unchanged -/
theorem modf_fin (x : U128) (f : UInt32) (s : Bool) (c : Nat) (e : Int) (hx : dOf x = .fin s c e) :
    bid128_modf x f = .ok ((ofBits (encode (modfD (.fin s c e)).1), ofBits (encode (modfD (.fin s c e)).2)), f) := by
  have wf : (Datum.fin s c e).WF := by rw [← hx]; exact decode_WF _
  have wI := truncD_WF wf
  have hri : Dec.C08GenRoundIntegral.riD .rtz (dOf x) = truncD s c e := by rw [hx]; rfl
  have hfl : Dec.C08GenRoundIntegral.riFlags f (dOf x) = f := by rw [hx]; rfl
  -- the subtraction
  have hxin : (decode (Dec.C06GenFromInt.bitsOf (ofBits (encode (truncD s c e))))).isNaN = false := by
    rw [bitsOf_ofBits (encode_lt wI), decode_encode wI]
    by_cases he : 0 ≤ e
    · rw [truncD_nonneg _ _ _ he]; rfl
    · rw [truncD_neg _ _ _ (by omega)]; rfl
  have hsub : bid128_sub x (ofBits (encode (truncD s c e))) .NearestEven f =
      .ok (ofBits (encode (subD .rne (.fin s c e) (truncD s c e)).1), f) := by
    rw [Dec.C06GenFromInt.sub_eq, if_neg (by rw [hxin]; decide), bitsOf_ofBits (encode_lt wI), encode_flip wI]
    have hdy : decode (Dec.C06GenFromInt.bitsOf (ofBits (encode (truncD s c e).negate))) = (truncD s c e).negate := by
      rw [bitsOf_ofBits (encode_lt (negate_WF wI)), decode_encode (negate_WF wI)]
    have hcov := (Dec.C01GenAdd.add_cases_covered x (ofBits (encode (truncD s c e).negate)) .NearestEven f).2
      (by rw [hdy, show decode (Dec.C06GenFromInt.bitsOf x) = dOf x from rfl, hx]; exact covered_trunc s c e wf)
    rw [hcov, hdy, show decode (Dec.C06GenFromInt.bitsOf x) = dOf x from rfl, hx]
    show Except.ok (ofBits (encode (subD .rne (.fin s c e) (truncD s c e)).1),
      f ||| UInt32.ofNat (subD .rne (.fin s c e) (truncD s c e)).2) = _
    rw [sub_trunc s c e wf]
    exact congrArg (fun g => Except.ok (_, g)) UInt32.or_zero
  unfold bid128_modf
  take_call (riz x f)
  take_neg
  · rw [inf_test, hx]; exact Bool.false_ne_true
  rw [hri, hfl]
  take_call hsub
  head_step
  -- the two sign ORs
  have hneg : (dOf x).neg = s := by rw [hx]; rfl
  have wD : (subD .rne (.fin s c e) (truncD s c e)).1.WF := by
    rw [sub_trunc s c e wf]
    obtain ⟨hc, h1, h2⟩ := wf
    have hcl := clampInt_spec e (show eMin ≤ eMax by decide)
    show (if 0 ≤ e then Datum.fin false 0 (clampInt eMin eMax e)
       else if c % 10 ^ (-e).toNat = 0 then .fin false 0 (clampInt eMin eMax e) else .fin s (c % 10 ^ (-e).toNat) e).WF
    split
    · exact ⟨by decide, hcl.1, hcl.2.1⟩
    · split
      · exact ⟨by decide, hcl.1, hcl.2.1⟩
      · exact ⟨Nat.lt_of_le_of_lt (Nat.mod_le _ _) hc, h1, h2⟩
  have k1 := or_sign wI x
  have k2 := or_sign wD x
  rw [hneg] at k1 k2
  show Except.ok ((((⟨(ofBits (encode (truncD s c e))).w0, (ofBits (encode (truncD s c e))).w1 ||| (x.w1 &&& (0x8000000000000000 : UInt64))⟩ : U128),
      (⟨(ofBits (encode (subD .rne (.fin s c e) (truncD s c e)).1)).w0,
        (ofBits (encode (subD .rne (.fin s c e) (truncD s c e)).1)).w1 ||| (x.w1 &&& (0x8000000000000000 : UInt64))⟩ : U128)), f)) = _
  rw [k1, k2, Dec.C08.modf_spec]
  have hI : (if s = true then (truncD s c e).setSign true else truncD s c e) = (truncD s c e).setSign s := by
    cases s
    · have : (truncD false c e).neg = false := by
        by_cases he : 0 ≤ e
        · rw [truncD_nonneg _ _ _ he]; rfl
        · rw [truncD_neg _ _ _ (by omega)]; rfl
      simp only [Bool.false_eq_true, if_false]
      cases h : truncD false c e <;> rw [h] at this <;> simp only [Datum.neg] at this <;> subst this <;> rfl
    · rfl
  have hD : (if s = true then (subD .rne (.fin s c e) (truncD s c e)).1.setSign true
      else (subD .rne (.fin s c e) (truncD s c e)).1) = (subD .rne (.fin s c e) (truncD s c e)).1.setSign s := by
    cases s
    · simp only [Bool.false_eq_true, if_false]
      rw [sub_trunc false c e wf]
      show _ = (if 0 ≤ e then Datum.fin false 0 (clampInt eMin eMax e)
       else if c % 10 ^ (-e).toNat = 0 then .fin false 0 (clampInt eMin eMax e) else .fin false (c % 10 ^ (-e).toNat) e).setSign false
      split
      · rfl
      · split <;> rfl
    · rfl
  rw [hI, hD]


theorem sign_cases (x : U128) :
    (x.w1 &&& (0x8000000000000000 : UInt64)) = if (dOf x).neg then 0x8000000000000000 else 0 := by
  have hsw := Dec.C06GenFromInt.sign_word x
  rw [← UInt64.toNat_inj, hsw]
  show _ = (if (dOf x).neg = true then (0x8000000000000000 : UInt64) else 0).toNat
  cases (dOf x).neg <;> rfl

/-- **`bid128_modf`, infinite operand**: the infinity, and a zero of the same sign with the largest exponent -/
theorem modf_inf (x : U128) (f : UInt32) (s : Bool) (hx : dOf x = .inf s) :
    bid128_modf x f = .ok ((ofBits (encode (.inf s)), ofBits (encode (.fin s 0 eMax))), f) := by
  have hri : Dec.C08GenRoundIntegral.riD .rtz (dOf x) = .inf s := by rw [hx]; rfl
  have hfl : Dec.C08GenRoundIntegral.riFlags f (dOf x) = f := by rw [hx]; rfl
  unfold bid128_modf
  take_call (riz x f)
  take_pos
  · rw [inf_test, hx]; rfl
  head_step
  rw [hri, hfl]
  have hs := sign_cases x
  rw [hx] at hs
  show Except.ok (((⟨(ofBits (encode (.inf s))).w0, (ofBits (encode (.inf s))).w1 ||| (x.w1 &&& (0x8000000000000000 : UInt64))⟩ : U128),
    (⟨0, ((x.w1 &&& (0x8000000000000000 : UInt64)) ||| 0x5ffe000000000000) ||| (x.w1 &&& (0x8000000000000000 : UInt64))⟩ : U128)), f) = _
  rw [hs]
  apply congrArg (fun p => Except.ok (p, f))
  cases s <;> decide +kernel

/-- **`bid128_modf`, NaN operand**: the quiet canonical NaN twice; invalid iff the operand is signalling -/
theorem modf_nan (x : U128) (f : UInt32) (hx : (dOf x).isNaN = true) :
    bid128_modf x f = .ok ((qnanU x, qnanU x), nanFlags f [dOf x]) := by
  have wq : (quietNaN (dOf x)).WF := Dec.C12GenNaN.quietNaN_WF (decode_WF _)
  have hri : Dec.C08GenRoundIntegral.riD .rtz (dOf x) = quietNaN (dOf x) := by
    unfold Dec.C08GenRoundIntegral.riD; rw [if_pos hx]
  have hq : ofBits (encode (quietNaN (dOf x))) = qnanU x := rfl
  have hnn : (dOf x).isInf = false := by cases h : dOf x <;> first | rfl | (rw [h] at hx; exact Bool.noConfusion hx)
  have hdq : decode (Dec.C06GenFromInt.bitsOf (qnanU x)) = quietNaN (dOf x) := by
    rw [Dec.C12GenNaN.bitsOf_qnanU]; exact decode_encode wq
  have hqs : (quietNaN (dOf x)).isSNaN = false := by cases h : dOf x <;> rfl
  have hsub : bid128_sub x (qnanU x) .NearestEven (Dec.C08GenRoundIntegral.riFlags f (dOf x)) =
      .ok (qnanU x, nanFlags f [dOf x]) := by
    rw [sub_nan x (qnanU x) _ _ (by rw [show decode (Dec.C06GenFromInt.bitsOf x) = dOf x from rfl, hx]; rfl)]
    unfold pick2 nanFlags Dec.C08GenRoundIntegral.riFlags
    rw [show decode (Dec.C06GenFromInt.bitsOf x) = dOf x from rfl, hx, hdq]
    simp only [if_true, List.any_cons, List.any_nil, Bool.or_false, hqs]
    cases (dOf x).isSNaN
    · rfl
    · simp only [if_true]; rw [or_one_one]
  unfold bid128_modf
  take_call (riz x f)
  take_neg
  · rw [inf_test, hnn]; exact Bool.false_ne_true
  rw [hri, hq]
  take_call hsub
  head_step
  have k := or_sign wq x
  rw [hq] at k
  have hk : (if (dOf x).neg = true then (quietNaN (dOf x)).setSign true else quietNaN (dOf x)) = quietNaN (dOf x) := by
    cases h : dOf x with
    | fin _ _ _ => rw [h] at hx; exact Bool.noConfusion hx
    | inf _ => rw [h] at hx; exact Bool.noConfusion hx
    | nan s g p => cases s <;> rfl
  rw [hk, hq] at k
  show Except.ok (((⟨(qnanU x).w0, (qnanU x).w1 ||| (x.w1 &&& (0x8000000000000000 : UInt64))⟩ : U128),
    (⟨(qnanU x).w0, (qnanU x).w1 ||| (x.w1 &&& (0x8000000000000000 : UInt64))⟩ : U128)), _) = _
  rw [k]


/-- what `bid128_modf` returns (integral part, fractional part) and the outgoing status word -/
def modfOut (x : U128) (f : UInt32) : (U128 × U128) × UInt32 :=
  if (dOf x).isNaN then ((qnanU x, qnanU x), nanFlags f [dOf x])
  else ((ofBits (encode (modfD (dOf x)).1), ofBits (encode (modfD (dOf x)).2)), f)

/-- **`bid128_modf` on all patterns and status words** (the routine composes `bid128_round_integral_zero`,
`bid128_sub` in ties-to-even, and two sign ORs): never panics; a NaN gives its quiet canonical form twice and invalid iff it
is signalling; an infinity gives itself and a zero of its sign at the largest exponent; a finite operand the canonical
encodings of `modfD`'s integral and fractional parts; the status word is otherwise unchanged -/
theorem modf_all (x : U128) (f : UInt32) : bid128_modf x f = .ok (modfOut x f) := by
  unfold modfOut
  cases hd : dOf x with
  | nan s g p => rw [if_pos (show (Datum.nan s g p).isNaN = true from rfl), ← hd]; exact modf_nan x f (by rw [hd]; rfl)
  | inf s => rw [if_neg (by exact Bool.false_ne_true)]; exact modf_inf x f s hd
  | fin s c e => rw [if_neg (by exact Bool.false_ne_true)]; exact modf_fin x f s c e hd

/-- C08, `modf`, every pattern and status word: the method returns normally the two parts of `modfOut` -/
theorem modf_spec (m : RoundingMode) (f : UInt32) (x : U128) :
    run "modf" m f [.d x] = some (.ok ([.d (modfOut x f).1.1, .d (modfOut x f).1.2], (modfOut x f).2)) := by
  show some ((bid128_modf x f).map _) = _
  rw [modf_all]
  generalize modfOut x f = p
  obtain ⟨⟨a, b⟩, c⟩ := p
  rfl

/-- C08: "modf returns the toward-zero integral part together with the exact difference x minus it, both carrying the sign
of x" — for a finite operand `±c·10^e` (any pattern; a non-canonical one is a zero): the method returns, the status word is
unchanged, both results are canonical finite numbers with the sign of x; the integral part has exponent `0` (`e` itself if
`e ≥ 0`) and the value of x truncated toward zero, and the value of the fractional part is exactly `x − integral part`
(values as rationals, `fval s c e = ±c·10^e`) -/
theorem modf_property (md : RoundingMode) (f : UInt32) (x : U128) (s : Bool) (c : Nat) (e : Int) (hx : dOf x = .fin s c e) :
    ∃ (i fr : U128) (mi cf : Nat) (ef : Int), run "modf" md f [.d x] = some (.ok ([.d i, .d fr], f)) ∧
      dOf i = .fin s mi (Dec.C08Q.resExp e) ∧ dOf fr = .fin s cf ef ∧
      isCanonical (bitsOf i) = true ∧ isCanonical (bitsOf fr) = true ∧
      fval s mi (Dec.C08Q.resExp e) = ((if 0 ≤ fval s c e then ⌊fval s c e⌋ else ⌈fval s c e⌉ : Int) : ℚ) ∧
      fval s cf ef = fval s c e - fval s mi (Dec.C08Q.resExp e) := by
  have wf : (Datum.fin s c e).WF := by rw [← hx]; exact decode_WF _
  obtain ⟨mi, cf, ef, hm, hrep, v1, v2⟩ := Dec.C08Q.modf_spec_Q s c e wf
  have w1 : (Datum.fin s mi (Dec.C08Q.resExp e)).WF := by
    have := truncD_WF wf
    have h1 : (modfD (.fin s c e)).1 = (truncD s c e).setSign s := rfl
    rw [hm] at h1
    simp only at h1
    rw [h1]; exact setSign_WF this s
  have w2 : (Datum.fin s cf ef).WF := hrep
  have hout : modfOut x f = ((ofBits (encode (.fin s mi (Dec.C08Q.resExp e))), ofBits (encode (.fin s cf ef))), f) := by
    unfold modfOut
    rw [hx, if_neg (by exact Bool.false_ne_true), hm]
  refine ⟨_, _, mi, cf, ef, by rw [modf_spec, hout], ?_, ?_, ?_, ?_, v1, v2⟩
  · show decode (Dec.C06GenFromInt.bitsOf _) = _; rw [bitsOf_ofBits (encode_lt w1)]; exact decode_encode w1
  · show decode (Dec.C06GenFromInt.bitsOf _) = _; rw [bitsOf_ofBits (encode_lt w2)]; exact decode_encode w2
  · show isCanonical (Dec.C06GenFromInt.bitsOf _) = true; rw [bitsOf_ofBits (encode_lt w1)]; exact isCanonical_encode w1
  · show isCanonical (Dec.C06GenFromInt.bitsOf _) = true; rw [bitsOf_ofBits (encode_lt w2)]; exact isCanonical_encode w2

/-- … an infinity gives itself (canonical) and a zero of the same sign; a NaN gives its quiet canonical form twice, invalid
iff it is signalling; nothing else is raised -/
theorem modf_specials (md : RoundingMode) (f : UInt32) (x : U128) :
    (∀ s, dOf x = .inf s → run "modf" md f [.d x]
        = some (.ok ([.d (ofBits (encode (.inf s))), .d (ofBits (encode (.fin s 0 eMax)))], f))) ∧
    ((dOf x).isNaN = true → run "modf" md f [.d x]
        = some (.ok ([.d (qnanU x), .d (qnanU x)], if (dOf x).isSNaN then f ||| 1 else f))) := by
  constructor
  · intro s hd
    rw [modf_spec]
    have : modfOut x f = ((ofBits (encode (.inf s)), ofBits (encode (.fin s 0 eMax))), f) := by
      unfold modfOut; rw [hd, if_neg (by exact Bool.false_ne_true)]; rfl
    rw [this]
  · intro hn
    rw [modf_spec]
    have : modfOut x f = ((qnanU x, qnanU x), if (dOf x).isSNaN then f ||| 1 else f) := by
      unfold modfOut nanFlags; rw [if_pos hn]
      simp only [List.any_cons, List.any_nil, Bool.or_false]
    rw [this]


/-- the judge's expectation for `modf`, as written in DecModel/Ops.lean -/
theorem modf_expect (m : Mode) (b : Nat) (ta : Bool) : expectCore "modf" m [.d b] ta =
    (match decode b with
     | n@(.nan ..) =>
       .oneOf [[.d (encode (quietNaN n)), .d (encode (quietNaN n))]] (if n.isSNaN then fInvalid else 0)
     | .inf s =>
       .pred "modf(Inf): integral part Inf, fractional part a zero, both with the sign of x"
         (fun r => match r with
           | [.d i, .d f] => i == encode (.inf s) && (decode f).isZero && (decode f).neg == s && isCanonical f
           | _ => false) 0
     | a => let r := modfD a; exactly [.d (encode r.1), .d (encode r.2)] 0) := rfl

/-- **the judge accepts what the translated `bid128_modf` returns** (`expect "modf"`, DecModel/Ops.lean: the NaN rule on
both results for a NaN, a predicate for an infinity, `modfD` exactly otherwise) -/
theorem modf_accepted (m : Mode) (ta : Bool) (x : U128) (f : UInt32) :
    ∃ c, accepts ta ⟨"modf", m, f.toNat, [.d (bitsOf x)],
      some ([.d (bitsOf (modfOut x f).1.1), .d (bitsOf (modfOut x f).1.2)], (modfOut x f).2.toNat)⟩ = .ok c := by
  rw [Dec.JudgeSound.accepts_def]
  show ∃ c, judgeWith (expectCore "modf" m [.d (bitsOf x)] ta) _ = _
  rw [modf_expect]
  have wfx := decode_WF (bitsOf x)
  cases hd : dOf x with
  | nan s g p =>
    rw [show decode (bitsOf x) = dOf x from rfl, hd]
    have hout : modfOut x f = ((qnanU x, qnanU x), nanFlags f [dOf x]) := by
      unfold modfOut; rw [hd, if_pos (show (Datum.nan s g p).isNaN = true from rfl)]
    rw [hout]
    simp only
    rw [Dec.JudgeSound.ok_oneOf_iff]
    refine ⟨_, _, rfl, ?_, ?_⟩
    · simp only [List.mem_singleton]
      rw [show bitsOf (qnanU x) = encode (quietNaN (dOf x)) from Dec.C12GenNaN.bitsOf_qnanU x, hd]
    · show (nanFlags f [dOf x]).toNat = _
      rw [Dec.C12GenNaN.nanFlags_toNat, hd]
      simp only [List.any_cons, List.any_nil, Bool.or_false]
  | inf s =>
    rw [show decode (bitsOf x) = dOf x from rfl, hd]
    have hout : modfOut x f = ((ofBits (encode (.inf s)), ofBits (encode (.fin s 0 eMax))), f) := by
      unfold modfOut; rw [hd, if_neg (by exact Bool.false_ne_true)]; rfl
    rw [hout]
    have b1 : bitsOf (ofBits (encode (.inf s))) = encode (.inf s) := bitsOf_ofBits (encode_lt (d := .inf s) trivial)
    have wz : (Datum.fin s 0 eMax).WF := ⟨by decide, by decide, by decide⟩
    have b2 : bitsOf (ofBits (encode (.fin s 0 eMax))) = encode (.fin s 0 eMax) := bitsOf_ofBits (encode_lt wz)
    simp only [b1, b2]
    have hp : (encode (.inf s) == encode (.inf s) && (decode (encode (.fin s 0 eMax))).isZero &&
        (decode (encode (.fin s 0 eMax))).neg == s && isCanonical (encode (.fin s 0 eMax))) = true := by
      rw [decode_encode wz, isCanonical_encode wz]
      simp only [beq_self_eq_true, Datum.isZero, Datum.neg, Bool.and_self]
    unfold judgeWith
    simp only
    rw [hp, if_neg (by decide), if_neg (by rw [Nat.or_zero]; exact fun h => h rfl)]
    exact ⟨_, rfl⟩
  | fin s c e =>
    rw [show decode (bitsOf x) = dOf x from rfl, hd]
    have hout : modfOut x f = ((ofBits (encode (modfD (.fin s c e)).1), ofBits (encode (modfD (.fin s c e)).2)), f) := by
      unfold modfOut; rw [hd, if_neg (by exact Bool.false_ne_true)]
    rw [hout]
    have wf : (Datum.fin s c e).WF := by rw [← hd]; exact wfx
    obtain ⟨mi, cf, ef, hm, hrep, -, -⟩ := Dec.C08Q.modf_spec_Q s c e wf
    have w1 : (modfD (.fin s c e)).1.WF := setSign_WF (truncD_WF wf) s
    have w2 : (modfD (.fin s c e)).2.WF := by rw [hm]; exact hrep
    simp only
    rw [Dec.JudgeSound.ok_exact_iff]
    have b1 : bitsOf (ofBits (encode (modfD (.fin s c e)).1)) = encode (modfD (.fin s c e)).1 := bitsOf_ofBits (encode_lt w1)
    have b2 : bitsOf (ofBits (encode (modfD (.fin s c e)).2)) = encode (modfD (.fin s c e)).2 := bitsOf_ofBits (encode_lt w2)
    show some ([Val.d (bitsOf (ofBits _)), Val.d (bitsOf (ofBits _))], f.toNat) = some (_, f.toNat ||| 0)
    rw [b1, b2, Nat.or_zero]


-- −7.25 ↦ (−7, −0.25); 7E+2 ↦ (7E+2, +0E+2); −7.00 ↦ (−7, −0.00); status word 2 untouched
example : run "modf" .NearestEven 2 [.d ⟨725, 0xb03c000000000000⟩]
    = some (.ok ([.d ⟨7, 0xb040000000000000⟩, .d ⟨25, 0xb03c000000000000⟩], 2)) := by decide +kernel
example : run "modf" .NearestEven 2 [.d ⟨7, 0x3044000000000000⟩]
    = some (.ok ([.d ⟨7, 0x3044000000000000⟩, .d ⟨0, 0x3044000000000000⟩], 2)) := by decide +kernel
example : run "modf" .NearestEven 2 [.d ⟨700, 0xb03c000000000000⟩]
    = some (.ok ([.d ⟨7, 0xb040000000000000⟩, .d ⟨0, 0xb03c000000000000⟩], 2)) := by decide +kernel
-- −Inf (with garbage in the low bits) ↦ (−Inf, −0E+6111); −sNaN(5) ↦ (−NaN(5), −NaN(5)), invalid
example : run "modf" .NearestEven 2 [.d ⟨5, 0xf800000000000001⟩]
    = some (.ok ([.d ⟨0, 0xf800000000000000⟩, .d ⟨0, 0xdffe000000000000⟩], 2)) := by decide +kernel
example : run "modf" .NearestEven 2 [.d ⟨5, 0xfe00000000000000⟩]
    = some (.ok ([.d ⟨5, 0xfc00000000000000⟩, .d ⟨5, 0xfc00000000000000⟩], 3)) := by decide +kernel
-- a non-canonical operand (coefficient 10^34) is +0E+0: (+0E+0, +0E+0)
example : run "modf" .NearestEven 2 [.d ⟨0x378d8e6400000000, 0x3041ed09bead87c0⟩]
    = some (.ok ([.d ⟨0, 0x3040000000000000⟩, .d ⟨0, 0x3040000000000000⟩], 2)) := by decide +kernel
-- through the theorems: the model's two parts of −7.25
example : modfD (dOf ⟨725, 0xb03c000000000000⟩) = (.fin true 7 0, .fin true 25 (-2)) := by decide +kernel
example : ∃ c, accepts false ⟨"modf", .rne, 2, [.d (bitsOf ⟨725, 0xb03c000000000000⟩)],
    some ([.d (bitsOf (modfOut ⟨725, 0xb03c000000000000⟩ 2).1.1), .d (bitsOf (modfOut ⟨725, 0xb03c000000000000⟩ 2).1.2)],
      (modfOut ⟨725, 0xb03c000000000000⟩ 2).2.toNat)⟩ = .ok c :=
  modf_accepted .rne false ⟨725, 0xb03c000000000000⟩ 2

end Dec.SourceLevel2
